From Coq Require Import Extraction ExtrOcamlBasic.
From GV.Model Require Import Dispatch.
Extraction Language OCaml.
Extraction "model.ml" dispatch.
