(* The breadth-first search of Reward.v (the model of `dijkstra`) computes shortest-path lengths: soundness, minimality, completeness,
   and the fuel S (h * w) is always enough. *)
From Coq Require Import ZArith List Bool Lia.
From GV.Model Require Import Reward.
From GV.Lemmas Require Import GridL.
Import ListNotations.
Open Scope Z_scope.

Lemma pos_eqb_iff p q : pos_eqb p q = true <-> p = q.
Proof. unfold pos_eqb. rewrite andb_true_iff, !Z.eqb_eq. destruct p, q; cbn. split; [intros [-> ->]; auto | intros E; injection E; auto]. Qed.
Lemma memP_iff p l : memP p l = true <-> In p l.
Proof.
  unfold memP. rewrite existsb_exists. split; [intros (q & Hq & E); apply pos_eqb_iff in E; now subst | intros H; exists p; split; auto; now apply pos_eqb_iff].
Qed.
Lemma memP_false p l : memP p l = false <-> ~ In p l.
Proof. rewrite <- memP_iff. destruct (memP p l); split; congruence. Qed.
Lemma dedupP_In p l : In p (dedupP l) <-> In p l.
Proof.
  induction l as [|q t IH]; cbn [dedupP]; [tauto|]. destruct (memP q t) eqn:E.
  - rewrite IH. apply memP_iff in E. cbn. split; [auto | intros [<-|H]; auto].
  - cbn [In]. rewrite IH. tauto.
Qed.
Lemma dedupP_NoDup l : NoDup (dedupP l).
Proof.
  induction l as [|q t IH]; cbn [dedupP]; [constructor|]. destruct (memP q t) eqn:E; auto.
  constructor; auto. rewrite dedupP_In. now apply memP_false.
Qed.

Section Bfs.
Variables (g : grid) (src : pos).

(* one move of the search: to a 4-neighbour that is inside the grid and does not block movement *)
Definition step_ok (p q : pos) : Prop := In q (nbrs_bfs p) /\ passable g q = true.
(* walk q n : q is reached from src by n moves (the source cell itself need not be passable: the code marks it visited unconditionally) *)
Inductive walk : pos -> nat -> Prop :=
| walk0 : walk src 0
| walkS q r n : walk q n -> step_ok q r -> walk r (S n).
Definition within (k : nat) (q : pos) : Prop := exists m, (m <= k)%nat /\ walk q m.
Definition exactly (k : nat) (q : pos) : Prop := walk q k /\ forall m, (m < k)%nat -> ~ walk q m.

(* the state of the search at level k *)
Record inv (k : nat) (visited frontier : list pos) : Prop := {
  inv_v : forall q, In q visited <-> within k q;
  inv_f : forall q, In q frontier <-> exactly k q;
  inv_nd : NoDup visited;
  inv_in : forall q, In q visited -> q = src \/ in_grid g q = true;
  inv_len : (k < length visited)%nat
}.
Definition next_of (visited frontier : list pos) : list pos :=
  dedupP (filter (fun q => passable g q && negb (memP q visited)) (flat_map nbrs_bfs frontier)).

Lemma next_spec k visited frontier q : inv k visited frontier -> In q (next_of visited frontier) <-> exactly (S k) q.
Proof.
  intros I. unfold next_of. rewrite dedupP_In, filter_In, in_flat_map, andb_true_iff, negb_true_iff, memP_false. split.
  - intros ((p & Hp & Hq) & Hpass & Hnv). apply (inv_f _ _ _ I) in Hp. destruct Hp as [Wp _]. split.
    + econstructor; [exact Wp | split; auto].
    + intros m Hm Wm. apply Hnv. apply (inv_v _ _ _ I). exists m. split; [lia | auto].
  - intros [W Hmin]. inversion W as [|r q' n Wr [Hnb Hpass] E1 E2]; subst. repeat split; auto.
    + exists r. split; auto. apply (inv_f _ _ _ I). split; auto.
      intros m Hm Wm. apply (Hmin (S m)); [lia|]. econstructor; [exact Wm | split; auto].
    + intros Hin. apply (inv_v _ _ _ I) in Hin. destruct Hin as (m & Hm & Wm). apply (Hmin m); [lia | auto].
Qed.
Lemma exactly_within k q : exactly k q -> within k q.
Proof. intros [W _]. exists k. split; auto. Qed.
Lemma passable_in_grid q : passable g q = true -> in_grid g q = true.
Proof. unfold passable. rewrite andb_true_iff. tauto. Qed.

Lemma inv_next k visited frontier : inv k visited frontier -> next_of visited frontier <> [] ->
  inv (S k) (next_of visited frontier ++ visited) (next_of visited frontier).
Proof.
  intros I Hne. pose proof (next_spec k visited frontier) as NS. constructor.
  - intros q. rewrite in_app_iff, (NS q I), (inv_v _ _ _ I). split.
    + intros [H|(m & Hm & W)]; [now apply exactly_within | exists m; split; [lia | auto]].
    + intros (m & Hm & W). destruct (Nat.eq_dec m (S k)) as [->|Hne'].
      * (* either q was already within k, or this is the first time *)
        destruct (memP q visited) eqn:E.
        -- right. apply (inv_v _ _ _ I). now apply memP_iff.
        -- left. split; auto. intros j Hj Wj. apply memP_false in E. apply E. apply (inv_v _ _ _ I). exists j. split; [lia | auto].
      * right. exists m. split; [lia | auto].
  - intros q. apply (NS q I).
  - apply NoDup_app_intro; [apply dedupP_NoDup | apply (inv_nd _ _ _ I) |].
    intros q Hq Hv. apply (NS q I) in Hq. destruct Hq as [_ Hmin]. apply (inv_v _ _ _ I) in Hv. destruct Hv as (m & Hm & W). apply (Hmin m); [lia | auto].
  - intros q Hq. apply in_app_iff in Hq. destruct Hq as [Hq|Hq]; [|apply (inv_in _ _ _ I); auto].
    right. apply (NS q I) in Hq. destruct Hq as [W _]. inversion W as [|r q' n Wr [Hnb Hpass] E1 E2]; subst. now apply passable_in_grid.
  - rewrite app_length. pose proof (inv_len _ _ _ I). destruct (next_of visited frontier); [contradiction | cbn; lia].
Qed.
Lemma inv_init : inv 0 [src] [src].
Proof.
  constructor.
  - intros q. cbn. split.
    + intros [<-|[]]. exists 0%nat. split; [lia | constructor].
    + intros (m & Hm & W). assert (m = 0%nat) by lia. subst. inversion W. auto.
  - intros q. cbn. split.
    + intros [<-|[]]. split; [constructor | intros m Hm; lia].
    + intros [W _]. inversion W. auto.
  - repeat constructor. intros [].
  - intros q [<-|[]]. auto.
  - cbn. lia.
Qed.

(* counting: visited cells are distinct and (but for the source) inside the grid *)
Lemma length_zrange_n lo n : length (zrange_n lo n) = n.
Proof. revert lo; induction n as [|n IH]; intros lo; cbn; auto. Qed.
Lemma length_pairs (ys xs : list Z) : length (flat_map (fun y => map (fun x => (y, x)) xs) ys) = (length ys * length xs)%nat.
Proof. induction ys as [|y t IH]; cbn [flat_map length]; auto. rewrite app_length, map_length, IH. lia. Qed.
Lemma length_gpositions : wf_grid g -> length (gpositions g) = Z.to_nat (gheight g * gwidth g).
Proof.
  intros W. pose proof (wf_height_pos g W). destruct W as (_ & _ & Hw).
  unfold gpositions, apositions, garea. cbn [ymin ymax xmin xmax]. rewrite length_pairs. unfold zrange. rewrite !length_zrange_n.
  rewrite Z2Nat.inj_mul by lia. f_equal; f_equal; lia.
Qed.
Lemma visited_bound k visited frontier : wf_grid g -> inv k visited frontier -> (length visited <= S (Z.to_nat (gheight g * gwidth g)))%nat.
Proof.
  intros W I. rewrite <- (length_gpositions W).
  assert (H : incl visited (src :: gpositions g)).
  { intros q Hq. destruct (inv_in _ _ _ I q Hq) as [->|Hin]; [left; auto | right; now apply gpositions_In]. }
  apply (NoDup_incl_length (inv_nd _ _ _ I)) in H. cbn [length] in H. exact H.
Qed.

(* ---------- the search itself ---------- *)
Lemma bfs_unfold f visited frontier dst level :
  bfs (S f) g visited frontier dst level =
  if memP dst frontier then Some level else
  match next_of visited frontier with [] => None | _ => bfs f g (next_of visited frontier ++ visited) (next_of visited frontier) dst (level + 1) end.
Proof. reflexivity. Qed.

(* soundness and minimality: an answer is the length of a walk, and no shorter walk exists *)
Lemma bfs_sound f : forall k visited frontier dst d, inv k visited frontier ->
  bfs f g visited frontier dst (Z.of_nat k) = Some d -> d = Z.of_nat (Z.to_nat d) /\ exactly (Z.to_nat d) dst.
Proof.
  induction f as [|f IH]; intros k visited frontier dst d I H; [discriminate|]. rewrite bfs_unfold in H.
  destruct (memP dst frontier) eqn:E.
  - injection H as <-. rewrite Nat2Z.id. split; [reflexivity|]. apply (inv_f _ _ _ I). now apply memP_iff.
  - destruct (next_of visited frontier) as [|x t] eqn:N; [discriminate|].
    apply (IH (S k) ((x :: t) ++ visited) (x :: t) dst d); [rewrite <- N; apply inv_next; auto; rewrite N; discriminate|].
    rewrite Nat2Z.inj_succ. unfold Z.succ. exact H.
Qed.
(* if the search gives up although fuel is left, the destination cannot be reached at all *)
Lemma first_outside k visited frontier : inv k visited frontier -> forall n q, walk q n -> ~ In q visited ->
  exists r, exactly (S k) r.
Proof.
  intros I. induction n as [|n IH]; intros q W Hq.
  - inversion W; subst. exfalso. apply Hq. apply (inv_v _ _ _ I). exists 0%nat. split; [lia | constructor].
  - inversion W as [|r q' n' Wr St E1 E2]; subst. destruct (memP r visited) eqn:E.
    + apply memP_iff in E. apply (inv_v _ _ _ I) in E. destruct E as (m & Hm & Wm).
      (* r is within k, q is one move further and not within k: q is at distance exactly k + 1 *)
      exists q. split.
      * assert (W1 : walk q (S m)) by (econstructor; eauto).
        destruct (Nat.eq_dec m k) as [->|Hne]; [exact W1|]. exfalso. apply Hq. apply (inv_v _ _ _ I). exists (S m). split; [lia | auto].
      * intros j Hj Wj. apply Hq. apply (inv_v _ _ _ I). exists j. split; [lia | auto].
    + apply memP_false in E. eapply IH; eauto.
Qed.
Definition not_before (dst : pos) (k : nat) : Prop := forall m, (m < k)%nat -> ~ walk dst m.
Lemma not_before_next k visited frontier dst : inv k visited frontier -> not_before dst k -> ~ In dst frontier -> not_before dst (S k).
Proof.
  intros I P E m Hm Wm. destruct (Nat.eq_dec m k) as [->|Hne]; [|apply (P m); [lia | auto]].
  apply E. apply (inv_f _ _ _ I). split; auto.
Qed.
Lemma bfs_none f : forall k visited frontier dst, inv k visited frontier -> not_before dst k ->
  (S (Z.to_nat (gheight g * gwidth g)) < f + length visited)%nat -> wf_grid g ->
  bfs f g visited frontier dst (Z.of_nat k) = None -> forall n, ~ walk dst n.
Proof.
  induction f as [|f IH]; intros k visited frontier dst I P Hf W H n Wn.
  - pose proof (visited_bound k visited frontier W I). lia.
  - rewrite bfs_unfold in H. destruct (memP dst frontier) eqn:E; [discriminate|]. apply memP_false in E.
    pose proof (not_before_next k visited frontier dst I P E) as P1.
    destruct (next_of visited frontier) as [|x t] eqn:N.
    + assert (Hnv : ~ In dst visited).
      { intros Hv. apply (inv_v _ _ _ I) in Hv. destruct Hv as (m & Hm & Wm). apply (P1 m); [lia | auto]. }
      destruct (first_outside k visited frontier I n dst Wn Hnv) as (r & Hr).
      apply (next_spec k visited frontier r I) in Hr. rewrite N in Hr. destruct Hr.
    + refine (IH (S k) ((x :: t) ++ visited) (x :: t) dst _ P1 _ W _ n Wn).
      * rewrite <- N. apply inv_next; auto. rewrite N. discriminate.
      * rewrite app_length. cbn [length]. lia.
      * rewrite Nat2Z.inj_succ. unfold Z.succ. exact H.
Qed.

(* ---------- the specification of `shortest` ---------- *)
Theorem shortest_sound dst d : shortest g src dst = Some d -> 0 <= d /\ exactly (Z.to_nat d) dst.
Proof.
  unfold shortest. intros H. destruct (bfs_sound (S (Z.to_nat (gheight g * gwidth g))) 0%nat [src] [src] dst d inv_init H) as [E X]. split; [lia | auto].
Qed.
Theorem shortest_none dst : wf_grid g -> shortest g src dst = None -> forall n, ~ walk dst n.
Proof.
  unfold shortest. intros W H. apply (bfs_none (S (Z.to_nat (gheight g * gwidth g))) 0%nat [src] [src] dst inv_init); auto.
  - intros m Hm. lia.
  - cbn [length]. lia.
Qed.
(* completeness: whenever the destination can be reached at all, the search returns the minimal number of moves *)
Theorem shortest_complete dst n : wf_grid g -> walk dst n -> exists d, shortest g src dst = Some d /\ (Z.to_nat d <= n)%nat /\ exactly (Z.to_nat d) dst.
Proof.
  intros W Wn. destruct (shortest g src dst) as [d|] eqn:E.
  - destruct (shortest_sound dst d E) as [Hd X]. exists d. repeat split; auto; try apply X.
    destruct (Nat.le_gt_cases (Z.to_nat d) n) as [|Hlt]; auto. exfalso. exact (proj2 X n Hlt Wn).
  - exfalso. exact (shortest_none dst W E n Wn).
Qed.
End Bfs.
