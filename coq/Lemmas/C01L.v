(* C01: every step from a valid state is a valid transition (closure and totality) *)
From Coq Require Import ZArith List Bool Lia Permutation.
From GV.Model Require Import Env.
From GV.Lemmas Require Import GridL RandL GeomL RotL TransL InvL C05L C12L C08L.
Import ListNotations.
Open Scope Z_scope.

(* ---- the space-membership predicates accept exactly the states that conform ---- *)
Definition declared (types : list Z) (o : obj) : Prop := In (oty o) types.
Definition conforms (sp : sspace) (s : state) : Prop :=
  gheight (sgrid s) = ss_h sp /\ gwidth (sgrid s) = ss_w sp /\
  (forall o, In o (concat (sgrid s)) -> declared (ss_types sp) o) /\
  in_grid (sgrid s) (spos s) = true /\
  (declared (ss_types sp) (sheld s) \/ oty (sheld s) = ty_NoneGridObject).
Lemma memZ_In x l : memZ x l = true <-> In x l.
Proof. unfold memZ. rewrite existsb_exists. split; [intros (y & Hy & E); apply Z.eqb_eq in E; subst; auto | intros H; exists x; split; auto; apply Z.eqb_refl]. Qed.
Lemma contains_iff sp s : ss_contains sp s = true <-> conforms sp s.
Proof.
  unfold ss_contains, conforms, declared, grid_types. rewrite !andb_true_iff, !Z.eqb_eq, forallb_forall, orb_true_iff, memZ_In, Z.eqb_eq.
  split.
  - intros ((((H1 & H2) & H3) & H4) & H5). repeat split; auto. intros o Ho. apply memZ_In. apply H3. now apply in_map.
  - intros (H1 & H2 & H3 & H4 & H5). repeat split; auto. intros t Ht. apply in_map_iff in Ht. destruct Ht as (o & <- & Ho). apply memZ_In. auto.
Qed.
Lemma action_eqb_eq a b : action_eqb a b = true <-> a = b.
Proof. unfold action_eqb. rewrite Z.eqb_eq. split; [destruct a, b; cbn; congruence | intros ->; reflexivity]. Qed.
Lemma as_contains_iff acts a : as_contains acts a = true <-> In a acts.
Proof. unfold as_contains. rewrite existsb_exists. split; [intros (b & Hb & E); apply action_eqb_eq in E; subst; auto | intros H; exists a; split; auto; now apply action_eqb_eq]. Qed.
Definition oconforms (sp : ospace) (o : state) : Prop :=
  gheight (sgrid o) = os_h sp /\ gwidth (sgrid o) = os_w sp /\
  (forall c, In c (concat (sgrid o)) -> (In (oty c) (os_types sp) \/ oty c = ty_Hidden) /\ In (ocol c) (0 :: os_colors sp)) /\
  (0 <= fst (spos o) < os_h sp /\ 0 <= snd (spos o) < os_w sp) /\
  (In (oty (sheld o)) (os_types sp) \/ oty (sheld o) = ty_NoneGridObject) /\ In (ocol (sheld o)) (0 :: os_colors sp).
Lemma ocontains_iff sp o : os_contains sp o = true <-> oconforms sp o.
Proof.
  unfold os_contains, oconforms, grid_types, os_colors_all.
  rewrite !andb_true_iff, !Z.eqb_eq, !forallb_forall, !orb_true_iff, !memZ_In, !Z.eqb_eq, !Z.leb_le, !Z.ltb_lt.
  split.
  - intros (((((((((H1 & H2) & H3) & H4) & H5) & H6) & H7) & H8) & H9) & H10). repeat split; auto.
    + specialize (H3 (oty c) (in_map oty _ _ H)). rewrite orb_true_iff, memZ_In, Z.eqb_eq in H3. exact H3.
    + specialize (H4 c H). apply memZ_In in H4. exact H4.
  - intros (H1 & H2 & H3 & ((H5 & H6) & (H7 & H8)) & H9 & H10). repeat split; auto.
    + intros t Ht. apply in_map_iff in Ht. destruct Ht as (c & <- & Hc). rewrite orb_true_iff, memZ_In, Z.eqb_eq. apply H3; auto.
    + intros c Hc. apply memZ_In. apply H3; auto.
Qed.

(* ---- validity: conforming, well-formed, box contents hereditarily declared (documented precondition of actuate_box) ---- *)
Fixpoint contents_ok (types : list Z) (o : obj) : bool :=
  match o with
  | Obj t _ _ None => negb (t =? ty_Box)
  | Obj t _ _ (Some c) => memZ (oty c) types && contents_ok types c
  end.
Definition okobj (types : list Z) (o : obj) : Prop := In (oty o) types /\ contents_ok types o = true.
Definition okheld (types : list Z) (o : obj) : Prop := okobj types o \/ o = NoneObj.
Definition valid (sp : sspace) (s : state) : Prop :=
  wf_grid (sgrid s) /\ gheight (sgrid s) = ss_h sp /\ gwidth (sgrid s) = ss_w sp /\
  Forall (okobj (ss_types sp)) (concat (sgrid s)) /\ in_grid (sgrid s) (spos s) = true /\ okheld (ss_types sp) (sheld s).
Lemma valid_conforms sp s : valid sp s -> conforms sp s.
Proof.
  intros (Hw & Hh & Hwd & Hc & Hin & Hh'). unfold conforms. repeat split; auto.
  - intros o Ho. rewrite Forall_forall in Hc. apply Hc; auto.
  - destruct Hh' as [[H _]| ->]; [left; exact H | right; reflexivity].
Qed.

Lemma cells_gset (P : obj -> Prop) g p o : wf_grid g -> in_grid g p = true -> Forall P (concat g) -> P o -> Forall P (concat (gset g p o)).
Proof.
  intros Hw Hin Hc Ho. pose proof (concat_gset_perm g p o Hw Hin) as Pm.
  assert (F : Forall P (lookupH g p :: concat (gset g p o))) by (eapply Permutation_Forall; [apply Permutation_sym; exact Pm | constructor; auto]).
  inversion F; auto.
Qed.
Lemma cells_lookup (P : obj -> Prop) g p : wf_grid g -> in_grid g p = true -> Forall P (concat g) -> P (lookupH g p).
Proof.
  intros Hw Hin Hc. rewrite Forall_forall in Hc.
  pose proof (gget_in g p Hw Hin) as Hg. unfold gget in Hg. rewrite Hin in Hg. unfold getn in Hg.
  destruct (nth_error g (Z.to_nat (fst p))) as [r|] eqn:E; [|discriminate].
  apply Hc. apply in_concat. exists r. split; [eapply nth_error_In; eauto | eapply nth_error_In; eauto].
Qed.

Section Closure.
Variable sp : sspace.
Hypothesis floor_declared : In ty_Floor (ss_types sp).       (* documented: pickndrop puts Floor *)
Let types := ss_types sp.

Lemma ok_floor : okobj types Floor.
Proof. split; [exact floor_declared | reflexivity]. Qed.
Lemma ok_open_door d : okobj types d -> okobj types (open_door d).
Proof. destruct d as [t s c k]. intros [H1 H2]. split; [exact H1|]. destruct k; exact H2. Qed.
Lemma ok_content b c : okobj types b -> ocontent b = Some c -> okobj types c.
Proof. destruct b as [t s col k]. cbn. intros [_ H] ->. cbn in H. apply andb_true_iff in H. destruct H as [H1 H2]. split; [apply memZ_In; exact H1 | exact H2]. Qed.
Lemma ok_box_has_content b : okobj types b -> is_ty ty_Box b = true -> ocontent b <> None.
Proof. destruct b as [t s col [k|]]; cbn [ocontent]; [discriminate|]. intros [_ H] E. unfold is_ty in E. cbn [oty] in E. cbn [contents_ok] in H. rewrite E in H. discriminate. Qed.

Lemma valid_set_pos s p : valid sp s -> in_grid (sgrid s) p = true -> valid sp (set_pos s p).
Proof. intros (A & B & C & D & E & F) Hp. unfold valid; cbn [set_pos sgrid spos sheld]. auto 7. Qed.
Lemma valid_gset s p o h : valid sp s -> in_grid (sgrid s) p = true -> okobj types o -> okheld types h ->
  valid sp (mkS (gset (sgrid s) p o) (spos s) (sori s) h).
Proof.
  intros (A & B & C & D & E & F) Hp Ho Hh. unfold valid; cbn [sgrid spos sheld].
  rewrite gheight_gset, gwidth_gset, in_grid_gset. split; [apply wf_gset; auto|]. split; [auto|]. split; [auto|].
  split; [apply cells_gset; auto|]. split; auto.
Qed.

(* every built-in transition function, every action, every random outcome: no exception, and the result is valid again *)
Lemma transition_closed n s a own : valid sp s -> all_ok (valid sp) (tfun_of n s a own).
Proof.
  intros V. pose proof V as (Hw & Hh & Hwd & Hc & Hin & Hheld). destruct n; cbn [tfun_of].
  - rewrite move_agent_eq by auto. apply all_ok_Ret. unfold move_agent_pure, can_enter.
    destruct (is_move a); cbn [andb]; auto. destruct (in_grid (sgrid s) (move_target s a)) eqn:E; cbn [andb]; auto.
    destruct (negb _); auto. apply valid_set_pos; auto.
  - rewrite turn_agent_eq. apply all_ok_Ret. unfold turn_agent_pure. destruct (turn_dir a); auto.
  - rewrite pickndrop_eq by auto. apply all_ok_Ret. unfold pickndrop_pure.
    destruct (is_pickndrop a); cbn [andb]; auto. destruct (in_grid (sgrid s) (sfront s)) eqn:E; cbn [andb]; auto.
    destruct (is_ty ty_Floor _ || o_holdable _); auto.
    apply valid_gset; auto.
    + destruct (is_ty ty_NoneGridObject (sheld s)) eqn:En; cbn [negb]; [apply ok_floor|].
      destruct Hheld as [H|H]; auto. rewrite H in En. discriminate.
    + destruct (o_holdable _); [left; apply cells_lookup; auto | right; reflexivity].
  - unfold move_obstacles. rewrite positions_where_ok by (auto; intros p Hp; apply gpositions_In; auto). cbn [lift bind].
    set (ps := filter _ _).
    assert (PO : pending_ok ps (sgrid s)).
    { subst ps. split; [apply NoDup_filter, gpositions_NoDup|].
      intros p Hp. apply filter_In in Hp. destruct Hp as [Hp1 Hp2]. apply gpositions_In in Hp1. auto. }
    pose (I := fun g : grid => Forall (okobj types) (concat g)).
    assert (STEP : forall g p q, I g -> wf_grid g -> in_grid g p = true -> in_grid g q = true ->
       is_ty ty_MovingObstacle (lookupH g p) = true -> is_ty ty_Floor (lookupH g q) = true -> In q (neighbours4 p) -> I (swapped g p q)).
    { intros g p q HI Hwg Hp Hq _ _ _. unfold I, swapped in *.
      apply cells_gset; [apply wf_gset; auto | rewrite in_grid_gset; auto | apply cells_gset; auto; apply cells_lookup; auto | apply cells_lookup; auto]. }
    eapply all_ok_bind; [apply (mo_loop_all_ok (negb own) I STEP ps (sgrid s) Hw PO Hc)|].
    intros g' (HI & Hw' & Eh & Ew). apply all_ok_Ret. unfold valid; cbn [set_grid sgrid spos sheld].
    split; [auto|]. split; [congruence|]. split; [congruence|]. split; [exact HI|]. split; [|exact Hheld].
    unfold in_grid, garea in *. rewrite Eh, Ew. exact Hin.
  - rewrite actuate_door_eq by auto. apply all_ok_Ret. unfold actuate_door_pure.
    destruct (is_actuate a); cbn [andb]; auto. destruct (in_grid (sgrid s) (sfront s)) eqn:E; cbn [andb]; auto.
    destruct (door_opens _ _); auto.
    apply (valid_gset s (sfront s) _ (sheld s)); auto. apply ok_open_door. apply cells_lookup; auto.
  - rewrite actuate_box_eq; auto.
    + apply all_ok_Ret. unfold actuate_box_pure.
      destruct (is_actuate a); cbn [andb]; auto. destruct (in_grid (sgrid s) (sfront s)) eqn:E; cbn [andb]; auto.
      destruct (is_ty ty_Box _) eqn:Eb; auto. destruct (ocontent _) as [c|] eqn:Ec; auto.
      apply (valid_gset s (sfront s) c (sheld s)); auto. eapply ok_content; [|exact Ec]. apply cells_lookup; auto.
    + intros E Eb. apply ok_box_has_content; auto. apply cells_lookup; auto.
  - rewrite teleport_eq by auto. destruct (is_ty ty_Telepod _); [|apply all_ok_Ret; auto].
    cbv zeta. destruct (partners s) as [|p0 pt] eqn:EP; [apply all_ok_Ret; auto|].
    intros x Hx. apply Leaf_bind in Hx. destruct Hx as [[i [Hi Hx]]|[e [Hi ->]]].
    + apply Leaf_Ret in Hx. subst x. apply Leaf_rchoice in Hi. destruct Hi as [[_ Hi]|[i' [Hi E]]]; [discriminate|]. injection E as <-.
      eexists; split; [reflexivity|]. apply valid_set_pos; auto.
      assert (Hq : In (nthZ (p0 :: pt) i (spos s)) (partners s)) by (rewrite EP; apply nthZ_In; auto).
      unfold partners in Hq. apply filter_In in Hq. destruct Hq as [Hq _]. apply filter_In in Hq. destruct Hq as [Hq _]. now apply gpositions_In.
    + exfalso. apply Leaf_rchoice in Hi. destruct Hi as [[Hi _]|[i' [_ E]]]; [cbn [length] in Hi; lia | discriminate].
Qed.
(* all compositions, any length, any order, repetitions included *)
Lemma chain_closed ns : forall s a own, valid sp s -> all_ok (valid sp) (chain (map tfun_of ns) s a own).
Proof.
  induction ns as [|n t IH]; intros s a own V; cbn [map chain]; [apply all_ok_Ret; auto|].
  eapply all_ok_bind; [apply transition_closed; exact V|]. intros s1 V1. apply IH; exact V1.
Qed.
End Closure.

(* ---- the environment step ---- *)
Lemma valid_st_ok sp s : valid sp s -> st_ok s.
Proof. intros (Hw & _ & _ & _ & Hin & _). split; auto. Qed.
Lemma debug_check_pass debug : debug_check debug true = Ret tt.
Proof. destruct debug; reflexivity. Qed.
Lemma valid_contains sp s : valid sp s -> ss_contains sp s = true.
Proof. intros V. apply contains_iff. now apply valid_conforms. Qed.

Lemma step_closed e debug s a : In ty_Floor (ss_types (gw_sspace e)) -> valid (gw_sspace e) s -> In a (gw_actions e) ->
  (forall s', valid (gw_sspace e) s' -> reward_pre (gw_reward e) s s') ->
  all_ok (fun out => valid (gw_sspace e) (fst (fst out))) (functional_step e debug s a).
Proof.
  intros Hfl V Ha Hpre. unfold functional_step. rewrite (valid_contains _ _ V), debug_check_pass. cbn [bind].
  apply as_contains_iff in Ha. rewrite Ha. cbn [negb].
  eapply all_ok_bind; [apply chain_closed; eauto|]. intros s' V'.
  rewrite (valid_contains _ _ V'), debug_check_pass. cbn [bind].
  pose proof V as (_ & Hh & Hw & _). pose proof V' as (_ & Hh' & Hw' & _).
  destruct (reward_total (gw_reward e) s a s' (valid_st_ok _ _ V) (valid_st_ok _ _ V') ltac:(congruence) ltac:(congruence) (Hpre s' V')) as [r Hr].
  destruct (termination_total (gw_term e) s a s' (valid_st_ok _ _ V) (valid_st_ok _ _ V')) as [t Ht].
  rewrite Hr, Ht. cbn [lift bind]. apply all_ok_Ret. exact V'.
Qed.
(* actions outside the action space are rejected with ValueError (the machine keeps its state: see C04) *)
Lemma step_rejects e debug s a x : ~ In a (gw_actions e) -> Leaf (functional_step e debug s a) x -> x = Err ValueError.
Proof.
  intros Ha HL. unfold functional_step in HL.
  assert (Hc : as_contains (gw_actions e) a = false).
  { destruct (as_contains (gw_actions e) a) eqn:E; auto. apply as_contains_iff in E. contradiction. }
  rewrite Hc in HL. cbn [negb] in HL. unfold debug_check in HL.
  destruct (debug && negb (ss_contains (gw_sspace e) s)); cbn [bind] in HL; apply Leaf_Raise in HL; exact HL.
Qed.

(* ---- observations lie in the observation space ---- *)
Lemma concat_In_get0 g c : wf_grid g -> In c (concat g) -> exists i j, (i < hN g)%nat /\ (j < wN g)%nat /\ get0 g i j = c.
Proof.
  intros Hw Hc. apply in_concat in Hc. destruct Hc as (r & Hr & Hc).
  apply In_nth_error in Hr. destruct Hr as [i Hi]. apply In_nth_error in Hc. destruct Hc as [j Hj].
  assert (Hr : In r g) by (eapply nth_error_In; eauto). pose proof (wf_row_len g r Hw Hr) as L.
  exists i, j. split; [unfold hN; apply nth_error_Some; congruence|]. split; [rewrite <- L; apply nth_error_Some; congruence|].
  unfold get0, getn. rewrite Hi, Hj. reflexivity.
Qed.
Definition colours_ok (cols : list Z) (s : state) : Prop :=
  Forall (fun o => In (ocol o) (0 :: cols)) (concat (sgrid s)) /\ In (ocol (sheld s)) (0 :: cols).
Lemma observation_in_space v own rays a s obs sp osp : area_ok a = true -> valid sp s ->
  os_h osp = aheight a -> os_w osp = awidth a ->
  (forall t, In t (ss_types sp) -> In t (os_types osp)) -> colours_ok (os_colors osp) s ->
  0 <= - ymin a < aheight a -> 0 <= - xmin a < awidth a ->
  Leaf (from_visibility v own rays a s) (Ok obs) -> os_contains osp obs = true.
Proof.
  intros Hok V Eh Ew Hty [Hcol Hcolh] Hay Hax HL. pose proof V as (Hw & _ & _ & Hc & Hin & Hheld).
  destruct (observation_sound v own rays a s obs Hok HL) as (Oh & Ow & Owf & Op & Oo & Oheld & Ocells).
  apply ocontains_iff. unfold oconforms. rewrite gheight_hN, gwidth_wN, Oh, Ow, Op, Oheld, Eh, Ew. cbn [fst snd].
  pose proof Hok as Hok'. apply area_ok_spec in Hok'. unfold HN, WN, aheight, awidth in *.
  split; [lia|]. split; [lia|]. split.
  - intros c Hcin. destruct (concat_In_get0 _ c Owf Hcin) as (i & j & Hi & Hj & <-). rewrite Oh in Hi. rewrite Ow in Hj.
    destruct (Ocells i j Hi Hj) as [E|E]; rewrite E.
    + split; [right; reflexivity | left; reflexivity].
    + destruct (in_grid (sgrid s) (world_pos s a i j)) eqn:Ein.
      * split; [left; apply Hty; apply (cells_lookup _ _ _ Hw Ein Hc) | apply (cells_lookup _ _ _ Hw Ein Hcol)].
      * rewrite (lookupH_out _ _ Ein). split; [right; reflexivity | left; reflexivity].
  - split; [lia|]. split; [|exact Hcolh].
    destruct Hheld as [[H _]| ->]; [left; apply Hty; exact H | right; reflexivity].
Qed.

(* every history of every composition from a valid state: no exception, always valid *)
Lemma history_closed sp ns own acts : In ty_Floor (ss_types sp) -> forall s, valid sp s ->
  all_ok (valid sp) (C08L.run_actions ns own acts s).
Proof.
  intros Hfl. induction acts as [|a t IH]; intros s V; cbn [C08L.run_actions]; [apply all_ok_Ret; auto|].
  eapply all_ok_bind; [apply chain_closed; eauto|]. intros s1 V1. apply IH; exact V1.
Qed.
