(* C02: seeded environments are reproducible and isolated from every global RNG.
   In the model every draw says which generator it consumes (Draw global ...).  Reproducibility of a functional model is immediate;
   the content is ROUTING: a seeded environment never draws from the library-level generator, whatever the composition, and so
   its outputs are a function of its own stream alone, however its operations are interleaved with those of other environments. *)
From Coq Require Import ZArith List Bool Lia Permutation.
From GV.Model Require Import Gym Reset.
From GV.Lemmas Require Import RandL.
Import ListNotations.
Open Scope Z_scope.

(* ---------- the primitive draws with the environment's own generator ---------- *)
Lemma ng_rchoice n : NoGlobal (rchoice false n).
Proof. unfold rchoice. destruct (n <=? 0); constructor. intros; constructor. Qed.
Lemma ng_rints lo hi : NoGlobal (rints false lo hi).
Proof. unfold rints. destruct (hi <? lo); constructor. intros; constructor. Qed.
Lemma ng_rsample n k : NoGlobal (rsample false n k).
Proof. unfold rsample. destruct ((k <? 0) || (n <? k) || ((n <=? 0) && negb (k =? 0))); constructor. intros; constructor. Qed.
Lemma ng_rperm n : NoGlobal (rperm false n).
Proof. constructor. intros; constructor. Qed.
Lemma ng_runif n : NoGlobal (runif false n).
Proof. constructor. intros; constructor. Qed.
Lemma ng_rchoice_of {A} (l : list A) d : NoGlobal (rchoice_of false l d).
Proof. unfold rchoice_of. apply NoGlobal_bind; [apply ng_rchoice | intros; constructor]. Qed.
Lemma ng_rchoices_of {A} (l : list A) k d : NoGlobal (rchoices_of false l k d).
Proof. unfold rchoices_of. apply NoGlobal_bind; [apply ng_rsample | intros; constructor]. Qed.
Lemma ng_ret {A} (a : A) : NoGlobal (Ret a).  Proof. constructor. Qed.
Lemma ng_raise {A} e : @NoGlobal A (Raise e).  Proof. constructor. Qed.

Ltac ng :=
  repeat first
    [ apply ng_ret | apply ng_raise | apply NoGlobal_lift | apply ng_rchoice | apply ng_rints | apply ng_rsample | apply ng_rperm | apply ng_runif
    | apply ng_rchoice_of | apply ng_rchoices_of
    | apply NoGlobal_bind; [|intros]
    | apply NoGlobal_catch
    | match goal with
      | |- NoGlobal (if ?b then _ else _) => destruct b
      | |- NoGlobal (match ?x with _ => _ end) => destruct x
      | |- NoGlobal (let '(_, _) := ?x in _) => destruct x
      end ].

(* ---------- transition functions ---------- *)
Lemma ng_move_obstacles_loop ps : forall g, NoGlobal (move_obstacles_loop false ps g).
Proof. induction ps as [|p t IH]; intros g; cbn [move_obstacles_loop]; ng. apply IH. Qed.
Lemma ng_tfun n s a : NoGlobal (tfun_of n s a true).
Proof.
  destruct n; cbn [tfun_of].
  - unfold move_agent. ng.
  - unfold turn_agent. ng.
  - unfold pickndrop. ng.
  - unfold move_obstacles. cbn [negb]. ng. apply ng_move_obstacles_loop.
  - unfold actuate_door. ng.
  - unfold actuate_box. ng.
  - unfold teleport. cbn [negb]. ng.
Qed.
Lemma ng_chain ns : forall s a, NoGlobal (chain (map tfun_of ns) s a true).
Proof. induction ns as [|n t IH]; intros s a; cbn [map chain]; [constructor|]. apply NoGlobal_bind; [apply ng_tfun | intros; apply IH]. Qed.

(* ---------- reset functions (called with the environment's generator) ---------- *)
(* empty() without random placement draws nothing at all -- which is why it does not matter that keydoor / crossing / teleport call
   it without forwarding their generator *)
Lemma ng_empty_fixed h w own : NoGlobal (reset_empty h w false false own).
Proof. unfold reset_empty. ng. Qed.
Lemma ng_empty h w ra re : NoGlobal (reset_empty h w ra re true).
Proof. unfold reset_empty. cbn [negb]. ng. Qed.
Lemma ng_openings row jobs : forall g, NoGlobal (openings false row jobs g).
Proof. induction jobs as [|[c [lo hi]] t IH]; intros g; cbn [openings]; ng. apply IH. Qed.
Lemma ng_rooms_grid h w ys xs : NoGlobal (rooms_grid h w ys xs false).
Proof. unfold rooms_grid. ng; apply ng_openings. Qed.
Lemma ng_crossing_path path : forall lh lv ri rj g, NoGlobal (crossing_path false path lh lv ri rj g).
Proof. induction path as [|[|] t IH]; intros; cbn [crossing_path]; ng; apply IH. Qed.
Lemma ng_reset rp : NoGlobal (reset_of rp true).
Proof.
  destruct rp; cbn [reset_of].
  - apply ng_empty.
  - unfold reset_rooms. cbn [negb]. ng. apply ng_rooms_grid.
  - unfold reset_dynamic_obstacles. cbn [negb]. ng. apply ng_empty.
  - unfold reset_keydoor. cbn [negb]. ng. apply ng_empty_fixed.
  - unfold reset_crossing. cbn [negb]. ng; [apply ng_empty_fixed | apply ng_crossing_path].
  - unfold reset_teleport. cbn [negb]. ng. apply ng_empty_fixed.
  - unfold reset_memory. cbn [negb]. ng.
  - unfold reset_memory_rooms. cbn [negb]. ng. apply ng_rooms_grid.
Qed.

(* ---------- observation functions ---------- *)
Lemma ng_visibility v rays g p : NoGlobal (visibility v true rays g p).
Proof. destruct v; cbn [visibility]; ng. Qed.
Lemma ng_from_visibility v rays a s : NoGlobal (from_visibility v true rays a s).
Proof. unfold from_visibility. ng. apply ng_visibility. Qed.

(* ---------- the environment: functional interface, stateful machine, outer / gym layers ---------- *)
Lemma ng_debug_check d ok : NoGlobal (debug_check d ok).
Proof. unfold debug_check. ng. Qed.
(* an environment assembled from built-in parts: its reset function is one of the eight built-in ones (transition / observation /
   reward / termination components are built-in by construction of the gridworld record) *)
Definition builtin (e : gridworld) : Prop := exists rp, gw_reset e = reset_of rp.
Section Env.
Variables (e : gridworld) (debug : bool).
Hypothesis Hb : builtin e.
Lemma ng_functional_reset : NoGlobal (functional_reset e debug).
Proof. destruct Hb as [rp Hr]. unfold functional_reset. rewrite Hr. apply NoGlobal_bind; [apply ng_reset | intros; apply NoGlobal_bind; [apply ng_debug_check | intros; constructor]]. Qed.
Lemma ng_functional_step s a : NoGlobal (functional_step e debug s a).
Proof.
  unfold functional_step. apply NoGlobal_bind; [apply ng_debug_check | intros _].
  destruct (negb (as_contains (gw_actions e) a)); [constructor|].
  apply NoGlobal_bind; [apply ng_chain | intros s'].
  apply NoGlobal_bind; [apply ng_debug_check | intros _].
  apply NoGlobal_bind; [apply NoGlobal_lift | intros r]. apply NoGlobal_bind; [apply NoGlobal_lift | intros t]. constructor.
Qed.
Lemma ng_functional_observation s : NoGlobal (functional_observation e debug s).
Proof. unfold functional_observation. apply NoGlobal_bind; [apply ng_from_visibility | intros; apply NoGlobal_bind; [apply ng_debug_check | intros; constructor]]. Qed.
Lemma ng_the_state m : NoGlobal (the_state m).
Proof. unfold the_state. ng. Qed.
Lemma ng_istep m op : NoGlobal (istep e debug m op).
Proof.
  destruct op; cbn [istep].
  - apply NoGlobal_bind; [apply ng_functional_reset | intros; constructor].
  - apply NoGlobal_bind; [apply ng_the_state | intros s]. apply NoGlobal_bind; [apply ng_functional_step | intros [[s' r] t]; constructor].
  - apply NoGlobal_bind; [apply ng_the_state | intros; constructor].
  - destruct (ie_obs m); [constructor|]. apply NoGlobal_bind; [apply ng_the_state | intros s].
    apply NoGlobal_bind; [apply ng_functional_observation | intros; constructor].
Qed.
Lemma ng_catch_all {A} (m : Rand A) : NoGlobal m -> NoGlobal (catch_all m).
Proof. induction 1; cbn [catch_all]; constructor; auto. Qed.
Lemma ng_irun ops : forall m, NoGlobal (irun e debug m ops).
Proof.
  induction ops as [|op t IH]; intros m; cbn [irun]; [constructor|].
  apply NoGlobal_bind; [apply ng_catch_all, ng_istep | intros [[m' out]|x]]; (apply NoGlobal_bind; [apply IH | intros; constructor]).
Qed.
(* ... and the same one level up: outer environment, gym adapter, state wrapper *)
Lemma ng_outer_obs g : NoGlobal (outer_obs e debug g).
Proof.
  unfold outer_obs. destruct (ge_orep g) as [[[k ts] cs]|]; [|constructor].
  apply NoGlobal_bind; [apply ng_catch_all, ng_istep | intros [[m' out]|x]; [destruct out|]; constructor].
Qed.
Lemma ng_gym_reset g : NoGlobal (gym_reset e debug g).
Proof. unfold gym_reset. apply NoGlobal_bind; [apply ng_catch_all, ng_istep | intros [[m' out]|x]; [apply ng_outer_obs | constructor]]. Qed.
Lemma ng_gym_step g i : NoGlobal (gym_step e debug g i).
Proof.
  unfold gym_step. destruct (py_nth (gw_actions e) i); [|constructor].
  apply NoGlobal_bind; [apply ng_catch_all, ng_istep | intros [[m' out]|x]; [|constructor]].
  destruct out; try constructor. apply NoGlobal_bind; [apply ng_outer_obs | intros [g' ro]; constructor].
Qed.
Lemma ng_gstep g op : NoGlobal (gstep e debug g op).
Proof.
  destruct op; cbn [gstep].
  - apply NoGlobal_bind; [apply ng_catch_all, ng_istep | intros [[m' out]|x]; constructor].
  - apply NoGlobal_bind; [apply ng_catch_all, ng_istep | intros [[m' out]|x]; constructor].
  - apply NoGlobal_bind; [apply ng_catch_all, ng_istep | intros [[m' out]|x]; constructor].
  - apply NoGlobal_bind; [apply ng_outer_obs | intros [g' r]; constructor].
  - constructor.
  - apply NoGlobal_bind; [apply ng_gym_reset | intros [g' r]; constructor].
  - apply NoGlobal_bind; [apply ng_gym_step | intros [g' r]; constructor].
  - apply NoGlobal_bind; [apply ng_outer_obs | intros [g' r]; constructor].
  - constructor.
  - destruct (srep_of name (gw_sspace e)); constructor.
  - destruct (orep_of name (gw_ospace e)); constructor.
  - apply NoGlobal_bind; [apply ng_gym_reset | intros [g' r]; destruct r; constructor].
  - apply NoGlobal_bind; [apply ng_gym_step | intros [g' r]; destruct r as [[[o rw] t]|]; constructor].
  - constructor.
Qed.
Lemma ng_grun ops : forall g, NoGlobal (grun e debug g ops).
Proof.
  induction ops as [|op t IH]; intros g; cbn [grun]; [constructor|].
  apply NoGlobal_bind; [apply ng_gstep | intros [g' r]]. apply NoGlobal_bind; [apply IH | intros; constructor].
Qed.
End Env.

(* ---------- two generators: the environment's stream and the library-level stream ---------- *)
(* run a computation feeding own draws from `own` and global draws from `glob`; returns the outcome and what is left of both *)
Fixpoint run2 {A} (m : Rand A) (own glob : list (list Z)) : option (res A * list (list Z) * list (list Z)) :=
  match m with
  | Ret a => Some (Ok a, own, glob)
  | Raise x => Some (Err x, own, glob)
  | Draw false r k => match own with ans :: t => if valid_ans r ans then run2 (k ans) t glob else None | [] => None end
  | Draw true r k => match glob with ans :: t => if valid_ans r ans then run2 (k ans) own t else None | [] => None end
  end.
(* a computation that never draws globally: its outcome depends on its own stream only and the library-level stream is untouched *)
Lemma run2_noglobal {A} (m : Rand A) : NoGlobal m -> forall own glob glob',
  run2 m own glob = match run2 m own glob' with Some (r, o, _) => Some (r, o, glob) | None => None end.
Proof.
  induction 1 as [a|x|r k Hk IH]; intros own glob glob'; cbn [run2]; auto.
  destruct own as [|ans t]; auto. destruct (valid_ans r ans); auto.
Qed.
Corollary global_stream_untouched {A} (m : Rand A) own glob r o g : NoGlobal m -> run2 m own glob = Some (r, o, g) -> g = glob.
Proof. intros H E. rewrite (run2_noglobal m H own glob glob) in E. destruct (run2 m own glob) as [[[r' o'] g']|]; congruence. Qed.
Corollary outcome_independent_of_global_stream {A} (m : Rand A) own glob glob' : NoGlobal m ->
  option_map (fun x => (fst (fst x), snd (fst x))) (run2 m own glob) = option_map (fun x => (fst (fst x), snd (fst x))) (run2 m own glob').
Proof. intros H. rewrite (run2_noglobal m H own glob glob'). destruct (run2 m own glob') as [[[r o] g]|]; reflexivity. Qed.

(* ---------- interleaving: several environments, each with its own stream, one shared library-level stream ---------- *)
(* a world: per environment its machine, its remaining own stream, and the outputs it produced so far (newest first) *)
Record slot := mkSlot { sl_env : gridworld; sl_debug : bool; sl_m : ienv; sl_own : list (list Z); sl_out : list (res iout) }.
Definition world : Type := list slot * list (list Z).
Fixpoint upd_slot (w : list slot) (i : nat) (s : slot) : list slot :=
  match w, i with [] , _ => [] | _ :: t, O => s :: t | x :: t, S j => x :: upd_slot t j s end.
(* environment i performs op; an operation that cannot be completed (stream exhausted / invalid answer) stops the world *)
Definition wstep (w : world) (iop_ : nat * iop) : option world :=
  let '(i, op) := iop_ in
  match nth_error (fst w) i with
  | None => Some w
  | Some s =>
      match run2 (catch_all (istep (sl_env s) (sl_debug s) (sl_m s) op)) (sl_own s) (snd w) with
      | Some (Ok (Ok (m', out)), own', glob') => Some (upd_slot (fst w) i (mkSlot (sl_env s) (sl_debug s) m' own' (Ok out :: sl_out s)), glob')
      | Some (Ok (Err x), own', glob') => Some (upd_slot (fst w) i (mkSlot (sl_env s) (sl_debug s) (sl_m s) own' (Err x :: sl_out s)), glob')
      | Some (Err _, _, _) => None
      | None => None
      end
  end.
Fixpoint wrun (w : world) (sch : list (nat * iop)) : option world :=
  match sch with [] => Some w | x :: t => match wstep w x with Some w' => wrun w' t | None => None end end.
(* the same environment run alone on the operations the schedule gives it *)
Definition solo_step (s : slot) (op : iop) : option slot :=
  match run2 (catch_all (istep (sl_env s) (sl_debug s) (sl_m s) op)) (sl_own s) [] with
  | Some (Ok (Ok (m', out)), own', _) => Some (mkSlot (sl_env s) (sl_debug s) m' own' (Ok out :: sl_out s))
  | Some (Ok (Err x), own', _) => Some (mkSlot (sl_env s) (sl_debug s) (sl_m s) own' (Err x :: sl_out s))
  | _ => None
  end.
Fixpoint solo (s : slot) (ops : list iop) : option slot :=
  match ops with [] => Some s | op :: t => match solo_step s op with Some s' => solo s' t | None => None end end.
Definition ops_of (i : nat) (sch : list (nat * iop)) : list iop := map snd (filter (fun x => Nat.eqb (fst x) i) sch).
Definition all_builtin (w : list slot) : Prop := Forall (fun s => builtin (sl_env s)) w.

Lemma nth_upd_same (w : list slot) i s s0 : nth_error w i = Some s0 -> nth_error (upd_slot w i s) i = Some s.
Proof. revert i; induction w as [|x t IH]; intros [|i] H; cbn in *; try discriminate; auto. Qed.
Lemma nth_upd_other (w : list slot) i j s : i <> j -> nth_error (upd_slot w i s) j = nth_error w j.
Proof. revert i j; induction w as [|x t IH]; intros [|i] [|j] H; cbn; auto; try lia. Qed.
Lemma upd_builtin w i s : all_builtin w -> builtin (sl_env s) -> all_builtin (upd_slot w i s).
Proof. unfold all_builtin. revert i; induction w as [|x t IH]; intros [|i] H Hs; cbn; auto; inversion H; subst; constructor; auto. Qed.

Lemma wstep_spec w i op w' : all_builtin (fst w) -> wstep w (i, op) = Some w' ->
  snd w' = snd w /\ all_builtin (fst w') /\
  (forall j, j <> i -> nth_error (fst w') j = nth_error (fst w) j) /\
  (forall s, nth_error (fst w) i = Some s -> exists s', solo_step s op = Some s' /\ nth_error (fst w') i = Some s') /\
  (nth_error (fst w) i = None -> w' = w).
Proof.
  intros Hb H. unfold wstep in H. destruct (nth_error (fst w) i) as [s|] eqn:En.
  2:{ injection H as <-. repeat split; auto; discriminate. }
  assert (Bs : builtin (sl_env s)). { unfold all_builtin in Hb. rewrite Forall_forall in Hb. apply Hb. eapply nth_error_In; eauto. }
  pose proof (ng_catch_all _ (ng_istep (sl_env s) (sl_debug s) Bs (sl_m s) op)) as NG.
  rewrite (run2_noglobal _ NG (sl_own s) (snd w) []) in H.
  destruct (run2 (catch_all (istep (sl_env s) (sl_debug s) (sl_m s) op)) (sl_own s) []) as [[[r o] g]|] eqn:R; [|discriminate].
  destruct r as [[[m' out]|x]|x]; [| |discriminate]; injection H as <-; cbn [fst snd].
  - repeat split; auto.
    + apply upd_builtin; auto.
    + intros j Hj. apply nth_upd_other. auto.
    + intros s0 E. injection E as <-. unfold solo_step. rewrite R. eexists; split; [reflexivity|]. eapply nth_upd_same; eauto.
    + discriminate.
  - repeat split; auto.
    + apply upd_builtin; auto.
    + intros j Hj. apply nth_upd_other. auto.
    + intros s0 E. injection E as <-. unfold solo_step. rewrite R. eexists; split; [reflexivity|]. eapply nth_upd_same; eauto.
    + discriminate.
Qed.
(* THE interleaving theorem: whatever the schedule, environment i ends exactly where it would have ended running alone on its own
   operations with its own stream, and the library-level stream is untouched *)
Theorem interleaving_independent sch : forall w w' i s, all_builtin (fst w) -> wrun w sch = Some w' -> nth_error (fst w) i = Some s ->
  snd w' = snd w /\ exists s', solo s (ops_of i sch) = Some s' /\ nth_error (fst w') i = Some s'.
Proof.
  induction sch as [|[j op] t IH]; intros w w' i s Hb H Hi; cbn [wrun] in H.
  - injection H as <-. split; auto. exists s. split; auto.
  - destruct (wstep w (j, op)) as [w1|] eqn:E; [|discriminate].
    destruct (wstep_spec w j op w1 Hb E) as (G & Hb1 & Hother & Hsame & _).
    unfold ops_of. cbn [filter fst snd]. destruct (Nat.eqb_spec j i) as [->|Hne].
    + destruct (Hsame s Hi) as (s1 & S1 & N1). destruct (IH w1 w' i s1 Hb1 H N1) as (G' & s' & S' & N').
      split; [congruence|]. exists s'. split; auto. cbn [map solo snd]. rewrite S1. exact S'.
    + rewrite <- (Hother i (not_eq_sym Hne)) in Hi. destruct (IH w1 w' i s Hb1 H Hi) as (G' & s' & S' & N').
      split; [congruence|]. exists s'. auto.
Qed.

(* ---------- hidden inputs: the order in which a SET of colours is iterated ---------- *)
Lemma insertZ_perm x l : Permutation (insertZ x l) (x :: l).
Proof. induction l as [|y t IH]; cbn [insertZ]; auto. destruct (x <=? y); auto. eapply perm_trans; [apply perm_skip, IH | apply perm_swap]. Qed.
Lemma isort_perm l : Permutation (isort l) l.
Proof. induction l as [|x t IH]; cbn [isort]; auto. eapply perm_trans; [apply insertZ_perm | apply perm_skip, IH]. Qed.
Inductive sortedZ : list Z -> Prop := sz_nil : sortedZ [] | sz_one x : sortedZ [x] | sz_cons x y t : x <= y -> sortedZ (y :: t) -> sortedZ (x :: y :: t).
Lemma insertZ_sorted x l : sortedZ l -> sortedZ (insertZ x l).
Proof.
  induction 1 as [|y|y z t Hyz Hs IH]; cbn [insertZ].
  - constructor.
  - destruct (x <=? y) eqn:E; [apply Z.leb_le in E | apply Z.leb_gt in E]; repeat constructor; lia.
  - destruct (x <=? y) eqn:E; [apply Z.leb_le in E; repeat constructor; auto|]. apply Z.leb_gt in E.
    cbn [insertZ] in IH. destruct (x <=? z) eqn:E2; [apply Z.leb_le in E2 | apply Z.leb_gt in E2]; constructor; auto; lia.
Qed.
Lemma isort_sorted l : sortedZ (isort l).
Proof. induction l; cbn [isort]; [constructor | apply insertZ_sorted; auto]. Qed.
Lemma sorted_head_le x t : sortedZ (x :: t) -> forall y, In y t -> x <= y.
Proof.
  revert x. induction t as [|z t IH]; intros x H y Hy; [destruct Hy|]. inversion H; subst. destruct Hy as [<-|Hy]; auto.
  specialize (IH z H4 y Hy). lia.
Qed.
Lemma sorted_perm_eq l : forall l', sortedZ l -> sortedZ l' -> Permutation l l' -> l = l'.
Proof.
  induction l as [|x t IH]; intros l' Hs Hs' Hp.
  - apply Permutation_nil in Hp. auto.
  - destruct l' as [|y t']; [apply Permutation_sym, Permutation_nil in Hp; discriminate|].
    assert (x = y).
    { assert (Hx : In x (y :: t')) by (eapply Permutation_in; [exact Hp | left; auto]).
      assert (Hy : In y (x :: t)) by (eapply Permutation_in; [apply Permutation_sym; exact Hp | left; auto]).
      destruct Hx as [->|Hx]; auto. destruct Hy as [->|Hy]; auto.
      pose proof (sorted_head_le y t' Hs' x Hx). pose proof (sorted_head_le x t Hs y Hy). lia. }
    subst y. f_equal. apply IH.
    + inversion Hs; subst; [constructor | auto].
    + inversion Hs'; subst; [constructor | auto].
    + eapply Permutation_cons_inv; eauto.
Qed.
Lemma isort_order_independent l l' : Permutation l l' -> isort l = isort l'.
Proof.
  intros H. apply sorted_perm_eq; try apply isort_sorted.
  eapply perm_trans; [apply isort_perm|]. eapply perm_trans; [exact H | apply Permutation_sym, isort_perm].
Qed.
Lemma memZ_perm x l l' : Permutation l l' -> memZ x l = memZ x l'.
Proof.
  intros H. apply eq_true_iff_eq. unfold memZ. rewrite !existsb_exists. split; intros (y & Hy & E); exists y; split; auto.
  - eapply Permutation_in; eauto.
  - eapply Permutation_in; [apply Permutation_sym|]; eauto.
Qed.
(* the two reset functions that receive a SET of colours do not depend on the order in which it is iterated *)
Theorem memory_order_independent h w cs cs' own : Permutation cs cs' -> reset_memory h w cs own = reset_memory h w cs' own.
Proof. intros H. unfold reset_memory. now rewrite (memZ_perm 0 _ _ H), (Permutation_length H), (isort_order_independent _ _ H). Qed.
Theorem memory_rooms_order_independent h w ys xs cs cs' nb ne own : Permutation cs cs' ->
  reset_memory_rooms h w ys xs cs nb ne own = reset_memory_rooms h w ys xs cs' nb ne own.
Proof. intros H. unfold reset_memory_rooms. now rewrite (memZ_perm 0 _ _ H), (Permutation_length H), (isort_order_independent _ _ H). Qed.

(* ---------- the debug flag only adds membership checks: when they pass, outputs and consumed randomness are the same ---------- *)
Lemma debug_check_off ok : debug_check false ok = Ret tt.  Proof. reflexivity. Qed.
Lemma Leaf_debug_check d ok x : Leaf (debug_check d ok) x -> x = Ok tt \/ (d = true /\ ok = false /\ x = Err ValueError).
Proof. unfold debug_check. destruct d, ok; cbn; intros H; inversion H; auto. Qed.
Lemma run2_bind {A B} (m : Rand A) (f : A -> Rand B) : forall own glob,
  run2 (bind m f) own glob = match run2 m own glob with
                             | Some (Ok a, o, g) => run2 (f a) o g
                             | Some (Err x, o, g) => Some (Err x, o, g)
                             | None => None end.
Proof.
  induction m as [a|x|gl r k IH]; intros own glob; cbn [bind run2]; auto.
  destruct gl; [destruct glob as [|ans t] | destruct own as [|ans t]]; auto; destruct (valid_ans r ans); auto.
Qed.
Lemma debug_check_true_ok ok own glob (r : res unit) o g : run2 (debug_check true ok) own glob = Some (r, o, g) ->
  (ok = true /\ r = Ok tt /\ o = own /\ g = glob) \/ (ok = false /\ r = Err ValueError).
Proof. unfold debug_check. destruct ok; cbn; intros E; injection E as <- <- <-; auto. Qed.
(* every successful operation with the debug flag on is the same operation, with the same outputs and the same consumption of
   randomness, with the flag off *)
Theorem debug_irrelevant_step e s a own glob r o g :
  run2 (functional_step e true s a) own glob = Some (Ok r, o, g) -> run2 (functional_step e false s a) own glob = Some (Ok r, o, g).
Proof.
  unfold functional_step. rewrite !run2_bind. rewrite debug_check_off. cbn [run2].
  destruct (run2 (debug_check true (ss_contains (gw_sspace e) s)) own glob) as [[[r1 o1] g1]|] eqn:D1; [|discriminate].
  destruct (debug_check_true_ok _ _ _ _ _ _ D1) as [(_ & -> & -> & ->)|(_ & ->)]; [|discriminate].
  destruct (negb (as_contains (gw_actions e) a)); [auto|].
  rewrite !run2_bind. destruct (run2 (chain (map tfun_of (gw_trans e)) s a true) own glob) as [[[[s'|x] o2] g2]|]; auto.
  rewrite !run2_bind. rewrite debug_check_off. cbn [run2].
  destruct (run2 (debug_check true (ss_contains (gw_sspace e) s')) o2 g2) as [[[r3 o3] g3]|] eqn:D3; [|discriminate].
  destruct (debug_check_true_ok _ _ _ _ _ _ D3) as [(_ & -> & -> & ->)|(_ & ->)]; [auto|discriminate].
Qed.
Theorem debug_irrelevant_reset e own glob r o g :
  run2 (functional_reset e true) own glob = Some (Ok r, o, g) -> run2 (functional_reset e false) own glob = Some (Ok r, o, g).
Proof.
  unfold functional_reset. rewrite !run2_bind. destruct (run2 (gw_reset e true) own glob) as [[[[s|x] o1] g1]|]; auto.
  rewrite !run2_bind. rewrite debug_check_off. cbn [run2].
  destruct (run2 (debug_check true (ss_contains (gw_sspace e) s)) o1 g1) as [[[r3 o3] g3]|] eqn:D3; [|discriminate].
  destruct (debug_check_true_ok _ _ _ _ _ _ D3) as [(_ & -> & -> & ->)|(_ & ->)]; [auto|discriminate].
Qed.
Theorem debug_irrelevant_observation e s own glob r o g :
  run2 (functional_observation e true s) own glob = Some (Ok r, o, g) -> run2 (functional_observation e false s) own glob = Some (Ok r, o, g).
Proof.
  unfold functional_observation. rewrite !run2_bind.
  destruct (run2 (from_visibility (of_vis (gw_obs e)) true (gw_rays e) (of_area (gw_obs e)) s) own glob) as [[[[ob|x] o1] g1]|]; auto.
  rewrite !run2_bind. rewrite debug_check_off. cbn [run2].
  destruct (run2 (debug_check true (os_contains (gw_ospace e) ob)) o1 g1) as [[[r3 o3] g3]|] eqn:D3; [|discriminate].
  destruct (debug_check_true_ok _ _ _ _ _ _ D3) as [(_ & -> & -> & ->)|(_ & ->)]; [auto|discriminate].
Qed.
(* reproducibility: run2 is a FUNCTION of (computation, own stream, library stream): two environments given equal streams
   produce equal outputs -- and by the theorems above the library stream is irrelevant *)
Theorem same_seed_same_outputs e debug m ops own glob glob' : builtin e ->
  option_map (fun x => (fst (fst x), snd (fst x))) (run2 (irun e debug m ops) own glob) =
  option_map (fun x => (fst (fst x), snd (fst x))) (run2 (irun e debug m ops) own glob').
Proof. intros Hb. apply outcome_independent_of_global_stream. now apply ng_irun. Qed.

(* non-vacuity: a built-in environment, and a component that WOULD be caught (called without its generator it draws globally) *)
Definition C02_example_env : gridworld :=
  mkGW (mkSS 5 5 [] []) [] (mkOS 3 3 [] []) (reset_of (PKeydoor 5 7)) [TMoveAgent; TMoveObstacles; TTeleport] (mkOF VStochasticRaytracing (mkA (-2) 0 (-1) 1)) RLiving TReachExit [].
Lemma C02_example_builtin : builtin C02_example_env.
Proof. exists (PKeydoor 5 7). reflexivity. Qed.
Lemma C02_example_caught : ~ NoGlobal (tfun_of TTeleport (mkS [[Telepod 1; Floor; Telepod 1]] (0, 0) FORWARD NoneObj) MOVE_FORWARD false).
Proof. intros H. vm_compute in H. inversion H. Qed.
