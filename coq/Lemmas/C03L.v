(* C03: the functional interface is pure and alias-free.  Mutation and aliasing are facts about the python object graph; a Gallina
   value has neither.  What CAN be proved is the architecture argument the code relies on (`transition_with_copy`: copy the state,
   then let the in-place transition functions loose on the copy), over an abstract heap; what must be OBSERVED is that the code has
   that architecture (suite monitors). *)
From Coq Require Import List Arith Lia.
Import ListNotations.

Section Frame.
Variable cell : Type.
Variable children : cell -> list nat.          (* the locations a cell points to *)
Definition heap := nat -> option cell.
Definition dom (h : heap) (l : nat) : Prop := h l <> None.
Inductive reach (h : heap) : nat -> nat -> Prop :=
| reach_refl l : reach h l l
| reach_step l c k m : reach h l k -> h k = Some c -> In m (children c) -> reach h l m.

(* h  : the heap holding the input state (root)
   h1 : after the copy            -- allocates only, and the copy (root') lives entirely in locations fresh for h
   h2 : after the mutator ran on the copy -- it writes only into the copy or into locations fresh for h1, and whatever it stores there
        points only into the copy or to fresh locations *)
Theorem copy_then_mutate_frame (h h1 h2 : heap) (root root' : nat) :
  (forall l, dom h l -> h1 l = h l) ->
  (forall l, reach h1 root' l -> ~ dom h l) ->
  (forall l, dom h1 l -> ~ reach h1 root' l -> h2 l = h1 l) ->
  (forall l c, h2 l = Some c -> (reach h1 root' l \/ ~ dom h1 l) -> forall k, In k (children c) -> reach h1 root' k \/ ~ dom h1 k) ->
  (* the input is untouched ... *)
  (forall l, dom h l -> h2 l = h l) /\
  (* ... everything reachable from the input is still exactly what it was ... *)
  (forall l, reach h root l -> dom h l -> reach h2 root l) /\
  (* ... and the result shares no location with anything that existed before *)
  (forall l, reach h2 root' l -> ~ dom h l).
Proof.
  intros Hcopy Hfresh Hwrite Hclosed.
  assert (Hsub : forall l, dom h l -> dom h1 l) by (intros l Hl; unfold dom in *; now rewrite (Hcopy l Hl)).
  assert (Hkeep : forall l, dom h l -> h2 l = h l).
  { intros l Hl. rewrite <- (Hcopy l Hl). apply Hwrite; [auto|]. intros Hr. exact (Hfresh l Hr Hl). }
  assert (Inv : forall l, reach h2 root' l -> reach h1 root' l \/ ~ dom h1 l).
  { induction 1 as [l0|l0 c k m Hk IH Hc Hm]; [left; constructor|]. eapply Hclosed; eauto. }
  split; [exact Hkeep|]. split.
  - induction 1 as [l0|l0 c k m Hk IH Hc Hm]; intros Hd; [constructor|].
    assert (Dk : dom h k) by (unfold dom; intros E; congruence).
    eapply reach_step; [apply IH; exact Dk | rewrite (Hkeep k Dk); exact Hc | exact Hm].
  - intros l Hr. destruct (Inv l Hr) as [H1|H1]; [now apply Hfresh | intros Hd; apply H1; auto].
Qed.
End Frame.
