(* C04: the stateful interface mirrors the functional one; observations are never stale *)
From Coq Require Import ZArith List Bool Lia.
From GV.Model Require Import Env.
From GV.Lemmas Require Import RandL.
Import ListNotations.
Open Scope Z_scope.

Section Machine.
Variables (e : gridworld) (debug : bool).

(* one-step refinement: each stateful operation IS the functional one on the current state *)
Lemma istep_reset m : istep e debug m OpReset = bind (functional_reset e debug) (fun s => Ret (mkIE (Some s) None, OutUnit)).
Proof. reflexivity. Qed.
Lemma istep_step s mo a : istep e debug (mkIE (Some s) mo) (OpStep a) =
  bind (functional_step e debug s a) (fun out => let '(s', r, t) := out in Ret (mkIE (Some s') None, OutStep r t)).
Proof. reflexivity. Qed.
Lemma istep_obs_fresh s : istep e debug (mkIE (Some s) None) OpReadObs =
  bind (functional_observation e debug s) (fun o => Ret (mkIE (Some s) (Some o), OutObs o)).
Proof. reflexivity. Qed.
(* repeated reads: same observation, machine unchanged, and NO random draw *)
Lemma istep_obs_memo st o : istep e debug (mkIE st (Some o)) OpReadObs = Ret (mkIE st (Some o), OutObs o).
Proof. reflexivity. Qed.
Lemma istep_state s mo : istep e debug (mkIE (Some s) mo) OpReadState = Ret (mkIE (Some s) mo, OutState s).
Proof. reflexivity. Qed.
(* before the first reset: asking for the state, the observation, or stepping raises RuntimeError *)
Lemma state_before_reset op : op <> OpReset -> istep e debug ie_init op = Raise RuntimeError.
Proof. destruct op; try congruence; reflexivity. Qed.

(* reachable machine states: any sequence of operations, any random outcome; a failing operation leaves the machine as it was *)
Inductive reachable : ienv -> Prop :=
| reach_init : reachable ie_init
| reach_op m op m' out : reachable m -> Leaf (istep e debug m op) (Ok (m', out)) -> reachable m'.
(* INVARIANT: a memoised observation is an observation of the CURRENT state *)
Definition fresh (m : ienv) : Prop :=
  match ie_obs m with
  | Some o => exists s, ie_state m = Some s /\ Leaf (functional_observation e debug s) (Ok o)
  | None => True end.
Lemma istep_fresh m op m' out : fresh m -> Leaf (istep e debug m op) (Ok (m', out)) -> fresh m'.
Proof.
  intros F HL. destruct op; cbn [istep] in HL.
  - apply Leaf_bind_Ok in HL. destruct HL as (s & _ & HL). apply Leaf_Ret in HL. injection HL as -> _. exact I.
  - apply Leaf_bind_Ok in HL. destruct HL as (s & _ & HL). apply Leaf_bind_Ok in HL. destruct HL as ([[s' r] t] & _ & HL).
    apply Leaf_Ret in HL. injection HL as -> _. exact I.
  - apply Leaf_bind_Ok in HL. destruct HL as (s & _ & HL). apply Leaf_Ret in HL. injection HL as -> _. exact F.
  - destruct (ie_obs m) as [o|] eqn:Eo.
    + apply Leaf_Ret in HL. injection HL as -> _. exact F.
    + apply Leaf_bind_Ok in HL. destruct HL as (s & Hs & HL). apply Leaf_bind_Ok in HL. destruct HL as (o & Ho & HL).
      apply Leaf_Ret in HL. injection HL as -> _. unfold fresh. cbn [ie_obs ie_state].
      unfold the_state in Hs. destruct (ie_state m) as [s0|]; [apply Leaf_Ret in Hs; injection Hs as ->|inversion Hs]. eauto.
Qed.
Lemma reachable_fresh m : reachable m -> fresh m.
Proof. induction 1 as [|m op m' out Hr IH HL]; [exact I | eapply istep_fresh; eauto]. Qed.
(* never stale: whatever the history, an observation handed out belongs to the state the machine is in *)
Lemma observation_never_stale m m' o : reachable m -> Leaf (istep e debug m OpReadObs) (Ok (m', OutObs o)) ->
  exists s, ie_state m = Some s /\ ie_state m' = Some s /\ Leaf (functional_observation e debug s) (Ok o).
Proof.
  intros Hr HL. pose proof (reachable_fresh m Hr) as F. cbn [istep] in HL. unfold fresh in F.
  destruct (ie_obs m) as [o0|] eqn:Eo.
  - apply Leaf_Ret in HL. injection HL as -> ->. destruct F as (s & Es & Hs). eauto.
  - apply Leaf_bind_Ok in HL. destruct HL as (s & Hs & HL). apply Leaf_bind_Ok in HL. destruct HL as (o1 & Ho & HL).
    apply Leaf_Ret in HL. injection HL as -> ->. cbn [ie_state].
    unfold the_state in Hs. destruct (ie_state m) as [s0|]; [apply Leaf_Ret in Hs; injection Hs as ->|inversion Hs]. eauto.
Qed.
(* recomputed after every reset and step: the memo is cleared *)
Lemma reset_and_step_clear_memo m op m' out : (op = OpReset \/ exists a, op = OpStep a) ->
  Leaf (istep e debug m op) (Ok (m', out)) -> ie_obs m' = None.
Proof.
  intros [->|[a ->]] HL; cbn [istep] in HL.
  - apply Leaf_bind_Ok in HL. destruct HL as (s & _ & HL). apply Leaf_Ret in HL. injection HL as -> _. reflexivity.
  - apply Leaf_bind_Ok in HL. destruct HL as (s & _ & HL). apply Leaf_bind_Ok in HL. destruct HL as ([[s' r] t] & _ & HL).
    apply Leaf_Ret in HL. injection HL as -> _. reflexivity.
Qed.
(* computed at most once per state: after a successful read, every further read is the memoised value with no draw,
   until the next reset / step *)
Lemma read_idempotent m m1 o : Leaf (istep e debug m OpReadObs) (Ok (m1, OutObs o)) ->
  istep e debug m1 OpReadObs = Ret (m1, OutObs o) /\ istep e debug m1 OpReadState = bind (the_state m1) (fun s => Ret (m1, OutState s)).
Proof.
  intros HL. cbn [istep] in HL. destruct (ie_obs m) as [o0|] eqn:Eo.
  - apply Leaf_Ret in HL. injection HL as -> ->. cbn [istep]. rewrite Eo. split; reflexivity.
  - apply Leaf_bind_Ok in HL. destruct HL as (s & Hs & HL). apply Leaf_bind_Ok in HL. destruct HL as (o1 & Ho & HL).
    apply Leaf_Ret in HL. injection HL as -> ->. split; reflexivity.
Qed.
End Machine.

(* the stateful trajectory IS the functional threading: reset followed by steps *)
Fixpoint thread (e : gridworld) (debug : bool) (s : state) (acts : list Action) : Rand (list (rv * bool) * state) :=
  match acts with
  | [] => Ret ([], s)
  | a :: t => bind (functional_step e debug s a) (fun out => let '(s', r, b) := out in
              bind (thread e debug s' t) (fun rest => Ret ((r, b) :: fst rest, snd rest)))
  end.
Fixpoint drive (e : gridworld) (debug : bool) (m : ienv) (acts : list Action) : Rand (list (rv * bool) * ienv) :=
  match acts with
  | [] => Ret ([], m)
  | a :: t => bind (istep e debug m (OpStep a)) (fun mo =>
              match snd mo with
              | OutStep r b => bind (drive e debug (fst mo) t) (fun rest => Ret ((r, b) :: fst rest, snd rest))
              | _ => Raise AssertionError end)
  end.
(* every successful stateful trajectory is a functional threading with the same outputs, and conversely *)
Lemma drive_refines_thread e debug acts : forall s mo outs m',
  Leaf (drive e debug (mkIE (Some s) mo) acts) (Ok (outs, m')) <->
  exists s', Leaf (thread e debug s acts) (Ok (outs, s')) /\ m' = mkIE (Some s') (match acts with [] => mo | _ => None end).
Proof.
  induction acts as [|a t IH]; intros s mo outs m'; cbn [drive thread].
  - split.
    + intros E. apply Leaf_Ret in E. injection E as E1 E2. subst. exists s. split; [constructor | reflexivity].
    + intros (s' & E & ->). apply Leaf_Ret in E. injection E as E1 E2. subst. constructor.
  - rewrite istep_step. split.
    + intros HL. apply Leaf_bind_Ok in HL. destruct HL as ([m1 out] & H1 & H2).
      apply Leaf_bind_Ok in H1. destruct H1 as ([[s1 r] b] & Hs & H1). apply Leaf_Ret in H1. injection H1 as E1 E2. subst m1 out.
      cbn [fst snd] in H2. apply Leaf_bind_Ok in H2. destruct H2 as ([l m2] & H2 & H3). apply Leaf_Ret in H3. injection H3 as E1 E2. subst outs m'.
      cbn [fst snd]. apply IH in H2. destruct H2 as (s' & H2 & E). exists s'. split.
      * apply Leaf_bind_Ok. exists (s1, r, b). split; [exact Hs|]. apply Leaf_bind_Ok. exists (l, s'). split; [exact H2 | constructor].
      * rewrite E. destruct t; reflexivity.
    + intros (s' & HL & ->). apply Leaf_bind_Ok in HL. destruct HL as ([[s1 r] b] & Hs & H1).
      apply Leaf_bind_Ok in H1. destruct H1 as ([l s2] & H1 & H3). apply Leaf_Ret in H3. injection H3 as E1 E2. subst outs s'. cbn [fst snd].
      apply Leaf_bind_Ok. exists (mkIE (Some s1) None, OutStep r b). split.
      * apply Leaf_bind_Ok. exists (s1, r, b). split; [exact Hs | constructor].
      * cbn [fst snd]. apply Leaf_bind_Ok. exists (l, mkIE (Some s2) (match t with [] => None | _ => None end)). split.
        -- apply IH. exists s2. split; [exact H1 | reflexivity].
        -- cbn [fst snd]. destruct t; constructor.
Qed.
