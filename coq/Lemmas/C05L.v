(* C05: observations are sound *)
From Coq Require Import ZArith List Bool Lia.
From GV.Model Require Import Obs.
From GV.Lemmas Require Import GridL RandL GeomL RotL TransL.
Import ListNotations.
Open Scope Z_scope.

(* the world position shown at view cell (i, j): the view area placed at the agent's pose *)
Definition world_pos (s : state) (a : area) (i j : nat) : pos :=
  tact (mkT (spos s) (sori s)) (ymin a + Z.of_nat i, xmin a + Z.of_nat j).
Definition HN (a : area) : nat := Z.to_nat (aheight a).
Definition WN (a : area) : nat := Z.to_nat (awidth a).
Definition raw_view (s : state) (pov_area : area) : grid := grid_rot_by (sori s) (subgrid (sgrid s) pov_area).

Lemma subgrid_shape g a : area_ok a = true -> hN (subgrid g a) = HN a /\ wN (subgrid g a) = WN a /\ wf_grid (subgrid g a).
Proof.
  intros H. apply area_ok_spec in H. unfold subgrid, HN, WN.
  assert (0 < Z.to_nat (aheight a))%nat by (unfold aheight; lia). assert (0 < Z.to_nat (awidth a))%nat by (unfold awidth; lia).
  unfold hN. rewrite hN_tab, wN_tab by lia. split; [reflexivity|]. split; [reflexivity|]. apply wf_tab; lia.
Qed.
Lemma subgrid_get g a i j : (i < HN a)%nat -> (j < WN a)%nat ->
  get0 (subgrid g a) i j = lookupH g (ymin a + Z.of_nat i, xmin a + Z.of_nat j).
Proof. intros. unfold subgrid. rewrite get0_tab by auto. reflexivity. Qed.

(* KEY LEMMA: the rotated sub-grid has the view's shape and cell (i, j) is the world cell under the view placed at the pose *)
Lemma raw_view_spec s a pov : area_ok a = true -> tact_area (mkT (spos s) (sori s)) a = Ok pov ->
  let og := raw_view s pov in
  hN og = HN a /\ wN og = WN a /\ wf_grid og /\
  forall i j, (i < HN a)%nat -> (j < WN a)%nat -> get0 og i j = lookupH (sgrid s) (world_pos s a i j).
Proof.
  intros Hok E og.
  pose proof Hok as Hok'. apply area_ok_spec in Hok'. destruct Hok' as [Hy Hx].
  destruct (tact_area_total (mkT (spos s) (sori s)) a Hok) as (pov' & E' & Hpov). rewrite E in E'. injection E' as <-.
  destruct (subgrid_shape (sgrid s) pov Hpov) as (Sh & Sw & Swf).
  unfold og, raw_view, grid_rot_by.
  destruct (rot_kind_shape (grid_rot (sori s)) _ Swf) as (Rh & Rw & Rwf).
  unfold tact_area in E. cbn [tori tpos] in E.
  destruct s as [g [y0 x0] o hld]. cbn [sgrid spos sori] in *. destruct a as [ymn ymx xmn xmx]. cbn [ymin ymax xmin xmax] in *.
  unfold world_pos, tact, HN, WN, aheight, awidth in *. cbn [sgrid spos sori tpos tori ymin ymax xmin xmax] in *.
  destruct o; unfold orot_area in E; cbn [oarea abound_pick abound_get fst snd ymin ymax xmin xmax] in E;
    rewrite mk_area_ok in E by lia; cbn [rbind] in E; unfold padd_area in E; cbn [fst snd ymin ymax xmin xmax] in E;
    rewrite mk_area_ok in E by lia; injection E as <-; cbn [grid_rot swaps] in *;
    unfold HN, WN, aheight, awidth in *; cbn [ymin ymax xmin xmax] in *;
    (split; [lia|]); (split; [lia|]); (split; [exact Rwf|]); intros i j Hi Hj;
    rewrite rot_kind_get by (auto; lia); rewrite Sh, Sw; cbn [src fst snd];
    rewrite subgrid_get by (unfold HN, WN, aheight, awidth; cbn [ymin ymax xmin xmax]; lia);
    cbn [ymin ymax xmin xmax]; f_equal; unfold padd, orot; cbn [omat fst snd]; f_equal; lia.
Qed.

(* hiding *)
Lemma hide_shape og m : wf_grid og -> hN (hide og m) = hN og /\ wN (hide og m) = wN og /\ wf_grid (hide og m).
Proof.
  intros Hw. pose proof (wf_hN og Hw). pose proof (wf_wN og Hw). unfold hide. unfold hN at 1. rewrite hN_tab, wN_tab by lia.
  split; [reflexivity|]. split; [reflexivity|]. apply wf_tab; lia.
Qed.
Lemma hide_get og m i j : (i < hN og)%nat -> (j < wN og)%nat ->
  get0 (hide og m) i j = if visible m (Z.of_nat i, Z.of_nat j) then get0 og i j else Hidden.
Proof. intros. unfold hide. now rewrite get0_tab. Qed.

(* every outcome of every built-in observation function *)
Lemma from_visibility_leaf v own rays a s obs : area_ok a = true -> Leaf (from_visibility v own rays a s) (Ok obs) ->
  exists pov m, tact_area (mkT (spos s) (sori s)) a = Ok pov /\
    Leaf (visibility v own rays (raw_view s pov) (- ymin a, - xmin a)) (Ok m) /\
    obs = mkS (hide (raw_view s pov) m) (- ymin a, - xmin a) FORWARD (sheld s).
Proof.
  intros Hok HL. unfold from_visibility in HL.
  destruct (tact_area_total (mkT (spos s) (sori s)) a Hok) as (pov & E & _). rewrite E in HL. cbn [lift bind] in HL.
  apply Leaf_bind_Ok in HL. destruct HL as (m & Hm & HL). apply Leaf_Ret in HL. injection HL as ->.
  exists pov, m. auto.
Qed.

Lemma observation_sound v own rays a s obs : area_ok a = true -> Leaf (from_visibility v own rays a s) (Ok obs) ->
  hN (sgrid obs) = HN a /\ wN (sgrid obs) = WN a /\ wf_grid (sgrid obs) /\
  spos obs = (- ymin a, - xmin a) /\ sori obs = FORWARD /\ sheld obs = sheld s /\
  forall i j, (i < HN a)%nat -> (j < WN a)%nat ->
    get0 (sgrid obs) i j = Hidden \/ get0 (sgrid obs) i j = lookupH (sgrid s) (world_pos s a i j).
Proof.
  intros Hok HL. destruct (from_visibility_leaf v own rays a s obs Hok HL) as (pov & m & E & _ & ->).
  destruct (raw_view_spec s a pov Hok E) as (Rh & Rw & Rwf & Rget). cbn [sgrid spos sori sheld].
  destruct (hide_shape (raw_view s pov) m Rwf) as (Hh & Hw & Hwf).
  split; [congruence|]. split; [congruence|]. split; [exact Hwf|]. split; [reflexivity|]. split; [reflexivity|]. split; [reflexivity|].
  intros i j Hi Hj. rewrite hide_get by lia. destruct (visible m _); [right; apply Rget; auto | left; reflexivity].
Qed.
(* cells falling outside the grid are Hidden *)
Lemma observation_outside_hidden v own rays a s obs i j : area_ok a = true -> Leaf (from_visibility v own rays a s) (Ok obs) ->
  (i < HN a)%nat -> (j < WN a)%nat -> in_grid (sgrid s) (world_pos s a i j) = false -> get0 (sgrid obs) i j = Hidden.
Proof.
  intros Hok HL Hi Hj Hout. destruct (observation_sound v own rays a s obs Hok HL) as (_ & _ & _ & _ & _ & _ & H).
  destruct (H i j Hi Hj) as [E|E]; auto. rewrite E. now apply lookupH_out.
Qed.

(* with the fully transparent function every cell of the view is shown (in particular every in-grid cell) *)
Lemma memP_In p l : memP p l = true <-> In p l.
Proof.
  unfold memP. rewrite existsb_exists. split.
  - intros (q & Hq & E). apply pos_eqb_eq in E. subst; auto.
  - intros H. exists p. split; auto. apply pos_eqb_eq. reflexivity.
Qed.
Lemma fully_transparent_complete own rays a s : area_ok a = true ->
  exists obs, from_visibility VFullyTransparent own rays a s = Ret obs /\
    forall i j, (i < HN a)%nat -> (j < WN a)%nat -> get0 (sgrid obs) i j = lookupH (sgrid s) (world_pos s a i j).
Proof.
  intros Hok. unfold from_visibility.
  destruct (tact_area_total (mkT (spos s) (sori s)) a Hok) as (pov & E & _). rewrite E. cbn [lift bind visibility].
  eexists; split; [reflexivity|]. cbn [sgrid].
  destruct (raw_view_spec s a pov Hok E) as (Rh & Rw & Rwf & Rget). fold (raw_view s pov).
  intros i j Hi Hj. rewrite hide_get by lia.
  assert (V : visible (fully_transparent (raw_view s pov) (- ymin a, - xmin a)) (Z.of_nat i, Z.of_nat j) = true).
  { unfold visible, fully_transparent. apply memP_In. apply gpositions_In. apply in_grid_spec. cbn [fst snd].
    rewrite gheight_hN, gwidth_wN. lia. }
  rewrite V. apply Rget; auto.
Qed.
