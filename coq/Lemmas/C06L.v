(* C06: hidden cells carry no information *)
From Coq Require Import ZArith List Bool Lia.
From GV.Model Require Import Obs.
From GV.Lemmas Require Import GridL RandL GeomL RotL TransL C05L.
Import ListNotations.
Open Scope Z_scope.

(* ================= the recursive marking flood fill equals inductive reachability ================= *)
Section Flood.
Variables (g : grid) (nexts : pos -> list pos) (m : pos -> nat).
Hypothesis nexts_dec : forall p q, in_grid g p = true -> In q (nexts p) -> (m q < m p)%nat.
Let opq (p : pos) : bool := o_blocks_vision (lookupH g p).
Let inA (p : pos) : bool := in_grid g p.
Variable start : pos.

(* visible cells: the start, and the in-grid successors of visible transparent cells *)
Inductive reach : pos -> Prop :=
| r0 : inA start = true -> reach start
| rS p q : reach p -> opq p = false -> In q (nexts p) -> inA q = true -> reach q.

Definition closed_new (v v' : list pos) := forall q, In q v' -> ~ In q v -> opq q = false ->
   forall r, In r (nexts q) -> inA r = true -> In r v'.
Lemma closed_trans v v1 v2 : incl v v1 -> incl v1 v2 -> closed_new v v1 -> closed_new v1 v2 -> closed_new v v2.
Proof. intros I1 I2 C1 C2 q Hq Hn Ho r Hr Ha.
  destruct (memP q v1) eqn:E.
  - apply memP_In in E. apply I2. eapply C1; eauto.
  - eapply C2; eauto. intro H. apply memP_In in H. congruence. Qed.

Lemma mv_props fuel : forall vis p, (m p < fuel)%nat ->
  let v' := make_visible fuel g nexts vis p in
  incl vis v' /\ (inA p = true -> In p v') /\ closed_new vis v'.
Proof.
  induction fuel as [|f IH]; intros vis p Hm; [lia|]. cbn [make_visible]. fold (inA p). fold (opq p).
  destruct (inA p) eqn:Ea; cbn [andb].
  2:{ cbv zeta. split; [apply incl_refl|]. split; [discriminate | intros q H1 H2; contradiction]. }
  destruct (memP p vis) eqn:Em; cbn [negb].
  { cbv zeta. apply memP_In in Em. split; [apply incl_refl|]. split; [auto | intros q H1 H2; contradiction]. }
  destruct (opq p) eqn:Eo.
  { cbv zeta. split; [apply incl_tl, incl_refl|]. split; [intros _; left; auto|].
    intros q [Hq|Hq] Hn Hoq; [subst; congruence | contradiction]. }
  assert (FOLD: forall l v, (forall r, In r l -> (m r < f)%nat) ->
     let v' := fold_left (make_visible f g nexts) l v in
     incl v v' /\ (forall r, In r l -> inA r = true -> In r v') /\ closed_new v v').
  { induction l as [|a l IHl]; intros v Hl; cbn [fold_left].
    - cbv zeta. split; [apply incl_refl|]. split; [intros r [] | intros q H1 H2; contradiction].
    - destruct (IH v a (Hl a (or_introl eq_refl))) as (I1 & P1 & C1).
      destruct (IHl (make_visible f g nexts v a) (fun r H => Hl r (or_intror H))) as (I2 & P2 & C2).
      cbv zeta. split; [eapply incl_tran; eauto|]. split.
      + intros r [Hr|Hr] Ha; [subst; apply I2, P1, Ha | apply P2; auto].
      + eapply closed_trans; eauto. }
  destruct (FOLD (nexts p) (p :: vis)) as (I & P & C).
  { intros r Hr. specialize (nexts_dec _ _ Ea Hr). lia. }
  cbv zeta. split; [eapply incl_tran; [apply incl_tl, incl_refl | exact I]|]. split; [intros _; apply I; left; auto|].
  intros q Hq Hn Hoq r Hr Ha.
  destruct (pos_eqb q p) eqn:Eq.
  - apply pos_eqb_eq in Eq. subst q. apply P; auto.
  - apply pos_eqb_neq in Eq. eapply C; eauto. intros [H|H]; [congruence | contradiction].
Qed.
Lemma mv_complete fuel q : (m start < fuel)%nat -> reach q -> In q (make_visible fuel g nexts [] start).
Proof.
  intros Hf. destruct (mv_props fuel [] start Hf) as (_ & P & C).
  induction 1 as [Ha | p q Hp IHp Ho Hq Ha]; [apply P; auto|].
  eapply C; eauto.
Qed.
Lemma mv_sound fuel : forall vis p, (forall x, In x vis -> reach x) -> (inA p = true -> reach p) ->
  forall x, In x (make_visible fuel g nexts vis p) -> reach x.
Proof.
  induction fuel as [|f IH]; intros vis p Hv Hp x; cbn [make_visible]; [auto|]. fold (inA p). fold (opq p).
  destruct (inA p) eqn:Ea; cbn [andb]; [|auto].
  destruct (memP p vis) eqn:Em; cbn [negb]; [auto|].
  assert (Hv1 : forall y, In y (p :: vis) -> reach y) by (intros y [<-|Hy]; auto).
  destruct (opq p) eqn:Eo; [auto|].
  assert (FOLD: forall l v, (forall y, In y v -> reach y) -> (forall r, In r l -> inA r = true -> reach r) ->
      forall y, In y (fold_left (make_visible f g nexts) l v) -> reach y).
  { induction l as [|a l IHl]; intros v Hv' Hl y; cbn [fold_left]; [auto|].
    apply IHl; [|intros r Hr; apply Hl; right; auto].
    intros z. apply IH; [auto | apply Hl; left; auto]. }
  apply FOLD; auto. intros r Hr Har. eapply rS; eauto.
Qed.
Theorem mv_eq_reach fuel q : (m start < fuel)%nat -> In q (make_visible fuel g nexts [] start) <-> reach q.
Proof. intros Hf. split; [apply mv_sound; [intros x []| intros H; apply r0; auto] | now apply mv_complete]. Qed.
Lemma reach_in_grid q : reach q -> in_grid g q = true.
Proof. induction 1; auto. Qed.
End Flood.

(* the two fills of partially_occluded *)
Definition mL (p : pos) : nat := Z.to_nat (fst p + snd p + 2).
Definition mR (w : Z) (p : pos) : nat := Z.to_nat (fst p - snd p + w + 1).
Lemma nexts_left_dec g p q : in_grid g p = true -> In q (next_front_left p) -> (mL q < mL p)%nat.
Proof. intros Hin Hq. apply in_grid_spec in Hin. unfold next_front_left in Hq. unfold mL.
  destruct Hq as [<-|[<-|[<-|[]]]]; cbn [fst snd]; lia. Qed.
Lemma nexts_right_dec g p q : in_grid g p = true -> In q (next_front_right p) -> (mR (gwidth g) q < mR (gwidth g) p)%nat.
Proof. intros Hin Hq. apply in_grid_spec in Hin. unfold next_front_right in Hq. unfold mR.
  destruct Hq as [<-|[<-|[<-|[]]]]; cbn [fst snd]; lia. Qed.
Definition reachL (g : grid) (start : pos) := reach g next_front_left start.
Definition reachR (g : grid) (start : pos) := reach g next_front_right start.
(* a cell is visible iff it is reached through the front-left or the front-right fill *)
Definition po_visible (g : grid) (start q : pos) : Prop := reachL g start q \/ reachR g start q.

Lemma visible_app l r q : visible (l ++ r) q = visible l q || visible r q.
Proof. unfold visible, memP. now rewrite existsb_app. Qed.
Lemma po_fuel_ok g p : in_grid g p = true -> (mL p < po_fuel g)%nat /\ (mR (gwidth g) p < po_fuel g)%nat.
Proof. intros H. apply in_grid_spec in H. unfold mL, mR, po_fuel. lia. Qed.

Lemma flood_eq_reach g p msk q : wf_grid g -> partially_occluded g p = Ok msk -> (visible msk q = true <-> po_visible g p q).
Proof.
  intros Hw E. unfold partially_occluded in E. destruct (negb (fst p =? gheight g - 1)); [discriminate|].
  remember (po_fuel g) as fuel eqn:Ef. injection E as E. subst msk.
  rewrite visible_app, orb_true_iff. unfold visible. rewrite !memP_In. unfold po_visible, reachL, reachR.
  destruct (in_grid g p) eqn:Ein.
  - destruct (po_fuel_ok g p Ein) as [FL FR]. rewrite <- Ef in FL, FR.
    rewrite (mv_eq_reach g next_front_left mL (nexts_left_dec g) p fuel q FL).
    rewrite (mv_eq_reach g next_front_right (mR (gwidth g)) (nexts_right_dec g) p fuel q FR). tauto.
  - (* the agent column lies outside the view: nothing is visible *)
    assert (NL : forall x, ~ reach g next_front_left p x).
    { intros x Hx. induction Hx as [H|? ? ? IH]; [congruence | auto]. }
    assert (NR : forall x, ~ reach g next_front_right p x).
    { intros x Hx. induction Hx as [H|? ? ? IH]; [congruence | auto]. }
    assert (EL : forall nx, make_visible fuel g nx [] p = []) by (intros nx; destruct fuel; cbn [make_visible]; [|rewrite Ein]; reflexivity).
    rewrite !EL. split; [intros [[]|[]] | intros [H|H]; [destruct (NL _ H) | destruct (NR _ H)]].
Qed.
Lemma partially_occluded_ok g p : fst p = gheight g - 1 -> exists msk, partially_occluded g p = Ok msk.
Proof. intros H. unfold partially_occluded. rewrite H, Z.eqb_refl. cbn [negb]. eauto. Qed.
Lemma partially_occluded_not_implemented g p : fst p <> gheight g - 1 -> partially_occluded g p = Err NotImplementedError.
Proof. intros H. unfold partially_occluded. apply Z.eqb_neq in H. rewrite H. reflexivity. Qed.

(* the agent's own cell is always visible *)
Lemma po_agent_visible g p : in_grid g p = true -> po_visible g p p.
Proof. intros H. left. apply r0. exact H. Qed.
(* chain: a visible cell other than the agent's is an in-grid successor (edge- or corner-adjacent, one step forward or sideways)
   of a visible TRANSPARENT cell -- unfolding this repeatedly is the unbroken chain back to the agent *)
Definition adjacent8 (p q : pos) : Prop := Z.abs (fst p - fst q) <= 1 /\ Z.abs (snd p - snd q) <= 1 /\ p <> q.
Lemma po_chain g p q : po_visible g p q -> q = p \/
  exists c, po_visible g p c /\ o_blocks_vision (lookupH g c) = false /\ adjacent8 c q /\ in_grid g q = true.
Proof.
  intros [H|H]; inversion H as [Ha|c q' Hc Ho Hq Hin]; subst; auto; right; exists c.
  - split; [left; exact Hc|]. split; [exact Ho|]. split; [|exact Hin].
    unfold next_front_left in Hq. destruct c as [y x]. destruct Hq as [<-|[<-|[<-|[]]]]; unfold adjacent8; cbn [fst snd];
      (split; [lia|]); (split; [lia|]); intro E; injection E; lia.
  - split; [right; exact Hc|]. split; [exact Ho|]. split; [|exact Hin].
    unfold next_front_right in Hq. destruct c as [y x]. destruct Hq as [<-|[<-|[<-|[]]]]; unfold adjacent8; cbn [fst snd];
      (split; [lia|]); (split; [lia|]); intro E; injection E; lia.
Qed.

(* non-interference and monotonicity at the level of reachability *)
Lemma reach_transfer g g' nexts start q :
  (forall p, in_grid g' p = in_grid g p) ->
  (forall p, reach g nexts start p -> o_blocks_vision (lookupH g p) = false -> o_blocks_vision (lookupH g' p) = false) ->
  reach g nexts start q -> reach g' nexts start q.
Proof.
  intros Hin Hop H. induction H as [Ha|p q Hp IH Ho Hq Ha].
  - apply r0. rewrite Hin. exact Ha.
  - eapply rS; [exact IH | apply Hop; [exact Hp | exact Ho] | exact Hq | rewrite Hin; exact Ha].
Qed.
Lemma reach_noninterference g g' nexts start q :
  (forall p, in_grid g' p = in_grid g p) ->
  (forall p, reach g nexts start p -> lookupH g' p = lookupH g p) ->
  (reach g' nexts start q <-> reach g nexts start q).
Proof.
  intros Hin Hag. split.
  - intros H. induction H as [Ha|p q Hp IH Ho Hq Ha].
    + apply r0. rewrite <- Hin. exact Ha.
    + eapply rS; [exact IH | rewrite <- (Hag p IH); exact Ho | exact Hq | rewrite <- Hin; exact Ha].
  - apply reach_transfer; auto. intros p Hp Ho. rewrite (Hag p Hp). exact Ho.
Qed.

(* ================= partially_occluded: non-interference, monotonicity ================= *)
Lemma in_grid_same_shape og og' : hN og' = hN og -> wN og' = wN og -> forall p, in_grid og' p = in_grid og p.
Proof. intros Eh Ew p. unfold in_grid, garea. rewrite !gheight_hN, !gwidth_wN, Eh, Ew. reflexivity. Qed.
Lemma po_view_noninterference og og' p : hN og' = hN og -> wN og' = wN og ->
  (forall q, po_visible og p q -> lookupH og' q = lookupH og q) ->
  forall q, po_visible og' p q <-> po_visible og p q.
Proof.
  intros Eh Ew Hag q. pose proof (in_grid_same_shape og og' Eh Ew) as Hin. unfold po_visible, reachL, reachR.
  rewrite (reach_noninterference og og' next_front_left p q Hin) by (intros x Hx; apply Hag; left; exact Hx).
  rewrite (reach_noninterference og og' next_front_right p q Hin) by (intros x Hx; apply Hag; right; exact Hx).
  tauto.
Qed.
(* making a visible opaque cell transparent (or any cell more transparent) never hides a cell that was visible *)
Lemma po_monotone og og' p q : hN og' = hN og -> wN og' = wN og ->
  (forall x, o_blocks_vision (lookupH og x) = false -> o_blocks_vision (lookupH og' x) = false) ->
  po_visible og p q -> po_visible og' p q.
Proof.
  intros Eh Ew Hop [H|H]; [left|right]; (eapply reach_transfer; [exact (in_grid_same_shape og og' Eh Ew) | intros x _ Hx; apply Hop; exact Hx | exact H]).
Qed.

(* two hidings are equal when the masks agree and the grids agree on the visible cells *)
Lemma hide_ext og og' m m' : wf_grid og -> wf_grid og' -> hN og' = hN og -> wN og' = wN og ->
  (forall q, visible m' q = visible m q) ->
  (forall q, visible m q = true -> in_grid og q = true -> lookupH og' q = lookupH og q) ->
  hide og' m' = hide og m.
Proof.
  intros Hw Hw' Eh Ew Hm Hag.
  destruct (hide_shape og m Hw) as (A1 & A2 & A3). destruct (hide_shape og' m' Hw') as (B1 & B2 & B3).
  apply grid_ext; auto; try congruence.
  intros i j Hi Hj. rewrite B1 in Hi. rewrite B2 in Hj. rewrite !hide_get by lia. rewrite Hm.
  destruct (visible m (Z.of_nat i, Z.of_nat j)) eqn:V; auto.
  assert (Q : in_grid og (Z.of_nat i, Z.of_nat j) = true) by (apply in_grid_spec; cbn [fst snd]; rewrite gheight_hN, gwidth_wN; lia).
  assert (Q' : in_grid og' (Z.of_nat i, Z.of_nat j) = true) by (rewrite (in_grid_same_shape og og' Eh Ew); exact Q).
  pose proof (Hag _ V Q) as E. rewrite (lookupH_get0 og _ Hw Q), (lookupH_get0 og' _ Hw' Q') in E. cbn [fst snd] in E.
  rewrite !Nat2Z.id in E. exact E.
Qed.

Lemma bool_eq_iff (a b : bool) : (a = true <-> b = true) -> a = b.
Proof. destruct a, b; intros [H1 H2]; try reflexivity; [symmetry; apply H1; reflexivity | apply H2; reflexivity]. Qed.

(* observation-level statement on the raw views (rotated sub-grids) of two worlds with the same pose *)
Lemma po_obs_noninterference own rays a s s' pov : area_ok a = true ->
  spos s' = spos s -> sori s' = sori s -> sheld s' = sheld s ->
  tact_area (mkT (spos s) (sori s)) a = Ok pov ->
  (forall m q, partially_occluded (raw_view s pov) (- ymin a, - xmin a) = Ok m -> visible m q = true ->
     lookupH (raw_view s' pov) q = lookupH (raw_view s pov) q) ->
  from_visibility VPartiallyOccluded own rays a s' = from_visibility VPartiallyOccluded own rays a s.
Proof.
  intros Hok Ep Eo Eh E Hag. unfold from_visibility. rewrite Ep, Eo, Eh, E. cbn [lift bind visibility].
  destruct (raw_view_spec s a pov Hok E) as (Rh & Rw & Rwf & _).
  assert (E' : tact_area (mkT (spos s') (sori s')) a = Ok pov) by (rewrite Ep, Eo; exact E).
  destruct (raw_view_spec s' a pov Hok E') as (Rh' & Rw' & Rwf' & _).
  fold (raw_view s pov). replace (grid_rot_by (sori s) (subgrid (sgrid s') pov)) with (raw_view s' pov) by (unfold raw_view; now rewrite Eo).
  set (og := raw_view s pov) in *. set (og' := raw_view s' pov) in *. set (p := (- ymin a, - xmin a)) in *.
  assert (Sh : hN og' = hN og) by congruence. assert (Sw : wN og' = wN og) by congruence.
  destruct (Z.eq_dec (fst p) (gheight og - 1)) as [Ey|Ny].
  - destruct (partially_occluded_ok og p Ey) as [m Em].
    assert (Ey' : fst p = gheight og' - 1) by (rewrite gheight_hN, Sh, <- gheight_hN; exact Ey).
    destruct (partially_occluded_ok og' p Ey') as [m' Em']. rewrite Em, Em'. cbn [lift bind]. f_equal. f_equal.
    apply hide_ext; auto.
    + intros q. apply bool_eq_iff. rewrite (flood_eq_reach og p m q Rwf Em), (flood_eq_reach og' p m' q Rwf' Em').
      apply po_view_noninterference; auto. intros x Hx. apply (Hag m x Em). now apply (flood_eq_reach og p m x Rwf Em).
    + intros q V _. apply (Hag m q Em V).
  - rewrite (partially_occluded_not_implemented og p Ny).
    assert (Ny' : fst p <> gheight og' - 1) by (rewrite gheight_hN, Sh, <- gheight_hN; exact Ny).
    rewrite (partially_occluded_not_implemented og' p Ny'). reflexivity.
Qed.

(* ================= ray tracing ================= *)
(* lit: the cell is the k-th cell of some ray whose earlier cells are all transparent *)
Definition transparent (g : grid) (p : pos) : bool := negb (o_blocks_vision (lookupH g p)).
Definition lit_on (g : grid) (r : ray) (k : nat) : Prop := forall i, (i < k)%nat -> forall c, nth_error r i = Some c -> transparent g c = true.
Definition lit (g : grid) (rays : list ray) (p : pos) : Prop :=
  exists r k, In r rays /\ nth_error r k = Some p /\ lit_on g r k.

Lemma lit_cells_spec g r : forall light p b,
  In (p, b) (lit_cells g light r) <->
  exists k, nth_error r k = Some p /\ b = (light && forallb (transparent g) (firstn k r)).
Proof.
  induction r as [|c t IH]; intros light p b; cbn [lit_cells].
  - split; [intros [] | intros (k & H & _); destruct k; discriminate].
  - cbn [In]. rewrite IH. split.
    + intros [E|(k & Hk & Eb)].
      * injection E as <- <-. exists 0%nat. cbn. now rewrite andb_true_r.
      * exists (S k). cbn [nth_error firstn forallb]. split; auto. rewrite Eb. unfold transparent. now rewrite andb_assoc.
    + intros (k & Hk & Eb). destruct k as [|k].
      * left. cbn in Hk. injection Hk as ->. cbn in Eb. rewrite andb_true_r in Eb. now subst.
      * right. exists k. cbn [nth_error firstn forallb] in *. split; auto. rewrite Eb. unfold transparent. now rewrite andb_assoc.
Qed.
Lemma forallb_firstn_lit g r k : forallb (transparent g) (firstn k r) = true <-> lit_on g r k.
Proof.
  unfold lit_on. revert k. induction r as [|c t IH]; intros k.
  - rewrite firstn_nil. cbn. split; auto. intros _ i _ x Hx. destruct i; discriminate.
  - destruct k as [|k]; cbn [firstn forallb].
    + split; auto. intros _ i Hi. lia.
    + rewrite andb_true_iff, IH. split.
      * intros [Hc Ht] i Hi x Hx. destruct i as [|i]; [cbn in Hx; injection Hx as <-; auto|]. apply (Ht i); [lia | exact Hx].
      * intros H. split; [apply (H 0%nat); [lia | reflexivity]|]. intros i Hi x Hx. apply (H (S i)); [lia | exact Hx].
Qed.
Lemma count_num_pos g rays p : 1 <= count_num g rays p <-> lit g rays p.
Proof.
  unfold count_num, lit. split.
  - intros H. destruct (filter _ _) as [|[q b] t] eqn:E; [cbn in H; lia|].
    assert (Hin : In (q, b) (filter (fun e => pos_eqb (fst e) p && snd e) (flat_map (lit_cells g true) rays))) by (rewrite E; left; auto).
    apply filter_In in Hin. destruct Hin as [Hin Hc]. cbn [fst snd] in Hc. apply andb_true_iff in Hc. destruct Hc as [Hq Hb].
    apply pos_eqb_eq in Hq. subst q b. apply in_flat_map in Hin. destruct Hin as (r & Hr & Hin).
    apply lit_cells_spec in Hin. destruct Hin as (k & Hk & Eb). cbn [andb] in Eb. symmetry in Eb. apply forallb_firstn_lit in Eb.
    exists r, k. auto.
  - intros (r & k & Hr & Hk & Hl).
    assert (Hin : In (p, true) (filter (fun e => pos_eqb (fst e) p && snd e) (flat_map (lit_cells g true) rays))).
    { apply filter_In. split.
      - apply in_flat_map. exists r. split; auto. apply lit_cells_spec. exists k. split; auto. cbn [andb]. symmetry. now apply forallb_firstn_lit.
      - cbn [fst snd]. rewrite andb_true_r. apply pos_eqb_eq. reflexivity. }
    destruct (filter _ _); [destruct Hin | cbn [length]; lia].
Qed.
Lemma rt_eq_lit g rays p : visible (raytracing g rays) p = true <-> in_grid g p = true /\ lit g rays p.
Proof.
  unfold visible, raytracing. rewrite memP_In, filter_In, gpositions_In, Z.leb_le, count_num_pos. tauto.
Qed.
(* the ray contract used below (a consequence of C19): every cell of every ray lies inside the view *)
Definition rays_inside (g : grid) (rays : list ray) : Prop := forall r c, In r rays -> In c r -> in_grid g c = true.

Lemma lit_prefix g rays r k p : rays_inside g rays -> In r rays -> nth_error r k = Some p -> lit_on g r k ->
  forall i c, (i <= k)%nat -> nth_error r i = Some c -> in_grid g c = true /\ lit g rays c.
Proof.
  intros Hin Hr Hk Hl i c Hi Hc. split; [eapply Hin; eauto; eapply nth_error_In; eauto|].
  exists r, i. split; auto. split; auto. intros j Hj x Hx. apply (Hl j); [lia | exact Hx].
Qed.
Lemma rt_lit_noninterference g g' rays p : rays_inside g rays ->
  (forall q, in_grid g q = true -> lit g rays q -> lookupH g' q = lookupH g q) ->
  (lit g' rays p <-> lit g rays p).
Proof.
  intros Hin Hag. split.
  - intros (r & k & Hr & Hk & Hl). exists r, k. split; auto. split; auto.
    (* by induction on the index: every earlier cell is lit in g, hence unchanged, hence transparent in g too *)
    assert (P : forall n, (n <= k)%nat -> lit_on g r n).
    { induction n as [|n IHn]; intros Hn; [intros i Hi; lia|].
      intros i Hi c Hc. destruct (Nat.eq_dec i n) as [->|Hne].
      - assert (Ln : lit_on g r n) by (apply IHn; lia).
        assert (Q : in_grid g c = true /\ lit g rays c).
        { split; [eapply Hin; eauto; eapply nth_error_In; eauto|]. exists r, n. auto. }
        unfold transparent. rewrite <- (Hag c (proj1 Q) (proj2 Q)). apply (Hl n); [lia | exact Hc].
      - apply (IHn ltac:(lia) i); [lia | exact Hc]. }
    apply P. lia.
  - intros (r & k & Hr & Hk & Hl). exists r, k. split; auto. split; auto.
    intros i Hi c Hc. destruct (lit_prefix g rays r k p Hin Hr Hk Hl i c ltac:(lia) Hc) as [Q1 Q2].
    unfold transparent. rewrite (Hag c Q1 Q2). apply (Hl i); auto.
Qed.
Lemma rt_monotone g g' rays p :
  (forall x, o_blocks_vision (lookupH g x) = false -> o_blocks_vision (lookupH g' x) = false) ->
  lit g rays p -> lit g' rays p.
Proof.
  intros Hop (r & k & Hr & Hk & Hl). exists r, k. split; auto. split; auto.
  intros i Hi c Hc. unfold transparent in *. specialize (Hl i Hi c Hc). apply negb_true_iff in Hl. apply negb_true_iff. auto.
Qed.
(* the agent's cell is lit as soon as one ray starts there (C19: every ray starts at its origin) *)
Lemma rt_agent_visible g rays p r : In r rays -> nth_error r 0 = Some p -> lit g rays p.
Proof. intros Hr H0. exists r, 0%nat. split; auto. split; auto. intros i Hi. lia. Qed.
(* chain: a lit cell other than a ray's first cell follows a lit TRANSPARENT cell on that ray *)
Lemma rt_chain g rays p : rays_inside g rays -> lit g rays p ->
  exists r k, In r rays /\ nth_error r k = Some p /\
    forall i c, (i < k)%nat -> nth_error r i = Some c -> in_grid g c = true /\ lit g rays c /\ transparent g c = true.
Proof.
  intros Hin (r & k & Hr & Hk & Hl). exists r, k. split; auto. split; auto. intros i c Hi Hc.
  destruct (lit_prefix g rays r k p Hin Hr Hk Hl i c ltac:(lia) Hc) as [Q1 Q2]. split; auto. split; auto. apply (Hl i); auto.
Qed.

Lemma rt_obs_noninterference own rays a s s' pov : area_ok a = true ->
  spos s' = spos s -> sori s' = sori s -> sheld s' = sheld s ->
  tact_area (mkT (spos s) (sori s)) a = Ok pov -> rays_inside (raw_view s pov) rays ->
  (forall q, visible (raytracing (raw_view s pov) rays) q = true -> lookupH (raw_view s' pov) q = lookupH (raw_view s pov) q) ->
  from_visibility VRaytracing own rays a s' = from_visibility VRaytracing own rays a s.
Proof.
  intros Hok Ep Eo Eh E Hri Hag. unfold from_visibility. rewrite Ep, Eo, Eh, E. cbn [lift bind visibility].
  destruct (raw_view_spec s a pov Hok E) as (Rh & Rw & Rwf & _).
  assert (E' : tact_area (mkT (spos s') (sori s')) a = Ok pov) by (rewrite Ep, Eo; exact E).
  destruct (raw_view_spec s' a pov Hok E') as (Rh' & Rw' & Rwf' & _).
  fold (raw_view s pov). replace (grid_rot_by (sori s) (subgrid (sgrid s') pov)) with (raw_view s' pov) by (unfold raw_view; now rewrite Eo).
  set (og := raw_view s pov) in *. set (og' := raw_view s' pov) in *. set (p := (- ymin a, - xmin a)) in *.
  assert (Sh : hN og' = hN og) by congruence. assert (Sw : wN og' = wN og) by congruence.
  rewrite (in_grid_same_shape og og' Sh Sw p). destruct (in_grid og p); [|reflexivity]. cbn [bind]. f_equal. f_equal.
  apply hide_ext; auto.
  intros q. apply bool_eq_iff. rewrite !rt_eq_lit. rewrite (in_grid_same_shape og og' Sh Sw q).
  rewrite (rt_lit_noninterference og og' rays q Hri); [tauto|].
  intros x Hx Lx. apply Hag. apply rt_eq_lit. auto.
Qed.

(* ================= the stochastic variant: bounds ================= *)
Lemma count_le g rays p : 0 <= count_num g rays p <= count_den g rays p.
Proof.
  unfold count_num, count_den. split; [lia|]. apply inj_le.
  induction (flat_map (lit_cells g true) rays) as [|e t IH]; cbn [filter]; auto.
  destruct (pos_eqb (fst e) p); cbn [andb]; [destruct (snd e); cbn [length]; lia | auto].
Qed.
Definition stoch_shown (g : grid) (rays : list ray) (p : pos) (z : Z) : bool :=
  (0 <? count_den g rays p) && (z * count_den g rays p <? count_num g rays p * two53).
(* every outcome: a shown cell is one the deterministic ray-traced view can show; a cell every ray reaches lit is always shown *)
Lemma stoch_leaf own g rays m : Leaf (stochastic_raytracing own g rays) (Ok m) ->
  exists zs, Z.of_nat (length zs) = gheight g * gwidth g /\ Forall (fun z => 0 <= z < two53) zs /\
    m = map fst (filter (fun pz => stoch_shown g rays (fst pz) (snd pz)) (combine (gpositions g) zs)).
Proof.
  intros HL. unfold stochastic_raytracing, runif in HL. cbn [bind] in HL.
  inversion HL as [| |gg r k ans x Hv Hl]; subst. cbn [bind] in Hl. apply Leaf_Ret in Hl. injection Hl as ->.
  unfold valid_ans in Hv. apply andb_true_iff in Hv. destruct Hv as [H1 H2]. apply Z.eqb_eq in H1.
  exists ans. split; auto. split; [|reflexivity].
  apply Forall_forall. intros z Hz. unfold inrange in H2. rewrite forallb_forall in H2. specialize (H2 z Hz).
  apply andb_true_iff in H2. rewrite Z.leb_le, Z.ltb_lt in H2. exact H2.
Qed.
Lemma stoch_subset own g rays m p : Leaf (stochastic_raytracing own g rays) (Ok m) -> visible m p = true ->
  visible (raytracing g rays) p = true.
Proof.
  intros HL V. destruct (stoch_leaf own g rays m HL) as (zs & Hlen & Hz & ->).
  unfold visible in V. apply memP_In in V. apply in_map_iff in V. destruct V as ([q z] & Eq & Hin). cbn [fst] in Eq. subst q.
  apply filter_In in Hin. destruct Hin as [Hin Hs]. cbn [fst snd] in Hs.
  assert (Hzr : 0 <= z < two53). { rewrite Forall_forall in Hz. apply Hz. apply in_combine_r in Hin. exact Hin. }
  unfold stoch_shown in Hs. apply andb_true_iff in Hs. destruct Hs as [Hd Hn]. apply Z.ltb_lt in Hd, Hn.
  apply rt_eq_lit. split; [apply gpositions_In; apply in_combine_l in Hin; exact Hin|].
  apply count_num_pos. pose proof (count_le g rays p). unfold two53 in *. nia.
Qed.
Lemma stoch_superset_cell g rays p z : 0 <= z < two53 -> 0 < count_den g rays p -> count_num g rays p = count_den g rays p ->
  stoch_shown g rays p z = true.
Proof.
  intros Hz Hd En. unfold stoch_shown. rewrite En. apply andb_true_iff. rewrite !Z.ltb_lt. split; auto. unfold two53 in *. nia.
Qed.
