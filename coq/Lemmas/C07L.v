(* C07: observations are egocentric -- invariant under rigid motions of the world *)
From Coq Require Import ZArith List Bool Lia.
From GV.Model Require Import Obs.
From GV.Lemmas Require Import GridL RandL GeomL RotL TransL C05L.
Import ListNotations.
Open Scope Z_scope.

(* a rigid motion t of Z^2 carries world (g, pose) to world (g', t * pose) when every cell is carried along *)
Definition carried (t : transform) (g g' : grid) : Prop := forall p, lookupH g' (tact t p) = lookupH g p.
Definition move_pose (t : transform) (s : state) (g' : grid) : state :=
  let q := tmul t (mkT (spos s) (sori s)) in mkS g' (tpos q) (tori q) (sheld s).

Lemma raw_view_invariant t s g' a pov pov' : area_ok a = true -> carried t (sgrid s) g' ->
  tact_area (mkT (spos s) (sori s)) a = Ok pov ->
  tact_area (mkT (spos (move_pose t s g')) (sori (move_pose t s g'))) a = Ok pov' ->
  raw_view (move_pose t s g') pov' = raw_view s pov.
Proof.
  intros Hok Hc E E'.
  destruct (raw_view_spec s a pov Hok E) as (Rh & Rw & Rwf & Rget).
  destruct (raw_view_spec (move_pose t s g') a pov' Hok E') as (Rh' & Rw' & Rwf' & Rget').
  apply grid_ext; auto; try congruence.
  intros i j Hi Hj. rewrite Rh' in Hi. rewrite Rw' in Hj. rewrite Rget', Rget by auto.
  unfold world_pos, move_pose. cbn [sgrid spos sori].
  replace (mkT (tpos (tmul t (mkT (spos s) (sori s)))) (tori (tmul t (mkT (spos s) (sori s))))) with (tmul t (mkT (spos s) (sori s)))
    by (destruct (tmul t (mkT (spos s) (sori s))); reflexivity).
  rewrite tact_mul. apply Hc.
Qed.

(* every built-in observation function (the stochastic one included: equal as choice trees), every view area *)
Lemma observation_rigid_invariant v own rays t s g' a : area_ok a = true -> carried t (sgrid s) g' ->
  from_visibility v own rays a (move_pose t s g') = from_visibility v own rays a s.
Proof.
  intros Hok Hc. unfold from_visibility.
  destruct (tact_area_total (mkT (spos s) (sori s)) a Hok) as (pov & E & _).
  destruct (tact_area_total (mkT (spos (move_pose t s g')) (sori (move_pose t s g'))) a Hok) as (pov' & E' & _).
  rewrite E, E'. cbn [lift bind].
  pose proof (raw_view_invariant t s g' a pov pov' Hok Hc E E') as R. unfold raw_view in R. rewrite R.
  reflexivity.
Qed.

(* Grid.__mul__ r, together with the induced cell map and heading (-r) * o, is such a motion -- for all shapes *)
Definition rot_motion (r : ori) (g : grid) : transform :=
  match r with
  | FORWARD => mkT (0, 0) FORWARD
  | BACKWARD => mkT (gheight g - 1, gwidth g - 1) BACKWARD
  | LEFT => mkT (0, gheight g - 1) RIGHT
  | RIGHT => mkT (gwidth g - 1, 0) LEFT
  end.
Lemma rot_motion_heading r g : tori (rot_motion r g) = oneg r.  Proof. destruct r; reflexivity. Qed.


Lemma grid_mul_is_rigid r g : wf_grid g -> carried (rot_motion r g) g (grid_rot_by r g).
Proof.
  intros Hw p. unfold grid_rot_by.
  destruct (rot_kind_shape (grid_rot r) g Hw) as (Eh & Ew & Hw').
  pose proof (wf_hN g Hw) as Hh0. pose proof (wf_wN g Hw) as Hw0.
  destruct (in_grid g p) eqn:Ein.
  - pose proof Ein as Ein'. apply in_grid_spec in Ein'. rewrite gheight_hN, gwidth_wN in Ein'. destruct p as [y x]. cbn [fst snd] in Ein'.
    rewrite (lookupH_get0 g (y, x) Hw Ein). cbn [fst snd].
    assert (Q : in_grid (rot_kind (grid_rot r) g) (tact (rot_motion r g) (y, x)) = true).
    { apply in_grid_spec. rewrite gheight_hN, gwidth_wN, Eh, Ew.
      destruct r; cbn [grid_rot swaps rot_motion]; unfold tact, padd, orot; cbn [tpos tori omat fst snd]; rewrite ?gheight_hN, ?gwidth_wN; lia. }
    rewrite (lookupH_get0 _ _ Hw' Q).
    rewrite rot_kind_get; auto.
    + destruct r; cbn [grid_rot src rot_motion]; unfold tact, padd, orot; cbn [tpos tori omat fst snd]; rewrite ?gheight_hN, ?gwidth_wN;
        f_equal; lia.
    + rewrite Eh. apply in_grid_spec in Q. rewrite gheight_hN, Eh in Q. lia.
    + rewrite Ew. apply in_grid_spec in Q. rewrite gwidth_wN, Ew in Q. lia.
  - rewrite (lookupH_out g p Ein). apply lookupH_out. apply in_grid_false. apply in_grid_false in Ein.
    intro Q. apply Ein. rewrite gheight_hN, gwidth_wN in *. rewrite Eh, Ew in Q. destruct p as [y x]. cbn [fst snd].
    destruct r; cbn [grid_rot swaps rot_motion] in Q; unfold tact, padd, orot in Q; cbn [tpos tori omat fst snd] in Q;
      rewrite ?gheight_hN, ?gwidth_wN in Q; lia.
Qed.

(* the property: rotating the world by any quarter turn yields an equal observation *)
Definition rotate_world (r : ori) (s : state) : state := move_pose (rot_motion r (sgrid s)) s (grid_rot_by r (sgrid s)).
Lemma world_rotation_invariant v own rays r s a : area_ok a = true -> wf_grid (sgrid s) ->
  from_visibility v own rays a (rotate_world r s) = from_visibility v own rays a s.
Proof. intros Hok Hw. apply observation_rigid_invariant; auto. now apply grid_mul_is_rigid. Qed.
Lemma rotate_world_pose r s : sori (rotate_world r s) = omul (oneg r) (sori s) /\
  spos (rotate_world r s) = tact (rot_motion r (sgrid s)) (spos s) /\ sheld (rotate_world r s) = sheld s.
Proof. unfold rotate_world, move_pose, tmul, tact. cbn [sori spos sheld tpos tori]. rewrite rot_motion_heading. split; [reflexivity|]. split; reflexivity. Qed.
