(* C08: agent kinematics *)
From Coq Require Import ZArith List Bool Lia.
From GV.Model Require Import Trans.
From GV.Lemmas Require Import GridL RandL GeomL TransL.
Import ListNotations.
Open Scope Z_scope.

(* one cell in direction d relative to the heading *)
Definition displaced (s : state) (d : ori) : pos := padd (spos s) (orot (sori s) (ovec d)).
Lemma displaced_adjacent s d : manhattan (displaced s d) (spos s) = 1.
Proof. unfold displaced. destruct s as [g [y x] o h]; cbn [spos sori]. destruct o, d; unfold manhattan, padd, orot; cbn [omat ovec fst snd]; lia. Qed.
Lemma displaced_neq s d : displaced s d <> spos s.
Proof. intros E. pose proof (displaced_adjacent s d) as H. rewrite E in H. unfold manhattan in H. lia. Qed.
Lemma move_target_displaced s a d : move_dir a = Some d -> move_target s a = displaced s d.
Proof. intros H. unfold move_target, displaced, next_position. rewrite H. now rewrite ovec_rot. Qed.

Lemma move_spec s a own d : wf_grid (sgrid s) -> move_dir a = Some d ->
  let t := displaced s d in
  exists s', move_agent s a own = Ret s' /\ sgrid s' = sgrid s /\ sori s' = sori s /\ sheld s' = sheld s /\
    (spos s' = t <-> in_grid (sgrid s) t = true /\ o_blocks_movement (lookupH (sgrid s) t) = false) /\
    (spos s' = t \/ spos s' = spos s).
Proof.
  intros Hw Hd t. rewrite move_agent_eq by auto. eexists; split; [reflexivity|].
  unfold move_agent_pure, can_enter. rewrite (move_target_displaced s a d Hd). fold t.
  assert (Hm : is_move a = true) by (destruct a; cbn in Hd; try discriminate; reflexivity).
  assert (Hne : spos s <> t) by (intro E; apply (displaced_neq s d); fold t; auto).
  rewrite Hm. cbn [andb].
  destruct (in_grid (sgrid s) t) eqn:E1; cbn [andb].
  - destruct (o_blocks_movement (lookupH (sgrid s) t)) eqn:E2; cbn [negb].
    + split; [reflexivity|]. split; [reflexivity|]. split; [reflexivity|]. split; [|right; reflexivity].
      split; [intros E; contradiction | intros [_ H]; discriminate].
    + cbn [set_pos sgrid sori sheld spos]. split; [reflexivity|]. split; [reflexivity|]. split; [reflexivity|]. split; [|left; reflexivity].
      split; auto.
  - split; [reflexivity|]. split; [reflexivity|]. split; [reflexivity|]. split; [|right; reflexivity].
    split; [intros E; contradiction | intros [H _]; discriminate].
Qed.
Lemma move_dir_table :
  move_dir MOVE_FORWARD = Some FORWARD /\ move_dir MOVE_BACKWARD = Some BACKWARD /\
  move_dir MOVE_LEFT = Some LEFT /\ move_dir MOVE_RIGHT = Some RIGHT /\
  (forall a, is_move a = false <-> move_dir a = None) /\
  ovec FORWARD = (-1, 0) /\ ovec BACKWARD = (1, 0) /\ ovec LEFT = (0, -1) /\ ovec RIGHT = (0, 1).
Proof. repeat split; try reflexivity; destruct a; cbn; congruence. Qed.
Lemma move_nonmove s a own : is_move a = false -> move_agent s a own = Ret s.
Proof. intros H. unfold move_agent. now rewrite H. Qed.

Lemma turn_spec s a own :
  exists s', turn_agent s a own = Ret s' /\ spos s' = spos s /\ sgrid s' = sgrid s /\ sheld s' = sheld s /\
    sori s' = match a with TURN_LEFT => omul (sori s) LEFT | TURN_RIGHT => omul (sori s) RIGHT | _ => sori s end.
Proof. rewrite turn_agent_eq. eexists; split; [reflexivity|]. unfold turn_agent_pure. destruct a; cbn; auto. Qed.
(* a quarter turn: the heading vector is rotated by 90 degrees (never 0 or 180) *)
Lemma turn_quarter o : ovec (omul o LEFT) = orot LEFT (ovec o) /\ ovec (omul o RIGHT) = orot RIGHT (ovec o)
   /\ omul o LEFT <> o /\ omul o RIGHT <> o /\ omul o LEFT <> omul o RIGHT.
Proof. destruct o; cbn; repeat split; congruence. Qed.
Lemma turn_left_right_id s own : bind (turn_agent s TURN_LEFT own) (fun s1 => turn_agent s1 TURN_RIGHT own) = Ret s
  /\ bind (turn_agent s TURN_RIGHT own) (fun s1 => turn_agent s1 TURN_LEFT own) = Ret s.
Proof. destruct s as [g p o h]. destruct o; split; reflexivity. Qed.
Lemma four_turns_id s a own : is_turn a = true ->
  bind (turn_agent s a own) (fun s1 => bind (turn_agent s1 a own) (fun s2 => bind (turn_agent s2 a own) (fun s3 => turn_agent s3 a own))) = Ret s.
Proof. destruct s as [g p o h]. destruct a; try discriminate; destruct o; reflexivity. Qed.
Lemma turn_nonturn s a own : is_turn a = false -> turn_agent s a own = Ret s.
Proof. destruct a; try discriminate; reflexivity. Qed.

(* ---- pose frame: only move_agent / turn_agent / teleport change the pose ---- *)
Definition same_pose (s s' : state) := spos s' = spos s /\ sori s' = sori s.
Lemma pose_frame n s a own s' : wf_grid (sgrid s) ->
  match n with TMoveAgent | TTurnAgent | TTeleport => False | _ => True end ->
  Leaf (tfun_of n s a own) (Ok s') -> same_pose s s'.
Proof.
  intros Hw Hn HL. destruct n; try contradiction; cbn [tfun_of] in HL.
  - rewrite pickndrop_eq in HL by auto. apply Leaf_Ret in HL. injection HL as ->.
    unfold pickndrop_pure. destruct (_ && _ && _); split; reflexivity.
  - unfold move_obstacles in HL. apply Leaf_bind_Ok in HL. destruct HL as (ps & _ & HL).
    apply Leaf_bind_Ok in HL. destruct HL as (g' & _ & HL). apply Leaf_Ret in HL. injection HL as ->. split; reflexivity.
  - rewrite actuate_door_eq in HL by auto. apply Leaf_Ret in HL. injection HL as ->.
    unfold actuate_door_pure. destruct (_ && _ && _); split; reflexivity.
  - unfold actuate_box in HL. destruct (negb (is_actuate a)); [apply Leaf_Ret in HL; injection HL as ->; split; reflexivity|].
    destruct (negb (in_grid _ _)); [apply Leaf_Ret in HL; injection HL as ->; split; reflexivity|].
    apply Leaf_bind_Ok in HL. destruct HL as (b & _ & HL).
    destruct (is_ty ty_Box b); [|apply Leaf_Ret in HL; injection HL as ->; split; reflexivity].
    destruct (ocontent b); [|inversion HL].
    apply Leaf_bind_Ok in HL. destruct HL as (g' & _ & HL). apply Leaf_Ret in HL. injection HL as ->. split; reflexivity.
Qed.
Lemma move_agent_keeps_heading s a own s' : wf_grid (sgrid s) -> Leaf (move_agent s a own) (Ok s') -> sori s' = sori s.
Proof. intros Hw HL. rewrite move_agent_eq in HL by auto. apply Leaf_Ret in HL. injection HL as ->. unfold move_agent_pure. destruct (_ && _); reflexivity. Qed.
Lemma turn_agent_keeps_position s a own s' : Leaf (turn_agent s a own) (Ok s') -> spos s' = spos s.
Proof. intros HL. rewrite turn_agent_eq in HL. apply Leaf_Ret in HL. injection HL as ->. unfold turn_agent_pure. destruct (turn_dir a); reflexivity. Qed.

(* ---- the kinematic invariant ---- *)
Definition kin_ok (s : state) : Prop :=
  wf_grid (sgrid s) /\ in_grid (sgrid s) (spos s) = true /\ o_blocks_movement (lookupH (sgrid s) (spos s)) = false.

Lemma kin_gset_front s o : kin_ok s -> in_grid (sgrid s) (sfront s) = true -> kin_ok (set_grid s (gset (sgrid s) (sfront s) o)).
Proof.
  intros (Hw & Hin & Hb) Hf. unfold kin_ok; cbn [set_grid sgrid spos]. split; [auto using wf_gset|]. rewrite in_grid_gset. split; auto.
  rewrite lookupH_gset_other; auto. apply sfront_neq.
Qed.

Lemma kinematic_step n s a own s' : kin_ok s -> Leaf (tfun_of n s a own) (Ok s') -> kin_ok s'.
Proof.
  intros K HL. pose proof K as (Hw & Hin & Hb). destruct n; cbn [tfun_of] in HL.
  - (* move_agent *) rewrite move_agent_eq in HL by auto. apply Leaf_Ret in HL. injection HL as ->.
    unfold move_agent_pure, can_enter. destruct (is_move a); cbn [andb]; auto.
    destruct (in_grid (sgrid s) (move_target s a)) eqn:E1; cbn [andb]; auto.
    destruct (o_blocks_movement (lookupH (sgrid s) (move_target s a))) eqn:E2; cbn [negb]; auto.
    unfold kin_ok; cbn [set_pos sgrid spos]. auto.
  - (* turn_agent *) rewrite turn_agent_eq in HL. apply Leaf_Ret in HL. injection HL as ->.
    unfold turn_agent_pure. destruct (turn_dir a); auto.
  - (* pickndrop *) rewrite pickndrop_eq in HL by auto. apply Leaf_Ret in HL. injection HL as ->.
    unfold pickndrop_pure. destruct (is_pickndrop a); cbn [andb]; auto.
    destruct (in_grid (sgrid s) (sfront s)) eqn:E1; cbn [andb]; auto.
    destruct (_ || _); auto.
    pose proof (kin_gset_front s (if negb (is_ty ty_NoneGridObject (sheld s)) then sheld s else Floor) K E1) as K'.
    unfold kin_ok in *; cbn [set_grid sgrid spos] in *. auto.
  - (* move_obstacles *) unfold move_obstacles in HL. apply Leaf_bind_Ok in HL. destruct HL as (ps & Hps & HL).
    rewrite positions_where_ok in Hps by (auto; intros p Hp; apply gpositions_In; auto). apply Leaf_lift in Hps. injection Hps as Hps.
    apply Leaf_bind_Ok in HL. destruct HL as (g' & Hg' & HL). apply Leaf_Ret in HL. injection HL as ->.
    pose (I := fun g : grid => in_grid g (spos s) = true /\ o_blocks_movement (lookupH g (spos s)) = false).
    assert (PO : pending_ok ps (sgrid s)).
    { subst ps. split.
      - apply NoDup_filter. apply gpositions_NoDup.
      - intros p Hp. apply filter_In in Hp. destruct Hp as [Hp1 Hp2]. apply gpositions_In in Hp1. auto. }
    assert (STEP : forall g p q, I g -> wf_grid g -> in_grid g p = true -> in_grid g q = true ->
       is_ty ty_MovingObstacle (lookupH g p) = true -> is_ty ty_Floor (lookupH g q) = true -> In q (neighbours4 p) -> I (swapped g p q)).
    { intros g p q [Hi1 Hi2] Hwg Hp Hq Hob Hfl _. unfold I. rewrite in_grid_swapped. split; auto.
      assert (Hne : p <> q) by (intro; subst q; eapply ty_floor_not_obstacle; eauto).
      rewrite lookupH_swapped by auto.
      destruct (pos_eqb (spos s) p); [|destruct (pos_eqb (spos s) q)]; auto.
      - unfold is_ty in Hfl. apply Z.eqb_eq in Hfl. unfold o_blocks_movement. rewrite Hfl. destruct (ost _); reflexivity.
      - unfold is_ty in Hob. apply Z.eqb_eq in Hob. unfold o_blocks_movement. rewrite Hob. destruct (ost _); reflexivity. }
    destruct (mo_loop_all_ok (negb own) I STEP ps (sgrid s) Hw PO (conj Hin Hb) _ Hg') as (g'' & E & (Hi1 & Hi2) & Hw'' & _).
    injection E as <-. unfold kin_ok; cbn [set_grid sgrid spos]. auto.
  - (* actuate_door *) rewrite actuate_door_eq in HL by auto. apply Leaf_Ret in HL. injection HL as ->.
    unfold actuate_door_pure. destruct (is_actuate a); cbn [andb]; auto.
    destruct (in_grid (sgrid s) (sfront s)) eqn:E1; cbn [andb]; auto.
    destruct (door_opens _ _); auto. apply kin_gset_front; auto.
  - (* actuate_box *) unfold actuate_box in HL. destruct (negb (is_actuate a)); [apply Leaf_Ret in HL; injection HL as ->; auto|].
    destruct (in_grid (sgrid s) (sfront s)) eqn:E1; cbn [negb] in HL; [|apply Leaf_Ret in HL; injection HL as ->; auto].
    rewrite grid_get_in in HL by auto. cbn [lift bind] in HL.
    destruct (is_ty ty_Box _); [|apply Leaf_Ret in HL; injection HL as ->; auto].
    destruct (ocontent _) as [c|]; [|inversion HL].
    rewrite grid_set_in in HL by auto. cbn [lift bind] in HL. apply Leaf_Ret in HL. injection HL as ->.
    apply kin_gset_front; auto.
  - (* teleport *) rewrite teleport_eq in HL by auto.
    destruct (is_ty ty_Telepod (lookupH (sgrid s) (spos s))) eqn:ET; [|apply Leaf_Ret in HL; injection HL as ->; auto].
    cbv zeta in HL. destruct (partners s) as [|p0 pt] eqn:EP; [apply Leaf_Ret in HL; injection HL as ->; auto|].
    apply Leaf_bind_Ok in HL. destruct HL as (i & Hi & HL). apply Leaf_Ret in HL. injection HL as ->.
    apply Leaf_rchoice in Hi. destruct Hi as [[_ Hi]|[i' [Hi E]]]; [discriminate|]. injection E as <-.
    assert (Hq : In (nthZ (p0 :: pt) i (spos s)) (partners s)) by (rewrite EP; apply nthZ_In; auto).
    set (q := nthZ (p0 :: pt) i (spos s)) in *.
    unfold partners in Hq. apply filter_In in Hq. destruct Hq as [Hq1 Hq2]. apply filter_In in Hq1. destruct Hq1 as [Hq1 _].
    apply gpositions_In in Hq1. apply andb_true_iff in Hq2. destruct Hq2 as [Hq2 _].
    unfold kin_ok; cbn [set_pos sgrid spos]. split; [exact Hw|]. split; [exact Hq1|].
    unfold is_ty in Hq2. apply Z.eqb_eq in Hq2. unfold o_blocks_movement. rewrite Hq2. destruct (ost _); reflexivity.
Qed.

(* every composition, every history, every random outcome *)
Lemma kinematic_chain ns : forall s a own s', kin_ok s -> Leaf (chain (map tfun_of ns) s a own) (Ok s') -> kin_ok s'.
Proof.
  induction ns as [|n t IH]; intros s a own s' K HL; cbn [map chain] in HL.
  - apply Leaf_Ret in HL. injection HL as ->. auto.
  - apply Leaf_bind_Ok in HL. destruct HL as (s1 & H1 & H2). eapply IH; [|exact H2]. eapply kinematic_step; eauto.
Qed.
Fixpoint run_actions (ns : list tname) (own : bool) (acts : list Action) (s : state) : Rand state :=
  match acts with [] => Ret s | a :: t => bind (chain (map tfun_of ns) s a own) (run_actions ns own t) end.
Lemma kinematic_history ns own acts : forall s s', kin_ok s -> Leaf (run_actions ns own acts s) (Ok s') -> kin_ok s'.
Proof.
  induction acts as [|a t IH]; intros s s' K HL; cbn [run_actions] in HL.
  - apply Leaf_Ret in HL. injection HL as ->. auto.
  - apply Leaf_bind_Ok in HL. destruct HL as (s1 & H1 & H2). eapply IH; [|exact H2]. eapply kinematic_chain; eauto.
Qed.
