(* C09: objects are conserved *)
From Coq Require Import ZArith List Bool Lia Permutation.
From GV.Model Require Import Trans.
From GV.Lemmas Require Import GridL RandL GeomL TransL InvL C08L.
Import ListNotations.
Open Scope Z_scope.

Lemma holdable_not_floor o : o_holdable o = true -> oty o <> ty_Floor.
Proof. unfold o_holdable. intros H E. rewrite E in H. destruct (ost o); discriminate. Qed.

Lemma inventory_split s : inventory s = invl [sheld s] ++ invl (concat (sgrid s)).
Proof. unfold inventory. apply invl_cons. Qed.

Lemma pickndrop_conserved s a : wf_grid (sgrid s) -> Permutation (inventory (pickndrop_pure s a)) (inventory s).
Proof.
  intros Hw. unfold pickndrop_pure. destruct (is_pickndrop a); cbn [andb]; auto.
  destruct (in_grid (sgrid s) (sfront s)) eqn:Ein; cbn [andb]; auto.
  set (o := lookupH (sgrid s) (sfront s)).
  destruct (is_ty ty_Floor o || o_holdable o) eqn:C; auto.
  set (placed := if negb (is_ty ty_NoneGridObject (sheld s)) then sheld s else Floor).
  unfold inventory; cbn [sheld sgrid].
  rewrite (invl_cons (sheld s)), (invl_cons (if o_holdable o then o else NoneObj)).
  pose proof (invl_gset (sgrid s) (sfront s) placed Hw Ein) as P. fold o in P.
  assert (E1 : invl [if o_holdable o then o else NoneObj] = invl [o]).
  { destruct (o_holdable o) eqn:Hh; auto. rewrite orb_false_r in C. unfold is_ty in C. apply Z.eqb_eq in C.
    rewrite (invl_floor o C). apply invl_none. reflexivity. }
  assert (E2 : invl [placed] = invl [sheld s]).
  { unfold placed. destruct (is_ty ty_NoneGridObject (sheld s)) eqn:Hn; cbn [negb]; auto.
    unfold is_ty in Hn. apply Z.eqb_eq in Hn. rewrite (invl_none _ Hn). apply invl_floor. reflexivity. }
  rewrite E1, <- E2. exact P.
Qed.

Lemma actuate_door_conserved s a : wf_grid (sgrid s) -> Permutation (inventory (actuate_door_pure s a)) (inventory s).
Proof.
  intros Hw. unfold actuate_door_pure. destruct (is_actuate a); cbn [andb]; auto.
  destruct (in_grid (sgrid s) (sfront s)) eqn:Ein; cbn [andb]; auto.
  destruct (door_opens _ _); auto.
  rewrite !inventory_split; cbn [set_grid sheld sgrid]. apply Permutation_app_head.
  pose proof (invl_gset (sgrid s) (sfront s) (open_door (lookupH (sgrid s) (sfront s))) Hw Ein) as P.
  assert (E : invl [open_door (lookupH (sgrid s) (sfront s))] = invl [lookupH (sgrid s) (sfront s)]).
  { unfold invl. cbn [map]. now rewrite erase_open_door. }
  rewrite E in P. apply Permutation_app_inv_l with (l := invl [lookupH (sgrid s) (sfront s)]). exact P.
Qed.

(* opening a box replaces the box by its content *)
Lemma actuate_box_conserved s a : wf_grid (sgrid s) ->
  let b := lookupH (sgrid s) (sfront s) in
  if is_actuate a && in_grid (sgrid s) (sfront s) && is_ty ty_Box b then
    match ocontent b with
    | Some c => Permutation (invl [b] ++ inventory (actuate_box_pure s a)) (invl [c] ++ inventory s)
    | None => actuate_box_pure s a = s end
  else actuate_box_pure s a = s.
Proof.
  intros Hw b. unfold actuate_box_pure. fold b.
  destruct (is_actuate a && in_grid (sgrid s) (sfront s) && is_ty ty_Box b) eqn:C; auto.
  destruct (ocontent b) as [c|] eqn:Ec; auto.
  apply andb_true_iff in C. destruct C as [C _]. apply andb_true_iff in C. destruct C as [_ Ein].
  rewrite !inventory_split; cbn [set_grid sheld sgrid].
  pose proof (invl_gset (sgrid s) (sfront s) c Hw Ein) as P. fold b in P.
  eapply perm_trans; [apply Permutation_app_swap_app|]. eapply perm_trans; [|apply Permutation_app_swap_app].
  apply Permutation_app_head. exact P.
Qed.

Lemma move_obstacles_conserved s a own s' : wf_grid (sgrid s) -> Leaf (move_obstacles s a own) (Ok s') ->
  Permutation (inventory s') (inventory s) /\ sheld s' = sheld s.
Proof.
  intros Hw HL. unfold move_obstacles in HL. apply Leaf_bind_Ok in HL. destruct HL as (ps & Hps & HL).
  rewrite positions_where_ok in Hps by (auto; intros p Hp; apply gpositions_In; auto). apply Leaf_lift in Hps. injection Hps as Hps.
  apply Leaf_bind_Ok in HL. destruct HL as (g' & Hg' & HL). apply Leaf_Ret in HL. injection HL as ->.
  pose (I := fun g : grid => Permutation (invl (concat g)) (invl (concat (sgrid s)))).
  assert (PO : pending_ok ps (sgrid s)).
  { subst ps. split; [apply NoDup_filter, gpositions_NoDup|].
    intros p Hp. apply filter_In in Hp. destruct Hp as [Hp1 Hp2]. apply gpositions_In in Hp1. auto. }
  assert (STEP : forall g p q, I g -> wf_grid g -> in_grid g p = true -> in_grid g q = true ->
     is_ty ty_MovingObstacle (lookupH g p) = true -> is_ty ty_Floor (lookupH g q) = true -> In q (neighbours4 p) -> I (swapped g p q)).
  { intros g p q HI Hwg Hp Hq Hob Hfl _. unfold I in *.
    assert (Hne : p <> q) by (intro; subst q; eapply ty_floor_not_obstacle; eauto).
    eapply perm_trans; [apply invl_swapped; auto | exact HI]. }
  destruct (mo_loop_all_ok (negb own) I STEP ps (sgrid s) Hw PO (Permutation_refl _) _ Hg') as (g'' & E & HI & _).
  injection E as <-. split; [|reflexivity].
  rewrite !inventory_split; cbn [set_grid sheld sgrid]. apply Permutation_app_head. exact HI.
Qed.

(* every built-in function except actuate_box, every action, every random outcome *)
Lemma conserved_step n s a own s' : wf_grid (sgrid s) -> in_grid (sgrid s) (spos s) = true -> n <> TActuateBox ->
  Leaf (tfun_of n s a own) (Ok s') -> Permutation (inventory s') (inventory s).
Proof.
  intros Hw Hin Hn HL. destruct n; cbn [tfun_of] in HL; try congruence.
  - rewrite move_agent_eq in HL by auto. apply Leaf_Ret in HL. injection HL as ->.
    unfold move_agent_pure. destruct (_ && _); apply Permutation_refl.
  - rewrite turn_agent_eq in HL. apply Leaf_Ret in HL. injection HL as ->.
    unfold turn_agent_pure. destruct (turn_dir a); apply Permutation_refl.
  - rewrite pickndrop_eq in HL by auto. apply Leaf_Ret in HL. injection HL as ->. now apply pickndrop_conserved.
  - eapply move_obstacles_conserved; eauto.
  - rewrite actuate_door_eq in HL by auto. apply Leaf_Ret in HL. injection HL as ->. now apply actuate_door_conserved.
  - rewrite teleport_eq in HL by auto.
    destruct (is_ty ty_Telepod _); [|apply Leaf_Ret in HL; injection HL as ->; apply Permutation_refl].
    cbv zeta in HL. destruct (partners s); [apply Leaf_Ret in HL; injection HL as ->; apply Permutation_refl|].
    apply Leaf_bind_Ok in HL. destruct HL as (i & _ & HL). apply Leaf_Ret in HL. injection HL as ->. apply Permutation_refl.
Qed.
Lemma actuate_box_step s a own s' : wf_grid (sgrid s) -> Leaf (actuate_box s a own) (Ok s') ->
  let b := lookupH (sgrid s) (sfront s) in
  (is_actuate a && in_grid (sgrid s) (sfront s) && is_ty ty_Box b = true /\
     exists c, ocontent b = Some c /\ Permutation (invl [b] ++ inventory s') (invl [c] ++ inventory s))
  \/ s' = s.
Proof.
  intros Hw HL b. unfold actuate_box in HL.
  destruct (is_actuate a); cbn [negb] in HL; [|apply Leaf_Ret in HL; injection HL as ->; auto].
  destruct (in_grid (sgrid s) (sfront s)) eqn:Ein; cbn [negb] in HL; [|apply Leaf_Ret in HL; injection HL as ->; auto].
  rewrite grid_get_in in HL by auto. cbn [lift bind] in HL. fold b in HL.
  destruct (is_ty ty_Box b) eqn:Eb; [|apply Leaf_Ret in HL; injection HL as ->; auto].
  destruct (ocontent b) as [c|] eqn:Ec; [|inversion HL].
  rewrite grid_set_in in HL by auto. cbn [lift bind] in HL. apply Leaf_Ret in HL. injection HL as ->.
  left. split; auto. exists c. split; auto.
  pose proof (actuate_box_conserved s ACTUATE Hw) as P. cbv zeta in P. fold b in P.
  cbn [is_actuate andb] in P. rewrite Ein, Eb, Ec in P. cbn [andb] in P.
  unfold actuate_box_pure in P. cbn [is_actuate andb] in P. fold b in P. rewrite Ein, Eb, Ec in P. cbn [andb] in P. exact P.
Qed.


(* ---- histories ---- *)
Lemma conserved_chain ns : ~ In TActuateBox ns -> forall s a own s', kin_ok s ->
  Leaf (chain (map tfun_of ns) s a own) (Ok s') -> Permutation (inventory s') (inventory s).
Proof.
  induction ns as [|n t IH]; intros Hn s a own s' K HL; cbn [map chain] in HL.
  - apply Leaf_Ret in HL. injection HL as ->. apply Permutation_refl.
  - apply Leaf_bind_Ok in HL. destruct HL as (s1 & H1 & H2).
    pose proof K as (Hw & Hin & _).
    assert (K1 : kin_ok s1) by (eapply kinematic_step; [exact K | exact H1]).
    assert (P1 : Permutation (inventory s1) (inventory s)).
    { eapply conserved_step; [exact Hw | exact Hin | | exact H1]. intro; subst; apply Hn; left; reflexivity. }
    assert (P2 : Permutation (inventory s') (inventory s1)).
    { eapply IH; [ | exact K1 | exact H2]. intro; apply Hn; right; assumption. }
    eapply perm_trans; [exact P2 | exact P1].
Qed.
Lemma conserved_history ns own acts : ~ In TActuateBox ns -> forall s s', kin_ok s ->
  Leaf (run_actions ns own acts s) (Ok s') -> Permutation (inventory s') (inventory s).
Proof.
  intros Hn. induction acts as [|a t IH]; intros s s' K HL; cbn [run_actions] in HL.
  - apply Leaf_Ret in HL. injection HL as ->. apply Permutation_refl.
  - apply Leaf_bind_Ok in HL. destruct HL as (s1 & H1 & H2).
    assert (K1 : kin_ok s1) by (eapply kinematic_chain; [exact K | exact H1]).
    eapply perm_trans; [eapply IH; [exact K1 | exact H2] | eapply conserved_chain; [exact Hn | exact K | exact H1]].
Qed.

(* with boxes: the multiset of unwrapped objects is conserved by EVERY composition *)
Fixpoint deepE (o : obj) : list obj :=
  match o with Obj t s c (Some k) => if t =? ty_Box then deepE k else [o] | _ => [o] end.
Definition unwrap (l : list obj) : list obj := filter counted (flat_map deepE l).
Definition deep_inventory (s : state) : list obj := unwrap (inventory s).
Lemma unwrap_perm l l' : Permutation l l' -> Permutation (unwrap l) (unwrap l').
Proof. intros H. unfold unwrap. apply Permutation_filter, Permutation_flat_map, H. Qed.
Lemma unwrap_app l l' : unwrap (l ++ l') = unwrap l ++ unwrap l'.
Proof. unfold unwrap. now rewrite flat_map_app, filter_app. Qed.
Lemma unwrap_box b c : is_ty ty_Box b = true -> ocontent b = Some c -> unwrap (invl [b]) = unwrap (invl [c]).
Proof.
  intros Hb Hc. destruct b as [t s col k]. cbn in Hc. subst k. unfold is_ty in Hb. cbn in Hb. apply Z.eqb_eq in Hb. subst t.
  assert (E1 : invl [Obj ty_Box s col (Some c)] = [Obj ty_Box 0 col (Some (erase c))]) by reflexivity.
  rewrite E1. clear E1.
  assert (E2 : unwrap [Obj ty_Box 0 col (Some (erase c))] = filter counted (deepE (erase c))).
  { unfold unwrap. cbn [flat_map]. rewrite app_nil_r. reflexivity. }
  rewrite E2. clear E2.
  unfold invl. cbn [map filter].
  destruct (counted (erase c)) eqn:Ec.
  - unfold unwrap. cbn [flat_map]. now rewrite app_nil_r.
  - unfold unwrap. cbn [flat_map filter].
    destruct (erase c) as [t' s' c' k'] eqn:E. unfold counted in Ec. cbn [oty] in Ec.
    assert (Ht : t' = ty_Floor \/ t' = ty_NoneGridObject).
    { apply andb_false_iff in Ec. destruct Ec as [Ec|Ec]; apply negb_false_iff, Z.eqb_eq in Ec; auto. }
    assert (Hd : deepE (Obj t' s' c' k') = [Obj t' s' c' k']).
    { destruct k'; auto. cbn [deepE]. destruct Ht as [-> | ->]; reflexivity. }
    rewrite Hd. cbn [filter]. unfold counted. cbn [oty]. destruct Ht as [-> | ->]; reflexivity.
Qed.
Lemma deep_conserved_step n s a own s' : wf_grid (sgrid s) -> in_grid (sgrid s) (spos s) = true ->
  Leaf (tfun_of n s a own) (Ok s') -> Permutation (deep_inventory s') (deep_inventory s).
Proof.
  intros Hw Hin HL. destruct (match n with TActuateBox => true | _ => false end) eqn:En.
  - destruct n; try discriminate. cbn [tfun_of] in HL.
    destruct (actuate_box_step s a own s' Hw HL) as [[C (c & Hc & P)]| ->]; [|apply Permutation_refl].
    apply andb_true_iff in C. destruct C as [_ Hb].
    apply unwrap_perm in P. rewrite !unwrap_app in P. rewrite (unwrap_box _ _ Hb Hc) in P.
    unfold deep_inventory. eapply Permutation_app_inv_l. exact P.
  - unfold deep_inventory. apply unwrap_perm. eapply conserved_step; eauto. intro; subst; discriminate.
Qed.
Lemma deep_conserved_chain ns : forall s a own s', kin_ok s ->
  Leaf (chain (map tfun_of ns) s a own) (Ok s') -> Permutation (deep_inventory s') (deep_inventory s).
Proof.
  induction ns as [|n t IH]; intros s a own s' K HL; cbn [map chain] in HL.
  - apply Leaf_Ret in HL. injection HL as ->. apply Permutation_refl.
  - apply Leaf_bind_Ok in HL. destruct HL as (s1 & H1 & H2). pose proof K as (Hw & Hin & _).
    assert (K1 : kin_ok s1) by (eapply kinematic_step; [exact K | exact H1]).
    eapply perm_trans; [eapply IH; [exact K1 | exact H2] | eapply deep_conserved_step; [exact Hw | exact Hin | exact H1]].
Qed.
Lemma deep_conserved_history ns own acts : forall s s', kin_ok s ->
  Leaf (run_actions ns own acts s) (Ok s') -> Permutation (deep_inventory s') (deep_inventory s).
Proof.
  induction acts as [|a t IH]; intros s s' K HL; cbn [run_actions] in HL.
  - apply Leaf_Ret in HL. injection HL as ->. apply Permutation_refl.
  - apply Leaf_bind_Ok in HL. destruct HL as (s1 & H1 & H2).
    assert (K1 : kin_ok s1) by (eapply kinematic_chain; [exact K | exact H1]).
    eapply perm_trans; [eapply IH; [exact K1 | exact H2] | eapply deep_conserved_chain; [exact K | exact H1]].
Qed.

(* ---- pick-and-drop: the four documented cases and nothing else ---- *)
Lemma pickndrop_cases s a own : wf_grid (sgrid s) ->
  let pf := sfront s in let o := lookupH (sgrid s) pf in
  exists s', pickndrop s a own = Ret s' /\ spos s' = spos s /\ sori s' = sori s /\
    (forall q, q <> pf -> lookupH (sgrid s') q = lookupH (sgrid s) q) /\
    gheight (sgrid s') = gheight (sgrid s) /\ gwidth (sgrid s') = gwidth (sgrid s) /\
    ((a = PICK_N_DROP /\ in_grid (sgrid s) pf = true /\ o_holdable o = true /\
        (* pick (empty hand: floor is left) or swap (the held object is put down) *)
        sheld s' = o /\ lookupH (sgrid s') pf = (if is_ty ty_NoneGridObject (sheld s) then Floor else sheld s))
     \/ (a = PICK_N_DROP /\ in_grid (sgrid s) pf = true /\ o_holdable o = false /\ is_ty ty_Floor o = true /\
        (* drop on floor (or nothing to drop: floor stays floor) *)
        sheld s' = NoneObj /\ lookupH (sgrid s') pf = (if is_ty ty_NoneGridObject (sheld s) then Floor else sheld s))
     \/ ((a <> PICK_N_DROP \/ in_grid (sgrid s) pf = false \/ (o_holdable o = false /\ is_ty ty_Floor o = false)) /\ s' = s)).
Proof.
  intros Hw pf o. rewrite pickndrop_eq by auto. eexists; split; [reflexivity|].
  unfold pickndrop_pure. fold pf. fold o.
  destruct (is_pickndrop a) eqn:Ea; cbn [andb].
  2:{ split; [reflexivity|]. split; [reflexivity|]. split; [intros; reflexivity|]. split; [reflexivity|]. split; [reflexivity|].
      right; right. split; [|reflexivity]. left. intro; subst; discriminate. }
  assert (a = PICK_N_DROP) by (destruct a; try discriminate; reflexivity). subst a.
  destruct (in_grid (sgrid s) pf) eqn:Ein; cbn [andb].
  2:{ split; [reflexivity|]. split; [reflexivity|]. split; [intros; reflexivity|]. split; [reflexivity|]. split; [reflexivity|].
      right; right. split; [|reflexivity]. right; left; reflexivity. }
  destruct (o_holdable o) eqn:Eh.
  - rewrite orb_true_r. cbn [spos sori sgrid sheld]. rewrite gheight_gset, gwidth_gset.
    split; [reflexivity|]. split; [reflexivity|]. split; [intros q Hq; apply lookupH_gset_other; auto|]. split; [reflexivity|]. split; [reflexivity|].
    left. split; [reflexivity|]. split; [reflexivity|]. split; [reflexivity|]. split; [reflexivity|].
    rewrite lookupH_gset_same by auto. destruct (is_ty ty_NoneGridObject (sheld s)); reflexivity.
  - rewrite orb_false_r. destruct (is_ty ty_Floor o) eqn:Ef.
    + cbn [spos sori sgrid sheld]. rewrite gheight_gset, gwidth_gset.
      split; [reflexivity|]. split; [reflexivity|]. split; [intros q Hq; apply lookupH_gset_other; auto|]. split; [reflexivity|]. split; [reflexivity|].
      right; left. split; [reflexivity|]. split; [reflexivity|]. split; [reflexivity|]. split; [reflexivity|]. split; [reflexivity|].
      rewrite lookupH_gset_same by auto. destruct (is_ty ty_NoneGridObject (sheld s)); reflexivity.
    + split; [reflexivity|]. split; [reflexivity|]. split; [intros; reflexivity|]. split; [reflexivity|]. split; [reflexivity|].
      right; right. split; [|reflexivity]. right; right. split; reflexivity.
Qed.

(* ---- scenery never moves ---- *)
Definition scenery (o : obj) : bool :=
  negb (o_holdable o) && negb (oty o =? ty_Floor) && negb (oty o =? ty_MovingObstacle).
Lemma scenery_static n s a own s' q : wf_grid (sgrid s) -> in_grid (sgrid s) (spos s) = true ->
  Leaf (tfun_of n s a own) (Ok s') -> scenery (lookupH (sgrid s) q) = true ->
  erase (lookupH (sgrid s') q) = erase (lookupH (sgrid s) q)
  \/ (n = TActuateBox /\ a = ACTUATE /\ q = sfront s /\ is_ty ty_Box (lookupH (sgrid s) q) = true /\
      Some (lookupH (sgrid s') q) = ocontent (lookupH (sgrid s) q)).
Proof.
  intros Hw Hin HL Hs. destruct n; cbn [tfun_of] in HL.
  - rewrite move_agent_eq in HL by auto. apply Leaf_Ret in HL. injection HL as ->. left.
    unfold move_agent_pure. destruct (_ && _); reflexivity.
  - rewrite turn_agent_eq in HL. apply Leaf_Ret in HL. injection HL as ->. left.
    unfold turn_agent_pure. destruct (turn_dir a); reflexivity.
  - rewrite pickndrop_eq in HL by auto. apply Leaf_Ret in HL. injection HL as ->. left.
    unfold pickndrop_pure. destruct (is_pickndrop a); cbn [andb]; auto.
    destruct (in_grid (sgrid s) (sfront s)) eqn:Ein; cbn [andb]; auto.
    destruct (is_ty ty_Floor _ || o_holdable _) eqn:C; auto. cbn [sgrid].
    destruct (pos_eqb (sfront s) q) eqn:Eq.
    + apply pos_eqb_eq in Eq. subst q. exfalso. unfold scenery in Hs.
      apply andb_true_iff in Hs. destruct Hs as [Hs _]. apply andb_true_iff in Hs. destruct Hs as [H1 H2].
      apply negb_true_iff in H1, H2. unfold is_ty in C. rewrite H1, H2 in C. discriminate.
    + apply pos_eqb_neq in Eq. rewrite lookupH_gset_other by auto. reflexivity.
  - left. unfold move_obstacles in HL. apply Leaf_bind_Ok in HL. destruct HL as (ps & Hps & HL).
    rewrite positions_where_ok in Hps by (auto; intros p Hp; apply gpositions_In; auto). apply Leaf_lift in Hps. injection Hps as Hps.
    apply Leaf_bind_Ok in HL. destruct HL as (g' & Hg' & HL). apply Leaf_Ret in HL. injection HL as ->.
    pose (I := fun g : grid => lookupH g q = lookupH (sgrid s) q).
    assert (PO : pending_ok ps (sgrid s)).
    { subst ps. split; [apply NoDup_filter, gpositions_NoDup|].
      intros p Hp. apply filter_In in Hp. destruct Hp as [Hp1 Hp2]. apply gpositions_In in Hp1. auto. }
    assert (STEP : forall g p r, I g -> wf_grid g -> in_grid g p = true -> in_grid g r = true ->
       is_ty ty_MovingObstacle (lookupH g p) = true -> is_ty ty_Floor (lookupH g r) = true -> In r (neighbours4 p) -> I (swapped g p r)).
    { intros g p r HI Hwg Hp Hr Hob Hfl _. unfold I in *.
      assert (Hne : p <> r) by (intro; subst r; eapply ty_floor_not_obstacle; eauto).
      rewrite lookupH_swapped by auto.
      unfold scenery in Hs. apply andb_true_iff in Hs. destruct Hs as [Hs H3]. apply andb_true_iff in Hs. destruct Hs as [_ H2].
      apply negb_true_iff in H2, H3.
      destruct (pos_eqb q p) eqn:E1; [apply pos_eqb_eq in E1; subst p; rewrite HI in Hob; unfold is_ty in Hob; congruence|].
      destruct (pos_eqb q r) eqn:E2; [apply pos_eqb_eq in E2; subst r; rewrite HI in Hfl; unfold is_ty in Hfl; congruence|].
      exact HI. }
    destruct (mo_loop_all_ok (negb own) I STEP ps (sgrid s) Hw PO eq_refl _ Hg') as (g'' & E & HI & _).
    injection E as <-. cbn [set_grid sgrid]. unfold I in HI. now rewrite HI.
  - rewrite actuate_door_eq in HL by auto. apply Leaf_Ret in HL. injection HL as ->. left.
    unfold actuate_door_pure. destruct (is_actuate a); cbn [andb]; auto.
    destruct (in_grid (sgrid s) (sfront s)) eqn:Ein; cbn [andb]; auto.
    destruct (door_opens _ _); auto. cbn [set_grid sgrid].
    destruct (pos_eqb (sfront s) q) eqn:Eq.
    + apply pos_eqb_eq in Eq. subst q. rewrite lookupH_gset_same by auto. apply erase_open_door.
    + apply pos_eqb_neq in Eq. rewrite lookupH_gset_other by auto. reflexivity.
  - unfold actuate_box in HL.
    destruct (is_actuate a) eqn:Ea; cbn [negb] in HL; [|apply Leaf_Ret in HL; injection HL as ->; auto].
    destruct (in_grid (sgrid s) (sfront s)) eqn:Ein; cbn [negb] in HL; [|apply Leaf_Ret in HL; injection HL as ->; auto].
    rewrite grid_get_in in HL by auto. cbn [lift bind] in HL.
    destruct (is_ty ty_Box _) eqn:Eb; [|apply Leaf_Ret in HL; injection HL as ->; auto].
    destruct (ocontent _) as [c|] eqn:Ec; [|inversion HL].
    rewrite grid_set_in in HL by auto. cbn [lift bind] in HL. apply Leaf_Ret in HL. injection HL as ->. cbn [set_grid sgrid].
    destruct (pos_eqb (sfront s) q) eqn:Eq.
    + apply pos_eqb_eq in Eq. subst q. right. rewrite lookupH_gset_same by auto.
      repeat split; auto. destruct a; try discriminate; reflexivity.
    + apply pos_eqb_neq in Eq. left. rewrite lookupH_gset_other by auto. reflexivity.
  - left. rewrite teleport_eq in HL by auto.
    destruct (is_ty ty_Telepod _); [|apply Leaf_Ret in HL; injection HL as ->; reflexivity].
    cbv zeta in HL. destruct (partners s); [apply Leaf_Ret in HL; injection HL as ->; reflexivity|].
    apply Leaf_bind_Ok in HL. destruct HL as (i & _ & HL). apply Leaf_Ret in HL. injection HL as ->. reflexivity.
Qed.
