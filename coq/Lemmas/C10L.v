(* C10: doors, keys and boxes respond only to a faced ACTUATE, and only as documented *)
From Coq Require Import ZArith List Bool Lia.
From GV.Model Require Import Trans.
From GV.Lemmas Require Import GridL RandL GeomL TransL C08L.
Import ListNotations.
Open Scope Z_scope.

(* the complete case table of actuate_door *)
Lemma door_table s a own : wf_grid (sgrid s) ->
  let p := sfront s in let d := lookupH (sgrid s) p in
  exists s', actuate_door s a own = Ret s' /\ spos s' = spos s /\ sori s' = sori s /\ sheld s' = sheld s /\
    (forall q, q <> p -> lookupH (sgrid s') q = lookupH (sgrid s) q) /\
    ( (a = ACTUATE /\ in_grid (sgrid s) p = true /\ is_ty ty_Door d = true /\
        lookupH (sgrid s') p = Obj (oty d) (if (ost d =? st_OPEN) then ost d
                                              else if negb (ost d =? st_LOCKED) then st_OPEN
                                              else if key_opens (sheld s) d then st_OPEN else ost d) (ocol d) (ocontent d))
      \/ ((a <> ACTUATE \/ in_grid (sgrid s) p = false \/ is_ty ty_Door d = false) /\ s' = s) ).
Proof.
  intros Hw p d. rewrite actuate_door_eq by auto. eexists; split; [reflexivity|].
  unfold actuate_door_pure, door_opens. fold p. fold d.
  destruct (is_actuate a) eqn:Ea; cbn [andb].
  2:{ split; [reflexivity|]. split; [reflexivity|]. split; [reflexivity|]. split; [intros; reflexivity|].
      right. split; [|reflexivity]. left. intro; subst; discriminate. }
  assert (a = ACTUATE) by (destruct a; try discriminate; reflexivity). subst a.
  destruct (in_grid (sgrid s) p) eqn:Ein; cbn [andb].
  2:{ split; [reflexivity|]. split; [reflexivity|]. split; [reflexivity|]. split; [intros; reflexivity|].
      right. split; [|reflexivity]. right; left; reflexivity. }
  destruct (is_ty ty_Door d) eqn:Ed; cbn [andb].
  2:{ split; [reflexivity|]. split; [reflexivity|]. split; [reflexivity|]. split; [intros; reflexivity|].
      right. split; [|reflexivity]. right; right; reflexivity. }
  assert (SAME : lookupH (sgrid s) p = Obj (oty d) (ost d) (ocol d) (ocontent d)) by (fold d; destruct d; reflexivity).
  destruct (ost d =? st_OPEN) eqn:Eo; cbn [negb andb].
  { split; [reflexivity|]. split; [reflexivity|]. split; [reflexivity|]. split; [intros; reflexivity|]. left. repeat split; auto. }
  destruct (ost d =? st_LOCKED) eqn:El; cbn [negb orb].
  - destruct (key_opens (sheld s) d) eqn:Ek.
    + cbn [set_grid spos sori sheld sgrid]. split; [reflexivity|]. split; [reflexivity|]. split; [reflexivity|].
      split; [intros q Hq; apply lookupH_gset_other; auto|]. left. repeat split; auto. rewrite lookupH_gset_same by auto. reflexivity.
    + split; [reflexivity|]. split; [reflexivity|]. split; [reflexivity|]. split; [intros; reflexivity|]. left. repeat split; auto.
  - cbn [set_grid spos sori sheld sgrid]. split; [reflexivity|]. split; [reflexivity|]. split; [reflexivity|].
    split; [intros q Hq; apply lookupH_gset_other; auto|]. left. repeat split; auto. rewrite lookupH_gset_same by auto. reflexivity.
Qed.
Lemma status_values : st_OPEN = 0 /\ st_CLOSED = 1 /\ st_LOCKED = 2.
Proof. repeat split; reflexivity. Qed.

(* door frame: for every built-in function, every action and every random outcome, a door stays a door of the same
   colour at the same place, and its status changes only in actuate_door under ACTUATE with the door in front,
   only to OPEN, and (if it was LOCKED) only with a key of its colour in hand *)
Definition is_door (o : obj) := is_ty ty_Door o.
Lemma door_frame n s a own s' q : wf_grid (sgrid s) -> in_grid (sgrid s) (spos s) = true ->
  Leaf (tfun_of n s a own) (Ok s') -> is_door (lookupH (sgrid s) q) = true ->
  let d := lookupH (sgrid s) q in let d' := lookupH (sgrid s') q in
  d' = d \/
  (n = TActuateDoor /\ a = ACTUATE /\ q = sfront s /\ d' = open_door d /\ ost d <> st_OPEN /\
   (ost d = st_LOCKED -> key_opens (sheld s) d = true)).
Proof.
  intros Hw Hin HL Hd d d'. unfold d, d'. clear d d'. unfold is_door, is_ty in Hd. apply Z.eqb_eq in Hd.
  destruct n; cbn [tfun_of] in HL.
  - rewrite move_agent_eq in HL by auto. apply Leaf_Ret in HL. injection HL as ->. left.
    unfold move_agent_pure. destruct (_ && _); reflexivity.
  - rewrite turn_agent_eq in HL. apply Leaf_Ret in HL. injection HL as ->. left.
    unfold turn_agent_pure. destruct (turn_dir a); reflexivity.
  - rewrite pickndrop_eq in HL by auto. apply Leaf_Ret in HL. injection HL as ->. left.
    unfold pickndrop_pure. destruct (is_pickndrop a); cbn [andb]; auto.
    destruct (in_grid (sgrid s) (sfront s)) eqn:Ein; cbn [andb]; auto.
    destruct (is_ty ty_Floor _ || o_holdable _) eqn:C; auto. cbn [sgrid].
    destruct (pos_eqb (sfront s) q) eqn:Eq.
    + apply pos_eqb_eq in Eq. subst q. exfalso. unfold is_ty, o_holdable in C. rewrite Hd in C.
      destruct (ost (lookupH (sgrid s) (sfront s))); discriminate.
    + apply pos_eqb_neq in Eq. rewrite lookupH_gset_other by auto. reflexivity.
  - left. unfold move_obstacles in HL. apply Leaf_bind_Ok in HL. destruct HL as (ps & Hps & HL).
    rewrite positions_where_ok in Hps by (auto; intros p Hp; apply gpositions_In; auto). apply Leaf_lift in Hps. injection Hps as Hps.
    apply Leaf_bind_Ok in HL. destruct HL as (g' & Hg' & HL). apply Leaf_Ret in HL. injection HL as ->.
    pose (I := fun g : grid => lookupH g q = lookupH (sgrid s) q).
    assert (PO : pending_ok ps (sgrid s)).
    { subst ps. split; [apply NoDup_filter, gpositions_NoDup|].
      intros p Hp. apply filter_In in Hp. destruct Hp as [Hp1 Hp2]. apply gpositions_In in Hp1. auto. }
    assert (STEP : forall g p r, I g -> wf_grid g -> in_grid g p = true -> in_grid g r = true ->
       is_ty ty_MovingObstacle (lookupH g p) = true -> is_ty ty_Floor (lookupH g r) = true -> In r (neighbours4 p) -> I (swapped g p r)).
    { intros g p r HI Hwg Hp Hr Hob Hfl _. unfold I in *.
      assert (Hne : p <> r) by (intro; subst r; eapply ty_floor_not_obstacle; eauto).
      rewrite lookupH_swapped by auto.
      destruct (pos_eqb q p) eqn:E1; [apply pos_eqb_eq in E1; subst p; rewrite HI in Hob; unfold is_ty in Hob; apply Z.eqb_eq in Hob; rewrite Hd in Hob; discriminate|].
      destruct (pos_eqb q r) eqn:E2; [apply pos_eqb_eq in E2; subst r; rewrite HI in Hfl; unfold is_ty in Hfl; apply Z.eqb_eq in Hfl; rewrite Hd in Hfl; discriminate|].
      exact HI. }
    destruct (mo_loop_all_ok (negb own) I STEP ps (sgrid s) Hw PO eq_refl _ Hg') as (g'' & E & HI & _).
    injection E as <-. cbn [set_grid sgrid]. exact HI.
  - rewrite actuate_door_eq in HL by auto. apply Leaf_Ret in HL. injection HL as ->.
    unfold actuate_door_pure. destruct (is_actuate a) eqn:Ea; cbn [andb]; auto.
    destruct (in_grid (sgrid s) (sfront s)) eqn:Ein; cbn [andb]; auto.
    destruct (door_opens _ _) eqn:Eo; auto. cbn [set_grid sgrid].
    destruct (pos_eqb (sfront s) q) eqn:Eq.
    + apply pos_eqb_eq in Eq. subst q. right. rewrite lookupH_gset_same by auto.
      unfold door_opens in Eo. apply andb_true_iff in Eo. destruct Eo as [Eo E3]. apply andb_true_iff in Eo. destruct Eo as [_ E2].
      apply negb_true_iff, Z.eqb_neq in E2.
      repeat split; auto. { destruct a; try discriminate; reflexivity. }
      intros El. apply orb_true_iff in E3. destruct E3 as [E3|E3]; auto. apply negb_true_iff, Z.eqb_neq in E3. contradiction.
    + apply pos_eqb_neq in Eq. left. rewrite lookupH_gset_other by auto. reflexivity.
  - left. unfold actuate_box in HL.
    destruct (is_actuate a) eqn:Ea; cbn [negb] in HL; [|apply Leaf_Ret in HL; injection HL as ->; auto].
    destruct (in_grid (sgrid s) (sfront s)) eqn:Ein; cbn [negb] in HL; [|apply Leaf_Ret in HL; injection HL as ->; auto].
    rewrite grid_get_in in HL by auto. cbn [lift bind] in HL.
    destruct (is_ty ty_Box _) eqn:Eb; [|apply Leaf_Ret in HL; injection HL as ->; auto].
    destruct (ocontent _) as [c|] eqn:Ec; [|inversion HL].
    rewrite grid_set_in in HL by auto. cbn [lift bind] in HL. apply Leaf_Ret in HL. injection HL as ->. cbn [set_grid sgrid].
    destruct (pos_eqb (sfront s) q) eqn:Eq.
    + apply pos_eqb_eq in Eq. subst q. exfalso. unfold is_ty in Eb. apply Z.eqb_eq in Eb. rewrite Hd in Eb. discriminate.
    + apply pos_eqb_neq in Eq. rewrite lookupH_gset_other by auto. reflexivity.
  - left. rewrite teleport_eq in HL by auto.
    destruct (is_ty ty_Telepod _); [|apply Leaf_Ret in HL; injection HL as ->; reflexivity].
    cbv zeta in HL. destruct (partners s); [apply Leaf_Ret in HL; injection HL as ->; reflexivity|].
    apply Leaf_bind_Ok in HL. destruct HL as (i & _ & HL). apply Leaf_Ret in HL. injection HL as ->. reflexivity.
Qed.

(* box frame: a box changes only when actuated while faced, and is then replaced by its content *)
Lemma box_frame n s a own s' q : wf_grid (sgrid s) -> in_grid (sgrid s) (spos s) = true ->
  Leaf (tfun_of n s a own) (Ok s') -> is_ty ty_Box (lookupH (sgrid s) q) = true ->
  let b := lookupH (sgrid s) q in let b' := lookupH (sgrid s') q in
  b' = b \/ (n = TActuateBox /\ a = ACTUATE /\ q = sfront s /\ ocontent b = Some b').
Proof.
  intros Hw Hin HL Hb b b'. unfold b, b'. clear b b'. pose proof Hb as Hb'. unfold is_ty in Hb. apply Z.eqb_eq in Hb.
  destruct n; cbn [tfun_of] in HL.
  - rewrite move_agent_eq in HL by auto. apply Leaf_Ret in HL. injection HL as ->. left.
    unfold move_agent_pure. destruct (_ && _); reflexivity.
  - rewrite turn_agent_eq in HL. apply Leaf_Ret in HL. injection HL as ->. left.
    unfold turn_agent_pure. destruct (turn_dir a); reflexivity.
  - rewrite pickndrop_eq in HL by auto. apply Leaf_Ret in HL. injection HL as ->. left.
    unfold pickndrop_pure. destruct (is_pickndrop a); cbn [andb]; auto.
    destruct (in_grid (sgrid s) (sfront s)) eqn:Ein; cbn [andb]; auto.
    destruct (is_ty ty_Floor _ || o_holdable _) eqn:C; auto. cbn [sgrid].
    destruct (pos_eqb (sfront s) q) eqn:Eq.
    + apply pos_eqb_eq in Eq. subst q. exfalso. unfold is_ty, o_holdable in C. rewrite Hb in C.
      destruct (ost (lookupH (sgrid s) (sfront s))); discriminate.
    + apply pos_eqb_neq in Eq. rewrite lookupH_gset_other by auto. reflexivity.
  - left. unfold move_obstacles in HL. apply Leaf_bind_Ok in HL. destruct HL as (ps & Hps & HL).
    rewrite positions_where_ok in Hps by (auto; intros p Hp; apply gpositions_In; auto). apply Leaf_lift in Hps. injection Hps as Hps.
    apply Leaf_bind_Ok in HL. destruct HL as (g' & Hg' & HL). apply Leaf_Ret in HL. injection HL as ->.
    pose (I := fun g : grid => lookupH g q = lookupH (sgrid s) q).
    assert (PO : pending_ok ps (sgrid s)).
    { subst ps. split; [apply NoDup_filter, gpositions_NoDup|].
      intros p Hp. apply filter_In in Hp. destruct Hp as [Hp1 Hp2]. apply gpositions_In in Hp1. auto. }
    assert (STEP : forall g p r, I g -> wf_grid g -> in_grid g p = true -> in_grid g r = true ->
       is_ty ty_MovingObstacle (lookupH g p) = true -> is_ty ty_Floor (lookupH g r) = true -> In r (neighbours4 p) -> I (swapped g p r)).
    { intros g p r HI Hwg Hp Hr Hob Hfl _. unfold I in *.
      assert (Hne : p <> r) by (intro; subst r; eapply ty_floor_not_obstacle; eauto).
      rewrite lookupH_swapped by auto.
      destruct (pos_eqb q p) eqn:E1; [apply pos_eqb_eq in E1; subst p; rewrite HI in Hob; unfold is_ty in Hob; apply Z.eqb_eq in Hob; rewrite Hb in Hob; discriminate|].
      destruct (pos_eqb q r) eqn:E2; [apply pos_eqb_eq in E2; subst r; rewrite HI in Hfl; unfold is_ty in Hfl; apply Z.eqb_eq in Hfl; rewrite Hb in Hfl; discriminate|].
      exact HI. }
    destruct (mo_loop_all_ok (negb own) I STEP ps (sgrid s) Hw PO eq_refl _ Hg') as (g'' & E & HI & _).
    injection E as <-. cbn [set_grid sgrid]. exact HI.
  - left. rewrite actuate_door_eq in HL by auto. apply Leaf_Ret in HL. injection HL as ->.
    unfold actuate_door_pure. destruct (is_actuate a) eqn:Ea; cbn [andb]; auto.
    destruct (in_grid (sgrid s) (sfront s)) eqn:Ein; cbn [andb]; auto.
    destruct (door_opens _ _) eqn:Eo; auto. cbn [set_grid sgrid].
    destruct (pos_eqb (sfront s) q) eqn:Eq.
    + apply pos_eqb_eq in Eq. subst q. exfalso. unfold door_opens in Eo. apply andb_true_iff in Eo. destruct Eo as [Eo _].
      apply andb_true_iff in Eo. destruct Eo as [Eo _]. unfold is_ty in Eo. apply Z.eqb_eq in Eo. rewrite Hb in Eo. discriminate.
    + apply pos_eqb_neq in Eq. rewrite lookupH_gset_other by auto. reflexivity.
  - unfold actuate_box in HL.
    destruct (is_actuate a) eqn:Ea; cbn [negb] in HL; [|apply Leaf_Ret in HL; injection HL as ->; auto].
    destruct (in_grid (sgrid s) (sfront s)) eqn:Ein; cbn [negb] in HL; [|apply Leaf_Ret in HL; injection HL as ->; auto].
    rewrite grid_get_in in HL by auto. cbn [lift bind] in HL.
    destruct (is_ty ty_Box (lookupH (sgrid s) (sfront s))) eqn:Eb; [|apply Leaf_Ret in HL; injection HL as ->; auto].
    destruct (ocontent (lookupH (sgrid s) (sfront s))) as [c|] eqn:Ec; [|inversion HL].
    rewrite grid_set_in in HL by auto. cbn [lift bind] in HL. apply Leaf_Ret in HL. injection HL as ->. cbn [set_grid sgrid].
    destruct (pos_eqb (sfront s) q) eqn:Eq.
    + apply pos_eqb_eq in Eq. subst q. right. rewrite lookupH_gset_same by auto.
      repeat split; auto. destruct a; try discriminate; reflexivity.
    + apply pos_eqb_neq in Eq. left. rewrite lookupH_gset_other by auto. reflexivity.
  - left. rewrite teleport_eq in HL by auto.
    destruct (is_ty ty_Telepod _); [|apply Leaf_Ret in HL; injection HL as ->; reflexivity].
    cbv zeta in HL. destruct (partners s); [apply Leaf_Ret in HL; injection HL as ->; reflexivity|].
    apply Leaf_bind_Ok in HL. destruct HL as (i & _ & HL). apply Leaf_Ret in HL. injection HL as ->. reflexivity.
Qed.

(* keys are not consumed: the actuate functions never touch the hand *)
Lemma keys_kept n s a own s' : wf_grid (sgrid s) -> (n = TActuateDoor \/ n = TActuateBox) ->
  Leaf (tfun_of n s a own) (Ok s') -> sheld s' = sheld s.
Proof.
  intros Hw [-> | ->] HL; cbn [tfun_of] in HL.
  - rewrite actuate_door_eq in HL by auto. apply Leaf_Ret in HL. injection HL as ->.
    unfold actuate_door_pure. destruct (_ && _ && _); reflexivity.
  - unfold actuate_box in HL.
    destruct (negb (is_actuate a)); [apply Leaf_Ret in HL; injection HL as ->; auto|].
    destruct (negb (in_grid _ _)); [apply Leaf_Ret in HL; injection HL as ->; auto|].
    apply Leaf_bind_Ok in HL. destruct HL as (b & _ & HL).
    destruct (is_ty ty_Box b); [|apply Leaf_Ret in HL; injection HL as ->; auto].
    destruct (ocontent b); [|inversion HL].
    apply Leaf_bind_Ok in HL. destruct HL as (g' & _ & HL). apply Leaf_Ret in HL. injection HL as ->. reflexivity.
Qed.

(* the hand changes only through pickndrop under PICK_N_DROP *)
Lemma held_frame n s a own s' : wf_grid (sgrid s) -> in_grid (sgrid s) (spos s) = true -> a <> PICK_N_DROP ->
  Leaf (tfun_of n s a own) (Ok s') -> sheld s' = sheld s.
Proof.
  intros Hw Hin Ha HL. destruct n; cbn [tfun_of] in HL.
  - rewrite move_agent_eq in HL by auto. apply Leaf_Ret in HL. injection HL as ->. unfold move_agent_pure. destruct (_ && _); reflexivity.
  - rewrite turn_agent_eq in HL. apply Leaf_Ret in HL. injection HL as ->. unfold turn_agent_pure. destruct (turn_dir a); reflexivity.
  - rewrite pickndrop_eq in HL by auto. apply Leaf_Ret in HL. injection HL as ->. unfold pickndrop_pure.
    destruct a; try congruence; reflexivity.
  - unfold move_obstacles in HL. apply Leaf_bind_Ok in HL. destruct HL as (ps & _ & HL).
    apply Leaf_bind_Ok in HL. destruct HL as (g' & _ & HL). apply Leaf_Ret in HL. injection HL as ->. reflexivity.
  - eapply (keys_kept TActuateDoor); [exact Hw | left; reflexivity | exact HL].
  - eapply (keys_kept TActuateBox); [exact Hw | right; reflexivity | exact HL].
  - rewrite teleport_eq in HL by auto.
    destruct (is_ty ty_Telepod _); [|apply Leaf_Ret in HL; injection HL as ->; reflexivity].
    cbv zeta in HL. destruct (partners s); [apply Leaf_Ret in HL; injection HL as ->; reflexivity|].
    apply Leaf_bind_Ok in HL. destruct HL as (i & _ & HL). apply Leaf_Ret in HL. injection HL as ->. reflexivity.
Qed.

Lemma ost_open_door d : ost (open_door d) = st_OPEN.  Proof. destruct d; reflexivity. Qed.
Lemma is_door_open_door d : is_door (open_door d) = is_door d.  Proof. destruct d; reflexivity. Qed.

Lemma door_chain ns : forall s a own s' q, kin_ok s -> Leaf (chain (map tfun_of ns) s a own) (Ok s') ->
  is_door (lookupH (sgrid s) q) = true ->
  let d := lookupH (sgrid s) q in let d' := lookupH (sgrid s') q in
  d' = d \/ (a = ACTUATE /\ d' = open_door d /\ ost d <> st_OPEN /\ (ost d = st_LOCKED -> key_opens (sheld s) d = true)).
Proof.
  induction ns as [|n t IH]; intros s a own s' q K HL Hd; cbn [map chain] in HL; cbv zeta.
  - apply Leaf_Ret in HL. injection HL as ->. left; reflexivity.
  - apply Leaf_bind_Ok in HL. destruct HL as (s1 & H1 & H2). pose proof K as (Hw & Hin & _).
    assert (K1 : kin_ok s1) by (eapply kinematic_step; [exact K | exact H1]).
    pose proof (door_frame n s a own s1 q Hw Hin H1 Hd) as F. cbv zeta in F.
    destruct F as [E1 | (En & Ea & Eq & E1 & Eo & Ek)].
    + assert (Hd1 : is_door (lookupH (sgrid s1) q) = true) by (rewrite E1; exact Hd).
      pose proof (IH s1 a own s' q K1 H2 Hd1) as G. cbv zeta in G. rewrite E1 in G.
      destruct G as [G | (Ga & Go & Gn & Gk)]; [left; exact G|].
      right. split; [exact Ga|]. split; [exact Go|]. split; [exact Gn|].
      intros El. rewrite <- (held_frame n s a own s1 Hw Hin ltac:(subst a; discriminate) H1). apply Gk; exact El.
    + assert (Hd1 : is_door (lookupH (sgrid s1) q) = true) by (rewrite E1, is_door_open_door; exact Hd).
      pose proof (IH s1 a own s' q K1 H2 Hd1) as G. cbv zeta in G. rewrite E1 in G.
      destruct G as [G | (Ga & Go & Gn & Gk)].
      * right. split; [exact Ea|]. split; [exact G|]. split; [exact Eo|]. exact Ek.
      * exfalso. apply Gn. apply ost_open_door.
Qed.

(* a locked door is never found open unless a matching key was used *)
Lemma locked_needs_key ns own acts : forall s s' q, kin_ok s -> Leaf (run_actions ns own acts s) (Ok s') ->
  is_door (lookupH (sgrid s) q) = true -> ost (lookupH (sgrid s) q) = st_LOCKED -> ost (lookupH (sgrid s') q) <> st_LOCKED ->
  exists acts1 acts2 s_i, acts = acts1 ++ ACTUATE :: acts2 /\ Leaf (run_actions ns own acts1 s) (Ok s_i) /\
     lookupH (sgrid s_i) q = lookupH (sgrid s) q /\ key_opens (sheld s_i) (lookupH (sgrid s) q) = true.
Proof.
  induction acts as [|a t IH]; intros s s' q K HL Hd Hl Hn; cbn [run_actions] in HL.
  - apply Leaf_Ret in HL. injection HL as ->. contradiction.
  - apply Leaf_bind_Ok in HL. destruct HL as (s1 & H1 & H2).
    assert (K1 : kin_ok s1) by (eapply kinematic_chain; [exact K | exact H1]).
    pose proof (door_chain ns s a own s1 q K H1 Hd) as G. cbv zeta in G.
    destruct G as [G | (Ga & Go & Gn & Gk)].
    + destruct (IH s1 s' q K1 H2) as (a1 & a2 & si & Ea & HLi & Esame & Ekey).
      * rewrite G; exact Hd.
      * rewrite G; exact Hl.
      * exact Hn.
      * exists (a :: a1), a2, si. split; [rewrite Ea; reflexivity|]. split.
        -- cbn [run_actions]. apply Leaf_bind_Ok. exists s1. split; [exact H1 | exact HLi].
        -- rewrite G in Esame, Ekey. split; [exact Esame | exact Ekey].
    + exists [], t, s. split; [subst a; reflexivity|]. split; [constructor|]. split; [reflexivity|]. apply Gk; exact Hl.
Qed.
