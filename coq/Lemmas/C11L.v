(* C11: stochastic dynamics obey their rules for every random outcome *)
From Coq Require Import ZArith List Bool Lia.
From GV.Model Require Import Trans.
From GV.Lemmas Require Import GridL RandL GeomL TransL.
Import ListNotations.
Open Scope Z_scope.

Definition is_ob (o : obj) : bool := is_ty ty_MovingObstacle o.
(* one recorded move: (from, to, grid at its turn) *)
Definition move_rec := (pos * pos * grid)%type.
Definition mfrom (m : move_rec) := fst (fst m).
Definition mto (m : move_rec) := snd (fst m).
Definition mgrid (m : move_rec) := snd m.
(* the rule for one obstacle at its turn: it moves to a 4-neighbour inside the grid that is Floor, or stays -- only if it has none *)
Definition move_legal (m : move_rec) : Prop :=
  (mto m = mfrom m /\ free_nbrs (mgrid m) (mfrom m) = []) \/ In (mto m) (free_nbrs (mgrid m) (mfrom m)).

Lemma free_nbrs_spec g p q : In q (free_nbrs g p) <->
  In q (neighbours4 p) /\ in_grid g q = true /\ is_ty ty_Floor (lookupH g q) = true.
Proof. unfold free_nbrs. rewrite filter_In, andb_true_iff. tauto. Qed.
Lemma neighbours4_adjacent p q : In q (neighbours4 p) <-> manhattan q p = 1.
Proof.
  unfold neighbours4, manhattan. destruct p as [y x], q as [y' x']. cbn [fst snd In]. split.
  - intros [H|[H|[H|[H|[]]]]]; injection H as <- <-; lia.
  - intros H.
    assert (C : (y' = y - 1 /\ x' = x) \/ (y' = y /\ x' = x + 1) \/ (y' = y + 1 /\ x' = x) \/ (y' = y /\ x' = x - 1)) by lia.
    destruct C as [[-> ->]|[[-> ->]|[[-> ->]|[-> ->]]]]; auto.
Qed.

(* the obstacles take their turns one after the other, each on the grid left by the previous ones *)
Inductive Turns : grid -> list move_rec -> grid -> Prop :=
| T0 g : Turns g [] g
| Tstay g p ms g' : free_nbrs g p = [] -> Turns g ms g' -> Turns g ((p, p, g) :: ms) g'
| Tmove g p q ms g' : In q (free_nbrs g p) -> Turns (swapped g p q) ms g' -> Turns g ((p, q, g) :: ms) g'.

(* obstacle positions: exactly the already-moved targets plus the pending ones *)
Definition ob_positions (g : grid) (l : list pos) : Prop :=
  NoDup l /\ forall r, in_grid g r = true -> (is_ob (lookupH g r) = true <-> In r l).

Lemma mo_loop_moves g0 ps : forall g dts, wf_grid g -> ob_positions g (dts ++ ps) ->
  (forall p, In p ps -> in_grid g p = true) ->
  forall x, Leaf (move_obstacles_loop g0 ps g) x ->
  exists g' ms, x = Ok g' /\ map mfrom ms = ps /\ wf_grid g' /\ gheight g' = gheight g /\ gwidth g' = gwidth g /\
    ob_positions g' (dts ++ map mto ms) /\ Forall move_legal ms /\ Turns g ms g' /\
    (forall r, is_ob (lookupH g r) = false -> is_ty ty_Floor (lookupH g r) = false -> lookupH g' r = lookupH g r) /\
    (forall r, is_ob (lookupH g' r) = false -> is_ty ty_Floor (lookupH g' r) = false -> lookupH g' r = lookupH g r).
Proof.
  induction ps as [|p t IH]; intros g dts Hw Hob Hin x HL.
  - cbn in HL. apply Leaf_Ret in HL. subst x. exists g, []. cbn [map].
    split; [reflexivity|]. split; [reflexivity|]. split; [exact Hw|]. split; [reflexivity|]. split; [reflexivity|].
    split; [exact Hob|]. split; [constructor|]. split; [constructor|]. split; intros; reflexivity.
  - assert (Hp : in_grid g p = true) by (apply Hin; left; auto).
    destruct Hob as [Hnd Hset].
    assert (Hpob : is_ob (lookupH g p) = true) by (apply Hset; auto; apply in_or_app; right; left; auto).
    apply mo_loop_step in HL; auto. destruct HL as [[En HL]|[q [Hq HL]]].
    + (* stays *)
      destruct (IH g (dts ++ [p])) with (x := x) as (g' & ms & -> & Hm & Hw' & Eh & Ew & Hob' & Hleg & Htu & Hfr & Hfr'); auto.
      * rewrite <- app_assoc. cbn [app]. split; auto.
      * intros r Hr. apply Hin; right; auto.
      * exists g', ((p, p, g) :: ms). cbn [map mfrom mto fst snd]. rewrite Hm.
        rewrite <- app_assoc in Hob'. cbn [app] in Hob'.
        split; [reflexivity|]. split; [reflexivity|]. split; [exact Hw'|]. split; [exact Eh|]. split; [exact Ew|].
        split; [exact Hob'|]. split; [constructor; auto; left; cbn; auto|]. split; [apply Tstay; auto|]. split; [exact Hfr | exact Hfr'].
    + (* moves to the free neighbour q *)
      apply free_nbrs_spec in Hq. destruct Hq as (Hqn & Hqin & Hqf).
      assert (Hne : p <> q) by (intro; subst q; eapply ty_floor_not_obstacle; eauto).
      assert (Hqnot : ~ In q (dts ++ p :: t)).
      { intro Hc. apply Hset in Hc; auto. eapply ty_floor_not_obstacle; eauto. }
      assert (Hsw : forall r, lookupH (swapped g p q) r = if pos_eqb r p then lookupH g q else if pos_eqb r q then lookupH g p else lookupH g r)
        by (intros r; apply lookupH_swapped; auto).
      destruct (IH (swapped g p q) (dts ++ [q])) with (x := x) as (g' & ms & -> & Hm & Hw' & Eh & Ew & Hob' & Hleg & Htu & Hfr & Hfr'); auto.
      * apply wf_swapped; auto.
      * rewrite <- app_assoc. cbn [app]. split.
        -- (* NoDup (dts ++ q :: t) *)
           apply NoDup_remove in Hnd. destruct Hnd as [Hnd Hpn].
           assert (Hqn' : ~ In q (dts ++ t)) by (intro Hc; apply Hqnot; apply in_app_or in Hc; apply in_or_app; destruct Hc; [left|right; right]; auto).
           clear - Hnd Hqn'. induction dts as [|d ds IHd]; cbn [app] in *.
           ++ constructor; auto.
           ++ inversion Hnd; subst. constructor.
              ** intro Hc. apply in_app_or in Hc. destruct Hc as [Hc|[Hc|Hc]].
                 --- apply H1. apply in_or_app; auto.
                 --- subst. apply Hqn'. left; auto.
                 --- apply H1. apply in_or_app; auto.
              ** apply IHd; auto. intro Hc. apply Hqn'. right; exact Hc.
        -- intros r Hr. rewrite in_grid_swapped in Hr. rewrite Hsw.
           destruct (pos_eqb r p) eqn:E1.
           ++ apply pos_eqb_eq in E1. subst r. split.
              ** intros Hc. exfalso. unfold is_ob in Hc. eapply ty_floor_not_obstacle; eauto.
              ** intros Hc. exfalso. apply NoDup_remove_2 in Hnd. apply Hnd.
                 apply in_app_or in Hc. apply in_or_app. destruct Hc as [Hc|[Hc|Hc]]; auto. congruence.
           ++ apply pos_eqb_neq in E1. destruct (pos_eqb r q) eqn:E2.
              ** apply pos_eqb_eq in E2. subst r. split; auto. intros _. apply in_or_app; right; left; auto.
              ** apply pos_eqb_neq in E2. rewrite (Hset r Hr). split; intros Hc; apply in_app_or in Hc; apply in_or_app.
                 --- destruct Hc as [Hc|[Hc|Hc]]; auto; [congruence | right; right; auto].
                 --- destruct Hc as [Hc|[Hc|Hc]]; auto; [congruence | right; right; auto].
      * intros r Hr. rewrite in_grid_swapped. apply Hin; right; auto.
      * exists g', ((p, q, g) :: ms). cbn [map mfrom mto fst snd]. rewrite Hm.
        rewrite <- app_assoc in Hob'. cbn [app] in Hob'.
        rewrite gheight_swapped in Eh. rewrite gwidth_swapped in Ew.
        split; [reflexivity|]. split; [reflexivity|]. split; [exact Hw'|]. split; [exact Eh|]. split; [exact Ew|].
        split; [exact Hob'|].
        split; [constructor; auto; right; cbn; apply free_nbrs_spec; auto|].
        split; [apply Tmove; [apply free_nbrs_spec; auto | exact Htu]|].
        split.
        -- intros r Hr1 Hr2. rewrite Hfr.
           ++ rewrite Hsw. destruct (pos_eqb r p) eqn:E1; [apply pos_eqb_eq in E1; subst r; congruence|].
              destruct (pos_eqb r q) eqn:E2; [apply pos_eqb_eq in E2; subst r; congruence|]. reflexivity.
           ++ rewrite Hsw. destruct (pos_eqb r p) eqn:E1; [apply pos_eqb_eq in E1; subst r; congruence|].
              destruct (pos_eqb r q) eqn:E2; [apply pos_eqb_eq in E2; subst r; congruence|]. exact Hr1.
           ++ rewrite Hsw. destruct (pos_eqb r p) eqn:E1; [apply pos_eqb_eq in E1; subst r; congruence|].
              destruct (pos_eqb r q) eqn:E2; [apply pos_eqb_eq in E2; subst r; congruence|]. exact Hr2.
        -- intros r Hr1 Hr2. pose proof (Hfr' r Hr1 Hr2) as E. rewrite E in Hr1, Hr2. rewrite E. rewrite Hsw in Hr1, Hr2. rewrite Hsw.
           destruct (pos_eqb r p) eqn:E1; [congruence|].
           destruct (pos_eqb r q) eqn:E2; [unfold is_ob in *; congruence|]. reflexivity.
Qed.

Definition obstacle_positions (g : grid) : list pos := filter (fun p => is_ob (lookupH g p)) (gpositions g).
Lemma obstacle_positions_ok g : ob_positions g (obstacle_positions g).
Proof.
  split; [apply NoDup_filter, gpositions_NoDup|].
  intros r Hr. unfold obstacle_positions. rewrite filter_In, gpositions_In. tauto.
Qed.

(* moving obstacles: every random outcome *)
Lemma obstacles_all_leaves s a own x : wf_grid (sgrid s) -> Leaf (move_obstacles s a own) x ->
  exists s' ms, x = Ok s' /\ spos s' = spos s /\ sori s' = sori s /\ sheld s' = sheld s /\
    map mfrom ms = obstacle_positions (sgrid s) /\
    wf_grid (sgrid s') /\ gheight (sgrid s') = gheight (sgrid s) /\ gwidth (sgrid s') = gwidth (sgrid s) /\
    ob_positions (sgrid s') (map mto ms) /\ Forall move_legal ms /\ Turns (sgrid s) ms (sgrid s') /\
    (forall r, is_ob (lookupH (sgrid s) r) = false -> is_ty ty_Floor (lookupH (sgrid s) r) = false -> lookupH (sgrid s') r = lookupH (sgrid s) r) /\
    (forall r, is_ob (lookupH (sgrid s') r) = false -> is_ty ty_Floor (lookupH (sgrid s') r) = false -> lookupH (sgrid s') r = lookupH (sgrid s) r).
Proof.
  intros Hw HL. unfold move_obstacles in HL.
  rewrite positions_where_ok in HL by (auto; intros p Hp; apply gpositions_In; auto). cbn [lift bind] in HL.
  fold (obstacle_positions (sgrid s)) in HL. change (fun p => is_ty ty_MovingObstacle (lookupH (sgrid s) p)) with (fun p => is_ob (lookupH (sgrid s) p)) in HL.
  apply Leaf_bind in HL. destruct HL as [[g' [H1 H2]]|[e [H1 ->]]].
  - destruct (mo_loop_moves (negb own) (obstacle_positions (sgrid s)) (sgrid s) [] Hw (obstacle_positions_ok _)) with (x := Ok g')
      as (g'' & ms & E & Hm & Hw' & Eh & Ew & Hob' & Hleg & Htu & Hfr & Hfr'); auto.
    { intros p Hp. unfold obstacle_positions in Hp. apply filter_In in Hp. apply gpositions_In. tauto. }
    injection E as <-. apply Leaf_Ret in H2. subst x. exists (set_grid s g'), ms. cbn [set_grid spos sori sheld sgrid].
    split; [reflexivity|]. split; [reflexivity|]. split; [reflexivity|]. split; [reflexivity|]. split; [exact Hm|].
    split; [exact Hw'|]. split; [exact Eh|]. split; [exact Ew|]. split; [exact Hob'|]. split; [exact Hleg|]. split; [exact Htu|]. split; [exact Hfr | exact Hfr'].
  - exfalso. destruct (mo_loop_moves (negb own) (obstacle_positions (sgrid s)) (sgrid s) [] Hw (obstacle_positions_ok _)) with (x := @Err grid e)
      as (g'' & ms & E & _); auto.
    { intros p Hp. unfold obstacle_positions in Hp. apply filter_In in Hp. apply gpositions_In. tauto. }
    discriminate.
Qed.

(* every free neighbour is a possible destination (for the obstacle whose turn it is) *)
Lemma obstacle_each_possible g0 p t g q : wf_grid g -> (forall r, In r (p :: t) -> in_grid g r = true) ->
  In q (free_nbrs g p) ->
  exists g' ms, Leaf (move_obstacles_loop g0 (p :: t) g) (Ok g') /\ Turns g ((p, q, g) :: ms) g'.
Proof.
  intros Hw Hin Hq.
  assert (Hqin : in_grid g q = true) by (apply free_nbrs_spec in Hq; tauto).
  destruct (mo_loop_has_leaf g0 t (swapped g p q)) as [g' Hg'].
  - apply wf_swapped; auto.
  - intros r Hr. rewrite in_grid_swapped. apply Hin; right; auto.
  - assert (TU : exists ms, Turns (swapped g p q) ms g').
    { clear - Hg' Hw Hin. assert (Hw' : wf_grid (swapped g p q)) by (apply wf_swapped; auto).
      assert (Hin' : forall r, In r t -> in_grid (swapped g p q) r = true) by (intros r Hr; rewrite in_grid_swapped; apply Hin; right; auto).
      revert Hg' Hw' Hin'. generalize (swapped g p q) as g1. induction t as [|p1 t1 IH]; intros g1 HL Hw1 Hin1.
      - cbn in HL. apply Leaf_Ret in HL. injection HL as ->. exists []. constructor.
      - apply mo_loop_step in HL; auto; [|apply Hin1; left; auto].
        destruct HL as [[En HL]|[q1 [Hq1 HL]]].
        + destruct (IH ltac:(intros r Hr; apply Hin; destruct Hr; [left|right; right]; auto) g1 HL Hw1) as [ms Hms].
          { intros r Hr. apply Hin1; right; auto. }
          exists ((p1, p1, g1) :: ms). apply Tstay; auto.
        + destruct (IH ltac:(intros r Hr; apply Hin; destruct Hr; [left|right; right]; auto) (swapped g1 p1 q1) HL) as [ms Hms].
          { apply wf_swapped; auto. }
          { intros r Hr. rewrite in_grid_swapped. apply Hin1; right; auto. }
          exists ((p1, q1, g1) :: ms). apply Tmove; auto. }
    destruct TU as [ms Hms]. exists g', ms. split.
    + apply mo_loop_step; auto. { apply Hin; left; auto. } right. exists q. split; auto.
    + apply Tmove; auto.
Qed.

(* ---- teleport ---- *)
Lemma teleport_all_leaves s a own x : wf_grid (sgrid s) -> in_grid (sgrid s) (spos s) = true ->
  Leaf (teleport s a own) x ->
  (is_ty ty_Telepod (lookupH (sgrid s) (spos s)) = true /\ partners s <> [] /\
     exists q, In q (partners s) /\ x = Ok (set_pos s q))
  \/ ((is_ty ty_Telepod (lookupH (sgrid s) (spos s)) = false \/ partners s = []) /\ x = Ok s).
Proof.
  intros Hw Hin HL. rewrite teleport_eq in HL by auto.
  destruct (is_ty ty_Telepod _) eqn:ET; [|apply Leaf_Ret in HL; right; split; auto].
  cbv zeta in HL. destruct (partners s) as [|p0 pt] eqn:EP; [apply Leaf_Ret in HL; right; split; auto|].
  left. split; [reflexivity|]. split; [discriminate|].
  apply Leaf_bind in HL. destruct HL as [[i [Hi HL]]|[e [Hi ->]]].
  - apply Leaf_Ret in HL. subst x. apply Leaf_rchoice in Hi. destruct Hi as [[_ Hi]|[i' [Hi E]]]; [discriminate|]. injection E as <-.
    exists (nthZ (p0 :: pt) i (spos s)). split; [apply nthZ_In; auto | reflexivity].
  - exfalso. apply Leaf_rchoice in Hi. destruct Hi as [[Hi _]|[i' [_ E]]]; [cbn [length] in Hi; lia | discriminate].
Qed.
Lemma partners_spec s q : In q (partners s) <->
  in_grid (sgrid s) q = true /\ q <> spos s /\ is_ty ty_Telepod (lookupH (sgrid s) q) = true /\
  ocol (lookupH (sgrid s) q) = ocol (lookupH (sgrid s) (spos s)).
Proof.
  unfold partners. rewrite !filter_In, gpositions_In, andb_true_iff, negb_true_iff, pos_eqb_neq, Z.eqb_eq. tauto.
Qed.
(* each partner is a possible destination *)
Lemma teleport_each_possible s a own q : wf_grid (sgrid s) -> in_grid (sgrid s) (spos s) = true ->
  is_ty ty_Telepod (lookupH (sgrid s) (spos s)) = true -> In q (partners s) ->
  Leaf (teleport s a own) (Ok (set_pos s q)).
Proof.
  intros Hw Hin ET Hq. rewrite teleport_eq by auto. rewrite ET. cbv zeta.
  destruct (partners s) as [|p0 pt] eqn:EP; [contradiction|].
  destruct (In_nth (p0 :: pt) q (spos s) Hq) as (k & Hk & Ek).
  apply Leaf_bind_Ok. exists (Z.of_nat k). split.
  - apply Leaf_rchoice. right. exists (Z.of_nat k). split; [lia | reflexivity].
  - unfold nthZ. rewrite Nat2Z.id, Ek. constructor.
Qed.
(* teleport draws nothing when it does not displace *)
Lemma teleport_no_draw s a own : wf_grid (sgrid s) -> in_grid (sgrid s) (spos s) = true ->
  (is_ty ty_Telepod (lookupH (sgrid s) (spos s)) = false \/ partners s = []) -> teleport s a own = Ret s.
Proof.
  intros Hw Hin H. rewrite teleport_eq by auto. destruct (is_ty ty_Telepod _); [|reflexivity].
  destruct H as [H|H]; [discriminate|]. cbv zeta. rewrite H. reflexivity.
Qed.
