(* C12: rewards and termination mean what they say, and agree *)
From Coq Require Import ZArith List Bool Lia.
From GV.Model Require Import Reward.
From GV.Lemmas Require Import GridL RandL GeomL TransL.
Import ListNotations.
Open Scope Z_scope.

Definition st_ok (s : state) : Prop := wf_grid (sgrid s) /\ in_grid (sgrid s) (spos s) = true.
Definition here (s : state) : obj := lookupH (sgrid s) (spos s).     (* the cell the agent stands on *)

Lemma overlap_b_ok ty s : st_ok s -> overlap_b ty s = Ok (is_ty ty (here s)).
Proof. intros [Hw Hin]. unfold overlap_b, here. rewrite grid_get_in by auto. reflexivity. Qed.

(* ---- overlap / reach_exit / bump_moving_obstacle ---- *)
Lemma reward_overlap_spec ty s a s' : st_ok s' ->
  reward (ROverlap ty) s a s' = Ok (if is_ty ty (here s') then RParam 0 else RParam 1).
Proof. intros H. cbn [reward]. rewrite overlap_b_ok by auto. reflexivity. Qed.
Lemma reward_reach_exit_spec s a s' : st_ok s' ->
  reward RReachExit s a s' = Ok (if is_ty ty_Exit (here s') then RParam 0 else RParam 1).
Proof. intros H. cbn [reward]. rewrite overlap_b_ok by auto. reflexivity. Qed.
Lemma reward_bump_obstacle_spec s a s' : st_ok s' ->
  reward RBumpObstacle s a s' = Ok (if is_ty ty_MovingObstacle (here s') then RParam 0 else RZero).
Proof. intros H. cbn [reward]. rewrite overlap_b_ok by auto. reflexivity. Qed.
Lemma term_overlap_spec ty s a s' : st_ok s' -> terminates (TOverlap ty) s a s' = Ok (is_ty ty (here s')).
Proof. intros H. cbn [terminates]. now apply overlap_b_ok. Qed.
Lemma term_reach_exit_spec s a s' : st_ok s' -> terminates TReachExit s a s' = Ok (is_ty ty_Exit (here s')).
Proof. intros H. cbn [terminates]. now apply overlap_b_ok. Qed.
Lemma term_bump_obstacle_spec s a s' : st_ok s' -> terminates TBumpObstacle s a s' = Ok (is_ty ty_MovingObstacle (here s')).
Proof. intros H. cbn [terminates]. now apply overlap_b_ok. Qed.
(* reaching an exit terminates and pays the on-reward iff the agent's next cell is an exit *)
Lemma exit_reward_iff_exit_termination s a s' : st_ok s' ->
  (reward RReachExit s a s' = Ok (RParam 0) <-> terminates TReachExit s a s' = Ok true) /\
  (reward RReachExit s a s' = Ok (RParam 1) <-> terminates TReachExit s a s' = Ok false) /\
  (terminates TReachExit s a s' = Ok true <-> is_ty ty_Exit (here s') = true).
Proof.
  intros H. rewrite reward_reach_exit_spec, term_reach_exit_spec by auto.
  destruct (is_ty ty_Exit (here s')); repeat split; intros; try congruence; try discriminate.
Qed.

(* ---- bumping into a wall: fires iff the attempted move targets a wall ---- *)
Definition attempted (s : state) (a : Action) : pos := next_position (spos s) (sori s) a.
Definition targets_wall (s : state) (a : Action) : bool :=
  in_grid (sgrid s) (attempted s a) && is_ty ty_Wall (lookupH (sgrid s) (attempted s a)).
Lemma reward_bump_wall_spec s a s' : wf_grid (sgrid s) ->
  reward RBumpWall s a s' = Ok (if targets_wall s a then RParam 0 else RZero).
Proof.
  intros Hw. cbn [reward]. unfold targets_wall, attempted.
  destruct (in_grid (sgrid s) (next_position (spos s) (sori s) a)) eqn:E; cbn [andb]; auto.
  rewrite grid_get_in by auto. reflexivity.
Qed.
Lemma term_bump_wall_spec s a s' : wf_grid (sgrid s) -> terminates TBumpWall s a s' = Ok (targets_wall s a).
Proof.
  intros Hw. cbn [terminates]. unfold targets_wall, attempted.
  destruct (in_grid (sgrid s) (next_position (spos s) (sori s) a)) eqn:E; cbn [andb]; auto.
  rewrite grid_get_in by auto. reflexivity.
Qed.

(* ---- the unique object ---- *)
Definition unique_at (g : grid) (ty : Z) (p : pos) : Prop := filter (fun q => is_ty ty (lookupH g q)) (gpositions g) = [p].
Lemma one_position_spec g ty p : wf_grid g -> unique_at g ty p -> one_position g ty = Ok p.
Proof.
  intros Hw H. unfold one_position. rewrite positions_where_ok by (auto; intros q Hq; apply gpositions_In; auto).
  cbn [rbind]. unfold unique_at in H. rewrite H. reflexivity.
Qed.
Lemma one_position_not_unique g ty : wf_grid g -> (forall p, ~ unique_at g ty p) -> one_position g ty = Err ValueError.
Proof.
  intros Hw H. unfold one_position. rewrite positions_where_ok by (auto; intros q Hq; apply gpositions_In; auto).
  cbn [rbind]. destruct (filter _ _) as [|p [|q t]] eqn:E; auto. exfalso. apply (H p). exact E.
Qed.
Lemma unique_at_in g ty p : unique_at g ty p -> in_grid g p = true /\ is_ty ty (lookupH g p) = true.
Proof.
  intros H. assert (Hin : In p (filter (fun q => is_ty ty (lookupH g q)) (gpositions g))) by (rewrite H; left; auto).
  apply filter_In in Hin. destruct Hin as [H1 H2]. apply gpositions_In in H1. auto.
Qed.

(* ---- distance shaping: the sign of the change in distance ---- *)
Definition dist_of (d : dfun) (p q : pos) : Z := match d with DManhattan => manhattan p q | DEuclidean => sqdist p q end.
Lemma dlt_distance d p q p' q' : dlt (distance d p q) (distance d p' q') = (dist_of d p q <? dist_of d p' q').
Proof. destruct d; reflexivity. Qed.
Lemma reward_getting_closer_spec d ty s a s' p p' : wf_grid (sgrid s) -> wf_grid (sgrid s') ->
  unique_at (sgrid s) ty p -> unique_at (sgrid s') ty p' ->
  reward (RGettingCloser d ty) s a s' =
    Ok (if dist_of d (spos s') p' <? dist_of d (spos s) p then RParam 0
        else if dist_of d (spos s) p <? dist_of d (spos s') p' then RParam 1 else RZero).
Proof.
  intros Hw Hw' Hu Hu'. cbn [reward]. unfold getting_closer_by.
  rewrite (one_position_spec _ _ _ Hw Hu), (one_position_spec _ _ _ Hw' Hu'). cbn [rbind fst snd].
  rewrite !dlt_distance. reflexivity.
Qed.
Lemma reward_proportional_spec d ty s a s' p' : wf_grid (sgrid s') -> unique_at (sgrid s') ty p' ->
  reward (RProportional d ty) s a s' = Ok (RScaled 0 (distance d (spos s') p')).
Proof. intros Hw' Hu'. cbn [reward]. rewrite (one_position_spec _ _ _ Hw' Hu'). reflexivity. Qed.
Lemma sqdist_is_squared_euclid p q : sqdist p q = (fst p - fst q) ^ 2 + (snd p - snd q) ^ 2.
Proof. unfold sqdist. lia. Qed.
Lemma reward_getting_closer_sp_spec ty s a s' p p' : st_ok s -> st_ok s' ->
  unique_at (sgrid s) ty p -> unique_at (sgrid s') ty p' ->
  let d0 := shortest (sgrid s) p (spos s) in let d1 := shortest (sgrid s') p' (spos s') in
  reward (RGettingCloserSP ty) s a s' = Ok (if olt d1 d0 then RParam 0 else if olt d0 d1 then RParam 1 else RZero).
Proof.
  intros [Hw Hin] [Hw' Hin'] Hu Hu' d0 d1. cbn [reward]. unfold getting_closer_by, agent_in.
  rewrite (one_position_spec _ _ _ Hw Hu), (one_position_spec _ _ _ Hw' Hu'). rewrite Hin, Hin'. cbn [rbind fst snd]. reflexivity.
Qed.

(* ---- pick / drop reward: fires exactly on the corresponding change of what is held ---- *)
Lemma reward_pickndrop_spec ty s a s' :
  reward (RPickndrop ty) s a s' =
    Ok (if negb (is_ty ty (sheld s)) && is_ty ty (sheld s') then RParam 0
        else if is_ty ty (sheld s) && negb (is_ty ty (sheld s')) then RParam 1 else RZero).
Proof. reflexivity. Qed.

(* ---- door reward: fires exactly when ACTUATE faces a door whose openness changes ---- *)
Definition door_is_open (o : obj) : bool := ost o =? st_OPEN.
Lemma reward_actuate_door_spec s a s' : wf_grid (sgrid s) -> wf_grid (sgrid s') ->
  gheight (sgrid s') = gheight (sgrid s) -> gwidth (sgrid s') = gwidth (sgrid s) ->
  let p := sfront s in let d := lookupH (sgrid s) p in let d' := lookupH (sgrid s') p in
  reward RActuateDoor s a s' =
    Ok (if is_actuate a && in_grid (sgrid s) p && is_ty ty_Door d && is_ty ty_Door d' then
          (if negb (door_is_open d) && door_is_open d' then RParam 0
           else if door_is_open d && negb (door_is_open d') then RParam 1 else RZero)
        else RZero).
Proof.
  intros Hw Hw' Eh Ew p d d'. cbn [reward]. fold p.
  destruct (is_actuate a); cbn [negb andb]; auto.
  destruct (in_grid (sgrid s) p) eqn:Ein; cbn [negb andb]; auto.
  rewrite grid_get_in by auto. cbn [rbind]. fold d.
  destruct (is_ty ty_Door d); cbn [negb andb]; auto.
  assert (Ein' : in_grid (sgrid s') p = true) by (unfold in_grid, garea in *; rewrite Eh, Ew; exact Ein).
  rewrite grid_get_in by auto. cbn [rbind]. fold d'.
  destruct (is_ty ty_Door d'); cbn [negb andb]; auto.
Qed.

(* ---- memory reward: good iff the exit's colour matches the beacon ---- *)
Definition beacon_color (g : grid) : option Z :=
  first_some (fun o => if is_ty ty_Beacon o then Some (ocol o) else None) (concat g).
Lemma reward_memory_spec s a s' bc : st_ok s' -> beacon_color (sgrid s') = Some bc ->
  reward RReachExitMemory s a s' =
    Ok (if is_ty ty_Exit (here s') then (if ocol (here s') =? bc then RParam 0 else RParam 1) else RZero).
Proof.
  intros [Hw Hin] Hb. cbn [reward]. rewrite grid_get_in by auto. cbn [rbind]. unfold beacon_color in Hb. rewrite Hb. reflexivity.
Qed.
Lemma reward_memory_no_beacon s a s' : st_ok s' -> beacon_color (sgrid s') = None ->
  reward RReachExitMemory s a s' = Err StopIteration.
Proof. intros [Hw Hin] Hb. cbn [reward]. rewrite grid_get_in by auto. cbn [rbind]. unfold beacon_color in Hb. rewrite Hb. reflexivity. Qed.
(* the beacon colour is the colour of some beacon of the grid; when all beacons agree it is THE beacon colour *)
Lemma first_some_In {A} (f : obj -> option A) l a : first_some f l = Some a -> exists o, In o l /\ f o = Some a.
Proof. induction l as [|o t IH]; cbn; [discriminate|]. destruct (f o) eqn:E; [intros H; injection H as <-; eauto|]. intros H. destruct (IH H) as (o' & ? & ?). eauto. Qed.
Lemma first_some_None {A} (f : obj -> option A) l : first_some f l = None <-> forall o, In o l -> f o = None.
Proof.
  induction l as [|o t IH]; cbn; [split; auto; intros _ o []|]. destruct (f o) eqn:E.
  - split; [discriminate|]. intros H. rewrite <- E. apply H; auto.
  - rewrite IH. split; [intros H o' [<-|Ho']; auto | intros H o' Ho'; apply H; auto].
Qed.
Lemma beacon_color_spec g bc : beacon_color g = Some bc -> exists o, In o (concat g) /\ is_ty ty_Beacon o = true /\ ocol o = bc.
Proof.
  intros H. apply first_some_In in H. destruct H as (o & Ho & E). exists o. split; auto.
  destruct (is_ty ty_Beacon o); [injection E as <-; auto | discriminate].
Qed.

(* ---- composites ---- *)
Lemma reward_sum_nil s a s' : reward (RSum []) s a s' = Ok (RSumOf []).  Proof. reflexivity. Qed.
Lemma reward_sum_cons r l s a s' v vs : reward r s a s' = Ok v -> reward (RSum l) s a s' = Ok (RSumOf vs) ->
  reward (RSum (r :: l)) s a s' = Ok (RSumOf (v :: vs)).
Proof.
  intros H1 H2. cbn [reward] in *. rewrite H1. cbn [in_generator rbind].
  destruct ((fix go (l0 : list rname) : res (list rv) := match l0 with [] => Ok [] | r1 :: t => rbind (in_generator (reward r1 s a s')) (fun v0 => rbind (go t) (fun vs0 => Ok (v0 :: vs0))) end) l) eqn:E;
    cbn [rbind] in *; [injection H2 as <-; reflexivity | discriminate].
Qed.
(* a composite reward is the (python) sum of its parts, in order *)
Lemma reduce_sum_is_sum l s a s' vs : Forall2 (fun r v => reward r s a s' = Ok v) l vs ->
  reward (RSum l) s a s' = Ok (RSumOf vs).
Proof. induction 1 as [|r v l vs H1 H2 IH]; [reflexivity|]. eapply reward_sum_cons; eauto. Qed.

Lemma term_any_spec l s a s' bs : Forall2 (fun t b => terminates t s a s' = Ok b) l bs ->
  terminates (TAny l) s a s' = Ok (existsb (fun b => b) bs).
Proof.
  induction 1 as [|t b l bs H1 H2 IH]; [reflexivity|]. cbn [terminates existsb] in *. rewrite H1. cbn [rbind].
  destruct b; cbn [orb]; auto.
Qed.
Lemma term_all_spec l s a s' bs : Forall2 (fun t b => terminates t s a s' = Ok b) l bs ->
  terminates (TAll l) s a s' = Ok (forallb (fun b => b) bs).
Proof.
  induction 1 as [|t b l bs H1 H2 IH]; [reflexivity|]. cbn [terminates forallb] in *. rewrite H1. cbn [rbind].
  destruct b; cbn [andb]; auto.
Qed.
Lemma Forall2_len {A B} (R : A -> B -> Prop) l l' : Forall2 R l l' -> length l = length l'.
Proof. induction 1; cbn; auto. Qed.
(* an environment with the exit reward among its rewards and exit termination among an `any` pays the exit reward
   on exactly the steps on which exit-termination fires *)
Lemma env_exit_agreement pre post tpre tpost s a s' vs bs : st_ok s' ->
  Forall2 (fun r v => reward r s a s' = Ok v) (pre ++ RReachExit :: post) vs ->
  Forall2 (fun t b => terminates t s a s' = Ok b) (tpre ++ TReachExit :: tpost) bs ->
  nth (length pre) vs RZero = (if nth (length tpre) bs false then RParam 0 else RParam 1) /\
  (nth (length tpre) bs false = true -> terminates (TAny (tpre ++ TReachExit :: tpost)) s a s' = Ok true).
Proof.
  intros Hok Hr Ht.
  assert (R : nth (length pre) vs RZero = if is_ty ty_Exit (here s') then RParam 0 else RParam 1).
  { clear Ht. revert vs Hr. induction pre as [|r0 pre IH]; intros vs Hr; inversion Hr as [|? v ? vs' H1 H2]; subst; cbn [app length nth] in *.
    - rewrite reward_reach_exit_spec in H1 by auto. now injection H1.
    - apply IH; auto. }
  assert (T : nth (length tpre) bs false = is_ty ty_Exit (here s')).
  { clear Hr R. revert bs Ht. induction tpre as [|t0 tpre IH]; intros bs Ht; inversion Ht as [|? b ? bs' H1 H2]; subst; cbn [app length nth] in *.
    - rewrite term_reach_exit_spec in H1 by auto. now injection H1.
    - apply IH; auto. }
  rewrite R, T. split; [reflexivity|]. intros E.
  rewrite (term_any_spec _ _ _ _ _ Ht). f_equal. apply existsb_exists. exists true. split; auto.
  rewrite <- T in E. rewrite <- E. apply nth_In.
  clear - Ht. apply Forall2_len in Ht. rewrite app_length in Ht. cbn in Ht. lia.
Qed.

(* ---- totality (used by C01): under the documented preconditions no component raises ---- *)
Section rname_induction.
  Variable P : rname -> Prop.
  Hypothesis H1 : forall ty, P (ROverlap ty).
  Hypothesis H2 : P RLiving.  Hypothesis H3 : P RReachExit.  Hypothesis H4 : P RBumpObstacle.
  Hypothesis H5 : forall d ty, P (RProportional d ty).  Hypothesis H6 : forall d ty, P (RGettingCloser d ty).
  Hypothesis H7 : forall ty, P (RGettingCloserSP ty).  Hypothesis H8 : P RBumpWall.  Hypothesis H9 : P RActuateDoor.
  Hypothesis H10 : forall ty, P (RPickndrop ty).  Hypothesis H11 : P RReachExitMemory.
  Hypothesis H12 : forall l, Forall P l -> P (RSum l).
  Fixpoint rname_ind2 (r : rname) : P r :=
    match r with
    | ROverlap ty => H1 ty | RLiving => H2 | RReachExit => H3 | RBumpObstacle => H4
    | RProportional d ty => H5 d ty | RGettingCloser d ty => H6 d ty | RGettingCloserSP ty => H7 ty
    | RBumpWall => H8 | RActuateDoor => H9 | RPickndrop ty => H10 ty | RReachExitMemory => H11
    | RSum l => H12 l ((fix go (l : list rname) : Forall P l :=
                          match l with [] => Forall_nil P | x :: t => Forall_cons x (rname_ind2 x) (go t) end) l)
    end.
End rname_induction.

Fixpoint reward_pre (r : rname) (s s' : state) : Prop :=
  match r with
  | RProportional _ ty => exists p', unique_at (sgrid s') ty p'
  | RGettingCloser _ ty | RGettingCloserSP ty => (exists p, unique_at (sgrid s) ty p) /\ (exists p', unique_at (sgrid s') ty p')
  | RReachExitMemory => exists bc, beacon_color (sgrid s') = Some bc
  | RSum l => (fix all (l : list rname) : Prop := match l with [] => True | r1 :: t => reward_pre r1 s s' /\ all t end) l
  | _ => True
  end.
Lemma reward_total r : forall s a s', st_ok s -> st_ok s' ->
  gheight (sgrid s') = gheight (sgrid s) -> gwidth (sgrid s') = gwidth (sgrid s) ->
  reward_pre r s s' -> exists v, reward r s a s' = Ok v.
Proof.
  induction r using rname_ind2; intros s a s' Hs Hs' Eh Ew Hp; pose proof Hs as [Hw Hin]; pose proof Hs' as [Hw' Hin'].
  - rewrite reward_overlap_spec by auto. eauto.
  - cbn. eauto.
  - rewrite reward_reach_exit_spec by auto. eauto.
  - rewrite reward_bump_obstacle_spec by auto. eauto.
  - destruct Hp as [p' Hu']. rewrite (reward_proportional_spec d ty s a s' p') by auto. eauto.
  - destruct Hp as [[p Hu] [p' Hu']]. rewrite (reward_getting_closer_spec d ty s a s' p p') by auto. eauto.
  - destruct Hp as [[p Hu] [p' Hu']]. pose proof (reward_getting_closer_sp_spec ty s a s' p p' Hs Hs' Hu Hu') as E. cbv zeta in E. rewrite E. eauto.
  - rewrite reward_bump_wall_spec by auto. eauto.
  - pose proof (reward_actuate_door_spec s a s' Hw Hw' Eh Ew) as E. cbv zeta in E. rewrite E. eauto.
  - rewrite reward_pickndrop_spec. eauto.
  - destruct Hp as [bc Hb]. rewrite (reward_memory_spec s a s' bc) by auto. eauto.
  - assert (G : exists vs, Forall2 (fun r v => reward r s a s' = Ok v) l vs).
    { induction l as [|r0 l IHl]; [exists []; constructor|].
      inversion H as [|? ? Hr Hl]; subst. cbn [reward_pre] in Hp. destruct Hp as [Hp0 Hpl].
      destruct (Hr s a s' Hs Hs' Eh Ew Hp0) as [v Hv]. destruct (IHl Hl Hpl) as [vs Hvs]. exists (v :: vs). constructor; auto. }
    destruct G as [vs Hvs]. exists (RSumOf vs). now apply reduce_sum_is_sum.
Qed.
Section tmname_induction.
  Variable P : tmname -> Prop.
  Hypothesis H1 : forall ty, P (TOverlap ty).
  Hypothesis H2 : P TReachExit.  Hypothesis H3 : P TBumpObstacle.  Hypothesis H4 : P TBumpWall.
  Hypothesis H5 : forall l, Forall P l -> P (TAny l).  Hypothesis H6 : forall l, Forall P l -> P (TAll l).
  Fixpoint tmname_ind2 (t : tmname) : P t :=
    match t with
    | TOverlap ty => H1 ty | TReachExit => H2 | TBumpObstacle => H3 | TBumpWall => H4
    | TAny l => H5 l ((fix go (l : list tmname) : Forall P l :=
                         match l with [] => Forall_nil P | x :: r => Forall_cons x (tmname_ind2 x) (go r) end) l)
    | TAll l => H6 l ((fix go (l : list tmname) : Forall P l :=
                         match l with [] => Forall_nil P | x :: r => Forall_cons x (tmname_ind2 x) (go r) end) l)
    end.
End tmname_induction.
Lemma termination_total t : forall s a s', st_ok s -> st_ok s' -> exists b, terminates t s a s' = Ok b.
Proof.
  induction t using tmname_ind2; intros s a s' Hs Hs'; pose proof Hs as [Hw Hin].
  - rewrite term_overlap_spec by auto. eauto.
  - rewrite term_reach_exit_spec by auto. eauto.
  - rewrite term_bump_obstacle_spec by auto. eauto.
  - rewrite term_bump_wall_spec by auto. eauto.
  - assert (G : exists bs, Forall2 (fun t b => terminates t s a s' = Ok b) l bs).
    { induction l as [|t0 l IHl]; [exists []; constructor|]. inversion H as [|? ? Ht Hl]; subst.
      destruct (Ht s a s' Hs Hs') as [b Hb]. destruct (IHl Hl) as [bs Hbs]. exists (b :: bs). constructor; auto. }
    destruct G as [bs Hbs]. rewrite (term_any_spec _ _ _ _ _ Hbs). eauto.
  - assert (G : exists bs, Forall2 (fun t b => terminates t s a s' = Ok b) l bs).
    { induction l as [|t0 l IHl]; [exists []; constructor|]. inversion H as [|? ? Ht Hl]; subst.
      destruct (Ht s a s' Hs Hs') as [b Hb]. destruct (IHl Hl) as [bs Hbs]. exists (b :: bs). constructor; auto. }
    destruct G as [bs Hbs]. rewrite (term_all_spec _ _ _ _ _ Hbs). eauto.
Qed.
