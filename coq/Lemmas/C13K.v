(* C13/C14: the exact outcome of `keydoor` (used by the winnability theorem) *)
From Coq Require Import ZArith List Bool Lia.
From GV.Model Require Import Check.
From GV.Lemmas Require Import GridL RotL RandL GeomL BfsL C13W.
Import ListNotations.
Open Scope Z_scope.

Definition kd_cell (h w xw yd : Z) (pk q : pos) : obj :=
  if pos_eqb pk q then Key COL_YELLOW else if pos_eqb (yd, xw) q then Door st_LOCKED COL_YELLOW
  else if (snd q =? xw) && (1 <=? fst q) && (fst q <=? h - 2) then Wall
  else if pos_eqb (h - 2, w - 2) q then Exit 0 else if is_border h w q then Wall else Floor.
(* the exact outcome of `keydoor`: every cell of the grid, for every shape and every draw *)
Theorem keydoor_outcome h w own r : 4 <= h -> 5 <= w -> Leaf (reset_keydoor h w own) r ->
  exists g xw yd yk xk ya xa oa, r = Ok (mkS g (ya, xa) oa NoneObj) /\ wf_grid g /\ gheight g = h /\ gwidth g = w /\
    2 <= xw <= w - 3 /\ 1 <= yd <= h - 2 /\ 1 <= yk <= h - 2 /\ 1 <= xk <= xw - 1 /\ 1 <= ya <= h - 2 /\ 1 <= xa <= xw - 1 /\
    forall q, in_grid g q = true -> lookupH g q = kd_cell h w xw yd (yk, xk) q.
Proof.
  intros Hh Hw HL. unfold reset_keydoor in HL.
  replace ((h <? 3) || (w <? 5) || ((h =? 3) && (w =? 5))) with false in HL
    by (symmetry; rewrite !orb_false_iff, andb_false_iff, !Z.ltb_ge, !Z.eqb_neq; lia).
  apply Leaf_bind in HL. destruct HL as [(s & Hs & HL)|(x & Hx & ->)].
  2:{ destruct (empty_outcome h w false false false _ Hh ltac:(lia) Hx) as (g & pe & pa & oa & E & _). discriminate. }
  destruct (empty_outcome h w false false false _ Hh ltac:(lia) Hs) as (g & pe & pa0 & oa0 & E & R & Hpe & _ & _ & _ & Hpefix). injection E as ->.
  rewrite (Hpefix eq_refl) in *. clear Hpefix. cbn [sgrid] in HL.
  (* the wall column *)
  apply Leaf_bind in HL. destruct HL as [(xw & Hxw & HL)|(x & Hx & ->)].
  2:{ exfalso. apply Leaf_rints in Hx. destruct Hx as [[H _]|(i & _ & E)]; [lia | discriminate]. }
  apply Leaf_rints in Hxw. destruct Hxw as [[H _]|(i & Hi & E)]; [lia|]. injection E as <-.
  set (line := cartesian (zrange 1 (h - 1)) [xw]) in *.
  assert (Hline : forall q, In q line <-> 1 <= fst q <= h - 2 /\ snd q = xw).
  { intros q. unfold line, cartesian. rewrite cartesian_In, zrange_In. cbn [In]. intuition lia. }
  assert (Nline : NoDup line).
  { unfold line, cartesian. apply NoDup_pairs; [apply zrange_n_NoDup | repeat constructor; intros []]. }
  destruct ty_distinct_holds as (D1 & D2 & D3 & D4 & D5).
  destruct (draw_spec line g Wall (rm_wf _ _ _ _ R)) as (g1 & E1 & W1 & Eh1 & Ew1 & L1).
  { intros q Hq. apply Hline in Hq. apply (room_in_grid h w g _ q R). lia. }
  rewrite E1 in HL. cbn [lift bind] in HL.
  assert (IG1 : forall q, in_grid g1 q = in_grid g q) by (intros q; unfold in_grid, garea; now rewrite Eh1, Ew1).
  (* the door *)
  assert (Lne : line <> []).
  { assert (In (1, xw) line) by (apply Hline; cbn [fst snd]; lia). intros E0. rewrite E0 in H. destruct H. }
  apply Leaf_bind in HL. destruct HL as [(pd & Hpd & HL)|(x & Hx & ->)].
  2:{ destruct (rchoice_of_leaf _ line (0, 0) _ Lne Hx) as (a & E & _). discriminate. }
  destruct (rchoice_of_leaf _ line (0, 0) _ Lne Hpd) as (a & E & Hpd_in). injection E as <-. apply Hline in Hpd_in.
  assert (Ipd : in_grid g1 pd = true) by (rewrite IG1; apply (room_in_grid h w g _ pd R); lia).
  rewrite (grid_set_in g1 pd _ W1 Ipd) in HL. cbn [lift bind] in HL.
  set (g2 := gset g1 pd (Door st_LOCKED COL_YELLOW)) in *.
  assert (W2 : wf_grid g2) by (apply wf_gset; auto).
  (* the key *)
  apply Leaf_bind in HL. destruct HL as [(yk & Hyk & HL)|(x & Hx & ->)].
  2:{ exfalso. apply Leaf_rints in Hx. destruct Hx as [[H _]|(j & _ & E)]; [lia | discriminate]. }
  apply Leaf_rints in Hyk. destruct Hyk as [[H _]|(j & Hj & E)]; [lia|]. injection E as ->.
  apply Leaf_bind in HL. destruct HL as [(xk & Hxk & HL)|(x & Hx & ->)].
  2:{ exfalso. apply Leaf_rints in Hx. destruct Hx as [[H _]|(j' & _ & E)]; [lia | discriminate]. }
  apply Leaf_rints in Hxk. destruct Hxk as [[H _]|(j' & Hj' & E)]; [lia|]. injection E as ->.
  assert (Ipk : in_grid g2 (j, j') = true).
  { unfold g2. rewrite in_grid_gset, IG1. apply (room_in_grid h w g _ _ R). cbn [fst snd]. lia. }
  rewrite (grid_set_in g2 (j, j') _ W2 Ipk) in HL. cbn [lift bind] in HL.
  set (g3 := gset g2 (j, j') (Key COL_YELLOW)) in *.
  (* the agent *)
  apply Leaf_bind in HL. destruct HL as [(ya & Hya & HL)|(x & Hx & ->)].
  2:{ exfalso. apply Leaf_rints in Hx. destruct Hx as [[H _]|(k & _ & E)]; [lia | discriminate]. }
  apply Leaf_rints in Hya. destruct Hya as [[H _]|(k & Hk & E)]; [lia|]. injection E as ->.
  apply Leaf_bind in HL. destruct HL as [(xa & Hxa & HL)|(x & Hx & ->)].
  2:{ exfalso. apply Leaf_rints in Hx. destruct Hx as [[H _]|(k' & _ & E)]; [lia | discriminate]. }
  apply Leaf_rints in Hxa. destruct Hxa as [[H _]|(k' & Hk' & E)]; [lia|]. injection E as ->.
  apply Leaf_bind in HL. destruct HL as [(oa & _ & HL)|(x & Hx & ->)].
  2:{ destruct (rchoice_of_leaf _ all_oris FORWARD _ ltac:(vm_compute; discriminate) Hx) as (a & E & _). discriminate. }
  apply Leaf_Ret in HL. subst r.
  (* the final grid, cell by cell *)
  assert (W3 : wf_grid g3) by (apply wf_gset; auto).
  assert (Eh3 : gheight g3 = h) by (unfold g3, g2; rewrite !gheight_gset, Eh1; apply (rm_h _ _ _ _ R)).
  assert (Ew3 : gwidth g3 = w) by (unfold g3, g2; rewrite !gwidth_gset, Ew1; apply (rm_w _ _ _ _ R)).
  assert (IG3 : forall q, in_grid g3 q = in_grid g q) by (intros q; unfold g3, g2; rewrite !in_grid_gset; apply IG1).
  assert (L3 : forall q, in_grid g q = true -> lookupH g3 q =
            if pos_eqb (j, j') q then Key COL_YELLOW else if pos_eqb pd q then Door st_LOCKED COL_YELLOW
            else if memP q line then Wall else lookupH g q).
  { intros q Iq. unfold g3. rewrite (lookupH_gset g2 (j, j') q _ W2 Ipk). destruct (pos_eqb (j, j') q); auto.
    unfold g2. rewrite (lookupH_gset g1 pd q _ W1 Ipd). destruct (pos_eqb pd q); auto. rewrite L1, Iq. reflexivity. }
  destruct pd as [yd xd]. cbn [fst snd] in Hpd_in. destruct Hpd_in as [Hyd ->].
  exists g3, xw, yd, j, j', k, k', oa. split; [reflexivity|]. split; [exact W3|]. split; [exact Eh3|]. split; [exact Ew3|].
  split; [lia|]. split; [lia|]. split; [lia|]. split; [lia|]. split; [lia|]. split; [lia|].
  intros q Iq. rewrite IG3 in Iq. rewrite (L3 q Iq). unfold kd_cell.
  destruct (pos_eqb (j, j') q); [reflexivity|]. destruct (pos_eqb (yd, xw) q); [reflexivity|].
  replace (memP q line) with ((snd q =? xw) && (1 <=? fst q) && (fst q <=? h - 2)).
  - destruct ((snd q =? xw) && (1 <=? fst q) && (fst q <=? h - 2)); [reflexivity|]. apply (rm_cells _ _ _ _ R q Iq).
  - apply Bool.eq_true_iff_eq. rewrite memP_iff, Hline, !andb_true_iff, Z.eqb_eq, !Z.leb_le. lia.
Qed.
