(* C13: parameter combinations that cannot be honoured raise ValueError *)
From Coq Require Import ZArith List Bool Lia.
From GV.Model Require Import Check.
From GV.Lemmas Require Import RandL.
Import ListNotations.
Open Scope Z_scope.

Ltac guard_true := match goal with |- context [if ?c then _ else _] => let E := fresh in assert (E : c = true); [|rewrite E; reflexivity] end.
Lemma empty_rejects h w ra re own : h < 4 \/ w < 4 -> reset_empty h w ra re own = Raise ValueError.
Proof. intros H. unfold reset_empty. guard_true. apply orb_true_iff. rewrite !Z.ltb_lt. exact H. Qed.
Lemma teleport_rejects h w own : h < 4 \/ w < 4 -> reset_teleport h w own = Raise ValueError.
Proof. intros H. unfold reset_teleport. rewrite empty_rejects by auto. reflexivity. Qed.
Lemma dynamic_obstacles_rejects h w n ra own : h < 4 \/ w < 4 -> reset_dynamic_obstacles h w n ra own = Raise ValueError.
Proof. intros H. unfold reset_dynamic_obstacles. rewrite empty_rejects by auto. reflexivity. Qed.
Lemma keydoor_rejects h w own : h < 3 \/ w < 5 \/ (h = 3 /\ w = 5) \/ h < 4 -> reset_keydoor h w own = Raise ValueError.
Proof.
  intros H. unfold reset_keydoor.
  destruct ((h <? 3) || (w <? 5) || ((h =? 3) && (w =? 5))) eqn:E; [reflexivity|].
  rewrite !orb_false_iff, andb_false_iff, !Z.ltb_ge, !Z.eqb_neq in E.
  rewrite empty_rejects by lia. reflexivity.
Qed.
Lemma crossing_rejects h w n ty own : h < 5 \/ h mod 2 = 0 \/ w < 5 \/ w mod 2 = 0 \/ n <= 0 -> reset_crossing h w n ty own = Raise ValueError.
Proof.
  intros H. unfold reset_crossing.
  destruct ((h <? 5) || (h mod 2 =? 0)) eqn:E1; [reflexivity|].
  destruct ((w <? 5) || (w mod 2 =? 0)) eqn:E2; [reflexivity|].
  destruct (n <=? 0) eqn:E3; [reflexivity|].
  rewrite orb_false_iff, Z.ltb_ge, Z.eqb_neq in E1, E2. rewrite Z.leb_gt in E3. lia.
Qed.
Lemma memZ_true x l : In x l -> memZ x l = true.
Proof. intros H. unfold memZ. apply existsb_exists. exists x. split; auto. apply Z.eqb_refl. Qed.
Lemma memory_rejects h w cs own : h < 5 \/ w < 5 \/ w mod 2 = 0 \/ In 0 cs \/ Z.of_nat (length cs) < 2 -> reset_memory h w cs own = Raise ValueError.
Proof.
  intros H. unfold reset_memory.
  destruct (h <? 5) eqn:E1; [reflexivity|].
  destruct ((w <? 5) || (w mod 2 =? 0)) eqn:E2; [reflexivity|].
  destruct (memZ 0 cs) eqn:E3; [reflexivity|].
  destruct (Z.of_nat (length cs) <? 2) eqn:E4; [reflexivity|].
  rewrite Z.ltb_ge in E1, E4. rewrite orb_false_iff, Z.ltb_ge, Z.eqb_neq in E2.
  destruct H as [H|[H|[H|[H|H]]]]; try lia. rewrite (memZ_true _ _ H) in E3. discriminate.
Qed.
Lemma memory_rooms_rejects h w ys xs cs nb ne own : In 0 cs \/ Z.of_nat (length cs) < 2 \/ nb < 1 \/ ne < 2 ->
  reset_memory_rooms h w ys xs cs nb ne own = Raise ValueError.
Proof.
  intros H. unfold reset_memory_rooms.
  destruct (memZ 0 cs) eqn:E3; [reflexivity|].
  destruct (Z.of_nat (length cs) <? 2) eqn:E4; [reflexivity|].
  destruct (nb <? 1) eqn:E5; [reflexivity|]. destruct (ne <? 2) eqn:E6; [reflexivity|].
  rewrite Z.ltb_ge in E4, E5, E6. destruct H as [H|[H|[H|H]]]; try lia. rewrite (memZ_true _ _ H) in E3. discriminate.
Qed.
Lemma rooms_rejects h w ys xs own : gapsb ys = false \/ gapsb xs = false -> reset_rooms h w ys xs own = Raise ValueError.
Proof.
  intros H. unfold reset_rooms, rooms_grid.
  destruct (gapsb ys) eqn:E1; cbn [negb]; [|reflexivity].
  destruct (gapsb xs) eqn:E2; cbn [negb]; [|reflexivity]. destruct H; discriminate.
Qed.
Lemma draws_only_value_error g n lo hi k x :
  (Leaf (rchoice g n) (Err x) -> x = ValueError) /\ (Leaf (rints g lo hi) (Err x) -> x = ValueError) /\ (Leaf (rsample g n k) (Err x) -> x = ValueError).
Proof.
  split; [|split]; intros HL.
  - unfold rchoice in HL. destruct (n <=? 0); [apply Leaf_Raise in HL; congruence|].
    inversion HL as [| |? ? ? ans ? Hv Hl]; subst. apply Leaf_Ret in Hl. discriminate.
  - unfold rints in HL. destruct (hi <? lo); [apply Leaf_Raise in HL; congruence|].
    inversion HL as [| |? ? ? ans ? Hv Hl]; subst. apply Leaf_Ret in Hl. discriminate.
  - unfold rsample in HL. destruct (_ || _ || _); [apply Leaf_Raise in HL; congruence|].
    inversion HL as [| |? ? ? ans ? Hv Hl]; subst. apply Leaf_Ret in Hl. discriminate.
Qed.
