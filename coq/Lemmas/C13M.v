(* C13, general part (continued): `memory` produces a well-formed initial state for EVERY shape (height >= 5, odd width >= 5), every
   set of at least two colours and every random outcome: the T-maze layout, two exits of different colours from the set in the two top
   corners, two beacons of the colour of exactly one of the exits in the bottom corners, the agent on the floor cell in the middle. *)
From Coq Require Import ZArith List Bool Lia Permutation ZifyBool.
From GV.Model Require Import Check.
From GV.Lemmas Require Import GridL RotL RandL GeomL BfsL C02L C13W.
Import ListNotations.
Open Scope Z_scope.

(* sampling k elements out of a list that has at least k never fails *)
Lemma rchoices_leaf_ok {A} gl (l : list A) k d x : 0 <= k <= Z.of_nat (length l) -> Leaf (rchoices_of gl l k d) x ->
  exists idx, x = Ok (map (fun i => nthZ l i d) idx) /\ Z.of_nat (length idx) = k /\
              (forall i, In i idx -> 0 <= i < Z.of_nat (length l)) /\ NoDup idx.
Proof.
  intros Hk H. destruct (rchoices_leaf gl l k d x H) as [->|Hok]; [|exact Hok]. exfalso.
  unfold rchoices_of, rsample in H. apply Leaf_bind in H. destruct H as [(j & _ & H)|(y & Hy & _)]; [apply Leaf_Ret in H; discriminate|].
  replace ((k <? 0) || (Z.of_nat (length l) <? k) || ((Z.of_nat (length l) <=? 0) && negb (k =? 0))) with false in Hy.
  - inversion Hy as [| |? ? ? ans ? Hv Hl]; subst. apply Leaf_Ret in Hl. discriminate.
  - symmetry. rewrite !orb_false_iff, andb_false_iff, !Z.ltb_ge, Z.leb_gt, negb_false_iff, Z.eqb_eq. lia.
Qed.
(* two elements: distinct members of the list *)
Lemma rchoices_two {A} gl (l : list A) d x : NoDup l -> (2 <= length l)%nat -> Leaf (rchoices_of gl l 2 d) x ->
  exists a b, x = Ok [a; b] /\ In a l /\ In b l /\ a <> b.
Proof.
  intros Nl Hl H. apply rchoices_leaf_ok in H; [|lia]. destruct H as (idx & -> & Hlen & Hr & Nd).
  destruct (sampled_spec l d idx Nl Hr Nd) as (Hin & Nps & _).
  destruct idx as [|i [|j [|? ?]]]; cbn [length] in Hlen; try lia. cbn [map] in *.
  exists (nthZ l i d), (nthZ l j d). split; [reflexivity|]. split; [apply Hin; left; auto|]. split; [apply Hin; right; left; auto|].
  inversion Nps as [|? ? Hn _]; subst. intros E. apply Hn. left. auto.
Qed.
Lemma two_of_two {A} (a b x y : A) : In x [a; b] -> In y [a; b] -> x <> y -> (x = a /\ y = b) \/ (x = b /\ y = a).
Proof. cbn [In]. intros [<-|[<-|[]]] [<-|[<-|[]]] H; auto; contradiction. Qed.
(* a duplicate-free list with exactly the two members p1 <> p2 *)
Lemma two_cells g f p1 p2 : p1 <> p2 -> (forall q, In q (cells_at g f) <-> q = p1 \/ q = p2) ->
  cells_at g f = [p1; p2] \/ cells_at g f = [p2; p1].
Proof.
  intros Hne H. assert (Nd : NoDup (cells_at g f)) by (apply NoDup_filter, gpositions_NoDup).
  assert (Len : length (cells_at g f) = 2%nat).
  { rewrite (cells_at_as g f [p1; p2]); [reflexivity | |].
    - constructor; [intros [E|[]]; congruence | constructor; [intros [] | constructor]].
    - intros q. rewrite H. cbn [In]. intuition congruence. }
  destruct (cells_at g f) as [|a [|b [|c t]]]; try discriminate Len.
  assert (Ha : a = p1 \/ a = p2) by (apply H; left; auto). assert (Hb : b = p1 \/ b = p2) by (apply H; right; left; auto).
  inversion Nd as [|? ? Hn _]; subst. assert (a <> b) by (intros ->; apply Hn; left; auto).
  destruct Ha as [->| ->], Hb as [->| ->]; auto; contradiction.
Qed.
Lemma NoDup_isort l : NoDup l -> NoDup (isort l).
Proof. intros H. eapply Permutation_NoDup; [apply Permutation_sym, isort_perm | exact H]. Qed.
Lemma In_isort x l : In x (isort l) <-> In x l.
Proof. split; apply Permutation_in; [apply isort_perm | apply Permutation_sym, isort_perm]. Qed.
Lemma memZ_In x l : memZ x l = true <-> In x l.
Proof. unfold memZ. rewrite existsb_exists. split; [intros (y & Hy & E); apply Z.eqb_eq in E; now subst | intros H; exists x; split; auto; apply Z.eqb_refl]. Qed.

(* the T-maze: row 1 and row h-2 between the corner cells, joined by the middle column *)
Definition on_corridor (h w : Z) (q : pos) : bool :=
  ((fst q =? 1) || (fst q =? h - 2)) && (2 <=? snd q) && (snd q <? w - 2) || (2 <=? fst q) && (fst q <? h - 2) && (snd q =? w / 2).
Definition mem_cell (h w xg xb cg cb : Z) (q : pos) : obj :=
  if pos_eqb (h - 2, w - 2) q then Beacon cg else if pos_eqb (h - 2, 1) q then Beacon cg
  else if pos_eqb (1, xb) q then Exit cb else if pos_eqb (1, xg) q then Exit cg
  else if on_corridor h w q then Floor else Wall.
(* the exact outcome: every cell of the grid, for every shape, colour set and random outcome *)
Theorem memory_outcome h w cs own r : 5 <= h -> 5 <= w -> w mod 2 = 1 -> NoDup cs -> ~ In 0 cs -> (2 <= length cs)%nat ->
  Leaf (reset_memory h w cs own) r ->
  exists g cg cb xg xb, r = Ok (mkS g (h / 2, w / 2) FORWARD NoneObj) /\ wf_grid g /\ gheight g = h /\ gwidth g = w /\
    In cg cs /\ In cb cs /\ cg <> cb /\ ((xg = 1 /\ xb = w - 2) \/ (xg = w - 2 /\ xb = 1)) /\
    forall q, in_grid g q = true -> lookupH g q = mem_cell h w xg xb cg cb q.
Proof.
  intros Hh Hw Hodd Ncs H0 Hlen HL. unfold reset_memory in HL.
  replace (h <? 5) with false in HL by (symmetry; apply Z.ltb_ge; lia).
  replace ((w <? 5) || (w mod 2 =? 0)) with false in HL by (symmetry; rewrite orb_false_iff, Z.ltb_ge, Z.eqb_neq; lia).
  replace (memZ 0 cs) with false in HL by (symmetry; apply not_true_is_false; rewrite memZ_In; exact H0).
  replace (Z.of_nat (length cs) <? 2) with false in HL by (symmetry; apply Z.ltb_ge; lia).
  destruct (blank_grid h w Floor ltac:(lia) ltac:(lia)) as (W0 & Eh0 & Ew0 & _).
  set (g0 := grid_from_shape h w Floor) in *.
  assert (IG0 : forall q, in_grid g0 q = true <-> 0 <= fst q < h /\ 0 <= snd q < w) by (intros q; rewrite in_grid_spec, Eh0, Ew0; tauto).
  (* everything wall *)
  destruct (draw_spec (apositions (garea g0)) g0 Wall W0) as (g1 & E1 & W1 & Eh1 & Ew1 & L1).
  { intros p Hp. unfold apositions in Hp. apply cartesian_In in Hp. rewrite !zrange_In in Hp. unfold garea in Hp. cbn [ymin ymax xmin xmax] in Hp.
    apply in_grid_spec. lia. }
  rewrite E1 in HL. cbn [lift bind] in HL.
  assert (IG1 : forall q, in_grid g1 q = in_grid g0 q) by (intros q; unfold in_grid, garea; now rewrite Eh1, Ew1).
  assert (L1' : forall q, in_grid g0 q = true -> lookupH g1 q = Wall).
  { intros q Iq. rewrite L1, Iq. replace (memP q (apositions (garea g0))) with true; [reflexivity|]. symmetry. apply memP_iff.
    unfold apositions. apply cartesian_In. rewrite !zrange_In. unfold garea. cbn [ymin ymax xmin xmax]. apply in_grid_spec in Iq. lia. }
  (* the three corridors *)
  set (c1 := cartesian [1] (zrange 2 (w - 2))) in *. set (c2 := cartesian [h - 2] (zrange 2 (w - 2))) in *. set (c3 := cartesian (zrange 2 (h - 2)) [w / 2]) in *.
  assert (Hc1 : forall q, In q c1 <-> fst q = 1 /\ 2 <= snd q < w - 2) by (intros q; unfold c1, cartesian; rewrite cartesian_In, zrange_In; cbn [In]; intuition lia).
  assert (Hc2 : forall q, In q c2 <-> fst q = h - 2 /\ 2 <= snd q < w - 2) by (intros q; unfold c2, cartesian; rewrite cartesian_In, zrange_In; cbn [In]; intuition lia).
  assert (Hc3 : forall q, In q c3 <-> 2 <= fst q < h - 2 /\ snd q = w / 2) by (intros q; unfold c3, cartesian; rewrite cartesian_In, zrange_In; cbn [In]; intuition lia).
  assert (Hmid : 2 <= w / 2 <= w - 3) by (split; [apply Z.div_le_lower_bound; lia | assert (w / 2 * 2 <= w) by (pose proof (Z.mul_div_le w 2 ltac:(lia)); lia); lia]).
  destruct (draw_spec c1 g1 Floor W1) as (g2 & E2 & W2 & Eh2 & Ew2 & L2).
  { intros p Hp. apply Hc1 in Hp. rewrite IG1. apply IG0. lia. }
  rewrite E2 in HL. cbn [lift bind] in HL.
  assert (IG2 : forall q, in_grid g2 q = in_grid g0 q) by (intros q; rewrite <- IG1; unfold in_grid, garea; now rewrite Eh2, Ew2).
  destruct (draw_spec c2 g2 Floor W2) as (g3 & E3 & W3 & Eh3 & Ew3 & L3).
  { intros p Hp. apply Hc2 in Hp. rewrite IG2. apply IG0. lia. }
  rewrite E3 in HL. cbn [lift bind] in HL.
  assert (IG3 : forall q, in_grid g3 q = in_grid g0 q) by (intros q; rewrite <- IG2; unfold in_grid, garea; now rewrite Eh3, Ew3).
  destruct (draw_spec c3 g3 Floor W3) as (g4 & E4 & W4 & Eh4 & Ew4 & L4).
  { intros p Hp. apply Hc3 in Hp. rewrite IG3. apply IG0. lia. }
  rewrite E4 in HL. cbn [lift bind] in HL.
  assert (IG4 : forall q, in_grid g4 q = in_grid g0 q) by (intros q; rewrite <- IG3; unfold in_grid, garea; now rewrite Eh4, Ew4).
  assert (L4' : forall q, in_grid g0 q = true -> lookupH g4 q = if memP q c3 || memP q c2 || memP q c1 then Floor else Wall).
  { intros q Iq. rewrite L4, IG3, Iq. destruct (memP q c3); [reflexivity|]. rewrite L3, IG2, Iq. destruct (memP q c2); [reflexivity|].
    rewrite L2, IG1, Iq. destruct (memP q c1); [reflexivity|]. cbn [orb]. now apply L1'. }
  (* the colours and the sides *)
  apply Leaf_bind in HL. destruct HL as [(cols & Hcols & HL)|(x & Hx & ->)].
  2:{ destruct (rchoices_two _ (isort cs) 0 _ (NoDup_isort _ Ncs) ltac:(rewrite (Permutation_length (isort_perm cs)); lia) Hx) as (a & b & E & _). discriminate. }
  destruct (rchoices_two _ (isort cs) 0 _ (NoDup_isort _ Ncs) ltac:(rewrite (Permutation_length (isort_perm cs)); lia) Hcols) as (cg & cb & E & Hcg & Hcb & Hgb).
  injection E as ->. apply (proj1 (In_isort _ _)) in Hcg. apply (proj1 (In_isort _ _)) in Hcb.
  assert (N2 : NoDup [1; w - 2]) by (constructor; [intros [E|[]]; lia | constructor; [intros [] | constructor]]).
  apply Leaf_bind in HL. destruct HL as [(xs & Hxs & HL)|(x & Hx & ->)].
  2:{ destruct (rchoices_two _ [1; w - 2] 0 _ N2 ltac:(cbn; lia) Hx) as (a & b & E & _). discriminate. }
  destruct (rchoices_two _ [1; w - 2] 0 _ N2 ltac:(cbn; lia) Hxs) as (xg & xb & E & Hxg & Hxb & Hxx). injection E as ->.
  assert (Sides : (xg = 1 /\ xb = w - 2) \/ (xg = w - 2 /\ xb = 1)) by (apply two_of_two; auto).
  (* the four objects *)
  assert (Ixg : in_grid g4 (1, xg) = true) by (rewrite IG4; apply IG0; cbn [fst snd]; lia).
  rewrite (grid_set_in g4 (1, xg) _ W4 Ixg) in HL. cbn [lift bind] in HL. set (g5 := gset g4 (1, xg) (Exit cg)) in *.
  assert (W5 : wf_grid g5) by (apply wf_gset; auto).
  assert (Ixb : in_grid g5 (1, xb) = true) by (unfold g5; rewrite in_grid_gset, IG4; apply IG0; cbn [fst snd]; lia).
  rewrite (grid_set_in g5 (1, xb) _ W5 Ixb) in HL. cbn [lift bind] in HL. set (g6 := gset g5 (1, xb) (Exit cb)) in *.
  assert (W6 : wf_grid g6) by (apply wf_gset; auto).
  assert (Ib1 : in_grid g6 (h - 2, 1) = true) by (unfold g6, g5; rewrite !in_grid_gset, IG4; apply IG0; cbn [fst snd]; lia).
  rewrite (grid_set_in g6 (h - 2, 1) _ W6 Ib1) in HL. cbn [lift bind] in HL. set (g7 := gset g6 (h - 2, 1) (Beacon cg)) in *.
  assert (W7 : wf_grid g7) by (apply wf_gset; auto).
  assert (Ib2 : in_grid g7 (h - 2, w - 2) = true) by (unfold g7, g6, g5; rewrite !in_grid_gset, IG4; apply IG0; cbn [fst snd]; lia).
  rewrite (grid_set_in g7 (h - 2, w - 2) _ W7 Ib2) in HL. cbn [lift bind] in HL. set (g8 := gset g7 (h - 2, w - 2) (Beacon cg)) in *.
  apply Leaf_Ret in HL. subst r.
  assert (W8 : wf_grid g8) by (apply wf_gset; auto).
  assert (Eh8 : gheight g8 = h) by (unfold g8, g7, g6, g5; rewrite !gheight_gset; congruence).
  assert (Ew8 : gwidth g8 = w) by (unfold g8, g7, g6, g5; rewrite !gwidth_gset; congruence).
  assert (IG8 : forall q, in_grid g8 q = in_grid g0 q) by (intros q; unfold g8, g7, g6, g5; rewrite !in_grid_gset; apply IG4).
  assert (L8 : forall q, in_grid g0 q = true -> lookupH g8 q =
            if pos_eqb (h - 2, w - 2) q then Beacon cg else if pos_eqb (h - 2, 1) q then Beacon cg
            else if pos_eqb (1, xb) q then Exit cb else if pos_eqb (1, xg) q then Exit cg
            else if memP q c3 || memP q c2 || memP q c1 then Floor else Wall).
  { intros q Iq. unfold g8. rewrite (lookupH_gset g7 _ q _ W7 Ib2). destruct (pos_eqb (h - 2, w - 2) q); auto.
    unfold g7. rewrite (lookupH_gset g6 _ q _ W6 Ib1). destruct (pos_eqb (h - 2, 1) q); auto.
    unfold g6. rewrite (lookupH_gset g5 _ q _ W5 Ixb). destruct (pos_eqb (1, xb) q); auto.
    unfold g5. rewrite (lookupH_gset g4 _ q _ W4 Ixg). destruct (pos_eqb (1, xg) q); auto. }
  exists g8, cg, cb, xg, xb. split; [reflexivity|]. split; [exact W8|]. split; [exact Eh8|]. split; [exact Ew8|].
  split; [exact Hcg|]. split; [exact Hcb|]. split; [exact Hgb|]. split; [exact Sides|].
  intros q Iq. rewrite IG8 in Iq. rewrite (L8 q Iq). unfold mem_cell.
  replace (memP q c3 || memP q c2 || memP q c1) with (on_corridor h w q); [reflexivity|].
  apply Bool.eq_true_iff_eq. rewrite !orb_true_iff, !memP_iff, Hc1, Hc2, Hc3. unfold on_corridor.
  rewrite !orb_true_iff, !andb_true_iff, !orb_true_iff, !Z.eqb_eq, !Z.leb_le, !Z.ltb_lt. lia.
Qed.

(* ---------- consequences of the exact outcome ---------- *)
Lemma mid_bounds n : 5 <= n -> 2 <= n / 2 <= n - 3.
Proof. intros H. pose proof (Z.div_mod n 2 ltac:(lia)). pose proof (Z.mod_pos_bound n 2 ltac:(lia)). lia. Qed.
Lemma pos_eqb_pair a b q : pos_eqb (a, b) q = true <-> fst q = a /\ snd q = b.
Proof. rewrite pos_eqb_iff. destruct q as [y x]. cbn [fst snd]. split; [intros E; injection E; auto | intros [-> ->]; reflexivity]. Qed.
Lemma pos_eqb_pair_false a b q : pos_eqb (a, b) q = false <-> ~ (fst q = a /\ snd q = b).
Proof. rewrite <- pos_eqb_pair. destruct (pos_eqb (a, b) q); split; intros H; try discriminate; auto. exfalso. apply H. reflexivity. Qed.
(* which kind of cell q is, in arithmetic *)
Lemma mem_cell_cases h w xg xb cg cb q : 5 <= h -> 5 <= w -> ((xg = 1 /\ xb = w - 2) \/ (xg = w - 2 /\ xb = 1)) ->
  (fst q = h - 2 /\ (snd q = 1 \/ snd q = w - 2) /\ mem_cell h w xg xb cg cb q = Beacon cg) \/
  (fst q = 1 /\ snd q = xb /\ mem_cell h w xg xb cg cb q = Exit cb) \/
  (fst q = 1 /\ snd q = xg /\ mem_cell h w xg xb cg cb q = Exit cg) \/
  (on_corridor h w q = true /\ mem_cell h w xg xb cg cb q = Floor) \/
  (on_corridor h w q = false /\ ~ (fst q = h - 2 /\ (snd q = 1 \/ snd q = w - 2)) /\ ~ (fst q = 1 /\ (snd q = 1 \/ snd q = w - 2)) /\
   mem_cell h w xg xb cg cb q = Wall).
Proof.
  intros Hh Hw Sides. unfold mem_cell.
  destruct (pos_eqb (h - 2, w - 2) q) eqn:A1; [apply pos_eqb_pair in A1; left; intuition|]. apply pos_eqb_pair_false in A1.
  destruct (pos_eqb (h - 2, 1) q) eqn:A2; [apply pos_eqb_pair in A2; left; intuition|]. apply pos_eqb_pair_false in A2.
  destruct (pos_eqb (1, xb) q) eqn:A3; [apply pos_eqb_pair in A3; right; left; intuition|]. apply pos_eqb_pair_false in A3.
  destruct (pos_eqb (1, xg) q) eqn:A4; [apply pos_eqb_pair in A4; right; right; left; intuition|]. apply pos_eqb_pair_false in A4.
  destruct (on_corridor h w q) eqn:C; [right; right; right; left; auto|].
  right; right; right; right. split; [reflexivity|]. split; [lia|]. split; [lia|]. reflexivity.
Qed.

Theorem memory_wf h w cs own r : 5 <= h -> 5 <= w -> w mod 2 = 1 -> NoDup cs -> ~ In 0 cs -> (2 <= length cs)%nat ->
  Leaf (reset_memory h w cs own) r -> exists s, r = Ok s /\ wf_check (PMemory h w cs) s = true.
Proof.
  intros Hh Hw Hodd Ncs H0 Hlen HL.
  destruct (memory_outcome h w cs own r Hh Hw Hodd Ncs H0 Hlen HL) as (g & cg & cb & xg & xb & -> & W & Eh & Ew & Hcg & Hcb & Hgb & Sides & L).
  eexists; split; [reflexivity|].
  assert (IG : forall q, in_grid g q = true <-> 0 <= fst q < h /\ 0 <= snd q < w) by (intros q; rewrite in_grid_spec, Eh, Ew; tauto).
  pose proof (mid_bounds h Hh) as Hhm. pose proof (mid_bounds w Hw) as Hwm.
  assert (CELL := fun q => mem_cell_cases h w xg xb cg cb q Hh Hw Sides).
  unfold wf_check.
  assert (C : common_ok (mkS g (h / 2, w / 2) FORWARD NoneObj) h w = true).
  { unfold common_ok, shape_is, agent_ok. cbn [sgrid spos sheld]. rewrite !andb_true_iff.
    assert (Ia : in_grid g (h / 2, w / 2) = true) by (apply IG; cbn [fst snd]; lia).
    assert (Hcell : lookupH g (h / 2, w / 2) = Floor).
    { rewrite (L _ Ia). destruct (CELL (h / 2, w / 2)) as [(E & _)|[(E & _)|[(E & _)|[(_ & E)|(E & _)]]]]; cbn [fst snd] in *; try lia; auto.
      exfalso. unfold on_corridor in E. cbn [fst snd] in E. lia. }
    repeat split.
    - now apply wf_gridb_spec.
    - now apply Z.eqb_eq.
    - now apply Z.eqb_eq.
    - unfold border_walls. apply forallb_forall. intros q Hq. apply border_In in Hq. unfold garea in Hq. cbn [ymin ymax xmin xmax] in Hq. rewrite Eh, Ew in Hq.
      assert (Iq : in_grid g q = true) by (apply IG; lia). rewrite (L q Iq).
      destruct (CELL q) as [(E & E' & _)|[(E & E' & _)|[(E & E' & _)|[(E & _)|(_ & _ & _ & E)]]]]; try lia.
      + exfalso. unfold on_corridor in E. lia.
      + rewrite E. vm_compute. reflexivity.
    - exact Ia.
    - rewrite Hcell. vm_compute. reflexivity.
    - rewrite Hcell. vm_compute. reflexivity.
    - rewrite Hcell. vm_compute. reflexivity.
    - rewrite Hcell. vm_compute. reflexivity. }
  rewrite C. cbn [andb].
  assert (Exits : forall q, In q (cells_at g (is_ty ty_Exit)) <-> q = (1, 1) \/ q = (1, w - 2)).
  { intros q. rewrite cells_at_In. split.
    - intros [Iq Hq]. rewrite (L q Iq) in Hq.
      destruct (CELL q) as [(_ & _ & E)|[(E1 & E2 & _)|[(E1 & E2 & _)|[(_ & E)|(_ & _ & _ & E)]]]]; try (rewrite E in Hq; vm_compute in Hq; discriminate);
        destruct q as [y x]; cbn [fst snd] in *; subst y x; destruct Sides as [[-> ->]|[-> ->]]; auto.
    - intros Hq. assert (Iq : in_grid g q = true) by (destruct Hq as [->| ->]; apply IG; cbn [fst snd]; lia). split; auto. rewrite (L q Iq).
      destruct (CELL q) as [(E & _)|[(_ & _ & E)|[(_ & _ & E)|[(E & _)|(_ & _ & N & _)]]]]; try (rewrite E; vm_compute; reflexivity).
      + destruct Hq; subst q; cbn [fst snd] in E; lia.
      + exfalso. unfold on_corridor in E. destruct Hq; subst q; cbn [fst snd] in E; lia.
      + exfalso. apply N. destruct Hq; subst q; cbn [fst snd]; lia. }
  assert (Beacons : forall q, In q (cells_at g (is_ty ty_Beacon)) <-> q = (h - 2, 1) \/ q = (h - 2, w - 2)).
  { intros q. rewrite cells_at_In. split.
    - intros [Iq Hq]. rewrite (L q Iq) in Hq.
      destruct (CELL q) as [(E1 & E2 & _)|[(_ & _ & E)|[(_ & _ & E)|[(_ & E)|(_ & _ & _ & E)]]]]; try (rewrite E in Hq; vm_compute in Hq; discriminate).
      destruct q as [y x]; cbn [fst snd] in *; subst y; destruct E2; subst x; auto.
    - intros Hq. assert (Iq : in_grid g q = true) by (destruct Hq as [->| ->]; apply IG; cbn [fst snd]; lia). split; auto. rewrite (L q Iq).
      destruct (CELL q) as [(_ & _ & E)|[(E & _)|[(E & _)|[(E & _)|(_ & N & _)]]]]; try (rewrite E; vm_compute; reflexivity).
      + destruct Hq; subst q; cbn [fst snd] in E; lia.
      + destruct Hq; subst q; cbn [fst snd] in E; lia.
      + exfalso. unfold on_corridor in E. destruct Hq; subst q; cbn [fst snd] in E; lia.
      + exfalso. apply N. destruct Hq; subst q; cbn [fst snd]; lia. }
  assert (Look : forall y x, 0 <= y < h -> 0 <= x < w -> lookupH g (y, x) = mem_cell h w xg xb cg cb (y, x)) by (intros y x Hy Hx; apply L, IG; cbn [fst snd]; lia).
  assert (Lg : lookupH g (1, xg) = Exit cg).
  { rewrite Look by lia. destruct (CELL (1, xg)) as [(E & _)|[(_ & E & _)|[(_ & _ & E)|[(E & _)|(_ & _ & N & _)]]]]; cbn [fst snd] in *; try lia; auto;
      exfalso; first [unfold on_corridor in E; cbn [fst snd] in E; lia | apply N; lia]. }
  assert (Lb : lookupH g (1, xb) = Exit cb).
  { rewrite Look by lia. destruct (CELL (1, xb)) as [(E & _)|[(_ & _ & E)|[(_ & E & _)|[(E & _)|(_ & _ & N & _)]]]]; cbn [fst snd] in *; try lia; auto;
      exfalso; first [unfold on_corridor in E; cbn [fst snd] in E; lia | apply N; lia]. }
  assert (Lb1 : lookupH g (h - 2, 1) = Beacon cg).
  { rewrite Look by lia. destruct (CELL (h - 2, 1)) as [(_ & _ & E)|[(E & _)|[(E & _)|[(E & _)|(_ & N & _)]]]]; cbn [fst snd] in *; try lia; auto;
      exfalso; first [unfold on_corridor in E; cbn [fst snd] in E; lia | apply N; lia]. }
  assert (Lb2 : lookupH g (h - 2, w - 2) = Beacon cg).
  { rewrite Look by lia. destruct (CELL (h - 2, w - 2)) as [(_ & _ & E)|[(E & _)|[(E & _)|[(E & _)|(_ & N & _)]]]]; cbn [fst snd] in *; try lia; auto;
      exfalso; first [unfold on_corridor in E; cbn [fst snd] in E; lia | apply N; lia]. }
  assert (Mg : memZ cg cs = true) by (apply (proj2 (memZ_In cg cs)); exact Hcg). assert (Mb : memZ cb cs = true) by (apply (proj2 (memZ_In cb cs)); exact Hcb).
  assert (Ngb : (cg =? cb) = false) by now apply Z.eqb_neq. assert (Nbg : (cb =? cg) = false) by (apply Z.eqb_neq; auto).
  unfold memory_ok. cbn [sgrid].
  destruct (two_cells g _ (1, 1) (1, w - 2) ltac:(intros E; injection E; lia) Exits) as [-> | ->];
  destruct (two_cells g _ (h - 2, 1) (h - 2, w - 2) ltac:(intros E; injection E; lia) Beacons) as [-> | ->];
  cbn [map]; rewrite Lb1, Lb2; destruct Sides as [[-> ->]|[-> ->]]; rewrite Lg, Lb; cbn [ocol Exit Beacon length map forallb filter all_distinct nodupb existsb];
  rewrite ?Mg, ?Mb, ?Ngb, ?Nbg, ?Z.eqb_refl; cbn [length negb andb orb filter]; rewrite ?Ngb, ?Nbg, ?Z.eqb_refl; reflexivity.
Qed.
