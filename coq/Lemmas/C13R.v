(* C13, general part (continued): `rooms` never produces an ill-formed state, for EVERY shape and EVERY pair of split lists that start at 0
   and end at the last row / column (what the layout's linspace gives), and every random outcome: ValueError, or a state with the requested
   shape, an unbroken wall boundary, exactly one exit, the agent empty-handed on a floor cell. *)
From Coq Require Import ZArith List Bool Lia Permutation ZifyBool.
From GV.Model Require Import Check.
From GV.Lemmas Require Import GridL RotL RandL GeomL BfsL C02L C13W C13M C13X.
Import ListNotations.
Open Scope Z_scope.

Lemma fold_min_spec a : forall l d, (forall y, In y l -> a <= y) -> a <= d -> (In a l \/ d = a) -> fold_right Z.min d l = a.
Proof.
  induction l as [|x t IH]; intros d Hl Hd Hin; cbn [fold_right].
  - destruct Hin as [[] | ->]. reflexivity.
  - assert (Hx : a <= x) by (apply Hl; left; auto).
    destruct (Z.eq_dec x a) as [->|Nx].
    + assert (a <= fold_right Z.min d t).
      { clear IH Hin. induction t as [|z t IHt]; cbn [fold_right]; [exact Hd|]. assert (a <= z) by (apply Hl; right; left; auto).
        assert (a <= fold_right Z.min d t) by (apply IHt; intros y [->|Hy]; [apply Hl; left; auto | apply Hl; right; right; auto]). lia. }
      lia.
    + rewrite (IH d); [lia | intros y Hy; apply Hl; right; auto | exact Hd |]. destruct Hin as [[E|Hin]|E]; [congruence | left; exact Hin | right; exact E].
Qed.
Lemma fold_max_spec a : forall l d, (forall y, In y l -> y <= a) -> d <= a -> (In a l \/ d = a) -> fold_right Z.max d l = a.
Proof.
  induction l as [|x t IH]; intros d Hl Hd Hin; cbn [fold_right].
  - destruct Hin as [[] | ->]. reflexivity.
  - assert (Hx : x <= a) by (apply Hl; left; auto).
    destruct (Z.eq_dec x a) as [->|Nx].
    + assert (fold_right Z.max d t <= a).
      { clear IH Hin. induction t as [|z t IHt]; cbn [fold_right]; [exact Hd|]. assert (z <= a) by (apply Hl; right; left; auto).
        assert (fold_right Z.max d t <= a) by (apply IHt; intros y [->|Hy]; [apply Hl; left; auto | apply Hl; right; right; auto]). lia. }
      lia.
    + rewrite (IH d); [lia | intros y Hy; apply Hl; right; auto | exact Hd |]. destruct Hin as [[E|Hin]|E]; [congruence | left; exact Hin | right; exact E].
Qed.
Lemma pairwise_In a b : forall l, In (a, b) (pairwise l) -> In a l /\ In b l.
Proof.
  induction l as [|x [|y t] IH]; cbn [pairwise]; intros H; try (destruct H; fail).
  destruct H as [E|H]; [injection E as -> ->; split; [left; auto | right; left; auto]|].
  destruct (IH H) as [H1 H2]. split; right; auto.
Qed.

Section Rooms.
Variables (h w : Z) (ym xm : list Z).
Hypotheses (Hh : 2 <= h) (Hw : 2 <= w) (Hym : forall y, In y ym -> 1 <= y <= h - 2) (Hxm : forall x, In x xm -> 1 <= x <= w - 2).
Let ysp := 0 :: ym ++ [h - 1].
Let xsp := 0 :: xm ++ [w - 1].

Lemma ysp_In y : In y ysp <-> y = 0 \/ In y ym \/ y = h - 1.
Proof. unfold ysp. cbn [In]. rewrite in_app_iff. cbn [In]. intuition. Qed.
Lemma xsp_In x : In x xsp <-> x = 0 \/ In x xm \/ x = w - 1.
Proof. unfold xsp. cbn [In]. rewrite in_app_iff. cbn [In]. intuition. Qed.
Lemma ysp_range y : In y ysp -> 0 <= y <= h - 1.
Proof. rewrite ysp_In. intros [-> | [H | ->]]; [lia | apply Hym in H; lia | lia]. Qed.
Lemma xsp_range x : In x xsp -> 0 <= x <= w - 1.
Proof. rewrite xsp_In. intros [-> | [H | ->]]; [lia | apply Hxm in H; lia | lia]. Qed.
Lemma zmin_ysp : zmin ysp = 0. Proof. unfold zmin. apply fold_min_spec; [intros y Hy; apply ysp_range in Hy; lia | cbn; lia | left; left; reflexivity]. Qed.
Lemma zmax_ysp : zmax ysp = h - 1.
Proof. unfold zmax. apply fold_max_spec; [intros y Hy; apply ysp_range in Hy; lia | cbn; lia | left; apply ysp_In; auto]. Qed.
Lemma zmin_xsp : zmin xsp = 0. Proof. unfold zmin. apply fold_min_spec; [intros y Hy; apply xsp_range in Hy; lia | cbn; lia | left; left; reflexivity]. Qed.
Lemma zmax_xsp : zmax xsp = w - 1.
Proof. unfold zmax. apply fold_max_spec; [intros y Hy; apply xsp_range in Hy; lia | cbn; lia | left; apply xsp_In; auto]. Qed.
Lemma inner_ysp : Reset.inner ysp = ym. Proof. unfold Reset.inner, ysp. cbn [tl]. apply removelast_last. Qed.
Lemma inner_xsp : Reset.inner xsp = xm. Proof. unfold Reset.inner, xsp. cbn [tl]. apply removelast_last. Qed.

(* what every intermediate grid satisfies: the boundary is wall, there is no exit *)
Record rinv (g : grid) : Prop := {
  ri_wf : wf_grid g; ri_h : gheight g = h; ri_w : gwidth g = w;
  ri_border : forall q, in_grid g q = true -> is_border h w q = true -> lookupH g q = Wall;
  ri_noexit : forall q, in_grid g q = true -> is_ty ty_Exit (lookupH g q) = false }.
Lemma rinv_in_grid g q : rinv g -> (in_grid g q = true <-> 0 <= fst q < h /\ 0 <= snd q < w).
Proof. intros C. rewrite in_grid_spec, (ri_h _ C), (ri_w _ C). tauto. Qed.
Lemma rinv_set g q : rinv g -> 1 <= fst q <= h - 2 -> 1 <= snd q <= w - 2 -> rinv (gset g q Floor).
Proof.
  intros C S1 S2. assert (Iq : in_grid g q = true) by (apply (rinv_in_grid g q C); lia).
  constructor.
  - apply wf_gset, (ri_wf _ C).
  - rewrite gheight_gset. apply (ri_h _ C).
  - rewrite gwidth_gset. apply (ri_w _ C).
  - intros p Ip Bp. rewrite in_grid_gset in Ip. rewrite lookupH_gset_other; [now apply (ri_border _ C)|].
    intros ->. unfold is_border in Bp. rewrite !orb_true_iff, !Z.eqb_eq in Bp. lia.
  - intros p Ip. rewrite in_grid_gset in Ip. rewrite (lookupH_gset g q p Floor (ri_wf _ C) Iq). destruct (pos_eqb q p); [vm_compute; reflexivity | now apply (ri_noexit _ C)].
Qed.

(* the walls *)
Lemma room_grid_rinv : exists g1, draw_room_grid (grid_from_shape h w Floor) ysp xsp Wall = Ok g1 /\ rinv g1.
Proof.
  destruct (blank_grid h w Floor ltac:(lia) ltac:(lia)) as (W0 & Eh0 & Ew0 & L0).
  set (g0 := grid_from_shape h w Floor) in *.
  assert (IG0 : forall q, in_grid g0 q = true <-> 0 <= fst q < h /\ 0 <= snd q < w) by (intros q; rewrite in_grid_spec, Eh0, Ew0; tauto).
  unfold draw_room_grid. rewrite zmin_ysp, zmax_ysp, zmin_xsp, zmax_xsp.
  set (ps1 := cartesian ysp (zrange 0 (w - 1 + 1))). set (ps2 := cartesian (filter (fun y => negb (memZ y ysp)) (zrange 0 (h - 1 + 1))) xsp).
  assert (H1 : forall q, In q ps1 <-> In (fst q) ysp /\ 0 <= snd q <= w - 1) by (intros q; unfold ps1, cartesian; rewrite cartesian_In, zrange_In; intuition lia).
  assert (H2 : forall q, In q ps2 <-> (0 <= fst q <= h - 1 /\ ~ In (fst q) ysp) /\ In (snd q) xsp).
  { intros q. unfold ps2, cartesian. rewrite cartesian_In, filter_In, zrange_In, negb_true_iff. rewrite <- (memZ_In (fst q) ysp).
    destruct (memZ (fst q) ysp); intuition (try lia; try congruence). }
  destruct (draw_spec ps1 g0 Wall W0) as (ga & Ea & Wa & Eha & Ewa & La).
  { intros q Hq. apply H1 in Hq. destruct Hq as [Hy Hx]. apply ysp_range in Hy. apply IG0. lia. }
  rewrite Ea. cbn [rbind].
  assert (IGa : forall q, in_grid ga q = in_grid g0 q) by (intros q; unfold in_grid, garea; now rewrite Eha, Ewa).
  destruct (draw_spec ps2 ga Wall Wa) as (gb & Eb & Wb & Ehb & Ewb & Lb).
  { intros q Hq. apply H2 in Hq. destruct Hq as [[Hy _] Hx]. apply xsp_range in Hx. rewrite IGa. apply IG0. lia. }
  exists gb. split; [exact Eb|].
  assert (IGb : forall q, in_grid gb q = in_grid g0 q) by (intros q; rewrite <- IGa; unfold in_grid, garea; now rewrite Ehb, Ewb).
  assert (L : forall q, in_grid g0 q = true -> lookupH gb q = if memP q ps2 || memP q ps1 then Wall else Floor).
  { intros q Iq. rewrite Lb, IGa, Iq. destruct (memP q ps2); [reflexivity|]. rewrite La, Iq. destruct (memP q ps1); [reflexivity|]. cbn [orb]. now apply L0. }
  constructor; try congruence.
  - intros q Iq Bq. rewrite IGb in Iq. rewrite (L q Iq). replace (memP q ps2 || memP q ps1) with true; [reflexivity|]. symmetry.
    apply IG0 in Iq. unfold is_border in Bq. rewrite !orb_true_iff, !Z.eqb_eq in Bq. apply orb_true_iff.
    destruct (in_dec Z.eq_dec (fst q) ysp) as [Hy|Hy].
    + right. apply memP_iff, H1. split; [exact Hy | lia].
    + left. apply memP_iff, H2. split; [split; [lia | exact Hy]|]. apply xsp_In. rewrite ysp_In in Hy. intuition lia.
  - intros q Iq. rewrite IGb in Iq. rewrite (L q Iq). destruct (memP q ps2 || memP q ps1); vm_compute; reflexivity.
Qed.

(* the passages *)
Lemma openings_inv gl row : forall jobs g, rinv g ->
  (forall c lo hi, In (c, (lo, hi)) jobs -> (row = true -> 1 <= c <= h - 2 /\ 0 <= lo /\ hi <= w - 1) /\ (row = false -> 1 <= c <= w - 2 /\ 0 <= lo /\ hi <= h - 1)) ->
  forall x, Leaf (openings gl row jobs g) x -> x = Err ValueError \/ exists g', x = Ok g' /\ rinv g'.
Proof.
  induction jobs as [|[c [lo hi]] t IH]; intros g C Hj x HL; cbn [openings] in HL.
  - apply Leaf_Ret in HL. right. eauto.
  - apply Leaf_bind in HL. destruct HL as [(v & Hv & HL)|(e & He & ->)].
    2:{ apply Leaf_rints in He. destruct He as [[_ E]|(i & _ & E)]; [injection E as <-; auto | discriminate]. }
    apply Leaf_rints in Hv. destruct Hv as [[_ E]|(v' & Hr & E)]; [discriminate|]. injection E as <-.
    specialize (Hj c lo hi (or_introl eq_refl)) as Hc.
    set (q := if row then (c, v) else (v, c)) in *.
    assert (Sq : 1 <= fst q <= h - 2 /\ 1 <= snd q <= w - 2) by (unfold q; destruct Hc as [Hc1 Hc2]; destruct row; [specialize (Hc1 eq_refl) | specialize (Hc2 eq_refl)]; cbn [fst snd]; lia).
    assert (Iq : in_grid g q = true) by (apply (rinv_in_grid g q C); lia).
    assert (Eg : grid_set g (if row then (c, v) else (v, c)) Floor = Ok (gset g q Floor)) by (apply grid_set_in; [apply C | exact Iq]).
    rewrite Eg in HL. cbn [lift bind] in HL.
    apply (IH (gset g q Floor)); [apply rinv_set; tauto | intros c' lo' hi' H'; apply Hj; right; exact H' | exact HL].
Qed.

Theorem rooms_grid_inv gl x : Leaf (rooms_grid h w ysp xsp gl) x -> x = Err ValueError \/ exists g, x = Ok g /\ rinv g.
Proof.
  unfold rooms_grid. intros HL.
  destruct (negb (nodupb ysp)); [apply Leaf_Raise in HL; auto|]. destruct (negb (nodupb xsp)); [apply Leaf_Raise in HL; auto|].
  destruct room_grid_rinv as (g1 & E1 & C1). rewrite E1 in HL. cbn [lift bind] in HL. rewrite inner_ysp, inner_xsp in HL.
  set (jobs1 := flat_map (fun y => map (fun pr => (y, pr)) (pairwise xsp)) ym) in *.
  set (jobs2 := flat_map (fun pr => map (fun x0 => (x0, pr)) xm) (pairwise ysp)) in *.
  assert (J1 : forall c lo hi, In (c, (lo, hi)) jobs1 -> (true = true -> 1 <= c <= h - 2 /\ 0 <= lo /\ hi <= w - 1) /\ (true = false -> 1 <= c <= w - 2 /\ 0 <= lo /\ hi <= h - 1)).
  { intros c lo hi Hin. apply in_flat_map in Hin. destruct Hin as (y & Hy & Hin). apply in_map_iff in Hin. destruct Hin as ([a b] & E & Hp). injection E as <- <- <-.
    apply pairwise_In in Hp. destruct Hp as [Ha Hb]. apply xsp_range in Ha, Hb. apply Hym in Hy. split; [intros _; lia | discriminate]. }
  assert (J2 : forall c lo hi, In (c, (lo, hi)) jobs2 -> (false = true -> 1 <= c <= h - 2 /\ 0 <= lo /\ hi <= w - 1) /\ (false = false -> 1 <= c <= w - 2 /\ 0 <= lo /\ hi <= h - 1)).
  { intros c lo hi Hin. apply in_flat_map in Hin. destruct Hin as ([a b] & Hp & Hin). apply in_map_iff in Hin. destruct Hin as (x' & E & Hx'). injection E as <- <- <-.
    apply pairwise_In in Hp. destruct Hp as [Ha Hb]. apply ysp_range in Ha, Hb. apply Hxm in Hx'. split; [discriminate | intros _; lia]. }
  apply Leaf_bind in HL. destruct HL as [(g2 & Hg2 & HL)|(e & He & ->)].
  - destruct (openings_inv gl true jobs1 g1 C1 J1 _ Hg2) as [E|(g' & E & C2)]; [discriminate|]. injection E as <-.
    exact (openings_inv gl false jobs2 g2 C2 J2 _ HL).
  - destruct (openings_inv gl true jobs1 g1 C1 J1 _ He) as [E|(g' & E & _)]; [injection E as ->; auto | discriminate].
Qed.

Theorem rooms_wf own r : Leaf (reset_rooms h w ysp xsp own) r -> r = Err ValueError \/ exists s, r = Ok s /\ wf_check (PRooms h w ysp xsp) s = true.
Proof.
  unfold reset_rooms. intros HL.
  apply Leaf_bind in HL. destruct HL as [(g & Hg & HL)|(e & He & ->)].
  2:{ destruct (rooms_grid_inv _ _ He) as [E|(g' & E & _)]; [injection E as ->; auto | discriminate]. }
  destruct (rooms_grid_inv _ _ Hg) as [E|(g' & E & C)]; [discriminate|]. injection E as <-.
  unfold floor_positions in HL. rewrite (positions_where_ok g _ (gpositions g) (ri_wf _ C)) in HL by (intros q Hq; now apply gpositions_In). cbn [lift bind] in HL.
  set (fl := filter (fun p => is_ty ty_Floor (lookupH g p)) (gpositions g)) in *.
  assert (Nfl : NoDup fl) by (apply NoDup_filter, gpositions_NoDup).
  apply Leaf_bind in HL. destruct HL as [(two & Htwo & HL)|(e & He & ->)].
  2:{ apply rchoices_leaf in He. destruct He as [E|(idx & E & _)]; [injection E as ->; auto | discriminate]. }
  apply rchoices_leaf in Htwo. destruct Htwo as [E|(idx & E & Hlen & Hr & Nd)]; [discriminate|]. injection E as ->.
  destruct (sampled_spec fl (0, 0) idx Nfl Hr Nd) as (Hin & Nps & _).
  destruct idx as [|i [|j [|? ?]]]; cbn [length] in Hlen; try lia. cbn [map] in *.
  set (pa := nthZ fl i (0, 0)) in *. set (pe := nthZ fl j (0, 0)) in *.
  assert (Hpa : In pa fl) by (apply Hin; left; auto). assert (Hpe : In pe fl) by (apply Hin; right; left; auto).
  assert (Hne : pa <> pe) by (inversion Nps as [|? ? Hn _]; subst; intros E; apply Hn; left; auto).
  apply filter_In in Hpa, Hpe. destruct Hpa as [Ia Fa], Hpe as [Ie Fe]. apply gpositions_In in Ia, Ie.
  apply Leaf_bind in HL. destruct HL as [(oa & _ & HL)|(e & He & ->)].
  2:{ destruct (rchoice_of_leaf _ all_oris FORWARD _ ltac:(vm_compute; discriminate) He) as (a & E & _). discriminate. }
  rewrite (grid_set_in g pe _ (ri_wf _ C) Ie) in HL. cbn [lift bind] in HL. apply Leaf_Ret in HL. subst r. right. eexists; split; [reflexivity|].
  destruct ty_distinct_holds as (D1 & D2 & D3 & D4 & D5).
  assert (Floor_of : forall q, is_ty ty_Floor (lookupH g q) = true -> oty (lookupH g q) = ty_Floor) by (intros q Hq; unfold is_ty in Hq; now apply Z.eqb_eq in Hq).
  assert (Nb : forall q, in_grid g q = true -> is_ty ty_Floor (lookupH g q) = true -> is_border h w q = false).
  { intros q Iq Fq. destruct (is_border h w q) eqn:B; [|reflexivity]. rewrite (ri_border _ C q Iq B) in Fq. unfold is_ty, Wall, mk0 in Fq. cbn [oty] in Fq. apply Z.eqb_eq in Fq. congruence. }
  unfold wf_check, common_ok, shape_is, agent_ok. cbn [sgrid spos sheld]. rewrite !andb_true_iff.
  assert (La : lookupH (gset g pe (Exit 0)) pa = lookupH g pa) by (apply lookupH_gset_other; auto).
  assert (Ha : oty (lookupH g pa) = ty_Floor) by (apply Floor_of; exact Fa).
  repeat split.
  - apply wf_gridb_spec, wf_gset, (ri_wf _ C).
  - rewrite gheight_gset. apply Z.eqb_eq, (ri_h _ C).
  - rewrite gwidth_gset. apply Z.eqb_eq, (ri_w _ C).
  - unfold border_walls. apply forallb_forall. intros q Hq. apply border_In in Hq. unfold garea in Hq. cbn [ymin ymax xmin xmax] in Hq.
    rewrite gheight_gset, gwidth_gset, (ri_h _ C), (ri_w _ C) in Hq.
    assert (Iq : in_grid g q = true) by (apply (rinv_in_grid g q C); lia).
    assert (Bq : is_border h w q = true) by (unfold is_border; rewrite !orb_true_iff, !Z.eqb_eq; lia).
    rewrite lookupH_gset_other; [rewrite (ri_border _ C q Iq Bq); vm_compute; reflexivity|]. intros <-. rewrite (Nb pe Ie Fe) in Bq. discriminate.
  - rewrite in_grid_gset. exact Ia.
  - rewrite La. unfold o_blocks_movement. rewrite Ha. destruct (lookupH g pa) as [ty st col cnt]. cbn [oty ost] in *. subst ty.
    (* a Floor never blocks movement, whatever its (unused) status *) unfold blocks_movement. vm_compute. reflexivity.
  - rewrite La. unfold is_ty. rewrite Ha. apply negb_true_iff, Z.eqb_neq. congruence.
  - rewrite La. unfold is_ty. rewrite Ha. apply negb_true_iff, Z.eqb_neq. congruence.
  - rewrite La. unfold is_ty. rewrite Ha. apply negb_true_iff, Z.eqb_neq. congruence.
  - apply Z.eqb_eq. unfold countb. rewrite (cells_at_single _ _ pe); [reflexivity|]. intros q. rewrite cells_at_In, in_grid_gset. split.
    + intros [Iq Hq]. rewrite (lookupH_gset g pe q _ (ri_wf _ C) Ie) in Hq. destruct (pos_eqb pe q) eqn:E; [apply pos_eqb_iff in E; auto|].
      rewrite (ri_noexit _ C q Iq) in Hq. discriminate.
    + intros ->. split; [exact Ie|]. rewrite (lookupH_gset_same g pe _ (ri_wf _ C) Ie). vm_compute. reflexivity.
Qed.
End Rooms.
