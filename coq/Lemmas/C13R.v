(* C13, general part (continued): `rooms` never produces an ill-formed state, for EVERY shape and EVERY pair of split lists that start at 0
   and end at the last row / column (what the layout's linspace gives), and every random outcome: ValueError, or a state with the requested
   shape, an unbroken wall boundary, exactly one exit, the agent empty-handed on a floor cell. *)
From Coq Require Import ZArith List Bool Lia Permutation ZifyBool.
From GV.Model Require Import Check.
From GV.Lemmas Require Import GridL RotL RandL GeomL BfsL C02L C13W C13M C13X.
Import ListNotations.
Open Scope Z_scope.

Lemma fold_min_spec a : forall l d, (forall y, In y l -> a <= y) -> a <= d -> (In a l \/ d = a) -> fold_right Z.min d l = a.
Proof.
  induction l as [|x t IH]; intros d Hl Hd Hin; cbn [fold_right].
  - destruct Hin as [[] | ->]. reflexivity.
  - assert (Hx : a <= x) by (apply Hl; left; auto).
    destruct (Z.eq_dec x a) as [->|Nx].
    + assert (a <= fold_right Z.min d t).
      { clear IH Hin. induction t as [|z t IHt]; cbn [fold_right]; [exact Hd|]. assert (a <= z) by (apply Hl; right; left; auto).
        assert (a <= fold_right Z.min d t) by (apply IHt; intros y [->|Hy]; [apply Hl; left; auto | apply Hl; right; right; auto]). lia. }
      lia.
    + rewrite (IH d); [lia | intros y Hy; apply Hl; right; auto | exact Hd |]. destruct Hin as [[E|Hin]|E]; [congruence | left; exact Hin | right; exact E].
Qed.
Lemma fold_max_spec a : forall l d, (forall y, In y l -> y <= a) -> d <= a -> (In a l \/ d = a) -> fold_right Z.max d l = a.
Proof.
  induction l as [|x t IH]; intros d Hl Hd Hin; cbn [fold_right].
  - destruct Hin as [[] | ->]. reflexivity.
  - assert (Hx : x <= a) by (apply Hl; left; auto).
    destruct (Z.eq_dec x a) as [->|Nx].
    + assert (fold_right Z.max d t <= a).
      { clear IH Hin. induction t as [|z t IHt]; cbn [fold_right]; [exact Hd|]. assert (z <= a) by (apply Hl; right; left; auto).
        assert (fold_right Z.max d t <= a) by (apply IHt; intros y [->|Hy]; [apply Hl; left; auto | apply Hl; right; right; auto]). lia. }
      lia.
    + rewrite (IH d); [lia | intros y Hy; apply Hl; right; auto | exact Hd |]. destruct Hin as [[E|Hin]|E]; [congruence | left; exact Hin | right; exact E].
Qed.
Lemma pairwise_In a b : forall l, In (a, b) (pairwise l) -> In a l /\ In b l.
Proof.
  induction l as [|x [|y t] IH]; cbn [pairwise]; intros H; try (destruct H; fail).
  destruct H as [E|H]; [injection E as -> ->; split; [left; auto | right; left; auto]|].
  destruct (IH H) as [H1 H2]. split; right; auto.
Qed.

(* ---------- helpers for memory_rooms ---------- *)
Lemma NoDup_nodupb l : NoDup l -> nodupb l = true.
Proof.
  induction 1 as [|x t Hn Hd IH]; cbn [nodupb]; [reflexivity|]. rewrite IH, andb_true_r. apply negb_true_iff. apply not_true_is_false. intros E.
  apply existsb_exists in E. destruct E as (y & Hy & E). apply Z.eqb_eq in E. subst. contradiction.
Qed.
Lemma filter_length_perm {A} (f : A -> bool) l l' : Permutation l l' -> length (filter f l) = length (filter f l').
Proof. induction 1; cbn [filter]; auto; try (destruct (f x); cbn [length]; auto); try (destruct (f y), (f x); cbn [length]; auto); congruence. Qed.
Lemma filter_none x l : ~ In x l -> filter (Z.eqb x) l = [].
Proof. induction l as [|z t IH]; intros H; [reflexivity|]. cbn [filter]. destruct (Z.eqb_spec x z) as [->|_]; [exfalso; apply H; left; auto | apply IH; intros H'; apply H; right; auto]. Qed.
Lemma filter_eq_one x l : NoDup l -> In x l -> length (filter (Z.eqb x) l) = 1%nat.
Proof.
  induction 1 as [|y t Hn Hd IH]; intros Hin; [destruct Hin|]. cbn [filter]. destruct (Z.eqb_spec x y) as [->|Ne].
  - cbn [length]. rewrite (filter_none y t Hn). reflexivity.
  - apply IH. destruct Hin as [E|Hin]; [congruence | exact Hin].
Qed.
Lemma pos_eq_dec (a b : pos) : {a = b} + {a <> b}.
Proof. decide equality; apply Z.eq_dec. Qed.
(* drawing a different object on each of a list of distinct in-grid cells *)
Lemma draw_zip_spec : forall ps os g, wf_grid g -> NoDup ps -> length ps = length os -> (forall p, In p ps -> in_grid g p = true) ->
  exists g', draw_zip g ps os = Ok g' /\ wf_grid g' /\ gheight g' = gheight g /\ gwidth g' = gwidth g /\
             (forall k d d', (k < length ps)%nat -> lookupH g' (nth k ps d) = nth k os d') /\ (forall q, ~ In q ps -> lookupH g' q = lookupH g q).
Proof.
  induction ps as [|p t IH]; intros os g W Nd Hl Hin.
  - exists g. cbn [draw_zip]. destruct os; split; try reflexivity; split; try exact W; split; try reflexivity; split; try reflexivity; split; cbn [length]; intros; try lia; reflexivity.
  - destruct os as [|o ot]; [discriminate Hl|]. cbn [draw_zip].
    assert (Hp : in_grid g p = true) by (apply Hin; left; auto). rewrite (grid_set_in g p o W Hp). cbn [rbind].
    inversion Nd as [|? ? Hn Hd]; subst.
    destruct (IH ot (gset g p o) (wf_gset g p o W) Hd ltac:(cbn [length] in Hl; lia)) as (g' & E & W' & Eh & Ew & L1 & L2).
    { intros q Hq. rewrite in_grid_gset. apply Hin. right; auto. }
    exists g'. rewrite E, Eh, Ew, gheight_gset, gwidth_gset. split; [reflexivity|]. split; [exact W'|]. split; [reflexivity|]. split; [reflexivity|]. split.
    + intros k d d' Hk. destruct k as [|k]; cbn [nth].
      * rewrite (L2 p Hn). now apply lookupH_gset_same.
      * apply L1. cbn [length] in Hk. lia.
    + intros q Hq. rewrite L2 by (intros H; apply Hq; right; auto). apply lookupH_gset_other. intros ->. apply Hq. left; auto.
Qed.
Lemma NoDup_app_inv {A} (l1 l2 : list A) : NoDup (l1 ++ l2) -> NoDup l1 /\ NoDup l2 /\ (forall x, In x l1 -> ~ In x l2).
Proof.
  induction l1 as [|a t IH]; cbn [app]; intros Nd; [split; [constructor | split; [exact Nd | intros x []]]|].
  inversion Nd as [|? ? Hn Hd]; subst. destruct (IH Hd) as (N1 & N2 & Dis). split; [|split; [exact N2|]].
  - constructor; [intros H; apply Hn, in_or_app; left; exact H | exact N1].
  - intros x [->|Hx] H2; [apply Hn, in_or_app; right; exact H2 | exact (Dis x Hx H2)].
Qed.
Lemma firstn_skipn_NoDup {A} n (l : list A) : NoDup l -> NoDup (firstn n l) /\ NoDup (skipn n l) /\ (forall x, In x (firstn n l) -> ~ In x (skipn n l)).
Proof. intros Nd. rewrite <- (firstn_skipn n l) in Nd. now apply NoDup_app_inv. Qed.

Section Rooms.
Variables (h w : Z) (ym xm : list Z).
Hypotheses (Hh : 2 <= h) (Hw : 2 <= w) (Hym : forall y, In y ym -> 1 <= y <= h - 2) (Hxm : forall x, In x xm -> 1 <= x <= w - 2).
Let ysp := 0 :: ym ++ [h - 1].
Let xsp := 0 :: xm ++ [w - 1].

Lemma ysp_In y : In y ysp <-> y = 0 \/ In y ym \/ y = h - 1.
Proof. unfold ysp. cbn [In]. rewrite in_app_iff. cbn [In]. intuition. Qed.
Lemma xsp_In x : In x xsp <-> x = 0 \/ In x xm \/ x = w - 1.
Proof. unfold xsp. cbn [In]. rewrite in_app_iff. cbn [In]. intuition. Qed.
Lemma ysp_range y : In y ysp -> 0 <= y <= h - 1.
Proof. rewrite ysp_In. intros [-> | [H | ->]]; [lia | apply Hym in H; lia | lia]. Qed.
Lemma xsp_range x : In x xsp -> 0 <= x <= w - 1.
Proof. rewrite xsp_In. intros [-> | [H | ->]]; [lia | apply Hxm in H; lia | lia]. Qed.
Lemma zmin_ysp : zmin ysp = 0. Proof. unfold zmin. apply fold_min_spec; [intros y Hy; apply ysp_range in Hy; lia | cbn; lia | left; left; reflexivity]. Qed.
Lemma zmax_ysp : zmax ysp = h - 1.
Proof. unfold zmax. apply fold_max_spec; [intros y Hy; apply ysp_range in Hy; lia | cbn; lia | left; apply ysp_In; auto]. Qed.
Lemma zmin_xsp : zmin xsp = 0. Proof. unfold zmin. apply fold_min_spec; [intros y Hy; apply xsp_range in Hy; lia | cbn; lia | left; left; reflexivity]. Qed.
Lemma zmax_xsp : zmax xsp = w - 1.
Proof. unfold zmax. apply fold_max_spec; [intros y Hy; apply xsp_range in Hy; lia | cbn; lia | left; apply xsp_In; auto]. Qed.
Lemma inner_ysp : Reset.inner ysp = ym. Proof. unfold Reset.inner, ysp. cbn [tl]. apply removelast_last. Qed.
Lemma inner_xsp : Reset.inner xsp = xm. Proof. unfold Reset.inner, xsp. cbn [tl]. apply removelast_last. Qed.

(* what every intermediate grid satisfies: the boundary is wall, there is no exit *)
Record rinv (g : grid) : Prop := {
  ri_wf : wf_grid g; ri_h : gheight g = h; ri_w : gwidth g = w;
  ri_border : forall q, in_grid g q = true -> is_border h w q = true -> lookupH g q = Wall;
  ri_cells : forall q, in_grid g q = true -> lookupH g q = Wall \/ lookupH g q = Floor }.
Lemma ri_noexit g : rinv g -> forall q, in_grid g q = true -> is_ty ty_Exit (lookupH g q) = false.
Proof. intros C q Iq. destruct (ri_cells _ C q Iq) as [-> | ->]; vm_compute; reflexivity. Qed.
Lemma rinv_in_grid g q : rinv g -> (in_grid g q = true <-> 0 <= fst q < h /\ 0 <= snd q < w).
Proof. intros C. rewrite in_grid_spec, (ri_h _ C), (ri_w _ C). tauto. Qed.
Lemma rinv_set g q : rinv g -> 1 <= fst q <= h - 2 -> 1 <= snd q <= w - 2 -> rinv (gset g q Floor).
Proof.
  intros C S1 S2. assert (Iq : in_grid g q = true) by (apply (rinv_in_grid g q C); lia).
  constructor.
  - apply wf_gset, (ri_wf _ C).
  - rewrite gheight_gset. apply (ri_h _ C).
  - rewrite gwidth_gset. apply (ri_w _ C).
  - intros p Ip Bp. rewrite in_grid_gset in Ip. rewrite lookupH_gset_other; [now apply (ri_border _ C)|].
    intros ->. unfold is_border in Bp. rewrite !orb_true_iff, !Z.eqb_eq in Bp. lia.
  - intros p Ip. rewrite in_grid_gset in Ip. rewrite (lookupH_gset g q p Floor (ri_wf _ C) Iq). destruct (pos_eqb q p); [right; reflexivity | now apply (ri_cells _ C)].
Qed.

(* the walls *)
Lemma room_grid_rinv : exists g1, draw_room_grid (grid_from_shape h w Floor) ysp xsp Wall = Ok g1 /\ rinv g1.
Proof.
  destruct (blank_grid h w Floor ltac:(lia) ltac:(lia)) as (W0 & Eh0 & Ew0 & L0).
  set (g0 := grid_from_shape h w Floor) in *.
  assert (IG0 : forall q, in_grid g0 q = true <-> 0 <= fst q < h /\ 0 <= snd q < w) by (intros q; rewrite in_grid_spec, Eh0, Ew0; tauto).
  unfold draw_room_grid. rewrite zmin_ysp, zmax_ysp, zmin_xsp, zmax_xsp.
  set (ps1 := cartesian ysp (zrange 0 (w - 1 + 1))). set (ps2 := cartesian (filter (fun y => negb (memZ y ysp)) (zrange 0 (h - 1 + 1))) xsp).
  assert (H1 : forall q, In q ps1 <-> In (fst q) ysp /\ 0 <= snd q <= w - 1) by (intros q; unfold ps1, cartesian; rewrite cartesian_In, zrange_In; intuition lia).
  assert (H2 : forall q, In q ps2 <-> (0 <= fst q <= h - 1 /\ ~ In (fst q) ysp) /\ In (snd q) xsp).
  { intros q. unfold ps2, cartesian. rewrite cartesian_In, filter_In, zrange_In, negb_true_iff. rewrite <- (memZ_In (fst q) ysp).
    destruct (memZ (fst q) ysp); intuition (try lia; try congruence). }
  destruct (draw_spec ps1 g0 Wall W0) as (ga & Ea & Wa & Eha & Ewa & La).
  { intros q Hq. apply H1 in Hq. destruct Hq as [Hy Hx]. apply ysp_range in Hy. apply IG0. lia. }
  rewrite Ea. cbn [rbind].
  assert (IGa : forall q, in_grid ga q = in_grid g0 q) by (intros q; unfold in_grid, garea; now rewrite Eha, Ewa).
  destruct (draw_spec ps2 ga Wall Wa) as (gb & Eb & Wb & Ehb & Ewb & Lb).
  { intros q Hq. apply H2 in Hq. destruct Hq as [[Hy _] Hx]. apply xsp_range in Hx. rewrite IGa. apply IG0. lia. }
  exists gb. split; [exact Eb|].
  assert (IGb : forall q, in_grid gb q = in_grid g0 q) by (intros q; rewrite <- IGa; unfold in_grid, garea; now rewrite Ehb, Ewb).
  assert (L : forall q, in_grid g0 q = true -> lookupH gb q = if memP q ps2 || memP q ps1 then Wall else Floor).
  { intros q Iq. rewrite Lb, IGa, Iq. destruct (memP q ps2); [reflexivity|]. rewrite La, Iq. destruct (memP q ps1); [reflexivity|]. cbn [orb]. now apply L0. }
  constructor; try congruence.
  - intros q Iq Bq. rewrite IGb in Iq. rewrite (L q Iq). replace (memP q ps2 || memP q ps1) with true; [reflexivity|]. symmetry.
    apply IG0 in Iq. unfold is_border in Bq. rewrite !orb_true_iff, !Z.eqb_eq in Bq. apply orb_true_iff.
    destruct (in_dec Z.eq_dec (fst q) ysp) as [Hy|Hy].
    + right. apply memP_iff, H1. split; [exact Hy | lia].
    + left. apply memP_iff, H2. split; [split; [lia | exact Hy]|]. apply xsp_In. rewrite ysp_In in Hy. intuition lia.
  - intros q Iq. rewrite IGb in Iq. rewrite (L q Iq). destruct (memP q ps2 || memP q ps1); auto.
Qed.

(* the passages *)
Lemma openings_inv gl row : forall jobs g, rinv g ->
  (forall c lo hi, In (c, (lo, hi)) jobs -> (row = true -> 1 <= c <= h - 2 /\ 0 <= lo /\ hi <= w - 1) /\ (row = false -> 1 <= c <= w - 2 /\ 0 <= lo /\ hi <= h - 1)) ->
  forall x, Leaf (openings gl row jobs g) x -> x = Err ValueError \/ exists g', x = Ok g' /\ rinv g'.
Proof.
  induction jobs as [|[c [lo hi]] t IH]; intros g C Hj x HL; cbn [openings] in HL.
  - apply Leaf_Ret in HL. right. eauto.
  - apply Leaf_bind in HL. destruct HL as [(v & Hv & HL)|(e & He & ->)].
    2:{ apply Leaf_rints in He. destruct He as [[_ E]|(i & _ & E)]; [injection E as <-; auto | discriminate]. }
    apply Leaf_rints in Hv. destruct Hv as [[_ E]|(v' & Hr & E)]; [discriminate|]. injection E as <-.
    specialize (Hj c lo hi (or_introl eq_refl)) as Hc.
    set (q := if row then (c, v) else (v, c)) in *.
    assert (Sq : 1 <= fst q <= h - 2 /\ 1 <= snd q <= w - 2) by (unfold q; destruct Hc as [Hc1 Hc2]; destruct row; [specialize (Hc1 eq_refl) | specialize (Hc2 eq_refl)]; cbn [fst snd]; lia).
    assert (Iq : in_grid g q = true) by (apply (rinv_in_grid g q C); lia).
    assert (Eg : grid_set g (if row then (c, v) else (v, c)) Floor = Ok (gset g q Floor)) by (apply grid_set_in; [apply C | exact Iq]).
    rewrite Eg in HL. cbn [lift bind] in HL.
    apply (IH (gset g q Floor)); [apply rinv_set; tauto | intros c' lo' hi' H'; apply Hj; right; exact H' | exact HL].
Qed.

Theorem rooms_grid_inv gl x : Leaf (rooms_grid h w ysp xsp gl) x -> x = Err ValueError \/ exists g, x = Ok g /\ rinv g.
Proof.
  unfold rooms_grid. intros HL.
  destruct (negb (gapsb ysp)); [apply Leaf_Raise in HL; auto|]. destruct (negb (gapsb xsp)); [apply Leaf_Raise in HL; auto|].
  destruct room_grid_rinv as (g1 & E1 & C1). rewrite E1 in HL. cbn [lift bind] in HL. rewrite inner_ysp, inner_xsp in HL.
  set (jobs1 := flat_map (fun y => map (fun pr => (y, pr)) (pairwise xsp)) ym) in *.
  set (jobs2 := flat_map (fun pr => map (fun x0 => (x0, pr)) xm) (pairwise ysp)) in *.
  assert (J1 : forall c lo hi, In (c, (lo, hi)) jobs1 -> (true = true -> 1 <= c <= h - 2 /\ 0 <= lo /\ hi <= w - 1) /\ (true = false -> 1 <= c <= w - 2 /\ 0 <= lo /\ hi <= h - 1)).
  { intros c lo hi Hin. apply in_flat_map in Hin. destruct Hin as (y & Hy & Hin). apply in_map_iff in Hin. destruct Hin as ([a b] & E & Hp). injection E as <- <- <-.
    apply pairwise_In in Hp. destruct Hp as [Ha Hb]. apply xsp_range in Ha, Hb. apply Hym in Hy. split; [intros _; lia | discriminate]. }
  assert (J2 : forall c lo hi, In (c, (lo, hi)) jobs2 -> (false = true -> 1 <= c <= h - 2 /\ 0 <= lo /\ hi <= w - 1) /\ (false = false -> 1 <= c <= w - 2 /\ 0 <= lo /\ hi <= h - 1)).
  { intros c lo hi Hin. apply in_flat_map in Hin. destruct Hin as ([a b] & Hp & Hin). apply in_map_iff in Hin. destruct Hin as (x' & E & Hx'). injection E as <- <- <-.
    apply pairwise_In in Hp. destruct Hp as [Ha Hb]. apply ysp_range in Ha, Hb. apply Hxm in Hx'. split; [discriminate | intros _; lia]. }
  apply Leaf_bind in HL. destruct HL as [(g2 & Hg2 & HL)|(e & He & ->)].
  - destruct (openings_inv gl true jobs1 g1 C1 J1 _ Hg2) as [E|(g' & E & C2)]; [discriminate|]. injection E as <-.
    exact (openings_inv gl false jobs2 g2 C2 J2 _ HL).
  - destruct (openings_inv gl true jobs1 g1 C1 J1 _ He) as [E|(g' & E & _)]; [injection E as ->; auto | discriminate].
Qed.

Theorem rooms_wf own r : Leaf (reset_rooms h w ysp xsp own) r -> r = Err ValueError \/ exists s, r = Ok s /\ wf_check (PRooms h w ysp xsp) s = true.
Proof.
  unfold reset_rooms. intros HL.
  apply Leaf_bind in HL. destruct HL as [(g & Hg & HL)|(e & He & ->)].
  2:{ destruct (rooms_grid_inv _ _ He) as [E|(g' & E & _)]; [injection E as ->; auto | discriminate]. }
  destruct (rooms_grid_inv _ _ Hg) as [E|(g' & E & C)]; [discriminate|]. injection E as <-.
  unfold floor_positions in HL. rewrite (positions_where_ok g _ (gpositions g) (ri_wf _ C)) in HL by (intros q Hq; now apply gpositions_In). cbn [lift bind] in HL.
  set (fl := filter (fun p => is_ty ty_Floor (lookupH g p)) (gpositions g)) in *.
  assert (Nfl : NoDup fl) by (apply NoDup_filter, gpositions_NoDup).
  apply Leaf_bind in HL. destruct HL as [(two & Htwo & HL)|(e & He & ->)].
  2:{ apply rchoices_leaf in He. destruct He as [E|(idx & E & _)]; [injection E as ->; auto | discriminate]. }
  apply rchoices_leaf in Htwo. destruct Htwo as [E|(idx & E & Hlen & Hr & Nd)]; [discriminate|]. injection E as ->.
  destruct (sampled_spec fl (0, 0) idx Nfl Hr Nd) as (Hin & Nps & _).
  destruct idx as [|i [|j [|? ?]]]; cbn [length] in Hlen; try lia. cbn [map] in *.
  set (pa := nthZ fl i (0, 0)) in *. set (pe := nthZ fl j (0, 0)) in *.
  assert (Hpa : In pa fl) by (apply Hin; left; auto). assert (Hpe : In pe fl) by (apply Hin; right; left; auto).
  assert (Hne : pa <> pe) by (inversion Nps as [|? ? Hn _]; subst; intros E; apply Hn; left; auto).
  apply filter_In in Hpa, Hpe. destruct Hpa as [Ia Fa], Hpe as [Ie Fe]. apply gpositions_In in Ia, Ie.
  apply Leaf_bind in HL. destruct HL as [(oa & _ & HL)|(e & He & ->)].
  2:{ destruct (rchoice_of_leaf _ all_oris FORWARD _ ltac:(vm_compute; discriminate) He) as (a & E & _). discriminate. }
  rewrite (grid_set_in g pe _ (ri_wf _ C) Ie) in HL. cbn [lift bind] in HL. apply Leaf_Ret in HL. subst r. right. eexists; split; [reflexivity|].
  destruct ty_distinct_holds as (D1 & D2 & D3 & D4 & D5).
  assert (Floor_of : forall q, is_ty ty_Floor (lookupH g q) = true -> oty (lookupH g q) = ty_Floor) by (intros q Hq; unfold is_ty in Hq; now apply Z.eqb_eq in Hq).
  assert (Nb : forall q, in_grid g q = true -> is_ty ty_Floor (lookupH g q) = true -> is_border h w q = false).
  { intros q Iq Fq. destruct (is_border h w q) eqn:B; [|reflexivity]. rewrite (ri_border _ C q Iq B) in Fq. unfold is_ty, Wall, mk0 in Fq. cbn [oty] in Fq. apply Z.eqb_eq in Fq. congruence. }
  unfold wf_check, common_ok, shape_is, agent_ok. cbn [sgrid spos sheld]. rewrite !andb_true_iff.
  assert (La : lookupH (gset g pe (Exit 0)) pa = lookupH g pa) by (apply lookupH_gset_other; auto).
  assert (Ha : oty (lookupH g pa) = ty_Floor) by (apply Floor_of; exact Fa).
  repeat split.
  - apply wf_gridb_spec, wf_gset, (ri_wf _ C).
  - rewrite gheight_gset. apply Z.eqb_eq, (ri_h _ C).
  - rewrite gwidth_gset. apply Z.eqb_eq, (ri_w _ C).
  - unfold border_walls. apply forallb_forall. intros q Hq. apply border_In in Hq. unfold garea in Hq. cbn [ymin ymax xmin xmax] in Hq.
    rewrite gheight_gset, gwidth_gset, (ri_h _ C), (ri_w _ C) in Hq.
    assert (Iq : in_grid g q = true) by (apply (rinv_in_grid g q C); lia).
    assert (Bq : is_border h w q = true) by (unfold is_border; rewrite !orb_true_iff, !Z.eqb_eq; lia).
    rewrite lookupH_gset_other; [rewrite (ri_border _ C q Iq Bq); vm_compute; reflexivity|]. intros <-. rewrite (Nb pe Ie Fe) in Bq. discriminate.
  - rewrite in_grid_gset. exact Ia.
  - rewrite La. unfold o_blocks_movement. rewrite Ha. destruct (lookupH g pa) as [ty st col cnt]. cbn [oty ost] in *. subst ty.
    (* a Floor never blocks movement, whatever its (unused) status *) unfold blocks_movement. vm_compute. reflexivity.
  - rewrite La. unfold is_ty. rewrite Ha. apply negb_true_iff, Z.eqb_neq. congruence.
  - rewrite La. unfold is_ty. rewrite Ha. apply negb_true_iff, Z.eqb_neq. congruence.
  - rewrite La. unfold is_ty. rewrite Ha. apply negb_true_iff, Z.eqb_neq. congruence.
  - apply Z.eqb_eq. unfold countb. rewrite (cells_at_single _ _ pe); [reflexivity|]. intros q. rewrite cells_at_In, in_grid_gset. split.
    + intros [Iq Hq]. rewrite (lookupH_gset g pe q _ (ri_wf _ C) Ie) in Hq. destruct (pos_eqb pe q) eqn:E; [apply pos_eqb_iff in E; auto|].
      rewrite (ri_noexit _ C q Iq) in Hq. discriminate.
    + intros ->. split; [exact Ie|]. rewrite (lookupH_gset_same g pe _ (ri_wf _ C) Ie). vm_compute. reflexivity.
Qed.
(* ---------- memory_rooms ---------- *)
Theorem memory_rooms_wf cs nb ne own r : NoDup cs -> Leaf (reset_memory_rooms h w ysp xsp cs nb ne own) r ->
  r = Err ValueError \/ exists s, r = Ok s /\ wf_check (PMemoryRooms h w ysp xsp cs nb ne) s = true.
Proof.
  intros Ncs HL. unfold reset_memory_rooms in HL.
  destruct (memZ 0 cs); [apply Leaf_Raise in HL; auto|].
  destruct (Z.of_nat (length cs) <? 2) eqn:G2; [apply Leaf_Raise in HL; auto|]. apply Z.ltb_ge in G2.
  destruct (nb <? 1) eqn:G3; [apply Leaf_Raise in HL; auto|]. apply Z.ltb_ge in G3.
  destruct (ne <? 2) eqn:G4; [apply Leaf_Raise in HL; auto|]. apply Z.ltb_ge in G4.
  apply Leaf_bind in HL. destruct HL as [(g & Hg & HL)|(e & He & ->)].
  2:{ destruct (rooms_grid_inv _ _ He) as [E|(g' & E & _)]; [injection E as ->; auto | discriminate]. }
  destruct (rooms_grid_inv _ _ Hg) as [E|(g' & E & C)]; [discriminate|]. injection E as <-.
  unfold floor_positions in HL. rewrite (positions_where_ok g _ (gpositions g) (ri_wf _ C)) in HL by (intros q Hq; now apply gpositions_In). cbn [lift bind] in HL.
  set (fl := filter (fun p => is_ty ty_Floor (lookupH g p)) (gpositions g)) in *.
  assert (Nfl : NoDup fl) by (apply NoDup_filter, gpositions_NoDup).
  apply Leaf_bind in HL. destruct HL as [(ps & Hps & HL)|(e & He & ->)].
  2:{ apply rchoices_leaf in He. destruct He as [E|(idx & E & _)]; [injection E as ->; auto | discriminate]. }
  apply rchoices_leaf in Hps. destruct Hps as [E|(idx & E & Hlen & Hr & Nd)]; [discriminate|]. injection E as ->.
  destruct (sampled_spec fl (0, 0) idx Nfl Hr Nd) as (Hin & Nps & Lps).
  set (ps := map (fun i => nthZ fl i (0, 0)) idx) in *.
  apply Leaf_bind in HL. destruct HL as [(oa & _ & HL)|(e & He & ->)].
  2:{ destruct (rchoice_of_leaf _ all_oris FORWARD _ ltac:(vm_compute; discriminate) He) as (a & E & _). discriminate. }
  apply Leaf_bind in HL. destruct HL as [(cols & Hcols & HL)|(e & He & ->)].
  2:{ apply rchoices_leaf in He. destruct He as [E|(idx' & E & _)]; [injection E as ->; auto | discriminate]. }
  apply rchoices_leaf in Hcols. destruct Hcols as [E|(idc & E & Hlenc & Hrc & Ndc)]; [discriminate|]. injection E as ->.
  destruct (sampled_spec (isort cs) 0 idc (NoDup_isort _ Ncs) Hrc Ndc) as (Hinc & Ncols & Lcols).
  set (cols := map (fun i => nthZ (isort cs) i 0) idc) in *.
  (* the cells: agent, beacons, exits *)
  destruct ps as [|pa rest] eqn:Eps; [cbn [length] in Lps; lia|]. cbn [hd tl] in HL.
  assert (Lrest : length rest = Z.to_nat (nb + ne)) by (cbn [length] in Lps; lia).
  set (bps := firstn (Z.to_nat nb) rest) in *. set (eps := skipn (Z.to_nat nb) rest) in *.
  apply NoDup_cons_iff in Nps. destruct Nps as [Hpa_notin Nrest].
  destruct (firstn_skipn_NoDup (Z.to_nat nb) rest Nrest) as (Nb & Ne & Dis). fold bps eps in Nb, Ne, Dis.
  assert (Lb : length bps = Z.to_nat nb) by (unfold bps; rewrite firstn_length; lia).
  assert (Le : length eps = Z.to_nat ne) by (unfold eps; rewrite skipn_length; lia).
  assert (Rin : forall q, In q rest <-> In q bps \/ In q eps) by (intros q; unfold bps, eps; rewrite <- (firstn_skipn (Z.to_nat nb) rest) at 1; apply in_app_iff).
  assert (Floor_cell : forall q, In q (pa :: rest) -> in_grid g q = true /\ is_ty ty_Floor (lookupH g q) = true).
  { intros q Hq. apply Hin in Hq. apply filter_In in Hq. destruct Hq as [Hq1 Hq2]. apply gpositions_In in Hq1. auto. }
  destruct ty_distinct_holds as (D1 & D2 & D3 & D4 & D5).
  assert (Inner_cell : forall q, In q (pa :: rest) -> is_border h w q = false /\ lookupH g q = Floor).
  { intros q Hq. destruct (Floor_cell q Hq) as [Iq Fq]. destruct (ri_cells _ C q Iq) as [E|E]; [rewrite E in Fq; vm_compute in Fq; discriminate|]. split; [|exact E].
    destruct (is_border h w q) eqn:B; [|reflexivity]. rewrite (ri_border _ C q Iq B) in E. discriminate. }
  (* beacons *)
  set (good := hd 0 cols) in *.
  destruct (draw_spec bps g (Beacon good) (ri_wf _ C)) as (g1 & E1 & W1 & Eh1 & Ew1 & L1).
  { intros q Hq. apply Floor_cell. right. apply Rin. auto. }
  rewrite E1 in HL. cbn [lift bind] in HL.
  assert (IG1 : forall q, in_grid g1 q = in_grid g q) by (intros q; unfold in_grid, garea; now rewrite Eh1, Ew1).
  (* exits *)
  destruct (draw_zip_spec eps (map Exit cols) g1 W1 Ne) as (g2 & E2 & W2 & Eh2 & Ew2 & L2a & L2b).
  { rewrite map_length, Le, Lcols. lia. }
  { intros q Hq. rewrite IG1. apply Floor_cell. right. apply Rin. auto. }
  rewrite E2 in HL. cbn [lift bind] in HL. apply Leaf_Ret in HL. subst r. right. eexists; split; [reflexivity|].
  assert (IG2 : forall q, in_grid g2 q = in_grid g q) by (intros q; rewrite <- IG1; unfold in_grid, garea; now rewrite Eh2, Ew2).
  (* every cell of the final grid *)
  assert (Lother : forall q, in_grid g q = true -> ~ In q bps -> ~ In q eps -> lookupH g2 q = lookupH g q).
  { intros q Iq Hb He. rewrite (L2b q He), L1. replace (memP q bps) with false; [reflexivity|]. symmetry. now apply memP_false. }
  assert (Lbeacon : forall q, In q bps -> lookupH g2 q = Beacon good).
  { intros q Hq. rewrite (L2b q (Dis q Hq)), L1, (proj2 (memP_iff q bps) Hq). destruct (Floor_cell q) as [Iq _]; [right; apply Rin; auto|]. now rewrite Iq. }
  assert (Lexit : forall k, (k < length eps)%nat -> lookupH g2 (nth k eps (0, 0)) = Exit (nth k cols 0)).
  { intros k Hk. rewrite (L2a k (0, 0) (Exit 0) Hk). change (Exit 0) with (Exit 0). rewrite (map_nth Exit cols 0 k). reflexivity. }
  assert (Hgood : In good cols) by (unfold good; destruct cols as [|c0 ct]; [cbn [length] in Lcols; lia | left; reflexivity]).
  unfold wf_check.
  assert (Cm : common_ok (mkS g2 pa oa NoneObj) h w = true).
  { unfold common_ok, shape_is, agent_ok. cbn [sgrid spos sheld]. rewrite !andb_true_iff.
    destruct (Inner_cell pa (or_introl eq_refl)) as [Bpa Fpa]. destruct (Floor_cell pa (or_introl eq_refl)) as [Ipa _].
    assert (Lpa : lookupH g2 pa = Floor).
    { rewrite (Lother pa Ipa); [exact Fpa | intros H; apply Hpa_notin, Rin; auto | intros H; apply Hpa_notin, Rin; auto]. }
    repeat split.
    - now apply wf_gridb_spec.
    - apply Z.eqb_eq. rewrite Eh2, Eh1. apply (ri_h _ C).
    - apply Z.eqb_eq. rewrite Ew2, Ew1. apply (ri_w _ C).
    - unfold border_walls. apply forallb_forall. intros q Hq. apply border_In in Hq. unfold garea in Hq. cbn [ymin ymax xmin xmax] in Hq.
      rewrite Eh2, Eh1, Ew2, Ew1, (ri_h _ C), (ri_w _ C) in Hq.
      assert (Iq : in_grid g q = true) by (apply (rinv_in_grid g q C); lia).
      assert (Bq : is_border h w q = true) by (unfold is_border; rewrite !orb_true_iff, !Z.eqb_eq; lia).
      assert (Nqb : ~ In q bps) by (intros H; destruct (Inner_cell q) as [B _]; [right; apply Rin; auto | congruence]).
      assert (Nqe : ~ In q eps) by (intros H; destruct (Inner_cell q) as [B _]; [right; apply Rin; auto | congruence]).
      rewrite (Lother q Iq Nqb Nqe), (ri_border _ C q Iq Bq). vm_compute. reflexivity.
    - rewrite IG2. exact Ipa.
    - rewrite Lpa. vm_compute. reflexivity.
    - rewrite Lpa. vm_compute. reflexivity.
    - rewrite Lpa. vm_compute. reflexivity.
    - rewrite Lpa. vm_compute. reflexivity. }
  rewrite Cm. cbn [andb].
  (* inventory *)
  assert (In_eps : forall q, In q eps -> exists k, (k < length eps)%nat /\ q = nth k eps (0, 0)) by (intros q Hq; apply In_nth with (d := (0, 0)) in Hq; destruct Hq as (k & Hk & E); eauto).
  assert (Exits : forall q, In q (cells_at g2 (is_ty ty_Exit)) <-> In q eps).
  { intros q. rewrite cells_at_In, IG2. split.
    - intros [Iq Hq]. destruct (in_dec pos_eq_dec q eps) as [H|He]; [exact H|]. exfalso.
      destruct (in_dec pos_eq_dec q bps) as [Hb|Hb]; [rewrite (Lbeacon q Hb) in Hq; vm_compute in Hq; discriminate|].
      rewrite (Lother q Iq Hb He), (ri_noexit _ C q Iq) in Hq. discriminate.
    - intros Hq. split; [apply Floor_cell; right; apply Rin; auto|]. destruct (In_eps q Hq) as (k & Hk & ->). rewrite (Lexit k Hk). vm_compute. reflexivity. }
  assert (Beacons : forall q, In q (cells_at g2 (is_ty ty_Beacon)) <-> In q bps).
  { intros q. rewrite cells_at_In, IG2. split.
    - intros [Iq Hq]. destruct (in_dec pos_eq_dec q bps) as [H|Hb]; [exact H|]. exfalso.
      destruct (in_dec pos_eq_dec q eps) as [He|He]; [destruct (In_eps q He) as (k & Hk & ->); rewrite (Lexit k Hk) in Hq; vm_compute in Hq; discriminate|].
      rewrite (Lother q Iq Hb He) in Hq. destruct (ri_cells _ C q Iq) as [E|E]; rewrite E in Hq; vm_compute in Hq; discriminate.
    - intros Hq. split; [apply Floor_cell; right; apply Rin; auto|]. rewrite (Lbeacon q Hq). vm_compute. reflexivity. }
  assert (PE : Permutation (cells_at g2 (is_ty ty_Exit)) eps) by (apply NoDup_Permutation; [apply NoDup_filter, gpositions_NoDup | exact Ne | exact Exits]).
  assert (PB : Permutation (cells_at g2 (is_ty ty_Beacon)) bps) by (apply NoDup_Permutation; [apply NoDup_filter, gpositions_NoDup | exact Nb | exact Beacons]).
  assert (Ecols : map (fun p => ocol (lookupH g2 p)) eps = cols).
  { apply (nth_ext _ _ 0 0); [rewrite map_length, Le, Lcols; lia|]. intros k Hk. rewrite map_length in Hk.
    rewrite (nth_indep _ 0 (ocol (lookupH g2 (0, 0)))) by (rewrite map_length; exact Hk). rewrite (map_nth (fun p => ocol (lookupH g2 p)) eps (0, 0) k), (Lexit k Hk). reflexivity. }
  assert (PX : Permutation (map (fun p => ocol (lookupH g2 p)) (cells_at g2 (is_ty ty_Exit))) cols) by (rewrite <- Ecols; apply Permutation_map, PE).
  unfold memory_ok. cbn [sgrid]. set (exits := map (fun p => ocol (lookupH g2 p)) (cells_at g2 (is_ty ty_Exit))) in *.
  set (beacons := map (fun p => ocol (lookupH g2 p)) (cells_at g2 (is_ty ty_Beacon))) in *.
  assert (Bgood : forall b, In b beacons -> b = good).
  { intros b Hb. unfold beacons in Hb. apply in_map_iff in Hb. destruct Hb as (q & <- & Hq). apply Beacons in Hq. rewrite (Lbeacon q Hq). reflexivity. }
  assert (Lbe : length beacons = Z.to_nat nb) by (unfold beacons; rewrite map_length, (Permutation_length PB); exact Lb).
  rewrite !andb_true_iff. repeat split.
  - apply Z.eqb_eq. rewrite (Permutation_length PX), Lcols. lia.
  - unfold all_distinct. apply NoDup_nodupb. eapply Permutation_NoDup; [apply Permutation_sym, PX | exact Ncols].
  - apply forallb_forall. intros c Hc. apply (Permutation_in _ PX) in Hc. apply memZ_In. apply Hinc in Hc. now apply (proj1 (In_isort _ _)).
  - apply Z.eqb_eq. lia.
  - destruct beacons as [|b t] eqn:Eb; [cbn [length] in Lbe; lia|].
    assert (b = good) by (apply Bgood; left; auto). subst b. apply andb_true_iff. split.
    + apply forallb_forall. intros c Hc. apply Z.eqb_eq. symmetry. apply Bgood. right; exact Hc.
    + apply Z.eqb_eq. rewrite (filter_length_perm _ _ _ PX), (filter_eq_one good cols Ncols Hgood). reflexivity.
Qed.
End Rooms.
