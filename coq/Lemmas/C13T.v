(* C13/C14: the exact outcome of `teleport` (used by the winnability theorem) *)
From Coq Require Import ZArith List Bool Lia.
From GV.Model Require Import Check.
From GV.Lemmas Require Import GridL RotL RandL GeomL BfsL C13W.
Import ListNotations.
Open Scope Z_scope.

(* the exact outcome of `teleport`: the walled room of `empty` with two RED telepods on two different inner cells other than the agent's
   cell (1,1) and the exit's cell *)
Theorem teleport_outcome h w own r : 4 <= h -> 4 <= w -> Leaf (reset_teleport h w own) r ->
  exists g g0 t1 t2 oa, r = Ok (mkS g (1, 1) oa NoneObj) /\ room h w g0 (h - 2, w - 2) /\ wf_grid g /\ gheight g = h /\ gwidth g = w /\
    inner h w t1 /\ inner h w t2 /\ t1 <> t2 /\ t1 <> (1, 1) /\ t2 <> (1, 1) /\ t1 <> (h - 2, w - 2) /\ t2 <> (h - 2, w - 2) /\
    forall q, lookupH g q = if pos_eqb t1 q || pos_eqb t2 q then Telepod COL_RED else lookupH g0 q.
Proof.
  intros Hh Hw HL. unfold reset_teleport in HL. apply Leaf_bind in HL. destruct HL as [(s & Hs & HL)|(x & Hx & ->)].
  2:{ destruct (empty_outcome h w false false false _ Hh Hw Hx) as (g & pe & pa & oa & E & _). discriminate. }
  destruct (empty_outcome h w false false false _ Hh Hw Hs) as (g & pe & pa & oa & E & R & Hpe & Hpa & Hne & Hfix & Hpefix). injection E as ->.
  destruct (Hfix eq_refl) as [-> ->]. rewrite (Hpefix eq_refl) in *. clear Hfix Hpefix. cbn [sgrid] in HL.
  (* the first orientation draw (its value is not used) never fails *)
  apply Leaf_bind in HL. destruct HL as [(o1 & _ & HL)|(x & Hx & ->)].
  2:{ exfalso. unfold rchoice_of in Hx. apply Leaf_bind in Hx. destruct Hx as [(j & _ & Hx)|(y & Hy & _)]; [apply Leaf_Ret in Hx; discriminate|].
      apply Leaf_rchoice in Hy. destruct Hy as [[Hn _]|(j & _ & E)]; [cbn in Hn; lia | discriminate]. }
  destruct (room_floor_positions h w g (h - 2, w - 2) R Hpe) as [Efl FL]. rewrite Efl in HL. cbn [lift bind] in HL.
  set (fl := filter (fun p => is_ty ty_Floor (lookupH g p)) (gpositions g)) in *.
  set (cand := filter (fun p => negb (pos_eqb p (1, 1))) fl) in *.
  assert (Ncand : NoDup cand) by apply NoDup_vacant.
  assert (C12 : In (1, 2) cand /\ In (2, 1) cand).
  { split; apply filter_In; (split; [apply FL; unfold inner; cbn [fst snd]; split; [lia | intros E; injection E; lia] | reflexivity]). }
  apply Leaf_bind in HL. destruct HL as [(ps & Hps & HL)|(x & Hx & ->)].
  2:{ (* two cells can always be sampled: the candidate list has at least two elements *)
      exfalso. unfold rchoices_of, rsample in Hx. apply Leaf_bind in Hx. destruct Hx as [(j & _ & Hx)|(y & Hy & _)]; [apply Leaf_Ret in Hx; discriminate|].
      assert (L2 : (2 <= length cand)%nat).
      { destruct C12 as [A B]. assert (I2 : incl [(1, 2); (2, 1)] cand) by (intros q [<-|[<-|[]]]; auto).
        apply NoDup_incl_length in I2; [exact I2|]. constructor; [intros [E|[]]; discriminate E | constructor; [intros [] | constructor]]. }
      replace ((2 <? 0) || (Z.of_nat (length cand) <? 2) || ((Z.of_nat (length cand) <=? 0) && negb (2 =? 0))) with false in Hy.
      - inversion Hy as [| |? ? ? ans ? Hv Hl]; subst. apply Leaf_Ret in Hl. discriminate.
      - symmetry. rewrite !orb_false_iff, andb_false_iff, !Z.ltb_ge, Z.leb_gt. lia. }
  apply rchoices_leaf in Hps. destruct Hps as [E|(idx & E & Hlen & Hr & Nd)]; [discriminate|]. injection E as ->.
  destruct (sampled_spec cand (0, 0) idx Ncand Hr Nd) as (Hin & Nps & Lps).
  set (ps := map (fun i => nthZ cand i (0, 0)) idx) in *.
  assert (Hps : forall p, In p ps -> inner h w p /\ p <> (h - 2, w - 2) /\ p <> (1, 1)).
  { intros p Hp. apply Hin in Hp. unfold cand in Hp. apply filter_In in Hp. destruct Hp as [Hp1 Hp2]. apply FL in Hp1. destruct Hp1 as [Hi Hq].
    split; [exact Hi|]. split; [exact Hq|]. intros ->. discriminate. }
  destruct (place_spec h w g (h - 2, w - 2) (1, 1) (Telepod COL_RED) ps R Hpe Hpa Hne Hps ltac:(vm_compute; reflexivity)) as (g' & Ed & W' & Eh & Ew & L & B & Hfloor & Ipa & Hex & Hcount).
  rewrite Ed in HL. cbn [lift bind] in HL.
  apply Leaf_bind in HL. destruct HL as [(oa & _ & HL)|(x & Hx & ->)].
  2:{ exfalso. unfold rchoice_of in Hx. apply Leaf_bind in Hx. destruct Hx as [(j & _ & Hx)|(y & Hy & _)]; [apply Leaf_Ret in Hx; discriminate|].
      apply Leaf_rchoice in Hy. destruct Hy as [[Hn _]|(j & _ & E)]; [cbn in Hn; lia | discriminate]. }
  apply Leaf_Ret in HL. subst r.
  assert (Lps' : length ps = 2%nat) by (rewrite Lps; lia).
  destruct ps as [|t1 [|t2 [|? ?]]] eqn:Eps; try discriminate Lps'.
  exists g', g, t1, t2, oa. split; [reflexivity|]. split; [exact R|]. split; [exact W'|]. split; [exact Eh|]. split; [exact Ew|].
  destruct (Hps t1 (or_introl eq_refl)) as (I1 & E1 & A1). destruct (Hps t2 (or_intror (or_introl eq_refl))) as (I2 & E2 & A2).
  split; [exact I1|]. split; [exact I2|]. split; [inversion Nps as [|? ? Hn _]; subst; intros E; apply Hn; left; auto|].
  split; [exact A1|]. split; [exact A2|]. split; [exact E1|]. split; [exact E2|].
  intros q. rewrite L. unfold memP. cbn [existsb]. rewrite orb_false_r.
  replace (pos_eqb q t1) with (pos_eqb t1 q) by (destruct (pos_eqb t1 q) eqn:X; destruct (pos_eqb q t1) eqn:Y; auto; [apply pos_eqb_iff in X; subst; rewrite (proj2 (pos_eqb_iff _ _) eq_refl) in Y; discriminate | apply pos_eqb_iff in Y; subst; rewrite (proj2 (pos_eqb_iff _ _) eq_refl) in X; discriminate]).
  replace (pos_eqb q t2) with (pos_eqb t2 q) by (destruct (pos_eqb t2 q) eqn:X; destruct (pos_eqb q t2) eqn:Y; auto; [apply pos_eqb_iff in X; subst; rewrite (proj2 (pos_eqb_iff _ _) eq_refl) in Y; discriminate | apply pos_eqb_iff in Y; subst; rewrite (proj2 (pos_eqb_iff _ _) eq_refl) in X; discriminate]).
  reflexivity.
Qed.
