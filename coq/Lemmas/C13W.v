(* C13, general part: `empty` produces a well-formed initial state for EVERY shape >= 4x4, every flag combination and every
   random outcome (no bound).  The other reset functions are covered by kernel-evaluated outcome trees (Props/C13.v). *)
From Coq Require Import ZArith List Bool Lia.
From GV.Model Require Import Check.
From GV.Lemmas Require Import GridL RotL RandL GeomL BfsL.
Import ListNotations.
Open Scope Z_scope.

(* ---------- drawing a list of in-grid positions ---------- *)
Lemma draw_spec ps : forall g o, wf_grid g -> (forall p, In p ps -> in_grid g p = true) ->
  exists g', draw g ps o = Ok g' /\ wf_grid g' /\ gheight g' = gheight g /\ gwidth g' = gwidth g /\
             forall q, lookupH g' q = if memP q ps then (if in_grid g q then o else Hidden) else lookupH g q.
Proof.
  induction ps as [|p t IH]; intros g o W Hin; cbn [draw].
  - exists g. split; [reflexivity|]. split; [exact W|]. split; [reflexivity|]. split; [reflexivity|]. intros q. reflexivity.
  - assert (Hp : in_grid g p = true) by (apply Hin; left; auto).
    rewrite (grid_set_in g p o W Hp). cbn [rbind].
    destruct (IH (gset g p o) o (wf_gset g p o W)) as (g' & E & W' & Eh & Ew & L).
    { intros q Hq. rewrite in_grid_gset. apply Hin. right; auto. }
    exists g'. rewrite E, Eh, Ew, gheight_gset, gwidth_gset. split; [reflexivity|]. split; [exact W'|]. split; [reflexivity|]. split; [reflexivity|].
    intros q. rewrite L, in_grid_gset, (lookupH_gset g p q o W Hp). unfold memP. cbn [existsb].
    fold (memP q t). destruct (memP q t) eqn:Em; [now rewrite orb_true_r|]. rewrite orb_false_r.
    destruct (pos_eqb q p) eqn:E1.
    + apply pos_eqb_iff in E1. subst q. rewrite (proj2 (pos_eqb_iff p p) eq_refl), Hp. reflexivity.
    + destruct (pos_eqb p q) eqn:E2; auto. apply pos_eqb_iff in E2. subst q. rewrite (proj2 (pos_eqb_iff p p) eq_refl) in E1. discriminate.
Qed.

(* ---------- the blank grid ---------- *)
Lemma blank_grid h w o : 1 <= h -> 1 <= w ->
  wf_grid (grid_from_shape h w o) /\ gheight (grid_from_shape h w o) = h /\ gwidth (grid_from_shape h w o) = w /\
  forall q, in_grid (grid_from_shape h w o) q = true -> lookupH (grid_from_shape h w o) q = o.
Proof.
  intros Hh Hw. unfold grid_from_shape.
  assert (W : wf_grid (tab (Z.to_nat h) (Z.to_nat w) (fun _ _ => o))) by (apply wf_tab; lia).
  assert (Eh : gheight (tab (Z.to_nat h) (Z.to_nat w) (fun _ _ => o)) = h) by (rewrite gheight_hN; unfold hN; rewrite hN_tab; lia).
  assert (Ew : gwidth (tab (Z.to_nat h) (Z.to_nat w) (fun _ _ => o)) = w) by (rewrite gwidth_wN, wN_tab by lia; lia).
  split; [exact W|]. split; [exact Eh|]. split; [exact Ew|]. intros q Hq. rewrite (lookupH_get0 _ q W Hq). apply in_grid_spec in Hq. rewrite Eh, Ew in Hq. apply get0_tab; lia.
Qed.

(* ---------- positions of an area ---------- *)
Lemma cartesian_In (ys xs : list Z) (p : pos) : In p (flat_map (fun y => map (fun x => (y, x)) xs) ys) <-> In (fst p) ys /\ In (snd p) xs.
Proof.
  rewrite in_flat_map. split.
  - intros (y & Hy & H). apply in_map_iff in H. destruct H as (x & <- & Hx). auto.
  - intros [Hy Hx]. exists (fst p). split; auto. apply in_map_iff. exists (snd p). split; auto. destruct p; reflexivity.
Qed.
Lemma border_In a p : In p (apositions_border a) <->
  ((fst p = ymin a \/ fst p = ymax a) /\ xmin a <= snd p <= xmax a) \/ (ymin a + 1 <= fst p < ymax a /\ (snd p = xmin a \/ snd p = xmax a)).
Proof.
  unfold apositions_border. rewrite in_app_iff, !cartesian_In, !zrange_In. cbn [In]. split.
  - intros [[H1 H2]|[H1 H2]]; [left | right]; split; try lia; intuition.
  - intros [[H1 H2]|[H1 H2]]; [left | right]; split; try lia; intuition.
Qed.
Lemma inside_In a p : In p (apositions_inside a) <-> ymin a + 1 <= fst p < ymax a /\ xmin a + 1 <= snd p < xmax a.
Proof. unfold apositions_inside. rewrite cartesian_In, !zrange_In. tauto. Qed.

(* ---------- counting cells ---------- *)
Lemma cells_at_In g f p : In p (cells_at g f) <-> in_grid g p = true /\ f (lookupH g p) = true.
Proof. unfold cells_at. rewrite filter_In, gpositions_In. tauto. Qed.
Lemma NoDup_filter {A} (f : A -> bool) l : NoDup l -> NoDup (filter f l).
Proof. induction 1 as [|x t Hn Hd IH]; cbn; [constructor|]. destruct (f x); auto. constructor; auto. rewrite filter_In. tauto. Qed.
Lemma cells_at_single g f p : (forall q, In q (cells_at g f) <-> q = p) -> length (cells_at g f) = 1%nat.
Proof.
  intros H. assert (Nd : NoDup (cells_at g f)) by (apply NoDup_filter, gpositions_NoDup).
  destruct (cells_at g f) as [|a [|b t]] eqn:E; cbn.
  - exfalso. apply (proj2 (H p) eq_refl).
  - reflexivity.
  - exfalso. assert (a = p) by (apply H; left; auto). assert (b = p) by (apply H; right; left; auto). subst.
    inversion Nd as [|? ? Hn _]; subst. apply Hn. left; auto.
Qed.

(* ---------- empty ---------- *)
Definition ty_distinct : Prop := ty_Floor <> ty_Wall /\ ty_Floor <> ty_Exit /\ ty_Wall <> ty_Exit /\ ty_Floor <> ty_MovingObstacle /\ ty_Floor <> ty_Telepod.
Lemma ty_distinct_holds : ty_distinct.
Proof. unfold ty_distinct. repeat split; vm_compute; discriminate. Qed.

(* a walled room: wall on the boundary, one exit at pe, floor everywhere else *)
Definition inner (h w : Z) (p : pos) : Prop := 1 <= fst p <= h - 2 /\ 1 <= snd p <= w - 2.
Definition is_border (h w : Z) (q : pos) : bool := (fst q =? 0) || (fst q =? h - 1) || (snd q =? 0) || (snd q =? w - 1).
Record room (h w : Z) (g : grid) (pe : pos) : Prop := {
  rm_wf : wf_grid g; rm_h : gheight g = h; rm_w : gwidth g = w;
  rm_cells : forall q, in_grid g q = true -> lookupH g q = if pos_eqb pe q then Exit 0 else if is_border h w q then Wall else Floor }.
Lemma is_border_false h w q : inner h w q -> is_border h w q = false.
Proof. unfold inner, is_border. intros H. rewrite !orb_false_iff, !Z.eqb_neq. lia. Qed.
Lemma room_in_grid h w g pe q : room h w g pe -> (in_grid g q = true <-> 0 <= fst q < h /\ 0 <= snd q < w).
Proof. intros R. rewrite in_grid_spec, (rm_h _ _ _ _ R), (rm_w _ _ _ _ R). tauto. Qed.
Lemma room_floor h w g pe q : room h w g pe -> inner h w q -> q <> pe -> lookupH g q = Floor.
Proof.
  intros R Hq Hne. rewrite (rm_cells _ _ _ _ R) by (apply (room_in_grid h w g pe q R); unfold inner in Hq; lia).
  destruct (pos_eqb pe q) eqn:E; [apply pos_eqb_iff in E; congruence|]. now rewrite is_border_false.
Qed.
Lemma room_exit_unique h w g pe : room h w g pe -> inner h w pe -> forall q, In q (cells_at g (is_ty ty_Exit)) <-> q = pe.
Proof.
  intros R Hpe q. destruct ty_distinct_holds as (D1 & D2 & D3 & D4 & D5). rewrite cells_at_In. split.
  - intros [Iq Hq]. rewrite (rm_cells _ _ _ _ R q Iq) in Hq. destruct (pos_eqb pe q) eqn:E; [apply pos_eqb_iff in E; auto|].
    exfalso. destruct (is_border h w q); unfold is_ty, Wall, Floor, mk0 in Hq; cbn [oty] in Hq; apply Z.eqb_eq in Hq; congruence.
  - intros ->. assert (Ipe : in_grid g pe = true) by (apply (room_in_grid h w g pe pe R); unfold inner in Hpe; lia). split; auto.
    rewrite (rm_cells _ _ _ _ R pe Ipe), (proj2 (pos_eqb_iff pe pe) eq_refl). unfold is_ty, Exit. cbn [oty]. apply Z.eqb_refl.
Qed.
Lemma room_border_walls h w g pe : room h w g pe -> inner h w pe -> border_walls g = true.
Proof.
  intros R Hpe. pose proof Hpe as Hpe'. unfold inner in Hpe'. unfold border_walls. apply forallb_forall. intros q Hq. apply border_In in Hq. unfold garea in Hq. cbn [ymin ymax xmin xmax] in Hq.
  rewrite (rm_h _ _ _ _ R), (rm_w _ _ _ _ R) in Hq.
  assert (Iq : in_grid g q = true) by (apply (room_in_grid h w g pe q R); lia).
  rewrite (rm_cells _ _ _ _ R q Iq). destruct (pos_eqb pe q) eqn:E; [apply pos_eqb_iff in E; subst q; unfold inner in Hpe; lia|].
  replace (is_border h w q) with true; [reflexivity|]. symmetry. unfold is_border. rewrite !orb_true_iff, !Z.eqb_eq. lia.
Qed.
(* any agent standing on an inner cell other than the exit makes it a well-formed `empty` state *)
Lemma room_wf h w g pe pa oa ra re : room h w g pe -> inner h w pe -> inner h w pa -> pa <> pe ->
  wf_check (PEmpty h w ra re) (mkS g pa oa NoneObj) = true.
Proof.
  intros R Hpe Hpa Hne. pose proof (room_floor h w g pe pa R Hpa Hne) as Hfloor.
  unfold wf_check, common_ok, shape_is, agent_ok. cbn [sgrid spos sheld]. rewrite !andb_true_iff. repeat split.
  - apply wf_gridb_spec. apply (rm_wf _ _ _ _ R).
  - apply Z.eqb_eq. apply (rm_h _ _ _ _ R).
  - apply Z.eqb_eq. apply (rm_w _ _ _ _ R).
  - eapply room_border_walls; eauto.
  - apply (room_in_grid h w g pe pa R). unfold inner in Hpa. lia.
  - rewrite Hfloor. vm_compute. reflexivity.
  - rewrite Hfloor. vm_compute. reflexivity.
  - rewrite Hfloor. vm_compute. reflexivity.
  - rewrite Hfloor. vm_compute. reflexivity.
  - apply Z.eqb_eq. unfold countb. rewrite (cells_at_single g (is_ty ty_Exit) pe); [reflexivity|]. now apply (room_exit_unique h w g pe).
Qed.

(* EVERY outcome of `empty` (all shapes >= 4x4, all flags): a walled room with its exit on an inner cell and the agent on another inner cell;
   without random placement the agent is at (1,1) facing RIGHT and the exit at (h-2, w-2) *)
Theorem empty_outcome h w ra re own r : 4 <= h -> 4 <= w -> Leaf (reset_empty h w ra re own) r ->
  exists g pe pa oa, r = Ok (mkS g pa oa NoneObj) /\ room h w g pe /\ inner h w pe /\ inner h w pa /\ pa <> pe /\
                     (ra = false -> pa = (1, 1) /\ oa = RIGHT) /\ (re = false -> pe = (h - 2, w - 2)).
Proof.
  intros Hh Hw HL. unfold reset_empty in HL.
  replace ((h <? 4) || (w <? 4)) with false in HL by (symmetry; apply orb_false_iff; rewrite !Z.ltb_ge; lia).
  destruct (blank_grid h w Floor ltac:(lia) ltac:(lia)) as (W0 & Eh0 & Ew0 & L0).
  set (g0 := grid_from_shape h w Floor) in *.
  destruct (draw_spec (apositions_border (garea g0)) g0 Wall W0) as (g1 & E1 & W1 & Eh1 & Ew1 & L1).
  { intros p Hp. apply border_In in Hp. apply in_grid_spec. unfold garea in Hp. cbn [ymin ymax xmin xmax] in Hp. lia. }
  rewrite E1 in HL. cbn [lift bind] in HL.
  assert (Ar : garea g1 = garea g0) by (unfold garea; now rewrite Eh1, Ew1).
  assert (IG : forall q, in_grid g1 q = in_grid g0 q) by (intros q; unfold in_grid; now rewrite Ar).
  assert (Bg0 : forall q, In q (apositions_border (garea g0)) <-> in_grid g0 q = true /\ (fst q = 0 \/ fst q = h - 1 \/ snd q = 0 \/ snd q = w - 1)).
  { intros q. rewrite border_In, in_grid_spec. unfold garea. cbn [ymin ymax xmin xmax]. rewrite Eh0, Ew0. lia. }
  assert (Lg1 : forall q, in_grid g0 q = true -> lookupH g1 q = if is_border h w q then Wall else Floor).
  { intros q Hq. rewrite L1, Hq, (L0 q Hq). unfold is_border.
    destruct ((fst q =? 0) || (fst q =? h - 1) || (snd q =? 0) || (snd q =? w - 1)) eqn:B.
    - rewrite (proj2 (memP_iff _ _)); auto. apply Bg0. split; auto. rewrite !orb_true_iff, !Z.eqb_eq in B. tauto.
    - destruct (memP q (apositions_border (garea g0))) eqn:M; auto. apply memP_iff, Bg0 in M.
      rewrite !orb_false_iff, !Z.eqb_neq in B. lia. }
  (* where the exit goes *)
  apply Leaf_bind in HL. destruct HL as [(pe & Hpe & HL)|(x & Hx & ->)].
  2:{ exfalso. destruct re; [|apply Leaf_Ret in Hx; discriminate].
      unfold rchoice_of in Hx. apply Leaf_bind in Hx. destruct Hx as [(i & _ & Hx)|(y & Hy & _)]; [apply Leaf_Ret in Hx; discriminate|].
      apply Leaf_rchoice in Hy. destruct Hy as [[Hn _]|(i & _ & E)]; [|discriminate].
      assert (Hin : In (2, 2) (filter (fun p => ra || negb (pos_eqb p (1, 1))) (apositions_inside (garea g1)))).
      { apply filter_In. split; [apply inside_In; rewrite Ar; unfold garea; cbn [ymin ymax xmin xmax fst snd]; lia|]. cbn. apply orb_true_r. }
      destruct (filter (fun p => ra || negb (pos_eqb p (1, 1))) (apositions_inside (garea g1))); [destruct Hin | cbn in Hn; lia]. }
  assert (Hpe_in : inner h w pe /\ (ra = false -> pe <> (1, 1)) /\ (re = false -> pe = (h - 2, w - 2))).
  { unfold inner. destruct re.
    - unfold rchoice_of in Hpe. apply Leaf_bind_Ok in Hpe. destruct Hpe as (i & Hi & Hr). apply Leaf_Ret in Hr. injection Hr as ->.
      apply Leaf_rchoice in Hi. destruct Hi as [[_ Hi]|(i' & Hi' & E)]; [discriminate|]. injection E as <-.
      set (cands := filter (fun p => ra || negb (pos_eqb p (1, 1))) (apositions_inside (garea g1))) in *.
      assert (Hin : In (nthZ cands i (0, 0)) cands) by (unfold nthZ; apply nth_In; lia).
      unfold cands in Hin at 2. apply filter_In in Hin. destruct Hin as [Hi1 Hi2]. apply inside_In in Hi1. rewrite Ar in Hi1. unfold garea in Hi1. cbn [ymin ymax xmin xmax] in Hi1.
      split; [lia|]. split; [|discriminate]. intros ->. cbn [orb] in Hi2. apply negb_true_iff in Hi2. intros E. rewrite E in Hi2. rewrite (proj2 (pos_eqb_iff (1, 1) (1, 1)) eq_refl) in Hi2. discriminate.
    - apply Leaf_Ret in Hpe. injection Hpe as ->. cbn [fst snd]. split; [lia|]. split; [|reflexivity]. intros _ E. injection E as Ea Eb. lia. }
  destruct Hpe_in as (Hpe_in & Hpe_ne & Hpe_fix).
  assert (Ipe : in_grid g1 pe = true) by (rewrite IG; apply in_grid_spec; unfold inner in Hpe_in; lia).
  rewrite (grid_set_in g1 pe (Exit 0) W1 Ipe) in HL. cbn [lift bind] in HL.
  set (g2 := gset g1 pe (Exit 0)) in *.
  assert (R : room h w g2 pe).
  { constructor.
    - apply wf_gset; auto.
    - unfold g2. rewrite gheight_gset. lia.
    - unfold g2. rewrite gwidth_gset. lia.
    - intros q Iq. unfold g2. rewrite (lookupH_gset g1 pe q (Exit 0) W1 Ipe). destruct (pos_eqb pe q); auto.
      apply Lg1. unfold g2 in Iq. rewrite in_grid_gset, IG in Iq. exact Iq. }
  destruct ra.
  - (* random agent: any floor cell, any heading *)
    assert (W2 : wf_grid g2) by apply (rm_wf _ _ _ _ R).
    unfold floor_positions in HL. rewrite (positions_where_ok g2 (is_ty ty_Floor) (gpositions g2) W2) in HL by (intros q Hq; now apply gpositions_In).
    cbn [lift bind] in HL. set (fl := filter (fun p => is_ty ty_Floor (lookupH g2 p)) (gpositions g2)) in *.
    destruct ty_distinct_holds as (D1 & D2 & D3 & D4 & D5).
    assert (FL : forall q, In q fl <-> inner h w q /\ q <> pe).
    { intros q. unfold fl. rewrite filter_In, gpositions_In. split.
      - intros [Iq Hq]. rewrite (rm_cells _ _ _ _ R q Iq) in Hq. destruct (pos_eqb pe q) eqn:E; [unfold is_ty, Exit in Hq; cbn [oty] in Hq; apply Z.eqb_eq in Hq; congruence|].
        apply (room_in_grid h w g2 pe q R) in Iq. destruct (is_border h w q) eqn:B.
        + unfold is_ty, Wall, mk0 in Hq. cbn [oty] in Hq. apply Z.eqb_eq in Hq. congruence.
        + unfold is_border in B. rewrite !orb_false_iff, !Z.eqb_neq in B. split; [unfold inner; lia|]. intros ->. rewrite (proj2 (pos_eqb_iff pe pe) eq_refl) in E. discriminate.
      - intros [Hq Hne]. split; [apply (room_in_grid h w g2 pe q R); unfold inner in Hq; lia|].
        rewrite (room_floor h w g2 pe q R Hq Hne). unfold is_ty, Floor, mk0. cbn [oty]. apply Z.eqb_refl. }
    assert (NE : fl <> []).
    { destruct (pos_eqb pe (1, 1)) eqn:E.
      - apply pos_eqb_iff in E. assert (H12 : In (1, 2) fl) by (apply FL; unfold inner; cbn [fst snd]; split; [lia | intros E'; rewrite <- E' in E; discriminate]). intros E0. rewrite E0 in H12. destruct H12.
      - assert (H11 : In (1, 1) fl) by (apply FL; unfold inner; cbn [fst snd]; split; [lia | intros E'; rewrite <- E' in E; rewrite (proj2 (pos_eqb_iff (1, 1) (1, 1)) eq_refl) in E; discriminate]).
        intros E0. rewrite E0 in H11. destruct H11. }
    unfold rchoice_of in HL. apply Leaf_bind in HL. destruct HL as [(pa & Hpa & HL)|(x & Hx & ->)].
    + apply Leaf_bind_Ok in Hpa. destruct Hpa as (i & Hi & Hr). apply Leaf_Ret in Hr. injection Hr as ->.
      apply Leaf_rchoice in Hi. destruct Hi as [[_ Hi]|(i' & Hi' & E)]; [discriminate|]. injection E as <-.
      assert (Hin : In (nthZ fl i (0, 0)) fl) by (unfold nthZ; apply nth_In; lia). apply FL in Hin. destruct Hin as [Hpa Hne].
      apply Leaf_bind in HL. destruct HL as [(oa & Hoa & HL)|(x & Hx & ->)].
      * apply Leaf_Ret in HL. subst r. exists g2, pe, (nthZ fl i (0, 0)), oa. split; [reflexivity|]. split; [exact R|]. split; [exact Hpe_in|]. split; [exact Hpa|]. split; [exact Hne|]. split; [intros E0; discriminate E0 | exact Hpe_fix].
      * exfalso. apply Leaf_bind in Hx. destruct Hx as [(j & _ & Hx)|(y & Hy & _)]; [apply Leaf_Ret in Hx; discriminate|].
        apply Leaf_rchoice in Hy. destruct Hy as [[Hn _]|(j & _ & E)]; [vm_compute in Hn; apply Hn; reflexivity | discriminate].
    + exfalso. apply Leaf_bind in Hx. destruct Hx as [(j & _ & Hx)|(y & Hy & _)]; [apply Leaf_Ret in Hx; discriminate|].
      apply Leaf_rchoice in Hy. destruct Hy as [[Hn _]|(j & _ & E)]; [|discriminate]. destruct fl; [contradiction | cbn [length] in Hn; lia].
  - apply Leaf_Ret in HL. subst r. exists g2, pe, (1, 1), RIGHT. split; [reflexivity|]. split; [exact R|]. split; [exact Hpe_in|].
    split; [unfold inner; cbn [fst snd]; lia|]. split; [intros E; apply (Hpe_ne eq_refl); auto|]. split; [auto | exact Hpe_fix].
Qed.
Theorem empty_wf h w ra re own r : 4 <= h -> 4 <= w -> Leaf (reset_empty h w ra re own) r ->
  exists s, r = Ok s /\ wf_check (PEmpty h w ra re) s = true.
Proof.
  intros Hh Hw HL. destruct (empty_outcome h w ra re own r Hh Hw HL) as (g & pe & pa & oa & -> & R & Hpe & Hpa & Hne & _).
  eexists; split; [reflexivity|]. now apply (room_wf h w g pe pa oa).
Qed.

(* ---------- sampling without replacement ---------- *)
Lemma nodupb_NoDup l : nodupb l = true -> NoDup l.
Proof.
  induction l as [|x t IH]; cbn [nodupb]; [constructor|]. rewrite andb_true_iff, negb_true_iff. intros [H1 H2]. constructor; auto.
  intros Hin. assert (E : existsb (Z.eqb x) t = true) by (apply existsb_exists; exists x; split; auto; apply Z.eqb_refl). congruence.
Qed.
Lemma inrange_all lo hi l : inrange lo hi l = true -> forall i, In i l -> lo <= i < hi.
Proof. unfold inrange. rewrite forallb_forall. intros H i Hi. specialize (H i Hi). apply andb_true_iff in H. rewrite Z.leb_le, Z.ltb_lt in H. exact H. Qed.
Lemma rchoices_leaf {A} gl (l : list A) k d x : Leaf (rchoices_of gl l k d) x ->
  x = Err ValueError \/ exists idx, x = Ok (map (fun i => nthZ l i d) idx) /\ Z.of_nat (length idx) = k /\
                                    (forall i, In i idx -> 0 <= i < Z.of_nat (length l)) /\ NoDup idx.
Proof.
  unfold rchoices_of, rsample. intros H. apply Leaf_bind in H. destruct H as [(idx & Hi & H)|(e & He & ->)].
  - apply Leaf_Ret in H. subst x. right. exists idx. split; auto.
    destruct ((k <? 0) || (Z.of_nat (length l) <? k) || ((Z.of_nat (length l) <=? 0) && negb (k =? 0))); [inversion Hi|].
    inversion Hi as [| |? ? ? ans ? Hv Hl]; subst. apply Leaf_Ret in Hl. injection Hl as ->.
    unfold valid_ans in Hv. rewrite !andb_true_iff, Z.eqb_eq in Hv. destruct Hv as [[H1 H2] H3].
    split; auto. split; [now apply inrange_all | now apply nodupb_NoDup].
  - left. destruct ((k <? 0) || (Z.of_nat (length l) <? k) || ((Z.of_nat (length l) <=? 0) && negb (k =? 0))).
    + apply Leaf_Raise in He. congruence.
    + inversion He as [| |? ? ? ans ? Hv Hl]; subst. apply Leaf_Ret in Hl. discriminate.
Qed.
(* the sampled elements: members of l, pairwise distinct when l is duplicate-free, as many as asked *)
Lemma sampled_spec {A} (l : list A) (d : A) idx : NoDup l -> (forall i, In i idx -> 0 <= i < Z.of_nat (length l)) -> NoDup idx ->
  let ps := map (fun i => nthZ l i d) idx in (forall p, In p ps -> In p l) /\ NoDup ps /\ length ps = length idx.
Proof.
  intros Nl Hr Ni. cbv zeta. split; [|split; [|apply map_length]].
  - intros p Hp. apply in_map_iff in Hp. destruct Hp as (i & <- & Hi). unfold nthZ. apply nth_In. specialize (Hr i Hi). lia.
  - induction Ni as [|i t Hn Hd IH]; cbn [map]; [constructor|]. constructor; [|apply IH; intros j Hj; apply Hr; right; auto].
    intros Hin. apply in_map_iff in Hin. destruct Hin as (j & E & Hj). unfold nthZ in E.
    assert (Hi := Hr i (or_introl eq_refl)). assert (Hj' := Hr j (or_intror Hj)).
    apply (proj1 (NoDup_nth l d)) in E; auto; try lia. assert (i = j) by lia. subst. contradiction.
Qed.
Lemma cells_at_as g f (l : list pos) : NoDup l -> (forall q, In q (cells_at g f) <-> In q l) -> length (cells_at g f) = length l.
Proof.
  intros Nl H. apply Permutation.Permutation_length. apply Permutation.NoDup_Permutation; auto. apply NoDup_filter, gpositions_NoDup.
Qed.

(* floor cells of a room: the inner cells other than the exit *)
Lemma room_floor_positions h w g pe : room h w g pe -> inner h w pe ->
  floor_positions g = Ok (filter (fun p => is_ty ty_Floor (lookupH g p)) (gpositions g)) /\
  forall q, In q (filter (fun p => is_ty ty_Floor (lookupH g p)) (gpositions g)) <-> inner h w q /\ q <> pe.
Proof.
  intros R Hpe. destruct ty_distinct_holds as (D1 & D2 & D3 & D4 & D5). split.
  - unfold floor_positions. apply positions_where_ok; [apply (rm_wf _ _ _ _ R) | intros q Hq; now apply gpositions_In].
  - intros q. rewrite filter_In, gpositions_In. split.
    + intros [Iq Hq]. rewrite (rm_cells _ _ _ _ R q Iq) in Hq. destruct (pos_eqb pe q) eqn:E; [unfold is_ty, Exit in Hq; cbn [oty] in Hq; apply Z.eqb_eq in Hq; congruence|].
      apply (room_in_grid h w g pe q R) in Iq. destruct (is_border h w q) eqn:B.
      * unfold is_ty, Wall, mk0 in Hq. cbn [oty] in Hq. apply Z.eqb_eq in Hq. congruence.
      * unfold is_border in B. rewrite !orb_false_iff, !Z.eqb_neq in B. split; [unfold inner; lia|]. intros ->. rewrite (proj2 (pos_eqb_iff pe pe) eq_refl) in E. discriminate.
    + intros [Hq Hne]. split; [apply (room_in_grid h w g pe q R); unfold inner in Hq; lia|].
      rewrite (room_floor h w g pe q R Hq Hne). unfold is_ty, Floor, mk0. cbn [oty]. apply Z.eqb_refl.
Qed.

(* placing one kind of object `o` (not a floor, wall or exit; non-blocking or not -- the agent is elsewhere) on distinct floor cells `ps` of a room *)
Section Place.
Variables (h w : Z) (g : grid) (pe pa : pos) (o : obj) (ps : list pos).
Hypotheses (R : room h w g pe) (Hpe : inner h w pe) (Hpa : inner h w pa) (Hne : pa <> pe).
Hypotheses (Hps : forall p, In p ps -> inner h w p /\ p <> pe /\ p <> pa) (Nps : NoDup ps).
Hypotheses (Ho_exit : is_ty ty_Exit o = false).
Lemma place_spec : exists g', draw g ps o = Ok g' /\ wf_grid g' /\ gheight g' = h /\ gwidth g' = w /\
  (forall q, lookupH g' q = if memP q ps then o else lookupH g q) /\
  border_walls g' = true /\ lookupH g' pa = Floor /\ in_grid g' pa = true /\
  (forall q, In q (cells_at g' (is_ty ty_Exit)) <-> q = pe) /\
  (forall f, (forall q, in_grid g q = true -> f (lookupH g q) = false) -> f o = true -> forall q, In q (cells_at g' f) <-> In q ps).
Proof.
  assert (Ips : forall p, In p ps -> in_grid g p = true).
  { intros p Hp. destruct (Hps p Hp) as (Hi & _). apply (room_in_grid h w g pe p R). unfold inner in Hi. lia. }
  destruct (draw_spec ps g o (rm_wf _ _ _ _ R) Ips) as (g' & E & W' & Eh & Ew & L).
  assert (L' : forall q, lookupH g' q = if memP q ps then o else lookupH g q).
  { intros q. rewrite L. destruct (memP q ps) eqn:M; auto. apply memP_iff in M. now rewrite (Ips q M). }
  assert (IG : forall q, in_grid g' q = in_grid g q) by (intros q; unfold in_grid, garea; now rewrite Eh, Ew).
  exists g'. split; [exact E|]. split; [exact W'|]. split; [rewrite Eh; apply (rm_h _ _ _ _ R)|]. split; [rewrite Ew; apply (rm_w _ _ _ _ R)|]. split; [exact L'|].
  split; [|split; [|split; [|split]]].
  - (* boundary untouched *)
    pose proof (room_border_walls h w g pe R Hpe) as B. unfold border_walls in *. rewrite forallb_forall in *. intros q Hq.
    assert (Aq : garea g' = garea g) by (unfold garea; now rewrite Eh, Ew). rewrite Aq in Hq. specialize (B q Hq). rewrite L'.
    destruct (memP q ps) eqn:M; auto. exfalso. apply memP_iff in M. destruct (Hps q M) as (Hi & _). apply border_In in Hq.
    unfold garea in Hq. cbn [ymin ymax xmin xmax] in Hq. rewrite (rm_h _ _ _ _ R), (rm_w _ _ _ _ R) in Hq. unfold inner in Hi. lia.
  - rewrite L'. destruct (memP pa ps) eqn:M; [apply memP_iff in M; destruct (Hps pa M) as (_ & _ & X); congruence|]. now apply (room_floor h w g pe pa R).
  - rewrite IG. apply (room_in_grid h w g pe pa R). unfold inner in Hpa. lia.
  - intros q. rewrite cells_at_In, IG, L', <- (room_exit_unique h w g pe R Hpe q), cells_at_In.
    destruct (memP q ps) eqn:M; [|tauto]. apply memP_iff in M. destruct (Hps q M) as (Hi & Hq & _). rewrite Ho_exit.
    split; [intros [_ X]; discriminate|]. intros [Iq X]. exfalso. apply Hq. apply (room_exit_unique h w g pe R Hpe q). apply cells_at_In. auto.
  - intros f Hf Hfo q. rewrite cells_at_In, IG, L'. destruct (memP q ps) eqn:M.
    + apply memP_iff in M. split; [auto|]. intros _. split; [apply Ips; auto | exact Hfo].
    + apply memP_false in M. split; [intros [Iq X]; rewrite (Hf q Iq) in X; discriminate | intros X; contradiction].
Qed.
End Place.

Lemma common_from_place h w g' pa pe oa : wf_grid g' -> gheight g' = h -> gwidth g' = w -> border_walls g' = true -> lookupH g' pa = Floor -> in_grid g' pa = true ->
  (forall q, In q (cells_at g' (is_ty ty_Exit)) <-> q = pe) ->
  common_ok (mkS g' pa oa NoneObj) h w = true /\ (countb (is_ty ty_Exit) g' =? 1) = true.
Proof.
  intros W Eh Ew B Hfloor Ipa Hex. split.
  - unfold common_ok, shape_is, agent_ok. cbn [sgrid spos sheld]. rewrite !andb_true_iff. repeat split; auto.
    + now apply wf_gridb_spec.
    + now apply Z.eqb_eq.
    + now apply Z.eqb_eq.
    + rewrite Hfloor. vm_compute. reflexivity.
    + rewrite Hfloor. vm_compute. reflexivity.
    + rewrite Hfloor. vm_compute. reflexivity.
    + rewrite Hfloor. vm_compute. reflexivity.
  - apply Z.eqb_eq. unfold countb. now rewrite (cells_at_single g' (is_ty ty_Exit) pe).
Qed.
Lemma room_no f h w g pe : room h w g pe -> f (Exit 0) = false -> f Wall = false -> f Floor = false -> forall q, in_grid g q = true -> f (lookupH g q) = false.
Proof. intros R F1 F2 F3 q Iq. rewrite (rm_cells _ _ _ _ R q Iq). destruct (pos_eqb pe q); auto. destruct (is_border h w q); auto. Qed.
Lemma NoDup_vacant g (pa : pos) : NoDup (filter (fun p => negb (pos_eqb p pa)) (filter (fun p => is_ty ty_Floor (lookupH g p)) (gpositions g))).
Proof. apply NoDup_filter, NoDup_filter, gpositions_NoDup. Qed.

(* EVERY outcome of `dynamic_obstacles` (all shapes >= 4x4, any number of obstacles, both flags): ValueError (the obstacles do not fit) or
   a well-formed state with exactly the requested number of obstacles *)
Theorem dynamic_obstacles_wf h w n ra own r : 4 <= h -> 4 <= w -> Leaf (reset_dynamic_obstacles h w n ra own) r ->
  r = Err ValueError \/ exists s, r = Ok s /\ wf_check (PDynamicObstacles h w n ra) s = true.
Proof.
  intros Hh Hw HL. unfold reset_dynamic_obstacles in HL. apply Leaf_bind in HL. destruct HL as [(s & Hs & HL)|(x & Hx & ->)].
  2:{ destruct (empty_outcome h w ra false own _ Hh Hw Hx) as (g & pe & pa & oa & E & _). discriminate. }
  destruct (empty_outcome h w ra false own _ Hh Hw Hs) as (g & pe & pa & oa & E & R & Hpe & Hpa & Hne & _ & _). injection E as ->. cbn [sgrid spos] in HL.
  destruct (room_floor_positions h w g pe R Hpe) as [Efl FL]. rewrite Efl in HL. cbn [lift bind] in HL.
  set (fl := filter (fun p => is_ty ty_Floor (lookupH g p)) (gpositions g)) in *.
  set (vacant := filter (fun p => negb (pos_eqb p pa)) fl) in *.
  apply Leaf_bind in HL. destruct HL as [(ps & Hps & HL)|(x & Hx & ->)].
  2:{ apply rchoices_leaf in Hx. destruct Hx as [E|(idx & E & _)]; [left; injection E as ->; reflexivity | discriminate]. }
  apply rchoices_leaf in Hps. destruct Hps as [E|(idx & E & Hlen & Hr & Nd)]; [discriminate|]. injection E as ->.
  destruct (sampled_spec vacant (0, 0) idx (NoDup_vacant g pa) Hr Nd) as (Hin & Nps & Lps).
  set (ps := map (fun i => nthZ vacant i (0, 0)) idx) in *.
  assert (Hps : forall p, In p ps -> inner h w p /\ p <> pe /\ p <> pa).
  { intros p Hp. apply Hin in Hp. unfold vacant in Hp. apply filter_In in Hp. destruct Hp as [Hp1 Hp2]. apply FL in Hp1. destruct Hp1 as [Hi Hq].
    split; [exact Hi|]. split; [exact Hq|]. intros ->. rewrite (proj2 (pos_eqb_iff pa pa) eq_refl) in Hp2. discriminate. }
  destruct (place_spec h w g pe pa MovingObstacle ps R Hpe Hpa Hne Hps ltac:(vm_compute; reflexivity)) as (g' & Ed & W' & Eh & Ew & L & B & Hfloor & Ipa & Hex & Hcount).
  rewrite Ed in HL. cbn [lift bind] in HL. apply Leaf_Ret in HL. subst r. right. eexists; split; [reflexivity|].
  unfold set_grid. cbn [sgrid spos sori sheld]. unfold wf_check.
  destruct (common_from_place h w g' pa pe oa W' Eh Ew B Hfloor Ipa Hex) as [C1 C2]. cbn [sgrid]. rewrite C1, C2. cbn [andb].
  apply Z.eqb_eq. unfold countb. rewrite (cells_at_as g' (is_ty ty_MovingObstacle) ps Nps).
  - rewrite Lps. exact Hlen.
  - apply Hcount; [|vm_compute; reflexivity]. apply (room_no (is_ty ty_MovingObstacle) h w g pe R); vm_compute; reflexivity.
Qed.

(* EVERY outcome of `teleport` (all shapes >= 4x4): a well-formed state with one exit and exactly two telepods of one colour *)
Theorem teleport_wf h w own r : 4 <= h -> 4 <= w -> Leaf (reset_teleport h w own) r ->
  exists s, r = Ok s /\ wf_check (PTeleport h w) s = true.
Proof.
  intros Hh Hw HL. unfold reset_teleport in HL. apply Leaf_bind in HL. destruct HL as [(s & Hs & HL)|(x & Hx & ->)].
  2:{ destruct (empty_outcome h w false false false _ Hh Hw Hx) as (g & pe & pa & oa & E & _). discriminate. }
  destruct (empty_outcome h w false false false _ Hh Hw Hs) as (g & pe & pa & oa & E & R & Hpe & Hpa & Hne & Hfix & Hpefix). injection E as ->.
  destruct (Hfix eq_refl) as [-> ->]. rewrite (Hpefix eq_refl) in *. clear Hfix Hpefix. cbn [sgrid] in HL.
  (* the first orientation draw (its value is not used) never fails *)
  apply Leaf_bind in HL. destruct HL as [(o1 & _ & HL)|(x & Hx & ->)].
  2:{ exfalso. unfold rchoice_of in Hx. apply Leaf_bind in Hx. destruct Hx as [(j & _ & Hx)|(y & Hy & _)]; [apply Leaf_Ret in Hx; discriminate|].
      apply Leaf_rchoice in Hy. destruct Hy as [[Hn _]|(j & _ & E)]; [cbn in Hn; lia | discriminate]. }
  destruct (room_floor_positions h w g (h - 2, w - 2) R Hpe) as [Efl FL]. rewrite Efl in HL. cbn [lift bind] in HL.
  set (fl := filter (fun p => is_ty ty_Floor (lookupH g p)) (gpositions g)) in *.
  set (cand := filter (fun p => negb (pos_eqb p (1, 1))) fl) in *.
  assert (Ncand : NoDup cand) by apply NoDup_vacant.
  assert (C12 : In (1, 2) cand /\ In (2, 1) cand).
  { split; apply filter_In; (split; [apply FL; unfold inner; cbn [fst snd]; split; [lia | intros E; injection E; lia] | reflexivity]). }
  apply Leaf_bind in HL. destruct HL as [(ps & Hps & HL)|(x & Hx & ->)].
  2:{ (* two cells can always be sampled: the candidate list has at least two elements *)
      exfalso. unfold rchoices_of, rsample in Hx. apply Leaf_bind in Hx. destruct Hx as [(j & _ & Hx)|(y & Hy & _)]; [apply Leaf_Ret in Hx; discriminate|].
      assert (L2 : (2 <= length cand)%nat).
      { destruct C12 as [A B]. assert (I2 : incl [(1, 2); (2, 1)] cand) by (intros q [<-|[<-|[]]]; auto).
        apply NoDup_incl_length in I2; [exact I2|]. constructor; [intros [E|[]]; discriminate E | constructor; [intros [] | constructor]]. }
      replace ((2 <? 0) || (Z.of_nat (length cand) <? 2) || ((Z.of_nat (length cand) <=? 0) && negb (2 =? 0))) with false in Hy.
      - inversion Hy as [| |? ? ? ans ? Hv Hl]; subst. apply Leaf_Ret in Hl. discriminate.
      - symmetry. rewrite !orb_false_iff, andb_false_iff, !Z.ltb_ge, Z.leb_gt. lia. }
  apply rchoices_leaf in Hps. destruct Hps as [E|(idx & E & Hlen & Hr & Nd)]; [discriminate|]. injection E as ->.
  destruct (sampled_spec cand (0, 0) idx Ncand Hr Nd) as (Hin & Nps & Lps).
  set (ps := map (fun i => nthZ cand i (0, 0)) idx) in *.
  assert (Hps : forall p, In p ps -> inner h w p /\ p <> (h - 2, w - 2) /\ p <> (1, 1)).
  { intros p Hp. apply Hin in Hp. unfold cand in Hp. apply filter_In in Hp. destruct Hp as [Hp1 Hp2]. apply FL in Hp1. destruct Hp1 as [Hi Hq].
    split; [exact Hi|]. split; [exact Hq|]. intros ->. discriminate. }
  destruct (place_spec h w g (h - 2, w - 2) (1, 1) (Telepod COL_RED) ps R Hpe Hpa Hne Hps ltac:(vm_compute; reflexivity)) as (g' & Ed & W' & Eh & Ew & L & B & Hfloor & Ipa & Hex & Hcount).
  rewrite Ed in HL. cbn [lift bind] in HL.
  apply Leaf_bind in HL. destruct HL as [(oa & _ & HL)|(x & Hx & ->)].
  2:{ exfalso. unfold rchoice_of in Hx. apply Leaf_bind in Hx. destruct Hx as [(j & _ & Hx)|(y & Hy & _)]; [apply Leaf_Ret in Hx; discriminate|].
      apply Leaf_rchoice in Hy. destruct Hy as [[Hn _]|(j & _ & E)]; [cbn in Hn; lia | discriminate]. }
  apply Leaf_Ret in HL. subst r. eexists; split; [reflexivity|]. unfold wf_check. cbn [sgrid].
  destruct (common_from_place h w g' (1, 1) (h - 2, w - 2) oa W' Eh Ew B Hfloor Ipa Hex) as [C1 C2]. rewrite C1, C2. cbn [andb].
  (* exactly two telepods, both RED *)
  assert (Htp : forall q, In q (cells_at g' (is_ty ty_Telepod)) <-> In q ps).
  { apply Hcount; [|vm_compute; reflexivity]. apply (room_no (is_ty ty_Telepod) h w g _ R); vm_compute; reflexivity. }
  assert (Len : length (cells_at g' (is_ty ty_Telepod)) = 2%nat) by (rewrite (cells_at_as g' _ ps Nps Htp), Lps; lia).
  destruct (cells_at g' (is_ty ty_Telepod)) as [|a [|b [|c t]]] eqn:EC; try discriminate Len. cbn [map].
  assert (Ha : In a ps) by (apply Htp; left; auto). assert (Hb : In b ps) by (apply Htp; right; left; auto).
  rewrite !L, (proj2 (memP_iff a ps) Ha), (proj2 (memP_iff b ps) Hb). reflexivity.
Qed.

(* ---------- keydoor ---------- *)
Lemma Leaf_rints g lo hi x : Leaf (rints g lo hi) x <-> (hi < lo /\ x = Err ValueError) \/ (exists i, lo <= i <= hi /\ x = Ok i).
Proof.
  unfold rints. destruct (hi <? lo) eqn:E.
  - apply Z.ltb_lt in E. rewrite Leaf_Raise. split; [auto | intros [[_ H]|(i & H & _)]; [auto | lia]].
  - apply Z.ltb_ge in E. split.
    + intros H. inversion H as [| |g' r' k' ans x' Hv Hl]; subst. apply Leaf_Ret in Hl. subst. right.
      unfold valid_ans in Hv. apply andb_true_iff in Hv. destruct Hv as [Hlen Hr].
      destruct ans as [|i [|? ?]]; cbn [length] in Hlen; try (apply Z.eqb_eq in Hlen; lia).
      apply inrange_one in Hr. exists i. split; [lia | reflexivity].
    + intros [[H _]|(i & Hi & ->)]; [lia|]. apply LDraw with (ans := [i]); [|constructor].
      unfold valid_ans. rewrite (proj2 (inrange_one lo (hi + 1) i)) by lia. reflexivity.
Qed.
Lemma rchoice_of_leaf {A} g (l : list A) d x : l <> [] -> Leaf (rchoice_of g l d) x -> exists a, x = Ok a /\ In a l.
Proof.
  intros Hne H. unfold rchoice_of in H. apply Leaf_bind in H. destruct H as [(i & Hi & H)|(e & He & ->)].
  - apply Leaf_Ret in H. subst x. apply Leaf_rchoice in Hi. destruct Hi as [[_ E]|(j & Hj & E)]; [discriminate|]. injection E as <-.
    eexists; split; [reflexivity|]. unfold nthZ. apply nth_In. lia.
  - exfalso. apply Leaf_rchoice in He. destruct He as [[Hn _]|(j & _ & E)]; [|discriminate]. destruct l; [contradiction | cbn [length] in Hn; lia].
Qed.

Theorem keydoor_wf h w own r : 4 <= h -> 5 <= w -> Leaf (reset_keydoor h w own) r ->
  exists s, r = Ok s /\ wf_check (PKeydoor h w) s = true.
Proof.
  intros Hh Hw HL. unfold reset_keydoor in HL.
  replace ((h <? 3) || (w <? 5) || ((h =? 3) && (w =? 5))) with false in HL
    by (symmetry; rewrite !orb_false_iff, andb_false_iff, !Z.ltb_ge, !Z.eqb_neq; lia).
  apply Leaf_bind in HL. destruct HL as [(s & Hs & HL)|(x & Hx & ->)].
  2:{ destruct (empty_outcome h w false false false _ Hh ltac:(lia) Hx) as (g & pe & pa & oa & E & _). discriminate. }
  destruct (empty_outcome h w false false false _ Hh ltac:(lia) Hs) as (g & pe & pa0 & oa0 & E & R & Hpe & _ & _ & _ & Hpefix). injection E as ->.
  rewrite (Hpefix eq_refl) in *. clear Hpefix. cbn [sgrid] in HL.
  (* the wall column *)
  apply Leaf_bind in HL. destruct HL as [(xw & Hxw & HL)|(x & Hx & ->)].
  2:{ exfalso. apply Leaf_rints in Hx. destruct Hx as [[H _]|(i & _ & E)]; [lia | discriminate]. }
  apply Leaf_rints in Hxw. destruct Hxw as [[H _]|(i & Hi & E)]; [lia|]. injection E as <-.
  set (line := cartesian (zrange 1 (h - 1)) [xw]) in *.
  assert (Hline : forall q, In q line <-> 1 <= fst q <= h - 2 /\ snd q = xw).
  { intros q. unfold line, cartesian. rewrite cartesian_In, zrange_In. cbn [In]. intuition lia. }
  assert (Nline : NoDup line).
  { unfold line, cartesian. apply NoDup_pairs; [apply zrange_n_NoDup | repeat constructor; intros []]. }
  destruct ty_distinct_holds as (D1 & D2 & D3 & D4 & D5).
  destruct (draw_spec line g Wall (rm_wf _ _ _ _ R)) as (g1 & E1 & W1 & Eh1 & Ew1 & L1).
  { intros q Hq. apply Hline in Hq. apply (room_in_grid h w g _ q R). lia. }
  rewrite E1 in HL. cbn [lift bind] in HL.
  assert (IG1 : forall q, in_grid g1 q = in_grid g q) by (intros q; unfold in_grid, garea; now rewrite Eh1, Ew1).
  (* the door *)
  assert (Lne : line <> []).
  { assert (In (1, xw) line) by (apply Hline; cbn [fst snd]; lia). intros E0. rewrite E0 in H. destruct H. }
  apply Leaf_bind in HL. destruct HL as [(pd & Hpd & HL)|(x & Hx & ->)].
  2:{ destruct (rchoice_of_leaf _ line (0, 0) _ Lne Hx) as (a & E & _). discriminate. }
  destruct (rchoice_of_leaf _ line (0, 0) _ Lne Hpd) as (a & E & Hpd_in). injection E as <-. apply Hline in Hpd_in.
  assert (Ipd : in_grid g1 pd = true) by (rewrite IG1; apply (room_in_grid h w g _ pd R); lia).
  rewrite (grid_set_in g1 pd _ W1 Ipd) in HL. cbn [lift bind] in HL.
  set (g2 := gset g1 pd (Door st_LOCKED COL_YELLOW)) in *.
  assert (W2 : wf_grid g2) by (apply wf_gset; auto).
  (* the key *)
  apply Leaf_bind in HL. destruct HL as [(yk & Hyk & HL)|(x & Hx & ->)].
  2:{ exfalso. apply Leaf_rints in Hx. destruct Hx as [[H _]|(j & _ & E)]; [lia | discriminate]. }
  apply Leaf_rints in Hyk. destruct Hyk as [[H _]|(j & Hj & E)]; [lia|]. injection E as ->.
  apply Leaf_bind in HL. destruct HL as [(xk & Hxk & HL)|(x & Hx & ->)].
  2:{ exfalso. apply Leaf_rints in Hx. destruct Hx as [[H _]|(j' & _ & E)]; [lia | discriminate]. }
  apply Leaf_rints in Hxk. destruct Hxk as [[H _]|(j' & Hj' & E)]; [lia|]. injection E as ->.
  assert (Ipk : in_grid g2 (j, j') = true).
  { unfold g2. rewrite in_grid_gset, IG1. apply (room_in_grid h w g _ _ R). cbn [fst snd]. lia. }
  rewrite (grid_set_in g2 (j, j') _ W2 Ipk) in HL. cbn [lift bind] in HL.
  set (g3 := gset g2 (j, j') (Key COL_YELLOW)) in *.
  (* the agent *)
  apply Leaf_bind in HL. destruct HL as [(ya & Hya & HL)|(x & Hx & ->)].
  2:{ exfalso. apply Leaf_rints in Hx. destruct Hx as [[H _]|(k & _ & E)]; [lia | discriminate]. }
  apply Leaf_rints in Hya. destruct Hya as [[H _]|(k & Hk & E)]; [lia|]. injection E as ->.
  apply Leaf_bind in HL. destruct HL as [(xa & Hxa & HL)|(x & Hx & ->)].
  2:{ exfalso. apply Leaf_rints in Hx. destruct Hx as [[H _]|(k' & _ & E)]; [lia | discriminate]. }
  apply Leaf_rints in Hxa. destruct Hxa as [[H _]|(k' & Hk' & E)]; [lia|]. injection E as ->.
  apply Leaf_bind in HL. destruct HL as [(oa & _ & HL)|(x & Hx & ->)].
  2:{ destruct (rchoice_of_leaf _ all_oris FORWARD _ ltac:(vm_compute; discriminate) Hx) as (a & E & _). discriminate. }
  apply Leaf_Ret in HL. subst r. eexists; split; [reflexivity|].
  (* the final grid, cell by cell *)
  assert (W3 : wf_grid g3) by (apply wf_gset; auto).
  assert (Eh3 : gheight g3 = h) by (unfold g3, g2; rewrite !gheight_gset, Eh1; apply (rm_h _ _ _ _ R)).
  assert (Ew3 : gwidth g3 = w) by (unfold g3, g2; rewrite !gwidth_gset, Ew1; apply (rm_w _ _ _ _ R)).
  assert (IG3 : forall q, in_grid g3 q = in_grid g q) by (intros q; unfold g3, g2; rewrite !in_grid_gset; apply IG1).
  assert (L3 : forall q, in_grid g q = true -> lookupH g3 q =
            if pos_eqb (j, j') q then Key COL_YELLOW else if pos_eqb pd q then Door st_LOCKED COL_YELLOW
            else if memP q line then Wall else lookupH g q).
  { intros q Iq. unfold g3. rewrite (lookupH_gset g2 (j, j') q _ W2 Ipk). destruct (pos_eqb (j, j') q); auto.
    unfold g2. rewrite (lookupH_gset g1 pd q _ W1 Ipd). destruct (pos_eqb pd q); auto. rewrite L1, Iq. reflexivity. }
  set (pex := (h - 2, w - 2)) in *.
  assert (Hkd : (j, j') <> pd) by (intros E; rewrite <- E in Hpd_in; cbn [fst snd] in Hpd_in; lia).
  unfold wf_check.
  assert (C : common_ok (mkS g3 (k, k') oa NoneObj) h w = true).
  { unfold common_ok, shape_is, agent_ok. cbn [sgrid spos sheld]. rewrite !andb_true_iff.
    assert (Ia : in_grid g (k, k') = true) by (apply (room_in_grid h w g _ _ R); cbn [fst snd]; lia).
    assert (Hcell : lookupH g3 (k, k') = Key COL_YELLOW \/ lookupH g3 (k, k') = Floor).
    { rewrite (L3 _ Ia). destruct (pos_eqb (j, j') (k, k')); [left; reflexivity|]. right.
      destruct (pos_eqb pd (k, k')) eqn:E; [apply pos_eqb_iff in E; rewrite E in Hpd_in; cbn [fst snd] in Hpd_in; lia|].
      destruct (memP (k, k') line) eqn:M; [apply memP_iff, Hline in M; cbn [fst snd] in M; lia|].
      apply (room_floor h w g pex (k, k') R); [unfold inner; cbn [fst snd]; lia | intros E'; injection E' as E1' E2'; lia]. }
    repeat split.
    - now apply wf_gridb_spec.
    - now apply Z.eqb_eq.
    - now apply Z.eqb_eq.
    - unfold border_walls. apply forallb_forall. intros q Hq. apply border_In in Hq. unfold garea in Hq. cbn [ymin ymax xmin xmax] in Hq. rewrite Eh3, Ew3 in Hq.
      assert (Iq : in_grid g q = true) by (apply (room_in_grid h w g pex q R); lia).
      rewrite (L3 q Iq).
      destruct (pos_eqb (j, j') q) eqn:Ea; [apply pos_eqb_iff in Ea; subst q; cbn [fst snd] in Hq; lia|].
      destruct (pos_eqb pd q) eqn:Eb; [apply pos_eqb_iff in Eb; subst q; lia|].
      destruct (memP q line) eqn:M; [reflexivity|].
      pose proof (room_border_walls h w g pex R Hpe) as B. unfold border_walls in B. rewrite forallb_forall in B. apply B.
      apply border_In. unfold garea. cbn [ymin ymax xmin xmax]. rewrite (rm_h _ _ _ _ R), (rm_w _ _ _ _ R). exact Hq.
    - rewrite IG3. exact Ia.
    - destruct Hcell as [-> | ->]; vm_compute; reflexivity.
    - destruct Hcell as [-> | ->]; vm_compute; reflexivity.
    - destruct Hcell as [-> | ->]; vm_compute; reflexivity.
    - destruct Hcell as [-> | ->]; vm_compute; reflexivity. }
  rewrite C. cbn [andb].
  (* the inventory: one door, one key, one exit, and their arrangement *)
  assert (Room_ty : forall q, in_grid g q = true -> forall t, t <> ty_Exit -> t <> ty_Wall -> t <> ty_Floor -> is_ty t (lookupH g q) = false).
  { intros q Iq t T1 T2 T3. rewrite (rm_cells _ _ _ _ R q Iq). destruct (pos_eqb pex q); [|destruct (is_border h w q)]; unfold is_ty, Exit, Wall, Floor, mk0; cbn [oty]; now apply Z.eqb_neq; congruence. }
  assert (Doors : forall q, In q (cells_at g3 (is_ty ty_Door)) <-> q = pd).
  { intros q. rewrite cells_at_In, IG3. split.
    - intros [Iq Hq]. rewrite (L3 q Iq) in Hq. destruct (pos_eqb (j, j') q); [vm_compute in Hq; discriminate|].
      destruct (pos_eqb pd q) eqn:Eb; [apply pos_eqb_iff in Eb; auto|]. destruct (memP q line); [vm_compute in Hq; discriminate|].
      rewrite (Room_ty q Iq ty_Door) in Hq by (vm_compute; discriminate). discriminate.
    - intros ->. assert (Iq : in_grid g pd = true) by (rewrite <- IG1; exact Ipd). split; auto. rewrite (L3 pd Iq).
      destruct (pos_eqb (j, j') pd) eqn:Ea; [apply pos_eqb_iff in Ea; contradiction|]. rewrite (proj2 (pos_eqb_iff pd pd) eq_refl). vm_compute. reflexivity. }
  assert (Keys : forall q, In q (cells_at g3 (is_ty ty_Key)) <-> q = (j, j')).
  { intros q. rewrite cells_at_In, IG3. split.
    - intros [Iq Hq]. rewrite (L3 q Iq) in Hq. destruct (pos_eqb (j, j') q) eqn:Ea; [apply pos_eqb_iff in Ea; auto|].
      destruct (pos_eqb pd q); [vm_compute in Hq; discriminate|]. destruct (memP q line); [vm_compute in Hq; discriminate|].
      rewrite (Room_ty q Iq ty_Key) in Hq by (vm_compute; discriminate). discriminate.
    - intros ->. assert (Iq : in_grid g (j, j') = true) by (apply (room_in_grid h w g _ _ R); cbn [fst snd]; lia). split; auto.
      rewrite (L3 _ Iq), (proj2 (pos_eqb_iff (j, j') (j, j')) eq_refl). vm_compute. reflexivity. }
  assert (Exits : forall q, In q (cells_at g3 (is_ty ty_Exit)) <-> q = pex).
  { intros q. rewrite cells_at_In, IG3. split.
    - intros [Iq Hq]. rewrite (L3 q Iq) in Hq. destruct (pos_eqb (j, j') q); [vm_compute in Hq; discriminate|].
      destruct (pos_eqb pd q); [vm_compute in Hq; discriminate|]. destruct (memP q line); [vm_compute in Hq; discriminate|].
      apply (room_exit_unique h w g pex R Hpe q). apply cells_at_In. auto.
    - intros ->. assert (Iq : in_grid g pex = true) by (apply (room_in_grid h w g _ _ R); unfold pex; cbn [fst snd]; lia). split; auto.
      rewrite (L3 _ Iq).
      destruct (pos_eqb (j, j') pex) eqn:Ea; [apply pos_eqb_iff in Ea; unfold pex in Ea; injection Ea as Ea1 Ea2; lia|].
      destruct (pos_eqb pd pex) eqn:Eb; [apply pos_eqb_iff in Eb; rewrite Eb in Hpd_in; unfold pex in Hpd_in; cbn [fst snd] in Hpd_in; lia|].
      destruct (memP pex line) eqn:M; [apply memP_iff, Hline in M; unfold pex in M; cbn [fst snd] in M; lia|].
      rewrite (rm_cells _ _ _ _ R pex Iq), (proj2 (pos_eqb_iff pex pex) eq_refl). vm_compute. reflexivity. }
  unfold keydoor_ok. cbn [sgrid spos].
  assert (Single : forall f p, (forall q, In q (cells_at g3 f) <-> q = p) -> cells_at g3 f = [p]).
  { intros f p H. pose proof (cells_at_single g3 f p H) as Len. destruct (cells_at g3 f) as [|a [|b t]]; try discriminate Len.
    f_equal. apply H. left; auto. }
  rewrite (Single _ _ Doors), (Single _ _ Keys), (Single _ _ Exits).
  assert (Ipd' : in_grid g pd = true) by (rewrite <- IG1; exact Ipd).
  assert (Ipk' : in_grid g (j, j') = true) by (apply (room_in_grid h w g _ _ R); cbn [fst snd]; lia).
  rewrite (L3 pd Ipd'), (L3 _ Ipk').
  destruct (pos_eqb (j, j') pd) eqn:Ea; [apply pos_eqb_iff in Ea; contradiction|].
  rewrite (proj2 (pos_eqb_iff pd pd) eq_refl), (proj2 (pos_eqb_iff (j, j') (j, j')) eq_refl).
  rewrite !andb_true_iff. repeat split.
  - (* the door sits in a full wall column *)
    apply forallb_forall. intros y Hy. apply zrange_In in Hy. rewrite Eh3 in Hy. apply orb_true_iff.
    destruct (Z.eq_dec y (fst pd)) as [->|Ny]; [left; apply Z.eqb_refl | right].
    assert (Iq : in_grid g (y, snd pd) = true) by (apply (room_in_grid h w g _ _ R); cbn [fst snd]; lia).
    rewrite (L3 _ Iq).
    destruct (pos_eqb (j, j') (y, snd pd)) eqn:E1'; [apply pos_eqb_iff in E1'; injection E1' as _ E2'; lia|].
    destruct (pos_eqb pd (y, snd pd)) eqn:E2'; [apply pos_eqb_iff in E2'; rewrite E2' in Ny; cbn [fst] in Ny; contradiction|].
    destruct (memP (y, snd pd) line) eqn:M; [vm_compute; reflexivity|].
    apply memP_false in M. rewrite Hline in M. cbn [fst snd] in M.
    (* not on the line: the boundary rows *)
    rewrite (rm_cells _ _ _ _ R _ Iq).
    destruct (pos_eqb pex (y, snd pd)) eqn:E3'; [apply pos_eqb_iff in E3'; unfold pex in E3'; injection E3' as E3a E3b; lia|].
    replace (is_border h w (y, snd pd)) with true; [vm_compute; reflexivity|]. symmetry. unfold is_border. cbn [fst snd]. rewrite !orb_true_iff, !Z.eqb_eq. lia.
  - apply Z.ltb_lt. cbn [snd]. lia.
  - apply Z.ltb_lt. cbn [snd]. lia.
  - apply Z.ltb_lt. unfold pex. cbn [snd]. lia.
Qed.
