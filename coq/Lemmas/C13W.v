(* C13, general part: `empty` produces a well-formed initial state for EVERY shape >= 4x4, every flag combination and every
   random outcome (no bound).  The other reset functions are covered by kernel-evaluated outcome trees (Props/C13.v). *)
From Coq Require Import ZArith List Bool Lia.
From GV.Model Require Import Check.
From GV.Lemmas Require Import GridL RotL RandL GeomL BfsL.
Import ListNotations.
Open Scope Z_scope.

(* ---------- drawing a list of in-grid positions ---------- *)
Lemma draw_spec ps : forall g o, wf_grid g -> (forall p, In p ps -> in_grid g p = true) ->
  exists g', draw g ps o = Ok g' /\ wf_grid g' /\ gheight g' = gheight g /\ gwidth g' = gwidth g /\
             forall q, lookupH g' q = if memP q ps then (if in_grid g q then o else Hidden) else lookupH g q.
Proof.
  induction ps as [|p t IH]; intros g o W Hin; cbn [draw].
  - exists g. split; [reflexivity|]. split; [exact W|]. split; [reflexivity|]. split; [reflexivity|]. intros q. reflexivity.
  - assert (Hp : in_grid g p = true) by (apply Hin; left; auto).
    rewrite (grid_set_in g p o W Hp). cbn [rbind].
    destruct (IH (gset g p o) o (wf_gset g p o W)) as (g' & E & W' & Eh & Ew & L).
    { intros q Hq. rewrite in_grid_gset. apply Hin. right; auto. }
    exists g'. rewrite E, Eh, Ew, gheight_gset, gwidth_gset. split; [reflexivity|]. split; [exact W'|]. split; [reflexivity|]. split; [reflexivity|].
    intros q. rewrite L, in_grid_gset, (lookupH_gset g p q o W Hp). unfold memP. cbn [existsb].
    fold (memP q t). destruct (memP q t) eqn:Em; [now rewrite orb_true_r|]. rewrite orb_false_r.
    destruct (pos_eqb q p) eqn:E1.
    + apply pos_eqb_iff in E1. subst q. rewrite (proj2 (pos_eqb_iff p p) eq_refl), Hp. reflexivity.
    + destruct (pos_eqb p q) eqn:E2; auto. apply pos_eqb_iff in E2. subst q. rewrite (proj2 (pos_eqb_iff p p) eq_refl) in E1. discriminate.
Qed.

(* ---------- the blank grid ---------- *)
Lemma blank_grid h w o : 1 <= h -> 1 <= w ->
  wf_grid (grid_from_shape h w o) /\ gheight (grid_from_shape h w o) = h /\ gwidth (grid_from_shape h w o) = w /\
  forall q, in_grid (grid_from_shape h w o) q = true -> lookupH (grid_from_shape h w o) q = o.
Proof.
  intros Hh Hw. unfold grid_from_shape.
  assert (W : wf_grid (tab (Z.to_nat h) (Z.to_nat w) (fun _ _ => o))) by (apply wf_tab; lia).
  assert (Eh : gheight (tab (Z.to_nat h) (Z.to_nat w) (fun _ _ => o)) = h) by (rewrite gheight_hN; unfold hN; rewrite hN_tab; lia).
  assert (Ew : gwidth (tab (Z.to_nat h) (Z.to_nat w) (fun _ _ => o)) = w) by (rewrite gwidth_wN, wN_tab by lia; lia).
  split; [exact W|]. split; [exact Eh|]. split; [exact Ew|]. intros q Hq. rewrite (lookupH_get0 _ q W Hq). apply in_grid_spec in Hq. rewrite Eh, Ew in Hq. apply get0_tab; lia.
Qed.

(* ---------- positions of an area ---------- *)
Lemma cartesian_In (ys xs : list Z) (p : pos) : In p (flat_map (fun y => map (fun x => (y, x)) xs) ys) <-> In (fst p) ys /\ In (snd p) xs.
Proof.
  rewrite in_flat_map. split.
  - intros (y & Hy & H). apply in_map_iff in H. destruct H as (x & <- & Hx). auto.
  - intros [Hy Hx]. exists (fst p). split; auto. apply in_map_iff. exists (snd p). split; auto. destruct p; reflexivity.
Qed.
Lemma border_In a p : In p (apositions_border a) <->
  ((fst p = ymin a \/ fst p = ymax a) /\ xmin a <= snd p <= xmax a) \/ (ymin a + 1 <= fst p < ymax a /\ (snd p = xmin a \/ snd p = xmax a)).
Proof.
  unfold apositions_border. rewrite in_app_iff, !cartesian_In, !zrange_In. cbn [In]. split.
  - intros [[H1 H2]|[H1 H2]]; [left | right]; split; try lia; intuition.
  - intros [[H1 H2]|[H1 H2]]; [left | right]; split; try lia; intuition.
Qed.
Lemma inside_In a p : In p (apositions_inside a) <-> ymin a + 1 <= fst p < ymax a /\ xmin a + 1 <= snd p < xmax a.
Proof. unfold apositions_inside. rewrite cartesian_In, !zrange_In. tauto. Qed.

(* ---------- counting cells ---------- *)
Lemma cells_at_In g f p : In p (cells_at g f) <-> in_grid g p = true /\ f (lookupH g p) = true.
Proof. unfold cells_at. rewrite filter_In, gpositions_In. tauto. Qed.
Lemma NoDup_filter {A} (f : A -> bool) l : NoDup l -> NoDup (filter f l).
Proof. induction 1 as [|x t Hn Hd IH]; cbn; [constructor|]. destruct (f x); auto. constructor; auto. rewrite filter_In. tauto. Qed.
Lemma cells_at_single g f p : (forall q, In q (cells_at g f) <-> q = p) -> length (cells_at g f) = 1%nat.
Proof.
  intros H. assert (Nd : NoDup (cells_at g f)) by (apply NoDup_filter, gpositions_NoDup).
  destruct (cells_at g f) as [|a [|b t]] eqn:E; cbn.
  - exfalso. apply (proj2 (H p) eq_refl).
  - reflexivity.
  - exfalso. assert (a = p) by (apply H; left; auto). assert (b = p) by (apply H; right; left; auto). subst.
    inversion Nd as [|? ? Hn _]; subst. apply Hn. left; auto.
Qed.

(* ---------- empty ---------- *)
Definition ty_distinct : Prop := ty_Floor <> ty_Wall /\ ty_Floor <> ty_Exit /\ ty_Wall <> ty_Exit /\ ty_Floor <> ty_MovingObstacle /\ ty_Floor <> ty_Telepod.
Lemma ty_distinct_holds : ty_distinct.
Proof. unfold ty_distinct. repeat split; vm_compute; discriminate. Qed.

Theorem empty_wf h w ra re own r : 4 <= h -> 4 <= w -> Leaf (reset_empty h w ra re own) r ->
  exists s, r = Ok s /\ wf_check (PEmpty h w ra re) s = true.
Proof.
  intros Hh Hw HL. unfold reset_empty in HL.
  replace ((h <? 4) || (w <? 4)) with false in HL by (symmetry; apply orb_false_iff; rewrite !Z.ltb_ge; lia).
  destruct (blank_grid h w Floor ltac:(lia) ltac:(lia)) as (W0 & Eh0 & Ew0 & L0).
  set (g0 := grid_from_shape h w Floor) in *.
  (* the boundary *)
  destruct (draw_spec (apositions_border (garea g0)) g0 Wall W0) as (g1 & E1 & W1 & Eh1 & Ew1 & L1).
  { intros p Hp. apply border_In in Hp. apply in_grid_spec. unfold garea in Hp. cbn [ymin ymax xmin xmax] in Hp. lia. }
  rewrite E1 in HL. cbn [lift bind] in HL.
  assert (Ar : garea g1 = garea g0) by (unfold garea; now rewrite Eh1, Ew1).
  assert (IG : forall q, in_grid g1 q = in_grid g0 q) by (intros q; unfold in_grid; now rewrite Ar).
  assert (Bg0 : forall q, In q (apositions_border (garea g0)) <-> in_grid g0 q = true /\ (fst q = 0 \/ fst q = h - 1 \/ snd q = 0 \/ snd q = w - 1)).
  { intros q. rewrite border_In, in_grid_spec. unfold garea. cbn [ymin ymax xmin xmax]. rewrite Eh0, Ew0. lia. }
  assert (Lg1 : forall q, in_grid g0 q = true -> lookupH g1 q = if (fst q =? 0) || (fst q =? h - 1) || (snd q =? 0) || (snd q =? w - 1) then Wall else Floor).
  { intros q Hq. rewrite L1, Hq, (L0 q Hq).
    destruct ((fst q =? 0) || (fst q =? h - 1) || (snd q =? 0) || (snd q =? w - 1)) eqn:B.
    - rewrite (proj2 (memP_iff _ _)); auto. apply Bg0. split; auto. rewrite !orb_true_iff, !Z.eqb_eq in B. tauto.
    - destruct (memP q (apositions_border (garea g0))) eqn:M; auto. apply memP_iff, Bg0 in M.
      rewrite !orb_false_iff, !Z.eqb_neq in B. lia. }
  (* the exit position pe: inside, and never the fixed agent cell *)
  assert (EXIT : forall pe, (1 <= fst pe <= h - 2 /\ 1 <= snd pe <= w - 2) -> (ra = false -> pe <> (1, 1)) ->
     forall k r0, (forall g2, grid_set g1 pe (Exit 0) = Ok g2 -> Leaf (k g2) r0 -> exists s, r0 = Ok s /\ wf_check (PEmpty h w ra re) s = true) ->
     Leaf (bind (lift (grid_set g1 pe (Exit 0))) k) r0 -> exists s, r0 = Ok s /\ wf_check (PEmpty h w ra re) s = true).
  { intros pe Hpe _ k r0 Hk HL0. assert (Ipe : in_grid g1 pe = true) by (rewrite IG; apply in_grid_spec; lia).
    rewrite (grid_set_in g1 pe (Exit 0) W1 Ipe) in HL0. cbn [lift bind] in HL0. eapply Hk; eauto. apply grid_set_in; auto. }
  (* the state reached once the exit is placed at pe and the agent at pa *)
  assert (FIN : forall pe pa oa, (1 <= fst pe <= h - 2 /\ 1 <= snd pe <= w - 2) -> (1 <= fst pa <= h - 2 /\ 1 <= snd pa <= w - 2) -> pa <> pe ->
     wf_check (PEmpty h w ra re) (mkS (gset g1 pe (Exit 0)) pa oa NoneObj) = true).
  { intros pe pa oa Hpe Hpa Hne. assert (Ipe : in_grid g1 pe = true) by (rewrite IG; apply in_grid_spec; lia).
    set (g2 := gset g1 pe (Exit 0)).
    assert (W2 : wf_grid g2) by (apply wf_gset; auto).
    assert (Eh2 : gheight g2 = h) by (unfold g2; rewrite gheight_gset; lia).
    assert (Ew2 : gwidth g2 = w) by (unfold g2; rewrite gwidth_gset; lia).
    assert (L2 : forall q, lookupH g2 q = if pos_eqb pe q then Exit 0 else lookupH g1 q) by (intros q; apply lookupH_gset; auto).
    assert (IG2 : forall q, in_grid g2 q = in_grid g0 q) by (intros q; unfold g2; rewrite in_grid_gset; apply IG).
    destruct ty_distinct_holds as (D1 & D2 & D3 & D4 & D5).
    assert (Hfloor : lookupH g2 pa = Floor).
    { assert (Ipa : in_grid g0 pa = true) by (apply in_grid_spec; lia).
      rewrite L2. destruct (pos_eqb pe pa) eqn:E; [apply pos_eqb_iff in E; congruence|]. rewrite (Lg1 pa Ipa).
      replace ((fst pa =? 0) || (fst pa =? h - 1) || (snd pa =? 0) || (snd pa =? w - 1)) with false; [reflexivity|].
      symmetry; rewrite !orb_false_iff, !Z.eqb_neq; lia. }
    unfold wf_check, common_ok, shape_is, agent_ok. cbn [sgrid spos sheld]. rewrite !andb_true_iff. repeat split.
    - now apply wf_gridb_spec.
    - now apply Z.eqb_eq.
    - now apply Z.eqb_eq.
    - (* unbroken wall boundary *)
      unfold border_walls. apply forallb_forall. intros q Hq.
      assert (Aq : garea g2 = garea g0) by (unfold garea; rewrite Eh2, Ew2, Eh0, Ew0; reflexivity). rewrite Aq in Hq. apply Bg0 in Hq. destruct Hq as [Iq Bq].
      rewrite L2. destruct (pos_eqb pe q) eqn:E; [apply pos_eqb_iff in E; subst q; lia|].
      rewrite (Lg1 q Iq). replace ((fst q =? 0) || (fst q =? h - 1) || (snd q =? 0) || (snd q =? w - 1)) with true; [reflexivity|].
      symmetry. rewrite !orb_true_iff, !Z.eqb_eq. tauto.
    - rewrite IG2. apply in_grid_spec. lia.
    - rewrite Hfloor. vm_compute. reflexivity.
    - rewrite Hfloor. vm_compute. reflexivity.
    - rewrite Hfloor. vm_compute. reflexivity.
    - rewrite Hfloor. vm_compute. reflexivity.
    - (* exactly one exit *)
      apply Z.eqb_eq. unfold countb. rewrite (cells_at_single g2 (is_ty ty_Exit) pe); [reflexivity|].
      intros q. rewrite cells_at_In, IG2, L2. split.
      + intros [Iq Hq]. destruct (pos_eqb pe q) eqn:E; [apply pos_eqb_iff in E; auto|]. rewrite (Lg1 q Iq) in Hq.
        exfalso. destruct ((fst q =? 0) || (fst q =? h - 1) || (snd q =? 0) || (snd q =? w - 1)); unfold is_ty, Wall, Floor, mk0 in Hq; cbn [oty] in Hq; apply Z.eqb_eq in Hq; congruence.
      + intros ->. split; [apply in_grid_spec; lia|]. rewrite (proj2 (pos_eqb_iff pe pe) eq_refl). unfold is_ty, Exit. cbn [oty]. apply Z.eqb_refl. }
  (* now follow the code: where the exit goes, then where the agent goes *)
  apply Leaf_bind in HL. destruct HL as [(pe & Hpe & HL)|(x & Hx & ->)].
  2:{ (* choosing the exit position cannot fail: the candidate list is not empty *)
      exfalso. destruct re; [|apply Leaf_Ret in Hx; discriminate].
      unfold rchoice_of in Hx. apply Leaf_bind in Hx. destruct Hx as [(i & _ & Hx)|(y & Hy & _)]; [apply Leaf_Ret in Hx; discriminate|].
      apply Leaf_rchoice in Hy. destruct Hy as [[Hn _]|(i & _ & E)]; [|discriminate].
      assert (Hin : In (2, 2) (filter (fun p => ra || negb (pos_eqb p (1, 1))) (apositions_inside (garea g1)))).
      { apply filter_In. split; [apply inside_In; rewrite Ar; unfold garea; cbn [ymin ymax xmin xmax fst snd]; lia|]. cbn. apply orb_true_r. }
      destruct (filter (fun p => ra || negb (pos_eqb p (1, 1))) (apositions_inside (garea g1))); [destruct Hin | cbn in Hn; lia]. }
  assert (Hpe_in : (1 <= fst pe <= h - 2 /\ 1 <= snd pe <= w - 2) /\ (ra = false -> pe <> (1, 1))).
  { destruct re.
    - unfold rchoice_of in Hpe. apply Leaf_bind_Ok in Hpe. destruct Hpe as (i & Hi & Hr). apply Leaf_Ret in Hr. injection Hr as ->.
      apply Leaf_rchoice in Hi. destruct Hi as [[_ Hi]|(i' & Hi' & E)]; [discriminate|]. injection E as <-.
      set (cands := filter (fun p => ra || negb (pos_eqb p (1, 1))) (apositions_inside (garea g1))) in *.
      assert (Hin : In (nthZ cands i (0, 0)) cands) by (unfold nthZ; apply nth_In; lia).
      unfold cands in Hin at 2. apply filter_In in Hin. destruct Hin as [Hi1 Hi2]. apply inside_In in Hi1. rewrite Ar in Hi1. unfold garea in Hi1. cbn [ymin ymax xmin xmax] in Hi1.
      split; [lia|]. intros ->. cbn [orb] in Hi2. apply negb_true_iff in Hi2. intros E. rewrite E in Hi2. rewrite (proj2 (pos_eqb_iff (1, 1) (1, 1)) eq_refl) in Hi2. discriminate.
    - apply Leaf_Ret in Hpe. injection Hpe as ->. cbn [fst snd]. split; [lia|]. intros _ E. injection E as Ea Eb. lia. }
  destruct Hpe_in as [Hpe_in Hpe_ne].
  eapply (EXIT pe Hpe_in Hpe_ne _ r); [|exact HL]. clear HL. intros g2 E2 HL.
  assert (Ipe : in_grid g1 pe = true) by (rewrite IG; apply in_grid_spec; lia).
  rewrite (grid_set_in g1 pe (Exit 0) W1 Ipe) in E2. injection E2 as <-.
  destruct ra.
  - (* random agent: a floor cell of the grid with the exit in place, any heading *)
    set (g2 := gset g1 pe (Exit 0)) in *.
    assert (W2 : wf_grid g2) by (apply wf_gset; auto).
    assert (L2 : forall q, lookupH g2 q = if pos_eqb pe q then Exit 0 else lookupH g1 q) by (intros q; apply lookupH_gset; auto).
    assert (IG2 : forall q, in_grid g2 q = in_grid g0 q) by (intros q; unfold g2; rewrite in_grid_gset; apply IG).
    unfold floor_positions in HL. rewrite (positions_where_ok g2 (is_ty ty_Floor) (gpositions g2) W2) in HL by (intros q Hq; now apply gpositions_In).
    cbn [lift bind] in HL. set (fl := filter (fun p => is_ty ty_Floor (lookupH g2 p)) (gpositions g2)) in *.
    destruct ty_distinct_holds as (D1 & D2 & D3 & D4 & D5).
    (* floor cells are exactly the inner cells other than the exit *)
    assert (FL : forall q, In q fl <-> (1 <= fst q <= h - 2 /\ 1 <= snd q <= w - 2) /\ q <> pe).
    { intros q. unfold fl. rewrite filter_In, gpositions_In, IG2, L2. split.
      - intros [Iq Hq]. destruct (pos_eqb pe q) eqn:E; [unfold is_ty, Exit in Hq; cbn [oty] in Hq; apply Z.eqb_eq in Hq; congruence|].
        rewrite (Lg1 q Iq) in Hq. apply in_grid_spec in Iq. rewrite Eh0, Ew0 in Iq.
        destruct ((fst q =? 0) || (fst q =? h - 1) || (snd q =? 0) || (snd q =? w - 1)) eqn:B.
        + unfold is_ty, Wall, mk0 in Hq. cbn [oty] in Hq. apply Z.eqb_eq in Hq. congruence.
        + rewrite !orb_false_iff, !Z.eqb_neq in B. split; [lia|]. intros ->. rewrite (proj2 (pos_eqb_iff pe pe) eq_refl) in E. discriminate.
      - intros [Hq Hne]. assert (Iq : in_grid g0 q = true) by (apply in_grid_spec; lia). split; auto.
        destruct (pos_eqb pe q) eqn:E; [apply pos_eqb_iff in E; congruence|]. rewrite (Lg1 q Iq).
        replace ((fst q =? 0) || (fst q =? h - 1) || (snd q =? 0) || (snd q =? w - 1)) with false by (symmetry; rewrite !orb_false_iff, !Z.eqb_neq; lia).
        unfold is_ty, Floor, mk0. cbn [oty]. apply Z.eqb_refl. }
    assert (NE : fl <> []).
    { destruct (pos_eqb pe (1, 1)) eqn:E.
      - apply pos_eqb_iff in E. assert (H12 : In (1, 2) fl) by (apply FL; cbn [fst snd]; split; [lia | intros E'; rewrite <- E' in E; discriminate]). intros E0. rewrite E0 in H12. destruct H12.
      - assert (H11 : In (1, 1) fl) by (apply FL; cbn [fst snd]; split; [lia | intros E'; rewrite <- E' in E; rewrite (proj2 (pos_eqb_iff (1, 1) (1, 1)) eq_refl) in E; discriminate]).
        intros E0. rewrite E0 in H11. destruct H11. }
    unfold rchoice_of in HL. apply Leaf_bind in HL. destruct HL as [(pa & Hpa & HL)|(x & Hx & ->)].
    + apply Leaf_bind_Ok in Hpa. destruct Hpa as (i & Hi & Hr). apply Leaf_Ret in Hr. injection Hr as ->.
      apply Leaf_rchoice in Hi. destruct Hi as [[_ Hi]|(i' & Hi' & E)]; [discriminate|]. injection E as <-.
      assert (Hin : In (nthZ fl i (0, 0)) fl) by (unfold nthZ; apply nth_In; lia). apply FL in Hin. destruct Hin as [Hpa Hne].
      apply Leaf_bind in HL. destruct HL as [(oa & Hoa & HL)|(x & Hx & ->)].
      * apply Leaf_Ret in HL. subst r. eexists; split; [reflexivity|]. apply FIN; auto.
      * exfalso. apply Leaf_bind in Hx. destruct Hx as [(j & _ & Hx)|(y & Hy & _)]; [apply Leaf_Ret in Hx; discriminate|].
        apply Leaf_rchoice in Hy. destruct Hy as [[Hn _]|(j & _ & E)]; [vm_compute in Hn; apply Hn; reflexivity | discriminate].
    + exfalso. apply Leaf_bind in Hx. destruct Hx as [(j & _ & Hx)|(y & Hy & _)]; [apply Leaf_Ret in Hx; discriminate|].
      apply Leaf_rchoice in Hy. destruct Hy as [[Hn _]|(j & _ & E)]; [|discriminate]. destruct fl; [contradiction | cbn [length] in Hn; lia].
  - apply Leaf_Ret in HL. subst r. eexists; split; [reflexivity|]. apply FIN; auto; cbn [fst snd]; try lia. intros E. apply (Hpe_ne eq_refl). auto.
Qed.
