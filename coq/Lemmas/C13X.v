(* C13, general part (continued): `crossing` never fails and never produces an ill-formed state, for EVERY odd shape >= 5x5, every number of
   rivers, every river object other than an exit and every random outcome: the result is a state with the requested shape, an unbroken wall
   boundary, exactly one exit (bottom-right inner cell), the agent empty-handed on the floor cell (1,1). *)
From Coq Require Import ZArith List Bool Lia Permutation ZifyBool.
From GV.Model Require Import Check.
From GV.Lemmas Require Import GridL RotL RandL GeomL BfsL C02L C13W C13M.
Import ListNotations.
Open Scope Z_scope.
Ltac Zify.zify_post_hook ::= Z.to_euclidean_division_equations.

(* ---------- permutations drawn by rperm ---------- *)
Lemma Leaf_rperm g n x : Leaf (rperm g n) x ->
  exists ans, x = Ok ans /\ Z.of_nat (length ans) = n /\ (forall i, In i ans -> 0 <= i < n) /\ NoDup ans.
Proof.
  unfold rperm. intros H. inversion H as [| |? ? ? ans ? Hv Hl]; subst. apply Leaf_Ret in Hl. subst x. exists ans. split; [reflexivity|].
  unfold valid_ans in Hv. rewrite !andb_true_iff, Z.eqb_eq in Hv. destruct Hv as [[H1 H2] H3].
  split; [exact H1|]. split; [now apply inrange_all | now apply nodupb_NoDup].
Qed.
Lemma map_nth_zrange {A} (d : A) : forall l lo, map (fun i => nth (Z.to_nat (i - lo)) l d) (zrange_n lo (length l)) = l.
Proof.
  induction l as [|a t IH]; intros lo; [reflexivity|]. cbn [length zrange_n map]. f_equal.
  - replace (lo - lo) with 0 by lia. reflexivity.
  - rewrite <- (IH (lo + 1)) at 2. apply map_ext_in. intros i Hi. apply zrange_n_In in Hi.
    replace (Z.to_nat (i - lo)) with (S (Z.to_nat (i - (lo + 1)))) by lia. reflexivity.
Qed.
(* reading a list through a permutation of its indices gives a permutation of the list *)
Lemma perm_read {A} (l : list A) (d : A) (perm : list Z) : Z.of_nat (length perm) = Z.of_nat (length l) ->
  (forall i, In i perm -> 0 <= i < Z.of_nat (length l)) -> NoDup perm -> Permutation (map (fun i => nthZ l i d) perm) l.
Proof.
  intros Hlen Hr Nd.
  assert (P : Permutation perm (zrange 0 (Z.of_nat (length l)))).
  { apply NoDup_Permutation_bis; [exact Nd | |].
    - unfold zrange. assert (E : forall lo n, length (zrange_n lo n) = n) by (intros lo n; revert lo; induction n; intros lo; cbn; auto). rewrite E. lia.
    - intros i Hi. apply zrange_In. now apply Hr. }
  eapply perm_trans; [apply Permutation_map, P|]. unfold zrange. replace (Z.to_nat (Z.of_nat (length l) - 0)) with (length l) by lia.
  rewrite <- (map_nth_zrange d l 0) at 2. apply Permutation_refl' . apply map_ext. intros i. unfold nthZ. now rewrite Z.sub_0_r.
Qed.

(* consecutive entries differ by at least two *)
Inductive gap2 : list Z -> Prop :=
| gap2_nil : gap2 [] | gap2_one x : gap2 [x] | gap2_cons x y t : x + 2 <= y -> gap2 (y :: t) -> gap2 (x :: y :: t).
Lemma gap2_nth l : gap2 l -> forall k, (S k < length l)%nat -> nth k l 0 + 2 <= nth (S k) l 0.
Proof.
  induction 1 as [|x|x y t Hxy Ht IH]; intros k Hk; cbn [length] in Hk; try lia.
  destruct k as [|k]; [cbn [nth]; exact Hxy|]. change (nth (S k) (x :: y :: t) 0) with (nth k (y :: t) 0). change (nth (S (S k)) (x :: y :: t) 0) with (nth (S k) (y :: t) 0).
  apply IH. cbn [length]. lia.
Qed.
Lemma gap2_build e : forall rs a, a mod 2 = 0 -> a + 2 <= e -> (forall x, In x rs -> a < x /\ x mod 2 = 0 /\ x + 2 <= e) -> sortedZ rs -> NoDup rs -> gap2 (a :: rs ++ [e]).
Proof.
  induction rs as [|x t IH]; intros a Ha Hae Hr Hs Nd; cbn [app].
  - constructor; [exact Hae | constructor].
  - destruct (Hr x (or_introl eq_refl)) as (H1 & H2 & H3). constructor; [lia|].
    apply IH; auto.
    + intros y Hy. destruct (Hr y (or_intror Hy)) as (_ & Hy2 & Hy3). split; [|auto]. pose proof (sorted_head_le x t Hs y Hy). inversion Nd as [|? ? Hn _]; subst.
      assert (x <> y) by (intros ->; contradiction). lia.
    + inversion Hs; subst; [constructor | assumption].
    + inversion Nd; assumption.
Qed.
Lemma NoDup_firstn {A} (l : list A) : NoDup l -> forall n, NoDup (firstn n l).
Proof.
  induction 1 as [|x t Hn Hd IH]; intros n; destruct n; cbn [firstn]; try constructor; auto.
  intros Hin. apply Hn. clear -Hin. revert t Hin. induction n as [|n IHn]; intros t Hin; [destruct Hin|]. destruct t as [|a t]; [destruct Hin|]. cbn [firstn In] in *. destruct Hin; auto.
Qed.
Lemma NoDup_map_inj {A B} (f : A -> B) (l : list A) : (forall a b, In a l -> In b l -> f a = f b -> a = b) -> NoDup l -> NoDup (map f l).
Proof.
  intros Hf. induction 1 as [|x t Hn Hd IH]; cbn [map]; constructor.
  - intros Hin. apply in_map_iff in Hin. destruct Hin as (y & E & Hy). assert (y = x) by (apply Hf; [right; auto | left; auto | exact E]). subst. contradiction.
  - apply IH. intros a b Ha Hb. apply Hf; right; auto.
Qed.
Lemma NoDup_app_disjoint {A} (l1 l2 : list A) : NoDup l1 -> NoDup l2 -> (forall x, In x l1 -> ~ In x l2) -> NoDup (l1 ++ l2).
Proof.
  induction 1 as [|x t Hn Hd IH]; intros N2 Hdis; cbn [app]; [exact N2|]. constructor.
  - rewrite in_app_iff. intros [H|H]; [contradiction | apply (Hdis x); [left; auto | exact H]].
  - apply IH; auto. intros y Hy. apply Hdis. right; auto.
Qed.

Section Crossing.
Variables (h w : Z).
Hypotheses (Hh : 5 <= h) (Hw : 5 <= w).
Let pex : pos := (h - 2, w - 2).

(* what every intermediate grid satisfies *)
Record cinv (g : grid) : Prop := {
  ci_wf : wf_grid g; ci_h : gheight g = h; ci_w : gwidth g = w;
  ci_border : forall q, in_grid g q = true -> is_border h w q = true -> lookupH g q = Wall;
  ci_agent : lookupH g (1, 1) = Floor;
  ci_exit : forall q, in_grid g q = true -> (is_ty ty_Exit (lookupH g q) = true <-> q = pex) }.
Definition safe (q : pos) : Prop := 1 <= fst q <= h - 2 /\ 1 <= snd q <= w - 2 /\ q <> pex /\ q <> (1, 1).
Lemma cinv_in_grid g q : cinv g -> (in_grid g q = true <-> 0 <= fst q < h /\ 0 <= snd q < w).
Proof. intros C. rewrite in_grid_spec, (ci_h _ C), (ci_w _ C). tauto. Qed.
Lemma cinv_set g q o : cinv g -> safe q -> is_ty ty_Exit o = false -> cinv (gset g q o).
Proof.
  intros C (S1 & S2 & S3 & S4) Ho.
  assert (Iq : in_grid g q = true) by (apply (cinv_in_grid g q C); lia).
  constructor.
  - apply wf_gset, (ci_wf _ C).
  - rewrite gheight_gset. apply (ci_h _ C).
  - rewrite gwidth_gset. apply (ci_w _ C).
  - intros p Ip Bp. rewrite in_grid_gset in Ip. rewrite lookupH_gset_other; [now apply (ci_border _ C)|].
    intros ->. unfold is_border in Bp. rewrite !orb_true_iff, !Z.eqb_eq in Bp. lia.
  - rewrite lookupH_gset_other; [apply (ci_agent _ C) | auto].
  - intros p Ip. rewrite in_grid_gset in Ip. rewrite (lookupH_gset g q p o (ci_wf _ C) Iq). destruct (pos_eqb q p) eqn:E.
    + apply pos_eqb_iff in E. subst p. rewrite Ho. split; [discriminate | intros E; contradiction].
    + now apply (ci_exit _ C).
Qed.
Lemma cinv_draw o : is_ty ty_Exit o = false -> forall ps g, cinv g -> (forall q, In q ps -> safe q) -> exists g', draw g ps o = Ok g' /\ cinv g'.
Proof.
  intros Ho. induction ps as [|p t IH]; intros g C Hs; cbn [draw]; [eauto|].
  assert (Sp : safe p) by (apply Hs; left; auto). destruct Sp as (S1 & S2 & S3 & S4).
  assert (Ip : in_grid g p = true) by (apply (cinv_in_grid g p C); lia).
  rewrite (grid_set_in g p o (ci_wf _ C) Ip). cbn [rbind]. apply IH; [apply cinv_set; unfold safe; auto | intros q Hq; apply Hs; right; auto].
Qed.
Lemma room_cinv g : room h w g pex -> cinv g.
Proof.
  intros R. assert (Hpe : inner h w pex) by (unfold inner, pex; cbn [fst snd]; lia).
  constructor; try apply R.
  - intros q Iq Bq. rewrite (rm_cells _ _ _ _ R q Iq), Bq. destruct (pos_eqb pex q) eqn:E; [|reflexivity].
    apply pos_eqb_iff in E. subst q. rewrite (is_border_false h w pex Hpe) in Bq. discriminate.
  - apply (room_floor h w g pex (1, 1) R); [unfold inner; cbn [fst snd]; lia | unfold pex; intros E; injection E; lia].
  - intros q Iq. pose proof (room_exit_unique h w g pex R Hpe q) as U. rewrite cells_at_In in U. tauto.
Qed.
Lemma cinv_common g oa : cinv g -> common_ok (mkS g (1, 1) oa NoneObj) h w = true /\ countb (is_ty ty_Exit) g = 1.
Proof.
  intros C. split.
  - unfold common_ok, shape_is, agent_ok. cbn [sgrid spos sheld]. rewrite !andb_true_iff. repeat split.
    + apply wf_gridb_spec, (ci_wf _ C).
    + apply Z.eqb_eq, (ci_h _ C).
    + apply Z.eqb_eq, (ci_w _ C).
    + unfold border_walls. apply forallb_forall. intros q Hq. apply border_In in Hq. unfold garea in Hq. cbn [ymin ymax xmin xmax] in Hq.
      rewrite (ci_h _ C), (ci_w _ C) in Hq. rewrite (ci_border _ C q); [vm_compute; reflexivity | apply (cinv_in_grid g q C); lia |].
      unfold is_border. rewrite !orb_true_iff, !Z.eqb_eq. lia.
    + apply (cinv_in_grid g (1, 1) C). cbn [fst snd]. lia.
    + rewrite (ci_agent _ C). vm_compute. reflexivity.
    + rewrite (ci_agent _ C). vm_compute. reflexivity.
    + rewrite (ci_agent _ C). vm_compute. reflexivity.
    + rewrite (ci_agent _ C). vm_compute. reflexivity.
  - unfold countb. rewrite (cells_at_single g _ pex); [reflexivity|]. intros q. rewrite cells_at_In. split.
    + intros [Iq Hq]. now apply (ci_exit _ C q Iq).
    + intros ->. assert (Iq : in_grid g pex = true) by (apply (cinv_in_grid g pex C); unfold pex; cbn [fst snd]; lia). split; auto. now apply (ci_exit _ C pex Iq).
Qed.

(* ---------- the staircase of openings ---------- *)
Variables (rh rv : list Z).
Hypotheses (Hrh : forall y, In y rh -> 2 <= y <= h - 3) (Hrv : forall x, In x rv -> 2 <= x <= w - 3).
Lemma lim_bounds (rs : list Z) e : 0 <= e -> (forall y, In y rs -> 0 <= y <= e) -> forall k, 0 <= nth k (0 :: rs ++ [e]) 0 <= e.
Proof.
  intros He Hr k. destruct (Nat.lt_ge_cases k (length (0 :: rs ++ [e]))) as [Hk|Hk]; [|rewrite nth_overflow by exact Hk; lia].
  assert (Hin : In (nth k (0 :: rs ++ [e]) 0) (0 :: rs ++ [e])) by (apply nth_In; exact Hk).
  cbn [In] in Hin. rewrite in_app_iff in Hin. cbn [In] in Hin. destruct Hin as [<-|[Hin|[<-|[]]]]; try lia. apply Hr in Hin. lia.
Qed.
Lemma lim_inner (rs : list Z) e k : (k < length rs)%nat -> In (nth (S k) (0 :: rs ++ [e]) 0) rs.
Proof. intros Hk. cbn [nth]. rewrite app_nth1 by exact Hk. now apply nth_In. Qed.
Lemma path_inv gl : forall path ri rj g, cinv g ->
  (ri + count_occ bool_dec path false <= length rh)%nat -> (rj + count_occ bool_dec path true <= length rv)%nat ->
  forall x, Leaf (crossing_path gl path (0 :: rh ++ [h - 1]) (0 :: rv ++ [w - 1]) ri rj g) x -> x = Err ValueError \/ exists g', x = Ok g' /\ cinv g'.
Proof.
  assert (Bh := lim_bounds rh (h - 1) ltac:(lia) ltac:(intros y Hy; apply Hrh in Hy; lia)).
  assert (Bv := lim_bounds rv (w - 1) ltac:(lia) ltac:(intros y Hy; apply Hrv in Hy; lia)).
  induction path as [|b t IH]; intros ri rj g C Hi Hj x HL; cbn [crossing_path] in HL.
  - apply Leaf_Ret in HL. right. eauto.
  - destruct b.
    + cbn [count_occ] in Hi, Hj. destruct (bool_dec true false) as [E|_]; [discriminate|]. destruct (bool_dec true true) as [_|N]; [|contradiction].
      apply Leaf_bind in HL. destruct HL as [(i & Hi' & HL)|(e & He & ->)].
      2:{ apply Leaf_rints in He. destruct He as [[_ E]|(i & _ & E)]; [injection E as <-; auto | discriminate]. }
      apply Leaf_rints in Hi'. destruct Hi' as [[_ E]|(i' & Hr & E)]; [discriminate|]. injection E as <-.
      pose proof (Bh ri) as B1. pose proof (Bh (S ri)) as B2.
      assert (Hc : In (nth (S rj) (0 :: rv ++ [w - 1]) 0) rv) by (apply lim_inner; lia). apply Hrv in Hc.
      remember (nth (S rj) (0 :: rv ++ [w - 1]) 0) as c eqn:Ec. clear Ec.
      set (q := (i, c)) in *.
      assert (Sq : safe q) by (unfold safe, q, pex; cbn [fst snd]; split; [lia|]; split; [lia|]; split; intros E; injection E; lia).
      assert (Iq : in_grid g q = true) by (apply (cinv_in_grid g q C); destruct Sq as (? & ? & _); lia).
      rewrite (grid_set_in g q Floor (ci_wf _ C) Iq) in HL. cbn [lift bind] in HL.
      apply (IH ri (S rj) (gset g q Floor)); [apply cinv_set; auto | lia | lia | exact HL].
    + cbn [count_occ] in Hi, Hj. destruct (bool_dec false true) as [E|_]; [discriminate|]. destruct (bool_dec false false) as [_|N]; [|contradiction].
      apply Leaf_bind in HL. destruct HL as [(j & Hj' & HL)|(e & He & ->)].
      2:{ apply Leaf_rints in He. destruct He as [[_ E]|(j & _ & E)]; [injection E as <-; auto | discriminate]. }
      apply Leaf_rints in Hj'. destruct Hj' as [[_ E]|(j' & Hr & E)]; [discriminate|]. injection E as <-.
      pose proof (Bv rj) as B1. pose proof (Bv (S rj)) as B2.
      assert (Hc : In (nth (S ri) (0 :: rh ++ [h - 1]) 0) rh) by (apply lim_inner; lia). apply Hrh in Hc.
      remember (nth (S ri) (0 :: rh ++ [h - 1]) 0) as c eqn:Ec. clear Ec.
      set (q := (c, j)) in *.
      assert (Sq : safe q) by (unfold safe, q, pex; cbn [fst snd]; split; [lia|]; split; [lia|]; split; intros E; injection E; lia).
      assert (Iq : in_grid g q = true) by (apply (cinv_in_grid g q C); destruct Sq as (? & ? & _); lia).
      rewrite (grid_set_in g q Floor (ci_wf _ C) Iq) in HL. cbn [lift bind] in HL.
      apply (IH (S ri) rj (gset g q Floor)); [apply cinv_set; auto | lia | lia | exact HL].
Qed.
(* with limits two apart, no opening range is ever empty: the staircase never fails *)
Hypotheses (Gh : gap2 (0 :: rh ++ [h - 1])) (Gv : gap2 (0 :: rv ++ [w - 1])).
Lemma path_inv_ok gl : forall path ri rj g, cinv g ->
  (ri + count_occ bool_dec path false <= length rh)%nat -> (rj + count_occ bool_dec path true <= length rv)%nat ->
  forall x, Leaf (crossing_path gl path (0 :: rh ++ [h - 1]) (0 :: rv ++ [w - 1]) ri rj g) x -> exists g', x = Ok g' /\ cinv g'.
Proof.
  induction path as [|b t IH]; intros ri rj g C Hi Hj x HL.
  - cbn [crossing_path] in HL. apply Leaf_Ret in HL. eauto.
  - destruct (path_inv gl (b :: t) ri rj g C Hi Hj x HL) as [->|Hok]; [|exact Hok]. exfalso.
    cbn [crossing_path] in HL. destruct b; cbn [count_occ] in Hi, Hj.
    + destruct (bool_dec true false) as [E|_]; [discriminate|]. destruct (bool_dec true true) as [_|N]; [|contradiction].
      apply Leaf_bind in HL. destruct HL as [(i & Hi' & HL)|(e & He & E)].
      * apply Leaf_rints in Hi'. destruct Hi' as [[_ E]|(i' & Hr & E)]; [discriminate|]. injection E as <-.
        pose proof (lim_bounds rh (h - 1) ltac:(lia) ltac:(intros y Hy; apply Hrh in Hy; lia) ri) as B1.
        pose proof (lim_bounds rh (h - 1) ltac:(lia) ltac:(intros y Hy; apply Hrh in Hy; lia) (S ri)) as B2.
        assert (Hc : In (nth (S rj) (0 :: rv ++ [w - 1]) 0) rv) by (apply lim_inner; lia). apply Hrv in Hc.
        remember (nth (S rj) (0 :: rv ++ [w - 1]) 0) as c eqn:Ec. clear Ec.
        assert (Iq : in_grid g (i, c) = true) by (apply (cinv_in_grid g (i, c) C); cbn [fst snd]; lia).
        rewrite (grid_set_in g (i, c) Floor (ci_wf _ C) Iq) in HL. cbn [lift bind] in HL.
        assert (Sq : safe (i, c)) by (unfold safe, pex; cbn [fst snd]; split; [lia|]; split; [lia|]; split; intros E; injection E; lia).
        destruct (IH ri (S rj) (gset g (i, c) Floor) (cinv_set _ _ Floor C Sq ltac:(vm_compute; reflexivity)) ltac:(lia) ltac:(lia) _ HL) as (g' & E & _). discriminate.
      * apply Leaf_rints in He. destruct He as [[Hlt _]|(i & _ & E')]; [|discriminate].
        pose proof (gap2_nth _ Gh ri ltac:(cbn [length]; rewrite app_length; cbn [length]; lia)). lia.
    + destruct (bool_dec false true) as [E|_]; [discriminate|]. destruct (bool_dec false false) as [_|N]; [|contradiction].
      apply Leaf_bind in HL. destruct HL as [(j & Hj' & HL)|(e & He & E)].
      * apply Leaf_rints in Hj'. destruct Hj' as [[_ E]|(j' & Hr & E)]; [discriminate|]. injection E as <-.
        pose proof (lim_bounds rv (w - 1) ltac:(lia) ltac:(intros y Hy; apply Hrv in Hy; lia) rj) as B1.
        pose proof (lim_bounds rv (w - 1) ltac:(lia) ltac:(intros y Hy; apply Hrv in Hy; lia) (S rj)) as B2.
        assert (Hc : In (nth (S ri) (0 :: rh ++ [h - 1]) 0) rh) by (apply lim_inner; lia). apply Hrh in Hc.
        remember (nth (S ri) (0 :: rh ++ [h - 1]) 0) as c eqn:Ec. clear Ec.
        assert (Iq : in_grid g (c, j) = true) by (apply (cinv_in_grid g (c, j) C); cbn [fst snd]; lia).
        rewrite (grid_set_in g (c, j) Floor (ci_wf _ C) Iq) in HL. cbn [lift bind] in HL.
        assert (Sq : safe (c, j)) by (unfold safe, pex; cbn [fst snd]; split; [lia|]; split; [lia|]; split; intros E; injection E; lia).
        destruct (IH (S ri) rj (gset g (c, j) Floor) (cinv_set _ _ Floor C Sq ltac:(vm_compute; reflexivity)) ltac:(lia) ltac:(lia) _ HL) as (g' & E & _). discriminate.
      * apply Leaf_rints in He. destruct He as [[Hlt _]|(j & _ & E')]; [|discriminate].
        pose proof (gap2_nth _ Gv rj ltac:(cbn [length]; rewrite app_length; cbn [length]; lia)). lia.
Qed.
End Crossing.

Lemma In_firstn {A} (x : A) : forall n l, In x (firstn n l) -> In x l.
Proof. induction n as [|n IH]; intros l H; [destruct H|]. destruct l as [|a t]; [destruct H|]. cbn [firstn In] in *. destruct H; auto. Qed.
Lemma zrange2_In lo hi x : In x (zrange2 lo hi) -> lo <= x /\ x <= hi - 1 /\ (x - lo) mod 2 = 0.
Proof.
  unfold zrange2. intros H. apply in_map_iff in H. destruct H as (k & <- & Hk). apply zrange_In in Hk.
  pose proof (Z.mul_div_le (hi - lo + 1) 2 ltac:(lia)). split; [lia|]. split; [lia|].
  replace (lo + 2 * k - lo) with (k * 2) by lia. apply Z.mod_mul. lia.
Qed.
Lemma count_occ_const_true (l : list Z) : count_occ bool_dec (map (fun _ => true) l) true = length l /\ count_occ bool_dec (map (fun _ => true) l) false = 0%nat.
Proof. induction l as [|a t [IH1 IH2]]; [auto|]. cbn [map count_occ length]. destruct (bool_dec true true); [|contradiction]. destruct (bool_dec true false); [discriminate|]. auto. Qed.
Lemma count_occ_const_false (l : list Z) : count_occ bool_dec (map (fun _ => false) l) false = length l /\ count_occ bool_dec (map (fun _ => false) l) true = 0%nat.
Proof. induction l as [|a t [IH1 IH2]]; [auto|]. cbn [map count_occ length]. destruct (bool_dec false false); [|contradiction]. destruct (bool_dec false true); [discriminate|]. auto. Qed.

Lemma zrange2_NoDup lo hi : NoDup (zrange2 lo hi).
Proof. unfold zrange2. apply NoDup_map_inj; [intros a b _ _ E; lia | apply zrange_n_NoDup]. Qed.
Theorem crossing_wf h w n ty own r : 5 <= h -> 5 <= w -> h mod 2 = 1 -> w mod 2 = 1 -> 0 < n -> ty <> ty_Exit ->
  Leaf (reset_crossing h w n ty own) r -> exists s, r = Ok s /\ wf_check (PCrossing h w n ty) s = true.
Proof.
  intros Hh Hw Oh Ow Hn Hty HL. unfold reset_crossing in HL.
  replace ((h <? 5) || (h mod 2 =? 0)) with false in HL by (symmetry; rewrite orb_false_iff, Z.ltb_ge, Z.eqb_neq; lia).
  replace ((w <? 5) || (w mod 2 =? 0)) with false in HL by (symmetry; rewrite orb_false_iff, Z.ltb_ge, Z.eqb_neq; lia).
  replace (n <=? 0) with false in HL by (symmetry; apply Z.leb_gt; lia).
  apply Leaf_bind in HL. destruct HL as [(s & Hs & HL)|(x & Hx & ->)].
  2:{ destruct (empty_outcome h w false false false _ ltac:(lia) ltac:(lia) Hx) as (g & pe & pa & oa & E & _). discriminate. }
  destruct (empty_outcome h w false false false _ ltac:(lia) ltac:(lia) Hs) as (g & pe & pa & oa & E & R & _ & _ & _ & Hfix & Hpefix). injection E as ->.
  destruct (Hfix eq_refl) as [-> ->]. rewrite (Hpefix eq_refl) in R. clear Hfix Hpefix. cbn [sgrid] in HL.
  pose proof (room_cinv h w Hh Hw g R) as C0.
  set (rivers := map (fun i => (true, i)) (zrange2 2 (h - 2)) ++ map (fun j => (false, j)) (zrange2 2 (w - 2))) in *.
  apply Leaf_bind in HL. destruct HL as [(perm & Hperm & HL)|(x & Hx & ->)].
  2:{ apply Leaf_rperm in Hx. destruct Hx as (ans & E & _). discriminate. }
  apply Leaf_rperm in Hperm. destruct Hperm as (ans & E & Lp & Rp & Np). injection E as ->.
  set (chosen := firstn (Z.to_nat n) (map (fun i => nthZ rivers i (true, 0)) ans)) in *.
  assert (Hch : forall c, In c chosen -> In c rivers).
  { intros c Hc. apply In_firstn in Hc. apply in_map_iff in Hc. destruct Hc as (i & <- & Hi). unfold nthZ. apply nth_In. specialize (Rp i Hi). lia. }
  set (rh := isort (map snd (filter (fun r0 => fst r0) chosen))) in *. set (rv := isort (map snd (filter (fun r0 => negb (fst r0)) chosen))) in *.
  assert (Hrh : forall y, In y rh -> 2 <= y <= h - 3).
  { intros y Hy. unfold rh in Hy. apply (proj1 (In_isort _ _)) in Hy. apply in_map_iff in Hy. destruct Hy as ([b y'] & <- & Hf). apply filter_In in Hf. destruct Hf as [Hf Hb]. cbn [fst snd] in *. subst b.
    apply Hch in Hf. unfold rivers in Hf. apply in_app_iff in Hf. destruct Hf as [Hf|Hf]; apply in_map_iff in Hf; destruct Hf as (k & Ek & Hk); [|discriminate Ek].
    injection Ek as <-. apply zrange2_In in Hk. lia. }
  assert (Hrv : forall x, In x rv -> 2 <= x <= w - 3).
  { intros y Hy. unfold rv in Hy. apply (proj1 (In_isort _ _)) in Hy. apply in_map_iff in Hy. destruct Hy as ([b y'] & <- & Hf). apply filter_In in Hf. destruct Hf as [Hf Hb]. cbn [fst snd] in *. apply negb_true_iff in Hb. subst b.
    apply Hch in Hf. unfold rivers in Hf. apply in_app_iff in Hf. destruct Hf as [Hf|Hf]; apply in_map_iff in Hf; destruct Hf as (k & Ek & Hk); [discriminate Ek|].
    injection Ek as <-. apply zrange2_In in Hk. lia. }
  (* the chosen rivers are pairwise different even coordinates: consecutive limits are at least two apart *)
  assert (Nriv : NoDup rivers).
  { unfold rivers. apply NoDup_app_disjoint.
    - apply NoDup_map_inj; [intros a b _ _ E; now injection E | apply zrange2_NoDup].
    - apply NoDup_map_inj; [intros a b _ _ E; now injection E | apply zrange2_NoDup].
    - intros x Hx Hx'. apply in_map_iff in Hx, Hx'. destruct Hx as (a & <- & _), Hx' as (b & E & _). discriminate. }
  assert (Nch : NoDup chosen).
  { unfold chosen. apply NoDup_firstn. apply (sampled_spec rivers (true, 0) ans Nriv); [intros i Hi; specialize (Rp i Hi); lia | exact Np]. }
  assert (Even : forall c, In c chosen -> snd c mod 2 = 0).
  { intros c Hc. apply Hch in Hc. unfold rivers in Hc. apply in_app_iff in Hc. destruct Hc as [Hc|Hc]; apply in_map_iff in Hc; destruct Hc as (k & <- & Hk); cbn [snd]; apply zrange2_In in Hk; lia. }
  assert (Nrh : NoDup rh).
  { unfold rh. apply NoDup_isort. apply NoDup_map_inj; [|apply NoDup_filter, Nch].
    intros [a1 a2] [b1 b2] Ha Hb E. apply filter_In in Ha, Hb. cbn [fst snd] in *. destruct Ha as [_ ->], Hb as [_ ->]. now subst. }
  assert (Nrv : NoDup rv).
  { unfold rv. apply NoDup_isort. apply NoDup_map_inj; [|apply NoDup_filter, Nch].
    intros [a1 a2] [b1 b2] Ha Hb E. apply filter_In in Ha, Hb. cbn [fst snd] in *. destruct Ha as [_ Ha], Hb as [_ Hb]. apply negb_true_iff in Ha, Hb. now subst. }
  assert (Erh : forall y, In y rh -> y mod 2 = 0).
  { intros y Hy. unfold rh in Hy. apply (proj1 (In_isort _ _)) in Hy. apply in_map_iff in Hy. destruct Hy as (c & <- & Hc). apply filter_In in Hc. apply Even, Hc. }
  assert (Erv : forall y, In y rv -> y mod 2 = 0).
  { intros y Hy. unfold rv in Hy. apply (proj1 (In_isort _ _)) in Hy. apply in_map_iff in Hy. destruct Hy as (c & <- & Hc). apply filter_In in Hc. apply Even, Hc. }
  assert (Gh : gap2 (0 :: rh ++ [h - 1])).
  { apply gap2_build; [reflexivity | lia | | apply isort_sorted | exact Nrh]. intros y Hy. pose proof (Hrh y Hy). pose proof (Erh y Hy). lia. }
  assert (Gv : gap2 (0 :: rv ++ [w - 1])).
  { apply gap2_build; [reflexivity | lia | | apply isort_sorted | exact Nrv]. intros y Hy. pose proof (Hrv y Hy). pose proof (Erv y Hy). lia. }
  assert (Hobj : is_ty ty_Exit (mk0 ty) = false) by (unfold is_ty, mk0; cbn [oty]; now apply Z.eqb_neq).
  (* the rivers *)
  destruct (cinv_draw h w (mk0 ty) Hobj (cartesian rh (zrange 1 (w - 1))) g C0) as (g1 & E1 & C1).
  { intros q Hq. unfold cartesian in Hq. apply cartesian_In in Hq. destruct Hq as [Hy Hx]. apply Hrh in Hy. apply zrange_In in Hx.
    unfold safe. repeat split; try lia; intros E; rewrite E in *; cbn [fst snd] in *; lia. }
  rewrite E1 in HL. cbn [lift bind] in HL.
  destruct (cinv_draw h w (mk0 ty) Hobj (cartesian (zrange 1 (h - 1)) rv) g1 C1) as (g2 & E2 & C2).
  { intros q Hq. unfold cartesian in Hq. apply cartesian_In in Hq. destruct Hq as [Hy Hx]. apply Hrv in Hx. apply zrange_In in Hy.
    unfold safe. repeat split; try lia; intros E; rewrite E in *; cbn [fst snd] in *; lia. }
  rewrite E2 in HL. cbn [lift bind] in HL.
  (* the order of the crossings *)
  set (path0 := map (fun _ => true) rv ++ map (fun _ => false) rh) in *.
  apply Leaf_bind in HL. destruct HL as [(perm2 & Hperm2 & HL)|(x & Hx & ->)].
  2:{ apply Leaf_rperm in Hx. destruct Hx as (ans2 & E & _). discriminate. }
  apply Leaf_rperm in Hperm2. destruct Hperm2 as (ans2 & E & Lp2 & Rp2 & Np2). injection E as ->.
  set (path := map (fun i => nthZ path0 i true) ans2) in *.
  assert (PP : Permutation path path0) by (apply perm_read; auto).
  assert (Ct : count_occ bool_dec path true = length rv /\ count_occ bool_dec path false = length rh).
  { rewrite (proj1 (Permutation_count_occ bool_dec path path0) PP true), (proj1 (Permutation_count_occ bool_dec path path0) PP false).
    unfold path0. rewrite !count_occ_app. destruct (count_occ_const_true rv) as [-> ->]. destruct (count_occ_const_false rh) as [-> ->]. lia. }
  apply Leaf_bind in HL. destruct HL as [(g3 & Hg3 & HL)|(x & Hx & ->)].
  2:{ destruct (path_inv_ok h w Hh Hw rh rv Hrh Hrv Gh Gv _ path 0%nat 0%nat g2 C2 ltac:(lia) ltac:(lia) _ Hx) as (g' & E & _). discriminate. }
  destruct (path_inv_ok h w Hh Hw rh rv Hrh Hrv Gh Gv _ path 0%nat 0%nat g2 C2 ltac:(lia) ltac:(lia) _ Hg3) as (g' & E & C3). injection E as <-.
  apply Leaf_Ret in HL. subst r. eexists; split; [reflexivity|]. unfold wf_check.
  destruct (cinv_common h w Hh Hw g3 RIGHT C3) as [A B]. cbn [sgrid]. rewrite A, B. reflexivity.
Qed.
