(* C14, general part (continued): EVERY initial state of `keydoor` (every shape with height >= 4 and width >= 5, every random outcome) is
   winnable under the shipped dynamics [move_agent; turn_agent; actuate_door; pickndrop]: walk to a cell next to the key, turn to face it,
   pick it up, walk to the cell left of the locked door, turn to face it, unlock it, walk through to the exit. *)
From Coq Require Import ZArith List Bool Lia ZifyBool.
From GV.Model Require Import Check.
From GV.Lemmas Require Import GridL RotL RandL GeomL TransL BfsL C05L C08L C13W C14L C14W C14M.
Import ListNotations.
Open Scope Z_scope.

Definition chainK : list tname := [TMoveAgent; TTurnAgent; TActuateDoor; TPickndrop].
Definition stepK (s : state) (a : Action) : state := pickndrop_pure (actuate_door_pure (turn_agent_pure (move_agent_pure s a) a) a) a.
Definition runK (acts : list Action) (s : state) : state := fold_left stepK acts s.

Lemma wf_move s a : wf_grid (sgrid s) -> wf_grid (sgrid (move_agent_pure s a)).
Proof. unfold move_agent_pure. destruct (_ && _); auto. Qed.
Lemma wf_turn s a : wf_grid (sgrid s) -> wf_grid (sgrid (turn_agent_pure s a)).
Proof. unfold turn_agent_pure. destruct (turn_dir a); auto. Qed.
Lemma wf_actuate s a : wf_grid (sgrid s) -> wf_grid (sgrid (actuate_door_pure s a)).
Proof. unfold actuate_door_pure. destruct (_ && _); cbn [set_grid sgrid]; auto using wf_gset. Qed.
Lemma wf_pick s a : wf_grid (sgrid s) -> wf_grid (sgrid (pickndrop_pure s a)).
Proof. unfold pickndrop_pure. destruct (_ && _); cbn [sgrid]; auto using wf_gset. Qed.
Lemma wf_stepK s a : wf_grid (sgrid s) -> wf_grid (sgrid (stepK s a)).
Proof. intros H. unfold stepK. auto using wf_move, wf_turn, wf_actuate, wf_pick. Qed.
Lemma chainK_eq s a own : wf_grid (sgrid s) -> chain (map tfun_of chainK) s a own = Ret (stepK s a).
Proof.
  intros W. unfold chainK, stepK. cbn [map chain tfun_of].
  rewrite move_agent_eq by exact W. cbn [bind]. rewrite turn_agent_eq. cbn [bind].
  rewrite actuate_door_eq by auto using wf_move, wf_turn. cbn [bind].
  rewrite pickndrop_eq by auto using wf_move, wf_turn, wf_actuate. reflexivity.
Qed.
Lemma run_actions_K own acts : forall s, wf_grid (sgrid s) -> run_actions chainK own acts s = Ret (runK acts s).
Proof.
  induction acts as [|a t IH]; intros s W; [reflexivity|]. cbn [run_actions]. rewrite chainK_eq by exact W. cbn [bind]. rewrite IH by (now apply wf_stepK). reflexivity.
Qed.
Lemma runK_app a1 a2 s : runK (a1 ++ a2) s = runK a2 (runK a1 s).
Proof. unfold runK. apply fold_left_app. Qed.

(* a move onto an enterable neighbour: nothing but the position changes *)
Lemma stepK_move s q : In q (neighbours4 (spos s)) -> can_enter (sgrid s) q = true -> exists a, is_move a = true /\ stepK s a = set_pos s q.
Proof.
  intros Hq Hc.
  assert (T : exists a, is_move a = true /\ move_target s a = q).
  { unfold move_target, next_position. destruct s as [g [y x] o hd]. cbn [spos sori neighbours4 fst snd In] in *.
    destruct Hq as [<-|[<-|[<-|[<-|[]]]]]; destruct o;
      first [ exists MOVE_FORWARD; split; [reflexivity|]; cbn [move_dir omul ovec]; unfold padd; cbn [fst snd]; f_equal; lia
            | exists MOVE_BACKWARD; split; [reflexivity|]; cbn [move_dir omul ovec]; unfold padd; cbn [fst snd]; f_equal; lia
            | exists MOVE_LEFT; split; [reflexivity|]; cbn [move_dir omul ovec]; unfold padd; cbn [fst snd]; f_equal; lia
            | exists MOVE_RIGHT; split; [reflexivity|]; cbn [move_dir omul ovec]; unfold padd; cbn [fst snd]; f_equal; lia ]. }
  destruct T as (a & Hm & Ht). exists a. split; [exact Hm|]. unfold stepK, move_agent_pure. rewrite Hm, Ht, Hc. cbn [andb].
  unfold turn_agent_pure, actuate_door_pure, pickndrop_pure. destruct a; try discriminate; reflexivity.
Qed.
(* a walk over enterable cells: only the position changes, and it ends at the end of the walk *)
Lemma walkK ok : forall path s, (forall q, ok q = true -> can_enter (sgrid s) q = true) -> walk ok (spos s) path ->
  exists acts, Forall (fun a => is_move a = true) acts /\ runK acts s = set_pos s (last path (spos s)).
Proof.
  induction path as [|q t IH]; intros s Hok W.
  - exists []. split; [constructor|]. cbn. destruct s; reflexivity.
  - inversion W as [|? ? ? Hq Hoq Wt]; subst. destruct (stepK_move s q Hq (Hok q Hoq)) as (a & Ha & Ea).
    destruct (IH (set_pos s q)) as (acts & Fa & Ra); [exact Hok | exact Wt|].
    exists (a :: acts). split; [constructor; auto|]. unfold runK in *. cbn [fold_left]. rewrite Ea, Ra. rewrite last_cons. cbn [set_pos sgrid spos sori sheld]. reflexivity.
Qed.
(* turning on the spot: any heading can be reached, nothing else changes *)
Lemma turnK s d : exists acts, runK acts s = set_ori s d.
Proof.
  destruct s as [g p o hd]. unfold runK, set_ori. cbn [sgrid spos sori sheld].
  assert (T : forall o', stepK (mkS g p o' hd) TURN_LEFT = mkS g p (omul o' LEFT) hd) by (intros o'; reflexivity).
  destruct o, d;
    first [ exists []; reflexivity
          | exists [TURN_LEFT]; cbn [fold_left]; rewrite T; reflexivity
          | exists [TURN_LEFT; TURN_LEFT]; cbn [fold_left]; rewrite !T; reflexivity
          | exists [TURN_LEFT; TURN_LEFT; TURN_LEFT]; cbn [fold_left]; rewrite !T; reflexivity ].
Qed.
(* the heading that faces a given 4-neighbour *)
Lemma face_neighbour p q : In q (neighbours4 p) -> exists d, front p d = q.
Proof.
  destruct p as [y x]. unfold neighbours4. cbn [fst snd In].
  assert (F : forall d, front (y, x) d = padd (y, x) (ovec (omul d FORWARD))).
  { intros d. pose proof (sfront_is_forward_move (mkS [] (y, x) d NoneObj)) as E. unfold sfront, move_target, next_position in E. cbn [spos sori move_dir] in E. exact E. }
  intros [<-|[<-|[<-|[<-|[]]]]]; [exists FORWARD | exists RIGHT | exists BACKWARD | exists LEFT]; rewrite F; cbn [omul ovec]; unfold padd; cbn [fst snd]; f_equal; lia.
Qed.

(* walking inside a rectangle all of whose cells are ok: along the column, then along the row *)
Lemma box_walk ok y0 y1 x0 x1 a b : (forall q, y0 <= fst q <= y1 -> x0 <= snd q <= x1 -> ok q = true) ->
  y0 <= fst a <= y1 -> x0 <= snd a <= x1 -> y0 <= fst b <= y1 -> x0 <= snd b <= x1 -> exists path, walk ok a path /\ last path a = b.
Proof.
  intros Hok Ha1 Ha2 Hb1 Hb2. destruct a as [ya xa], b as [yb xb]. cbn [fst snd] in *.
  destruct (col_walk ok xa _ ya yb eq_refl) as (p1 & W1 & L1). { intros y Hy _. apply Hok; cbn [fst snd]; lia. }
  destruct (row_walk ok yb _ xa xb eq_refl) as (p2 & W2 & L2). { intros x Hx _. apply Hok; cbn [fst snd]; lia. }
  destruct (walk_app ok (ya, xa) p1 (yb, xa) p2 W1 L1 W2) as [Wp Lp]. exists (p1 ++ p2). split; [exact Wp | now rewrite Lp].
Qed.

From GV.Lemmas Require Import C13M C13K.

Section Keydoor.
Variables (h w xw yd yk xk : Z).
Hypotheses (Hh : 4 <= h) (Hw : 5 <= w) (Hxw : 2 <= xw <= w - 3) (Hyd : 1 <= yd <= h - 2) (Hyk : 1 <= yk <= h - 2) (Hxk : 1 <= xk <= xw - 1).
Let pk : pos := (yk, xk).
Let pd : pos := (yd, xw).
Let pe : pos := (h - 2, w - 2).
Definition inL (q : pos) : Prop := 1 <= fst q <= h - 2 /\ 1 <= snd q <= xw - 1.
Definition inR (q : pos) : Prop := 1 <= fst q <= h - 2 /\ xw + 1 <= snd q <= w - 2.
Lemma cell_L q : inL q -> kd_cell h w xw yd pk q = if pos_eqb pk q then Key COL_YELLOW else Floor.
Proof.
  intros [H1 H2]. unfold kd_cell. destruct (pos_eqb pk q); [reflexivity|].
  destruct (pos_eqb (yd, xw) q) eqn:E; [apply pos_eqb_pair in E; lia|].
  replace ((snd q =? xw) && (1 <=? fst q) && (fst q <=? h - 2)) with false by (symmetry; rewrite !andb_false_iff, Z.eqb_neq; lia).
  destruct (pos_eqb (h - 2, w - 2) q) eqn:E2; [apply pos_eqb_pair in E2; lia|].
  replace (is_border h w q) with false; [reflexivity|]. symmetry. unfold is_border. rewrite !orb_false_iff, !Z.eqb_neq. lia.
Qed.
Lemma cell_R q : inR q -> kd_cell h w xw yd pk q = if pos_eqb pe q then Exit 0 else Floor.
Proof.
  intros [H1 H2]. unfold kd_cell. destruct (pos_eqb pk q) eqn:E0; [apply pos_eqb_pair in E0; lia|].
  destruct (pos_eqb (yd, xw) q) eqn:E; [apply pos_eqb_pair in E; lia|].
  replace ((snd q =? xw) && (1 <=? fst q) && (fst q <=? h - 2)) with false by (symmetry; rewrite !andb_false_iff, Z.eqb_neq; lia).
  unfold pe. destruct (pos_eqb (h - 2, w - 2) q); [reflexivity|].
  replace (is_border h w q) with false; [reflexivity|]. symmetry. unfold is_border. rewrite !orb_false_iff, !Z.eqb_neq. lia.
Qed.
Lemma cell_pd : kd_cell h w xw yd pk pd = Door st_LOCKED COL_YELLOW.
Proof. unfold kd_cell, pd. destruct (pos_eqb pk (yd, xw)) eqn:E0; [apply pos_eqb_pair in E0; cbn [fst snd] in E0; lia|]. now rewrite (proj2 (pos_eqb_iff (yd, xw) (yd, xw)) eq_refl). Qed.

Variable g : grid.
Hypotheses (W : wf_grid g) (Eh : gheight g = h) (Ew : gwidth g = w) (L : forall q, in_grid g q = true -> lookupH g q = kd_cell h w xw yd pk q).
Lemma IG q : in_grid g q = true <-> 0 <= fst q < h /\ 0 <= snd q < w.
Proof. rewrite in_grid_spec, Eh, Ew. tauto. Qed.

Theorem keydoor_plan ya xa oa own : 1 <= ya <= h - 2 -> 1 <= xa <= xw - 1 ->
  exists acts s', run_actions chainK own acts (mkS g (ya, xa) oa NoneObj) = Ret s' /\ spos s' = pe /\ is_ty ty_Exit (lookupH (sgrid s') pe) = true /\
                  sheld s' = Key COL_YELLOW /\ lookupH (sgrid s') pd = Door st_OPEN COL_YELLOW.
Proof.
  intros Hya Hxa. set (s0 := mkS g (ya, xa) oa NoneObj).
  (* 1. to a cell next to the key *)
  set (nk := (if 2 <=? yk then yk - 1 else yk + 1, xk)).
  assert (Hnk : inL nk /\ In pk (neighbours4 nk) /\ nk <> pk).
  { unfold nk, inL, pk, neighbours4. destruct (2 <=? yk) eqn:E; [apply Z.leb_le in E | apply Z.leb_gt in E]; cbn [fst snd In].
    - split; [lia|]. split; [right; right; left; f_equal; lia | intros E'; injection E'; lia].
    - split; [lia|]. split; [left; f_equal; lia | intros E'; injection E'; lia]. }
  destruct Hnk as (HnkL & Hnk_adj & Hnk_ne).
  set (ok1 := fun q : pos => (1 <=? fst q) && (fst q <=? h - 2) && (1 <=? snd q) && (snd q <=? xw - 1)).
  assert (Ok1 : forall q, ok1 q = true <-> inL q) by (intros q; unfold ok1, inL; rewrite !andb_true_iff, !Z.leb_le; lia).
  assert (Enter0 : forall q, ok1 q = true -> can_enter g q = true).
  { intros q Hq. apply Ok1 in Hq. unfold can_enter. assert (Iq : in_grid g q = true) by (apply IG; destruct Hq; lia). rewrite Iq, (L q Iq), (cell_L q Hq).
    destruct (pos_eqb pk q); vm_compute; reflexivity. }
  destruct (box_walk ok1 1 (h - 2) 1 (xw - 1) (ya, xa) nk) as (p1 & W1 & L1); try (cbn [fst snd]; lia); try (destruct HnkL; lia).
  { intros q H1 H2. apply Ok1. split; lia. }
  destruct (walkK ok1 p1 s0 Enter0 W1) as (a1 & F1 & R1). change (spos s0) with (ya, xa) in R1. rewrite L1 in R1.
  (* 2. face the key *)
  destruct (face_neighbour nk pk Hnk_adj) as (dk & Hdk).
  destruct (turnK (set_pos s0 nk) dk) as (a2 & R2).
  (* 3. pick it up *)
  set (s2 := set_ori (set_pos s0 nk) dk) in *.
  assert (Ipk : in_grid g pk = true) by (apply IG; unfold pk; cbn [fst snd]; lia).
  assert (R3 : stepK s2 PICK_N_DROP = mkS (gset g pk Floor) nk dk (Key COL_YELLOW)).
  { unfold stepK. unfold move_agent_pure at 1. cbn [is_move andb]. unfold turn_agent_pure at 1. cbn [turn_dir]. unfold actuate_door_pure at 1. cbn [is_actuate andb].
    unfold pickndrop_pure. cbn [is_pickndrop andb]. unfold sfront, s2, s0. cbn [set_ori set_pos sgrid spos sori sheld]. rewrite Hdk, Ipk, (L pk Ipk).
    rewrite (cell_L pk ltac:(unfold inL, pk; cbn [fst snd]; lia)), (proj2 (pos_eqb_iff pk pk) eq_refl). vm_compute. reflexivity. }
  set (g1 := gset g pk Floor) in *. set (s3 := mkS g1 nk dk (Key COL_YELLOW)) in *.
  assert (W1g : wf_grid g1) by (apply wf_gset; exact W).
  assert (IG1 : forall q, in_grid g1 q = in_grid g q) by (intros q; apply in_grid_gset).
  assert (L1g : forall q, in_grid g q = true -> lookupH g1 q = if pos_eqb pk q then Floor else kd_cell h w xw yd pk q).
  { intros q Iq. unfold g1. rewrite (lookupH_gset g pk q Floor W Ipk). destruct (pos_eqb pk q); [reflexivity | now apply L]. }
  (* 4. to the cell left of the door *)
  set (pl := (yd, xw - 1)).
  assert (Enter1 : forall q, ok1 q = true -> can_enter g1 q = true).
  { intros q Hq. apply Ok1 in Hq. unfold can_enter. assert (Iq : in_grid g q = true) by (apply IG; destruct Hq; lia). rewrite IG1, Iq, (L1g q Iq), (cell_L q Hq).
    destruct (pos_eqb pk q); vm_compute; reflexivity. }
  destruct (box_walk ok1 1 (h - 2) 1 (xw - 1) nk pl) as (p4 & W4 & L4); try (unfold pl; cbn [fst snd]; lia); try (destruct HnkL; lia).
  { intros q H1 H2. apply Ok1. split; lia. }
  destruct (walkK ok1 p4 s3 Enter1 W4) as (a4 & F4 & R4). change (spos s3) with nk in R4. rewrite L4 in R4.
  (* 5. face the door *)
  destruct (turnK (set_pos s3 pl) RIGHT) as (a5 & R5).
  set (s5 := set_ori (set_pos s3 pl) RIGHT) in *.
  assert (Fpl : front pl RIGHT = pd).
  { destruct (face_neighbour pl pd) as (d & Hd); [unfold neighbours4, pl, pd; cbn [fst snd In]; right; left; f_equal; lia|].
    pose proof (sfront_is_forward_move (mkS [] pl RIGHT NoneObj)) as E. unfold sfront, move_target, next_position in E. cbn [spos sori move_dir omul ovec] in E. rewrite E.
    unfold padd, pl, pd. cbn [fst snd]. f_equal; lia. }
  (* 6. unlock it *)
  assert (Ipd : in_grid g pd = true) by (apply IG; unfold pd; cbn [fst snd]; lia).
  assert (Npk_pd : pos_eqb pk pd = false) by (apply pos_eqb_pair_false; unfold pd; cbn [fst snd]; lia).
  assert (R6 : stepK s5 ACTUATE = mkS (gset g1 pd (Door st_OPEN COL_YELLOW)) pl RIGHT (Key COL_YELLOW)).
  { unfold stepK. unfold move_agent_pure at 1. cbn [is_move andb]. unfold turn_agent_pure at 1. cbn [turn_dir]. unfold actuate_door_pure at 1. cbn [is_actuate andb].
    unfold sfront, s5, s3. cbn [set_ori set_pos sgrid spos sori sheld]. rewrite Fpl, IG1, Ipd, (L1g pd Ipd), Npk_pd, cell_pd.
    replace (door_opens (Key COL_YELLOW) (Door st_LOCKED COL_YELLOW)) with true by (vm_compute; reflexivity). cbn [andb].
    unfold pickndrop_pure. cbn [is_pickndrop andb set_grid]. vm_compute open_door. reflexivity. }
  set (g2 := gset g1 pd (Door st_OPEN COL_YELLOW)) in *. set (s6 := mkS g2 pl RIGHT (Key COL_YELLOW)) in *.
  assert (IG2 : forall q, in_grid g2 q = in_grid g q) by (intros q; unfold g2; rewrite in_grid_gset; apply IG1).
  assert (Ipd1 : in_grid g1 pd = true) by (rewrite IG1; exact Ipd).
  assert (L2g : forall q, in_grid g q = true -> lookupH g2 q = if pos_eqb pd q then Door st_OPEN COL_YELLOW else if pos_eqb pk q then Floor else kd_cell h w xw yd pk q).
  { intros q Iq. unfold g2. rewrite (lookupH_gset g1 pd q _ W1g Ipd1). destruct (pos_eqb pd q); [reflexivity | now apply L1g]. }
  (* 7. through the door to the exit *)
  set (ok7 := fun q : pos => pos_eqb pd q || ((1 <=? fst q) && (fst q <=? h - 2) && (xw + 1 <=? snd q) && (snd q <=? w - 2))).
  assert (Enter2 : forall q, ok7 q = true -> can_enter g2 q = true).
  { intros q Hq. unfold ok7 in Hq. apply orb_true_iff in Hq. unfold can_enter. destruct Hq as [Hq|Hq].
    - apply pos_eqb_iff in Hq. subst q. rewrite IG2, Ipd, (L2g pd Ipd), (proj2 (pos_eqb_iff pd pd) eq_refl). vm_compute. reflexivity.
    - rewrite !andb_true_iff, !Z.leb_le in Hq. assert (HR : inR q) by (unfold inR; lia). assert (Iq : in_grid g q = true) by (apply IG; lia).
      rewrite IG2, Iq, (L2g q Iq). destruct (pos_eqb pd q) eqn:E1; [apply pos_eqb_pair in E1; lia|]. destruct (pos_eqb pk q) eqn:E2; [apply pos_eqb_pair in E2; lia|].
      rewrite (cell_R q HR). destruct (pos_eqb pe q); vm_compute; reflexivity. }
  destruct (box_walk ok7 1 (h - 2) (xw + 1) (w - 2) (yd, xw + 1) pe) as (p7 & W7 & L7); try (unfold pe; cbn [fst snd]; lia).
  { intros q H1 H2. unfold ok7. apply orb_true_iff. right. rewrite !andb_true_iff, !Z.leb_le. lia. }
  assert (W7' : walk ok7 pl (pd :: (yd, xw + 1) :: p7)).
  { constructor; [unfold neighbours4, pl, pd; cbn [fst snd In]; right; left; f_equal; lia | unfold ok7; rewrite (proj2 (pos_eqb_iff pd pd) eq_refl); reflexivity|].
    constructor; [unfold neighbours4, pd; cbn [fst snd In]; right; left; reflexivity | unfold ok7; apply orb_true_iff; right; cbn [fst snd]; rewrite !andb_true_iff, !Z.leb_le; lia | exact W7]. }
  destruct (walkK ok7 _ s6 Enter2 W7') as (a7 & F7 & R7). change (spos s6) with pl in R7. rewrite !last_cons, L7 in R7.
  (* assemble *)
  exists (a1 ++ a2 ++ [PICK_N_DROP] ++ a4 ++ a5 ++ [ACTUATE] ++ a7), (set_pos s6 pe).
  rewrite run_actions_K by exact W. split.
  - f_equal. rewrite !runK_app. rewrite R1, R2. unfold runK at 5. cbn [fold_left]. fold s2. rewrite R3. fold g1 s3. rewrite R4, R5. fold s5.
    unfold runK at 2. cbn [fold_left]. rewrite R6. fold g2 s6. exact R7.
  - cbn [set_pos spos sgrid sheld s6]. split; [reflexivity|]. split; [|split; [reflexivity|]].
    + assert (Ipe : in_grid g pe = true) by (apply IG; unfold pe; cbn [fst snd]; lia). rewrite (L2g pe Ipe).
      destruct (pos_eqb pd pe) eqn:E1; [apply pos_eqb_pair in E1; unfold pe in E1; cbn [fst snd] in E1; lia|].
      destruct (pos_eqb pk pe) eqn:E2; [apply pos_eqb_pair in E2; unfold pe in E2; cbn [fst snd] in E2; lia|].
      rewrite (cell_R pe ltac:(unfold inR, pe; cbn [fst snd]; lia)), (proj2 (pos_eqb_iff pe pe) eq_refl). vm_compute. reflexivity.
    + rewrite (L2g pd Ipd), (proj2 (pos_eqb_iff pd pd) eq_refl). reflexivity.
Qed.
End Keydoor.

Theorem keydoor_winnable h w own own' r : 4 <= h -> 5 <= w -> Leaf (reset_keydoor h w own) r ->
  exists s acts s', r = Ok s /\ run_actions chainK own' acts s = Ret s' /\
    spos s' = (h - 2, w - 2) /\ is_ty ty_Exit (lookupH (sgrid s') (h - 2, w - 2)) = true /\ sheld s' = Key COL_YELLOW.
Proof.
  intros Hh Hw HL.
  destruct (keydoor_outcome h w own r Hh Hw HL) as (g & xw & yd & yk & xk & ya & xa & oa & -> & W & Eh & Ew & Hxw & Hyd & Hyk & Hxk & Hya & Hxa & L).
  destruct (keydoor_plan h w xw yd yk xk Hh Hw Hxw Hyd Hyk Hxk g W Eh Ew L ya xa oa own' Hya Hxa) as (acts & s' & R & P & E & Hk & _).
  exists (mkS g (ya, xa) oa NoneObj), acts, s'. auto.
Qed.
