(* C14: walking plans and a verified reachability check *)
From Coq Require Import ZArith List Bool Lia.
From GV.Model Require Import Check.
From GV.Lemmas Require Import GridL RandL GeomL TransL C05L C08L.
Import ListNotations.
Open Scope Z_scope.

(* one move action reaches any enterable 4-neighbour, whatever the heading; turn_agent (and nothing else) is inert *)
Lemma move_to_neighbour s q own : wf_grid (sgrid s) -> In q (neighbours4 (spos s)) -> can_enter (sgrid s) q = true ->
  exists a, is_move a = true /\ chain (map tfun_of [TMoveAgent; TTurnAgent]) s a own = Ret (set_pos s q).
Proof.
  intros Hw Hq Hc.
  assert (T : exists a, is_move a = true /\ move_target s a = q).
  { unfold move_target, next_position. destruct s as [g [y x] o h]. cbn [spos sori neighbours4 fst snd In] in *.
    destruct Hq as [<-|[<-|[<-|[<-|[]]]]]; destruct o;
      first [ exists MOVE_FORWARD; split; [reflexivity|]; cbn [move_dir omul ovec]; unfold padd; cbn [fst snd]; f_equal; lia
            | exists MOVE_BACKWARD; split; [reflexivity|]; cbn [move_dir omul ovec]; unfold padd; cbn [fst snd]; f_equal; lia
            | exists MOVE_LEFT; split; [reflexivity|]; cbn [move_dir omul ovec]; unfold padd; cbn [fst snd]; f_equal; lia
            | exists MOVE_RIGHT; split; [reflexivity|]; cbn [move_dir omul ovec]; unfold padd; cbn [fst snd]; f_equal; lia ]. }
  destruct T as (a & Hm & Ht). exists a. split; auto. cbn [map chain tfun_of].
  rewrite move_agent_eq by auto. unfold move_agent_pure. rewrite Hm, Ht, Hc. cbn [andb bind].
  rewrite turn_agent_eq. unfold turn_agent_pure. destruct a; try discriminate; reflexivity.
Qed.

(* a walk: consecutive 4-neighbours, every cell after the start satisfies ok *)
Inductive walk (ok : pos -> bool) : pos -> list pos -> Prop :=
| walk_nil p : walk ok p []
| walk_cons p q t : In q (neighbours4 p) -> ok q = true -> walk ok q t -> walk ok p (q :: t).
Fixpoint trace (ns : list tname) (own : bool) (s : state) (acts : list Action) : Rand (list state) :=
  match acts with
  | [] => Ret []
  | a :: t => bind (chain (map tfun_of ns) s a own) (fun s1 => bind (trace ns own s1 t) (fun r => Ret (s1 :: r)))
  end.
(* a walk over enterable cells yields an action sequence (moves only) that visits exactly the cells of the walk *)
Lemma walk_plan ok own : forall path s, wf_grid (sgrid s) -> (forall q, ok q = true -> can_enter (sgrid s) q = true) ->
  walk ok (spos s) path ->
  exists acts, length acts = length path /\ Forall (fun a => is_move a = true) acts /\
    trace [TMoveAgent; TTurnAgent] own s acts = Ret (map (set_pos s) path).
Proof.
  induction path as [|q t IH]; intros s Hw Hok Hwalk.
  - exists []. repeat split; auto.
  - inversion Hwalk as [|? ? ? Hq Hoq Ht]; subst.
    destruct (move_to_neighbour s q own Hw Hq (Hok q Hoq)) as (a & Hm & Ha).
    destruct (IH (set_pos s q)) as (acts & Hl & Hf & Htr); auto.
    exists (a :: acts). split; [cbn; lia|]. split; [constructor; auto|].
    cbn [trace]. rewrite Ha. cbn [bind]. rewrite Htr. cbn [bind map]. f_equal.
Qed.

(* soundness of the breadth-first check *)
Inductive reachable_w (ok : pos -> bool) (src : pos) : pos -> Prop :=
| rw0 : reachable_w ok src src
| rwS c q : reachable_w ok src c -> In q (neighbours4 c) -> ok q = true -> reachable_w ok src q.
Lemma last_cons {A} (t : list A) : forall r p, last (r :: t) p = last t r.
Proof.
  induction t as [|x t IH]; intros r p; [reflexivity|].
  change (last (r :: x :: t) p) with (last (x :: t) p). rewrite (IH x p). symmetry. apply (IH x r).
Qed.
Lemma walk_snoc ok p path c q : walk ok p path -> last path p = c -> In q (neighbours4 c) -> ok q = true -> walk ok p (path ++ [q]).
Proof.
  intros H. revert c. induction H as [p|p r t Hr Hor Ht IH]; intros c Hl Hq Hoq.
  - cbn in *. subst. constructor; auto. constructor.
  - cbn [app]. constructor; auto. apply (IH c); auto. rewrite <- Hl. symmetry. apply last_cons.
Qed.
Lemma reachable_walk ok src dst : reachable_w ok src dst -> exists path, walk ok src path /\ last path src = dst.
Proof.
  induction 1 as [|c q Hc IH Hq Hoq].
  - exists []. split; [constructor | reflexivity].
  - destruct IH as (path & Hw & Hl). exists (path ++ [q]). split; [eapply walk_snoc; eauto|]. now rewrite last_last.
Qed.
Lemma dedupP_In p l : In p (dedupP l) -> In p l.
Proof. induction l as [|a t IH]; cbn; auto. destruct (memP a t); cbn; intros H; [right; auto | destruct H; auto]. Qed.
Lemma bfsP_sound ok src dst fuel : forall visited frontier, (forall c, In c frontier -> reachable_w ok src c) ->
  bfsP fuel ok visited frontier dst = true -> reachable_w ok src dst.
Proof.
  induction fuel as [|f IH]; intros visited frontier Hf H; cbn [bfsP] in H; [discriminate|].
  destruct (memP dst frontier) eqn:Em; [apply Hf; now apply memP_In|].
  destruct (dedupP _) as [|n0 ns] eqn:En; [discriminate|].
  refine (IH _ _ _ H). intros c Hc. rewrite <- En in Hc. apply dedupP_In in Hc.
  apply filter_In in Hc. destruct Hc as [Hc Hk]. apply andb_true_iff in Hk. destruct Hk as [Hk _].
  apply in_flat_map in Hc. destruct Hc as (c0 & Hc0 & Hc). eapply rwS; eauto.
Qed.

(* what a successful check means: a plan of moves exists that reaches the goal cell, never entering a blocking cell, never
   leaving the grid, and never standing on a terminating cell before the goal *)
Lemma can_walk_sound s terminal goal own : wf_grid (sgrid s) -> can_walk_to s terminal goal = true ->
  exists acts path, walk (walkable (sgrid s) terminal goal) (spos s) path /\ last path (spos s) = goal /\
    length acts = length path /\ Forall (fun a => is_move a = true) acts /\
    trace [TMoveAgent; TTurnAgent] own s acts = Ret (map (set_pos s) path).
Proof.
  intros Hw H. unfold can_walk_to in H.
  assert (R : reachable_w (walkable (sgrid s) terminal goal) (spos s) goal).
  { eapply bfsP_sound; [|exact H]. intros c [<-|[]]. constructor. }
  destruct (reachable_walk _ _ _ R) as (path & Hwalk & Hl).
  destruct (walk_plan (walkable (sgrid s) terminal goal) own path s Hw) as (acts & H1 & H2 & H3); auto.
  - intros q Hq. unfold walkable in Hq. unfold can_enter. apply andb_true_iff in Hq. destruct Hq as [Hq _]. exact Hq.
  - exists acts, path. auto.
Qed.
Lemma walkable_spec g terminal goal q : walkable g terminal goal q = true ->
  in_grid g q = true /\ o_blocks_movement (lookupH g q) = false /\ (terminal (lookupH g q) = false \/ q = goal).
Proof.
  unfold walkable. rewrite !andb_true_iff, orb_true_iff, !negb_true_iff. intros [[H1 H2] [H3|H3]]; repeat split; auto.
  right. now apply pos_eqb_eq.
Qed.
