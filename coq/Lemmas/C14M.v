(* C14, general part (continued): EVERY initial state of `memory` (all shapes, colour sets and outcomes) is winnable: the agent can walk --
   by move actions of the real move/turn dynamics, over floor cells only, never through the wrong exit -- to the exit whose colour is the
   colour of the beacons. *)
From Coq Require Import ZArith List Bool Lia ZifyBool.
From GV.Model Require Import Check.
From GV.Lemmas Require Import GridL RandL TransL BfsL C13W C13M C14L C14W.
Import ListNotations.
Open Scope Z_scope.

(* straight walks along a column / a row *)
Lemma col_walk ok x : forall n y0 y1, Z.to_nat (Z.abs (y0 - y1)) = n ->
  (forall y, Z.min y0 y1 <= y <= Z.max y0 y1 -> y <> y0 -> ok (y, x) = true) ->
  exists path, walk ok (y0, x) path /\ last path (y0, x) = (y1, x).
Proof.
  induction n as [|n IH]; intros y0 y1 Hn Hok.
  - exists []. split; [constructor|]. cbn. f_equal. lia.
  - set (y := if y0 <? y1 then y0 + 1 else y0 - 1).
    assert (Hy : (y = y0 + 1 /\ y0 < y1) \/ (y = y0 - 1 /\ y1 < y0)) by (unfold y; destruct (y0 <? y1) eqn:E; [apply Z.ltb_lt in E | apply Z.ltb_ge in E]; lia).
    destruct (IH y y1 ltac:(lia)) as (path & Wp & Lp).
    { intros y' Hy' Hne. apply Hok; lia. }
    exists ((y, x) :: path). split.
    + constructor; [|apply Hok; lia | exact Wp]. unfold neighbours4. cbn [fst snd In]. destruct Hy as [[-> _]|[-> _]]; auto.
    + cbn [last]. destruct path as [|p0 t0]; [cbn in Lp |- *; exact Lp | rewrite (last_default (p0 :: t0) (y0, x) (y, x)) by discriminate; exact Lp].
Qed.
Lemma row_walk ok y : forall n x0 x1, Z.to_nat (Z.abs (x0 - x1)) = n ->
  (forall x, Z.min x0 x1 <= x <= Z.max x0 x1 -> x <> x0 -> ok (y, x) = true) ->
  exists path, walk ok (y, x0) path /\ last path (y, x0) = (y, x1).
Proof.
  induction n as [|n IH]; intros x0 x1 Hn Hok.
  - exists []. split; [constructor|]. cbn. f_equal. lia.
  - set (x := if x0 <? x1 then x0 + 1 else x0 - 1).
    assert (Hx : (x = x0 + 1 /\ x0 < x1) \/ (x = x0 - 1 /\ x1 < x0)) by (unfold x; destruct (x0 <? x1) eqn:E; [apply Z.ltb_lt in E | apply Z.ltb_ge in E]; lia).
    destruct (IH x x1 ltac:(lia)) as (path & Wp & Lp).
    { intros x' Hx' Hne. apply Hok; lia. }
    exists ((y, x) :: path). split.
    + constructor; [|apply Hok; lia | exact Wp]. unfold neighbours4. cbn [fst snd In]. destruct Hx as [[-> _]|[-> _]]; auto.
    + cbn [last]. destruct path as [|p0 t0]; [cbn in Lp |- *; exact Lp | rewrite (last_default (p0 :: t0) (y, x0) (y, x)) by discriminate; exact Lp].
Qed.
Lemma walk_app ok p path1 : forall c path2, walk ok p path1 -> last path1 p = c -> walk ok c path2 ->
  walk ok p (path1 ++ path2) /\ last (path1 ++ path2) p = last path2 c.
Proof.
  intros c path2 W1. revert c path2. induction W1 as [p|p q t Hq Hoq Wt IH]; intros c path2 Hl W2.
  - cbn in Hl. subst c. split; [exact W2 | reflexivity].
  - rewrite last_cons in Hl. destruct (IH c path2 Hl W2) as [Wa La]. split.
    + cbn [app]. constructor; auto.
    + cbn [app]. rewrite last_cons. exact La.
Qed.

Theorem memory_winnable h w cs own own' r : 5 <= h -> 5 <= w -> w mod 2 = 1 -> NoDup cs -> ~ In 0 cs -> (2 <= length cs)%nat ->
  Leaf (reset_memory h w cs own) r ->
  exists s pe cg cb pw acts path, r = Ok s /\
    (* the goal: the exit pe carries the colour of both beacons, the other exit pw another colour *)
    lookupH (sgrid s) pe = Exit cg /\ lookupH (sgrid s) pw = Exit cb /\ cg <> cb /\
    lookupH (sgrid s) (h - 2, 1) = Beacon cg /\ lookupH (sgrid s) (h - 2, w - 2) = Beacon cg /\
    (* a walk to it over enterable cells none of which is the other exit, realised by move actions of the real dynamics *)
    walk (walkable (sgrid s) (is_ty ty_Exit) pe) (spos s) path /\ last path (spos s) = pe /\
    length acts = length path /\ Forall (fun a => is_move a = true) acts /\
    trace [TMoveAgent; TTurnAgent] own' s acts = Ret (map (set_pos s) path).
Proof.
  intros Hh Hw Hodd Ncs H0 Hlen HL.
  destruct (memory_outcome h w cs own r Hh Hw Hodd Ncs H0 Hlen HL) as (g & cg & cb & xg & xb & -> & W & Eh & Ew & Hcg & Hcb & Hgb & Sides & L).
  assert (IG : forall q, in_grid g q = true <-> 0 <= fst q < h /\ 0 <= snd q < w) by (intros q; rewrite in_grid_spec, Eh, Ew; tauto).
  pose proof (mid_bounds h Hh) as Hhm. pose proof (mid_bounds w Hw) as Hwm.
  assert (CELL := fun q => mem_cell_cases h w xg xb cg cb q Hh Hw Sides).
  assert (Look : forall y x, 0 <= y < h -> 0 <= x < w -> lookupH g (y, x) = mem_cell h w xg xb cg cb (y, x)) by (intros y x Hy Hx; apply L, IG; cbn [fst snd]; lia).
  set (pe := (1, xg)).
  assert (Lg : lookupH g pe = Exit cg).
  { unfold pe. rewrite Look by lia. destruct (CELL (1, xg)) as [(E & _)|[(_ & E & _)|[(_ & _ & E)|[(E & _)|(_ & _ & N & _)]]]]; cbn [fst snd] in *; try lia; auto;
      exfalso; first [unfold on_corridor in E; cbn [fst snd] in E; lia | apply N; lia]. }
  assert (Lb : lookupH g (1, xb) = Exit cb).
  { rewrite Look by lia. destruct (CELL (1, xb)) as [(E & _)|[(_ & _ & E)|[(_ & E & _)|[(E & _)|(_ & _ & N & _)]]]]; cbn [fst snd] in *; try lia; auto;
      exfalso; first [unfold on_corridor in E; cbn [fst snd] in E; lia | apply N; lia]. }
  assert (Lb1 : lookupH g (h - 2, 1) = Beacon cg).
  { rewrite Look by lia. destruct (CELL (h - 2, 1)) as [(_ & _ & E)|[(E & _)|[(E & _)|[(E & _)|(_ & N & _)]]]]; cbn [fst snd] in *; try lia; auto;
      exfalso; first [unfold on_corridor in E; cbn [fst snd] in E; lia | apply N; lia]. }
  assert (Lb2 : lookupH g (h - 2, w - 2) = Beacon cg).
  { rewrite Look by lia. destruct (CELL (h - 2, w - 2)) as [(_ & _ & E)|[(E & _)|[(E & _)|[(E & _)|(_ & N & _)]]]]; cbn [fst snd] in *; try lia; auto;
      exfalso; first [unfold on_corridor in E; cbn [fst snd] in E; lia | apply N; lia]. }
  (* corridor cells and the goal are walkable *)
  set (ok := walkable g (is_ty ty_Exit) pe).
  assert (Ok_corr : forall y x, 0 <= y < h -> 0 <= x < w -> on_corridor h w (y, x) = true -> ok (y, x) = true).
  { intros y x Hy Hx Hc. unfold ok, walkable. rewrite (proj2 (IG (y, x))) by (cbn [fst snd]; lia). rewrite Look by lia.
    destruct (CELL (y, x)) as [(E & E' & _)|[(E & E' & _)|[(E & E' & _)|[(_ & E)|(E & _)]]]]; cbn [fst snd] in *;
      try (exfalso; unfold on_corridor in Hc; cbn [fst snd] in Hc; lia); try congruence.
    rewrite E. vm_compute. reflexivity. }
  assert (Ok_goal : ok pe = true).
  { unfold ok, walkable. rewrite (proj2 (IG pe)) by (unfold pe; cbn [fst snd]; lia). rewrite Lg, (proj2 (pos_eqb_iff pe pe) eq_refl). vm_compute. reflexivity. }
  (* up the middle column to row 1, then along row 1 to the exit *)
  destruct (col_walk ok (w / 2) _ (h / 2) 1 eq_refl) as (p1 & W1 & L1).
  { intros y Hy Hne. apply Ok_corr; try lia. unfold on_corridor. cbn [fst snd]. lia. }
  destruct (row_walk ok 1 _ (w / 2) xg eq_refl) as (p2 & W2 & L2).
  { intros x Hx Hne. destruct (Z.eq_dec x xg) as [->|Nx]; [exact Ok_goal|]. apply Ok_corr; try lia. unfold on_corridor. cbn [fst snd]. lia. }
  destruct (walk_app ok (h / 2, w / 2) p1 (1, w / 2) p2 W1 L1 W2) as [Wp Lp]. rewrite L2 in Lp.
  set (s := mkS g (h / 2, w / 2) FORWARD NoneObj).
  destruct (walk_plan ok own' (p1 ++ p2) s W) as (acts & La & Fa & Ta).
  - intros q Hq. unfold ok, walkable in Hq. unfold can_enter. apply andb_true_iff in Hq. destruct Hq as [Hq _]. exact Hq.
  - exact Wp.
  - exists s, pe, cg, cb, (1, xb), acts, (p1 ++ p2). cbn [sgrid spos]. repeat split; auto.
Qed.
