(* C14, general part (continued): EVERY initial state of `rooms` is winnable by walking, for every shape and every pair of split lists
   0 = s_0 < s_1 < ... < s_n = last index whose consecutive entries are at least two apart (rooms at least one cell wide -- what the layout's
   linspace gives whenever it gives distinct splits with room in between, e.g. [0; 3; 6]), and every random outcome: every pair of
   neighbouring rooms is joined by exactly one passage, so the rooms form a connected grid, and agent and exit are placed on floor cells. *)
From Coq Require Import ZArith List Bool Lia Permutation ZifyBool.
From GV.Model Require Import Check.
From GV.Lemmas Require Import GridL RotL RandL GeomL TransL BfsL C02L C13L C13W C13M C13X C13R C14L C14W C14M C14X.
Import ListNotations.
Open Scope Z_scope.

Lemma pairwise_nth (l : list Z) : forall b, (S b < length l)%nat -> In (nth b l 0, nth (S b) l 0) (pairwise l).
Proof.
  induction l as [|x [|y t] IH]; intros b Hb; cbn [length] in Hb; try lia.
  destruct b as [|b]; [left; reflexivity|]. right. change (nth (S b) (x :: y :: t) 0) with (nth b (y :: t) 0). change (nth (S (S b)) (x :: y :: t) 0) with (nth (S b) (y :: t) 0).
  apply IH. cbn [length]. lia.
Qed.
Lemma pairwise_inv (l : list Z) : forall lo hi, In (lo, hi) (pairwise l) -> exists b, (S b < length l)%nat /\ lo = nth b l 0 /\ hi = nth (S b) l 0.
Proof.
  induction l as [|x [|y t] IH]; intros lo hi H; cbn [pairwise] in H; try (destruct H; fail).
  destruct H as [E|H]; [injection E as <- <-; exists 0%nat; cbn [length nth]; split; [lia | auto]|].
  destruct (IH lo hi H) as (b & Hb & E1 & E2). exists (S b). cbn [length] in *. split; [lia|]. split; [exact E1 | exact E2].
Qed.
Lemma neighbours4_sym p q : In q (neighbours4 p) -> In p (neighbours4 q).
Proof.
  destruct p as [y x], q as [y' x']. unfold neighbours4. cbn [fst snd In]. intros [E|[E|[E|[E|[]]]]]; injection E as <- <-.
  - right; right; left; f_equal; lia.
  - right; right; right; left; f_equal; lia.
  - left; f_equal; lia.
  - right; left; f_equal; lia.
Qed.
Lemma reach_ok ok a b : reachable_w ok a b -> b = a \/ ok b = true.
Proof. induction 1; auto. Qed.
Lemma reach_sym ok a b : ok a = true -> reachable_w ok a b -> reachable_w ok b a.
Proof.
  intros Ha R. induction R as [|c q Rc IH Hq Hoq]; [constructor|].
  apply reach_trans with (b := c); [|exact IH].
  eapply rwS; [constructor | now apply neighbours4_sym |]. destruct (reach_ok _ _ _ Rc) as [->|H]; auto.
Qed.
(* a walk can be cut at the first visit of its end point *)
Lemma walk_cut ok b : forall path a, walk ok a path -> last path a = b -> a <> b ->
  exists path', walk ok a path' /\ last path' a = b /\ ~ In b (removelast path').
Proof.
  induction path as [|q t IH]; intros a W Hl Hne; [cbn in Hl; congruence|].
  inversion_clear W as [|? ? ? Hq Hoq Wt]. rewrite last_cons in Hl. subst b.
  destruct (pos_eq_dec q (last t q)) as [E|N].
  - exists [q]. split; [constructor; auto; constructor|]. split; [cbn; exact E | cbn; tauto].
  - destruct (IH q Wt eq_refl N) as (p' & W' & L' & Nin). exists (q :: p'). split; [constructor; auto|]. split; [rewrite last_cons; exact L'|].
    destruct p' as [|z t']; [cbn in L'; congruence|]. cbn [removelast]. intros [E|H]; [congruence | exact (Nin H)].
Qed.

Lemma gap2_gapsb l : gap2 l -> gapsb l = true.
Proof. induction 1 as [|x|x y t Hxy Ht IH]; [reflexivity | reflexivity|]. cbn [gapsb] in *. rewrite IH, andb_true_r. apply Z.leb_le. exact Hxy. Qed.
Lemma gapsb_gap2 : forall l, gapsb l = true -> gap2 l.
Proof.
  induction l as [|x [|y t] IH]; intros H; [constructor | constructor|]. cbn [gapsb] in H. apply andb_true_iff in H. destruct H as [H1 H2].
  constructor; [now apply Z.leb_le | now apply IH].
Qed.

Section RoomsWin.
Variables (h w : Z) (ym xm : list Z).
Hypotheses (Hh : 2 <= h) (Hw : 2 <= w) (Hym : forall y, In y ym -> 1 <= y <= h - 2) (Hxm : forall x, In x xm -> 1 <= x <= w - 2).
Let ysp := 0 :: ym ++ [h - 1].
Let xsp := 0 :: xm ++ [w - 1].
Hypotheses (Gy : gap2 ysp) (Gx : gap2 xsp).

Definition rcell (a b : nat) (q : pos) : Prop := nth a ysp 0 < fst q < nth (S a) ysp 0 /\ nth b xsp 0 < snd q < nth (S b) xsp 0.
Definition valid (a b : nat) : Prop := (a <= length ym)%nat /\ (b <= length xm)%nat.
(* a cell of a horizontal wall strictly between two wall columns (where a passage between rooms (a,b) and (a+1,b) can be) *)
Definition rowgap (a b : nat) (q : pos) : Prop := (S a <= length ym)%nat /\ (b <= length xm)%nat /\ fst q = nth (S a) ysp 0 /\ nth b xsp 0 < snd q < nth (S b) xsp 0.
Definition colgap (a b : nat) (q : pos) : Prop := (a <= length ym)%nat /\ (S b <= length xm)%nat /\ snd q = nth (S b) xsp 0 /\ nth a ysp 0 < fst q < nth (S a) ysp 0.
Definition cls (q : pos) : Prop := (exists a b, valid a b /\ rcell a b q) \/ (exists a b, rowgap a b q) \/ (exists a b, colgap a b q).

Lemma lenY : length ysp = S (S (length ym)). Proof. unfold ysp. cbn [length]. rewrite app_length. cbn [length]. lia. Qed.
Lemma lenX : length xsp = S (S (length xm)). Proof. unfold xsp. cbn [length]. rewrite app_length. cbn [length]. lia. Qed.
Lemma ysp_b k : 0 <= nth k ysp 0 <= h - 1.
Proof.
  destruct (Nat.lt_ge_cases k (length ysp)) as [Hk|Hk]; [|rewrite nth_overflow by exact Hk; lia].
  assert (Hin : In (nth k ysp 0) ysp) by (apply nth_In; exact Hk). unfold ysp in Hin at 2. cbn [In] in Hin. rewrite in_app_iff in Hin. cbn [In] in Hin.
  destruct Hin as [<-|[Hin|[<-|[]]]]; try lia. apply Hym in Hin. lia.
Qed.
Lemma xsp_b k : 0 <= nth k xsp 0 <= w - 1.
Proof.
  destruct (Nat.lt_ge_cases k (length xsp)) as [Hk|Hk]; [|rewrite nth_overflow by exact Hk; lia].
  assert (Hin : In (nth k xsp 0) xsp) by (apply nth_In; exact Hk). unfold xsp in Hin at 2. cbn [In] in Hin. rewrite in_app_iff in Hin. cbn [In] in Hin.
  destruct Hin as [<-|[Hin|[<-|[]]]]; try lia. apply Hxm in Hin. lia.
Qed.
Lemma ysp_last : nth (S (length ym)) ysp 0 = h - 1. Proof. apply nth_last_lim. Qed.
Lemma xsp_last : nth (S (length xm)) xsp 0 = w - 1. Proof. apply nth_last_lim. Qed.
(* a coordinate strictly between two consecutive splits is no split *)
Lemma between_not_split (l : list Z) k y : gap2 l -> (S k < length l)%nat -> nth k l 0 < y < nth (S k) l 0 -> ~ In y l.
Proof.
  intros G Hk Hy Hin. apply (In_nth _ _ 0) in Hin. destruct Hin as (m & Hm & E).
  destruct (Nat.lt_trichotomy m k) as [Hlt|[Heq|Hgt]].
  - pose proof (gap2_mono _ G k m Hlt ltac:(lia)). lia.
  - subst m. lia.
  - destruct (Nat.eq_dec m (S k)) as [E2|N2]; [rewrite E2 in E; lia|]. pose proof (gap2_mono _ G m (S k) ltac:(lia) Hm). lia.
Qed.

(* the invariant of the grid while walls are opened *)
Record winv (g : grid) : Prop := {
  wi_wf : wf_grid g; wi_h : gheight g = h; wi_w : gwidth g = w;
  wi_cells : forall q, in_grid g q = true -> lookupH g q = Wall \/ lookupH g q = Floor;
  wi_room : forall a b q, valid a b -> rcell a b q -> lookupH g q = Floor;
  wi_cls : forall q, in_grid g q = true -> lookupH g q = Floor -> cls q }.
Lemma winv_in_grid g q : winv g -> (in_grid g q = true <-> 0 <= fst q < h /\ 0 <= snd q < w).
Proof. intros C. rewrite in_grid_spec, (wi_h _ C), (wi_w _ C). tauto. Qed.
Lemma rcell_inner a b q : valid a b -> rcell a b q -> 1 <= fst q <= h - 2 /\ 1 <= snd q <= w - 2.
Proof. intros [Ha Hb] [H1 H2]. pose proof (ysp_b a). pose proof (ysp_b (S a)). pose proof (xsp_b b). pose proof (xsp_b (S b)). lia. Qed.
Lemma rowgap_inner a b q : rowgap a b q -> 1 <= fst q <= h - 2 /\ 1 <= snd q <= w - 2.
Proof.
  intros (Ha & Hb & E & H2). pose proof (xsp_b b). pose proof (xsp_b (S b)). split; [|lia].
  assert (Hin : In (nth (S a) ysp 0) ym) by (apply lim_inner; lia). apply Hym in Hin. lia.
Qed.
Lemma colgap_inner a b q : colgap a b q -> 1 <= fst q <= h - 2 /\ 1 <= snd q <= w - 2.
Proof.
  intros (Ha & Hb & E & H2). pose proof (ysp_b a). pose proof (ysp_b (S a)). split; [lia|].
  assert (Hin : In (nth (S b) xsp 0) xm) by (apply lim_inner; lia). apply Hxm in Hin. lia.
Qed.
Lemma winv_set g q : winv g -> ((exists a b, rowgap a b q) \/ (exists a b, colgap a b q)) -> winv (gset g q Floor).
Proof.
  intros C Hq.
  assert (Sq : 1 <= fst q <= h - 2 /\ 1 <= snd q <= w - 2) by (destruct Hq as [(a & b & H)|(a & b & H)]; [eapply rowgap_inner | eapply colgap_inner]; eauto).
  assert (Iq : in_grid g q = true) by (apply (winv_in_grid g q C); lia).
  constructor.
  - apply wf_gset, (wi_wf _ C).
  - rewrite gheight_gset. apply (wi_h _ C).
  - rewrite gwidth_gset. apply (wi_w _ C).
  - intros p Ip. rewrite in_grid_gset in Ip. rewrite (lookupH_gset g q p Floor (wi_wf _ C) Iq). destruct (pos_eqb q p); [right; reflexivity | now apply (wi_cells _ C)].
  - intros a b p V R. rewrite (lookupH_gset g q p Floor (wi_wf _ C) Iq). destruct (pos_eqb q p); [reflexivity | now apply (wi_room _ C a b)].
  - intros p Ip Fp. rewrite in_grid_gset in Ip. rewrite (lookupH_gset g q p Floor (wi_wf _ C) Iq) in Fp. destruct (pos_eqb q p) eqn:E.
    + apply pos_eqb_iff in E. subst p. right. exact Hq.
    + now apply (wi_cls _ C).
Qed.

(* the walls: a cell is wall exactly when its row or its column is a split *)
Lemma room_grid_winv : exists g1, draw_room_grid (grid_from_shape h w Floor) ysp xsp Wall = Ok g1 /\ winv g1.
Proof.
  destruct (blank_grid h w Floor ltac:(lia) ltac:(lia)) as (W0 & Eh0 & Ew0 & L0).
  set (g0 := grid_from_shape h w Floor) in *.
  assert (IG0 : forall q, in_grid g0 q = true <-> 0 <= fst q < h /\ 0 <= snd q < w) by (intros q; rewrite in_grid_spec, Eh0, Ew0; tauto).
  unfold draw_room_grid. unfold ysp, xsp. rewrite (zmin_ysp h w ym xm Hh Hym Hxm), (zmax_ysp h w ym xm Hh Hym Hxm), (zmin_xsp h w ym xm Hw Hym Hxm), (zmax_xsp h w ym xm Hw Hym Hxm). fold ysp xsp.
  set (ps1 := cartesian ysp (zrange 0 (w - 1 + 1))). set (ps2 := cartesian (filter (fun y => negb (memZ y ysp)) (zrange 0 (h - 1 + 1))) xsp).
  assert (H1 : forall q, In q ps1 <-> In (fst q) ysp /\ 0 <= snd q <= w - 1) by (intros q; unfold ps1, cartesian; rewrite cartesian_In, zrange_In; intuition lia).
  assert (H2 : forall q, In q ps2 <-> (0 <= fst q <= h - 1 /\ ~ In (fst q) ysp) /\ In (snd q) xsp).
  { intros q. unfold ps2, cartesian. rewrite cartesian_In, filter_In, zrange_In, negb_true_iff. rewrite <- (memZ_In (fst q) ysp).
    destruct (memZ (fst q) ysp); intuition (try lia; try congruence). }
  assert (Yr : forall y, In y ysp -> 0 <= y <= h - 1) by (apply (ysp_range h w ym xm Hh Hym Hxm)).
  assert (Xr : forall x, In x xsp -> 0 <= x <= w - 1) by (apply (xsp_range h w ym xm Hw Hym Hxm)).
  destruct (draw_spec ps1 g0 Wall W0) as (ga & Ea & Wa & Eha & Ewa & La).
  { intros q Hq. apply H1 in Hq. destruct Hq as [Hy Hx]. apply Yr in Hy. apply IG0. lia. }
  rewrite Ea. cbn [rbind].
  assert (IGa : forall q, in_grid ga q = in_grid g0 q) by (intros q; unfold in_grid, garea; now rewrite Eha, Ewa).
  destruct (draw_spec ps2 ga Wall Wa) as (gb & Eb & Wb & Ehb & Ewb & Lb).
  { intros q Hq. apply H2 in Hq. destruct Hq as [[Hy _] Hx]. apply Xr in Hx. rewrite IGa. apply IG0. lia. }
  exists gb. split; [exact Eb|].
  assert (IGb : forall q, in_grid gb q = in_grid g0 q) by (intros q; rewrite <- IGa; unfold in_grid, garea; now rewrite Ehb, Ewb).
  assert (L : forall q, in_grid g0 q = true -> lookupH gb q = if memP q ps2 || memP q ps1 then Wall else Floor).
  { intros q Iq. rewrite Lb, IGa, Iq. destruct (memP q ps2); [reflexivity|]. rewrite La, Iq. destruct (memP q ps1); [reflexivity|]. cbn [orb]. now apply L0. }
  assert (NotWall : forall a b q, valid a b -> rcell a b q -> memP q ps2 || memP q ps1 = false).
  { intros a b q [Va Vb] [R1 R2]. apply orb_false_iff.
    assert (Ny : ~ In (fst q) ysp) by (apply (between_not_split ysp a); [exact Gy | rewrite lenY; lia | exact R1]).
    assert (Nx : ~ In (snd q) xsp) by (apply (between_not_split xsp b); [exact Gx | rewrite lenX; lia | exact R2]).
    split; apply memP_false; [rewrite H2 | rewrite H1]; tauto. }
  constructor; try congruence.
  - intros q Iq. rewrite IGb in Iq. rewrite (L q Iq). destruct (memP q ps2 || memP q ps1); auto.
  - intros a b q V R. assert (Iq : in_grid g0 q = true) by (apply IG0; destruct (rcell_inner a b q V R); lia). rewrite (L q Iq), (NotWall a b q V R). reflexivity.
  - (* a floor cell lies on no wall line: it is strictly between consecutive splits in both directions *)
    intros q Iq Fq. rewrite IGb in Iq. rewrite (L q Iq) in Fq. destruct (memP q ps2 || memP q ps1) eqn:M; [discriminate|]. apply orb_false_iff in M. destruct M as [M2 M1].
    apply memP_false in M1, M2. rewrite H1 in M1. rewrite H2 in M2. apply IG0 in Iq.
    assert (Ny : ~ In (fst q) ysp) by (intros H; apply M1; split; [exact H | lia]).
    assert (Nx : ~ In (snd q) xsp) by (intros H; apply M2; split; [split; [lia | exact Ny] | exact H]).
    left.
    assert (Loc : forall (l : list Z) e z, 0 <= z <= e -> ~ In z (0 :: l ++ [e]) -> exists k, (k <= length l)%nat /\ nth k (0 :: l ++ [e]) 0 < z < nth (S k) (0 :: l ++ [e]) 0).
    { clear. intros l e z Hz Hn. set (L := 0 :: l ++ [e]) in *.
      assert (Len : length L = S (S (length l))) by (unfold L; cbn [length]; rewrite app_length; cbn [length]; lia).
      assert (Last : nth (S (length l)) L 0 = e) by (unfold L; apply nth_last_lim).
      (* the largest index whose entry is below z *)
      assert (Ex : forall n, (n <= S (length l))%nat -> nth n L 0 < z \/ exists k, (k < n)%nat /\ nth k L 0 < z < nth (S k) L 0).
      { induction n as [|n IHn]; intros Hn'.
        - left. unfold L. cbn [nth]. assert (z <> 0) by (intros ->; apply Hn; left; reflexivity). lia.
        - destruct (IHn ltac:(lia)) as [Hlt|(k & Hk & Hb)]; [|right; exists k; split; [lia | exact Hb]].
          destruct (Z_lt_ge_dec (nth (S n) L 0) z) as [H1|H1]; [left; exact H1|]. right. exists n. split; [lia|]. split; [exact Hlt|].
          assert (nth (S n) L 0 <> z) by (intros E; apply Hn; rewrite <- E; apply nth_In; lia). lia. }
      destruct (Ex (S (length l)) ltac:(lia)) as [Hlt|(k & Hk & Hb)]; [rewrite Last in Hlt; lia|]. exists k. split; [lia | exact Hb]. }
    destruct (Loc ym (h - 1) (fst q) ltac:(lia) Ny) as (a & Ha & Ra). destruct (Loc xm (w - 1) (snd q) ltac:(lia) Nx) as (b & Hb & Rb).
    exists a, b. split; [split; assumption | split; assumption].
Qed.

(* the passages: every job opens one cell strictly between its limits; nothing that was floor stops being floor *)
Definition cellof (row : bool) (c v : Z) : pos := if row then (c, v) else (v, c).
Definition gapcell (row : bool) (q : pos) : Prop := (row = true /\ exists a b, rowgap a b q) \/ (row = false /\ exists a b, colgap a b q).
Lemma openings_win gl row : forall jobs g, winv g ->
  (forall c lo hi, In (c, (lo, hi)) jobs -> lo + 2 <= hi /\ forall v, lo < v < hi -> gapcell row (cellof row c v)) ->
  forall x, Leaf (openings gl row jobs g) x ->
  exists g', x = Ok g' /\ winv g' /\ (forall q, lookupH g q = Floor -> lookupH g' q = Floor) /\
             (forall c lo hi, In (c, (lo, hi)) jobs -> exists v, lo < v < hi /\ lookupH g' (cellof row c v) = Floor).
Proof.
  induction jobs as [|[c [lo hi]] t IH]; intros g C Hj x HL; cbn [openings] in HL.
  - apply Leaf_Ret in HL. exists g. split; [exact HL|]. split; [exact C|]. split; [auto|]. intros c lo hi [].
  - destruct (Hj c lo hi (or_introl eq_refl)) as [Hgap Hcell].
    apply Leaf_bind in HL. destruct HL as [(v & Hv & HL)|(e & He & E)].
    2:{ exfalso. apply Leaf_rints in He. destruct He as [[Hlt _]|(i & _ & E')]; [lia | discriminate]. }
    apply Leaf_rints in Hv. destruct Hv as [[_ E]|(v' & Hr & E)]; [discriminate|]. injection E as <-.
    assert (Gq : gapcell row (cellof row c v)) by (apply Hcell; lia).
    set (q := cellof row c v) in *.
    assert (Gq' : (exists a b, rowgap a b q) \/ (exists a b, colgap a b q)) by (destruct Gq as [[_ H]|[_ H]]; auto).
    assert (Sq : 1 <= fst q <= h - 2 /\ 1 <= snd q <= w - 2) by (destruct Gq' as [(a & b & H)|(a & b & H)]; [eapply rowgap_inner | eapply colgap_inner]; eauto).
    assert (Iq : in_grid g q = true) by (apply (winv_in_grid g q C); lia).
    assert (Eg : grid_set g (if row then (c, v) else (v, c)) Floor = Ok (gset g q Floor)) by (apply grid_set_in; [apply C | exact Iq]).
    rewrite Eg in HL. cbn [lift bind] in HL.
    destruct (IH (gset g q Floor) (winv_set g q C Gq') ltac:(intros c' lo' hi' H'; apply Hj; right; exact H') x HL) as (g' & E & C' & Mono & Jobs).
    exists g'. split; [exact E|]. split; [exact C'|]. split.
    + intros p Hp. apply Mono. rewrite (lookupH_gset g q p Floor (wi_wf _ C) Iq). destruct (pos_eqb q p); auto.
    + intros c' lo' hi' [E'|H']; [|now apply Jobs]. injection E' as <- <- <-. exists v. split; [lia|]. apply Mono. apply lookupH_gset_same; [apply C | exact Iq].
Qed.

Lemma gap2_head_le l : gap2 l -> forall x t, l = x :: t -> forall z, In z t -> x + 2 <= z.
Proof.
  induction 1 as [|x0|x0 y t0 Hxy Ht IH]; intros x t E z Hz; try discriminate.
  - injection E as <- <-. destruct Hz.
  - injection E as <- <-. destruct Hz as [<-|Hz]; [exact Hxy|]. specialize (IH y t0 eq_refl z Hz). lia.
Qed.
Lemma gap2_NoDup l : gap2 l -> NoDup l.
Proof.
  induction 1 as [|x|x y t Hxy Ht IH]; [constructor | constructor; [intros [] | constructor]|].
  constructor; [|exact IH]. intros Hin. pose proof (gap2_head_le (x :: y :: t) (gap2_cons x y t Hxy Ht) x (y :: t) eq_refl x Hin). lia.
Qed.
Lemma ym_as_split y : In y ym -> exists a, (a < length ym)%nat /\ y = nth (S a) ysp 0.
Proof.
  intros Hy. apply (In_nth _ _ 0) in Hy. destruct Hy as (a & Ha & E). exists a. split; [exact Ha|]. unfold ysp. cbn [nth]. rewrite app_nth1 by exact Ha. now symmetry.
Qed.
Lemma xm_as_split x : In x xm -> exists b, (b < length xm)%nat /\ x = nth (S b) xsp 0.
Proof.
  intros Hx. apply (In_nth _ _ 0) in Hx. destruct Hx as (b & Hb & E). exists b. split; [exact Hb|]. unfold xsp. cbn [nth]. rewrite app_nth1 by exact Hb. now symmetry.
Qed.

(* the grid of rooms after all passages: never an error, every room is floor, every pair of neighbouring rooms shares an open cell *)
Theorem rooms_grid_win gl x : Leaf (rooms_grid h w ysp xsp gl) x ->
  exists g, x = Ok g /\ winv g /\
    (forall a b, (S a <= length ym)%nat -> (b <= length xm)%nat -> exists v, nth b xsp 0 < v < nth (S b) xsp 0 /\ lookupH g (nth (S a) ysp 0, v) = Floor) /\
    (forall a b, (a <= length ym)%nat -> (S b <= length xm)%nat -> exists v, nth a ysp 0 < v < nth (S a) ysp 0 /\ lookupH g (v, nth (S b) xsp 0) = Floor).
Proof.
  unfold rooms_grid. intros HL.
  rewrite (gap2_gapsb ysp Gy), (gap2_gapsb xsp Gx) in HL. cbn [negb] in HL.
  destruct room_grid_winv as (g1 & E1 & C1). rewrite E1 in HL. cbn [lift bind] in HL.
  unfold ysp, xsp in HL. rewrite (inner_ysp h ym), (inner_xsp w xm) in HL. fold ysp xsp in HL.
  set (jobs1 := flat_map (fun y => map (fun pr => (y, pr)) (pairwise xsp)) ym) in *.
  set (jobs2 := flat_map (fun pr => map (fun x0 => (x0, pr)) xm) (pairwise ysp)) in *.
  assert (J1 : forall c lo hi, In (c, (lo, hi)) jobs1 -> lo + 2 <= hi /\ forall v, lo < v < hi -> gapcell true (cellof true c v)).
  { intros c lo hi Hin. apply in_flat_map in Hin. destruct Hin as (y & Hy & Hin). apply in_map_iff in Hin. destruct Hin as ([lo' hi'] & E & Hp). injection E as <- <- <-.
    apply pairwise_inv in Hp. destruct Hp as (b & Hb & -> & ->). rewrite lenX in Hb. destruct (ym_as_split y Hy) as (a & Ha & ->).
    split; [apply (gap2_nth xsp Gx b); rewrite lenX; lia|]. intros v Hv. left. split; [reflexivity|]. exists a, b. unfold rowgap, cellof. cbn [fst snd]. repeat split; lia. }
  assert (J2 : forall c lo hi, In (c, (lo, hi)) jobs2 -> lo + 2 <= hi /\ forall v, lo < v < hi -> gapcell false (cellof false c v)).
  { intros c lo hi Hin. apply in_flat_map in Hin. destruct Hin as ([lo' hi'] & Hp & Hin). apply in_map_iff in Hin. destruct Hin as (x' & E & Hx'). injection E as <- <- <-.
    apply pairwise_inv in Hp. destruct Hp as (a & Ha & -> & ->). rewrite lenY in Ha. destruct (xm_as_split x' Hx') as (b & Hb & ->).
    split; [apply (gap2_nth ysp Gy a); rewrite lenY; lia|]. intros v Hv. right. split; [reflexivity|]. exists a, b. unfold colgap, cellof. cbn [fst snd]. repeat split; lia. }
  apply Leaf_bind in HL. destruct HL as [(g2 & Hg2 & HL)|(e & He & ->)].
  2:{ destruct (openings_win gl true jobs1 g1 C1 J1 _ He) as (g' & E & _). discriminate. }
  destruct (openings_win gl true jobs1 g1 C1 J1 _ Hg2) as (g' & E & C2 & _ & Op1). injection E as <-.
  destruct (openings_win gl false jobs2 g2 C2 J2 _ HL) as (g3 & E & C3 & Mono & Op2).
  exists g3. split; [exact E|]. split; [exact C3|]. split.
  - intros a b Ha Hb. destruct (Op1 (nth (S a) ysp 0) (nth b xsp 0) (nth (S b) xsp 0)) as (v & Hv & Fv).
    { unfold jobs1. apply in_flat_map. exists (nth (S a) ysp 0). split; [apply lim_inner; lia|]. apply in_map_iff. exists (nth b xsp 0, nth (S b) xsp 0). split; [reflexivity|].
      apply pairwise_nth. rewrite lenX. lia. }
    exists v. split; [exact Hv|]. apply Mono. exact Fv.
  - intros a b Ha Hb. destruct (Op2 (nth (S b) xsp 0) (nth a ysp 0) (nth (S a) ysp 0)) as (v & Hv & Fv).
    { unfold jobs2. apply in_flat_map. exists (nth a ysp 0, nth (S a) ysp 0). split; [apply pairwise_nth; rewrite lenY; lia|]. apply in_map_iff. exists (nth (S b) xsp 0). split; [reflexivity|].
      apply lim_inner. lia. }
    exists v. split; [exact Hv | exact Fv].
Qed.

(* ---------- connectivity ---------- *)
Section Conn.
Variables (g : grid) (pe : pos).
Hypotheses (C : winv g)
  (V : forall a b, (S a <= length ym)%nat -> (b <= length xm)%nat -> exists v, nth b xsp 0 < v < nth (S b) xsp 0 /\ lookupH g (nth (S a) ysp 0, v) = Floor)
  (Hz : forall a b, (a <= length ym)%nat -> (S b <= length xm)%nat -> exists v, nth a ysp 0 < v < nth (S a) ysp 0 /\ lookupH g (v, nth (S b) xsp 0) = Floor)
  (Ipe : in_grid g pe = true).
Let gE := gset g pe (Exit 0).
Let ok := walkable gE (is_ty ty_Exit) pe.
Lemma floor_ok q : in_grid g q = true -> lookupH g q = Floor -> ok q = true.
Proof.
  intros Iq Fq. unfold ok, walkable, gE. rewrite in_grid_gset, Iq, (lookupH_gset g pe q (Exit 0) (wi_wf _ C) Ipe). destruct (pos_eqb pe q) eqn:E.
  - apply pos_eqb_iff in E. subst q. rewrite (proj2 (pos_eqb_iff pe pe) eq_refl). vm_compute. reflexivity.
  - rewrite Fq. vm_compute. reflexivity.
Qed.
Lemma rcell_ok a b q : valid a b -> rcell a b q -> ok q = true.
Proof. intros Vd R. apply floor_ok; [apply (winv_in_grid g q C); destruct (rcell_inner a b q Vd R); lia | apply (wi_room _ C a b q Vd R)]. Qed.
Lemma in_room_reach a b p q : valid a b -> rcell a b p -> rcell a b q -> reachable_w ok p q.
Proof.
  intros Vd Hp Hq. destruct p as [yp xp], q as [yq xq]. unfold rcell in Hp, Hq. cbn [fst snd] in Hp, Hq.
  destruct (col_walk ok xp _ yp yq eq_refl) as (p1 & W1 & L1). { intros y Hy _. apply (rcell_ok a b); auto. unfold rcell. cbn [fst snd]. lia. }
  destruct (row_walk ok yq _ xp xq eq_refl) as (p2 & W2 & L2). { intros x Hx _. apply (rcell_ok a b); auto. unfold rcell. cbn [fst snd]. lia. }
  apply reach_trans with (b := (yq, xp)); [rewrite <- L1 | rewrite <- L2]; apply walk_reach; auto; constructor.
Qed.
Lemma room_nonempty a b : valid a b -> rcell a b (nth a ysp 0 + 1, nth b xsp 0 + 1).
Proof.
  intros [Ha Hb]. unfold rcell. cbn [fst snd]. pose proof (gap2_nth ysp Gy a ltac:(rewrite lenY; lia)). pose proof (gap2_nth xsp Gx b ltac:(rewrite lenX; lia)). lia.
Qed.
Definition conn (a b a' b' : nat) : Prop := forall p q, rcell a b p -> rcell a' b' q -> reachable_w ok p q.
Lemma conn_sym a b a' b' : valid a b -> conn a b a' b' -> conn a' b' a b.
Proof. intros Vd H p q Hp Hq. apply reach_sym; [apply (rcell_ok a b q Vd Hq) | apply H; auto]. Qed.
Lemma conn_trans a b a1 b1 a2 b2 : valid a1 b1 -> conn a b a1 b1 -> conn a1 b1 a2 b2 -> conn a b a2 b2.
Proof. intros Vd H1 H2 p q Hp Hq. pose proof (room_nonempty a1 b1 Vd) as Hc. eapply reach_trans; [apply (H1 p _ Hp Hc) | apply (H2 _ q Hc Hq)]. Qed.
Lemma conn_down a b : (S a <= length ym)%nat -> (b <= length xm)%nat -> conn a b (S a) b.
Proof.
  intros Ha Hb p q Hp Hq. destruct (V a b Ha Hb) as (v & Hv & Fv). set (y0 := nth (S a) ysp 0) in *.
  pose proof (gap2_nth ysp Gy a ltac:(rewrite lenY; lia)) as G1. pose proof (gap2_nth ysp Gy (S a) ltac:(rewrite lenY; lia)) as G2. fold y0 in G1, G2.
  assert (Hup : rcell a b (y0 - 1, v)) by (unfold rcell; cbn [fst snd]; fold y0; lia).
  assert (Hdn : rcell (S a) b (y0 + 1, v)) by (unfold rcell; cbn [fst snd]; fold y0; lia).
  assert (Vd1 : valid a b) by (split; lia). assert (Vd2 : valid (S a) b) by (split; lia).
  assert (Iv : in_grid g (y0, v) = true).
  { apply (winv_in_grid g (y0, v) C). cbn [fst snd]. destruct (rcell_inner a b _ Vd1 Hup) as [A1 A2]. destruct (rcell_inner (S a) b _ Vd2 Hdn) as [B1 B2]. cbn [fst snd] in *. lia. }
  apply reach_trans with (b := (y0 - 1, v)); [apply (in_room_reach a b); auto|].
  apply reach_trans with (b := (y0 + 1, v)); [|apply (in_room_reach (S a) b); auto].
  apply rwS with (c := (y0, v)); [apply rwS with (c := (y0 - 1, v)); [constructor | |] | |].
  - unfold neighbours4. cbn [fst snd In]. right; right; left. f_equal; lia.
  - apply floor_ok; auto.
  - unfold neighbours4. cbn [fst snd In]. right; right; left. reflexivity.
  - apply (rcell_ok (S a) b); auto.
Qed.
Lemma conn_right a b : (a <= length ym)%nat -> (S b <= length xm)%nat -> conn a b a (S b).
Proof.
  intros Ha Hb p q Hp Hq. destruct (Hz a b Ha Hb) as (v & Hv & Fv). set (x0 := nth (S b) xsp 0) in *.
  pose proof (gap2_nth xsp Gx b ltac:(rewrite lenX; lia)) as G1. pose proof (gap2_nth xsp Gx (S b) ltac:(rewrite lenX; lia)) as G2. fold x0 in G1, G2.
  assert (Hl : rcell a b (v, x0 - 1)) by (unfold rcell; cbn [fst snd]; fold x0; lia).
  assert (Hr : rcell a (S b) (v, x0 + 1)) by (unfold rcell; cbn [fst snd]; fold x0; lia).
  assert (Vd1 : valid a b) by (split; lia). assert (Vd2 : valid a (S b)) by (split; lia).
  assert (Iv : in_grid g (v, x0) = true).
  { apply (winv_in_grid g (v, x0) C). cbn [fst snd]. destruct (rcell_inner a b _ Vd1 Hl) as [A1 A2]. destruct (rcell_inner a (S b) _ Vd2 Hr) as [B1 B2]. cbn [fst snd] in *. lia. }
  apply reach_trans with (b := (v, x0 - 1)); [apply (in_room_reach a b); auto|].
  apply reach_trans with (b := (v, x0 + 1)); [|apply (in_room_reach a (S b)); auto].
  apply rwS with (c := (v, x0)); [apply rwS with (c := (v, x0 - 1)); [constructor | |] | |].
  - unfold neighbours4. cbn [fst snd In]. right; left. f_equal; lia.
  - apply floor_ok; auto.
  - unfold neighbours4. cbn [fst snd In]. right; left. reflexivity.
  - apply (rcell_ok a (S b)); auto.
Qed.
(* every room is linked to the top-left room *)
Lemma conn_origin : forall a b, valid a b -> conn a b 0 0.
Proof.
  assert (Row0 : forall b, (b <= length xm)%nat -> conn 0 b 0 0).
  { induction b as [|b IH]; intros Hb.
    - intros p q Hp Hq. apply (in_room_reach 0 0); auto. split; lia.
    - apply (conn_trans 0 (S b) 0 b 0 0); [split; lia | apply conn_sym; [split; lia | apply conn_right; lia] | apply IH; lia]. }
  induction a as [|a IH]; intros b [Ha Hb]; [apply Row0; exact Hb|].
  apply (conn_trans (S a) b a b 0 0); [split; lia | apply conn_sym; [split; lia | apply conn_down; lia] | apply IH; split; lia].
Qed.
(* every floor cell touches a room *)
Lemma floor_to_room q : in_grid g q = true -> lookupH g q = Floor ->
  exists a b c, valid a b /\ rcell a b c /\ reachable_w ok q c /\ reachable_w ok c q.
Proof.
  intros Iq Fq. pose proof (floor_ok q Iq Fq) as Oq. destruct (wi_cls _ C q Iq Fq) as [(a & b & Vd & R)|[(a & b & (Ha & Hb & Ey & Hx))|(a & b & (Ha & Hb & Ex & Hy))]].
  - exists a, b, q. split; [exact Vd|]. split; [exact R|]. split; constructor.
  - destruct q as [y x]. cbn [fst snd] in *. pose proof (gap2_nth ysp Gy a ltac:(rewrite lenY; lia)) as G1.
    assert (Vd : valid a b) by (split; lia). assert (R : rcell a b (y - 1, x)) by (unfold rcell; cbn [fst snd]; lia).
    exists a, b, (y - 1, x). split; [exact Vd|]. split; [exact R|]. split.
    + eapply rwS; [constructor | unfold neighbours4; cbn [fst snd In]; left; reflexivity | apply (rcell_ok a b); auto].
    + eapply rwS; [constructor | unfold neighbours4; cbn [fst snd In]; right; right; left; f_equal; lia | exact Oq].
  - destruct q as [y x]. cbn [fst snd] in *. pose proof (gap2_nth xsp Gx b ltac:(rewrite lenX; lia)) as G1.
    assert (Vd : valid a b) by (split; lia). assert (R : rcell a b (y, x - 1)) by (unfold rcell; cbn [fst snd]; lia).
    exists a, b, (y, x - 1). split; [exact Vd|]. split; [exact R|]. split.
    + eapply rwS; [constructor | unfold neighbours4; cbn [fst snd In]; right; right; right; left; reflexivity | apply (rcell_ok a b); auto].
    + eapply rwS; [constructor | unfold neighbours4; cbn [fst snd In]; right; left; f_equal; lia | exact Oq].
Qed.
Theorem floor_connected pa : in_grid g pa = true -> lookupH g pa = Floor -> lookupH g pe = Floor -> reachable_w ok pa pe.
Proof.
  intros Ia Fa Fe. destruct (floor_to_room pa Ia Fa) as (a & b & ca & Va & Ra & R1 & _). destruct (floor_to_room pe Ipe Fe) as (a' & b' & ce & Ve & Re & _ & R2).
  pose proof (room_nonempty 0 0 ltac:(split; lia)) as H0.
  eapply reach_trans; [exact R1|]. eapply reach_trans; [apply (conn_origin a b Va ca _ Ra H0)|].
  eapply reach_trans; [|exact R2]. apply (conn_sym a' b' 0 0 Ve (conn_origin a' b' Ve)); auto.
Qed.
End Conn.

Theorem rooms_winnable own own' r : Leaf (reset_rooms h w ysp xsp own) r ->
  r = Err ValueError \/
  exists s pe acts path, r = Ok s /\ (forall q, In q (cells_at (sgrid s) (is_ty ty_Exit)) <-> q = pe) /\
    walk (walkable (sgrid s) (is_ty ty_Exit) pe) (spos s) path /\ last path (spos s) = pe /\ ~ In pe (removelast path) /\
    length acts = length path /\ Forall (fun a => is_move a = true) acts /\
    trace [TMoveAgent; TTurnAgent] own' s acts = Ret (map (set_pos s) path).
Proof.
  unfold reset_rooms. intros HL.
  apply Leaf_bind in HL. destruct HL as [(g & Hg & HL)|(e & He & ->)].
  2:{ destruct (rooms_grid_win _ _ He) as (g' & E & _). discriminate. }
  destruct (rooms_grid_win _ _ Hg) as (g' & E & C & V & Hz). injection E as <-.
  unfold floor_positions in HL. rewrite (positions_where_ok g _ (gpositions g) (wi_wf _ C)) in HL by (intros q Hq; now apply gpositions_In). cbn [lift bind] in HL.
  set (fl := filter (fun p => is_ty ty_Floor (lookupH g p)) (gpositions g)) in *.
  assert (Nfl : NoDup fl) by (apply NoDup_filter, gpositions_NoDup).
  apply Leaf_bind in HL. destruct HL as [(two & Htwo & HL)|(e & He & ->)].
  2:{ apply rchoices_leaf in He. destruct He as [E|(idx & E & _)]; [injection E as ->; auto | discriminate]. }
  apply rchoices_leaf in Htwo. destruct Htwo as [E|(idx & E & Hlen & Hr & Nd)]; [discriminate|]. injection E as ->.
  destruct (sampled_spec fl (0, 0) idx Nfl Hr Nd) as (Hin & Nps & _).
  destruct idx as [|i [|j [|? ?]]]; cbn [length] in Hlen; try lia. cbn [map] in *.
  set (pa := nthZ fl i (0, 0)) in *. set (pe := nthZ fl j (0, 0)) in *.
  assert (Hpa : In pa fl) by (apply Hin; left; auto). assert (Hpe : In pe fl) by (apply Hin; right; left; auto).
  assert (Hne : pa <> pe) by (inversion Nps as [|? ? Hn _]; subst; intros E; apply Hn; left; auto).
  apply filter_In in Hpa, Hpe. destruct Hpa as [Ia Fa], Hpe as [Ie Fe]. apply gpositions_In in Ia, Ie.
  assert (FloorEq : forall q, in_grid g q = true -> is_ty ty_Floor (lookupH g q) = true -> lookupH g q = Floor).
  { intros q Iq Fq. destruct (wi_cells _ C q Iq) as [E|E]; [rewrite E in Fq; vm_compute in Fq; discriminate | exact E]. }
  apply Leaf_bind in HL. destruct HL as [(oa & _ & HL)|(e & He & ->)].
  2:{ destruct (rchoice_of_leaf _ all_oris FORWARD _ ltac:(vm_compute; discriminate) He) as (a & E & _). discriminate. }
  rewrite (grid_set_in g pe _ (wi_wf _ C) Ie) in HL. cbn [lift bind] in HL. apply Leaf_Ret in HL. subst r. right.
  pose proof (floor_connected g pe C V Hz Ie pa Ia (FloorEq pa Ia Fa) (FloorEq pe Ie Fe)) as R.
  destruct (reachable_walk _ _ _ R) as (path0 & W0 & L0).
  destruct (walk_cut _ pe path0 pa W0 L0 Hne) as (path & Wp & Lp & Ncut).
  set (s := mkS (gset g pe (Exit 0)) pa oa NoneObj).
  destruct (walk_plan (walkable (gset g pe (Exit 0)) (is_ty ty_Exit) pe) own' path s (wf_gset g pe (Exit 0) (wi_wf _ C))) as (acts & La & Fac & Ta).
  - intros q Hq. unfold walkable in Hq. unfold can_enter. apply andb_true_iff in Hq. destruct Hq as [Hq _]. exact Hq.
  - exact Wp.
  - exists s, pe, acts, path. cbn [sgrid spos]. split; [reflexivity|]. split; [|auto 10].
    intros q. unfold s. cbn [sgrid]. rewrite cells_at_In, in_grid_gset. split.
    + intros [Iq Hq]. rewrite (lookupH_gset g pe q _ (wi_wf _ C) Ie) in Hq. destruct (pos_eqb pe q) eqn:E; [apply pos_eqb_iff in E; auto|].
      destruct (wi_cells _ C q Iq) as [E'|E']; rewrite E' in Hq; vm_compute in Hq; discriminate.
    + intros ->. split; [exact Ie|]. rewrite (lookupH_gset_same g pe _ (wi_wf _ C) Ie). vm_compute. reflexivity.
Qed.
End RoomsWin.

(* without any hypothesis on the distance between the splits: layouts whose rooms would have no cells are rejected with ValueError *)
Theorem rooms_winnable_all h w ym xm own own' r : 2 <= h -> 2 <= w -> (forall y, In y ym -> 1 <= y <= h - 2) -> (forall x, In x xm -> 1 <= x <= w - 2) ->
  Leaf (reset_rooms h w (0 :: ym ++ [h - 1]) (0 :: xm ++ [w - 1]) own) r ->
  r = Err ValueError \/
  exists s pe acts path, r = Ok s /\ (forall q, In q (cells_at (sgrid s) (is_ty ty_Exit)) <-> q = pe) /\
    walk (walkable (sgrid s) (is_ty ty_Exit) pe) (spos s) path /\ last path (spos s) = pe /\ ~ In pe (removelast path) /\
    length acts = length path /\ Forall (fun a => is_move a = true) acts /\
    trace [TMoveAgent; TTurnAgent] own' s acts = Ret (map (set_pos s) path).
Proof.
  intros Hh Hw Hym Hxm HL.
  destruct (gapsb (0 :: ym ++ [h - 1])) eqn:Ey; [|rewrite (rooms_rejects h w _ _ own (or_introl Ey)) in HL; apply Leaf_Raise in HL; auto].
  destruct (gapsb (0 :: xm ++ [w - 1])) eqn:Ex; [|rewrite (rooms_rejects h w _ _ own (or_intror Ex)) in HL; apply Leaf_Raise in HL; auto].
  exact (rooms_winnable h w ym xm Hh Hw Hym Hxm (gapsb_gap2 _ Ey) (gapsb_gap2 _ Ex) own own' r HL).
Qed.
