(* C14, general part (continued): EVERY initial state of `teleport` (every shape >= 4x4, every random outcome) is winnable under the shipped
   dynamics [move_agent; turn_agent; teleport].  Two L-shaped routes lead from the agent's corner to the exit's corner (along the top row then
   down the right column; down the left column then along the bottom row); they share only the exit.  If one of them is free of telepods, walk
   it.  Otherwise each carries exactly one of the two telepods: walk the first route up to its telepod, step on it, arrive on the other
   telepod -- which lies on the second route -- and walk the rest of the second route. *)
From Coq Require Import ZArith List Bool Lia ZifyBool.
From GV.Model Require Import Check.
From GV.Lemmas Require Import GridL RotL RandL GeomL TransL BfsL C05L C08L C13W C13M C13R C13T C14L C14W C14M C14K.
Import ListNotations.
Open Scope Z_scope.

Definition chainT : list tname := [TMoveAgent; TTurnAgent; TTeleport].

(* explicit straight paths *)
Fixpoint rowpath (y x0 : Z) (n : nat) : list pos := match n with O => [] | S k => (y, x0 + 1) :: rowpath y (x0 + 1) k end.
Fixpoint colpath (x y0 : Z) (n : nat) : list pos := match n with O => [] | S k => (y0 + 1, x) :: colpath x (y0 + 1) k end.
Lemma rowpath_In y q : forall n x0, In q (rowpath y x0 n) <-> fst q = y /\ x0 < snd q <= x0 + Z.of_nat n.
Proof.
  induction n as [|n IH]; intros x0; cbn [rowpath In]; [lia|]. rewrite IH. destruct q as [a b]. cbn [fst snd]. split.
  - intros [E|H]; [injection E as <- <-; lia | lia].
  - intros [-> H]. destruct (Z.eq_dec b (x0 + 1)) as [->|N]; [left; reflexivity | right; lia].
Qed.
Lemma colpath_In x q : forall n y0, In q (colpath x y0 n) <-> snd q = x /\ y0 < fst q <= y0 + Z.of_nat n.
Proof.
  induction n as [|n IH]; intros y0; cbn [colpath In]; [lia|]. rewrite IH. destruct q as [a b]. cbn [fst snd]. split.
  - intros [E|H]; [injection E as <- <-; lia | lia].
  - intros [-> H]. destruct (Z.eq_dec a (y0 + 1)) as [->|N]; [left; reflexivity | right; lia].
Qed.
Lemma rowpath_walk ok y : forall n x0, (forall q, In q (rowpath y x0 n) -> ok q = true) -> walk ok (y, x0) (rowpath y x0 n).
Proof.
  induction n as [|n IH]; intros x0 H; cbn [rowpath]; [constructor|]. constructor.
  - unfold neighbours4. cbn [fst snd In]. right; left; reflexivity.
  - apply H. left; reflexivity.
  - apply IH. intros q Hq. apply H. right; exact Hq.
Qed.
Lemma colpath_walk ok x : forall n y0, (forall q, In q (colpath x y0 n) -> ok q = true) -> walk ok (y0, x) (colpath x y0 n).
Proof.
  induction n as [|n IH]; intros y0 H; cbn [colpath]; [constructor|]. constructor.
  - unfold neighbours4. cbn [fst snd In]. right; right; left; reflexivity.
  - apply H. left; reflexivity.
  - apply IH. intros q Hq. apply H. right; exact Hq.
Qed.
Lemma rowpath_last y : forall n x0 d, last (rowpath y x0 n) d = match n with O => d | _ => (y, x0 + Z.of_nat n) end.
Proof.
  induction n as [|n IH]; intros x0 d; [reflexivity|]. cbn [rowpath]. rewrite last_cons, IH. destruct n; [f_equal; lia | f_equal; lia].
Qed.
Lemma colpath_last x : forall n y0 d, last (colpath x y0 n) d = match n with O => d | _ => (y0 + Z.of_nat n, x) end.
Proof.
  induction n as [|n IH]; intros y0 d; [reflexivity|]. cbn [colpath]. rewrite last_cons, IH. destruct n; [f_equal; lia | f_equal; lia].
Qed.
(* cutting walks *)
Lemma walk_suffix ok x : forall l1 a l2, walk ok a (l1 ++ x :: l2) -> walk ok x l2.
Proof. induction l1 as [|b t IH]; intros a l2 W; cbn [app] in W; inversion W; subst; eauto. Qed.
Lemma walk_prefix ok x : forall l1 a l2, walk ok a (l1 ++ x :: l2) -> walk ok a l1 /\ In x (neighbours4 (last l1 a)) /\ ok x = true.
Proof.
  induction l1 as [|b t IH]; intros a l2 W; cbn [app] in W; inversion W as [|? ? ? Hq Hoq Wt]; subst.
  - split; [constructor|]. cbn. auto.
  - destruct (IH b l2 Wt) as (W1 & N1 & O1). split; [constructor; auto|]. rewrite last_cons. auto.
Qed.
Lemma split_first (x : pos) : forall l, In x l -> exists l1 l2, l = l1 ++ x :: l2 /\ ~ In x l1.
Proof.
  induction l as [|a t IH]; intros H; [destruct H|]. destruct (pos_eq_dec a x) as [->|N].
  - exists [], t. split; [reflexivity | intros []].
  - destruct H as [E|H]; [contradiction|]. destruct (IH H) as (l1 & l2 & -> & Hn). exists (a :: l1), l2. split; [reflexivity|]. intros [E|H']; [contradiction | exact (Hn H')].
Qed.
Lemma split_last (x : pos) : forall l, In x l -> exists l1 l2, l = l1 ++ x :: l2 /\ ~ In x l2.
Proof.
  induction l as [|a t IH]; intros H; [destruct H|]. destruct (in_dec pos_eq_dec x t) as [Ht|Ht].
  - destruct (IH Ht) as (l1 & l2 & -> & Hn). exists (a :: l1), l2. split; [reflexivity | exact Hn].
  - destruct H as [->|H]; [|contradiction]. exists [], t. split; [reflexivity | exact Ht].
Qed.

Section Teleport.
Variables (h w : Z) (g g0 : grid) (t1 t2 : pos).
Hypotheses (Hh : 4 <= h) (Hw : 4 <= w) (R : room h w g0 (h - 2, w - 2)) (W : wf_grid g) (Eh : gheight g = h) (Ew : gwidth g = w)
  (I1 : inner h w t1) (I2 : inner h w t2) (N12 : t1 <> t2) (A1 : t1 <> (1, 1)) (A2 : t2 <> (1, 1)) (E1 : t1 <> (h - 2, w - 2)) (E2 : t2 <> (h - 2, w - 2))
  (L : forall q, lookupH g q = if pos_eqb t1 q || pos_eqb t2 q then Telepod COL_RED else lookupH g0 q).
Let pe : pos := (h - 2, w - 2).
Lemma IGt q : in_grid g q = true <-> 0 <= fst q < h /\ 0 <= snd q < w.
Proof. rewrite in_grid_spec, Eh, Ew. tauto. Qed.
Lemma inner_cell q : inner h w q -> (q = t1 \/ q = t2) /\ lookupH g q = Telepod COL_RED \/ q <> t1 /\ q <> t2 /\ (lookupH g q = Floor \/ q = pe /\ lookupH g q = Exit 0).
Proof.
  intros Hq. rewrite L. destruct (pos_eqb t1 q) eqn:X1; [apply pos_eqb_iff in X1; left; auto|]. destruct (pos_eqb t2 q) eqn:X2; [apply pos_eqb_iff in X2; left; auto|].
  right. assert (q <> t1) by (intros ->; rewrite (proj2 (pos_eqb_iff _ _) eq_refl) in X1; discriminate).
  assert (q <> t2) by (intros ->; rewrite (proj2 (pos_eqb_iff _ _) eq_refl) in X2; discriminate). split; [auto|]. split; [auto|]. cbn [orb].
  assert (Iq : in_grid g0 q = true) by (apply (room_in_grid h w g0 _ q R); unfold inner in Hq; lia).
  rewrite (rm_cells _ _ _ _ R q Iq). destruct (pos_eqb (h - 2, w - 2) q) eqn:X3; [apply pos_eqb_iff in X3; right; split; [now symmetry | reflexivity]|].
  rewrite (is_border_false h w q Hq). left; reflexivity.
Qed.
Lemma inner_enter q : inner h w q -> can_enter g q = true.
Proof.
  intros Hq. unfold can_enter. rewrite (proj2 (IGt q)) by (unfold inner in Hq; lia).
  destruct (inner_cell q Hq) as [[_ ->]|(_ & _ & [->|[_ ->]])]; vm_compute; reflexivity.
Qed.
(* the partners of a telepod: the other one *)
Lemma partners_of s ta tb : sgrid s = g -> spos s = ta -> (ta = t1 /\ tb = t2 \/ ta = t2 /\ tb = t1) -> partners s = [tb].
Proof.
  intros Eg Ep Hab. unfold partners. rewrite Eg, Ep.
  set (l := filter _ (filter _ (gpositions g))).
  assert (Nd : NoDup l) by (unfold l; apply NoDup_filter, NoDup_filter, gpositions_NoDup).
  assert (Hl : forall q, In q l <-> q = tb).
  { intros q. unfold l. rewrite !filter_In, gpositions_In, negb_true_iff, andb_true_iff, Z.eqb_eq.
    assert (Lta : lookupH g ta = Telepod COL_RED) by (rewrite L; destruct Hab as [[-> _]|[-> _]]; rewrite (proj2 (pos_eqb_iff _ _) eq_refl), ?orb_true_r; reflexivity).
    rewrite Lta. split.
    - intros [[Iq Nq] [Tq _]]. rewrite L in Tq. destruct (pos_eqb t1 q) eqn:X1; [apply pos_eqb_iff in X1|]; [|destruct (pos_eqb t2 q) eqn:X2; [apply pos_eqb_iff in X2|]].
      + subst q. destruct Hab as [[-> ->]|[-> ->]]; [rewrite (proj2 (pos_eqb_iff _ _) eq_refl) in Nq; discriminate | reflexivity].
      + subst q. destruct Hab as [[-> ->]|[-> ->]]; [reflexivity | rewrite (proj2 (pos_eqb_iff _ _) eq_refl) in Nq; discriminate].
      + cbn [orb] in Tq. apply IGt in Iq. assert (Iq0 : in_grid g0 q = true) by (apply (room_in_grid h w g0 _ q R); lia).
        rewrite (rm_cells _ _ _ _ R q Iq0) in Tq. destruct (pos_eqb (h - 2, w - 2) q); [vm_compute in Tq; discriminate|]. destruct (is_border h w q); vm_compute in Tq; discriminate.
    - intros ->. assert (Itb : inner h w tb) by (destruct Hab as [[_ ->]|[_ ->]]; auto).
      assert (Ltb : lookupH g tb = Telepod COL_RED) by (rewrite L; destruct Hab as [[_ ->]|[_ ->]]; rewrite (proj2 (pos_eqb_iff _ _) eq_refl), ?orb_true_r; reflexivity).
      rewrite Ltb. split; [split; [apply IGt; unfold inner in Itb; lia|] | split; reflexivity].
      destruct (pos_eqb tb ta) eqn:X; [|reflexivity]. apply pos_eqb_iff in X. destruct Hab as [[-> ->]|[-> ->]]; congruence. }
  destruct l as [|a [|b t]].
  - exfalso. apply (proj2 (Hl tb) eq_refl).
  - f_equal. apply Hl. left; reflexivity.
  - exfalso. assert (a = tb) by (apply Hl; left; auto). assert (b = tb) by (apply Hl; right; left; auto). subst. inversion Nd as [|? ? Hn _]; subst. apply Hn. left; reflexivity.
Qed.

(* one move under the three-function chain *)
Lemma stepT_plain s q own : sgrid s = g -> In q (neighbours4 (spos s)) -> inner h w q -> q <> t1 -> q <> t2 ->
  exists a, is_move a = true /\ chain (map tfun_of chainT) s a own = Ret (set_pos s q).
Proof.
  intros Eg Hq Iq N1 N2. assert (W' : wf_grid (sgrid s)) by (rewrite Eg; exact W).
  assert (Hc : can_enter (sgrid s) q = true) by (rewrite Eg; now apply inner_enter).
  destruct (move_to_neighbour s q own W' Hq Hc) as (a & Hm & Ea). exists a. split; [exact Hm|].
  unfold chainT. cbn [map chain tfun_of] in *. rewrite move_agent_eq in * by exact W'. cbn [bind] in *. rewrite turn_agent_eq in *. cbn [bind] in *.
  injection Ea as Ea. rewrite Ea. rewrite teleport_eq; cbn [set_pos sgrid spos]; [|exact W' | rewrite Eg; apply IGt; unfold inner in Iq; lia].
  rewrite Eg. destruct (inner_cell q Iq) as [[[->| ->] _]|(_ & _ & [->|[_ ->]])]; try contradiction; reflexivity.
Qed.
Lemma stepT_telepod s ta tb own : sgrid s = g -> In ta (neighbours4 (spos s)) -> (ta = t1 /\ tb = t2 \/ ta = t2 /\ tb = t1) ->
  exists a, is_move a = true /\ forall x, Leaf (chain (map tfun_of chainT) s a own) x -> x = Ok (set_pos s tb).
Proof.
  intros Eg Hq Hab. assert (W' : wf_grid (sgrid s)) by (rewrite Eg; exact W).
  assert (Ita : inner h w ta) by (destruct Hab as [[-> _]|[-> _]]; auto).
  assert (Hc : can_enter (sgrid s) ta = true) by (rewrite Eg; now apply inner_enter).
  destruct (move_to_neighbour s ta own W' Hq Hc) as (a & Hm & Ea). exists a. split; [exact Hm|]. intros x HL.
  unfold chainT in HL. cbn [map chain tfun_of] in *. rewrite move_agent_eq in * by exact W'. cbn [bind] in *. rewrite turn_agent_eq in *. cbn [bind] in *.
  injection Ea as Ea. rewrite Ea in HL.
  assert (Es1 : sgrid (set_pos s ta) = g) by exact Eg.
  rewrite (teleport_eq (set_pos s ta)) in HL; [|exact W' | rewrite Es1; apply IGt; cbn [set_pos spos]; unfold inner in Ita; lia].
  assert (Lta : is_ty ty_Telepod (lookupH (sgrid (set_pos s ta)) (spos (set_pos s ta))) = true).
  { rewrite Es1. cbn [set_pos spos]. destruct (inner_cell ta Ita) as [[_ ->]|(X1 & X2 & _)]; [vm_compute; reflexivity | destruct Hab as [[-> _]|[-> _]]; contradiction]. }
  rewrite Lta in HL. cbv zeta in HL. rewrite (partners_of (set_pos s ta) ta tb Es1 eq_refl Hab) in HL. cbv beta iota in HL. cbn [length] in HL.
  assert (Inner : forall y, Leaf (bind (rchoice (negb own) (Z.of_nat 1)) (fun i : Z => Ret (set_pos (set_pos s ta) (nthZ [tb] i (spos (set_pos s ta)))))) y -> y = Ok (set_pos s tb)).
  { intros y Hy. apply Leaf_bind in Hy. destruct Hy as [(i & Hi & Hy)|(e & He & ->)].
    - apply Leaf_rchoice in Hi. destruct Hi as [[Hn _]|(j & Hj & E)]; [cbn in Hn; lia|]. injection E as <-. apply Leaf_Ret in Hy. subst y.
      assert (i = 0) by (cbn in Hj; lia). subst i. reflexivity.
    - apply Leaf_rchoice in He. destruct He as [[Hn _]|(j & _ & E)]; [cbn in Hn; lia | discriminate]. }
  apply Leaf_bind in HL. destruct HL as [(s1 & Hs1 & HL)|(e & He & ->)].
  - apply Inner in Hs1. injection Hs1 as <-. apply Leaf_Ret in HL. exact HL.
  - apply Inner in He. discriminate.
Qed.
(* a walk over inner cells none of which is a telepod *)
Lemma walkT own : forall path s, sgrid s = g -> walk (fun q => innerb h w q && negb (pos_eqb q t1) && negb (pos_eqb q t2)) (spos s) path ->
  exists acts, Forall (fun a => is_move a = true) acts /\ run_actions chainT own acts s = Ret (set_pos s (last path (spos s))).
Proof.
  induction path as [|q t IH]; intros s Eg Wk.
  - exists []. split; [constructor|]. cbn. destruct s; reflexivity.
  - inversion_clear Wk as [|? ? ? Hq Hoq Wt]. rewrite !andb_true_iff, !negb_true_iff in Hoq. destruct Hoq as [[Hi H1] H2]. apply innerb_spec in Hi.
    assert (q <> t1) by (intros ->; rewrite (proj2 (pos_eqb_iff _ _) eq_refl) in H1; discriminate).
    assert (q <> t2) by (intros ->; rewrite (proj2 (pos_eqb_iff _ _) eq_refl) in H2; discriminate).
    destruct (stepT_plain s q own Eg Hq Hi) as (a & Ha & Ea); auto.
    destruct (IH (set_pos s q) Eg Wt) as (acts & Fa & Ra). exists (a :: acts). split; [constructor; auto|].
    cbn [run_actions]. rewrite Ea. cbn [bind]. rewrite Ra. rewrite last_cons. cbn [set_pos sgrid spos sori sheld]. reflexivity.
Qed.

(* ---------- the two routes ---------- *)
Definition P1 : list pos := rowpath 1 1 (Z.to_nat (w - 3)) ++ colpath (w - 2) 1 (Z.to_nat (h - 3)).
Definition P2 : list pos := colpath 1 1 (Z.to_nat (h - 3)) ++ rowpath (h - 2) 1 (Z.to_nat (w - 3)).
Lemma P1_In q : In q P1 <-> (fst q = 1 /\ 2 <= snd q <= w - 2) \/ (snd q = w - 2 /\ 2 <= fst q <= h - 2).
Proof. unfold P1. rewrite in_app_iff, rowpath_In, colpath_In. lia. Qed.
Lemma P2_In q : In q P2 <-> (snd q = 1 /\ 2 <= fst q <= h - 2) \/ (fst q = h - 2 /\ 2 <= snd q <= w - 2).
Proof. unfold P2. rewrite in_app_iff, rowpath_In, colpath_In. lia. Qed.
Lemma P12_meet q : In q P1 -> In q P2 -> q = pe.
Proof. rewrite P1_In, P2_In. unfold pe. destruct q as [y x]. cbn [fst snd]. intros H1 H2. f_equal; lia. Qed.
Lemma P_inner q : In q P1 \/ In q P2 -> inner h w q.
Proof. rewrite P1_In, P2_In. unfold inner. lia. Qed.
Definition okI (q : pos) : bool := innerb h w q.
Definition okT (q : pos) : bool := innerb h w q && negb (pos_eqb q t1) && negb (pos_eqb q t2).
Lemma P1_walk : walk okI (1, 1) P1 /\ last P1 (1, 1) = pe.
Proof.
  destruct (walk_app okI (1, 1) (rowpath 1 1 (Z.to_nat (w - 3))) (1, w - 2) (colpath (w - 2) 1 (Z.to_nat (h - 3)))) as [Wk Lk].
  - apply rowpath_walk. intros q Hq. apply innerb_spec, P_inner. left. unfold P1. apply in_or_app. left; exact Hq.
  - rewrite rowpath_last. destruct (Z.to_nat (w - 3)) eqn:E; [lia|]. f_equal. lia.
  - apply colpath_walk. intros q Hq. apply innerb_spec, P_inner. left. unfold P1. apply in_or_app. right; exact Hq.
  - split; [exact Wk|]. unfold P1. rewrite Lk, colpath_last. destruct (Z.to_nat (h - 3)) eqn:E; [lia|]. unfold pe. f_equal. lia.
Qed.
Lemma P2_walk : walk okI (1, 1) P2 /\ last P2 (1, 1) = pe.
Proof.
  destruct (walk_app okI (1, 1) (colpath 1 1 (Z.to_nat (h - 3))) (h - 2, 1) (rowpath (h - 2) 1 (Z.to_nat (w - 3)))) as [Wk Lk].
  - apply colpath_walk. intros q Hq. apply innerb_spec, P_inner. right. unfold P2. apply in_or_app. left; exact Hq.
  - rewrite colpath_last. destruct (Z.to_nat (h - 3)) eqn:E; [lia|]. f_equal. lia.
  - apply rowpath_walk. intros q Hq. apply innerb_spec, P_inner. right. unfold P2. apply in_or_app. right; exact Hq.
  - split; [exact Wk|]. unfold P2. rewrite Lk, rowpath_last. destruct (Z.to_nat (w - 3)) eqn:E; [lia|]. unfold pe. f_equal. lia.
Qed.
Lemma walk_restrict : forall l a, walk okI a l -> (forall q, In q l -> q <> t1 /\ q <> t2) -> walk okT a l.
Proof.
  induction l as [|q t IH]; intros a Wk Hn; [constructor|]. inversion_clear Wk as [|? ? ? Hq Hoq Wt]. constructor; [exact Hq | | apply IH; [exact Wt | intros x Hx; apply Hn; right; exact Hx]].
  destruct (Hn q (or_introl eq_refl)) as [N1 N2]. unfold okT, okI in *. rewrite Hoq. cbn [andb].
  apply pos_eqb_neq in N1, N2. now rewrite N1, N2.
Qed.
Lemma last_split {A} (l1 : list A) x l2 : forall d, last (l1 ++ x :: l2) d = last l2 x.
Proof. induction l1 as [|a t IH]; intros d; cbn [app]; [apply last_cons | rewrite last_cons; apply IH]. Qed.
Lemma bind_Ret_inv {A B} (m : Rand A) (f : A -> Rand B) b : bind m f = Ret b -> exists a, m = Ret a /\ f a = Ret b.
Proof. destruct m; cbn [bind]; intros H; try discriminate. eauto. Qed.
Lemma run_prefix ns own a2 : forall a1 s s1, run_actions ns own a1 s = Ret s1 -> run_actions ns own (a1 ++ a2) s = run_actions ns own a2 s1.
Proof.
  induction a1 as [|a t IH]; intros s s1 H; cbn [app run_actions] in *; [injection H as <-; reflexivity|].
  apply bind_Ret_inv in H. destruct H as (s' & E & H). rewrite E. cbn [bind]. now apply IH.
Qed.

(* a route free of telepods is simply walked *)
Lemma route_free own oa P : walk okI (1, 1) P -> last P (1, 1) = pe -> ~ In t1 P -> ~ In t2 P ->
  exists acts, Forall (fun a => is_move a = true) acts /\ run_actions chainT own acts (mkS g (1, 1) oa NoneObj) = Ret (mkS g pe oa NoneObj).
Proof.
  intros Wk Lk N1 N2. destruct (walkT own P (mkS g (1, 1) oa NoneObj) eq_refl) as (acts & Fa & Ra).
  - apply walk_restrict; [exact Wk|]. intros q Hq. split; intros ->; contradiction.
  - exists acts. split; [exact Fa|]. rewrite Ra. cbn [spos]. rewrite Lk. reflexivity.
Qed.
(* one telepod on each route: walk the first up to its telepod, step on it, walk the rest of the second *)
Lemma route_jump own oa ta tb : (ta = t1 /\ tb = t2 \/ ta = t2 /\ tb = t1) -> In ta P1 -> In tb P2 ->
  exists acts, Forall (fun a => is_move a = true) acts /\
    forall x, Leaf (run_actions chainT own acts (mkS g (1, 1) oa NoneObj)) x -> x = Ok (mkS g pe oa NoneObj).
Proof.
  intros Hab Ha Hb.
  assert (Hne : ta <> tb) by (destruct Hab as [[-> ->]|[-> ->]]; auto).
  assert (Hpe : ta <> pe /\ tb <> pe) by (destruct Hab as [[-> ->]|[-> ->]]; auto).
  assert (Na2 : ~ In ta P2) by (intros H; apply (proj1 Hpe); now apply P12_meet).
  assert (Nb1 : ~ In tb P1) by (intros H; apply (proj2 Hpe); now apply P12_meet).
  destruct P1_walk as [W1 L1]. destruct P2_walk as [W2 L2].
  destruct (split_first ta P1 Ha) as (l1 & l2 & E1' & Nl1). destruct (split_last tb P2 Hb) as (m1 & m2 & E2' & Nm2).
  rewrite E1' in W1. rewrite E2' in W2, L2. rewrite last_split in L2.
  destruct (walk_prefix okI ta l1 (1, 1) l2 W1) as (Wl1 & Nta & _). pose proof (walk_suffix okI tb m1 (1, 1) m2 W2) as Wm2.
  assert (Tel : forall q, q = t1 \/ q = t2 <-> q = ta \/ q = tb) by (intros q; destruct Hab as [[-> ->]|[-> ->]]; tauto).
  set (s0 := mkS g (1, 1) oa NoneObj).
  destruct (walkT own l1 s0 eq_refl) as (a1 & F1 & R1).
  { apply walk_restrict; [exact Wl1|]. intros q Hq. assert (Hq1 : In q P1) by (rewrite E1'; apply in_or_app; left; exact Hq).
    assert (q <> ta) by (intros ->; contradiction). assert (q <> tb) by (intros ->; contradiction).
    split; intros ->; [assert (X : t1 = ta \/ t1 = tb) by (apply Tel; auto) | assert (X : t2 = ta \/ t2 = tb) by (apply Tel; auto)]; destruct X; congruence. }
  change (spos s0) with (1, 1) in R1. set (s1 := set_pos s0 (last l1 (1, 1))) in *.
  destruct (stepT_telepod s1 ta tb own eq_refl Nta Hab) as (at_ & Hat & Jump).
  set (s2 := set_pos s1 tb) in *.
  destruct (walkT own m2 s2 eq_refl) as (a3 & F3 & R3).
  { apply walk_restrict; [exact Wm2|]. intros q Hq. assert (Hq2 : In q P2) by (rewrite E2'; apply in_or_app; right; right; exact Hq).
    assert (q <> ta) by (intros ->; contradiction). assert (q <> tb) by (intros ->; contradiction).
    split; intros ->; [assert (X : t1 = ta \/ t1 = tb) by (apply Tel; auto) | assert (X : t2 = ta \/ t2 = tb) by (apply Tel; auto)]; destruct X; congruence. }
  change (spos s2) with tb in R3. rewrite L2 in R3.
  exists (a1 ++ at_ :: a3). split; [apply Forall_app; split; [exact F1 | constructor; [exact Hat | exact F3]]|].
  intros x HL. rewrite (run_prefix chainT own (at_ :: a3) a1 s0 s1 R1) in HL. cbn [run_actions] in HL.
  apply Leaf_bind in HL. destruct HL as [(s' & Hs' & HL)|(e & He & ->)].
  - apply Jump in Hs'. injection Hs' as ->. rewrite R3 in HL. apply Leaf_Ret in HL. exact HL.
  - apply Jump in He. discriminate.
Qed.

Theorem teleport_plan own oa : exists acts, Forall (fun a => is_move a = true) acts /\
  forall x, Leaf (run_actions chainT own acts (mkS g (1, 1) oa NoneObj)) x -> x = Ok (mkS g pe oa NoneObj).
Proof.
  destruct P1_walk as [W1 L1]. destruct P2_walk as [W2 L2].
  destruct (in_dec pos_eq_dec t1 P1) as [H11|H11]; destruct (in_dec pos_eq_dec t2 P1) as [H21|H21];
  destruct (in_dec pos_eq_dec t1 P2) as [H12|H12]; destruct (in_dec pos_eq_dec t2 P2) as [H22|H22];
    try (exfalso; first [apply E1; now apply P12_meet | apply E2; now apply P12_meet]);
    try (destruct (route_free own oa P1 W1 L1 H11 H21) as (acts & Fa & Ra); exists acts; split; [exact Fa | intros x HL; rewrite Ra in HL; now apply Leaf_Ret in HL]);
    try (destruct (route_free own oa P2 W2 L2 H12 H22) as (acts & Fa & Ra); exists acts; split; [exact Fa | intros x HL; rewrite Ra in HL; now apply Leaf_Ret in HL]).
  - apply (route_jump own oa t1 t2); auto.
  - apply (route_jump own oa t2 t1); auto.
Qed.
End Teleport.

Theorem teleport_winnable h w own own' r : 4 <= h -> 4 <= w -> Leaf (reset_teleport h w own) r ->
  exists s acts, r = Ok s /\ Forall (fun a => is_move a = true) acts /\
    forall x, Leaf (run_actions chainT own' acts s) x -> exists s', x = Ok s' /\ spos s' = (h - 2, w - 2) /\ sgrid s' = sgrid s /\
                                                              is_ty ty_Exit (lookupH (sgrid s') (h - 2, w - 2)) = true.
Proof.
  intros Hh Hw HL.
  destruct (teleport_outcome h w own r Hh Hw HL) as (g & g0 & t1 & t2 & oa & -> & R & W & Eh & Ew & I1 & I2 & N12 & A1 & A2 & E1 & E2 & L).
  destruct (teleport_plan h w g g0 t1 t2 Hh Hw R W Eh Ew I1 I2 N12 E1 E2 L own' oa) as (acts & Fa & Hx).
  exists (mkS g (1, 1) oa NoneObj), acts. split; [reflexivity|]. split; [exact Fa|]. intros x Hl. apply Hx in Hl. subst x.
  eexists; split; [reflexivity|]. cbn [spos sgrid]. split; [reflexivity|]. split; [reflexivity|].
  rewrite L. destruct (pos_eqb t1 (h - 2, w - 2)) eqn:X1; [apply pos_eqb_iff in X1; contradiction|]. destruct (pos_eqb t2 (h - 2, w - 2)) eqn:X2; [apply pos_eqb_iff in X2; contradiction|].
  cbn [orb]. assert (Iq : in_grid g0 (h - 2, w - 2) = true) by (apply (room_in_grid h w g0 _ _ R); cbn [fst snd]; lia).
  rewrite (rm_cells _ _ _ _ R _ Iq), (proj2 (pos_eqb_iff _ _) eq_refl). vm_compute. reflexivity.
Qed.
