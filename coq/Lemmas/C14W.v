(* C14, general part: EVERY initial state of `empty` (all shapes >= 4x4, all flags, all outcomes) is winnable: there is a sequence of move
   actions of the real move/turn dynamics that walks the agent to the exit over floor cells only. *)
From Coq Require Import ZArith List Bool Lia.
From GV.Model Require Import Check.
From GV.Lemmas Require Import GridL RandL TransL BfsL C13W C14L.
Import ListNotations.
Open Scope Z_scope.

(* inside a rectangle one can always walk from any inner cell to any other, staying on inner cells: first along the rows, then along the columns *)
Definition innerb (h w : Z) (q : pos) : bool := (1 <=? fst q) && (fst q <=? h - 2) && (1 <=? snd q) && (snd q <=? w - 2).
Lemma innerb_spec h w q : innerb h w q = true <-> inner h w q.
Proof. unfold innerb, inner. rewrite !andb_true_iff, !Z.leb_le. tauto. Qed.
Lemma last_default {A} (l : list A) a b : l <> [] -> last l a = last l b.
Proof. induction l as [|x [|y t] IH]; intros H; [contradiction | reflexivity |]. cbn [last] in *. apply IH. discriminate. Qed.
Lemma rect_walk h w pe : inner h w pe -> forall n pa, inner h w pa -> Z.to_nat (manhattan pa pe) = n ->
  exists path, walk (innerb h w) pa path /\ last path pa = pe.
Proof.
  intros Hpe. induction n as [|n IH]; intros pa Hpa Hn.
  - exists []. split; [constructor|]. cbn. unfold manhattan in Hn. destruct pa, pe; cbn in *. f_equal; lia.
  - unfold inner in Hpa, Hpe. unfold manhattan in Hn.
    destruct (Z.eq_dec (fst pa) (fst pe)) as [Ey|Ny].
    + (* same row: one step along the row *)
      set (q := (fst pa, if snd pa <? snd pe then snd pa + 1 else snd pa - 1)).
      assert (Hq : inner h w q) by (unfold inner, q; cbn [fst snd]; destruct (snd pa <? snd pe) eqn:E; [apply Z.ltb_lt in E | apply Z.ltb_ge in E]; lia).
      assert (Hd : Z.to_nat (manhattan q pe) = n) by (unfold manhattan, q; cbn [fst snd]; destruct (snd pa <? snd pe) eqn:E; [apply Z.ltb_lt in E | apply Z.ltb_ge in E]; lia).
      destruct (IH q Hq Hd) as (path & Wp & Lp). exists (q :: path). split.
      * constructor; [|now apply innerb_spec | exact Wp]. unfold neighbours4, q. cbn [In]. destruct (snd pa <? snd pe); auto.
      * cbn [last]. destruct path as [|p0 t0]; [cbn in Lp |- *; exact Lp | rewrite (last_default (p0 :: t0) pa q) by discriminate; exact Lp].
    + set (q := (if fst pa <? fst pe then fst pa + 1 else fst pa - 1, snd pa)).
      assert (Hq : inner h w q) by (unfold inner, q; cbn [fst snd]; destruct (fst pa <? fst pe) eqn:E; [apply Z.ltb_lt in E | apply Z.ltb_ge in E]; lia).
      assert (Hd : Z.to_nat (manhattan q pe) = n) by (unfold manhattan, q; cbn [fst snd]; destruct (fst pa <? fst pe) eqn:E; [apply Z.ltb_lt in E | apply Z.ltb_ge in E]; lia).
      destruct (IH q Hq Hd) as (path & Wp & Lp). exists (q :: path). split.
      * constructor; [|now apply innerb_spec | exact Wp]. unfold neighbours4, q. cbn [In]. destruct (fst pa <? fst pe); auto.
      * cbn [last]. destruct path as [|p0 t0]; [cbn in Lp |- *; exact Lp | rewrite (last_default (p0 :: t0) pa q) by discriminate; exact Lp].
Qed.
Lemma walk_weaken (ok ok' : pos -> bool) : (forall q, ok q = true -> ok' q = true) -> forall p path, walk ok p path -> walk ok' p path.
Proof. intros H p path W. induction W; constructor; auto. Qed.

(* in a room every inner cell is walkable on the way to the exit: floor (not terminal), or the exit itself (the goal) *)
Lemma room_walkable h w g pe q : room h w g pe -> inner h w pe -> innerb h w q = true -> walkable g (is_ty ty_Exit) pe q = true.
Proof.
  intros R Hpe Hq. apply innerb_spec in Hq. unfold walkable.
  assert (Iq : in_grid g q = true) by (apply (room_in_grid h w g pe q R); unfold inner in Hq; lia). rewrite Iq. cbn [andb].
  destruct (pos_eqb q pe) eqn:E.
  - apply pos_eqb_iff in E. subst q. rewrite (rm_cells _ _ _ _ R pe Iq), (proj2 (pos_eqb_iff pe pe) eq_refl). rewrite orb_true_r, andb_true_r. vm_compute. reflexivity.
  - assert (Hne : q <> pe) by (intros ->; rewrite (proj2 (pos_eqb_iff pe pe) eq_refl) in E; discriminate).
    rewrite (room_floor h w g pe q R Hq Hne). vm_compute. reflexivity.
Qed.

Theorem empty_winnable h w ra re own own' r : 4 <= h -> 4 <= w -> Leaf (reset_empty h w ra re own) r ->
  exists s pe acts path, r = Ok s /\ (forall q, In q (cells_at (sgrid s) (is_ty ty_Exit)) <-> q = pe) /\
    walk (walkable (sgrid s) (is_ty ty_Exit) pe) (spos s) path /\ last path (spos s) = pe /\
    length acts = length path /\ Forall (fun a => is_move a = true) acts /\
    trace [TMoveAgent; TTurnAgent] own' s acts = Ret (map (set_pos s) path).
Proof.
  intros Hh Hw HL. destruct (empty_outcome h w ra re own r Hh Hw HL) as (g & pe & pa & oa & -> & R & Hpe & Hpa & Hne & _).
  destruct (rect_walk h w pe Hpe _ pa Hpa eq_refl) as (path & Wp & Lp).
  assert (W' : walk (walkable g (is_ty ty_Exit) pe) pa path) by (eapply walk_weaken; [|exact Wp]; intros q Hq; now apply (room_walkable h w g pe q)).
  set (s := mkS g pa oa NoneObj).
  destruct (walk_plan (walkable g (is_ty ty_Exit) pe) own' path s (rm_wf _ _ _ _ R)) as (acts & La & Fa & Ta).
  - intros q Hq. unfold walkable in Hq. unfold can_enter. apply andb_true_iff in Hq. destruct Hq as [Hq _]. exact Hq.
  - exact W'.
  - exists s, pe, acts, path. repeat split; auto; try (apply (room_exit_unique h w g pe R Hpe)).
Qed.
