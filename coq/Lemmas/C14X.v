(* C14, general part (continued): EVERY initial state of `crossing` (every odd shape >= 5x5, every number of rivers, every river object
   other than an exit, every random outcome) is winnable by walking: the staircase of openings links the agent's room to the exit's room.
   Rooms are the rectangles between consecutive rivers; inside a room every cell is floor (or the exit); each opening joins the room
   reached so far to the next one, and later openings only ever ADD floor. *)
From Coq Require Import ZArith List Bool Lia Permutation ZifyBool.
From GV.Model Require Import Check.
From GV.Lemmas Require Import GridL RotL RandL GeomL TransL BfsL C02L C13W C13M C13X C14L C14W C14M.
Import ListNotations.
Open Scope Z_scope.

Lemma gap2_mono l : gap2 l -> forall j i, (i < j)%nat -> (j < length l)%nat -> nth i l 0 < nth j l 0.
Proof.
  intros G. induction j as [|j IH]; intros i Hij Hj; [lia|].
  pose proof (gap2_nth l G j Hj) as Hs. destruct (Nat.eq_dec i j) as [->|Ne]; [lia|]. specialize (IH i ltac:(lia) ltac:(lia)). lia.
Qed.
Lemma reach_trans ok a b c : reachable_w ok a b -> reachable_w ok b c -> reachable_w ok a c.
Proof. intros Hab Hbc. induction Hbc as [|x q Hx IH Hq Hoq]; [exact Hab | eapply rwS; eauto]. Qed.
Lemma reach_weaken (ok ok' : pos -> bool) a b : (forall q, ok q = true -> ok' q = true) -> reachable_w ok a b -> reachable_w ok' a b.
Proof. intros H R. induction R as [|x q Hx IH Hq Hoq]; [constructor | eapply rwS; eauto]. Qed.
Lemma walk_reach ok src : forall path p, walk ok p path -> reachable_w ok src p -> reachable_w ok src (last path p).
Proof.
  induction path as [|q t IH]; intros p W R; [exact R|]. inversion W as [|? ? ? Hq Hoq Wt]; subst. rewrite last_cons. apply IH; [exact Wt | eapply rwS; eauto].
Qed.

Section CrossingWin.
Variables (h w : Z) (rh rv : list Z).
Hypotheses (Hh : 5 <= h) (Hw : 5 <= w) (Hrh : forall y, In y rh -> 2 <= y <= h - 3) (Hrv : forall x, In x rv -> 2 <= x <= w - 3).
Let limH := 0 :: rh ++ [h - 1].
Let limV := 0 :: rv ++ [w - 1].
Hypotheses (Gh : gap2 limH) (Gv : gap2 limV).
Let pex : pos := (h - 2, w - 2).
Definition okc (g : grid) : pos -> bool := walkable g (is_ty ty_Exit) pex.
Definition in_room (ri rj : nat) (q : pos) : Prop := nth ri limH 0 < fst q < nth (S ri) limH 0 /\ nth rj limV 0 < snd q < nth (S rj) limV 0.
Definition Wroom (g : grid) : Prop := forall ri rj q, (ri <= length rh)%nat -> (rj <= length rv)%nat -> in_room ri rj q -> okc g q = true.

Lemma lenH : length limH = S (S (length rh)). Proof. unfold limH. cbn [length]. rewrite app_length. cbn [length]. lia. Qed.
Lemma lenV : length limV = S (S (length rv)). Proof. unfold limV. cbn [length]. rewrite app_length. cbn [length]. lia. Qed.
Lemma limH_bounds k : 0 <= nth k limH 0 <= h - 1.
Proof. apply (lim_bounds h w rh rv Hrh Hrv); [lia | intros y Hy; apply Hrh in Hy; lia]. Qed.
Lemma limV_bounds k : 0 <= nth k limV 0 <= w - 1.
Proof. apply (lim_bounds h w rh rv Hrh Hrv); [lia | intros y Hy; apply Hrv in Hy; lia]. Qed.
(* a cell strictly between two consecutive limits lies on no river *)
Lemma between_not_in (rs : list Z) e k y : gap2 (0 :: rs ++ [e]) -> (k <= length rs)%nat ->
  nth k (0 :: rs ++ [e]) 0 < y < nth (S k) (0 :: rs ++ [e]) 0 -> ~ In y rs.
Proof.
  intros G Hk Hy Hin. apply (In_nth _ _ 0) in Hin. destruct Hin as (m & Hm & E).
  assert (Em : nth (S m) (0 :: rs ++ [e]) 0 = y) by (cbn [nth]; rewrite app_nth1 by exact Hm; exact E).
  assert (L : length (0 :: rs ++ [e]) = S (S (length rs))) by (cbn [length]; rewrite app_length; cbn [length]; lia).
  destruct (Nat.lt_trichotomy (S m) k) as [Hlt|[Heq|Hgt]].
  - pose proof (gap2_mono _ G k (S m) Hlt ltac:(lia)). lia.
  - subst k. lia.
  - destruct (Nat.eq_dec (S m) (S k)) as [E2|N2]; [rewrite E2 in Em; lia|].
    pose proof (gap2_mono _ G (S m) (S k) ltac:(lia) ltac:(lia)). lia.
Qed.
Lemma room_cell_safe ri rj q : (ri <= length rh)%nat -> (rj <= length rv)%nat -> in_room ri rj q ->
  1 <= fst q <= h - 2 /\ 1 <= snd q <= w - 2 /\ ~ In (fst q) rh /\ ~ In (snd q) rv.
Proof.
  intros Hi Hj [H1 H2]. pose proof (limH_bounds ri). pose proof (limH_bounds (S ri)). pose proof (limV_bounds rj). pose proof (limV_bounds (S rj)).
  split; [lia|]. split; [lia|]. split; [eapply (between_not_in rh (h - 1) ri); eauto | eapply (between_not_in rv (w - 1) rj); eauto].
Qed.

(* adding floor never removes a walkable cell *)
Lemma okc_gset g q x : wf_grid g -> in_grid g q = true -> okc g x = true -> okc (gset g q Floor) x = true.
Proof.
  intros W Iq Hx. unfold okc, walkable in *. rewrite in_grid_gset, (lookupH_gset g q x Floor W Iq). destruct (pos_eqb q x) eqn:E; [|exact Hx].
  apply andb_true_iff in Hx. destruct Hx as [Hx _]. apply andb_true_iff in Hx. destruct Hx as [Hx _]. rewrite Hx. vm_compute. reflexivity.
Qed.
Lemma okc_gset_self g q : wf_grid g -> in_grid g q = true -> okc (gset g q Floor) q = true.
Proof. intros W Iq. unfold okc, walkable. rewrite in_grid_gset, Iq, (lookupH_gset_same g q Floor W Iq). vm_compute. reflexivity. Qed.

(* inside a room one can walk anywhere *)
Lemma room_reach g ri rj a b : Wroom g -> (ri <= length rh)%nat -> (rj <= length rv)%nat -> in_room ri rj a -> in_room ri rj b -> reachable_w (okc g) a b.
Proof.
  intros Wg Hi Hj Ha Hb. destruct a as [ya xa], b as [yb xb]. unfold in_room in Ha, Hb. cbn [fst snd] in Ha, Hb.
  destruct (col_walk (okc g) xa _ ya yb eq_refl) as (p1 & W1 & L1).
  { intros y Hy _. apply (Wg ri rj); auto. unfold in_room. cbn [fst snd]. lia. }
  destruct (row_walk (okc g) yb _ xa xb eq_refl) as (p2 & W2 & L2).
  { intros x Hx _. apply (Wg ri rj); auto. unfold in_room. cbn [fst snd]. lia. }
  apply reach_trans with (b := (yb, xa)).
  - rewrite <- L1. apply walk_reach; [exact W1 | constructor].
  - rewrite <- L2. apply walk_reach; [exact W2 | constructor].
Qed.

(* the staircase: after the whole path the room reached is (ri + #"v" steps, rj + #"h" steps) *)
Lemma path_reach gl : forall path ri rj g, cinv h w g -> Wroom g ->
  (ri + count_occ bool_dec path false <= length rh)%nat -> (rj + count_occ bool_dec path true <= length rv)%nat ->
  (exists c, in_room ri rj c /\ reachable_w (okc g) (1, 1) c) ->
  forall x, Leaf (crossing_path gl path limH limV ri rj g) x ->
  exists g', x = Ok g' /\ cinv h w g' /\ Wroom g' /\
    exists c, in_room (ri + count_occ bool_dec path false) (rj + count_occ bool_dec path true) c /\ reachable_w (okc g') (1, 1) c.
Proof.
  induction path as [|b t IH]; intros ri rj g C Wg Hi Hj (c0 & Hc0 & R0) x HL.
  - cbn [crossing_path] in HL. apply Leaf_Ret in HL. exists g. cbn [count_occ]. rewrite !Nat.add_0_r. eauto 8.
  - cbn [crossing_path] in HL. destruct b; cbn [count_occ] in *.
    + destruct (bool_dec true false) as [E|_]; [discriminate|]. destruct (bool_dec true true) as [_|N]; [|contradiction].
      apply Leaf_bind in HL. destruct HL as [(i & Hi' & HL)|(e & He & E)].
      2:{ exfalso. apply Leaf_rints in He. destruct He as [[Hlt _]|(i & _ & E')]; [|discriminate].
          pose proof (gap2_nth _ Gh ri ltac:(rewrite lenH; lia)). unfold limH in *. lia. }
      apply Leaf_rints in Hi'. destruct Hi' as [[_ E]|(i' & Hr & E)]; [discriminate|]. injection E as <-.
      pose proof (limH_bounds ri) as B1. pose proof (limH_bounds (S ri)) as B2.
      assert (Hc : In (nth (S rj) limV 0) rv) by (apply lim_inner; lia). apply Hrv in Hc.
      pose proof (gap2_nth _ Gv rj ltac:(rewrite lenV; lia)) as G1. pose proof (gap2_nth _ Gv (S rj) ltac:(rewrite lenV; lia)) as G2.
      remember (nth (S rj) limV 0) as c eqn:Ec.
      assert (Iq : in_grid g (i, c) = true) by (apply (cinv_in_grid h w g (i, c) C); cbn [fst snd]; lia).
      rewrite (grid_set_in g (i, c) Floor (ci_wf _ _ _ C) Iq) in HL. cbn [lift bind] in HL.
      assert (Sq : safe h w (i, c)) by (unfold safe; cbn [fst snd]; split; [lia|]; split; [lia|]; split; intros E; injection E; lia).
      set (g' := gset g (i, c) Floor) in *.
      assert (Mono : forall q, okc g q = true -> okc g' q = true) by (intros q; apply okc_gset; [apply C | exact Iq]).
      assert (Wg' : Wroom g') by (intros a b q Ha Hb Hq; apply Mono; apply (Wg a b q); auto).
      assert (Hnext : in_room ri (S rj) (i, c + 1)) by (unfold in_room; cbn [fst snd]; rewrite <- Ec; lia).
      assert (Hprev : in_room ri rj (i, c - 1)) by (unfold in_room; cbn [fst snd]; rewrite <- Ec; lia).
      destruct (IH ri (S rj) g' (cinv_set h w g (i, c) Floor C Sq ltac:(vm_compute; reflexivity)) Wg' ltac:(lia) ltac:(lia)) with (x := x) as (g'' & E & C'' & W'' & c'' & Hc'' & R''); [|exact HL|].
      * exists (i, c + 1). split; [exact Hnext|].
        eapply reach_trans; [eapply reach_weaken; [exact Mono | exact R0]|].
        eapply reach_trans; [eapply reach_weaken; [exact Mono | apply (room_reach g ri rj c0 (i, c - 1) Wg ltac:(lia) ltac:(lia) Hc0 Hprev)]|].
        apply rwS with (c := (i, c)); [apply rwS with (c := (i, c - 1)); [constructor | |] | |].
        -- unfold neighbours4. cbn [fst snd In]. right. left. f_equal. lia.
        -- apply okc_gset_self; [apply C | exact Iq].
        -- unfold neighbours4. cbn [fst snd In]. right. left. reflexivity.
        -- apply (Wg' ri (S rj)); [lia | lia | exact Hnext].
      * exists g''. split; [exact E|]. split; [exact C''|]. split; [exact W''|]. exists c''. split; [|exact R''].
        replace (rj + S (count_occ bool_dec t true))%nat with (S rj + count_occ bool_dec t true)%nat by lia. exact Hc''.
    + destruct (bool_dec false true) as [E|_]; [discriminate|]. destruct (bool_dec false false) as [_|N]; [|contradiction].
      apply Leaf_bind in HL. destruct HL as [(j & Hj' & HL)|(e & He & E)].
      2:{ exfalso. apply Leaf_rints in He. destruct He as [[Hlt _]|(j & _ & E')]; [|discriminate].
          pose proof (gap2_nth _ Gv rj ltac:(rewrite lenV; lia)). unfold limV in *. lia. }
      apply Leaf_rints in Hj'. destruct Hj' as [[_ E]|(j' & Hr & E)]; [discriminate|]. injection E as <-.
      pose proof (limV_bounds rj) as B1. pose proof (limV_bounds (S rj)) as B2.
      assert (Hc : In (nth (S ri) limH 0) rh) by (apply lim_inner; lia). apply Hrh in Hc.
      pose proof (gap2_nth _ Gh ri ltac:(rewrite lenH; lia)) as G1. pose proof (gap2_nth _ Gh (S ri) ltac:(rewrite lenH; lia)) as G2.
      remember (nth (S ri) limH 0) as c eqn:Ec.
      assert (Iq : in_grid g (c, j) = true) by (apply (cinv_in_grid h w g (c, j) C); cbn [fst snd]; lia).
      rewrite (grid_set_in g (c, j) Floor (ci_wf _ _ _ C) Iq) in HL. cbn [lift bind] in HL.
      assert (Sq : safe h w (c, j)) by (unfold safe; cbn [fst snd]; split; [lia|]; split; [lia|]; split; intros E; injection E; lia).
      set (g' := gset g (c, j) Floor) in *.
      assert (Mono : forall q, okc g q = true -> okc g' q = true) by (intros q; apply okc_gset; [apply C | exact Iq]).
      assert (Wg' : Wroom g') by (intros a b q Ha Hb Hq; apply Mono; apply (Wg a b q); auto).
      assert (Hnext : in_room (S ri) rj (c + 1, j)) by (unfold in_room; cbn [fst snd]; rewrite <- Ec; lia).
      assert (Hprev : in_room ri rj (c - 1, j)) by (unfold in_room; cbn [fst snd]; rewrite <- Ec; lia).
      destruct (IH (S ri) rj g' (cinv_set h w g (c, j) Floor C Sq ltac:(vm_compute; reflexivity)) Wg' ltac:(lia) ltac:(lia)) with (x := x) as (g'' & E & C'' & W'' & c'' & Hc'' & R''); [|exact HL|].
      * exists (c + 1, j). split; [exact Hnext|].
        eapply reach_trans; [eapply reach_weaken; [exact Mono | exact R0]|].
        eapply reach_trans; [eapply reach_weaken; [exact Mono | apply (room_reach g ri rj c0 (c - 1, j) Wg ltac:(lia) ltac:(lia) Hc0 Hprev)]|].
        apply rwS with (c := (c, j)); [apply rwS with (c := (c - 1, j)); [constructor | |] | |].
        -- unfold neighbours4. cbn [fst snd In]. right. right. left. f_equal. lia.
        -- apply okc_gset_self; [apply C | exact Iq].
        -- unfold neighbours4. cbn [fst snd In]. right. right. left. reflexivity.
        -- apply (Wg' (S ri) rj); [lia | lia | exact Hnext].
      * exists g''. split; [exact E|]. split; [exact C''|]. split; [exact W''|]. exists c''. split; [|exact R''].
        replace (ri + S (count_occ bool_dec t false))%nat with (S ri + count_occ bool_dec t false)%nat by lia. exact Hc''.
Qed.
End CrossingWin.

Lemma nth_last_lim (rs : list Z) e : nth (S (length rs)) (0 :: rs ++ [e]) 0 = e.
Proof. cbn [nth]. rewrite app_nth2 by lia. replace (length rs - length rs)%nat with 0%nat by lia. reflexivity. Qed.

Theorem crossing_winnable h w n ty own own' r : 5 <= h -> 5 <= w -> h mod 2 = 1 -> w mod 2 = 1 -> 0 < n -> ty <> ty_Exit ->
  Leaf (reset_crossing h w n ty own) r ->
  exists s acts path, r = Ok s /\ spos s = (1, 1) /\ is_ty ty_Exit (lookupH (sgrid s) (h - 2, w - 2)) = true /\
    walk (walkable (sgrid s) (is_ty ty_Exit) (h - 2, w - 2)) (spos s) path /\ last path (spos s) = (h - 2, w - 2) /\
    length acts = length path /\ Forall (fun a => is_move a = true) acts /\
    trace [TMoveAgent; TTurnAgent] own' s acts = Ret (map (set_pos s) path).
Proof.
  intros Hh Hw Oh Ow Hn Hty HL. unfold reset_crossing in HL.
  replace ((h <? 5) || (h mod 2 =? 0)) with false in HL by (symmetry; rewrite orb_false_iff, Z.ltb_ge, Z.eqb_neq; lia).
  replace ((w <? 5) || (w mod 2 =? 0)) with false in HL by (symmetry; rewrite orb_false_iff, Z.ltb_ge, Z.eqb_neq; lia).
  replace (n <=? 0) with false in HL by (symmetry; apply Z.leb_gt; lia).
  apply Leaf_bind in HL. destruct HL as [(s & Hs & HL)|(x & Hx & ->)].
  2:{ destruct (empty_outcome h w false false false _ ltac:(lia) ltac:(lia) Hx) as (g & pe & pa & oa & E & _). discriminate. }
  destruct (empty_outcome h w false false false _ ltac:(lia) ltac:(lia) Hs) as (g & pe & pa & oa & E & R & _ & _ & _ & Hfix & Hpefix). injection E as ->.
  destruct (Hfix eq_refl) as [-> ->]. rewrite (Hpefix eq_refl) in R. clear Hfix Hpefix. cbn [sgrid] in HL.
  pose proof (room_cinv h w Hh Hw g R) as C0.
  assert (Hpe : inner h w (h - 2, w - 2)) by (unfold inner; cbn [fst snd]; lia).
  set (rivers := map (fun i => (true, i)) (zrange2 2 (h - 2)) ++ map (fun j => (false, j)) (zrange2 2 (w - 2))) in *.
  apply Leaf_bind in HL. destruct HL as [(perm & Hperm & HL)|(x & Hx & ->)].
  2:{ apply Leaf_rperm in Hx. destruct Hx as (ans & E & _). discriminate. }
  apply Leaf_rperm in Hperm. destruct Hperm as (ans & E & Lp & Rp & Np). injection E as ->.
  set (chosen := firstn (Z.to_nat n) (map (fun i => nthZ rivers i (true, 0)) ans)) in *.
  assert (Hch : forall c, In c chosen -> In c rivers).
  { intros c Hc. apply In_firstn in Hc. apply in_map_iff in Hc. destruct Hc as (i & <- & Hi). unfold nthZ. apply nth_In. specialize (Rp i Hi). lia. }
  set (rh := isort (map snd (filter (fun r0 => fst r0) chosen))) in *. set (rv := isort (map snd (filter (fun r0 => negb (fst r0)) chosen))) in *.
  assert (Hrh : forall y, In y rh -> 2 <= y <= h - 3).
  { intros y Hy. unfold rh in Hy. apply (proj1 (In_isort _ _)) in Hy. apply in_map_iff in Hy. destruct Hy as ([b y'] & <- & Hf). apply filter_In in Hf. destruct Hf as [Hf Hb]. cbn [fst snd] in *. subst b.
    apply Hch in Hf. unfold rivers in Hf. apply in_app_iff in Hf. destruct Hf as [Hf|Hf]; apply in_map_iff in Hf; destruct Hf as (k & Ek & Hk); [|discriminate Ek].
    injection Ek as <-. apply zrange2_In in Hk. lia. }
  assert (Hrv : forall x, In x rv -> 2 <= x <= w - 3).
  { intros y Hy. unfold rv in Hy. apply (proj1 (In_isort _ _)) in Hy. apply in_map_iff in Hy. destruct Hy as ([b y'] & <- & Hf). apply filter_In in Hf. destruct Hf as [Hf Hb]. cbn [fst snd] in *. apply negb_true_iff in Hb. subst b.
    apply Hch in Hf. unfold rivers in Hf. apply in_app_iff in Hf. destruct Hf as [Hf|Hf]; apply in_map_iff in Hf; destruct Hf as (k & Ek & Hk); [discriminate Ek|].
    injection Ek as <-. apply zrange2_In in Hk. lia. }
  assert (Nriv : NoDup rivers).
  { unfold rivers. apply NoDup_app_disjoint.
    - apply NoDup_map_inj; [intros a b _ _ E; now injection E | apply zrange2_NoDup].
    - apply NoDup_map_inj; [intros a b _ _ E; now injection E | apply zrange2_NoDup].
    - intros x Hx Hx'. apply in_map_iff in Hx, Hx'. destruct Hx as (a & <- & _), Hx' as (b & E & _). discriminate. }
  assert (Nch : NoDup chosen).
  { unfold chosen. apply NoDup_firstn. apply (sampled_spec rivers (true, 0) ans Nriv); [intros i Hi; specialize (Rp i Hi); lia | exact Np]. }
  assert (Even : forall c, In c chosen -> snd c mod 2 = 0).
  { intros c Hc. apply Hch in Hc. unfold rivers in Hc. apply in_app_iff in Hc. destruct Hc as [Hc|Hc]; apply in_map_iff in Hc; destruct Hc as (k & <- & Hk); cbn [snd]; apply zrange2_In in Hk; lia. }
  assert (Nrh : NoDup rh).
  { unfold rh. apply NoDup_isort. apply NoDup_map_inj; [|apply NoDup_filter, Nch].
    intros [a1 a2] [b1 b2] Ha Hb E. apply filter_In in Ha, Hb. cbn [fst snd] in *. destruct Ha as [_ ->], Hb as [_ ->]. now subst. }
  assert (Nrv : NoDup rv).
  { unfold rv. apply NoDup_isort. apply NoDup_map_inj; [|apply NoDup_filter, Nch].
    intros [a1 a2] [b1 b2] Ha Hb E. apply filter_In in Ha, Hb. cbn [fst snd] in *. destruct Ha as [_ Ha], Hb as [_ Hb]. apply negb_true_iff in Ha, Hb. now subst. }
  assert (Erh : forall y, In y rh -> y mod 2 = 0).
  { intros y Hy. unfold rh in Hy. apply (proj1 (In_isort _ _)) in Hy. apply in_map_iff in Hy. destruct Hy as (c & <- & Hc). apply filter_In in Hc. apply Even, Hc. }
  assert (Erv : forall y, In y rv -> y mod 2 = 0).
  { intros y Hy. unfold rv in Hy. apply (proj1 (In_isort _ _)) in Hy. apply in_map_iff in Hy. destruct Hy as (c & <- & Hc). apply filter_In in Hc. apply Even, Hc. }
  assert (Gh : gap2 (0 :: rh ++ [h - 1])).
  { apply gap2_build; [reflexivity | lia | | apply isort_sorted | exact Nrh]. intros y Hy. pose proof (Hrh y Hy). pose proof (Erh y Hy). lia. }
  assert (Gv : gap2 (0 :: rv ++ [w - 1])).
  { apply gap2_build; [reflexivity | lia | | apply isort_sorted | exact Nrv]. intros y Hy. pose proof (Hrv y Hy). pose proof (Erv y Hy). lia. }
  assert (Hobj : is_ty ty_Exit (mk0 ty) = false) by (unfold is_ty, mk0; cbn [oty]; now apply Z.eqb_neq).
  (* the rivers: invariant, and every cell off the rivers keeps its content *)
  set (ps1 := cartesian rh (zrange 1 (w - 1))) in *. set (ps2 := cartesian (zrange 1 (h - 1)) rv) in *.
  assert (S1 : forall q, In q ps1 -> safe h w q).
  { intros q Hq. unfold ps1, cartesian in Hq. apply cartesian_In in Hq. destruct Hq as [Hy Hx]. apply Hrh in Hy. apply zrange_In in Hx.
    unfold safe. repeat split; try lia; intros E; rewrite E in *; cbn [fst snd] in *; lia. }
  assert (S2 : forall q, In q ps2 -> safe h w q).
  { intros q Hq. unfold ps2, cartesian in Hq. apply cartesian_In in Hq. destruct Hq as [Hy Hx]. apply Hrv in Hx. apply zrange_In in Hy.
    unfold safe. repeat split; try lia; intros E; rewrite E in *; cbn [fst snd] in *; lia. }
  destruct (cinv_draw h w (mk0 ty) Hobj ps1 g C0 S1) as (g1 & E1 & C1).
  destruct (draw_spec ps1 g (mk0 ty) (rm_wf _ _ _ _ R)) as (g1' & E1' & _ & _ & _ & L1).
  { intros q Hq. apply (cinv_in_grid h w g q C0). destruct (S1 q Hq) as (? & ? & _). lia. }
  rewrite E1 in E1'. injection E1' as <-. rewrite E1 in HL. cbn [lift bind] in HL.
  destruct (cinv_draw h w (mk0 ty) Hobj ps2 g1 C1 S2) as (g2 & E2 & C2).
  destruct (draw_spec ps2 g1 (mk0 ty) (ci_wf _ _ _ C1)) as (g2' & E2' & _ & _ & _ & L2).
  { intros q Hq. apply (cinv_in_grid h w g1 q C1). destruct (S2 q Hq) as (? & ? & _). lia. }
  rewrite E2 in E2'. injection E2' as <-. rewrite E2 in HL. cbn [lift bind] in HL.
  assert (W2 : Wroom h w rh rv g2).
  { intros ri rj q Hi Hj Hq. destruct (room_cell_safe h w rh rv Hh Hw Hrh Hrv Gh Gv ri rj q Hi Hj Hq) as (Q1 & Q2 & Q3 & Q4).
    assert (N1 : memP q ps1 = false) by (apply memP_false; intros H; unfold ps1, cartesian in H; apply cartesian_In in H; tauto).
    assert (N2 : memP q ps2 = false) by (apply memP_false; intros H; unfold ps2, cartesian in H; apply cartesian_In in H; tauto).
    assert (E : lookupH g2 q = lookupH g q) by (rewrite L2, N2, L1, N1; reflexivity).
    assert (Iq : in_grid g q = true) by (apply (cinv_in_grid h w g q C0); lia).
    pose proof (room_walkable h w g (h - 2, w - 2) q R Hpe ltac:(apply innerb_spec; unfold inner; lia)) as Wq.
    unfold okc, walkable in *. rewrite E. rewrite (proj2 (cinv_in_grid h w g2 q C2)) by lia. rewrite Iq in Wq. exact Wq. }
  (* the order of the crossings *)
  set (path0 := map (fun _ => true) rv ++ map (fun _ => false) rh) in *.
  apply Leaf_bind in HL. destruct HL as [(perm2 & Hperm2 & HL)|(x & Hx & ->)].
  2:{ apply Leaf_rperm in Hx. destruct Hx as (ans2 & E & _). discriminate. }
  apply Leaf_rperm in Hperm2. destruct Hperm2 as (ans2 & E & Lp2 & Rp2 & Np2). injection E as ->.
  set (path := map (fun i => nthZ path0 i true) ans2) in *.
  assert (PP : Permutation path path0) by (apply perm_read; auto).
  assert (Ct : count_occ bool_dec path true = length rv /\ count_occ bool_dec path false = length rh).
  { rewrite (proj1 (Permutation_count_occ bool_dec path path0) PP true), (proj1 (Permutation_count_occ bool_dec path path0) PP false).
    unfold path0. rewrite !count_occ_app. destruct (count_occ_const_true rv) as [-> ->]. destruct (count_occ_const_false rh) as [-> ->]. lia. }
  destruct Ct as [Ct Cf].
  assert (Start : exists c, in_room h w rh rv 0 0 c /\ reachable_w (okc h w g2) (1, 1) c).
  { exists (1, 1). split; [|constructor]. unfold in_room. cbn [fst snd].
    pose proof (gap2_nth _ Gh 0%nat ltac:(cbn [length]; rewrite app_length; cbn [length]; lia)) as A. pose proof (gap2_nth _ Gv 0%nat ltac:(cbn [length]; rewrite app_length; cbn [length]; lia)) as B.
    cbn [nth] in A, B |- *. lia. }
  apply Leaf_bind in HL. destruct HL as [(g3 & Hg3 & HL)|(x & Hx & ->)].
  2:{ destruct (path_reach h w rh rv Hh Hw Hrh Hrv Gh Gv _ path 0%nat 0%nat g2 C2 W2 ltac:(lia) ltac:(lia) Start _ Hx) as (g' & E & _). discriminate. }
  destruct (path_reach h w rh rv Hh Hw Hrh Hrv Gh Gv _ path 0%nat 0%nat g2 C2 W2 ltac:(lia) ltac:(lia) Start _ Hg3) as (g' & E & C3 & W3 & c & Hc & Rc). injection E as <-.
  rewrite Ct, Cf in Hc. cbn [Nat.add] in Hc.
  apply Leaf_Ret in HL. subst r.
  (* the exit lies in the last room *)
  assert (Hex : in_room h w rh rv (length rh) (length rv) (h - 2, w - 2)).
  { unfold in_room. cbn [fst snd]. rewrite !nth_last_lim.
    pose proof (gap2_nth _ Gh (length rh) ltac:(cbn [length]; rewrite app_length; cbn [length]; lia)) as A. pose proof (gap2_nth _ Gv (length rv) ltac:(cbn [length]; rewrite app_length; cbn [length]; lia)) as B.
    rewrite nth_last_lim in A, B. lia. }
  assert (Rex : reachable_w (okc h w g3) (1, 1) (h - 2, w - 2)).
  { eapply reach_trans; [exact Rc|]. apply (room_reach h w rh rv Hrh Hrv g3 (length rh) (length rv) c (h - 2, w - 2) W3); auto. }
  destruct (reachable_walk _ _ _ Rex) as (wpath & Wp & Lwp).
  set (s := mkS g3 (1, 1) RIGHT NoneObj).
  destruct (walk_plan (okc h w g3) own' wpath s (ci_wf _ _ _ C3)) as (acts & La & Fa & Ta).
  - intros q Hq. unfold okc, walkable in Hq. unfold can_enter. apply andb_true_iff in Hq. destruct Hq as [Hq _]. exact Hq.
  - exact Wp.
  - exists s, acts, wpath. cbn [sgrid spos]. split; [reflexivity|]. split; [reflexivity|]. split.
    + apply (ci_exit _ _ _ C3 (h - 2, w - 2)); [apply (cinv_in_grid h w g3 _ C3); cbn [fst snd]; lia | reflexivity].
    + split; [exact Wp|]. split; [exact Lwp|]. split; [exact La|]. split; [exact Fa | exact Ta].
Qed.
