(* C15 / C16: numeric representations: inside their spaces, injective, positional, well separated *)
From Coq Require Import ZArith List Bool Lia.
From GV.Model Require Import Repr.
From GV.Lemmas Require Import GridL RotL TransL.
Import ListNotations.
Open Scope Z_scope.

Lemma maxl_cons a t : maxl (a :: t) = Z.max a (maxl t).  Proof. reflexivity. Qed.
Lemma maxl_ge l x : In x l -> x <= maxl l.
Proof. induction l as [|a t IH]; [intros []|]. rewrite maxl_cons. intros [->|H]; [lia | specialize (IH H); lia]. Qed.
Lemma maxl_nonneg l : 0 <= maxl l.
Proof. induction l as [|a t IH]; [unfold maxl; cbn; lia|]. rewrite maxl_cons. lia. Qed.

(* a space: type indices and colour values (non-negative), and its member objects *)
Definition space_ok (ts cs : list Z) : Prop :=
  Forall (fun t => 0 <= t) ts /\ Forall (fun c => 0 <= c) cs /\ NoDup ts /\ NoDup cs.
Definition member (ts cs : list Z) (o : obj) : Prop :=
  In (oty o) ts /\ 0 <= ost o < num_states (oty o) /\ In (ocol o) cs.

Lemma index_of_In {A} (eqb : A -> A -> bool) (Heq : forall a b, eqb a b = true <-> a = b) x l : forall k,
  In x l -> k <= index_of eqb x l k < k + Z.of_nat (length l).
Proof.
  induction l as [|y t IH]; intros k H; [destruct H|]. cbn [index_of length].
  destruct (eqb x y) eqn:E; [lia|]. destruct H as [H|H]; [subst; rewrite (proj2 (Heq x x) eq_refl) in E; discriminate|].
  specialize (IH (k + 1) H). lia.
Qed.
Lemma index_of_inj {A} (eqb : A -> A -> bool) (Heq : forall a b, eqb a b = true <-> a = b) x y l : forall k,
  In x l -> In y l -> index_of eqb x l k = index_of eqb y l k -> x = y.
Proof.
  assert (R : forall a, eqb a a = true) by (intros a; apply Heq; reflexivity).
  induction l as [|z t IH]; intros k Hx Hy E; [destruct Hx|]. cbn [index_of] in E.
  destruct (eqb x z) eqn:Ex, (eqb y z) eqn:Ey.
  - apply Heq in Ex, Ey. congruence.
  - destruct Hy as [Hy|Hy]; [subst; rewrite R in Ey; discriminate|].
    pose proof (index_of_In eqb Heq y t (k + 1) Hy). lia.
  - destruct Hx as [Hx|Hx]; [subst; rewrite R in Ex; discriminate|].
    pose proof (index_of_In eqb Heq x t (k + 1) Hx). lia.
  - destruct Hx as [Hx|Hx]; [subst; rewrite R in Ex; discriminate|].
    destruct Hy as [Hy|Hy]; [subst; rewrite R in Ey; discriminate|]. eapply IH; eauto.
Qed.
Lemma index_of_nth {A} (eqb : A -> A -> bool) (Heq : forall a b, eqb a b = true <-> a = b) (d : A) l : NoDup l ->
  forall i k, (i < length l)%nat -> index_of eqb (nth i l d) l k = k + Z.of_nat i.
Proof.
  induction 1 as [|y t Hn Hnd IH]; intros i k Hi; [cbn in Hi; lia|]. destruct i as [|i]; cbn [nth index_of].
  - rewrite (proj2 (Heq y y) eq_refl). lia.
  - destruct (eqb (nth i t d) y) eqn:E.
    + apply Heq in E. exfalso. apply Hn. rewrite <- E. apply nth_In. cbn in Hi. lia.
    + rewrite IH by (cbn in Hi; lia). lia.
Qed.
Lemma Zeqb_iff a b : (a =? b) = true <-> a = b.  Proof. apply Z.eqb_eq. Qed.
Lemma pair_eqb_iff a b : pair_eqb a b = true <-> a = b.
Proof. unfold pair_eqb. rewrite andb_true_iff, !Z.eqb_eq. destruct a, b; cbn. split; [intros [-> ->]; auto | intros E; injection E; auto]. Qed.

Lemma state_keys_In ts t j : In (t, j) (state_keys ts) <-> In t ts /\ 0 <= j < num_states t.
Proof.
  unfold state_keys. rewrite in_flat_map. split.
  - intros (t' & Ht & Hin). apply in_map_iff in Hin. destruct Hin as (j' & E & Hj). injection E as -> ->. apply zrange_In in Hj. auto.
  - intros [Ht Hj]. exists t. split; auto. apply in_map_iff. exists j. split; auto. apply zrange_In. lia.
Qed.
Lemma member_bounds ts cs o : space_ok ts cs -> member ts cs o ->
  0 <= oty o <= max_type ts /\ 0 <= ost o /\ ost o < max_state ts + 1 /\ 0 <= ocol o <= max_color cs.
Proof.
  intros (Hts & Hcs & _ & _) (Ht & Hs & Hc). rewrite Forall_forall in Hts, Hcs.
  pose proof (maxl_ge ts _ Ht). pose proof (maxl_ge cs _ Hc).
  assert (num_states (oty o) <= max_state ts) by (apply maxl_ge; now apply in_map).
  unfold max_type, max_color. specialize (Hts _ Ht). specialize (Hcs _ Hc). lia.
Qed.

(* ---------- C15: every member object is encoded inside the per-object space, for each of the three representations ---------- *)
Definition within (vs us : list Z) : Prop := Forall2 (fun v u => 0 <= v <= u) vs us.
Lemma enc_obj_in_space k ts cs o : space_ok ts cs -> member ts cs o -> within (enc_obj k ts cs o) (obj_upper k ts cs).
Proof.
  intros Hok Hm. pose proof (member_bounds ts cs o Hok Hm) as (B1 & B2 & B3 & B4). destruct Hm as (Ht & Hs & Hc).
  pose proof (maxl_nonneg ts). pose proof (maxl_nonneg (map num_states ts)). pose proof (maxl_nonneg cs).
  unfold within. destruct k; cbn [enc_obj obj_upper]; unfold max_type, max_state, max_color in *.
  - repeat constructor; lia.
  - repeat constructor; lia.
  - assert (K : In (oty o, ost o) (state_keys ts)) by (apply state_keys_In; auto).
    pose proof (index_of_In Z.eqb Zeqb_iff (oty o) ts 0 Ht) as I1.
    pose proof (index_of_In pair_eqb pair_eqb_iff (oty o, ost o) (state_keys ts) (n_types ts) K) as I2.
    pose proof (index_of_In Z.eqb Zeqb_iff (ocol o) cs (n_types ts + n_states ts) Hc) as I3.
    unfold n_types, n_states in *.
    repeat constructor.
    + exact (proj1 I1).
    + apply maxl_ge. apply in_map_iff. exists (oty o). split; [reflexivity|]. apply zrange_In. unfold max_type. lia.
    + unfold status_map, n_types. lia.
    + apply maxl_ge. apply in_flat_map. exists (oty o). split; [apply zrange_In; unfold max_type; lia|].
      apply in_map_iff. exists (ost o). split; [reflexivity|]. apply zrange_In. unfold max_state. lia.
    + unfold color_map, n_types, n_states. lia.
    + apply maxl_ge. apply in_map_iff. exists (ocol o). split; [reflexivity|]. apply zrange_In. unfold max_color. lia.
Qed.
Lemma obj_upper_shape k ts cs : length (obj_upper k ts cs) = 3%nat /\ forall o, length (enc_obj k ts cs o) = 3%nat.
Proof. destruct k; split; reflexivity. Qed.

(* the whole state / observation: every array has the space's shape and lies within bounds *)
Definition member_state (ts cs : list Z) (s : state) : Prop :=
  wf_grid (sgrid s) /\ Forall (member ts cs) (concat (sgrid s)) /\ in_grid (sgrid s) (spos s) = true /\ member ts cs (sheld s).
Lemma grid_repr_in_space k ts cs g : space_ok ts cs -> Forall (member ts cs) (concat g) ->
  Forall (Forall (fun v => within v (obj_upper k ts cs))) (grid_repr k ts cs g) /\
  length (grid_repr k ts cs g) = length g /\ Forall2 (fun r r' => length r' = length r) g (grid_repr k ts cs g).
Proof.
  intros Hok Hm. unfold grid_repr. split; [|split].
  - apply Forall_forall. intros r' Hr'. apply in_map_iff in Hr'. destruct Hr' as (r & <- & Hr).
    apply Forall_forall. intros v Hv. apply in_map_iff in Hv. destruct Hv as (o & <- & Ho).
    apply enc_obj_in_space; auto. rewrite Forall_forall in Hm. apply Hm. apply in_concat. eauto.
  - apply map_length.
  - clear Hm. induction g; cbn; constructor; auto. apply map_length.
Qed.
Lemma agent_id_in_space g p : Forall (Forall (fun v => 0 <= v <= 1)) (agent_id_grid g p) /\
  length (agent_id_grid g p) = hN g /\ Forall (fun r => length r = wN g) (agent_id_grid g p).
Proof.
  unfold agent_id_grid. split; [|split].
  - apply Forall_forall. intros r Hr. unfold tab in Hr. apply in_map_iff in Hr. destruct Hr as (i & <- & _).
    apply Forall_forall. intros v Hv. apply in_map_iff in Hv. destruct Hv as (j & <- & _). destruct (pos_eqb _ _); lia.
  - apply hN_tab.
  - apply Forall_forall. intros r Hr. eapply rows_tab; eauto.
Qed.
(* the normalised coordinates lie in [-1, 1] (as exact fractions), the heading is one-hot in {0, 1}; shapes of at least 2x2 never raise *)
Lemma agent_repr_in_space g p o : wf_grid g -> in_grid g p = true -> 2 <= gheight g -> 2 <= gwidth g ->
  exists yn yd xn xd oh, agent_repr g p o = Ok ((yn, yd), (xn, xd), oh) /\ 0 < yd /\ 0 < xd /\
    - yd <= yn <= yd /\ - xd <= xn <= xd /\ length oh = 4%nat /\ Forall (fun v => 0 <= v <= 1) oh /\
    nth (Z.to_nat (Orientation_value o)) oh 0 = 1.
Proof.
  intros Hw Hin Hh Hwd. apply in_grid_spec in Hin. unfold agent_repr.
  destruct ((gheight g - 1 =? 0) || (gwidth g - 1 =? 0)) eqn:E.
  - apply orb_true_iff in E. rewrite !Z.eqb_eq in E. lia.
  - do 5 eexists. split; [reflexivity|]. repeat split; try lia.
    + repeat constructor; destruct o; cbn; lia.
    + destruct o; reflexivity.
Qed.
Lemma agent_repr_raises g p o : gheight g = 1 \/ gwidth g = 1 -> agent_repr g p o = Err ZeroDivisionError.
Proof. intros H. unfold agent_repr. replace ((gheight g - 1 =? 0) || (gwidth g - 1 =? 0)) with true; auto. symmetry. apply orb_true_iff. rewrite !Z.eqb_eq. lia. Qed.

Lemma convert_state_in_space k ts cs s : space_ok ts cs -> member_state ts cs s -> 2 <= gheight (sgrid s) -> 2 <= gwidth (sgrid s) ->
  exists r, convert_state k ts cs s = Ok r /\
    Forall (Forall (fun v => within v (obj_upper k ts cs))) (sr_grid r) /\
    Forall (Forall (fun v => 0 <= v <= 1)) (sr_agent_id r) /\
    within (sr_item r) (obj_upper k ts cs) /\
    (let '(yy, xx, oh) := sr_agent r in 0 < snd yy /\ 0 < snd xx /\ - snd yy <= fst yy <= snd yy /\ - snd xx <= fst xx <= snd xx /\
                                         Forall (fun v => 0 <= v <= 1) oh).
Proof.
  intros Hok (Hw & Hc & Hin & Hh) H2 H2'. unfold convert_state.
  destruct (agent_repr_in_space (sgrid s) (spos s) (sori s) Hw Hin H2 H2') as (yn & yd & xn & xd & oh & E & A1 & A2 & A3 & A4 & A5 & A6 & A7).
  rewrite E. cbn [rbind]. eexists; split; [reflexivity|]. cbn [sr_grid sr_agent_id sr_item sr_agent fst snd].
  split; [apply grid_repr_in_space; auto|]. split; [apply agent_id_in_space|]. split; [apply enc_obj_in_space; auto|]. auto.
Qed.
Lemma convert_obs_in_space k ts cs o : space_ok ts cs -> member_state ts cs o ->
  let r := convert_obs k ts cs o in
  Forall (Forall (fun v => within v (obj_upper k ts cs))) (or_grid r) /\
  Forall (Forall (fun v => 0 <= v <= 1)) (or_agent_id r) /\ within (or_item r) (obj_upper k ts cs).
Proof.
  intros Hok (Hw & Hc & Hin & Hh). cbv zeta. unfold convert_obs. cbn [or_grid or_agent_id or_item].
  split; [apply grid_repr_in_space; auto|]. split; [apply agent_id_in_space | apply enc_obj_in_space; auto].
Qed.
(* a state space declaring a type that cannot be represented in state (Box, Hidden) has no state representation *)
Lemma repr_requires_representable declared : state_repr_allowed declared = true <-> forall t, In t declared -> representable t = true.
Proof. unfold state_repr_allowed. apply forallb_forall. Qed.

(* ---------- C16: faithful ---------- *)
Lemma enc_obj_injective k ts cs o1 o2 : space_ok ts cs -> member ts cs o1 -> member ts cs o2 ->
  enc_obj k ts cs o1 = enc_obj k ts cs o2 -> obj_eqb o1 o2 = true.
Proof.
  intros Hok (T1 & S1 & C1) (T2 & S2 & C2) E. unfold obj_eqb. rewrite !andb_true_iff, !Z.eqb_eq.
  destruct k; cbn [enc_obj] in E.
  - injection E; auto.
  - injection E as E1 E2 E3. repeat split; lia.
  - injection E as E1 E2 E3.
    assert (Et : oty o1 = oty o2) by (eapply (index_of_inj Z.eqb Zeqb_iff); eauto).
    assert (Es : (oty o1, ost o1) = (oty o2, ost o2)).
    { apply (index_of_inj pair_eqb pair_eqb_iff _ _ (state_keys ts) (n_types ts)); [apply state_keys_In; auto | apply state_keys_In; auto | exact E2]. }
    assert (Ec : ocol o1 = ocol o2) by (eapply (index_of_inj Z.eqb Zeqb_iff); eauto).
    injection Es; auto.
Qed.
Lemma enc_obj_respects_eq k ts cs o1 o2 : obj_eqb o1 o2 = true -> enc_obj k ts cs o1 = enc_obj k ts cs o2.
Proof. unfold obj_eqb. rewrite !andb_true_iff, !Z.eqb_eq. intros [[E1 E2] E3]. destruct k; cbn [enc_obj]; now rewrite E1, E2, E3. Qed.
(* positional: the entry for cell (i, j) is the encoding of the object in that cell -- the same function at every cell *)
Lemma grid_repr_cellwise k ts cs g i j : 
  match nth_error (grid_repr k ts cs g) i with Some r => nth_error r j | None => None end = option_map (enc_obj k ts cs) (getn g i j).
Proof.
  unfold grid_repr, getn. rewrite nth_error_map. destruct (nth_error g i) as [r|]; cbn [option_map]; auto. now rewrite nth_error_map.
Qed.
(* the agent marker is set exactly at the agent's cell *)
Lemma agent_marker g p i j : (i < hN g)%nat -> (j < wN g)%nat ->
  match nth_error (agent_id_grid g p) i with Some r => nth_error r j | None => None end
  = Some (if pos_eqb (Z.of_nat i, Z.of_nat j) p then 1 else 0).
Proof. intros Hi Hj. unfold agent_id_grid. now apply getn_tab. Qed.
(* default = the (type, status, colour) index triple; no-overlap = three pairwise disjoint intervals *)
Lemma default_is_triple ts cs o : enc_obj RDefault ts cs o = [oty o; ost o; ocol o].  Proof. reflexivity. Qed.
Lemma no_overlap_disjoint ts cs o : space_ok ts cs -> member ts cs o ->
  let T := max_type ts in let S := max_state ts in
  match enc_obj RNoOverlap ts cs o with
  | [a; b; c] => 0 <= a <= T /\ T + 1 <= b <= T + S + 1 /\ T + S + 2 <= c <= T + S + max_color cs + 2
  | _ => False end.
Proof.
  intros Hok Hm. pose proof (member_bounds ts cs o Hok Hm) as (B1 & B2 & B3 & B4). cbv zeta. cbn [enc_obj]. lia.
Qed.
(* compact: three pairwise disjoint blocks that together are exactly 0 .. N-1 (no gaps) *)
Definition N_compact (ts cs : list Z) : Z := n_types ts + n_states ts + n_colors cs.
Lemma compact_blocks ts cs o : space_ok ts cs -> member ts cs o ->
  match enc_obj RCompact ts cs o with
  | [a; b; c] => 0 <= a < n_types ts /\ n_types ts <= b < n_types ts + n_states ts /\ n_types ts + n_states ts <= c < N_compact ts cs
  | _ => False end.
Proof.
  intros Hok (Ht & Hs & Hc). cbn [enc_obj].
  assert (K : In (oty o, ost o) (state_keys ts)) by (apply state_keys_In; auto).
  pose proof (index_of_In Z.eqb Zeqb_iff (oty o) ts 0 Ht) as I1.
  pose proof (index_of_In pair_eqb pair_eqb_iff (oty o, ost o) (state_keys ts) (n_types ts) K) as I2.
  pose proof (index_of_In Z.eqb Zeqb_iff (ocol o) cs (n_types ts + n_states ts) Hc) as I3.
  unfold type_map, status_map, color_map, N_compact, n_types, n_states, n_colors in *. lia.
Qed.
Lemma NoDup_state_keys ts : NoDup ts -> NoDup (state_keys ts).
Proof.
  intros H. unfold state_keys. induction H as [|t l Hn Hnd IH]; cbn [flat_map]; [constructor|].
  apply NoDup_app_intro; auto.
  - apply NoDup_map_inj; [intros a b E; congruence | apply zrange_n_NoDup].
  - intros [t' j] H1 H2. apply in_map_iff in H1. destruct H1 as (j' & E & _). injection E as <- <-.
    apply in_flat_map in H2. destruct H2 as (t2 & Ht2 & H2). apply in_map_iff in H2. destruct H2 as (j2 & E & _). injection E as -> _. auto.
Qed.
Lemma compact_dense ts cs v : space_ok ts cs -> 0 <= v < N_compact ts cs ->
  (exists t, In t ts /\ type_map ts t = v) \/
  (exists t j, In (t, j) (state_keys ts) /\ status_map ts t j = v) \/
  (exists c, In c cs /\ color_map ts cs c = v).
Proof.
  intros (_ & _ & Nt & Nc) Hv. unfold N_compact, n_types, n_states, n_colors in Hv.
  destruct (Z_lt_dec v (Z.of_nat (length ts))) as [H1|H1].
  - left. exists (nth (Z.to_nat v) ts 0). split; [apply nth_In; lia|].
    unfold type_map. rewrite (index_of_nth Z.eqb Zeqb_iff 0 ts Nt) by lia. lia.
  - destruct (Z_lt_dec v (Z.of_nat (length ts) + Z.of_nat (length (state_keys ts)))) as [H2|H2].
    + right; left. set (i := Z.to_nat (v - Z.of_nat (length ts))).
      destruct (nth i (state_keys ts) (0, 0)) as [t j] eqn:E. exists t, j.
      assert (Hi : (i < length (state_keys ts))%nat) by (unfold i; lia).
      split; [rewrite <- E; apply nth_In; auto|].
      unfold status_map, n_types. rewrite <- E. rewrite (index_of_nth pair_eqb pair_eqb_iff (0, 0) _ (NoDup_state_keys ts Nt)) by auto. unfold i. lia.
    + right; right. set (i := Z.to_nat (v - Z.of_nat (length ts) - Z.of_nat (length (state_keys ts)))).
      exists (nth i cs 0). assert (Hi : (i < length cs)%nat) by (unfold i; lia). split; [apply nth_In; auto|].
      unfold color_map, n_types, n_states. rewrite (index_of_nth Z.eqb Zeqb_iff 0 cs Nc) by auto. unfold i. lia.
Qed.

(* non-vacuity: a key-door space and two of its members *)
Lemma C15_example_holds :
  let ts := [ty_NoneGridObject; ty_Floor; ty_Wall; ty_Door; ty_Key] in let cs := [0; 1; 3] in
  space_ok ts cs /\ member ts cs (Door 2 3) /\ member ts cs (Key 1) /\
  enc_obj RNoOverlap ts cs (Door 2 3) = [ty_Door; max_type ts + 3; max_type ts + max_state ts + 5].
Proof.
  cbv zeta. split; [|split; [|split]].
  - unfold space_ok. repeat split.
    + repeat constructor; vm_compute; discriminate.
    + repeat constructor; vm_compute; discriminate.
    + repeat constructor; vm_compute; intuition discriminate.
    + repeat constructor; vm_compute; intuition discriminate.
  - unfold member. vm_compute. intuition discriminate.
  - unfold member. vm_compute. intuition discriminate.
  - vm_compute. reflexivity.
Qed.
