(* C16: numeric representations are faithful at the level of whole states and observations *)
From Coq Require Import ZArith List Bool Lia.
From GV.Model Require Import Repr.
From GV.Lemmas Require Import GridL RotL GeomL TransL C15L.
Import ListNotations.
Open Scope Z_scope.

(* ---------- the key python hashes: GridObject.__hash__ = hash((type_index, state_index, color)); Grid / Agent / State
   hash the tuples of these ---------- *)
Definition objkey (o : obj) : Z * Z * Z := (oty o, ost o, ocol o).
Definition state_hashkey (s : state) : list (list (Z * Z * Z)) * pos * Z * (Z * Z * Z) :=
  (map (map objkey) (sgrid s), spos s, Orientation_value (sori s), objkey (sheld s)).
Lemma obj_eqb_key a b : obj_eqb a b = true <-> objkey a = objkey b.
Proof.
  unfold obj_eqb, objkey. rewrite !andb_true_iff, !Z.eqb_eq. split.
  - intros [[E1 E2] E3]. now rewrite E1, E2, E3.
  - intros E. injection E. auto.
Qed.

(* ---------- grids through their cells ---------- *)
Lemma grid_eqb_cells g1 g2 : wf_grid g1 -> wf_grid g2 ->
  grid_eqb g1 g2 = true <->
  hN g1 = hN g2 /\ wN g1 = wN g2 /\ forall i j, (i < hN g1)%nat -> (j < wN g1)%nat -> obj_eqb (get0 g1 i j) (get0 g2 i j) = true.
Proof.
  intros W1 W2. unfold grid_eqb. rewrite !andb_true_iff, !Z.eqb_eq, forallb_forall, !gheight_hN, !gwidth_wN. split.
  - intros [[Eh Ew] Hc]. assert (Eh' : hN g1 = hN g2) by lia. assert (Ew' : wN g1 = wN g2) by lia. repeat split; auto.
    intros i j Hi Hj. set (p := (Z.of_nat i, Z.of_nat j)).
    assert (I1 : in_grid g1 p = true) by (apply in_grid_spec; rewrite gheight_hN, gwidth_wN; cbn; lia).
    assert (I2 : in_grid g2 p = true) by (apply in_grid_spec; rewrite gheight_hN, gwidth_wN; cbn; lia).
    specialize (Hc p (proj2 (gpositions_In g1 p) I1)).
    rewrite (lookupH_get0 g1 p W1 I1), (lookupH_get0 g2 p W2 I2) in Hc. cbn [p fst snd] in Hc. now rewrite !Nat2Z.id in Hc.
  - intros (Eh & Ew & Hc). repeat split; try lia. intros p Hp. apply gpositions_In in Hp.
    assert (I2 : in_grid g2 p = true).
    { apply in_grid_spec in Hp. apply in_grid_spec. rewrite gheight_hN, gwidth_wN in *. lia. }
    rewrite (lookupH_get0 g1 p W1 Hp), (lookupH_get0 g2 p W2 I2). apply in_grid_spec in Hp. rewrite gheight_hN, gwidth_wN in Hp.
    apply Hc; lia.
Qed.
Lemma map_map_ext {A B} (f : A -> B) (d : A) (g1 g2 : list (list A)) :
  length g1 = length g2 ->
  (forall i, (i < length g1)%nat -> length (nth i g1 []) = length (nth i g2 [])) ->
  (forall i j, (i < length g1)%nat -> (j < length (nth i g1 []))%nat -> f (nth j (nth i g1 []) d) = f (nth j (nth i g2 []) d)) ->
  map (map f) g1 = map (map f) g2.
Proof.
  revert g2. induction g1 as [|r1 t1 IH]; intros [|r2 t2] Hl Hr Hc; cbn in Hl; try lia; auto. cbn [map]. f_equal.
  - specialize (Hr 0%nat ltac:(cbn; lia)). cbn in Hr. specialize (Hc 0%nat). cbn [nth length] in Hc.
    assert (Hc0 : forall j, (j < length r1)%nat -> f (nth j r1 d) = f (nth j r2 d)) by (intros j Hj; apply Hc; lia).
    clear Hc IH Hl. revert r2 Hr Hc0. induction r1 as [|a r1 IHr]; intros [|b r2] Hr Hc0; cbn in Hr; try lia; auto. cbn [map]. f_equal.
    + apply (Hc0 0%nat). cbn; lia.
    + apply IHr; [lia|]. intros j Hj. apply (Hc0 (S j)). cbn; lia.
  - apply IH; [lia | |].
    + intros i Hi. apply (Hr (S i)). cbn; lia.
    + intros i j Hi Hj. apply (Hc (S i) j); cbn; auto; lia.
Qed.
Lemma get0_nth g i j : wf_grid g -> (i < hN g)%nat -> (j < wN g)%nat -> nth j (nth i g []) Hidden = get0 g i j /\ length (nth i g []) = wN g.
Proof.
  intros W Hi Hj. pose proof (getn_in_range g i j W Hi Hj) as G. unfold getn in G.
  destruct (nth_error g i) as [r|] eqn:E; [|discriminate]. rewrite (nth_error_nth g i [] E).
  split; [now apply nth_error_nth | apply wf_row_len; auto; eapply nth_error_In; eauto].
Qed.
Lemma row_len g i : wf_grid g -> (i < hN g)%nat -> length (nth i g []) = wN g.
Proof. intros W Hi. apply wf_row_len; auto. apply nth_In. exact Hi. Qed.

Lemma grid_repr_cells k ts cs g1 g2 : wf_grid g1 -> wf_grid g2 ->
  grid_repr k ts cs g1 = grid_repr k ts cs g2 <->
  hN g1 = hN g2 /\ wN g1 = wN g2 /\
  forall i j, (i < hN g1)%nat -> (j < wN g1)%nat -> enc_obj k ts cs (get0 g1 i j) = enc_obj k ts cs (get0 g2 i j).
Proof.
  intros W1 W2. split.
  - intros E.
    assert (Eh : hN g1 = hN g2) by (unfold hN; rewrite <- (map_length (map (enc_obj k ts cs)) g1), <- (map_length (map (enc_obj k ts cs)) g2); unfold grid_repr in E; now rewrite E).
    assert (Ew : wN g1 = wN g2).
    { pose proof (wf_hN _ W1). unfold grid_repr in E. destruct g1 as [|r1 t1], g2 as [|r2 t2]; cbn in *; try lia.
      injection E as E _. rewrite <- (map_length (enc_obj k ts cs) r1), <- (map_length (enc_obj k ts cs) r2). now rewrite E. }
    repeat split; auto. intros i j Hi Hj.
    pose proof (grid_repr_cellwise k ts cs g1 i j) as C1. pose proof (grid_repr_cellwise k ts cs g2 i j) as C2.
    rewrite E in C1. rewrite C1 in C2.
    rewrite (getn_in_range g1 i j W1 Hi Hj), (getn_in_range g2 i j W2 ltac:(lia) ltac:(lia)) in C2. cbn in C2. now injection C2.
  - intros (Eh & Ew & Hc). unfold grid_repr. apply (map_map_ext _ Hidden).
    + exact Eh.
    + intros i Hi. rewrite (row_len g1 i W1 Hi), (row_len g2 i W2); [auto | unfold hN in *; lia].
    + intros i j Hi Hj. rewrite (row_len g1 i W1 Hi) in Hj.
      destruct (get0_nth g1 i j W1 Hi Hj) as [-> _]. destruct (get0_nth g2 i j W2) as [-> _]; [unfold hN in *; lia | lia | auto].
Qed.
Lemma member_get0 ts cs g i j : wf_grid g -> Forall (member ts cs) (concat g) -> (i < hN g)%nat -> (j < wN g)%nat -> member ts cs (get0 g i j).
Proof.
  intros W M Hi Hj. rewrite Forall_forall in M. apply M. pose proof (getn_in_range g i j W Hi Hj) as G. unfold getn in G.
  destruct (nth_error g i) as [r|] eqn:E; [|discriminate]. apply in_concat. exists r. split; eapply nth_error_In; eauto.
Qed.

(* the grid array determines the grid up to ==, and == grids have the same array *)
Lemma grid_repr_faithful k ts cs g1 g2 : space_ok ts cs -> wf_grid g1 -> wf_grid g2 ->
  Forall (member ts cs) (concat g1) -> Forall (member ts cs) (concat g2) ->
  (grid_repr k ts cs g1 = grid_repr k ts cs g2 <-> grid_eqb g1 g2 = true).
Proof.
  intros Hok W1 W2 M1 M2. rewrite (grid_repr_cells k ts cs g1 g2 W1 W2), (grid_eqb_cells g1 g2 W1 W2). split.
  - intros (Eh & Ew & Hc). repeat split; auto. intros i j Hi Hj. apply (enc_obj_injective k ts cs); auto.
    + apply member_get0; auto.
    + apply member_get0; auto; lia.
  - intros (Eh & Ew & Hc). repeat split; auto. intros i j Hi Hj. apply enc_obj_respects_eq. auto.
Qed.

(* the agent marker array determines the agent's cell *)
Lemma agent_id_faithful g1 g2 p1 p2 : wf_grid g1 -> wf_grid g2 -> hN g1 = hN g2 -> wN g1 = wN g2 ->
  in_grid g1 p1 = true -> in_grid g2 p2 = true ->
  (agent_id_grid g1 p1 = agent_id_grid g2 p2 <-> p1 = p2).
Proof.
  intros W1 W2 Eh Ew I1 I2. split; [|intros ->; unfold agent_id_grid; now rewrite Eh, Ew].
  intros E. apply in_grid_spec in I1, I2. rewrite gheight_hN, gwidth_wN in I1, I2.
  pose proof (agent_marker g1 p1 (Z.to_nat (fst p1)) (Z.to_nat (snd p1)) ltac:(lia) ltac:(lia)) as A1.
  pose proof (agent_marker g2 p2 (Z.to_nat (fst p1)) (Z.to_nat (snd p1)) ltac:(lia) ltac:(lia)) as A2.
  rewrite E in A1. rewrite A1 in A2. rewrite !Z2Nat.id in A2 by lia.
  unfold pos_eqb in A2. cbn [fst snd] in A2. rewrite !Z.eqb_refl in A2. cbn [andb] in A2.
  destruct ((fst p1 =? fst p2) && (snd p1 =? snd p2)) eqn:B; [|discriminate].
  apply andb_true_iff in B. rewrite !Z.eqb_eq in B. destruct p1, p2; cbn in *; f_equal; lia.
Qed.
Lemma onehot_inj o1 o2 :
  map (fun v => if v =? Orientation_value o1 then 1 else 0) [0; 1; 2; 3] = map (fun v => if v =? Orientation_value o2 then 1 else 0) [0; 1; 2; 3] -> o1 = o2.
Proof. destruct o1, o2; vm_compute; intros E; try reflexivity; discriminate E. Qed.

Lemma pos_eqb_eq p q : pos_eqb p q = true <-> p = q.
Proof. unfold pos_eqb. rewrite andb_true_iff, !Z.eqb_eq. destruct p, q; cbn. split; [intros [-> ->]; auto | intros E; injection E; auto]. Qed.
Lemma ori_eqb_eq a b : ori_eqb a b = true <-> a = b.
Proof. unfold ori_eqb. rewrite Z.eqb_eq. split; [apply Orientation_value_inj | now intros ->]. Qed.

(* ---------- whole states: equal representations iff == ---------- *)
Theorem state_repr_faithful k ts cs s1 s2 r1 r2 : space_ok ts cs -> member_state ts cs s1 -> member_state ts cs s2 ->
  convert_state k ts cs s1 = Ok r1 -> convert_state k ts cs s2 = Ok r2 ->
  (r1 = r2 <-> state_eqb s1 s2 = true).
Proof.
  intros Hok (W1 & M1 & I1 & H1) (W2 & M2 & I2 & H2) C1 C2. unfold convert_state in C1, C2.
  destruct (agent_repr (sgrid s1) (spos s1) (sori s1)) as [a1|] eqn:A1; [|discriminate]. cbn [rbind] in C1. injection C1 as <-.
  destruct (agent_repr (sgrid s2) (spos s2) (sori s2)) as [a2|] eqn:A2; [|discriminate]. cbn [rbind] in C2. injection C2 as <-.
  unfold agent_repr in A1, A2.
  destruct ((gheight (sgrid s1) - 1 =? 0) || (gwidth (sgrid s1) - 1 =? 0)); [discriminate|]. injection A1 as <-.
  destruct ((gheight (sgrid s2) - 1 =? 0) || (gwidth (sgrid s2) - 1 =? 0)); [discriminate|]. injection A2 as <-.
  unfold state_eqb. rewrite !andb_true_iff, pos_eqb_eq, ori_eqb_eq. split.
  - intros E.
    pose proof (f_equal sr_grid E) as Eg. pose proof (f_equal sr_agent_id E) as Eid.
    pose proof (f_equal (fun r => snd (sr_agent r)) E) as Eoh. pose proof (f_equal sr_item E) as Eit.
    cbn [sr_grid sr_agent_id sr_agent sr_item snd] in Eg, Eid, Eoh, Eit.
    apply (grid_repr_faithful k ts cs _ _ Hok W1 W2 M1 M2) in Eg.
    pose proof (proj1 (grid_eqb_cells _ _ W1 W2) Eg) as (Eh & Ew & _).
    apply (agent_id_faithful _ _ _ _ W1 W2 Eh Ew I1 I2) in Eid.
    repeat split; auto; [apply onehot_inj; exact Eoh | apply (enc_obj_injective k ts cs); auto].
  - intros [[[Eg Ep] Eo] Eh]. pose proof (proj1 (grid_eqb_cells _ _ W1 W2) Eg) as (Ehh & Eww & _).
    apply (grid_repr_faithful k ts cs _ _ Hok W1 W2 M1 M2) in Eg. rewrite Eg, Ep, Eo, (enc_obj_respects_eq k ts cs _ _ Eh).
    rewrite !gheight_hN, !gwidth_wN, Ehh, Eww. unfold agent_id_grid. now rewrite Ehh, Eww.
Qed.
(* observations: the encodings deliberately omit the heading (every built-in observation faces FORWARD, C05) *)
Theorem obs_repr_faithful k ts cs o1 o2 : space_ok ts cs -> member_state ts cs o1 -> member_state ts cs o2 ->
  (convert_obs k ts cs o1 = convert_obs k ts cs o2 <->
   grid_eqb (sgrid o1) (sgrid o2) = true /\ spos o1 = spos o2 /\ obj_eqb (sheld o1) (sheld o2) = true).
Proof.
  intros Hok (W1 & M1 & I1 & H1) (W2 & M2 & I2 & H2). unfold convert_obs. split.
  - intros E. injection E as Eg Eid Eit.
    apply (grid_repr_faithful k ts cs _ _ Hok W1 W2 M1 M2) in Eg.
    pose proof (proj1 (grid_eqb_cells _ _ W1 W2) Eg) as (Eh & Ew & _).
    apply (agent_id_faithful _ _ _ _ W1 W2 Eh Ew I1 I2) in Eid.
    repeat split; auto. apply (enc_obj_injective k ts cs); auto.
  - intros (Eg & Ep & Eh). pose proof (proj1 (grid_eqb_cells _ _ W1 W2) Eg) as (Ehh & Eww & _).
    apply (grid_repr_faithful k ts cs _ _ Hok W1 W2 M1 M2) in Eg. rewrite Eg, Ep, (enc_obj_respects_eq k ts cs _ _ Eh).
    unfold agent_id_grid. now rewrite Ehh, Eww.
Qed.
Corollary obs_repr_faithful_forward k ts cs o1 o2 : space_ok ts cs -> member_state ts cs o1 -> member_state ts cs o2 ->
  sori o1 = FORWARD -> sori o2 = FORWARD ->
  (convert_obs k ts cs o1 = convert_obs k ts cs o2 <-> state_eqb o1 o2 = true).
Proof.
  intros Hok M1 M2 F1 F2. rewrite (obs_repr_faithful k ts cs o1 o2 Hok M1 M2). unfold state_eqb.
  rewrite !andb_true_iff, pos_eqb_eq, ori_eqb_eq, F1, F2. tauto.
Qed.

(* equal states hash alike: == implies equal hash keys (and conversely) *)
Lemma map_objkey_cells g1 g2 : wf_grid g1 -> wf_grid g2 ->
  map (map objkey) g1 = map (map objkey) g2 <-> grid_eqb g1 g2 = true.
Proof.
  intros W1 W2. rewrite (grid_eqb_cells g1 g2 W1 W2). split.
  - intros E.
    assert (Eh : hN g1 = hN g2) by (unfold hN; rewrite <- (map_length (map objkey) g1), <- (map_length (map objkey) g2); now rewrite E).
    assert (Ew : wN g1 = wN g2).
    { pose proof (wf_hN _ W1). destruct g1 as [|r1 t1], g2 as [|r2 t2]; cbn in *; try lia.
      injection E as E _. rewrite <- (map_length objkey r1), <- (map_length objkey r2). now rewrite E. }
    repeat split; auto. intros i j Hi Hj. apply obj_eqb_key.
    assert (C : forall g, match nth_error (map (map objkey) g) i with Some r => nth_error r j | None => None end = option_map objkey (getn g i j)).
    { intros g. unfold getn. rewrite nth_error_map. destruct (nth_error g i); cbn; auto. now rewrite nth_error_map. }
    pose proof (C g1) as C1. pose proof (C g2) as C2. rewrite E in C1. rewrite C1 in C2.
    rewrite (getn_in_range g1 i j W1 Hi Hj), (getn_in_range g2 i j W2 ltac:(lia) ltac:(lia)) in C2. cbn [option_map] in C2. congruence.
  - intros (Eh & Ew & Hc). apply (map_map_ext _ Hidden).
    + exact Eh.
    + intros i Hi. rewrite (row_len g1 i W1 Hi), (row_len g2 i W2); [auto | unfold hN in *; lia].
    + intros i j Hi Hj. rewrite (row_len g1 i W1 Hi) in Hj.
      destruct (get0_nth g1 i j W1 Hi Hj) as [-> _]. destruct (get0_nth g2 i j W2) as [-> _]; [unfold hN in *; lia | lia |].
      apply obj_eqb_key. auto.
Qed.
Theorem hash_consistent s1 s2 : wf_grid (sgrid s1) -> wf_grid (sgrid s2) ->
  (state_eqb s1 s2 = true <-> state_hashkey s1 = state_hashkey s2).
Proof.
  intros W1 W2. unfold state_eqb, state_hashkey. rewrite !andb_true_iff, pos_eqb_eq, ori_eqb_eq, obj_eqb_key, <- (map_objkey_cells _ _ W1 W2). split.
  - intros [[[-> ->] ->] ->]. reflexivity.
  - intros E. injection E as E1 E2 E3 E4 E5 E6. repeat split; auto; [now apply Orientation_value_inj | unfold objkey; congruence].
Qed.

(* non-vacuity / distinctness example: two members differing only in one door's status have different representations *)
Lemma C16_example_holds :
  let ts := [ty_NoneGridObject; ty_Floor; ty_Wall; ty_Door; ty_Key] in let cs := [0; 1; 3] in
  let s1 := mkS [[Wall; Door 2 3]; [Floor; Key 3]] (1, 0) RIGHT NoneObj in
  let s2 := mkS [[Wall; Door 0 3]; [Floor; Key 3]] (1, 0) RIGHT NoneObj in
  member_state ts cs s1 /\ member_state ts cs s2 /\ state_eqb s1 s2 = false /\
  forall k, convert_state k ts cs s1 <> convert_state k ts cs s2.
Proof.
  cbv zeta. split; [|split; [|split]].
  - split; [apply wf_gridb_spec; vm_compute; reflexivity|]. split; [|split; [vm_compute; reflexivity|]].
    + apply Forall_forall. cbn [sgrid concat app]. intros o [<-|[<-|[<-|[<-|[]]]]]; vm_compute; intuition discriminate.
    + vm_compute; intuition discriminate.
  - split; [apply wf_gridb_spec; vm_compute; reflexivity|]. split; [|split; [vm_compute; reflexivity|]].
    + apply Forall_forall. cbn [sgrid concat app]. intros o [<-|[<-|[<-|[<-|[]]]]]; vm_compute; intuition discriminate.
    + vm_compute; intuition discriminate.
  - vm_compute. reflexivity.
  - intros k; destruct k; vm_compute; discriminate.
Qed.
