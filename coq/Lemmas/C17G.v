(* C17: the shipped configurations, regenerated from /repo on every run (Gen/Configs.v, Gen/Signatures.v), pass every component factory:
   each named component is registered and receives all its required parameters -- evaluated by the kernel. *)
From Coq Require Import ZArith List Bool.
From GV.Gen Require Import Signatures Configs.
From GV.Model Require Import Factory.
Import ListNotations.
Open Scope Z_scope.

Definition entry_builds (e : Z * Z * list Z) : bool :=
  let '(ri, name, ks) := e in
  match nth_error all_registries (Z.to_nat ri) with
  | Some reg => match factory reg name (map (fun k => (k, tt)) ks) with Ok _ => true | Err _ => false end
  | None => false end.
Lemma shipped_components_build : (100 <= length shipped_components)%nat /\ forallb entry_builds shipped_components = true.
Proof. split; [vm_compute; repeat constructor | vm_compute; reflexivity]. Qed.
Lemma shipped_copies_identical : forallb (fun b : bool => b) shipped_packaged_identical = true /\ gym_ids_point_to_packaged_files = true
  /\ length shipped_packaged_identical = Z.to_nat number_of_gym_ids.
Proof. repeat split; vm_compute; reflexivity. Qed.
(* component names are unique inside every registry (so `the component named n` is well defined) *)
Fixpoint nodupz (l : list Z) : bool := match l with [] => true | x :: t => negb (memz x t) && nodupz t end.
Lemma registry_names_unique : forallb (fun reg => nodupz (map row_name reg)) all_registries = true.
Proof. vm_compute. reflexivity. Qed.
