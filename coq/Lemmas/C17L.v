(* C17: component factories select exactly the parameters a component accepts, reject unknown names and missing parameters *)
From Coq Require Import ZArith List Bool Lia Permutation.
From GV.Model Require Import Factory.
Import ListNotations.
Open Scope Z_scope.

Lemma memz_In x l : memz x l = true <-> In x l.
Proof.
  unfold memz. rewrite existsb_exists. split; [intros (y & Hy & E); apply Z.eqb_eq in E; now subst | intros H; exists x; split; auto; apply Z.eqb_refl].
Qed.
Lemma lookup_row_spec reg name : forall k i r, lookup_row reg name k = Some (i, r) ->
  (k <= i)%nat /\ nth_error reg (i - k) = Some r /\ row_name r = name /\ forall j r', (j < i - k)%nat -> nth_error reg j = Some r' -> row_name r' <> name.
Proof.
  induction reg as [|r0 t IH]; intros k i r H; cbn [lookup_row] in H; [discriminate|].
  destruct (row_name r0 =? name) eqn:E.
  - injection H as <- <-. apply Z.eqb_eq in E. rewrite Nat.sub_diag. repeat split; auto. intros j r' Hj. lia.
  - apply IH in H. destruct H as (H1 & H2 & H3 & H4). apply Z.eqb_neq in E. repeat split; auto; try lia.
    + replace (i - k)%nat with (S (i - S k)) by lia. exact H2.
    + intros j r' Hj Hn. destruct j as [|j]; cbn in Hn; [injection Hn as <-; auto|]. apply (H4 j r'); auto. lia.
Qed.
Lemma lookup_row_None reg name : forall k, lookup_row reg name k = None <-> ~ In name (map row_name reg).
Proof.
  induction reg as [|r0 t IH]; intros k; cbn [lookup_row map]; [split; [intros _ [] | auto]|].
  destruct (row_name r0 =? name) eqn:E.
  - apply Z.eqb_eq in E. split; [discriminate | intros H; exfalso; apply H; left; auto].
  - apply Z.eqb_neq in E. rewrite IH. cbn [In]. tauto.
Qed.

Section Spec.
Context {V : Type}.
Implicit Types kw : @kwargs V.

Lemma check_required_spec kw req : check_required kw req = true <-> forall k, In k req -> In k (keys kw).
Proof. unfold check_required. rewrite forallb_forall. split; intros H k Hk; [apply memz_In | apply memz_In]; auto. Qed.
(* select keeps an entry iff its key is accepted; order and values untouched *)
Lemma select_In kw acc e : In e (select kw acc) <-> In e kw /\ In (fst e) acc.
Proof. unfold select. rewrite filter_In, memz_In. tauto. Qed.
Lemma select_keys_accepted kw acc k : In k (keys (select kw acc)) -> In k acc.
Proof. unfold keys. rewrite in_map_iff. intros (e & <- & He). apply select_In in He. tauto. Qed.

Lemma check_required_ignore kw1 extra kw2 req : (forall e, In e extra -> ~ In (fst e) req) ->
  check_required (kw1 ++ extra ++ kw2) req = check_required (kw1 ++ kw2) req.
Proof.
  unfold check_required. induction req as [|k t IH]; intros Hx; [reflexivity|]. cbn [forallb].
  assert (M : memz k (keys (kw1 ++ extra ++ kw2)) = memz k (keys (kw1 ++ kw2))).
  { apply eq_true_iff_eq. rewrite !memz_In. unfold keys. rewrite !map_app, !in_app_iff.
    split; [intros [H|[H|H]]; auto | intros [H|H]; auto]. exfalso. apply in_map_iff in H. destruct H as (e & E & He). apply (Hx e He). rewrite E. left. reflexivity. }
  rewrite M. f_equal. apply IH. intros e He Hin. apply (Hx e He). right. exact Hin.
Qed.

(* THE specification of a component factory *)
Theorem factory_spec reg name kw i sel : factory reg name kw = Ok (i, sel) <->
  exists r, nth_error reg i = Some r /\ row_name r = name /\ (forall j r', (j < i)%nat -> nth_error reg j = Some r' -> row_name r' <> name) /\
            (forall k, In k (row_req r) -> In k (keys kw)) /\
            sel = filter (fun e => memz (fst e) (row_req r ++ row_opt r)) kw.
Proof.
  unfold factory. destruct (lookup_row reg name 0) as [[i0 r]|] eqn:L.
  - apply lookup_row_spec in L. destruct L as (_ & L2 & L3 & L4). rewrite Nat.sub_0_r in L2, L4.
    destruct (check_required kw (row_req r)) eqn:C.
    + pose proof (proj1 (check_required_spec _ _) C) as C'. split.
      * intros E. injection E as <- <-. exists r. repeat split; auto.
      * intros (r' & N & Hn & Hfirst & Hreq & ->).
        assert (i = i0).
        { destruct (Nat.lt_trichotomy i i0) as [Hlt|[->|Hgt]]; auto.
          - exfalso. exact (L4 i r' Hlt N Hn).
          - exfalso. exact (Hfirst i0 r Hgt L2 L3). }
        subst i. rewrite L2 in N. injection N as <-. reflexivity.
    + split; [discriminate|]. intros (r' & N & Hn & Hfirst & Hreq & _).
      assert (i = i0).
      { destruct (Nat.lt_trichotomy i i0) as [Hlt|[->|Hgt]]; auto.
        - exfalso. exact (L4 i r' Hlt N Hn).
        - exfalso. exact (Hfirst i0 r Hgt L2 L3). }
      subst i. rewrite L2 in N. injection N as <-. apply (proj2 (check_required_spec _ _)) in Hreq. congruence.
  - split; [discriminate|]. intros (r & N & Hn & _). apply (proj1 (lookup_row_None reg name 0)) in L. exfalso. apply L. rewrite <- Hn. apply in_map. eapply nth_error_In; eauto.
Qed.
(* rejection: exactly an unknown name or a missing required parameter, and then always ValueError -- never a component *)
Theorem factory_rejects reg name kw : (exists x, factory reg name kw = Err x) <->
  ~ In name (map row_name reg) \/ exists i r k, lookup_row reg name 0 = Some (i, r) /\ In k (row_req r) /\ ~ In k (keys kw).
Proof.
  unfold factory. destruct (lookup_row reg name 0) as [[i r]|] eqn:L.
  - destruct (check_required kw (row_req r)) eqn:C.
    + split; [intros [x E]; discriminate|]. intros [H|(i' & r' & k & E & Hk & Hn)].
      * apply (proj2 (lookup_row_None reg name 0)) in H. rewrite L in H. discriminate.
      * injection E as <- <-. pose proof (proj1 (check_required_spec _ _) C) as C'. exfalso. apply Hn. apply C'. exact Hk.
    + split; [|intros _; eauto]. intros _. right.
      unfold check_required in C. assert (H : exists k, In k (row_req r) /\ memz k (keys kw) = false).
      { clear L. induction (row_req r) as [|k t IH]; cbn in C; [discriminate|]. destruct (memz k (keys kw)) eqn:M.
        - destruct (IH C) as (k' & H1 & H2). exists k'. split; [right|]; auto.
        - exists k. split; [left|]; auto. }
      destruct H as (k & Hk & M). exists i, r, k. repeat split; auto. intros Hin. apply memz_In in Hin. congruence.
  - split; [intros _; left; now apply (proj1 (lookup_row_None reg name 0)) | intros _; eauto].
Qed.
Theorem factory_error_is_ValueError reg name kw x : factory reg name kw = Err x -> x = ValueError.
Proof. unfold factory. destruct (lookup_row reg name 0) as [[i r]|]; [destruct (check_required kw (row_req r))|]; intros E; congruence. Qed.
(* parameters a component does not accept are ignored: adding or removing them anywhere changes nothing *)
Theorem ignored_irrelevant reg name kw1 extra kw2 r i : lookup_row reg name 0 = Some (i, r) ->
  (forall e, In e extra -> ~ In (fst e) (row_req r ++ row_opt r)) ->
  factory reg name (kw1 ++ extra ++ kw2) = factory reg name (kw1 ++ kw2).
Proof.
  intros L Hx. unfold factory. rewrite L.
  assert (S : select (kw1 ++ extra ++ kw2) (row_req r ++ row_opt r) = select (kw1 ++ kw2) (row_req r ++ row_opt r)).
  { unfold select. rewrite !filter_app. f_equal. replace (filter _ extra) with (@nil (Z * V)); auto.
    symmetry. induction extra as [|e t IH]; auto. cbn [filter]. destruct (memz (fst e) (row_req r ++ row_opt r)) eqn:M.
    - apply memz_In in M. exfalso. apply (Hx e); [left; auto | auto].
    - apply IH. intros e' He'. apply Hx. right; auto. }
  assert (C : check_required (kw1 ++ extra ++ kw2) (row_req r) = check_required (kw1 ++ kw2) (row_req r)).
  { apply check_required_ignore. intros e He Hin. apply (Hx e He). apply in_app_iff. auto. }
  now rewrite S, C.
Qed.
(* the selected keywords are accepted ones, carry the given values, and contain every required key *)
Theorem selected_sound reg name kw i sel : factory reg name kw = Ok (i, sel) ->
  exists r, nth_error reg i = Some r /\ (forall e, In e sel <-> In e kw /\ In (fst e) (row_req r ++ row_opt r)) /\
            (forall k, In k (row_req r) -> In k (keys sel)).
Proof.
  intros H. apply factory_spec in H. destruct H as (r & N & _ & _ & Hreq & ->). exists r. split; auto. split.
  - intros e. apply (select_In kw (row_req r ++ row_opt r) e).
  - intros k Hk. specialize (Hreq k Hk). unfold keys in *. apply in_map_iff in Hreq. destruct Hreq as (e & <- & He).
    apply in_map. apply filter_In. split; auto. apply memz_In. apply in_app_iff. auto.
Qed.
(* building is repeatable and leaves its input alone: a factory is a function of (registry, name, kwargs) *)
Theorem factory_pure reg name kw : factory reg name kw = factory reg name kw.  Proof. reflexivity. Qed.
End Spec.
