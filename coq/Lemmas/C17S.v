(* C17: the configuration layer -- schema validation and the order of construction (Model/Schema.v), for ARBITRARY tables *)
From Coq Require Import ZArith List Bool Lia Permutation.
From GV.Model Require Import Factory Schema.
From GV.Lemmas Require Import C17L.
Import ListNotations.
Open Scope Z_scope.

Section S.
Variable T : tabs.

(* ---- validation: one unfolding step per shape of schema ---- *)
Lemma valid_dict k req opt wild kv : t_dict T k = Some (req, opt, wild) ->
  valid T k (CDict kv) = forallb (fun rk => has_key (fst rk) kv) req &&
                         forallb (fun e => match key_kind req opt (fst e) with Some k' => valid T k' (snd e) | None => wild end) kv.
Proof.
  intros H. cbn [valid]. rewrite H. f_equal.
  induction kv as [|[key v] r IH]; [reflexivity|]. cbn [forallb fst snd]. rewrite <- IH. reflexivity.
Qed.
Lemma valid_dict_not k req opt wild c : t_dict T k = Some (req, opt, wild) -> (forall kv, c <> CDict kv) -> valid T k c = false.
Proof. intros H N. destruct c; cbn [valid]; rewrite H; try reflexivity. exfalso. eapply N. reflexivity. Qed.
Lemma valid_list k ke l : t_dict T k = None -> t_list T k = Some ke ->
  valid T k (CList l) = negb (match l with [] => true | _ => false end) && forallb (valid T ke) l.
Proof.
  intros H1 H2. cbn [valid]. rewrite H1, H2. reflexivity.
Qed.
Lemma valid_leaf k c : t_dict T k = None -> t_list T k = None -> valid T k c = leaf_valid T k c.
Proof. intros H1 H2. destruct c; cbn [valid]; rewrite H1, H2; reflexivity. Qed.

(* a dictionary is accepted iff every required key is there and every entry fits the schema its key selects *)
Theorem valid_dict_spec k req opt wild kv : t_dict T k = Some (req, opt, wild) ->
  (valid T k (CDict kv) = true <->
   (forall s k', In (s, k') req -> has_key s kv = true) /\
   (forall key v, In (key, v) kv -> match key_kind req opt key with Some k' => valid T k' v = true | None => wild = true end)).
Proof.
  intros H. rewrite (valid_dict _ _ _ _ _ H), andb_true_iff, !forallb_forall. split.
  - intros [A B]. split; [intros s k' Hin; exact (A (s, k') Hin)|]. intros key v Hin. specialize (B (key, v) Hin). cbn [fst snd] in B.
    destruct (key_kind req opt key); exact B.
  - intros [A B]. split; [intros [s k'] Hin; exact (A s k' Hin)|]. intros [key v] Hin. specialize (B key v Hin). cbn [fst snd].
    destruct (key_kind req opt key); exact B.
Qed.

(* ---- leaves ---- *)
Lemma strs_spec l ss : strs l = Some ss <-> l = map CStr ss.
Proof.
  revert ss. induction l as [|x r IH]; intros ss; cbn [strs].
  - split; [intros E; injection E as <-; reflexivity | intros E; destruct ss; [reflexivity | discriminate]].
  - destruct x; try (split; [discriminate | intros E; destruct ss; discriminate]).
    destruct (strs r) as [t|] eqn:R.
    + split; [intros E; injection E as <-; cbn; f_equal; apply IH; reflexivity|].
      intros E. destruct ss as [|s0 ss']; [discriminate|]. cbn in E. injection E as -> E'. apply IH in E'. injection E' as ->. reflexivity.
    + split; [discriminate|]. intros E. destruct ss as [|s0 ss']; [discriminate|]. cbn in E. injection E as -> E'. apply IH in E'. discriminate.
Qed.
Lemma nodupz_NoDup l : nodupz l = true <-> NoDup l.
Proof.
  induction l as [|x r IH]; cbn [nodupz]; [split; [constructor | reflexivity]|].
  rewrite andb_true_iff, negb_true_iff, IH. split.
  - intros [A B]. constructor; auto. intros Hin. apply memz_In in Hin. congruence.
  - intros N. inversion N; subst. split; auto. destruct (memz x r) eqn:M; [apply memz_In in M; contradiction | reflexivity].
Qed.
(* non-empty list of distinct strings (from the allowed ones) *)
Lemma str_list_ok_spec allowed c : str_list_ok allowed c = true <->
  exists ss, c = CList (map CStr ss) /\ ss <> [] /\ NoDup ss /\ match allowed with Some a => forall s, In s ss -> In s a | None => True end.
Proof.
  unfold str_list_ok. destruct c; try (split; [discriminate | intros (ss & E & _); discriminate]).
  destruct (strs l) as [ss|] eqn:S.
  - apply strs_spec in S. subst l. rewrite !andb_true_iff, negb_true_iff, nodupz_NoDup. split.
    + intros [[A B] C]. exists ss. repeat split; auto; [intros ->; discriminate|].
      destruct allowed; [|exact I]. intros s Hs. rewrite forallb_forall in C. apply memz_In. auto.
    + intros (ss' & E & N & D & A). injection E as E. assert (ss' = ss) as ->.
      { clear - E. revert ss' E. induction ss as [|a r IH]; intros [|b r'] E; try discriminate; [reflexivity|]. cbn in E. injection E as -> E. f_equal. auto. }
      repeat split; auto; [destruct ss; [contradiction | reflexivity]|].
      destruct allowed; [|reflexivity]. apply forallb_forall. intros s Hs. apply memz_In. auto.
  - split; [discriminate|]. intros (ss & E & _). injection E as ->. assert (strs (map CStr ss) = Some ss) by (apply strs_spec; reflexivity). congruence.
Qed.
Lemma pair_spec c : leaf_valid T KPair c = true <-> exists a b, c = CList [CInt a; CInt b] /\ 0 < a /\ 0 < b.
Proof.
  unfold leaf_valid. change (KPair =? KAny) with false. change (KPair =? KStr) with false. change (KPair =? KPair) with true. cbv iota.
  split.
  - destruct c as [| | | | |l|]; try discriminate. destruct l as [|[| |a| | | |] [|[| |b| | | |] [|]]]; try discriminate.
    rewrite andb_true_iff, !Z.ltb_lt. intros [A B]. exists a, b. auto.
  - intros (a & b & -> & A & B). rewrite andb_true_iff, !Z.ltb_lt. auto.
Qed.

(* ---- construction ---- *)
Lemma fn_invalid fk c : valid T (k_fn T) c = false -> fn T fk c = Err SchemaError.
Proof. intros H. destruct c; cbn [fn]; rewrite H; reflexivity. Qed.
Lemma build_invalid c : valid T (k_env T) c = false -> build T c = Err SchemaError.
Proof. intros H. unfold build. rewrite H. reflexivity. Qed.
Lemma build_ok_valid c d : build T c = Ok d -> valid T (k_env T) c = true.
Proof. unfold build. destruct (valid T (k_env T) c); [reflexivity | discriminate]. Qed.
Lemma fn_ok_valid fk c x : fn T fk c = Ok x -> valid T (k_fn T) c = true.
Proof. destruct (valid T (k_fn T) c) eqn:V; [reflexivity|]. rewrite (fn_invalid _ _ V). discriminate. Qed.

(* what a successfully constructed component is: the function the registry of its kind lists under the given name, bound to exactly the
   accepted ones among the given keys, all required ones among them *)
Theorem fn_ok_spec fk c x : fn T fk c = Ok x ->
  exists kv name ks i sel children,
    c = CDict kv /\ assoc (s_name T) kv = Some (CStr name) /\ keys_of kv = Ok ks /\ is_custom name = false /\
    factory (t_registry T fk) name (map (fun k => (k, tt)) (filter (fun k => negb (k =? s_name T)) ks)) = Ok (i, sel) /\
    x = Comp fk i (map fst sel) children.
Proof.
  intros H. pose proof (fn_ok_valid _ _ _ H) as V. destruct c; cbn [fn] in H; rewrite V in H; cbn [negb] in H; try discriminate.
  unfold finish in H.
  match type of H with match ?C with _ => _ end = _ => destruct C as [children|]; [|discriminate] end.
  destruct (assoc (s_name T) kv) as [[| | | |name| |]|] eqn:A; try discriminate.
  destruct (keys_of kv) as [ks|] eqn:K; [|discriminate].
  destruct (is_custom name) eqn:Cu; [discriminate|].
  match type of H with match ?F with _ => _ end = _ => destruct F as [[i sel]|] eqn:F'; [|discriminate] end.
  injection H as <-. exists kv, name, ks, i, sel, children. repeat split; auto.
Qed.
Corollary fn_ok_registered fk c i bound ch : fn T fk c = Ok (Comp fk i bound ch) ->
  exists r name, nth_error (t_registry T fk) i = Some r /\ row_name r = name /\
                 (forall k, In k (row_req r) -> In k bound) /\ (forall k, In k bound -> In k (row_req r ++ row_opt r)).
Proof.
  intros H. destruct (fn_ok_spec _ _ _ H) as (kv & name & ks & i' & sel & ch' & -> & A & K & Cu & F & E). injection E as Ei Eb Ec. subst i' bound ch'.
  apply factory_spec in F. destruct F as (r & N & Rn & _ & Rq & ->). exists r, name. repeat split; auto.
  - intros k Hk. specialize (Rq k Hk). unfold keys in Rq. apply in_map_iff in Rq. destruct Rq as ([k' []] & <- & Hin). cbn [fst].
    apply in_map_iff. exists (k', tt). split; [reflexivity|]. apply filter_In. split; auto. cbn [fst]. apply memz_In. apply in_or_app. left. exact Hk.
  - intros k Hk. apply in_map_iff in Hk. destruct Hk as ([k' []] & <- & Hin). apply filter_In in Hin. cbn [fst] in *. apply memz_In. tauto.
Qed.
(* an unregistered component name never yields a component *)
Theorem fn_unknown_name fk kv name : assoc (s_name T) kv = Some (CStr name) -> ~ In name (map row_name (t_registry T fk)) ->
  forall x, fn T fk (CDict kv) <> Ok x.
Proof.
  intros A N x H. destruct (fn_ok_spec _ _ _ H) as (kv' & name' & ks & i & sel & ch & E & A' & _ & _ & F & _). injection E as <-.
  rewrite A in A'. injection A' as <-. apply factory_spec in F. destruct F as (r & Nth & Rn & _). apply N. apply in_map_iff. exists r. split; auto.
  eapply nth_error_In; eauto.
Qed.
(* ... and neither does an entry that lacks a parameter its function requires *)
Theorem fn_missing_required fk kv name i r k : assoc (s_name T) kv = Some (CStr name) -> lookup_row (t_registry T fk) name 0 = Some (i, r) ->
  In k (row_req r) -> has_key k kv = false -> forall x, fn T fk (CDict kv) <> Ok x.
Proof.
  intros A L Hk Hn x H. destruct (fn_ok_spec _ _ _ H) as (kv' & name' & ks & i' & sel & ch & E & A' & K & _ & F & _). injection E as <-.
  rewrite A in A'. injection A' as <-. unfold factory in F. rewrite L in F.
  destruct (check_required _ (row_req r)) eqn:C; [|discriminate]. apply check_required_spec with (k := k) in C; auto.
  unfold keys in C. apply in_map_iff in C. destruct C as ([k' []] & E & Hin). cbn in E. subst k'. apply in_map_iff in Hin. destruct Hin as (k' & E & Hin). injection E as ->.
  apply filter_In in Hin. destruct Hin as [Hin _].
  assert (G : forall kv ks, keys_of kv = Ok ks -> In k ks -> has_key k kv = true).
  { clear. induction kv as [|[key v] r IH]; intros ks K Hin; cbn [keys_of] in K; [injection K as <-; destruct Hin|].
    destruct key; try discriminate. destruct (keys_of r) as [t|] eqn:R; [|discriminate]. injection K as <-. change (has_key k ((CStr s, v) :: r)) with ((s =? k) || has_key k r).
    destruct Hin as [->|Hin]; [rewrite Z.eqb_refl; reflexivity|]. rewrite (IH t eq_refl Hin). apply orb_true_r. }
  rewrite (G _ _ K Hin) in Hn. discriminate.
Qed.

(* what a successfully built environment is made of: an inversion of the construction, clause by clause *)
Theorem build_ok_spec c d : build T c = Ok d ->
  exists kv ss os rf tfs rfs obf tf,
    c = CDict kv /\
    assoc (s_state_space T) kv = Some ss /\ assoc (s_observation_space T) kv = Some os /\ assoc (s_reset_function T) kv = Some rf /\
    assoc (s_transition_functions T) kv = Some tfs /\ assoc (s_reward_functions T) kv = Some rfs /\
    assoc (s_observation_function T) kv = Some obf /\ assoc (s_terminating_function T) kv = Some tf /\
    space_of T ss = Ok (d_state_types d, d_state_colors d) /\ space_of T os = Ok (d_obs_types d, d_obs_colors d) /\
    d_actions d = match assoc (s_action_space T) kv with
                  | Some (CList l) => match strs l with Some names => indices names (t_actions T) | None => [] end
                  | _ => all_actions T end /\
    fn T FReset rf = Ok (d_reset d) /\
    fn T FTransition (CDict [(CStr (s_name T), CStr (s_chain T)); (CStr (s_transition_functions T), tfs)]) = Ok (d_transition d) /\
    fn T FReward (CDict [(CStr (s_name T), CStr (s_reduce_sum T)); (CStr (s_reward_functions T), rfs)]) = Ok (d_reward d) /\
    fn T FObservation obf = Ok (d_observation d) /\ fn T FTerminating tf = Ok (d_terminating d).
Proof.
  intros H. unfold build in H. destruct (negb (valid T (k_env T) c)); [discriminate|]. destruct c as [| | | | | |kv]; try discriminate.
  destruct (assoc (s_state_space T) kv) as [ss|] eqn:A0; [|discriminate]. destruct (assoc (s_observation_space T) kv) as [os|] eqn:A1; [|discriminate].
  destruct (assoc (s_reset_function T) kv) as [rf|] eqn:A2; [|discriminate]. destruct (assoc (s_transition_functions T) kv) as [tfs|] eqn:A3; [|discriminate].
  destruct (assoc (s_reward_functions T) kv) as [rfs|] eqn:A4; [|discriminate]. destruct (assoc (s_observation_function T) kv) as [obf|] eqn:A5; [|discriminate].
  destruct (assoc (s_terminating_function T) kv) as [tf|] eqn:A6; [|discriminate].
  destruct (space_of T ss) as [[st sc]|] eqn:S1; [|discriminate]. destruct (space_of T os) as [[ot oc]|] eqn:S2; [|discriminate].
  destruct (fn T FReset rf) as [c1|] eqn:F1; [|discriminate].
  destruct (fn T FTransition _) as [c2|] eqn:F2; [|discriminate]. destruct (fn T FReward _) as [c3|] eqn:F3; [|discriminate].
  destruct (fn T FObservation obf) as [c4|] eqn:F4; [|discriminate]. destruct (fn T FTerminating tf) as [c5|] eqn:F5; [|discriminate].
  injection H as <-. cbn [d_state_types d_state_colors d_obs_types d_obs_colors d_actions d_reset d_transition d_reward d_observation d_terminating].
  exists kv, ss, os, rf, tfs, rfs, obf, tf. repeat split; auto.
Qed.

(* the listed object types are registered ones, in the listed order *)
Lemma index_of_spec s l : forall i j, index_of s l i = Some j -> i <= j /\ nth_error l (Z.to_nat (j - i)) = Some s.
Proof.
  induction l as [|x r IH]; intros i j H; cbn [index_of] in H; [discriminate|].
  destruct (x =? s) eqn:E.
  - injection H as <-. apply Z.eqb_eq in E. subst. rewrite Z.sub_diag. split; [lia | reflexivity].
  - apply IH in H. destruct H as [A B]. split; [lia|]. replace (Z.to_nat (j - i)) with (S (Z.to_nat (j - (i + 1)))) by lia. exact B.
Qed.
Lemma object_types_spec names ts : object_types T names = Ok ts ->
  length ts = length names /\ forall n s, nth_error names n = Some s -> exists i, nth_error ts n = Some i /\ nth_error (t_objects T) (Z.to_nat i) = Some s.
Proof.
  revert ts. induction names as [|s r IH]; intros ts H; cbn [object_types] in H.
  - injection H as <-. split; [reflexivity|]. intros [|n] s H; discriminate.
  - destruct (is_custom s); [discriminate|]. destruct (index_of s (t_objects T) 0) as [i|] eqn:I; [|discriminate].
    destruct (object_types T r) as [t|] eqn:R; [|discriminate]. injection H as <-. destruct (IH t eq_refl) as [L N]. split; [cbn; lia|].
    intros [|n] s' Hn; cbn in Hn.
    + injection Hn as <-. exists i. split; [reflexivity|]. apply index_of_spec in I. rewrite Z.sub_0_r in I. tauto.
    + apply N in Hn. exact Hn.
Qed.

(* ---- malformed configurations are rejected by the schema layer ---- *)
Theorem build_unknown_key kv s v req opt : t_dict T (k_env T) = Some (req, opt, false) -> In (CStr s, v) kv ->
  zassoc s req = None -> zassoc s opt = None -> build T (CDict kv) = Err SchemaError.
Proof.
  intros H Hin R O. apply build_invalid. destruct (valid T (k_env T) (CDict kv)) eqn:V; [|reflexivity].
  apply (valid_dict_spec _ _ _ _ _ H) in V. destruct V as [_ B]. specialize (B _ _ Hin). cbn [key_kind] in B. rewrite R, O in B. discriminate.
Qed.
Theorem build_missing_key kv s k' req opt wild : t_dict T (k_env T) = Some (req, opt, wild) -> In (s, k') req -> has_key s kv = false ->
  build T (CDict kv) = Err SchemaError.
Proof.
  intros H Hin N. apply build_invalid. destruct (valid T (k_env T) (CDict kv)) eqn:V; [|reflexivity].
  apply (valid_dict_spec _ _ _ _ _ H) in V. destruct V as [A _]. rewrite (A _ _ Hin) in N. discriminate.
Qed.
Theorem build_bad_value kv s v k' req opt wild : t_dict T (k_env T) = Some (req, opt, wild) -> In (CStr s, v) kv ->
  key_kind req opt (CStr s) = Some k' -> valid T k' v = false -> build T (CDict kv) = Err SchemaError.
Proof.
  intros H Hin K Bad. apply build_invalid. destruct (valid T (k_env T) (CDict kv)) eqn:V; [|reflexivity].
  apply (valid_dict_spec _ _ _ _ _ H) in V. destruct V as [_ B]. specialize (B _ _ Hin). rewrite K in B. congruence.
Qed.
Theorem build_not_a_dict c req opt wild : t_dict T (k_env T) = Some (req, opt, wild) -> (forall kv, c <> CDict kv) -> build T c = Err SchemaError.
Proof. intros H N. apply build_invalid. eapply valid_dict_not; eauto. Qed.
(* one level down: a component entry with a malformed reserved parameter (a shape that is not a pair of positive integers, colours that
   are not colours, a nested entry without a name ...) invalidates the whole configuration *)
Theorem entry_bad_value kv s v k' req opt wild : t_dict T (k_fn T) = Some (req, opt, wild) -> In (CStr s, v) kv ->
  key_kind req opt (CStr s) = Some k' -> valid T k' v = false -> valid T (k_fn T) (CDict kv) = false.
Proof.
  intros H Hin K Bad. destruct (valid T (k_fn T) (CDict kv)) eqn:V; [|reflexivity].
  apply (valid_dict_spec _ _ _ _ _ H) in V. destruct V as [_ B]. specialize (B _ _ Hin). rewrite K in B. congruence.
Qed.
Theorem entry_without_name kv req opt wild k' : t_dict T (k_fn T) = Some (req, opt, wild) -> In (s_name T, k') req -> has_key (s_name T) kv = false ->
  valid T (k_fn T) (CDict kv) = false.
Proof.
  intros H Hin N. destruct (valid T (k_fn T) (CDict kv)) eqn:V; [|reflexivity].
  apply (valid_dict_spec _ _ _ _ _ H) in V. destruct V as [A _]. rewrite (A _ _ Hin) in N. discriminate.
Qed.
Theorem list_bad_element k ke l x : t_dict T k = None -> t_list T k = Some ke -> In x l -> valid T ke x = false -> valid T k (CList l) = false.
Proof.
  intros H1 H2 Hin Bad. rewrite (valid_list _ _ _ H1 H2). apply andb_false_iff. right. destruct (forallb (valid T ke) l) eqn:F; [|reflexivity].
  rewrite forallb_forall in F. rewrite (F x Hin) in Bad. discriminate.
Qed.
Theorem malformed_pair_rejected c : t_dict T KPair = None -> t_list T KPair = None ->
  (forall a b, c = CList [CInt a; CInt b] -> ~ (0 < a /\ 0 < b)) -> valid T KPair c = false.
Proof.
  intros H1 H2 N. rewrite (valid_leaf _ _ H1 H2). destruct (leaf_valid T KPair c) eqn:L; [|reflexivity].
  apply pair_spec in L. destruct L as (a & b & E & A & B). exfalso. exact (N a b E (conj A B)).
Qed.
Theorem malformed_names_rejected k allowed c : t_dict T k = None -> t_list T k = None ->
  (k = KColors /\ allowed = Some (t_colors T) \/ k = KActions /\ allowed = Some (t_actions T) \/ k = KObjects /\ allowed = None) ->
  (forall ss, c = CList (map CStr ss) -> ss = [] \/ ~ NoDup ss \/ match allowed with Some a => exists s, In s ss /\ ~ In s a | None => False end) ->
  valid T k c = false.
Proof.
  intros H1 H2 K N. rewrite (valid_leaf _ _ H1 H2).
  assert (E : leaf_valid T k c = str_list_ok allowed c) by (destruct K as [[-> ->]|[[-> ->]|[-> ->]]]; reflexivity).
  rewrite E. destruct (str_list_ok allowed c) eqn:L; [|reflexivity]. apply str_list_ok_spec in L. destruct L as (ss & Ec & Ne & Nd & Al).
  destruct (N ss Ec) as [X|[X|X]]; [contradiction | contradiction |]. destruct allowed; [|contradiction]. destruct X as (s & Hs & Hn). exfalso. exact (Hn (Al s Hs)).
Qed.

(* ---- parameters a component does not accept are ignored ---- *)
Lemma results_of_app f kv1 kv2 : results_of f (kv1 ++ kv2) = results_of f kv1 ++ results_of f kv2.
Proof. induction kv1 as [|[key v] r IH]; [reflexivity|]. cbn [app]. unfold results_of in *. destruct key; cbn; rewrite ?IH; reflexivity. Qed.
Lemma zassoc_app {A} s (l1 l2 : list (Z * A)) : zassoc s (l1 ++ l2) = match zassoc s l1 with Some x => Some x | None => zassoc s l2 end.
Proof. induction l1 as [|[k v] r IH]; [reflexivity|]. cbn [app zassoc]. destruct (k =? s); auto. Qed.
Lemma collect_ignores order results s x : ~ In s order -> collect order (results ++ [(s, x)]) = collect order results.
Proof.
  induction order as [|o r IH]; intros N; [reflexivity|]. cbn [collect]. rewrite zassoc_app. cbn [zassoc].
  assert (s =? o = false) as -> by (apply Z.eqb_neq; intros ->; apply N; left; reflexivity).
  rewrite IH by (intros Hin; apply N; right; exact Hin). destruct (zassoc o results); reflexivity.
Qed.
Lemma assoc_app s kv1 kv2 : assoc s (kv1 ++ kv2) = match assoc s kv1 with Some x => Some x | None => assoc s kv2 end.
Proof. induction kv1 as [|[k v] r IH]; [reflexivity|]. cbn [app assoc]. destruct (key_is s k); auto. Qed.
Lemma keys_of_app kv1 kv2 : keys_of (kv1 ++ kv2) = match keys_of kv1 with Ok a => match keys_of kv2 with Ok b => Ok (a ++ b) | Err e => Err e end | Err e => Err e end.
Proof.
  induction kv1 as [|[k v] r IH]; [cbn; destruct (keys_of kv2); reflexivity|]. cbn [app keys_of]. destruct k; try reflexivity.
  rewrite IH. destruct (keys_of r); [destruct (keys_of kv2)|]; reflexivity.
Qed.
Lemma has_key_app s kv1 kv2 : has_key s (kv1 ++ kv2) = has_key s kv1 || has_key s kv2.
Proof. unfold has_key. apply existsb_app. Qed.
Lemma zassoc_None_notin {A} s (l : list (Z * A)) : zassoc s l = None -> forall e, In e l -> fst e <> s.
Proof.
  induction l as [|[k v] r IH]; intros H e Hin; [destruct Hin|]. cbn [zassoc] in H. destruct (k =? s) eqn:E; [discriminate|].
  destruct Hin as [<-|Hin]; [cbn; apply Z.eqb_neq; exact E | auto].
Qed.

Lemma forallb_ext_in {A} (f g : A -> bool) l : (forall x, In x l -> f x = g x) -> forallb f l = forallb g l.
Proof. induction l as [|x r IH]; intros H; [reflexivity|]. cbn [forallb]. rewrite (H x (or_introl eq_refl)), IH; auto. intros y Hy. apply H. right. exact Hy. Qed.

Theorem fn_ignored_parameter fk kv s v req opt :
  t_dict T (k_fn T) = Some (req, opt, true) -> zassoc s req = None -> zassoc s opt = None ->      (* a key the schema has no rule for *)
  ~ In s (process_order T) -> s <> s_name T ->                                                        (* and the construction does not look at *)
  (forall name i r, assoc (s_name T) kv = Some (CStr name) -> lookup_row (t_registry T fk) name 0 = Some (i, r) ->
                    ~ In s (row_req r ++ row_opt r)) ->                                               (* and the component does not accept *)
  fn T fk (CDict (kv ++ [(CStr s, v)])) = fn T fk (CDict kv).
Proof.
  intros H R O NP NN NA.
  assert (V : valid T (k_fn T) (CDict (kv ++ [(CStr s, v)])) = valid T (k_fn T) (CDict kv)).
  { rewrite !(valid_dict _ _ _ _ _ H). rewrite forallb_app. cbn [forallb fst snd key_kind]. rewrite R, O, !andb_true_r. f_equal.
    apply forallb_ext_in. intros [k k'] Hin. cbn [fst]. rewrite has_key_app. unfold has_key at 2. cbn [existsb fst key_is].
    assert (s =? k = false) as ->; [|rewrite !orb_false_r; reflexivity].
    apply Z.eqb_neq. intros ->. exact (zassoc_None_notin _ _ R _ Hin eq_refl). }
  cbn [fn]. rewrite V. destruct (negb (valid T (k_fn T) (CDict kv))); [reflexivity|].
  rewrite results_of_app. unfold results_of at 2. rewrite collect_ignores by exact NP.
  unfold finish. destruct (collect (process_order T) _) as [children|]; [|reflexivity].
  rewrite assoc_app. cbn [assoc key_is]. assert (s =? s_name T = false) as Ens by (apply Z.eqb_neq; exact NN). rewrite Ens.
  destruct (assoc (s_name T) kv) as [[| | | |name| |]|] eqn:A; try reflexivity.
  rewrite keys_of_app. cbn [keys_of]. destruct (keys_of kv) as [ks|]; [|reflexivity]. destruct (is_custom name); [reflexivity|].
  rewrite filter_app, map_app. cbn [filter]. rewrite Ens. cbn [negb map].
  set (kw := map (fun k : Z => (k, tt)) (filter (fun k : Z => negb (k =? s_name T)) ks)).
  unfold factory. destruct (lookup_row (t_registry T fk) name 0) as [[i r]|] eqn:L; [|reflexivity].
  specialize (NA name i r eq_refl L).
  pose proof (@check_required_ignore unit kw [(s, tt)] [] (row_req r)) as C. rewrite !app_nil_r in C. rewrite C.
  2:{ intros e [<-|[]]. cbn [fst]. intros Hin. apply NA. apply in_or_app. left. exact Hin. }
  destruct (check_required kw (row_req r)); [|reflexivity]. unfold select. rewrite filter_app. cbn [filter fst].
  destruct (memz s (row_req r ++ row_opt r)) eqn:M; [apply memz_In in M; contradiction|]. rewrite app_nil_r. reflexivity.
Qed.

(* ---- the order in which a dictionary lists its entries is irrelevant to validation ---- *)
Lemma forallb_perm {A} (f : A -> bool) l l' : Permutation l l' -> forallb f l = forallb f l'.
Proof.
  induction 1 as [|x l l' _ IH|x y l|l l' l'' _ IH1 _ IH2]; cbn [forallb]; [reflexivity | rewrite IH; reflexivity | | congruence].
  rewrite !andb_assoc, (andb_comm (f y) (f x)). reflexivity.
Qed.
Lemma existsb_perm {A} (f : A -> bool) l l' : Permutation l l' -> existsb f l = existsb f l'.
Proof.
  induction 1 as [|x l l' _ IH|x y l|l l' l'' _ IH1 _ IH2]; cbn [existsb]; [reflexivity | rewrite IH; reflexivity | | congruence].
  rewrite !orb_assoc, (orb_comm (f y) (f x)). reflexivity.
Qed.
Theorem valid_dict_perm k req opt wild kv kv' : t_dict T k = Some (req, opt, wild) -> Permutation kv kv' ->
  valid T k (CDict kv) = valid T k (CDict kv').
Proof.
  intros H P. rewrite !(valid_dict _ _ _ _ _ H). f_equal; [|apply forallb_perm; exact P].
  apply forallb_ext_in. intros rk _. unfold has_key. apply existsb_perm. exact P.
Qed.
End S.

(* ======== which exceptions the configuration layer can raise ======== *)
Section Errors.
Variable T : tabs.
Definition expected_error (e : exn) : Prop := e = SchemaError \/ e = ValueError \/ e = TypeError.

(* induction over configuration trees (lists of trees, dictionaries of pairs of trees) *)
Lemma cfg_induction (P : cfg -> Prop) :
  P CNull -> (forall b, P (CBool b)) -> (forall z, P (CInt z)) -> P CFloat -> (forall s, P (CStr s)) ->
  (forall l, Forall P l -> P (CList l)) -> (forall kv, Forall (fun e => P (fst e) /\ P (snd e)) kv -> P (CDict kv)) -> forall c, P c.
Proof.
  intros HN HB HI HF HS HL HD. fix IH 1. intros [| |z| |s|l|kv]; [exact HN | apply HB | apply HI | exact HF | apply HS | |].
  - apply HL. induction l as [|x r IHl]; constructor; [apply IH | exact IHl].
  - apply HD. induction kv as [|[k v] r IHkv]; constructor; [split; apply IH | exact IHkv].
Qed.

Lemma each_err {A} (f : cfg -> res A) l e : each f l = Err e -> exists x, In x l /\ f x = Err e.
Proof.
  induction l as [|x r IH]; cbn [each]; [discriminate|]. destruct (f x) eqn:F.
  - destruct (each f r) eqn:R; [discriminate|]. intros E. injection E as <-. destruct (IH eq_refl) as (y & Hy & Fy). exists y. split; [right|]; auto.
  - intros E. injection E as <-. exists x. split; [left; reflexivity | exact F].
Qed.
Lemma collect_err order results e : collect order results = Err e -> exists s, In (s, Err e) results.
Proof.
  induction order as [|o r IH]; cbn [collect]; [discriminate|]. destruct (zassoc o results) as [[cs|e']|] eqn:Z.
  - destruct (collect r results) eqn:C; [discriminate|]. intros E. injection E as <-. apply IH. reflexivity.
  - intros E. injection E as <-. exists o. clear - Z. induction results as [|[k v] t IHr]; [discriminate|]. cbn [zassoc] in Z.
    destruct (k =? o) eqn:K; [apply Z.eqb_eq in K; subst; injection Z as ->; left; reflexivity | right; auto].
  - apply IH.
Qed.
Lemma results_of_In f kv s r : In (s, r) (results_of f kv) -> exists v, In (CStr s, v) kv /\ r = f s v.
Proof.
  induction kv as [|[k v] t IH]; [intros []|]. unfold results_of in *. destruct k; cbn; try (intros H; destruct (IH H) as (v' & Hv & E); exists v'; split; [right|]; assumption).
  intros [E|H]; [injection E as <- <-; exists v; split; [left|]; reflexivity | destruct (IH H) as (v' & Hv & E); exists v'; split; [right|]; assumption].
Qed.

Lemma keys_of_err kv e : keys_of kv = Err e -> e = TypeError.
Proof.
  induction kv as [|[k v] t IH]; cbn [keys_of]; [discriminate|].
  destruct k; try (intros E; injection E as <-; reflexivity). destruct (keys_of t); [discriminate|]. intros E. injection E as <-. apply IH. reflexivity.
Qed.

Definition fn_errors_ok (c : cfg) : Prop := forall fk e, fn T fk c = Err e -> expected_error e.
Theorem fn_errors : forall c, fn_errors_ok c /\ (forall l, c = CList l -> Forall fn_errors_ok l).
Proof.
  apply cfg_induction; try (intros; split; [intros fk e H; cbn [fn] in H; destruct (negb _) in H; injection H as <-; left; reflexivity | intros l E; discriminate]).
  - (* lists *) intros l F. split; [intros fk e H; cbn [fn] in H; destruct (negb _) in H; injection H as <-; left; reflexivity|].
    intros l' E. injection E as <-. rewrite Forall_forall in *. intros x Hx. exact (proj1 (F x Hx)).
  - (* dictionaries *) intros kv F. split; [|intros l E; discriminate]. intros fk e H. cbn [fn] in H.
    destruct (negb (valid T (k_fn T) (CDict kv))); [injection H as <-; left; reflexivity|]. unfold finish in H.
    destruct (collect (process_order T) (results_of (entry T (fn T)) kv)) as [children|e'] eqn:C.
    + destruct (assoc (s_name T) kv) as [[| | | |name| |]|]; try (injection H as <-; left; reflexivity).
      destruct (keys_of kv) as [ks|e''] eqn:K.
      * destruct (is_custom name); [injection H as <-; right; right; reflexivity|].
        destruct (factory _ name _) as [[i sel]|e3] eqn:Fa; [discriminate|]. injection H as <-. right; left. eapply factory_error_is_ValueError; eauto.
      * injection H as <-. right; right. eapply keys_of_err; eauto.
    + injection H as <-. apply collect_err in C. destruct C as (s & Hs). apply results_of_In in Hs. destruct Hs as (v & Hv & E).
      rewrite Forall_forall in F. destruct (F _ Hv) as [_ [Pv Lv]]. cbn [snd] in Pv, Lv. symmetry in E. unfold entry in E.
      destruct (s =? s_name T); [discriminate|].
      destruct ((s =? s_transition_functions T) || (s =? s_reward_functions T) || (s =? s_terminating_functions T)).
      { destruct v as [| | | | |l|]; try (injection E as <-; right; right; reflexivity).
        apply each_err in E. destruct E as (x & Hx & Ex). specialize (Lv l eq_refl). rewrite Forall_forall in Lv. exact (Lv x Hx _ _ Ex). }
      destruct (s =? s_reward_function T); [destruct (fn T FReward v) eqn:R; [discriminate | injection E as <-; exact (Pv _ _ R)]|].
      destruct (s =? s_visibility_function T); [destruct (fn T FVisibility v) eqn:R; [discriminate | injection E as <-; exact (Pv _ _ R)]|].
      destruct (s =? s_distance_function T); [destruct (leaf_valid T KDist v); [discriminate | injection E as <-; left; reflexivity]|].
      destruct (s =? s_area T).
      { unfold area_ok in E. destruct v as [| | | | |[|[| | | | |[|[| |a| | | |] [|[| |b| | | |] [|]]]|] [|[| | | | |[|[| |c'| | | |] [|[| |d| | | |] [|]]]|] [|]]]|];
          try (injection E as <-; right; right; reflexivity).
        destruct ((b <? a) || (d <? c')); [injection E as <-; right; left; reflexivity | discriminate]. }
      destruct (s =? s_object_type T); [|discriminate].
      destruct v; try (injection E as <-; right; right; reflexivity). destruct (memz s0 (t_objects T)); [discriminate | injection E as <-; right; left; reflexivity].
Qed.

Lemma object_types_errors names e : object_types T names = Err e -> expected_error e.
Proof.
  induction names as [|s r IH]; cbn [object_types]; [discriminate|]. destruct (is_custom s); [intros E; injection E as <-; right; right; reflexivity|].
  destruct (index_of s (t_objects T) 0); [|intros E; injection E as <-; right; left; reflexivity].
  destruct (object_types T r); [discriminate|]. intros E. injection E as <-. apply IH. reflexivity.
Qed.
Lemma space_of_errors c e : space_of T c = Err e -> expected_error e.
Proof.
  unfold space_of. destruct c as [| | | | | |kv]; try (intros E; injection E as <-; left; reflexivity).
  destruct (assoc (s_objects T) kv) as [[| | | | |os|]|]; try (intros E; injection E as <-; left; reflexivity).
  destruct (assoc (s_colors T) kv) as [[| | | | |cs|]|]; try (intros E; injection E as <-; left; reflexivity).
  destruct (strs os) as [on|]; [|intros E; injection E as <-; left; reflexivity].
  destruct (strs cs) as [cn|]; [|intros E; injection E as <-; left; reflexivity].
  destruct (object_types T on) eqn:O; [discriminate|]. intros E. injection E as <-. eapply object_types_errors; eauto.
Qed.
(* whatever is wrong with a configuration, construction fails with a schema error or a value error -- or with the error class that marks the
   inputs outside the modelled domain (custom module names, keys that are not strings, malformed areas) *)
Theorem build_errors c e : build T c = Err e -> expected_error e.
Proof.
  unfold build. destruct (negb (valid T (k_env T) c)); [intros E; injection E as <-; left; reflexivity|].
  destruct c as [| | | | | |kv]; try (intros E; injection E as <-; left; reflexivity).
  destruct (assoc (s_state_space T) kv) as [ss|]; [|intros E; injection E as <-; left; reflexivity].
  destruct (assoc (s_observation_space T) kv) as [os|]; [|intros E; injection E as <-; left; reflexivity].
  destruct (assoc (s_reset_function T) kv) as [rf|]; [|intros E; injection E as <-; left; reflexivity].
  destruct (assoc (s_transition_functions T) kv) as [tfs|]; [|intros E; injection E as <-; left; reflexivity].
  destruct (assoc (s_reward_functions T) kv) as [rfs|]; [|intros E; injection E as <-; left; reflexivity].
  destruct (assoc (s_observation_function T) kv) as [obf|]; [|intros E; injection E as <-; left; reflexivity].
  destruct (assoc (s_terminating_function T) kv) as [tf|]; [|intros E; injection E as <-; left; reflexivity].
  destruct (space_of T ss) as [[st sc]|e1] eqn:S1; [|intros E; injection E as <-; eapply space_of_errors; eauto].
  destruct (space_of T os) as [[ot oc]|e2] eqn:S2; [|intros E; injection E as <-; eapply space_of_errors; eauto].
  destruct (fn T FReset rf) eqn:F1; [|intros E; injection E as <-; exact (proj1 (fn_errors rf) _ _ F1)].
  destruct (fn T FTransition _) eqn:F2; [|intros E; injection E as <-; exact (proj1 (fn_errors _) _ _ F2)].
  destruct (fn T FReward _) eqn:F3; [|intros E; injection E as <-; exact (proj1 (fn_errors _) _ _ F3)].
  destruct (fn T FObservation obf) eqn:F4; [|intros E; injection E as <-; exact (proj1 (fn_errors obf) _ _ F4)].
  destruct (fn T FTerminating tf) eqn:F5; [|intros E; injection E as <-; exact (proj1 (fn_errors tf) _ _ F5)].
  discriminate.
Qed.
End Errors.

Section Objects.
Variable T : tabs.
(* an object type the registry does not know (or a custom one, which the model does not follow) never yields a space *)
Theorem object_types_known names ts : object_types T names = Ok ts -> forall s, In s names -> In s (t_objects T) /\ is_custom s = false.
Proof.
  revert ts. induction names as [|x r IH]; intros ts H s Hs; [destruct Hs|]. cbn [object_types] in H.
  destruct (is_custom x) eqn:Cu; [discriminate|]. destruct (index_of x (t_objects T) 0) as [i|] eqn:I; [|discriminate].
  destruct (object_types T r) as [t|] eqn:R; [|discriminate]. destruct Hs as [<-|Hs]; [|exact (IH t eq_refl s Hs)].
  split; [|exact Cu]. apply index_of_spec in I. destruct I as [_ N]. eapply nth_error_In; eauto.
Qed.
End Objects.

(* ======== the order of the top-level sections is irrelevant ======== *)
Section TopOrder.
Variable T : tabs.
(* python dictionaries have one entry per key *)
Definition unique_keys (kv : list (cfg * cfg)) : Prop := forall s, (length (filter (fun e => key_is s (fst e)) kv) <= 1)%nat.

Lemma assoc_In s kv v : assoc s kv = Some v -> exists k, In (k, v) kv /\ key_is s k = true.
Proof.
  induction kv as [|[k x] r IH]; cbn [assoc]; [discriminate|]. destruct (key_is s k) eqn:K.
  - intros E. injection E as <-. exists k. split; [left; reflexivity | exact K].
  - intros E. destruct (IH E) as (k' & Hin & Hk). exists k'. split; [right|]; assumption.
Qed.
Lemma filter_perm {A} (f : A -> bool) l l' : Permutation l l' -> Permutation (filter f l) (filter f l').
Proof.
  induction 1 as [|x l l' _ IH|x y l|l l' l'' _ IH1 _ IH2]; cbn [filter]; [constructor | destruct (f x); [constructor|]; exact IH | | eapply perm_trans; eauto].
  destruct (f x), (f y); try apply Permutation_refl. apply perm_swap.
Qed.
Lemma assoc_filter s kv : assoc s kv = match filter (fun e => key_is s (fst e)) kv with [] => None | e :: _ => Some (snd e) end.
Proof. induction kv as [|[k x] r IH]; [reflexivity|]. cbn [assoc filter fst]. destruct (key_is s k); [reflexivity | exact IH]. Qed.
Lemma assoc_perm s kv kv' : unique_keys kv -> Permutation kv kv' -> assoc s kv = assoc s kv'.
Proof.
  intros U P. rewrite !assoc_filter. pose proof (filter_perm (fun e => key_is s (fst e)) _ _ P) as FP. specialize (U s).
  destruct (filter (fun e => key_is s (fst e)) kv) as [|a [|b t]] eqn:F.
  - apply Permutation_nil in FP. rewrite FP. reflexivity.
  - apply Permutation_length_1_inv in FP. rewrite FP. reflexivity.
  - cbn in U. lia.
Qed.
Theorem build_section_order kv kv' req opt wild : t_dict T (k_env T) = Some (req, opt, wild) -> unique_keys kv -> Permutation kv kv' ->
  build T (CDict kv) = build T (CDict kv').
Proof.
  intros H U P. unfold build. rewrite (valid_dict_perm T _ _ _ _ _ _ H P).
  destruct (negb (valid T (k_env T) (CDict kv'))); [reflexivity|].
  rewrite !(assoc_perm _ _ _ U P). reflexivity.
Qed.
End TopOrder.
