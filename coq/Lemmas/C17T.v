(* C17: the tables regenerated from /repo (Gen/Schema.v: the live schema objects, enumerations, registries, and the shipped configuration
   trees) have the shape the general theorems of C17S.v assume, and every shipped tree passes validation and construction -- evaluated by
   the kernel on every run. *)
From Coq Require Import ZArith List Bool Lia.
From GV.Gen Require Import Signatures Schema.
From GV.Model Require Import Factory Schema.
From GV.Lemmas Require Import C17L C17S.
Import ListNotations.
Open Scope Z_scope.

Definition builds (c : cfg) : bool := match build gen_tabs c with Ok _ => true | Err _ => false end.
Lemma shipped_trees_build : (20 <= length shipped_cfgs)%nat /\ forallb builds shipped_cfgs = true.
Proof. split; [vm_compute; repeat constructor | vm_compute; reflexivity]. Qed.

(* the whole configuration: a dictionary with a closed set of keys; a component entry: a dictionary with `name`, open to other keys *)
Definition is_leaf (k : Z) : bool := match t_dict gen_tabs k, t_list gen_tabs k with None, None => true | _, _ => false end.
Lemma tables_shape :
  (exists req opt, t_dict gen_tabs (k_env gen_tabs) = Some (req, opt, false) /\
                   forallb (fun s => match zassoc s req with Some _ => true | None => false end)
                           [s_state_space gen_tabs; s_observation_space gen_tabs; s_reset_function gen_tabs; s_transition_functions gen_tabs;
                            s_reward_functions gen_tabs; s_observation_function gen_tabs; s_terminating_function gen_tabs] = true /\
                   zassoc (s_action_space gen_tabs) opt = Some KActions /\ zassoc (s_reset_function gen_tabs) req = Some (k_fn gen_tabs)) /\
  (exists req opt, t_dict gen_tabs (k_fn gen_tabs) = Some (req, opt, true) /\ req = [(s_name gen_tabs, KStr)] /\
                   zassoc (s_shape gen_tabs) opt = Some KPair /\ zassoc (s_layout gen_tabs) opt = Some KPair /\
                   zassoc (s_colors gen_tabs) opt = Some KColors /\ zassoc (s_object_type gen_tabs) opt = Some KStr /\
                   zassoc (s_reward_function gen_tabs) opt = Some (k_fn gen_tabs)) /\
  forallb is_leaf [KAny; KStr; KPair; KColors; KActions; KObjects; KDist] = true /\
  length (t_actions gen_tabs) = 8%nat /\ length (t_colors gen_tabs) = 5%nat /\ nodupz (t_objects gen_tabs) = true.
Proof.
  split; [eexists; eexists; split; [vm_compute; reflexivity | repeat split; vm_compute; reflexivity]|].
  split; [eexists; eexists; split; [vm_compute; reflexivity | repeat split; vm_compute; reflexivity]|].
  repeat split; vm_compute; reflexivity.
Qed.

(* non-vacuity of the "ignored parameters" theorem: the reset entry of a shipped configuration, plus a parameter nobody knows *)
Definition first_reset : list (cfg * cfg) :=
  match shipped_cfgs with
  | CDict kv :: _ => match assoc (s_reset_function gen_tabs) kv with Some (CDict e) => e | _ => [] end
  | _ => [] end.
Lemma ignored_parameter_example :
  first_reset <> [] /\
  fn gen_tabs FReset (CDict (first_reset ++ [(CStr 12345, CInt 3)])) = fn gen_tabs FReset (CDict first_reset) /\
  exists x, fn gen_tabs FReset (CDict first_reset) = Ok x.
Proof.
  split; [vm_compute; discriminate|]. split; [|vm_compute; eexists; reflexivity].
  destruct tables_shape as (_ & (req & opt & H & -> & _) & _).
  apply fn_ignored_parameter with (req := [(s_name gen_tabs, KStr)]) (opt := opt); auto.
  - vm_compute in H. injection H as <-. vm_compute. reflexivity.
  - vm_compute. intuition discriminate.
  - vm_compute. discriminate.
  - intros name i r A L. vm_compute in A. injection A as <-. vm_compute in L. injection L as <- <-. vm_compute. intuition discriminate.
Qed.
(* ... and of the rejection theorems: corrupting a shipped tree in each of the ways they describe yields SchemaError *)
Definition first_tree : list (cfg * cfg) := match shipped_cfgs with CDict kv :: _ => kv | _ => [] end.
Lemma rejection_examples :
  build gen_tabs (CDict (first_tree ++ [(CStr 12345, CInt 1)])) = Err SchemaError /\
  build gen_tabs (CDict (tl first_tree)) = Err SchemaError /\
  build gen_tabs (CList []) = Err SchemaError /\
  valid gen_tabs KPair (CList [CInt 3; CInt 0]) = false /\ valid gen_tabs KPair (CList [CInt 3]) = false /\ valid gen_tabs KPair (CList [CBool true; CInt 2]) = false.
Proof. repeat split; vm_compute; reflexivity. Qed.

(* the descriptors the HARNESS reads out of the shipped files (what it assembles "by hand" for the three-way trajectory comparison) are the
   descriptors the model's construction of the same trees yields: types, colours, actions, the five components and the members of the
   transition chain and of the reward sum, in order *)
Definition zlist_eqb (a b : list Z) : bool := (length a =? length b)%nat && forallb (fun p => fst p =? snd p) (combine a b).
Definition comp_index (c : comp) : Z := match c with Comp _ i _ _ => Z.of_nat i end.
Definition comp_children (c : comp) : list Z := match c with Comp _ _ _ ch => map comp_index ch end.
Definition described_ok (e : cfg * (list Z * list Z * list Z * list Z * list Z * list Z * list Z * list Z)) : bool :=
  let '(c, (st, sc, acts, ot, oc, comps, tkids, rkids)) := e in
  match build gen_tabs c with
  | Ok d => zlist_eqb (d_state_types d) st && zlist_eqb (d_state_colors d) sc && zlist_eqb (d_actions d) acts &&
            zlist_eqb (d_obs_types d) ot && zlist_eqb (d_obs_colors d) oc &&
            zlist_eqb (map comp_index [d_reset d; d_transition d; d_reward d; d_observation d; d_terminating d]) comps &&
            zlist_eqb (comp_children (d_transition d)) tkids && zlist_eqb (comp_children (d_reward d)) rkids
  | Err _ => false end.
Lemma shipped_described_ok : (20 <= length shipped_described)%nat /\ forallb described_ok shipped_described = true.
Proof. split; [vm_compute; repeat constructor | vm_compute; reflexivity]. Qed.

(* the sections of a shipped configuration in the reverse order: the same environment *)
Lemma section_order_example : build gen_tabs (CDict (rev first_tree)) = build gen_tabs (CDict first_tree) /\ builds (CDict first_tree) = true /\ (2 <= length first_tree)%nat.
Proof. repeat split; vm_compute; try reflexivity. repeat constructor. Qed.
