(* C19: the verified checker evaluated BY THE KERNEL on the ray fans the running code computes (Gen/Rays.v, regenerated from /repo on every
   run): a proof for these finite instances, re-done whenever the code changes. *)
From Coq Require Import ZArith List Bool.
From GV.Gen Require Import Rays.
From GV.Model Require Import Rays.
From GV.Lemmas Require Import C19L.
Import ListNotations.
Open Scope Z_scope.

Definition fan_entry_ok (e : area * pos * list ray) : bool := let '(a, o, rs) := e in acontains a o && fan_ok a o rs.
Lemma rays_in_use_ok : fans_in_use <> [] /\ forallb fan_entry_ok fans_in_use = true.
Proof. split; [discriminate | vm_compute; reflexivity]. Qed.
Lemma rays_small_ok : (100 <= length fans_small)%nat /\ forallb fan_entry_ok fans_small = true.
Proof. split; [vm_compute; repeat constructor | vm_compute; reflexivity]. Qed.
(* unfolding the boolean: every listed fan satisfies the contract *)
Lemma fans_good l : forallb fan_entry_ok l = true -> forall a o rs, In (a, o, rs) l ->
  acontains a o = true /\ (forall r, In r rs -> ray_good a o r) /\ (forall p, acontains a p = true -> exists r, In r rs /\ In p r).
Proof.
  intros H a o rs Hin. rewrite forallb_forall in H. specialize (H _ Hin). cbn in H. apply andb_true_iff in H. destruct H as [H1 H2].
  apply fan_ok_spec in H2. tauto.
Qed.
