(* C19: meaning of the ray checkers, and the consequence for the ray-traced view *)
From Coq Require Import ZArith List Bool Lia.
From GV.Model Require Import Rays.
From GV.Lemmas Require Import GridL GeomL C06L C16L.
Import ListNotations.
Open Scope Z_scope.

Lemma memP_In p l : memP p l = true <-> In p l.
Proof.
  unfold memP. rewrite existsb_exists. split.
  - intros (q & Hq & E). apply pos_eqb_eq in E. now subst.
  - intros H. exists p. split; auto. now apply pos_eqb_eq.
Qed.
Lemma nodup_pos_spec r : nodup_pos r = true <-> NoDup r.
Proof.
  induction r as [|p t IH]; cbn [nodup_pos]; [split; [constructor | auto]|].
  rewrite andb_true_iff, negb_true_iff, IH. split.
  - intros [H1 H2]. constructor; auto. intros Hin. apply memP_In in Hin. congruence.
  - intros H. inversion H as [|? ? Hn Hd]; subst. split; auto. destruct (memP p t) eqn:E; auto. apply memP_In in E. contradiction.
Qed.
(* consecutive cells share an edge or a corner (and differ) *)
Definition adjacent (p q : pos) : Prop := Z.abs (fst p - fst q) <= 1 /\ Z.abs (snd p - snd q) <= 1 /\ p <> q.
Lemma cheb_adj_spec p q : cheb_adj p q = true <-> adjacent p q.
Proof.
  unfold cheb_adj, adjacent. rewrite !andb_true_iff, !Z.leb_le, negb_true_iff. split.
  - intros [[H1 H2] H3]. repeat split; auto. intros ->. rewrite (proj2 (pos_eqb_eq q q) eq_refl) in H3. discriminate.
  - intros (H1 & H2 & H3). repeat split; auto. destruct (pos_eqb p q) eqn:E; auto. apply pos_eqb_eq in E. contradiction.
Qed.
Lemma steps_ok_spec r : steps_ok r = true <-> forall i a b, nth_error r i = Some a -> nth_error r (S i) = Some b -> adjacent a b.
Proof.
  induction r as [|a [|b t] IH].
  - split; [intros _ [|i] x y H; discriminate | reflexivity].
  - split; [intros _ [|i] x y H1 H2; cbn in H2; [discriminate | destruct i; discriminate] | reflexivity].
  - cbn [steps_ok]. rewrite andb_true_iff, cheb_adj_spec, IH. split.
    + intros [H0 H] [|i] x y H1 H2; cbn in H1, H2.
      * injection H1 as <-. injection H2 as <-. exact H0.
      * exact (H i x y H1 H2).
    + intros H. split; [apply (H 0%nat a b); reflexivity | intros i x y H1 H2; exact (H (S i) x y H1 H2)].
Qed.
Lemma on_border_spec a p : on_border a p = true <->
  acontains a p = true /\ (fst p = ymin a \/ fst p = ymax a \/ snd p = xmin a \/ snd p = xmax a).
Proof. unfold on_border. rewrite andb_true_iff, !orb_true_iff, !Z.eqb_eq. tauto. Qed.

(* a ray accepted by the checker: starts at its origin cell, stays inside the area, visits each cell at most once, advances between
   adjacent (edge- or corner-sharing) cells, ends on the area's border *)
Record ray_good (a : area) (o : pos) (r : ray) : Prop := {
  rg_start : nth_error r 0 = Some o;
  rg_inside : forall c, In c r -> acontains a c = true;
  rg_nodup : NoDup r;
  rg_steps : forall i x y, nth_error r i = Some x -> nth_error r (S i) = Some y -> adjacent x y;
  rg_border : acontains a (last r o) = true /\
              (fst (last r o) = ymin a \/ fst (last r o) = ymax a \/ snd (last r o) = xmin a \/ snd (last r o) = xmax a)
}.
Lemma ray_ok_spec a o r : ray_ok a o r = true <-> ray_good a o r.
Proof.
  unfold ray_ok. rewrite !andb_true_iff, forallb_forall, nodup_pos_spec, steps_ok_spec, on_border_spec. split.
  - intros ((((H1 & H2) & H3) & H4) & H5). constructor; auto.
    destruct r as [|p t]; [discriminate|]. cbn in H1. apply pos_eqb_eq in H1. now subst.
  - intros [H1 H2 H3 H4 H5]. split; [split; [split; [split|]|]|]; auto.
    destruct r as [|p t]; [discriminate|]. cbn in H1. injection H1 as ->. cbn. now apply pos_eqb_eq.
Qed.
(* a fan accepted by the checker: every ray is good and the rays together reach every cell of the area *)
Lemma covered_spec rays p : covered rays p = true <-> exists r, In r rays /\ In p r.
Proof.
  unfold covered. rewrite existsb_exists. split; intros (r & H1 & H2); exists r; split; auto; now apply memP_In.
Qed.
Lemma fan_ok_spec a o rays : fan_ok a o rays = true <->
  rays <> [] /\ (forall r, In r rays -> ray_good a o r) /\ (forall p, acontains a p = true -> exists r, In r rays /\ In p r).
Proof.
  unfold fan_ok. rewrite !andb_true_iff, !forallb_forall, negb_true_iff. split.
  - intros [[H0 H1] H2]. split; [destruct rays; [discriminate | discriminate]|]. split.
    + intros r Hr. apply ray_ok_spec. auto.
    + intros p Hp. apply covered_spec. apply H2. now apply apositions_In.
  - intros (H0 & H1 & H2). split; [split|].
    + destruct rays; [contradiction | reflexivity].
    + intros r Hr. apply ray_ok_spec. auto.
    + intros p Hp. apply covered_spec. apply H2. now apply apositions_In.
Qed.

(* consequence: with a fan that covers the grid's area, an unobstructed ray-traced view shows everything *)
Lemma lit_on_all_transparent g r k : (forall c, transparent g c = true) -> lit_on g r k.
Proof. intros H i _ c _. apply H. Qed.
Lemma unobstructed_shows_everything g rays o : fan_ok (garea g) o rays = true ->
  (forall c, in_grid g c = true -> o_blocks_vision (lookupH g c) = false) ->
  forall p, in_grid g p = true -> visible (raytracing g rays) p = true.
Proof.
  intros Hf Ht p Hp. apply fan_ok_spec in Hf. destruct Hf as (_ & Hg & Hc).
  apply rt_eq_lit. split; auto. destruct (Hc p Hp) as (r & Hr & Hin).
  apply In_nth_error in Hin. destruct Hin as [k Hk]. exists r, k. repeat split; auto.
  intros i Hi c Hci. unfold transparent. apply negb_true_iff. apply Ht.
  apply (rg_inside _ _ _ (Hg r Hr)). eapply nth_error_In; eauto.
Qed.
(* the rays' contract assumed by C06 (every cell of every ray lies in the view) follows from the checker *)
Lemma fan_ok_rays_inside g o rays : fan_ok (garea g) o rays = true -> rays_inside g rays.
Proof. intros Hf r c Hr Hc. apply fan_ok_spec in Hf. destruct Hf as (_ & Hg & _). exact (rg_inside _ _ _ (Hg r Hr) c Hc). Qed.
(* and the agent's own cell is lit whatever the grid contains *)
Lemma fan_ok_agent_visible g o rays : fan_ok (garea g) o rays = true -> in_grid g o = true -> visible (raytracing g rays) o = true.
Proof.
  intros Hf Ho. apply rt_eq_lit. split; auto. apply fan_ok_spec in Hf. destruct Hf as (Hne & Hg & _).
  destruct rays as [|r t]; [contradiction|]. apply (rt_agent_visible g (r :: t) o r); [left; auto | apply (rg_start _ _ _ (Hg r (or_introl eq_refl)))].
Qed.

(* non-vacuity: a hand-written fan on a 2x2 area *)
Lemma C19_example_holds :
  let a := mkA 0 1 0 1 in
  fan_ok a (1, 0) [[(1, 0); (1, 1)]; [(1, 0); (0, 1)]; [(1, 0); (0, 0)]] = true /\
  fan_ok a (1, 0) [[(1, 0); (1, 1)]; [(1, 0); (0, 0)]] = false /\       (* (0,1) not reached *)
  ray_ok a (1, 0) [(1, 0)] = true /\ ray_ok a (1, 0) [(1, 0); (1, 0)] = false /\ ray_ok (mkA 0 2 0 2) (0, 0) [(0, 0); (0, 2)] = false.
Proof. vm_compute. repeat split; reflexivity. Qed.
