(* C20 (and the last clause of C04): the outer / gym / state-wrapper layers are faithful views of the wrapped InnerEnv machine *)
From Coq Require Import ZArith List Bool Lia.
From GV.Model Require Import Gym.
From GV.Lemmas Require Import GridL RandL C04L C15L.
Import ListNotations.
Open Scope Z_scope.

Lemma Leaf_catch_all {A} (m : Rand A) x : Leaf (catch_all m) x <-> exists r, x = Ok r /\ Leaf m r.
Proof.
  induction m as [a|e0|g r k IH]; cbn [catch_all].
  - rewrite Leaf_Ret. split; [intros ->; eexists; split; [reflexivity | constructor] | intros (r & -> & H); apply Leaf_Ret in H; now subst].
  - rewrite Leaf_Ret. split; [intros ->; eexists; split; [reflexivity | constructor] | intros (r & -> & H); apply Leaf_Raise in H; now subst].
  - split.
    + intros H. inversion H as [| |g' r' k' ans x' Hv Hl]; subst. apply IH in Hl. destruct Hl as (r0 & -> & Hl). eexists; split; [reflexivity | econstructor; eauto].
    + intros (r0 & -> & H). inversion H as [| |g' r' k' ans x' Hv Hl]; subst. econstructor; eauto. apply IH. eauto.
Qed.

(* int_to_action: a valid index selects the i-th action; python indexing otherwise *)
Lemma py_nth_in {A} (l : list A) i : 0 <= i < Z.of_nat (length l) -> py_nth l i = match nth_error l (Z.to_nat i) with Some a => Ok a | None => Err IndexError end.
Proof. intros H. unfold py_nth. rewrite py_index_in by lia. reflexivity. Qed.
Lemma py_nth_valid {A} (l : list A) i a : 0 <= i < Z.of_nat (length l) -> (py_nth l i = Ok a <-> nth_error l (Z.to_nat i) = Some a).
Proof.
  intros H. rewrite py_nth_in by auto. destruct (nth_error l (Z.to_nat i)) eqn:E.
  - split; intros E'; injection E' as ->; reflexivity.
  - apply nth_error_None in E. lia.
Qed.
Lemma py_nth_out {A} (l : list A) i : i < - Z.of_nat (length l) \/ Z.of_nat (length l) <= i -> py_nth l i = Err IndexError.
Proof.
  intros H. unfold py_nth, py_index.
  destruct ((0 <=? i) && (i <? Z.of_nat (length l))) eqn:E1; [apply andb_true_iff in E1; rewrite Z.leb_le, Z.ltb_lt in E1; lia|].
  destruct ((- Z.of_nat (length l) <=? i) && (i <? 0)) eqn:E2; [apply andb_true_iff in E2; rewrite Z.leb_le, Z.ltb_lt in E2; lia|]. reflexivity.
Qed.

Ltac inj H := injection H; clear H; intros; subst.
Section Spec.
Variables (e : gridworld) (debug : bool).

(* inner operations through catch_all: success moves the machine, failure leaves it *)
Lemma Leaf_caught {A} (m : Rand A) (r : res A) : Leaf (catch_all m) (Ok r) <-> Leaf m r.
Proof. rewrite Leaf_catch_all. split; [intros (r0 & E & H); injection E as ->; auto | eauto]. Qed.
Lemma Leaf_caught_elim {A} (m : Rand A) (r : res A) : Leaf (catch_all m) (Ok r) -> Leaf m r.  Proof. apply Leaf_caught. Qed.
Lemma Leaf_caught_intro {A} (m : Rand A) (r : res A) : Leaf m r -> Leaf (catch_all m) (Ok r).  Proof. apply Leaf_caught. Qed.

(* OuterEnv.observation = the chosen representation of InnerEnv.observation (one memoised read of the inner machine) *)
Lemma outer_obs_spec g g' r : Leaf (outer_obs e debug g) (Ok (g', Ok r)) <->
  exists k ts cs m' o, ge_orep g = Some (k, ts, cs) /\ Leaf (istep e debug (ge_inner g) OpReadObs) (Ok (m', OutObs o)) /\
    g' = set_inner g m' /\ r = convert_obs k ts cs o.
Proof.
  unfold outer_obs. destruct (ge_orep g) as [[[k ts] cs]|] eqn:Eo.
  - rewrite Leaf_bind_Ok. split.
    + intros (x & Hx & H). destruct x as [[m' out]|x]; [|apply Leaf_Ret in H; discriminate]. apply Leaf_caught_elim in Hx.
      destruct out; try (apply Leaf_Ret in H; discriminate). apply Leaf_Ret in H. inj H. exists k, ts, cs, m', o. auto.
    + intros (k' & ts' & cs' & m' & o & E & H & -> & ->). inj E. exists (Ok (m', OutObs o)). split; [now apply Leaf_caught_intro | constructor].
  - split; [intros H; apply Leaf_Ret in H; discriminate | intros (k & ts & cs & m' & o & E & _); discriminate].
Qed.
Lemma outer_obs_no_repr g x : ge_orep g = None -> Leaf (outer_obs e debug g) x <-> x = Ok (g, Err RuntimeError).
Proof. intros E. unfold outer_obs. rewrite E. apply Leaf_Ret. Qed.
(* OuterEnv.state = the chosen representation of the inner state; no randomness, no effect *)
Lemma outer_state_spec g r : outer_state g = Ok r <->
  exists k ts cs s, ge_srep g = Some (k, ts, cs) /\ ie_state (ge_inner g) = Some s /\ convert_state k ts cs s = Ok r.
Proof.
  unfold outer_state. destruct (ge_srep g) as [[[k ts] cs]|]; [|split; [discriminate | intros (k & ts & cs & s & E & _); discriminate]].
  destruct (ie_state (ge_inner g)) as [s|].
  - split; [intros H; exists k, ts, cs, s; auto | intros (k' & ts' & cs' & s' & E1 & E2 & H); injection E1 as <- <- <-; injection E2 as <-; auto].
  - split; [discriminate | intros (k' & ts' & cs' & s' & _ & E2 & _); discriminate].
Qed.

(* a fresh read after a step / reset observes the new state *)
Lemma read_after_set s' m' o : Leaf (istep e debug (mkIE (Some s') None) OpReadObs) (Ok (m', OutObs o)) <->
  Leaf (functional_observation e debug s') (Ok o) /\ m' = mkIE (Some s') (Some o).
Proof.
  rewrite istep_obs_fresh, Leaf_bind_Ok. split.
  - intros (o' & Ho & H). apply Leaf_Ret in H. inj H. auto.
  - intros (Ho & ->). exists o. split; [auto | constructor].
Qed.

(* GymEnvironment.step(i): executes the i-th action (python list indexing), returns the representation of the observation of the
   POST-step state together with the inner reward and termination flag *)
Lemma gym_step_spec g i g' orp rw t : Leaf (gym_step e debug g i) (Ok (g', Ok (orp, rw, t))) <->
  exists a s s' o k ts cs, py_nth (gw_actions e) i = Ok a /\ ie_state (ge_inner g) = Some s /\
    Leaf (functional_step e debug s a) (Ok (s', rw, t)) /\ Leaf (functional_observation e debug s') (Ok o) /\
    ge_orep g = Some (k, ts, cs) /\ orp = convert_obs k ts cs o /\ g' = set_inner g (mkIE (Some s') (Some o)).
Proof.
  unfold gym_step. destruct (py_nth (gw_actions e) i) as [a|x] eqn:Ea.
  2:{ split; [intros H; apply Leaf_Ret in H; discriminate | intros (a & s & s' & o & k & ts & cs & E & _); discriminate]. }
  rewrite Leaf_bind_Ok. split.
  - intros (x & Hx & H). destruct x as [[m1 out]|x]; [|apply Leaf_Ret in H; discriminate]. apply Leaf_caught_elim in Hx.
    destruct out as [|rw' t'| |]; try (apply Leaf_Ret in H; discriminate).
    apply Leaf_bind_Ok in H. destruct H as ([g1 ro] & H1 & H2). apply Leaf_Ret in H2.
    destruct ro as [o1|]; cbn [rmap] in H2; [|discriminate]. inj H2.
    cbn [istep] in Hx. apply Leaf_bind_Ok in Hx. destruct Hx as (s & Hs & Hx). apply Leaf_bind_Ok in Hx. destruct Hx as ([[s' r0] t0] & Hf & Hx).
    apply Leaf_Ret in Hx. inj Hx.
    unfold the_state in Hs. destruct (ie_state (ge_inner g)) as [s0|] eqn:Es; [apply Leaf_Ret in Hs; inj Hs|inversion Hs].
    apply outer_obs_spec in H1. destruct H1 as (k & ts & cs & m' & o & Eo & Hr & -> & ->). cbn [set_inner ge_inner ge_orep] in *.
    apply read_after_set in Hr. destruct Hr as [Ho ->]. do 7 eexists. repeat split; eauto.
  - intros (a' & s & s' & o & k & ts & cs & E & Es & Hf & Ho & Eo & -> & ->). inj E.
    exists (Ok (mkIE (Some s') None, OutStep rw t)). split.
    + apply Leaf_caught_intro. cbn [istep]. apply Leaf_bind_Ok. exists s. split; [unfold the_state; rewrite Es; constructor|].
      apply Leaf_bind_Ok. exists (s', rw, t). split; [auto | constructor].
    + apply Leaf_bind_Ok. exists (set_inner g (mkIE (Some s') (Some o)), Ok (convert_obs k ts cs o)). split; [|constructor].
      apply outer_obs_spec. exists k, ts, cs, (mkIE (Some s') (Some o)), o. cbn [set_inner ge_inner ge_orep]. repeat split; auto.
      apply read_after_set. auto.
Qed.
(* an index outside [-n, n) raises IndexError and changes nothing; a rejected / failing inner step changes nothing *)
Lemma gym_step_bad_index g i x : i < - Z.of_nat (length (gw_actions e)) \/ Z.of_nat (length (gw_actions e)) <= i ->
  Leaf (gym_step e debug g i) x <-> x = Ok (g, Err IndexError).
Proof. intros H. unfold gym_step. rewrite (py_nth_out _ _ H). apply Leaf_Ret. Qed.

(* GymEnvironment.reset: the representation of the observation of the FRESH state *)
Lemma gym_reset_spec g g' orp : Leaf (gym_reset e debug g) (Ok (g', Ok orp)) <->
  exists s o k ts cs, Leaf (functional_reset e debug) (Ok s) /\ Leaf (functional_observation e debug s) (Ok o) /\
    ge_orep g = Some (k, ts, cs) /\ orp = convert_obs k ts cs o /\ g' = set_inner g (mkIE (Some s) (Some o)).
Proof.
  unfold gym_reset. rewrite Leaf_bind_Ok. split.
  - intros (x & Hx & H). destruct x as [[m1 out]|x]; [|apply Leaf_Ret in H; discriminate]. apply Leaf_caught_elim in Hx.
    cbn [istep] in Hx. apply Leaf_bind_Ok in Hx. destruct Hx as (s & Hs & Hx). apply Leaf_Ret in Hx. inj Hx.
    apply outer_obs_spec in H. destruct H as (k & ts & cs & m' & o & Eo & Hr & -> & ->). cbn [set_inner ge_inner ge_orep] in *.
    apply read_after_set in Hr. destruct Hr as [Ho ->]. do 5 eexists. repeat split; eauto.
  - intros (s & o & k & ts & cs & Hs & Ho & Eo & -> & ->). exists (Ok (mkIE (Some s) None, OutUnit)). split.
    + apply Leaf_caught_intro. cbn [istep]. apply Leaf_bind_Ok. exists s. split; [auto | constructor].
    + apply outer_obs_spec. exists k, ts, cs, (mkIE (Some s) (Some o)), o. cbn [set_inner ge_inner ge_orep]. repeat split; auto.
      apply read_after_set. auto.
Qed.

(* GymStateWrapper.step: the state representation of the post-step state, the same reward and flag, and the observation
   representation passed through info *)
Lemma wrapper_step_spec g i g' srp rw t orp : Leaf (gstep e debug g (WStep i)) (Ok (g', Ok (WOStep srp rw t orp))) <->
  Leaf (gym_step e debug g i) (Ok (g', Ok (orp, rw, t))) /\ outer_state g' = Ok srp.
Proof.
  cbn [gstep]. rewrite Leaf_bind_Ok. split.
  - intros ([g1 r] & H1 & H2). destruct r as [[[o rw'] t']|x]; apply Leaf_Ret in H2; [|discriminate].
    destruct (outer_state g1) as [sr|] eqn:Es; cbn [rmap] in H2; [|discriminate]. inj H2. auto.
  - intros [H1 H2]. exists (g', Ok (orp, rw, t)). split; [auto|]. rewrite H2. constructor.
Qed.
Lemma wrapper_reset_spec g g' srp : Leaf (gstep e debug g WReset) (Ok (g', Ok (GOState srp))) <->
  (exists orp, Leaf (gym_reset e debug g) (Ok (g', Ok orp))) /\ outer_state g' = Ok srp.
Proof.
  cbn [gstep]. rewrite Leaf_bind_Ok. split.
  - intros ([g1 r] & H1 & H2). destruct r as [o|x]; apply Leaf_Ret in H2; [|discriminate].
    destruct (outer_state g1) as [sr|] eqn:Es; cbn [rmap] in H2; [|discriminate]. inj H2. eauto.
  - intros [[orp H1] H2]. exists (g', Ok orp). split; [auto|]. rewrite H2. constructor.
Qed.
(* the gym step / reads are exactly the outer ones; the gym layer adds only the index -> action translation *)
Lemma gym_obs_is_outer g : gstep e debug g GObs = gstep e debug g OObs.  Proof. reflexivity. Qed.
Lemma gym_state_is_outer g : gstep e debug g GState = gstep e debug g OState.  Proof. reflexivity. Qed.
Lemma wrapper_obs_is_state g : gstep e debug g WObs = gstep e debug g GState.  Proof. reflexivity. Qed.

(* switching representation: afterwards the conversion and the advertised space are those of the named representation *)
Lemma set_orep_spec g name g' : Leaf (gstep e debug g (GSetORep name)) (Ok (g', Ok GOUnit)) <->
  exists sp, orep_of name (gw_ospace e) = Ok sp /\ g' = mkGE (ge_inner g) (ge_srep g) (Some sp).
Proof.
  cbn [gstep]. destruct (orep_of name (gw_ospace e)) as [sp|x]; rewrite Leaf_Ret.
  - split; [intros E; inj E; eauto | intros (sp' & E & ->); inj E; reflexivity].
  - split; [discriminate | intros (sp' & E & _); discriminate].
Qed.
Lemma set_srep_spec g name g' : Leaf (gstep e debug g (GSetSRep name)) (Ok (g', Ok GOUnit)) <->
  exists sp, srep_of name (gw_sspace e) = Ok sp /\ g' = mkGE (ge_inner g) (Some sp) (ge_orep g).
Proof.
  cbn [gstep]. destruct (srep_of name (gw_sspace e)) as [sp|x]; rewrite Leaf_Ret.
  - split; [intros E; inj E; eauto | intros (sp' & E & ->); inj E; reflexivity].
  - split; [discriminate | intros (sp' & E & _); discriminate].
Qed.
Lemma set_rep_unknown g x : Leaf (gstep e debug g (GSetORep None)) x <-> x = Ok (g, Err ValueError).
Proof. cbn [gstep orep_of]. apply Leaf_Ret. Qed.

(* reachable gym machines wrap reachable inner machines: every C04 theorem applies below the gym layer *)
Inductive greachable : genv -> Prop :=
| greach_init sr orp : greachable (mkGE ie_init sr orp)
| greach_op g op g' out : greachable g -> Leaf (gstep e debug g op) (Ok (g', out)) -> greachable g'.
Lemma outer_obs_reach g g' r : reachable e debug (ge_inner g) -> Leaf (outer_obs e debug g) (Ok (g', r)) -> reachable e debug (ge_inner g').
Proof.
  intros R H. unfold outer_obs in H. destruct (ge_orep g) as [[[k ts] cs]|]; [|apply Leaf_Ret in H; injection H as -> _; auto].
  apply Leaf_bind_Ok in H. destruct H as (x & Hx & H). destruct x as [[m' out]|x].
  - apply Leaf_caught_elim in Hx. destruct out; apply Leaf_Ret in H; injection H as -> _; auto. cbn [set_inner ge_inner]. eapply reach_op; eauto.
  - apply Leaf_Ret in H. inj H. auto.
Qed.
Lemma inner_op_reach g op (g' : genv) (r : res (ienv * iout)) :
  reachable e debug (ge_inner g) -> Leaf (catch_all (istep e debug (ge_inner g) op)) (Ok r) ->
  match r with Ok (m', _) => reachable e debug m' | Err _ => True end.
Proof. intros R H. apply Leaf_caught_elim in H. destruct r as [[m' out]|]; auto. eapply reach_op; eauto. Qed.
Lemma gym_reset_reach g g' r : reachable e debug (ge_inner g) -> Leaf (gym_reset e debug g) (Ok (g', r)) -> reachable e debug (ge_inner g').
Proof.
  intros R H. unfold gym_reset in H. apply Leaf_bind_Ok in H. destruct H as (x & Hx & H).
  pose proof (inner_op_reach g OpReset g x R Hx) as R1. destruct x as [[m' out]|x].
  - eapply outer_obs_reach; [|exact H]. exact R1.
  - apply Leaf_Ret in H. inj H. auto.
Qed.
Lemma gym_step_reach g i g' r : reachable e debug (ge_inner g) -> Leaf (gym_step e debug g i) (Ok (g', r)) -> reachable e debug (ge_inner g').
Proof.
  intros R H. unfold gym_step in H. destruct (py_nth (gw_actions e) i) as [a|x]; [|apply Leaf_Ret in H; injection H as -> _; auto].
  apply Leaf_bind_Ok in H. destruct H as (x & Hx & H).
  pose proof (inner_op_reach g (OpStep a) g x R Hx) as R1. destruct x as [[m' out]|x].
  - destruct out; try (apply Leaf_Ret in H; injection H as -> _; auto).
    apply Leaf_bind_Ok in H. destruct H as ([g1 ro] & H1 & H2). apply Leaf_Ret in H2. inj H2.
    eapply outer_obs_reach; [|exact H1]. exact R1.
  - apply Leaf_Ret in H. inj H. auto.
Qed.
Lemma gstep_reach g op g' out : reachable e debug (ge_inner g) -> Leaf (gstep e debug g op) (Ok (g', out)) -> reachable e debug (ge_inner g').
Proof.
  intros R H. destruct op; cbn [gstep] in H.
  - apply Leaf_bind_Ok in H. destruct H as (x & Hx & H). pose proof (inner_op_reach g op g x R Hx) as R1.
    destruct x as [[m' o]|x]; apply Leaf_Ret in H; injection H as -> _; auto.
  - apply Leaf_bind_Ok in H. destruct H as (x & Hx & H). pose proof (inner_op_reach g OpReset g x R Hx) as R1.
    destruct x as [[m' o]|x]; apply Leaf_Ret in H; injection H as -> _; auto.
  - apply Leaf_bind_Ok in H. destruct H as (x & Hx & H). pose proof (inner_op_reach g (OpStep a) g x R Hx) as R1.
    destruct x as [[m' o]|x]; apply Leaf_Ret in H; injection H as -> _; auto.
  - apply Leaf_bind_Ok in H. destruct H as ([g1 r] & H1 & H2). apply Leaf_Ret in H2. inj H2. eapply outer_obs_reach; eauto.
  - apply Leaf_Ret in H. inj H. auto.
  - apply Leaf_bind_Ok in H. destruct H as ([g1 r] & H1 & H2). apply Leaf_Ret in H2. inj H2. eapply gym_reset_reach; eauto.
  - apply Leaf_bind_Ok in H. destruct H as ([g1 r] & H1 & H2). apply Leaf_Ret in H2. inj H2. eapply gym_step_reach; eauto.
  - apply Leaf_bind_Ok in H. destruct H as ([g1 r] & H1 & H2). apply Leaf_Ret in H2. inj H2. eapply outer_obs_reach; eauto.
  - apply Leaf_Ret in H. inj H. auto.
  - destruct (srep_of name (gw_sspace e)); apply Leaf_Ret in H; injection H as -> _; auto.
  - destruct (orep_of name (gw_ospace e)); apply Leaf_Ret in H; injection H as -> _; auto.
  - apply Leaf_bind_Ok in H. destruct H as ([g1 r] & H1 & H2). pose proof (gym_reset_reach _ _ _ R H1) as R1.
    destruct r; apply Leaf_Ret in H2; injection H2 as -> _; auto.
  - apply Leaf_bind_Ok in H. destruct H as ([g1 r] & H1 & H2). pose proof (gym_step_reach _ _ _ _ R H1) as R1.
    destruct r as [[[o rw] t]|]; apply Leaf_Ret in H2; injection H2 as -> _; auto.
  - apply Leaf_Ret in H. inj H. auto.
Qed.
Lemma greachable_inner g : greachable g -> reachable e debug (ge_inner g).
Proof. induction 1 as [sr orp|g op g' out Hg IH H]; [constructor | eapply gstep_reach; eauto]. Qed.

(* never stale at the outer / gym layer: whatever the history (any mix of inner, outer, gym and wrapper operations), an observation
   representation handed out is the representation of an observation of the CURRENT inner state *)
Lemma outer_obs_never_stale g g' r : greachable g -> Leaf (outer_obs e debug g) (Ok (g', Ok r)) ->
  exists k ts cs s o, ge_orep g = Some (k, ts, cs) /\ ie_state (ge_inner g) = Some s /\ ie_state (ge_inner g') = Some s /\
    Leaf (functional_observation e debug s) (Ok o) /\ r = convert_obs k ts cs o.
Proof.
  intros R H. apply outer_obs_spec in H. destruct H as (k & ts & cs & m' & o & Eo & Hr & -> & ->).
  destruct (observation_never_stale e debug _ _ _ (greachable_inner g R) Hr) as (s & E1 & E2 & Ho).
  exists k, ts, cs, s, o. cbn [set_inner ge_inner]. auto.
Qed.
End Spec.

(* outputs lie inside the advertised space (C15 applied at the gym layer) *)
Lemma gym_obs_in_advertised k ts cs o : space_ok ts cs -> member_state ts cs o ->
  let r := convert_obs k ts cs o in
  Forall (Forall (fun v => within v (advertised (k, ts, cs)))) (or_grid r) /\
  Forall (Forall (fun v => 0 <= v <= 1)) (or_agent_id r) /\ within (or_item r) (advertised (k, ts, cs)).
Proof. exact (convert_obs_in_space k ts cs o). Qed.

(* sortu: sorted(set(l)) -- duplicate-free, same elements *)
Lemma insertu_In x l y : In y (insertu x l) <-> y = x \/ In y l.
Proof.
  induction l as [|z t IH]; cbn [insertu]; [cbn; intuition|].
  destruct (x <? z) eqn:E1; [cbn; intuition|]. destruct (x =? z) eqn:E2.
  - apply Z.eqb_eq in E2. subst. cbn. intuition.
  - cbn [In]. rewrite IH. intuition.
Qed.
Lemma sortu_In l y : In y (sortu l) <-> In y l.
Proof. induction l as [|x t IH]; cbn [sortu fold_right]; [tauto|]. fold (sortu t). rewrite insertu_In, IH. cbn. intuition. Qed.
Definition lb (x : Z) (l : list Z) : Prop := forall y, In y l -> x < y.
Inductive ssorted : list Z -> Prop := ss_nil : ssorted [] | ss_cons x l : lb x l -> ssorted l -> ssorted (x :: l).
Lemma insertu_sorted x l : ssorted l -> ssorted (insertu x l).
Proof.
  induction 1 as [|z t Hlb Hs IH]; cbn [insertu]; [constructor; [intros y []|constructor]|].
  destruct (x <? z) eqn:E1.
  - apply Z.ltb_lt in E1. constructor; [|constructor; auto]. intros y [<-|Hy]; [auto | specialize (Hlb y Hy); lia].
  - destruct (x =? z) eqn:E2; [constructor; auto|]. apply Z.ltb_ge in E1. apply Z.eqb_neq in E2.
    constructor; auto. intros y Hy. apply insertu_In in Hy. destruct Hy as [->|Hy]; [lia | auto].
Qed.
Lemma sortu_sorted l : ssorted (sortu l).
Proof. induction l; cbn [sortu fold_right]; [constructor | apply insertu_sorted; auto]. Qed.
Lemma ssorted_NoDup l : ssorted l -> NoDup l.
Proof. induction 1 as [|x l Hlb Hs IH]; constructor; auto. intros Hin. specialize (Hlb x Hin). lia. Qed.
(* the (types, colours) a representation is built from form a valid space whenever the declared indices are non-negative *)
Lemma space_ok_sortu l1 l2 : Forall (fun t => 0 <= t) l1 -> Forall (fun c => 0 <= c) l2 -> space_ok (sortu l1) (sortu l2).
Proof.
  intros H1 H2. rewrite Forall_forall in H1, H2. unfold space_ok. repeat split.
  - apply Forall_forall. intros t Hin. apply H1. now apply sortu_In.
  - apply Forall_forall. intros t Hin. apply H2. now apply sortu_In.
  - apply ssorted_NoDup, sortu_sorted.
  - apply ssorted_NoDup, sortu_sorted.
Qed.
Lemma orep_space_ok name sp k ts cs : orep_of name sp = Ok (k, ts, cs) ->
  Forall (fun t => 0 <= t) (os_types sp) -> Forall (fun c => 0 <= c) (os_colors sp) -> space_ok ts cs.
Proof.
  unfold orep_of. destruct name as [k0|]; [|discriminate]. intros E Ht Hc. injection E as _ E1 E2. rewrite <- E1, <- E2.
  apply (space_ok_sortu (ty_NoneGridObject :: ty_Hidden :: os_types sp) (0 :: os_colors sp)).
  - repeat constructor; auto; vm_compute; discriminate.
  - constructor; auto. lia.
Qed.
Lemma srep_space_ok name sp k ts cs : srep_of name sp = Ok (k, ts, cs) ->
  Forall (fun t => 0 <= t) (ss_types sp) -> Forall (fun c => 0 <= c) (ss_colors sp) -> space_ok ts cs.
Proof.
  unfold srep_of. destruct name as [k0|]; [|discriminate]. destruct (state_repr_allowed (ss_types sp)); [|discriminate].
  intros E Ht Hc. injection E as _ E1 E2. rewrite <- E1, <- E2.
  apply (space_ok_sortu (ty_NoneGridObject :: ss_types sp) (0 :: ss_colors sp)).
  - constructor; auto; vm_compute; discriminate.
  - constructor; auto. lia.
Qed.
