(* C18: the algebra of quarter turns and rigid motions, over unbounded Z *)
From Coq Require Import ZArith List Bool Lia.
From GV.Model Require Import Base.
Import ListNotations.
Open Scope Z_scope.

Ltac dori := repeat match goal with o : ori |- _ => destruct o | o : Orientation |- _ => destruct o end.

(* ---- orientations form the cyclic group C4 with FORWARD neutral ---- *)
Lemma omul_assoc a b c : omul a (omul b c) = omul (omul a b) c.  Proof. dori; reflexivity. Qed.
Lemma omul_F_l a : omul FORWARD a = a.  Proof. dori; reflexivity. Qed.
Lemma omul_F_r a : omul a FORWARD = a.  Proof. dori; reflexivity. Qed.
Lemma omul_oneg_r a : omul a (oneg a) = FORWARD.  Proof. dori; reflexivity. Qed.
Lemma omul_oneg_l a : omul (oneg a) a = FORWARD.  Proof. dori; reflexivity. Qed.
Lemma omul_comm a b : omul a b = omul b a.  Proof. dori; reflexivity. Qed.
Fixpoint opow (a : ori) (n : nat) : ori := match n with O => FORWARD | S k => omul a (opow a k) end.
Lemma generated_by_R a : exists n, (n < 4)%nat /\ a = opow RIGHT n.
Proof. destruct a; [exists 0%nat | exists 2%nat | exists 3%nat | exists 1%nat]; split; auto; lia. Qed.
Lemma order_four a : opow a 4 = FORWARD.  Proof. dori; reflexivity. Qed.
Lemma R_has_order_4 : opow RIGHT 1 <> FORWARD /\ opow RIGHT 2 <> FORWARD /\ opow RIGHT 3 <> FORWARD.
Proof. repeat split; discriminate. Qed.
Lemma oneg_unique a b : omul a b = FORWARD -> b = oneg a.  Proof. dori; cbn; congruence. Qed.
Lemma Orientation_value_inj a b : Orientation_value a = Orientation_value b -> a = b.
Proof. dori; cbn; congruence. Qed.

(* ---- linear, isometric action on positions ---- *)
Ltac dpos := repeat match goal with p : pos |- _ => destruct p as [? ?] end.
Ltac geom := dori; dpos; unfold tact, orot, padd, psub, pneg, manhattan, sqdist; cbn [omat ovec omul oneg fst snd tpos tori]; try (f_equal; lia); try lia.
Lemma orot_add o p q : orot o (padd p q) = padd (orot o p) (orot o q).  Proof. geom. Qed.
Lemma orot_neg o p : orot o (pneg p) = pneg (orot o p).  Proof. geom. Qed.
Lemma orot_scale o k p : orot o (k * fst p, k * snd p) = (k * fst (orot o p), k * snd (orot o p)).  Proof. geom. Qed.
Lemma orot_F p : orot FORWARD p = p.  Proof. geom. Qed.
Lemma orot_mul a b p : orot (omul a b) p = orot a (orot b p).  Proof. geom. Qed.
Lemma orot_manhattan o p q : manhattan (orot o p) (orot o q) = manhattan p q.  Proof. geom. Qed.
Lemma orot_sqdist o p q : sqdist (orot o p) (orot o q) = sqdist p q.  Proof. geom. Qed.
Lemma orot_inj o p q : orot o p = orot o q -> p = q.
Proof. dori; dpos; unfold orot; cbn [omat fst snd]; intros H; pose proof (f_equal fst H) as H1; pose proof (f_equal snd H) as H2; cbn [fst snd] in H1, H2; f_equal; lia. Qed.
Lemma orot_inv o p : orot (oneg o) (orot o p) = p.  Proof. geom. Qed.
Lemma ovec_rot o d : ovec (omul o d) = orot o (ovec d).  Proof. dori; reflexivity. Qed.
Lemma ovec_unit o : manhattan (ovec o) (0, 0) = 1.  Proof. dori; reflexivity. Qed.

(* ---- transforms: a group acting on positions ---- *)
Lemma transform_eq s t : tpos s = tpos t -> tori s = tori t -> s = t.
Proof. destruct s, t; cbn; congruence. Qed.
Lemma tmul_assoc r s t : tmul r (tmul s t) = tmul (tmul r s) t.
Proof. destruct r as [p a], s as [q b], t as [u c]. unfold tmul; cbn [tpos tori]. f_equal; [geom | apply omul_assoc]. Qed.
Lemma tmul_id_l t : tmul tid t = t.
Proof. destruct t as [p a]. unfold tmul, tid; cbn [tpos tori]. f_equal; [geom | apply omul_F_l]. Qed.
Lemma tmul_id_r t : tmul t tid = t.
Proof. destruct t as [p a]. unfold tmul, tid; cbn [tpos tori]. f_equal; [geom | apply omul_F_r]. Qed.
Lemma tmul_tneg_r t : tmul t (tneg t) = tid.
Proof. destruct t as [p a]. unfold tmul, tneg, tid; cbn [tpos tori]. f_equal; [geom | apply omul_oneg_r]. Qed.
Lemma tmul_tneg_l t : tmul (tneg t) t = tid.
Proof. destruct t as [p a]. unfold tmul, tneg, tid; cbn [tpos tori]. f_equal; [geom | apply omul_oneg_l]. Qed.
Lemma tact_mul s t p : tact (tmul s t) p = tact s (tact t p).
Proof. destruct s as [q a], t as [u b]. unfold tact, tmul; cbn [tpos tori]. geom. Qed.
Lemma tact_id p : tact tid p = p.  Proof. unfold tact, tid; cbn [tpos tori]. geom. Qed.
Lemma tact_inv t p : tact (tneg t) (tact t p) = p.
Proof. rewrite <- tact_mul, tmul_tneg_l. apply tact_id. Qed.
Lemma tact_isometry t p q : manhattan (tact t p) (tact t q) = manhattan p q /\ sqdist (tact t p) (tact t q) = sqdist p q.
Proof. destruct t as [u a]. unfold tact; cbn [tpos tori]. split; geom. Qed.
Lemma tact_ori_mul s t o : tact_ori (tmul s t) o = tact_ori s (tact_ori t o).
Proof. unfold tact_ori, tmul; cbn [tpos tori]. symmetry; apply omul_assoc. Qed.

(* ---- areas: transforming an area transforms exactly its set of positions ---- *)
Lemma mk_area_ok y0 y1 x0 x1 : y0 <= y1 -> x0 <= x1 -> mk_area y0 y1 x0 x1 = Ok (mkA y0 y1 x0 x1).
Proof. intros. unfold mk_area. destruct (y0 >? y1) eqn:E1; [lia|]. destruct (x0 >? x1) eqn:E2; [lia|]. reflexivity. Qed.
Lemma area_ok_spec a : area_ok a = true <-> ymin a <= ymax a /\ xmin a <= xmax a.
Proof. unfold area_ok. rewrite andb_true_iff, !Z.leb_le. tauto. Qed.
Lemma acontains_spec a p : acontains a p = true <-> ymin a <= fst p <= ymax a /\ xmin a <= snd p <= xmax a.
Proof. unfold acontains. rewrite !andb_true_iff, !Z.leb_le. tauto. Qed.
Ltac area_simp := cbn [oarea abound_pick abound_get fst snd ymin ymax xmin xmax].
Ltac area_simp_in H := cbn [oarea abound_pick abound_get fst snd ymin ymax xmin xmax] in H.
Lemma orot_area_total o a : area_ok a = true -> exists a', orot_area o a = Ok a' /\ area_ok a' = true.
Proof.
  intros H. apply area_ok_spec in H. destruct a as [y0 y1 x0 x1]; cbn [ymin ymax xmin xmax] in H.
  destruct o; unfold orot_area; area_simp; rewrite mk_area_ok by lia; eexists; split; eauto; apply area_ok_spec; area_simp; lia.
Qed.
Lemma orot_area_contains o a a' p : area_ok a = true -> orot_area o a = Ok a' ->
  acontains a' (orot o p) = acontains a p.
Proof.
  intros H E. apply area_ok_spec in H. destruct a as [y0 y1 x0 x1], p as [y x]; cbn [ymin ymax xmin xmax] in H.
  destruct o; unfold orot_area in E; area_simp_in E; rewrite mk_area_ok in E by lia; injection E as <-;
    apply eq_true_iff_eq; rewrite !acontains_spec; unfold orot; cbn [omat fst snd ymin ymax xmin xmax]; lia.
Qed.
Lemma orot_area_shape o a a' : area_ok a = true -> orot_area o a = Ok a' ->
  match o with FORWARD | BACKWARD => aheight a' = aheight a /\ awidth a' = awidth a
             | LEFT | RIGHT => aheight a' = awidth a /\ awidth a' = aheight a end.
Proof.
  intros H E. apply area_ok_spec in H. destruct a as [y0 y1 x0 x1]; cbn [ymin ymax xmin xmax] in H.
  destruct o; unfold orot_area in E; area_simp_in E; rewrite mk_area_ok in E by lia; injection E as <-;
    unfold aheight, awidth; cbn [ymin ymax xmin xmax]; lia.
Qed.
Lemma tact_area_total t a : area_ok a = true -> exists a', tact_area t a = Ok a' /\ area_ok a' = true.
Proof.
  intros H. destruct (orot_area_total (tori t) a H) as (a1 & E1 & H1). unfold tact_area. rewrite E1. cbn [rbind].
  apply area_ok_spec in H1. unfold padd_area. rewrite mk_area_ok by lia. eexists; split; eauto. apply area_ok_spec; cbn [ymin ymax xmin xmax]; lia.
Qed.
Lemma tact_area_contains t a a' p : area_ok a = true -> tact_area t a = Ok a' ->
  acontains a' (tact t p) = acontains a p.
Proof.
  intros H E. destruct (orot_area_total (tori t) a H) as (a1 & E1 & H1). unfold tact_area in E. rewrite E1 in E. cbn [rbind] in E.
  rewrite <- (orot_area_contains (tori t) a a1 p H E1).
  apply area_ok_spec in H1. unfold padd_area in E. rewrite mk_area_ok in E by lia. injection E as <-.
  apply eq_true_iff_eq. rewrite !acontains_spec. unfold tact, padd; cbn [fst snd ymin ymax xmin xmax]. lia.
Qed.
(* exactly its set: every position of the image area is the image of a position of the area *)
Lemma tact_area_onto t a a' q : area_ok a = true -> tact_area t a = Ok a' ->
  acontains a' q = true -> exists p, acontains a p = true /\ tact t p = q.
Proof.
  intros H E Hq. exists (tact (tneg t) q). rewrite <- (tact_area_contains t a a' _ H E).
  rewrite <- tact_mul, tmul_tneg_r, tact_id. auto.
Qed.

(* ---- the tentative next position agrees with the pose algebra ---- *)
Lemma next_position_spec p o a :
  next_position p o a = match move_dir a with Some d => tact (mkT p o) (ovec d) | None => p end.
Proof. unfold next_position, tact. destruct (move_dir a); auto. cbn. now rewrite ovec_rot. Qed.
Lemma next_position_move p o a : is_move a = true -> manhattan (next_position p o a) p = 1.
Proof. intros H. unfold next_position. destruct a; try discriminate; cbn [move_dir]; geom. Qed.
Lemma next_position_nomove p o a : is_move a = false -> next_position p o a = p.
Proof. intros H. unfold next_position. destruct a; try discriminate; reflexivity. Qed.
