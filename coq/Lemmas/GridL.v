(* Interface lemmas for grids: after these, proofs use only lookupH / gset / in_grid. *)
From Coq Require Import ZArith List Bool Lia.
From GV.Model Require Import Grid.
Import ListNotations.
Open Scope Z_scope.

Lemma upd_length {A} (l : list A) k a : length (upd l k a) = length l.
Proof. revert k; induction l as [|x t IH]; intros [|k]; cbn; auto. Qed.
Lemma nth_error_upd_same {A} (l : list A) k a : (k < length l)%nat -> nth_error (upd l k a) k = Some a.
Proof. revert k; induction l as [|x t IH]; intros [|k] H; cbn in *; try lia; auto. apply IH; lia. Qed.
Lemma nth_error_upd_other {A} (l : list A) k k' a : k <> k' -> nth_error (upd l k a) k' = nth_error l k'.
Proof. revert k k'; induction l as [|x t IH]; intros [|k] [|k'] H; cbn; auto; try lia; try (apply IH; lia). Qed.
Lemma upd_nth_error_None {A} (l : list A) k a : nth_error l k = None -> upd l k a = l.
Proof. revert k; induction l as [|x t IH]; intros [|k] H; cbn in *; auto; try discriminate. f_equal; auto. Qed.

Lemma in_grid_spec g p : in_grid g p = true <-> 0 <= fst p < gheight g /\ 0 <= snd p < gwidth g.
Proof. unfold in_grid, acontains, garea; cbn. rewrite !andb_true_iff, !Z.leb_le. lia. Qed.
Lemma in_grid_false g p : in_grid g p = false <-> ~ (0 <= fst p < gheight g /\ 0 <= snd p < gwidth g).
Proof. rewrite <- in_grid_spec. destruct (in_grid g p); split; intros; try congruence; tauto. Qed.

Lemma wf_gridb_spec g : wf_gridb g = true <-> wf_grid g.
Proof.
  unfold wf_gridb, wf_grid, gheight. rewrite !andb_true_iff, negb_true_iff, Z.eqb_neq, forallb_forall, Forall_forall, Z.ltb_lt.
  split.
  - intros [[H1 H2] H3]. repeat split; auto.
    + intro; subst; cbn in *; lia.
    + intros r Hr. apply Z.eqb_eq; auto.
  - intros (H1 & H2 & H3). repeat split; auto.
    + destruct g; [congruence | cbn; lia].
    + intros r Hr. apply Z.eqb_eq; auto.
Qed.
Lemma wf_row g r : wf_grid g -> In r g -> Z.of_nat (length r) = gwidth g.
Proof. intros (_ & H & _) Hr. rewrite Forall_forall in H; auto. Qed.
Lemma wf_height_pos g : wf_grid g -> 0 < gheight g.
Proof. intros (H & _). unfold gheight. destruct g; [congruence | cbn; lia]. Qed.

Lemma py_index_in n i : 0 <= i < n -> py_index n i = Some (Z.to_nat i).
Proof. intros H. unfold py_index. replace ((0 <=? i) && (i <? n)) with true; auto. symmetry; rewrite andb_true_iff, Z.leb_le, Z.ltb_lt; lia. Qed.

(* the cell at an in-grid position *)
Lemma getn_in g p : wf_grid g -> in_grid g p = true -> exists o, getn g (Z.to_nat (fst p)) (Z.to_nat (snd p)) = Some o.
Proof.
  intros Hw Hin. apply in_grid_spec in Hin. unfold getn, gheight in *.
  destruct (nth_error g (Z.to_nat (fst p))) as [r|] eqn:E.
  - assert (In r g) by (eapply nth_error_In; eauto).
    pose proof (wf_row _ _ Hw H) as Hl.
    destruct (nth_error r (Z.to_nat (snd p))) eqn:E2; eauto.
    apply nth_error_None in E2. lia.
  - apply nth_error_None in E. lia.
Qed.
Lemma gget_in g p : wf_grid g -> in_grid g p = true -> gget g p = Some (lookupH g p).
Proof. intros Hw Hin. unfold lookupH, gget. rewrite Hin. destruct (getn_in g p Hw Hin) as [o ->]. reflexivity. Qed.
Lemma lookupH_out g p : in_grid g p = false -> lookupH g p = Hidden.
Proof. intros H. unfold lookupH, gget. now rewrite H. Qed.

Lemma grid_get_in g p : wf_grid g -> in_grid g p = true -> grid_get g p = Ok (lookupH g p).
Proof.
  intros Hw Hin. pose proof (gget_in g p Hw Hin) as Hg. unfold gget in Hg. rewrite Hin in Hg.
  apply in_grid_spec in Hin. unfold grid_get, py_nth, getn, gheight in *.
  rewrite py_index_in by lia.
  destruct (nth_error g (Z.to_nat (fst p))) as [r|] eqn:E; [|discriminate]. cbn [rbind].
  assert (In r g) by (eapply nth_error_In; eauto).
  pose proof (wf_row _ _ Hw H) as Hl.
  rewrite py_index_in by lia. now rewrite Hg.
Qed.

Lemma gheight_gset g p o : gheight (gset g p o) = gheight g.
Proof. unfold gset, gheight. destruct (in_grid g p); auto. destruct (nth_error g _); auto. now rewrite upd_length. Qed.
Lemma gwidth_gset g p o : gwidth (gset g p o) = gwidth g.
Proof.
  unfold gset. destruct (in_grid g p); auto. destruct (nth_error g (Z.to_nat (fst p))) as [r|] eqn:E; auto.
  destruct g as [|r0 t]; auto. destruct (Z.to_nat (fst p)); cbn in *; auto. injection E as ->. now rewrite upd_length.
Qed.
Lemma in_grid_gset g p o q : in_grid (gset g p o) q = in_grid g q.
Proof. unfold in_grid, garea. now rewrite gheight_gset, gwidth_gset. Qed.
Lemma wf_gset g p o : wf_grid g -> wf_grid (gset g p o).
Proof.
  intros Hw. pose proof Hw as (Hne & Hf & Hpos). unfold wf_grid. rewrite gwidth_gset. repeat split; auto.
  - intro E. apply (f_equal (@length _)) in E. pose proof (gheight_gset g p o) as Hh. unfold gheight in Hh.
    rewrite E in Hh. cbn in Hh. destruct g; [congruence | cbn in Hh; lia].
  - unfold gset. destruct (in_grid g p); auto. destruct (nth_error g (Z.to_nat (fst p))) as [r|] eqn:E; auto.
    rewrite Forall_forall in *. intros r' Hr'.
    apply In_nth_error in Hr'. destruct Hr' as [k Hk].
    destruct (Nat.eq_dec (Z.to_nat (fst p)) k) as [<-|Hne'].
    + rewrite nth_error_upd_same in Hk by (apply nth_error_Some; congruence). injection Hk as <-.
      rewrite upd_length. apply Hf. eapply nth_error_In; eauto.
    + rewrite nth_error_upd_other in Hk by auto. apply Hf. eapply nth_error_In; eauto.
Qed.

Lemma lookupH_gset_same g p o : wf_grid g -> in_grid g p = true -> lookupH (gset g p o) p = o.
Proof.
  intros Hw Hin. unfold lookupH, gget. rewrite in_grid_gset, Hin. unfold gset. rewrite Hin.
  pose proof Hin as Hin'. apply in_grid_spec in Hin'. unfold gheight in Hin'.
  destruct (nth_error g (Z.to_nat (fst p))) as [r|] eqn:E.
  - unfold getn. rewrite nth_error_upd_same by lia. rewrite nth_error_upd_same; auto.
    assert (In r g) by (eapply nth_error_In; eauto). pose proof (wf_row _ _ Hw H). lia.
  - apply nth_error_None in E. lia.
Qed.
Lemma lookupH_gset_other g p q o : p <> q -> lookupH (gset g p o) q = lookupH g q.
Proof.
  intros Hne. unfold lookupH, gget. rewrite in_grid_gset. destruct (in_grid g q) eqn:Hq; auto.
  unfold gset. destruct (in_grid g p) eqn:Hp; auto.
  destruct (nth_error g (Z.to_nat (fst p))) as [r|] eqn:E; auto.
  apply in_grid_spec in Hq, Hp. unfold getn.
  destruct (Nat.eq_dec (Z.to_nat (fst p)) (Z.to_nat (fst q))) as [Ey|Ny].
  - rewrite <- Ey. rewrite nth_error_upd_same by (apply nth_error_Some; congruence). rewrite E.
    rewrite nth_error_upd_other; auto. intro Ex. apply Hne. destruct p, q; cbn in *. f_equal; lia.
  - rewrite nth_error_upd_other by auto. reflexivity.
Qed.
Lemma lookupH_gset g p q o : wf_grid g -> in_grid g p = true ->
  lookupH (gset g p o) q = if pos_eqb p q then o else lookupH g q.
Proof.
  intros Hw Hin. destruct (pos_eqb p q) eqn:E.
  - unfold pos_eqb in E. apply andb_true_iff in E. destruct E as [E1 E2]. apply Z.eqb_eq in E1, E2.
    assert (p = q) by (destruct p, q; cbn in *; congruence). subst. now apply lookupH_gset_same.
  - apply lookupH_gset_other. intro; subst. unfold pos_eqb in E. rewrite !Z.eqb_refl in E. discriminate.
Qed.

Lemma grid_set_in g p o : wf_grid g -> in_grid g p = true -> grid_set g p o = Ok (gset g p o).
Proof.
  intros Hw Hin. pose proof Hin as Hin'. apply in_grid_spec in Hin'. unfold grid_set, py_nth, py_set, gset, gheight in *.
  rewrite Hin. rewrite py_index_in by lia.
  destruct (nth_error g (Z.to_nat (fst p))) as [r|] eqn:E.
  - cbn [rbind]. assert (In r g) by (eapply nth_error_In; eauto). pose proof (wf_row _ _ Hw H).
    repeat (rewrite py_index_in by lia; cbn [rbind]). reflexivity.
  - apply nth_error_None in E. lia.
Qed.

Lemma grid_swap_in g p q : wf_grid g -> in_grid g p = true -> in_grid g q = true ->
  grid_swap g p q = Ok (gset (gset g p (lookupH g q)) q (lookupH g p)).
Proof.
  intros Hw Hp Hq. unfold grid_swap. rewrite !grid_get_in by auto. cbn [rbind].
  rewrite grid_set_in by auto. cbn [rbind]. rewrite grid_set_in; auto using wf_gset. now rewrite in_grid_gset.
Qed.

(* positions *)
Lemma zrange_n_In lo n x : In x (zrange_n lo n) <-> lo <= x < lo + Z.of_nat n.
Proof. revert lo; induction n as [|n IH]; intros lo; cbn [zrange_n In]; [lia|]. rewrite IH. lia. Qed.
Lemma zrange_In lo hi x : In x (zrange lo hi) <-> lo <= x < hi.
Proof. unfold zrange. rewrite zrange_n_In. lia. Qed.
Lemma zrange_n_NoDup lo n : NoDup (zrange_n lo n).
Proof. revert lo; induction n as [|n IH]; intros lo; cbn; constructor; auto. rewrite zrange_n_In. lia. Qed.
Lemma apositions_In a p : In p (apositions a) <-> acontains a p = true.
Proof.
  unfold apositions, acontains. rewrite in_flat_map. rewrite !andb_true_iff, !Z.leb_le. split.
  - intros (y & Hy & Hp). apply in_map_iff in Hp. destruct Hp as (x & <- & Hx). apply zrange_In in Hy, Hx. cbn. lia.
  - intros H. exists (fst p). split; [apply zrange_In; lia|]. apply in_map_iff. exists (snd p).
    split; [destruct p; reflexivity | apply zrange_In; lia].
Qed.
Lemma gpositions_In g p : In p (gpositions g) <-> in_grid g p = true.
Proof. apply apositions_In. Qed.


From GV.Model Require Import Trans.
Lemma positions_where_ok g f ps : wf_grid g -> (forall p, In p ps -> in_grid g p = true) ->
  positions_where g f ps = Ok (filter (fun p => f (lookupH g p)) ps).
Proof.
  intros Hw. induction ps as [|p t IH]; intros Hin; cbn [positions_where filter]; auto.
  rewrite grid_get_in by (auto; apply Hin; left; auto). cbn [rbind].
  rewrite IH by (intros q Hq; apply Hin; right; auto). cbn [rbind]. reflexivity.
Qed.
Lemma floor_neighbours_ok g ps : wf_grid g ->
  floor_neighbours g ps = Ok (filter (fun p => in_grid g p && is_ty ty_Floor (lookupH g p)) ps).
Proof.
  intros Hw. induction ps as [|p t IH]; cbn [floor_neighbours filter]; auto.
  destruct (in_grid g p) eqn:E; cbn [andb]; auto.
  rewrite grid_get_in by auto. cbn [rbind]. rewrite IH. cbn [rbind]. reflexivity.
Qed.

Lemma NoDup_app_intro {A} (l1 l2 : list A) : NoDup l1 -> NoDup l2 -> (forall x, In x l1 -> ~ In x l2) -> NoDup (l1 ++ l2).
Proof.
  induction l1 as [|a t IH]; cbn; intros H1 H2 Hd; auto.
  inversion H1; subst. constructor.
  - rewrite in_app_iff. intros [H|H]; [auto | eapply Hd; eauto].
  - apply IH; auto.
Qed.
Lemma NoDup_map_inj {A B} (f : A -> B) l : (forall a b, f a = f b -> a = b) -> NoDup l -> NoDup (map f l).
Proof.
  intros Hf H. induction H as [|x t Hn Hnd IH]; cbn; constructor; auto.
  intros Hin. apply in_map_iff in Hin. destruct Hin as (y & E & Hy). apply Hf in E. subst. auto.
Qed.
Lemma NoDup_pairs (ys xs : list Z) : NoDup ys -> NoDup xs -> NoDup (flat_map (fun y => map (fun x => (y, x)) xs) ys).
Proof.
  intros Hy Hx. induction Hy as [|y t Hnot Hnd IH]; cbn [flat_map]; [constructor|].
  apply NoDup_app_intro; auto.
  - apply NoDup_map_inj; auto. intros a b E. congruence.
  - intros p Hp Hq. apply in_map_iff in Hp. destruct Hp as (x & <- & _).
    apply in_flat_map in Hq. destruct Hq as (y' & Hy' & Hq). apply in_map_iff in Hq. destruct Hq as (x' & E & _).
    injection E as E1 E2. subst. auto.
Qed.
Lemma apositions_NoDup a : NoDup (apositions a).
Proof. unfold apositions, zrange. apply NoDup_pairs; apply zrange_n_NoDup. Qed.
Lemma gpositions_NoDup g : NoDup (gpositions g).
Proof. apply apositions_NoDup. Qed.
