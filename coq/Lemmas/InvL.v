(* Inventories as multisets: what gset does to the list of cells *)
From Coq Require Import ZArith List Bool Lia Permutation.
From GV.Model Require Import Trans.
From GV.Lemmas Require Import GridL TransL.
Import ListNotations.
Open Scope Z_scope.

Lemma Permutation_filter {A} (f : A -> bool) l l' : Permutation l l' -> Permutation (filter f l) (filter f l').
Proof.
  induction 1 as [|x l l' H IH|x y l|l l' l'' H1 IH1 H2 IH2]; cbn [filter].
  - constructor.
  - destruct (f x); auto.
  - destruct (f x), (f y); auto. apply perm_swap.
  - eapply perm_trans; eauto.
Qed.
Lemma upd_perm {A} (l : list A) k a b : nth_error l k = Some a -> Permutation (a :: upd l k b) (b :: l).
Proof.
  revert k; induction l as [|x t IH]; intros [|k] H; cbn in *; try discriminate.
  - injection H as ->. apply perm_swap.
  - eapply perm_trans; [apply perm_swap|]. eapply perm_trans; [apply perm_skip, IH; eauto|]. apply perm_swap.
Qed.
Lemma concat_upd_perm {A} (g : list (list A)) y r r' : nth_error g y = Some r ->
  Permutation (r ++ concat (upd g y r')) (r' ++ concat g).
Proof.
  revert y; induction g as [|x t IH]; intros [|y] H; cbn in *; try discriminate.
  - injection H as ->. rewrite !app_assoc. apply Permutation_app_tail. apply Permutation_app_comm.
  - rewrite !app_assoc.
    eapply perm_trans; [apply Permutation_app_tail, Permutation_app_comm|].
    rewrite <- !app_assoc. eapply perm_trans; [apply Permutation_app_head, IH; eauto|].
    rewrite !app_assoc. apply Permutation_app_tail, Permutation_app_comm.
Qed.
(* the cell list after a gset: the old cell is replaced by the new one *)
Lemma concat_gset_perm g p o : wf_grid g -> in_grid g p = true ->
  Permutation (lookupH g p :: concat (gset g p o)) (o :: concat g).
Proof.
  intros Hw Hin. pose proof (gget_in g p Hw Hin) as Hg. unfold gget in Hg. rewrite Hin in Hg. unfold getn in Hg.
  unfold gset. rewrite Hin. destruct (nth_error g (Z.to_nat (fst p))) as [r|] eqn:E; [|discriminate].
  pose proof (concat_upd_perm g _ r (upd r (Z.to_nat (snd p)) o) E) as P1.
  pose proof (upd_perm r _ (lookupH g p) o Hg) as P2.
  apply Permutation_app_inv_l with (l := r).
  eapply perm_trans; [apply Permutation_sym, Permutation_middle|].
  eapply perm_trans; [apply perm_skip, P1|].
  change (Permutation ((lookupH g p :: upd r (Z.to_nat (snd p)) o) ++ concat g) (r ++ o :: concat g)).
  eapply perm_trans; [apply Permutation_app_tail, P2|].
  cbn [app]. apply Permutation_middle.
Qed.

(* ---- the inventory: status erased (an opening door is the same door), floors and the empty hand left out ---- *)
Fixpoint erase (o : obj) : obj :=
  match o with Obj t _ c k => Obj t 0 c (match k with Some x => Some (erase x) | None => None end) end.
Definition counted (o : obj) : bool := negb (oty o =? ty_Floor) && negb (oty o =? ty_NoneGridObject).
Definition invl (l : list obj) : list obj := filter counted (map erase l).
Definition inventory (s : state) : list obj := invl (sheld s :: concat (sgrid s)).
Lemma invl_perm l l' : Permutation l l' -> Permutation (invl l) (invl l').
Proof. intros H. unfold invl. apply Permutation_filter, Permutation_map, H. Qed.
Lemma invl_app l l' : invl (l ++ l') = invl l ++ invl l'.
Proof. unfold invl. now rewrite map_app, filter_app. Qed.
Lemma invl_cons o l : invl (o :: l) = invl [o] ++ invl l.
Proof. apply (invl_app [o] l). Qed.
Lemma oty_erase o : oty (erase o) = oty o.  Proof. destruct o; reflexivity. Qed.
Lemma invl_gset g p o : wf_grid g -> in_grid g p = true ->
  Permutation (invl [lookupH g p] ++ invl (concat (gset g p o))) (invl [o] ++ invl (concat g)).
Proof. intros Hw Hin. rewrite <- !invl_cons. apply invl_perm, concat_gset_perm; auto. Qed.
Lemma invl_floor o : oty o = ty_Floor -> invl [o] = [].
Proof. intros H. unfold invl, counted. cbn [map filter]. rewrite oty_erase, H. reflexivity. Qed.
Lemma invl_none o : oty o = ty_NoneGridObject -> invl [o] = [].
Proof. intros H. unfold invl, counted. cbn [map filter]. rewrite oty_erase, H. reflexivity. Qed.
Lemma erase_open_door d : erase (open_door d) = erase d.
Proof. destruct d; reflexivity. Qed.
Lemma invl_swapped g p q : wf_grid g -> in_grid g p = true -> in_grid g q = true -> p <> q ->
  Permutation (invl (concat (swapped g p q))) (invl (concat g)).
Proof.
  intros Hw Hp Hq Hne. unfold swapped.
  pose proof (invl_gset g p (lookupH g q) Hw Hp) as P1.
  pose proof (invl_gset (gset g p (lookupH g q)) q (lookupH g p) (wf_gset _ _ _ Hw) ltac:(rewrite in_grid_gset; auto)) as P2.
  rewrite lookupH_gset_other in P2 by auto.
  apply Permutation_app_inv_l with (l := invl [lookupH g q]).
  eapply perm_trans; [exact P2|]. exact P1.
Qed.
