(* non-vacuity: a concrete environment (the 4x4 empty room, move/turn dynamics, 3x3 transparent view) on which the hypotheses of the C04 /
   C20 theorems are met by non-trivial reachable machine states *)
From Coq Require Import ZArith List Bool.
From GV.Model Require Import Env Check Gym.
From GV.Lemmas Require Import RandL C04L C20L.
Import ListNotations.
Open Scope Z_scope.
Definition e0 : gridworld :=
  mkGW (mkSS 4 4 [ty_Floor; ty_Wall; ty_Exit] [0]) [MOVE_FORWARD; MOVE_LEFT; TURN_LEFT; TURN_RIGHT] (mkOS 3 3 [ty_Floor; ty_Wall; ty_Exit] [0])
       (reset_of (PEmpty 4 4 false false)) [TMoveAgent; TTurnAgent] (mkOF VFullyTransparent (mkA (-2) 0 (-1) 1)) RLiving TReachExit [].
(* a deterministic operation has exactly the leaf it computes to *)
Lemma leaf_of_ret {A} (m : Rand A) a : m = Ret a -> Leaf m (Ok a).
Proof. intros ->. constructor. Qed.
Lemma nonvac_C04 : exists m s o, reachable e0 true m /\ ie_state m = Some s /\ ie_obs m = Some o /\ spos s = (1, 2) /\
  Leaf (functional_observation e0 true s) (Ok o).
Proof.
  destruct (istep e0 true ie_init OpReset) as [[m1 o1]| |] eqn:E1; try (vm_compute in E1; discriminate).
  destruct (istep e0 true m1 (OpStep MOVE_FORWARD)) as [[m2 o2]| |] eqn:E2; try (vm_compute in E1; injection E1 as <- <-; vm_compute in E2; discriminate).
  destruct (istep e0 true m2 OpReadObs) as [[m3 o3]| |] eqn:E3; try (vm_compute in E1; injection E1 as <- <-; vm_compute in E2; injection E2 as <- <-; vm_compute in E3; discriminate).
  assert (R3 : reachable e0 true m3).
  { eapply reach_op; [eapply reach_op; [eapply reach_op; [apply reach_init | apply leaf_of_ret; exact E1] | apply leaf_of_ret; exact E2] | apply leaf_of_ret; exact E3]. }
  vm_compute in E1. injection E1 as <- <-. vm_compute in E2. injection E2 as <- <-. vm_compute in E3. injection E3 as <- <-.
  eexists _, _, _. split; [exact R3|]. split; [reflexivity|]. split; [reflexivity|]. split; [reflexivity|].
  apply leaf_of_ret. vm_compute. reflexivity.
Qed.

Definition g_init : genv :=
  mkGE ie_init (match srep_of (Some RCompact) (gw_sspace e0) with Ok r => Some r | Err _ => None end)
               (match orep_of (Some RNoOverlap) (gw_ospace e0) with Ok r => Some r | Err _ => None end).
Lemma nonvac_C20 : exists g g' out, greachable e0 true g /\ ge_srep g <> None /\ ge_orep g <> None /\
  Leaf (gstep e0 true g (GStep 0)) (Ok (g', out)) /\ greachable e0 true g' /\ ie_state (ge_inner g') <> None.
Proof.
  destruct (gstep e0 true g_init GReset) as [[g1 o1]| |] eqn:E1; try (vm_compute in E1; discriminate).
  destruct (gstep e0 true g1 (GStep 0)) as [[g2 o2]| |] eqn:E2; try (vm_compute in E1; injection E1 as <- <-; vm_compute in E2; discriminate).
  assert (R1 : greachable e0 true g1) by (eapply greach_op; [apply greach_init | apply leaf_of_ret; exact E1]).
  assert (R2 : greachable e0 true g2) by (eapply greach_op; [exact R1 | apply leaf_of_ret; exact E2]).
  exists g1, g2, o2. split; [exact R1|]. 
  vm_compute in E1. injection E1 as <- <-. split; [discriminate|]. split; [discriminate|].
  split; [apply leaf_of_ret; exact E2|]. split; [exact R2|]. vm_compute in E2. injection E2 as <- <-. discriminate.
Qed.
