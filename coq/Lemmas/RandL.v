(* Lemmas about the choice tree *)
From Coq Require Import ZArith List Bool Lia.
From GV.Model Require Import Rand.
Import ListNotations.
Open Scope Z_scope.

Lemma Leaf_Ret {A} (a : A) x : Leaf (Ret a) x <-> x = Ok a.
Proof. split; [intros H; inversion H; auto | intros ->; constructor]. Qed.
Lemma Leaf_Raise {A} e (x : res A) : Leaf (Raise e) x <-> x = Err e.
Proof. split; [intros H; inversion H; auto | intros ->; constructor]. Qed.

Lemma Leaf_bind {A B} (m : Rand A) (f : A -> Rand B) x :
  Leaf (bind m f) x <-> (exists a, Leaf m (Ok a) /\ Leaf (f a) x) \/ (exists e, Leaf m (Err e) /\ x = Err e).
Proof.
  induction m as [a|e|g r k IH]; cbn [bind].
  - split; [intros H; left; exists a; split; [constructor|auto]|].
    intros [[a' [H1 H2]]|[e [H1 _]]]; inversion H1; subst; auto.
  - split; [intros H; inversion H; subst; right; exists e; split; [constructor|auto]|].
    intros [[a' [H1 _]]|[e' [H1 ->]]]; inversion H1; subst; constructor.
  - split.
    + intros H. inversion H as [| |g' r' k' ans x' Hv Hl]; subst.
      apply IH in Hl. destruct Hl as [[a [H1 H2]]|[e [H1 ->]]].
      * left; exists a; split; auto. econstructor; eauto.
      * right; exists e; split; auto. econstructor; eauto.
    + intros [[a [H1 H2]]|[e [H1 ->]]]; inversion H1 as [| |g' r' k' ans x' Hv Hl]; subst;
        econstructor; eauto; apply IH; [left; eauto | right; eauto].
Qed.
Lemma Leaf_lift {A} (r : res A) x : Leaf (lift r) x <-> x = r.
Proof. destruct r; cbn; [apply Leaf_Ret | apply Leaf_Raise]. Qed.

Lemma Leaf_bind_Ok {A B} (m : Rand A) (f : A -> Rand B) b :
  Leaf (bind m f) (Ok b) <-> exists a, Leaf m (Ok a) /\ Leaf (f a) (Ok b).
Proof. rewrite Leaf_bind. split; [intros [H|[e [_ H]]]; [auto | discriminate] | auto]. Qed.

(* every leaf satisfies P (total: no error leaf unless P allows it) *)
Definition all_leaves {A} (P : res A -> Prop) (m : Rand A) : Prop := forall x, Leaf m x -> P x.
Definition all_ok {A} (P : A -> Prop) (m : Rand A) : Prop := forall x, Leaf m x -> exists a, x = Ok a /\ P a.
Lemma all_ok_Ret {A} (P : A -> Prop) a : P a -> all_ok P (Ret a).
Proof. intros H x Hx. apply Leaf_Ret in Hx. eauto. Qed.
Lemma all_ok_bind {A B} (P : A -> Prop) (Q : B -> Prop) m f :
  all_ok P m -> (forall a, P a -> all_ok Q (f a)) -> all_ok Q (bind m f).
Proof.
  intros Hm Hf x Hx. apply Leaf_bind in Hx. destruct Hx as [[a [H1 H2]]|[e [H1 _]]].
  - destruct (Hm _ H1) as [a' [E Pa]]. injection E as <-. eapply Hf; eauto.
  - destruct (Hm _ H1) as [a' [E _]]. discriminate.
Qed.
Lemma all_ok_weaken {A} (P Q : A -> Prop) m : (forall a, P a -> Q a) -> all_ok P m -> all_ok Q m.
Proof. intros H Hm x Hx. destruct (Hm x Hx) as [a [-> Pa]]. eauto. Qed.

Lemma inrange_one lo hi i : inrange lo hi [i] = true <-> lo <= i < hi.
Proof. unfold inrange. cbn [forallb]. rewrite andb_true_r, andb_true_iff, Z.leb_le, Z.ltb_lt. tauto. Qed.
Lemma Leaf_rchoice g n x : Leaf (rchoice g n) x <-> (n <= 0 /\ x = Err ValueError) \/ (exists i, 0 <= i < n /\ x = Ok i).
Proof.
  unfold rchoice. destruct (n <=? 0) eqn:E.
  - apply Z.leb_le in E. rewrite Leaf_Raise. split; [auto | intros [[_ H]|[i [H _]]]; [auto | lia]].
  - apply Z.leb_gt in E. split.
    + intros H. inversion H as [| |g' r' k' ans x' Hv Hl]; subst. apply Leaf_Ret in Hl. subst. right.
      unfold valid_ans in Hv. apply andb_true_iff in Hv. destruct Hv as [Hlen Hr].
      destruct ans as [|i [|? ?]]; cbn [length] in Hlen; try (apply Z.eqb_eq in Hlen; lia).
      apply inrange_one in Hr. exists i; auto.
    + intros [[H _]|[i [Hi ->]]]; [lia|]. apply LDraw with (ans := [i]); [|constructor].
      unfold valid_ans. rewrite (proj2 (inrange_one 0 n i) Hi). reflexivity.
Qed.

(* NoGlobal / NoDraw are preserved by bind *)
Lemma NoGlobal_bind {A B} (m : Rand A) (f : A -> Rand B) : NoGlobal m -> (forall a, NoGlobal (f a)) -> NoGlobal (bind m f).
Proof. induction 1; cbn; auto; constructor; auto. Qed.
Lemma NoGlobal_lift {A} (r : res A) : NoGlobal (lift r).
Proof. destruct r; constructor. Qed.
Lemma NoGlobal_catch {A} (m : Rand A) e h : NoGlobal m -> NoGlobal h -> NoGlobal (catch m e h).
Proof. induction 1; cbn; intros; try constructor; auto. destruct e0, e; auto; constructor. Qed.
Lemma NoDraw_NoGlobal {A} (m : Rand A) : NoDraw m -> NoGlobal m.
Proof. destruct 1; constructor. Qed.
