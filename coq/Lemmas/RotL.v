(* Tabulated grids, subgrid and the four rotations: pointwise characterisations *)
From Coq Require Import ZArith List Bool Lia Permutation.
From GV.Model Require Import Grid.
From GV.Lemmas Require Import GridL.
Import ListNotations.
Open Scope Z_scope.

Lemma nth_error_map_seq {B} (f : nat -> B) n i : (i < n)%nat -> nth_error (map f (seq 0 n)) i = Some (f i).
Proof. intros H. rewrite nth_error_map, nth_error_nth' with (d:=0%nat) by (rewrite seq_length; lia).
  rewrite seq_nth by lia. reflexivity. Qed.
Lemma getn_tab {A} h w (f : nat -> nat -> A) i j : (i < h)%nat -> (j < w)%nat ->
  match nth_error (tab h w f) i with Some r => nth_error r j | None => None end = Some (f i j).
Proof. intros Hi Hj. unfold tab. rewrite nth_error_map_seq by lia. apply nth_error_map_seq; lia. Qed.
Lemma getn_tab_obj h w f i j : (i < h)%nat -> (j < w)%nat -> getn (tab h w f) i j = Some (f i j).
Proof. apply getn_tab. Qed.
Lemma hN_tab {A} h w (f : nat -> nat -> A) : length (tab h w f) = h.
Proof. unfold tab. now rewrite map_length, seq_length. Qed.
Lemma wN_tab h w f : (0 < h)%nat -> wN (tab h w f) = w.
Proof. destruct h; [lia|]. intros _. unfold wN, tab. cbn [seq map]. now rewrite map_length, seq_length. Qed.
Lemma rows_tab {A} h w (f : nat -> nat -> A) r : In r (tab h w f) -> length r = w.
Proof. unfold tab. intros H. apply in_map_iff in H. destruct H as (i & <- & _). now rewrite map_length, seq_length. Qed.
Lemma gheight_hN g : gheight g = Z.of_nat (hN g).  Proof. reflexivity. Qed.
Lemma gwidth_wN g : gwidth g = Z.of_nat (wN g).  Proof. destruct g; reflexivity. Qed.
Lemma wf_tab h w f : (0 < h)%nat -> (0 < w)%nat -> wf_grid (tab h w f).
Proof.
  intros Hh Hw. unfold wf_grid. rewrite gwidth_wN, wN_tab by lia. repeat split; try lia.
  - intro E. apply (f_equal (@length _)) in E. rewrite hN_tab in E. cbn in E. lia.
  - apply Forall_forall. intros r Hr. apply rows_tab in Hr. lia.
Qed.
Lemma wf_hN g : wf_grid g -> (0 < hN g)%nat.
Proof. intros H. apply wf_height_pos in H. rewrite gheight_hN in H. lia. Qed.
Lemma wf_wN g : wf_grid g -> (0 < wN g)%nat.
Proof. intros (_ & _ & H). rewrite gwidth_wN in H. lia. Qed.
Lemma wf_row_len g r : wf_grid g -> In r g -> length r = wN g.
Proof. intros H Hr. pose proof (wf_row g r H Hr) as E. rewrite gwidth_wN in E. lia. Qed.

(* list extensionality through nth_error *)
Lemma nth_error_ext {A} (l l' : list A) : (forall i, nth_error l i = nth_error l' i) -> l = l'.
Proof.
  revert l'; induction l as [|x t IH]; intros [|y t'] H; auto.
  - specialize (H 0%nat); discriminate.
  - specialize (H 0%nat); discriminate.
  - pose proof (H 0%nat) as H0. cbn in H0. injection H0 as ->. f_equal. apply IH. intros i. apply (H (S i)).
Qed.
Lemma getn_in_range g i j : wf_grid g -> (i < hN g)%nat -> (j < wN g)%nat -> getn g i j = Some (get0 g i j).
Proof.
  intros Hw Hi Hj. unfold get0, getn. destruct (nth_error g i) as [r|] eqn:E.
  - assert (Hr : In r g) by (eapply nth_error_In; eauto). pose proof (wf_row_len g r Hw Hr).
    destruct (nth_error r j) eqn:E2; auto. apply nth_error_None in E2. lia.
  - apply nth_error_None in E. unfold hN in Hi. lia.
Qed.
Lemma grid_ext g g' : wf_grid g -> wf_grid g' -> hN g = hN g' -> wN g = wN g' ->
  (forall i j, (i < hN g)%nat -> (j < wN g)%nat -> get0 g i j = get0 g' i j) -> g = g'.
Proof.
  intros Hw Hw' Hh Hwd Hc. apply nth_error_ext. intros i.
  destruct (Nat.lt_ge_cases i (hN g)) as [Hi|Hi].
  - destruct (nth_error g i) as [r|] eqn:E; [|apply nth_error_None in E; unfold hN in Hi; lia].
    destruct (nth_error g' i) as [r'|] eqn:E'; [|apply nth_error_None in E'; unfold hN in *; lia].
    f_equal. apply nth_error_ext. intros j.
    assert (Hr : In r g) by (eapply nth_error_In; eauto). assert (Hr' : In r' g') by (eapply nth_error_In; eauto).
    pose proof (wf_row_len _ _ Hw Hr) as L. pose proof (wf_row_len _ _ Hw' Hr') as L'.
    destruct (Nat.lt_ge_cases j (wN g)) as [Hj|Hj].
    + pose proof (getn_in_range g i j Hw Hi Hj) as G. pose proof (getn_in_range g' i j Hw' ltac:(lia) ltac:(lia)) as G'.
      unfold getn in G, G'. rewrite E in G. rewrite E' in G'. rewrite G, G'. f_equal. auto.
    + transitivity (@None obj); [apply nth_error_None; lia | symmetry; apply nth_error_None; lia].
  - transitivity (@None (list obj)); [apply nth_error_None; unfold hN in Hi; lia | symmetry; apply nth_error_None; unfold hN in *; lia].
Qed.
Lemma get0_tab h w f i j : (i < h)%nat -> (j < w)%nat -> get0 (tab h w f) i j = f i j.
Proof. intros. unfold get0. now rewrite getn_tab_obj. Qed.

(* ---- the rotations ---- *)
Definition swaps (k : rotkind) : bool := match k with RotCW | RotCCW => true | _ => false end.
Lemma rot_kind_shape k g : wf_grid g ->
  hN (rot_kind k g) = (if swaps k then wN g else hN g) /\ wN (rot_kind k g) = (if swaps k then hN g else wN g) /\ wf_grid (rot_kind k g).
Proof.
  intros Hw. pose proof (wf_hN g Hw). pose proof (wf_wN g Hw).
  destruct k; cbn [rot_kind swaps]; auto; unfold hN at 1; rewrite hN_tab, wN_tab by lia; auto using wf_tab.
Qed.
Definition src (k : rotkind) (h w : nat) (i j : nat) : nat * nat :=
  match k with RotId => (i, j) | RotCW => (h - 1 - j, i) | RotCCW => (j, w - 1 - i) | RotHalf => (h - 1 - i, w - 1 - j) end%nat.
Lemma rot_kind_get k g i j : wf_grid g -> (i < hN (rot_kind k g))%nat -> (j < wN (rot_kind k g))%nat ->
  get0 (rot_kind k g) i j = get0 g (fst (src k (hN g) (wN g) i j)) (snd (src k (hN g) (wN g) i j)).
Proof.
  intros Hw Hi Hj. destruct (rot_kind_shape k g Hw) as (Eh & Ew & _). rewrite Eh in Hi. rewrite Ew in Hj.
  destruct k; cbn [rot_kind src swaps fst snd] in *; auto; rewrite get0_tab by lia; reflexivity.
Qed.

Definition kinv (k : rotkind) : rotkind := match k with RotCW => RotCCW | RotCCW => RotCW | x => x end.
Lemma rot_kind_inv k g : wf_grid g -> rot_kind (kinv k) (rot_kind k g) = g.
Proof.
  intros Hw. destruct (rot_kind_shape k g Hw) as (Eh & Ew & Hw1).
  destruct (rot_kind_shape (kinv k) _ Hw1) as (Eh2 & Ew2 & Hw2).
  pose proof (wf_hN g Hw). pose proof (wf_wN g Hw).
  apply grid_ext; auto.
  - rewrite Eh2, Eh, Ew. destruct k; reflexivity.
  - rewrite Ew2, Eh, Ew. destruct k; reflexivity.
  - intros i j Hi Hj. rewrite rot_kind_get by auto. rewrite Eh, Ew.
    rewrite Eh2, Eh, Ew in Hi. rewrite Ew2, Eh, Ew in Hj.
    destruct k; cbn [kinv src swaps fst snd] in *; auto; rewrite rot_kind_get by
      (auto; rewrite ?Eh, ?Ew; cbn [swaps]; lia); cbn [src fst snd]; f_equal; lia.
Qed.
Lemma grid_rot_oneg o : grid_rot (oneg o) = kinv (grid_rot o).  Proof. destruct o; reflexivity. Qed.
Lemma grid_rot_by_inv o g : wf_grid g -> grid_rot_by (oneg o) (grid_rot_by o g) = g.
Proof. intros. unfold grid_rot_by. rewrite grid_rot_oneg. now apply rot_kind_inv. Qed.
Lemma grid_rot_by_shape o g : wf_grid g ->
  let g' := grid_rot_by o g in
  wf_grid g' /\ match o with FORWARD | BACKWARD => gheight g' = gheight g /\ gwidth g' = gwidth g
                           | LEFT | RIGHT => gheight g' = gwidth g /\ gwidth g' = gheight g end.
Proof.
  intros Hw g'. unfold g', grid_rot_by. destruct (rot_kind_shape (grid_rot o) g Hw) as (Eh & Ew & Hw1).
  split; auto. rewrite !gheight_hN, !gwidth_wN, Eh, Ew. destruct o; cbn [grid_rot swaps]; auto.
Qed.

Lemma lookupH_get0 g p : wf_grid g -> in_grid g p = true -> lookupH g p = get0 g (Z.to_nat (fst p)) (Z.to_nat (snd p)).
Proof. intros Hw Hin. unfold lookupH, gget, get0. rewrite Hin. reflexivity. Qed.
