(* Closed forms of the built-in transition functions on well-formed grids, and the obstacle loop invariant *)
From Coq Require Import ZArith List Bool Lia.
From GV.Model Require Import Trans.
From GV.Lemmas Require Import GridL RandL GeomL.
Import ListNotations.
Open Scope Z_scope.

(* ---- pure counterparts (over lookupH / gset) ---- *)
Definition move_target (s : state) (a : Action) : pos := next_position (spos s) (sori s) a.
Definition can_enter (g : grid) (t : pos) : bool := in_grid g t && negb (o_blocks_movement (lookupH g t)).
Definition move_agent_pure (s : state) (a : Action) : state :=
  if is_move a && can_enter (sgrid s) (move_target s a) then set_pos s (move_target s a) else s.
Lemma move_agent_eq s a own : wf_grid (sgrid s) -> move_agent s a own = Ret (move_agent_pure s a).
Proof.
  intros Hw. unfold move_agent, move_agent_pure, can_enter, move_target.
  destruct (is_move a); cbn [negb andb]; auto.
  destruct (in_grid (sgrid s) (next_position (spos s) (sori s) a)) eqn:E; cbn [negb andb]; auto.
  rewrite grid_get_in by auto. cbn [lift bind].
  destruct (o_blocks_movement _); reflexivity.
Qed.

Definition turn_agent_pure (s : state) (a : Action) : state :=
  match turn_dir a with Some d => set_ori s (omul (sori s) d) | None => s end.
Lemma turn_agent_eq s a own : turn_agent s a own = Ret (turn_agent_pure s a).
Proof. unfold turn_agent, turn_agent_pure. destruct (turn_dir a); reflexivity. Qed.

Definition pickndrop_pure (s : state) (a : Action) : state :=
  let pf := sfront s in let o := lookupH (sgrid s) pf in
  if is_pickndrop a && in_grid (sgrid s) pf && (is_ty ty_Floor o || o_holdable o) then
    mkS (gset (sgrid s) pf (if negb (is_ty ty_NoneGridObject (sheld s)) then sheld s else Floor))
        (spos s) (sori s) (if o_holdable o then o else NoneObj)
  else s.
Lemma pickndrop_eq s a own : wf_grid (sgrid s) -> pickndrop s a own = Ret (pickndrop_pure s a).
Proof.
  intros Hw. unfold pickndrop, pickndrop_pure.
  destruct (is_pickndrop a); cbn [negb andb]; auto.
  destruct (in_grid (sgrid s) (sfront s)) eqn:E; cbn [negb andb]; auto.
  rewrite grid_get_in by auto. cbn [lift bind].
  destruct (is_ty ty_Floor (lookupH (sgrid s) (sfront s)) || o_holdable (lookupH (sgrid s) (sfront s))) eqn:C; cbn [negb]; auto.
  rewrite andb_true_r. rewrite grid_set_in by auto. cbn [lift bind]. reflexivity.
Qed.

Definition door_opens (held door : obj) : bool :=
  is_ty ty_Door door && negb (ost door =? st_OPEN) && (negb (ost door =? st_LOCKED) || key_opens held door).
Definition actuate_door_pure (s : state) (a : Action) : state :=
  let p := sfront s in let d := lookupH (sgrid s) p in
  if is_actuate a && in_grid (sgrid s) p && door_opens (sheld s) d then set_grid s (gset (sgrid s) p (open_door d)) else s.
Lemma actuate_door_eq s a own : wf_grid (sgrid s) -> actuate_door s a own = Ret (actuate_door_pure s a).
Proof.
  intros Hw. unfold actuate_door, actuate_door_pure, door_opens.
  destruct (is_actuate a); cbn [negb andb]; auto.
  destruct (in_grid (sgrid s) (sfront s)) eqn:E; cbn [negb andb]; auto.
  rewrite grid_get_in by auto. cbn [lift bind].
  destruct (is_ty ty_Door _); cbn [negb andb]; auto.
  destruct (ost _ =? st_OPEN); cbn [negb andb]; auto.
  destruct (ost _ =? st_LOCKED); cbn [negb andb orb].
  - destruct (key_opens _ _); auto. rewrite grid_set_in by auto. reflexivity.
  - rewrite grid_set_in by auto. reflexivity.
Qed.

Definition actuate_box_pure (s : state) (a : Action) : state :=
  let p := sfront s in let b := lookupH (sgrid s) p in
  if is_actuate a && in_grid (sgrid s) p && is_ty ty_Box b then
    match ocontent b with Some c => set_grid s (gset (sgrid s) p c) | None => s end
  else s.
Lemma actuate_box_eq s a own : wf_grid (sgrid s) ->
  (in_grid (sgrid s) (sfront s) = true -> is_ty ty_Box (lookupH (sgrid s) (sfront s)) = true ->
   ocontent (lookupH (sgrid s) (sfront s)) <> None) ->
  actuate_box s a own = Ret (actuate_box_pure s a).
Proof.
  intros Hw Hc. unfold actuate_box, actuate_box_pure.
  destruct (is_actuate a); cbn [negb andb]; auto.
  destruct (in_grid (sgrid s) (sfront s)) eqn:E; cbn [negb andb]; auto.
  rewrite grid_get_in by auto. cbn [lift bind].
  destruct (is_ty ty_Box _) eqn:B; auto.
  destruct (ocontent _) eqn:C; [|exfalso; apply Hc; auto].
  rewrite grid_set_in by auto. reflexivity.
Qed.

(* the front cell is never the agent's own cell, and is adjacent to it *)
Lemma sfront_adjacent s : manhattan (sfront s) (spos s) = 1.
Proof. unfold sfront, front, tact. destruct s as [g [y x] o h]; cbn [spos sori tpos tori]. destruct o; unfold manhattan, padd, orot; cbn [omat ovec fst snd]; lia. Qed.
Lemma sfront_neq s : sfront s <> spos s.
Proof. intros E. pose proof (sfront_adjacent s) as H. rewrite E in H. unfold manhattan in H. lia. Qed.
Lemma sfront_is_forward_move s : sfront s = move_target s MOVE_FORWARD.
Proof. unfold sfront, front, move_target. rewrite next_position_spec. reflexivity. Qed.

(* ---- teleport ---- *)
Definition partners (s : state) : list pos :=
  filter (fun p => is_ty ty_Telepod (lookupH (sgrid s) p) && (ocol (lookupH (sgrid s) p) =? ocol (lookupH (sgrid s) (spos s))))
         (filter (fun p => negb (pos_eqb p (spos s))) (gpositions (sgrid s))).
Lemma teleport_eq s a own : wf_grid (sgrid s) -> in_grid (sgrid s) (spos s) = true ->
  teleport s a own =
    if is_ty ty_Telepod (lookupH (sgrid s) (spos s)) then
      let ps := partners s in
      match ps with
      | [] => Ret s
      | _ :: _ => bind (rchoice (negb own) (Z.of_nat (length ps))) (fun i => Ret (set_pos s (nthZ ps i (spos s))))
      end
    else Ret s.
Proof.
  intros Hw Hin. unfold teleport. rewrite grid_get_in by auto. cbn [lift bind].
  destruct (is_ty ty_Telepod _); auto.
  rewrite positions_where_ok.
  - cbn [lift bind]. unfold partners. reflexivity.
  - exact Hw.
  - intros p Hp. apply filter_In in Hp. destruct Hp as [Hp _]. apply gpositions_In. exact Hp.
Qed.

(* ---- moving obstacles ---- *)
Definition pending_ok (ps : list pos) (g : grid) : Prop :=
  NoDup ps /\ forall p, In p ps -> in_grid g p = true /\ is_ty ty_MovingObstacle (lookupH g p) = true.
Definition free_nbrs (g : grid) (p : pos) : list pos :=
  filter (fun q => in_grid g q && is_ty ty_Floor (lookupH g q)) (neighbours4 p).
Definition swapped (g : grid) (p q : pos) : grid := gset (gset g p (lookupH g q)) q (lookupH g p).

Lemma ty_floor_not_obstacle o : is_ty ty_Floor o = true -> is_ty ty_MovingObstacle o = true -> False.
Proof. unfold is_ty. rewrite !Z.eqb_eq. intros -> H. discriminate. Qed.

Lemma nthZ_In {A} (l : list A) i d : 0 <= i < Z.of_nat (length l) -> In (nthZ l i d) l.
Proof. intros H. unfold nthZ. apply nth_In. lia. Qed.

Lemma lookupH_swapped g p q r : wf_grid g -> in_grid g p = true -> in_grid g q = true -> p <> q ->
  lookupH (swapped g p q) r = if pos_eqb r p then lookupH g q else if pos_eqb r q then lookupH g p else lookupH g r.
Proof.
  intros Hw Hp Hq Hne. unfold swapped.
  rewrite lookupH_gset by (auto using wf_gset; rewrite in_grid_gset; auto).
  rewrite lookupH_gset by auto.
  destruct (pos_eqb q r) eqn:E1, (pos_eqb p r) eqn:E2, (pos_eqb r p) eqn:E3, (pos_eqb r q) eqn:E4; auto;
    unfold pos_eqb in *; rewrite ?andb_true_iff, ?andb_false_iff, ?Z.eqb_eq, ?Z.eqb_neq in *;
    try (exfalso; apply Hne; destruct p, q, r; cbn in *; f_equal; lia); try (exfalso; lia).
Qed.

Lemma wf_swapped g p q : wf_grid g -> wf_grid (swapped g p q).
Proof. intros. unfold swapped. auto using wf_gset. Qed.
Lemma gheight_swapped g p q : gheight (swapped g p q) = gheight g.
Proof. unfold swapped. now rewrite !gheight_gset. Qed.
Lemma gwidth_swapped g p q : gwidth (swapped g p q) = gwidth g.
Proof. unfold swapped. now rewrite !gwidth_gset. Qed.
Lemma in_grid_swapped g p q r : in_grid (swapped g p q) r = in_grid g r.
Proof. unfold swapped. now rewrite !in_grid_gset. Qed.
Lemma pos_eqb_eq p q : pos_eqb p q = true <-> p = q.
Proof. unfold pos_eqb. rewrite andb_true_iff, !Z.eqb_eq. destruct p, q; cbn. split; [intros [-> ->]; auto | intros H; injection H; auto]. Qed.
Lemma pos_eqb_neq p q : pos_eqb p q = false <-> p <> q.
Proof. rewrite <- pos_eqb_eq. destruct (pos_eqb p q); split; congruence. Qed.

Section Loop.
Variable g0 : bool.
Variable I : grid -> Prop.
Hypothesis I_step : forall g p q, I g -> wf_grid g -> in_grid g p = true -> in_grid g q = true ->
  is_ty ty_MovingObstacle (lookupH g p) = true -> is_ty ty_Floor (lookupH g q) = true -> In q (neighbours4 p) ->
  I (swapped g p q).

Lemma mo_loop_all_ok ps : forall g, wf_grid g -> pending_ok ps g -> I g ->
  all_ok (fun g' => I g' /\ wf_grid g' /\ gheight g' = gheight g /\ gwidth g' = gwidth g) (move_obstacles_loop g0 ps g).
Proof.
  induction ps as [|p t IH]; intros g Hw [Hnd Hp] HI; cbn [move_obstacles_loop].
  - apply all_ok_Ret. auto.
  - inversion Hnd as [|? ? Hnotin Hnd']; subst.
    destruct (Hp p (or_introl eq_refl)) as [Hpin Hpob].
    rewrite floor_neighbours_ok by auto. cbn [lift bind].
    fold (free_nbrs g p).
    assert (REST : forall g', wf_grid g' -> gheight g' = gheight g -> gwidth g' = gwidth g -> pending_ok t g' -> I g' ->
       all_ok (fun g'' => I g'' /\ wf_grid g'' /\ gheight g'' = gheight g /\ gwidth g'' = gwidth g) (move_obstacles_loop g0 t g')).
    { intros g' Hw' Eh Ew Hpo HI'. eapply all_ok_weaken; [|apply IH; auto]. intros a (Ha & Hb & Hc & Hd). split; [exact Ha|]. split; [exact Hb|]. split; [rewrite Hc; exact Eh | rewrite Hd; exact Ew]. }
    intros x Hx. apply Leaf_bind in Hx.
    assert (Hpo_same : pending_ok t g) by (split; auto; intros q Hq; apply Hp; right; auto).
    destruct (free_nbrs g p) as [|n0 ns] eqn:En.
    + (* no free neighbour: rng.choice(0) raises ValueError, caught *)
      cbn [length Z.of_nat] in Hx. unfold rchoice in Hx. cbn [Z.leb Z.compare bind catch] in Hx.
      destruct Hx as [[g' [H1 H2]]|[e [H1 _]]].
      * apply Leaf_Ret in H1. injection H1 as <-. eapply REST; eauto.
      * apply Leaf_Ret in H1. discriminate.
    + set (nps := n0 :: ns) in *.
      assert (Hlen : 0 < Z.of_nat (length nps)) by (unfold nps; cbn [length]; lia).
      unfold rchoice in Hx. destruct (Z.of_nat (length nps) <=? 0) eqn:El; [apply Z.leb_le in El; lia|].
      cbn [bind catch] in Hx.
      destruct Hx as [[g' [H1 H2]]|[e [H1 _]]].
      * inversion H1 as [| |gg r k ans x' Hv Hl]; subst.
        unfold valid_ans in Hv. apply andb_true_iff in Hv. destruct Hv as [Hl1 Hr].
        destruct ans as [|i [|? ?]]; cbn [length] in Hl1; try (apply Z.eqb_eq in Hl1; lia).
        apply inrange_one in Hr. cbn [hd0] in Hl.
        assert (Hq : In (nthZ nps i p) (free_nbrs g p)) by (rewrite En; apply nthZ_In; auto).
        set (q := nthZ nps i p) in *.
        unfold free_nbrs in Hq. apply filter_In in Hq. destruct Hq as [Hqn Hq2]. apply andb_true_iff in Hq2. destruct Hq2 as [Hqin Hqf].
        rewrite grid_swap_in in Hl by auto. fold (swapped g p q) in Hl. cbn [lift catch] in Hl.
        apply Leaf_Ret in Hl. injection Hl as Hl; subst g'.
        assert (Hne : p <> q) by (intro; subst q; rewrite <- H in Hqf; eapply ty_floor_not_obstacle; eauto).
        refine (REST (swapped g p q) _ _ _ _ _ x H2).
        -- apply wf_swapped; auto.
        -- apply gheight_swapped.
        -- apply gwidth_swapped.
        -- split; auto. intros r Hr'. destruct (Hp r (or_intror Hr')) as [Hrin Hrob].
           rewrite in_grid_swapped. split; auto.
           rewrite lookupH_swapped by auto.
           assert (Hrp : r <> p) by (intro; subst; auto).
           assert (Hrq : r <> q) by (intro; subst r; eapply ty_floor_not_obstacle; eauto).
           apply pos_eqb_neq in Hrp, Hrq. rewrite Hrp, Hrq. auto.
        -- apply I_step; auto.
      * inversion H1 as [| |gg r k ans x' Hv Hl]; subst.
        unfold valid_ans in Hv. apply andb_true_iff in Hv. destruct Hv as [Hl1 Hr].
        destruct ans as [|i [|? ?]]; cbn [length] in Hl1; try (apply Z.eqb_eq in Hl1; lia).
        apply inrange_one in Hr. cbn [hd0] in Hl.
        assert (Hq : In (nthZ nps i p) (free_nbrs g p)) by (rewrite En; apply nthZ_In; auto).
        unfold free_nbrs in Hq. apply filter_In in Hq. destruct Hq as [Hqn Hq2]. apply andb_true_iff in Hq2. destruct Hq2 as [Hqin Hqf].
        rewrite grid_swap_in in Hl by auto. cbn [lift catch] in Hl. apply Leaf_Ret in Hl. discriminate.
Qed.
End Loop.

(* ---- exact unfolding of one turn of the obstacle loop (both directions) ---- *)
Lemma mo_loop_step g0 p t g x : wf_grid g -> in_grid g p = true ->
  Leaf (move_obstacles_loop g0 (p :: t) g) x <->
   (free_nbrs g p = [] /\ Leaf (move_obstacles_loop g0 t g) x) \/
   (exists q, In q (free_nbrs g p) /\ Leaf (move_obstacles_loop g0 t (swapped g p q)) x).
Proof.
  intros Hw Hpin. cbn [move_obstacles_loop]. rewrite floor_neighbours_ok by auto. cbn [lift bind]. fold (free_nbrs g p).
  assert (IN : forall q, In q (free_nbrs g p) -> in_grid g q = true).
  { intros q Hq. unfold free_nbrs in Hq. apply filter_In in Hq. destruct Hq as [_ Hq]. apply andb_true_iff in Hq. tauto. }
  destruct (free_nbrs g p) as [|n0 ns] eqn:En.
  - cbn [length Z.of_nat]. unfold rchoice. cbn [Z.leb Z.compare bind catch]. cbn [bind]. split.
    + intros H. left. split; auto.
    + intros [[_ H]|[q [[] _]]]. auto.
  - set (nps := n0 :: ns) in *.
    assert (Hlen : 0 < Z.of_nat (length nps)) by (unfold nps; cbn [length]; lia).
    rewrite Leaf_bind. split.
    + intros [[g' [H1 H2]]|[e [H1 ->]]].
      * unfold rchoice in H1. destruct (Z.of_nat (length nps) <=? 0) eqn:El; [apply Z.leb_le in El; lia|].
        cbn [bind catch] in H1. inversion H1 as [| |gg r k ans x' Hv Hl]; subst.
        unfold valid_ans in Hv. apply andb_true_iff in Hv. destruct Hv as [Hl1 Hr].
        destruct ans as [|i [|? ?]]; cbn [length] in Hl1; try (apply Z.eqb_eq in Hl1; lia).
        apply inrange_one in Hr. cbn [hd0] in Hl.
        assert (Hq : In (nthZ nps i p) nps) by (apply nthZ_In; auto).
        rewrite grid_swap_in in Hl by auto. cbn [lift catch] in Hl. apply Leaf_Ret in Hl. injection Hl as Hl; subst g'.
        right. exists (nthZ nps i p). split; auto.
      * exfalso. unfold rchoice in H1. destruct (Z.of_nat (length nps) <=? 0) eqn:El; [apply Z.leb_le in El; lia|].
        cbn [bind catch] in H1. inversion H1 as [| |gg r k ans x' Hv Hl]; subst.
        unfold valid_ans in Hv. apply andb_true_iff in Hv. destruct Hv as [Hl1 Hr].
        destruct ans as [|i [|? ?]]; cbn [length] in Hl1; try (apply Z.eqb_eq in Hl1; lia).
        apply inrange_one in Hr. cbn [hd0] in Hl.
        assert (Hq : In (nthZ nps i p) nps) by (apply nthZ_In; auto).
        rewrite grid_swap_in in Hl by auto. cbn [lift catch] in Hl. apply Leaf_Ret in Hl. discriminate.
    + intros [[H _]|[q [Hq HL]]]; [discriminate|]. left. exists (swapped g p q). split; auto.
      destruct (In_nth nps q p Hq) as (k & Hk & Ek).
      unfold rchoice. destruct (Z.of_nat (length nps) <=? 0) eqn:El; [apply Z.leb_le in El; lia|].
      cbn [bind catch]. apply LDraw with (ans := [Z.of_nat k]).
      * unfold valid_ans. rewrite (proj2 (inrange_one 0 (Z.of_nat (length nps)) (Z.of_nat k))) by lia. reflexivity.
      * cbn [hd0]. unfold nthZ. rewrite Nat2Z.id, Ek. rewrite grid_swap_in by auto. cbn [lift catch]. constructor.
Qed.

(* the loop always has an outcome *)
Lemma mo_loop_has_leaf g0 ps : forall g, wf_grid g -> (forall p, In p ps -> in_grid g p = true) ->
  exists g', Leaf (move_obstacles_loop g0 ps g) (Ok g').
Proof.
  induction ps as [|p t IH]; intros g Hw Hin.
  - exists g. constructor.
  - assert (Hp : in_grid g p = true) by (apply Hin; left; auto).
    destruct (free_nbrs g p) as [|q qs] eqn:En.
    + destruct (IH g Hw (fun r Hr => Hin r (or_intror Hr))) as [g' Hg']. exists g'. apply mo_loop_step; auto.
    + destruct (IH (swapped g p q)) as [g' Hg'].
      * apply wf_swapped; auto.
      * intros r Hr. rewrite in_grid_swapped. apply Hin; right; auto.
      * exists g'. apply mo_loop_step; auto. right. exists q. split; auto. rewrite En. left; auto.
Qed.
