(* Geometry: positions, orientations, areas, transforms (gym_gridverse/geometry.py, envs/utils.py).
   Orientation tables come from Gen/Tables.v (regenerated from the code on every run). *)
From Coq Require Import ZArith List Bool.
From GV.Gen Require Export Tables.
Import ListNotations.
Open Scope Z_scope.

(* exceptions, results *)
Inductive exn : Set :=
  IndexError | ValueError | TypeError | StopIteration | NotImplementedError | RuntimeError
| ZeroDivisionError | SchemaError | KeyError | AssertionError.
Inductive res (A : Type) : Type := Ok (a : A) | Err (e : exn).
Arguments Ok {A} a.
Arguments Err {A} e.
Definition rbind {A B} (m : res A) (f : A -> res B) : res B :=
  match m with Ok a => f a | Err e => Err e end.

Definition pos := (Z * Z)%type.   (* (y, x): y downward, x rightward *)
Definition padd (p q : pos) : pos := (fst p + fst q, snd p + snd q).
Definition psub (p q : pos) : pos := (fst p - fst q, snd p - snd q).
Definition pneg (p : pos) : pos := (- fst p, - snd p).
Definition pos_eqb (p q : pos) : bool := (fst p =? fst q) && (snd p =? snd q).

Definition ori := Orientation.
Definition ori_eqb (a b : ori) : bool := Orientation_value a =? Orientation_value b.

(* Orientation * Position, through the generated integer matrix *)
Definition orot (o : ori) (p : pos) : pos :=
  let '((a, b), (c, d)) := omat o in (a * fst p + b * snd p, c * fst p + d * snd p).

(* Area: ((ymin, ymax), (xmin, xmax)); the constructor raises ValueError on decreasing bounds *)
Record area := mkA { ymin : Z; ymax : Z; xmin : Z; xmax : Z }.
Definition area_ok (a : area) : bool := (ymin a <=? ymax a) && (xmin a <=? xmax a).
Definition mk_area (y0 y1 x0 x1 : Z) : res area :=
  if y0 >? y1 then Err ValueError else if x0 >? x1 then Err ValueError else Ok (mkA y0 y1 x0 x1).
Definition aheight (a : area) : Z := ymax a - ymin a + 1.
Definition awidth (a : area) : Z := xmax a - xmin a + 1.
Definition acontains (a : area) (p : pos) : bool :=
  (ymin a <=? fst p) && (fst p <=? ymax a) && (xmin a <=? snd p) && (snd p <=? xmax a).
Definition abound_get (a : area) (b : abound) : Z :=
  match b with YMIN => ymin a | YMAX => ymax a | XMIN => xmin a | XMAX => xmax a end.
Definition abound_pick (a : area) (e : bool * abound) : Z :=
  if fst e then - abound_get a (snd e) else abound_get a (snd e).
(* Orientation * Area (never raises on a well-formed area; modelled through mk_area all the same) *)
Definition orot_area (o : ori) (a : area) : res area :=
  match oarea o with
  | [e0; e1; e2; e3] => mk_area (abound_pick a e0) (abound_pick a e1) (abound_pick a e2) (abound_pick a e3)
  | _ => Err AssertionError
  end.
Definition padd_area (p : pos) (a : area) : res area :=
  mk_area (fst p + ymin a) (fst p + ymax a) (snd p + xmin a) (snd p + xmax a).

(* integer ranges and area positions (row-major, like Area.positions('all')) *)
Fixpoint zrange_n (lo : Z) (n : nat) : list Z :=
  match n with O => [] | S k => lo :: zrange_n (lo + 1) k end.
Definition zrange (lo hi : Z) : list Z := zrange_n lo (Z.to_nat (hi - lo)).   (* range(lo, hi) *)
Definition apositions (a : area) : list pos :=
  flat_map (fun y => map (fun x => (y, x)) (zrange (xmin a) (xmax a + 1))) (zrange (ymin a) (ymax a + 1)).
Definition apositions_border (a : area) : list pos :=
  flat_map (fun y => map (fun x => (y, x)) (zrange (xmin a) (xmax a + 1))) [ymin a; ymax a]
  ++ flat_map (fun y => map (fun x => (y, x)) [xmin a; xmax a]) (zrange (ymin a + 1) (ymax a)).
Definition apositions_inside (a : area) : list pos :=
  flat_map (fun y => map (fun x => (y, x)) (zrange (xmin a + 1) (xmax a))) (zrange (ymin a + 1) (ymax a)).

(* Transform = pose *)
Record transform := mkT { tpos : pos; tori : ori }.
Definition tmul (s t : transform) : transform := mkT (padd (tpos s) (orot (tori s) (tpos t))) (omul (tori s) (tori t)).
Definition tact (t : transform) (p : pos) : pos := padd (tpos t) (orot (tori t) p).
Definition tact_area (t : transform) (a : area) : res area :=
  rbind (orot_area (tori t) a) (padd_area (tpos t)).
Definition tact_ori (t : transform) (o : ori) : ori := omul (tori t) o.
Definition tneg (t : transform) : transform := mkT (pneg (orot (oneg (tori t)) (tpos t))) (oneg (tori t)).
Definition tid : transform := mkT (0, 0) FORWARD.

Definition manhattan (p q : pos) : Z := Z.abs (fst p - fst q) + Z.abs (snd p - snd q).
Definition sqdist (p q : pos) : Z := (fst p - fst q) * (fst p - fst q) + (snd p - snd q) * (snd p - snd q).

(* get_manhattan_boundary(position, distance) *)
Definition manhattan_boundary (p : pos) (d : Z) : res (list pos) :=
  if d <=? 0 then Err ValueError else
  let r := zrange 0 d in
  Ok (map (fun i => (fst p - d + i, snd p + i)) r ++ map (fun i => (fst p + i, snd p + d - i)) r
      ++ map (fun i => (fst p + d - i, snd p - i)) r ++ map (fun i => (fst p - i, snd p - d + i)) r).
Definition neighbours4 (p : pos) : list pos :=   (* = manhattan_boundary p 1 *)
  [(fst p - 1, snd p); (fst p, snd p + 1); (fst p + 1, snd p); (fst p, snd p - 1)].

(* envs/utils.get_next_position *)
Definition next_position (p : pos) (o : ori) (a : Action) : pos :=
  match move_dir a with None => p | Some d => padd p (ovec (omul o d)) end.
Definition front (p : pos) (o : ori) : pos := tact (mkT p o) (ovec FORWARD).   (* Agent.front *)
