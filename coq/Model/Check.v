(* Executable checkers of properties C13 / C14 on initial states (used on complete outcome trees) *)
From Coq Require Import ZArith List Bool.
From GV.Model Require Export Reset.
Import ListNotations.
Open Scope Z_scope.

Definition cells_at (g : grid) (f : obj -> bool) : list pos := filter (fun p => f (lookupH g p)) (gpositions g).
Definition countb (f : obj -> bool) (g : grid) : Z := Z.of_nat (length (cells_at g f)).
Definition border_walls (g : grid) : bool := forallb (fun p => is_ty ty_Wall (lookupH g p)) (apositions_border (garea g)).
Definition agent_ok (s : state) : bool :=
  in_grid (sgrid s) (spos s) && obj_beq (sheld s) NoneObj &&
  (let c := lookupH (sgrid s) (spos s) in
   negb (o_blocks_movement c) && negb (is_ty ty_Exit c) && negb (is_ty ty_MovingObstacle c) && negb (is_ty ty_Telepod c)).
Definition shape_is (s : state) (h w : Z) : bool := wf_gridb (sgrid s) && (gheight (sgrid s) =? h) && (gwidth (sgrid s) =? w).
Definition common_ok (s : state) (h w : Z) : bool := shape_is s h w && border_walls (sgrid s) && agent_ok s.
Definition all_distinct (l : list Z) : bool := nodupb l.

Definition keydoor_ok (s : state) : bool :=
  let g := sgrid s in
  match cells_at g (is_ty ty_Door), cells_at g (is_ty ty_Key), cells_at g (is_ty ty_Exit) with
  | [pd], [pk], [pe] =>
      let d := lookupH g pd in let k := lookupH g pk in
      (ost d =? st_LOCKED) && (ocol k =? ocol d) &&
      (* the door sits in a full wall column that divides the inner area *)
      forallb (fun y => (y =? fst pd) || is_ty ty_Wall (lookupH g (y, snd pd))) (zrange 0 (gheight g)) &&
      (snd pk <? snd pd) && (snd (spos s) <? snd pd) && (snd pd <? snd pe)
  | _, _, _ => false
  end.
Definition memory_ok (s : state) (colors : list Z) (nb ne : Z) : bool :=
  let g := sgrid s in
  let exits := map (fun p => ocol (lookupH g p)) (cells_at g (is_ty ty_Exit)) in
  let beacons := map (fun p => ocol (lookupH g p)) (cells_at g (is_ty ty_Beacon)) in
  (Z.of_nat (length exits) =? ne) && all_distinct exits && forallb (fun c => memZ c colors) exits &&
  (Z.of_nat (length beacons) =? nb) &&
  match beacons with
  | [] => false
  | b :: t => forallb (Z.eqb b) t && (Z.of_nat (length (filter (Z.eqb b) exits)) =? 1)
  end.

(* the statement of C13 for an outcome of the reset function with the given parameters *)
Definition wf_check (p : rparams) (s : state) : bool :=
  match p with
  | PEmpty h w _ _ => common_ok s h w && (countb (is_ty ty_Exit) (sgrid s) =? 1)
  | PRooms h w _ _ => common_ok s h w && (countb (is_ty ty_Exit) (sgrid s) =? 1)
  | PDynamicObstacles h w n _ =>
      common_ok s h w && (countb (is_ty ty_Exit) (sgrid s) =? 1) && (countb (is_ty ty_MovingObstacle) (sgrid s) =? n)
  | PKeydoor h w => common_ok s h w && keydoor_ok s
  | PCrossing h w _ _ => common_ok s h w && (countb (is_ty ty_Exit) (sgrid s) =? 1)
  | PTeleport h w =>
      common_ok s h w && (countb (is_ty ty_Exit) (sgrid s) =? 1) &&
      match map (fun q => ocol (lookupH (sgrid s) q)) (cells_at (sgrid s) (is_ty ty_Telepod)) with [a; b] => a =? b | _ => false end
  | PMemory h w cs => common_ok s h w && memory_ok s cs 2 2
  | PMemoryRooms h w _ _ cs nb ne => common_ok s h w && memory_ok s cs nb ne
  end.
(* every outcome is a well-formed state or ValueError; None when the tree cannot be enumerated *)
Definition outcome_ok (p : rparams) (r : res state) : bool :=
  match r with Ok s => wf_check p s | Err ValueError => true | Err _ => false end.
Definition tree_ok (p : rparams) : option bool :=
  match leaves (reset_of p true) with Some l => Some (forallb (outcome_ok p) l) | None => None end.
Definition tree_size (p : rparams) : option Z :=
  match leaves (reset_of p true) with Some l => Some (Z.of_nat (length l)) | None => None end.

(* ---- C14: a verified reachability check for walk-only dynamics ---- *)
(* breadth-first search over cells satisfying `ok` (generic version of Reward.bfs) *)
Fixpoint bfsP (fuel : nat) (ok : pos -> bool) (visited frontier : list pos) (dst : pos) : bool :=
  match fuel with
  | O => false
  | S f =>
      if memP dst frontier then true else
      let next := dedupP (filter (fun q => ok q && negb (memP q visited)) (flat_map neighbours4 frontier)) in
      match next with [] => false | _ => bfsP f ok (next ++ visited) next dst end
  end.
(* cells the agent may walk over on its way to `goal`: enterable, and not a terminating cell other than the goal itself *)
Definition walkable (g : grid) (terminal : obj -> bool) (goal q : pos) : bool :=
  in_grid g q && negb (o_blocks_movement (lookupH g q)) && (negb (terminal (lookupH g q)) || pos_eqb q goal).
Definition can_walk_to (s : state) (terminal : obj -> bool) (goal : pos) : bool :=
  bfsP (S (Z.to_nat (gheight (sgrid s) * gwidth (sgrid s)))) (walkable (sgrid s) terminal goal) [spos s] [spos s] goal.
(* the goal cells: the exit, or for the memory tasks the exit whose colour matches the (first) beacon *)
Definition goal_cells (s : state) (memory_task : bool) : list pos :=
  let g := sgrid s in
  if memory_task then
    match first_some (fun o => if is_ty ty_Beacon o then Some (ocol o) else None) (concat g) with
    | Some bc => cells_at g (fun o => is_ty ty_Exit o && (ocol o =? bc))
    | None => []
    end
  else cells_at g (is_ty ty_Exit).
Definition is_memory_task (p : rparams) : bool := match p with PMemory _ _ _ | PMemoryRooms _ _ _ _ _ _ _ => true | _ => false end.
(* winnable by walking: some goal cell can be reached over walkable cells (any exit terminates) *)
Definition winnable_walk (p : rparams) (s : state) : bool :=
  existsb (can_walk_to s (is_ty ty_Exit)) (goal_cells s (is_memory_task p)).
Definition win_outcome (p : rparams) (r : res state) : bool := match r with Ok s => winnable_walk p s | Err _ => true end.
Definition tree_winnable (p : rparams) : option bool :=
  match leaves (reset_of p true) with Some l => Some (forallb (win_outcome p) l) | None => None end.
