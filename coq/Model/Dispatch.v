(* dispatch : list Z -> list Z  -- the single entry point of the extracted model *)
From Coq Require Import ZArith List Bool.
From GV.Model Require Export Wire Wire2 Repr Gym Rays Factory Schema.
From GV.Gen Require Import Schema.
Import ListNotations.
Open Scope Z_scope.

Definition op_geometry (l : list Z) : list Z :=
  match l with
  | 1 :: r => run (do a <- pori; do b <- pori; pret (a, b)) (fun '(a, b) => [Orientation_value (omul a b)]) r
  | 2 :: r => run pori (fun a => [Orientation_value (oneg a)]) r
  | 3 :: r => run (do a <- pori; do p <- ppos; pret (a, p)) (fun '(a, p) => epos (orot a p)) r
  | 4 :: r => run (do a <- pori; do ar <- parea; pret (a, ar)) (fun '(a, ar) => eres earea (orot_area a ar)) r
  | 5 :: r => run (do p <- ppos; do a <- pori; do q <- ppos; do b <- pori; pret (mkT p a, mkT q b))
                  (fun '(s, t) => let u := tmul s t in epos (tpos u) ++ [Orientation_value (tori u)]) r
  | 6 :: r => run (do p <- ppos; do a <- pori; do q <- ppos; pret (mkT p a, q)) (fun '(t, q) => epos (tact t q)) r
  | 7 :: r => run (do p <- ppos; do a <- pori; do ar <- parea; pret (mkT p a, ar)) (fun '(t, ar) => eres earea (tact_area t ar)) r
  | 8 :: r => run (do p <- ppos; do a <- pori; pret (mkT p a))
                  (fun t => let u := tneg t in epos (tpos u) ++ [Orientation_value (tori u)]) r
  | 9 :: r => run (do p <- ppos; do a <- pori; do act <- paction; pret (p, a, act)) (fun '(p, a, act) => epos (next_position p a act)) r
  | 10 :: r => run (do p <- ppos; do q <- ppos; pret (p, q)) (fun '(p, q) => [manhattan p q; sqdist p q]) r
  | 11 :: r => run (do p <- ppos; do d <- pZ; pret (p, d)) (fun '(p, d) => eres (elist epos) (manhattan_boundary p d)) r
  | 12 :: r => run (do a <- pori; do g <- pgrid; pret (a, g)) (fun '(a, g) => egrid (grid_rot_by a g)) r
  | 13 :: r => run (do g <- pgrid; do ar <- parea; pret (g, ar)) (fun '(g, ar) => egrid (subgrid g ar)) r
  | 14 :: r => run (do a <- parea; do sel <- pZ; pret (a, sel))
                   (fun '(a, sel) => elist epos (if sel =? 0 then apositions a else if sel =? 1 then apositions_border a else apositions_inside a)) r
  | 15 :: r => run (do a <- parea; do p <- ppos; pret (a, p)) (fun '(a, p) => ebool (acontains a p)) r
  | 16 :: r => run (do g <- pgrid; do p <- ppos; pret (g, p)) (fun '(g, p) => eres eobj (grid_get g p)) r
  | 17 :: r => run (do g <- pgrid; do p <- ppos; do o <- pobj; pret (g, p, o)) (fun '(g, p, o) => eres egrid (grid_set g p o)) r
  | 18 :: r => run (do g <- pgrid; do p <- ppos; do q <- ppos; pret (g, p, q)) (fun '(g, p, q) => eres egrid (grid_swap g p q)) r
  | _ => undecodable
  end.

Definition op_transition (l : list Z) : list Z :=
  run (do ns <- plist (pof tname_of); do own <- pbool; do a <- paction; do s <- pstate; do tape <- ptape;
       pret (ns, own, a, s, tape))
      (fun '(ns, own, a, s, tape) => eoutcome estate (interp (chain (map tfun_of ns) s a own) tape)) l.

Definition eleaves {A} (e : A -> list Z) (r : option (list (res A))) : list Z :=
  match r with Some rs => 0 :: elist (eres e) rs | None => [1] end.
Definition op_transition_leaves (l : list Z) : list Z :=
  run (do ns <- plist (pof tname_of); do own <- pbool; do a <- paction; do s <- pstate; pret (ns, own, a, s))
      (fun '(ns, own, a, s) => eleaves estate (leaves (chain (map tfun_of ns) s a own))) l.

Definition op_reward (l : list Z) : list Z :=
  run (do r <- prname; do s <- pstate; do a <- paction; do s' <- pstate; pret (r, s, a, s'))
      (fun '(r, s, a, s') => eres erv (reward r s a s')) l.
Definition op_termination (l : list Z) : list Z :=
  run (do t <- ptmname; do s <- pstate; do a <- paction; do s' <- pstate; pret (t, s, a, s'))
      (fun '(t, s, a, s') => eres ebool (terminates t s a s')) l.
Definition op_observation (l : list Z) : list Z :=
  run (do v <- pvname; do own <- pbool; do ar <- parea; do rays <- prays; do s <- pstate; do tape <- ptape; pret (v, own, ar, rays, s, tape))
      (fun '(v, own, ar, rays, s, tape) => eoutcome estate (interp (from_visibility v own rays ar s) tape)) l.
Definition op_visibility (l : list Z) : list Z :=
  run (do v <- pvname; do own <- pbool; do rays <- prays; do g <- pgrid; do p <- ppos; do tape <- ptape; pret (v, own, rays, g, p, tape))
      (fun '(v, own, rays, g, p, tape) => eoutcome emask (interp (visibility v own rays g p) tape)) l.
Definition op_reset (l : list Z) : list Z :=
  run (do rp <- prparams; do own <- pbool; do tape <- ptape; pret (rp, own, tape))
      (fun '(rp, own, tape) => eoutcome estate (interp (reset_of rp own) tape)) l.
Definition op_reset_leaves (l : list Z) : list Z :=
  run (do rp <- prparams; do own <- pbool; pret (rp, own)) (fun '(rp, own) => eleaves estate (leaves (reset_of rp own))) l.
Definition op_env (l : list Z) : list Z :=
  run (do e <- pgridworld; do debug <- pbool; do ops <- plist piop; do tape <- ptape; pret (e, debug, ops, tape))
      (fun '(e, debug, ops, tape) => eoutcome (elist (eres eiout)) (interp (irun e debug ie_init ops) tape)) l.
Definition op_fstep (l : list Z) : list Z :=
  run (do e <- pgridworld; do debug <- pbool; do s <- pstate; do a <- paction; do tape <- ptape; pret (e, debug, s, a, tape))
      (fun '(e, debug, s, a, tape) =>
         eoutcome (fun out => let '(s', r, t) := out in estate s' ++ erv r ++ ebool t) (interp (functional_step e debug s a) tape)) l.
Definition op_fobs (l : list Z) : list Z :=
  run (do e <- pgridworld; do debug <- pbool; do s <- pstate; do tape <- ptape; pret (e, debug, s, tape))
      (fun '(e, debug, s, tape) => eoutcome estate (interp (functional_observation e debug s) tape)) l.
Definition prepr_kind : parser repr_kind :=
  do x <- pZ; match x with 0 => pret RDefault | 1 => pret RNoOverlap | 2 => pret RCompact | _ => pfail end.
Definition op_repr (l : list Z) : list Z :=
  run (do k <- prepr_kind; do ts <- plist pZ; do cs <- plist pZ; do is_state <- pbool; do s <- pstate; pret (k, ts, cs, is_state, s))
      (fun '(k, ts, cs, is_state, s) =>
         if is_state then
           eres (fun r => concat (concat (sr_grid r)) ++ concat (sr_agent_id r) ++
                          (let '(yy, xx, oh) := sr_agent r in [fst yy; snd yy; fst xx; snd xx] ++ oh) ++ sr_item r ++ obj_upper k ts cs)
                (convert_state k ts cs s)
         else let r := convert_obs k ts cs s in
              0 :: concat (concat (or_grid r)) ++ concat (or_agent_id r) ++ or_item r ++ obj_upper k ts cs) l.
Definition op_contains (l : list Z) : list Z :=
  match l with
  | 0 :: r => run (do ss <- psspace; do s <- pstate; pret (ss, s)) (fun '(ss, s) => ebool (ss_contains ss s)) r
  | 1 :: r => run (do os <- pospace; do s <- pstate; pret (os, s)) (fun '(os, s) => ebool (os_contains os s)) r
  | 2 :: r => run (do acts <- plist paction; do a <- paction; pret (acts, a)) (fun '(acts, a) => ebool (as_contains acts a)) r
  | _ => undecodable
  end.


(* the gym / outer / inner machine (Gym.v) *)
Definition pname : parser (option repr_kind) :=
  do x <- pZ; match x with 0 => pret (Some RDefault) | 1 => pret (Some RNoOverlap) | 2 => pret (Some RCompact) | 3 => pret None | _ => pfail end.
Definition pgop : parser gop :=
  do tag <- pZ;
  match tag with
  | 0 => do op <- piop; pret (IOp op)
  | 1 => pret OReset | 2 => do a <- paction; pret (OStep a) | 3 => pret OObs | 4 => pret OState
  | 5 => pret GReset | 6 => do i <- pZ; pret (GStep i) | 7 => pret GObs | 8 => pret GState
  | 9 => do n <- pname; pret (GSetSRep n) | 10 => do n <- pname; pret (GSetORep n)
  | 11 => pret WReset | 12 => do i <- pZ; pret (WStep i) | 13 => pret WObs
  | _ => pfail
  end.
Definition eorepr (r : obs_repr) : list Z := elist (elist (elist (fun z => [z]))) (or_grid r) ++ elist (elist (fun z => [z])) (or_agent_id r) ++ or_item r.
Definition esrepr (r : state_repr) : list Z :=
  elist (elist (elist (fun z => [z]))) (sr_grid r) ++ elist (elist (fun z => [z])) (sr_agent_id r) ++
  (let '(yy, xx, oh) := sr_agent r in [fst yy; snd yy; fst xx; snd xx] ++ oh) ++ sr_item r.
Definition egout (o : gout) : list Z :=
  match o with
  | GOUnit => [0]
  | GOInner io => 1 :: eiout io
  | GOObs r => 2 :: eorepr r
  | GOState r => 3 :: esrepr r
  | GOStep r rw t => 4 :: eorepr r ++ erv rw ++ ebool t
  | WOStep sr rw t r => 5 :: esrepr sr ++ erv rw ++ ebool t ++ eorepr r
  end.
Definition initial_rep {A} (r : res A) : option A := match r with Ok a => Some a | Err _ => None end.
Definition op_gym (l : list Z) : list Z :=
  run (do e <- pgridworld; do debug <- pbool; do sn <- pname; do on <- pname; do ops <- plist pgop; do tape <- ptape; pret (e, debug, sn, on, ops, tape))
      (fun '(e, debug, sn, on, ops, tape) =>
         let g0 := mkGE ie_init (initial_rep (srep_of sn (gw_sspace e))) (initial_rep (orep_of on (gw_ospace e))) in
         eoutcome (elist (eres egout)) (interp (grun e debug g0 ops) tape)) l.
(* the bounds advertised for a representation of a space: per-object upper bounds *)
Definition op_advertised (l : list Z) : list Z :=
  run (do is_state <- pbool; do n <- pname; do h <- pZ; do w <- pZ; do ts <- plist pZ; do cs <- plist pZ; pret (is_state, n, h, w, ts, cs))
      (fun '(is_state, n, h, w, ts, cs) =>
         eres advertised (if is_state : bool then srep_of n (mkSS h w ts cs) else orep_of n (mkOS h w ts cs))) l.

(* the verified ray checkers, for the sweep over areas too large for the kernel *)
Definition op_fan (l : list Z) : list Z :=
  run (do a <- parea; do o <- ppos; do rays <- prays; pret (a, o, rays))
      (fun '(a, o, rays) => [if acontains a o && fan_ok a o rays then 1 else 0; fan_diagnose a o rays]) l.

(* a component factory: registry rows, name, given keys -> index of the function and the keys bound *)
Definition psigrow : parser sigrow := do n <- pZ; do req <- plist pZ; do opt <- plist pZ; pret (n, req, opt).
Definition op_factory (l : list Z) : list Z :=
  run (do reg <- plist psigrow; do name <- pZ; do ks <- plist pZ; pret (reg, name, ks))
      (fun '(reg, name, ks) => eres (fun r => Z.of_nat (fst r) :: elist (fun e => [fst e]) (snd r)) (factory reg name (map (fun k => (k, tt)) ks))) l.

(* a configuration tree: schema validation and construction order (Model/Schema.v) under the tables regenerated from /repo *)
Fixpoint pcfg_fuel (fuel : nat) : parser cfg :=
  match fuel with
  | O => pfail
  | S f => do t <- pZ;
           if t =? 0 then pret CNull
           else if t =? 1 then do b <- pbool; pret (CBool b)
           else if t =? 2 then do z <- pZ; pret (CInt z)
           else if t =? 3 then pret CFloat
           else if t =? 4 then do s <- pZ; pret (CStr s)
           else if t =? 5 then do l <- plist (pcfg_fuel f); pret (CList l)
           else if t =? 6 then do kv <- plist (do k <- pcfg_fuel f; do v <- pcfg_fuel f; pret (k, v)); pret (CDict kv)
           else pfail
  end.
Definition pcfg : parser cfg := fun l => pcfg_fuel (S (length l)) l.
Fixpoint ecomp (c : comp) : list Z :=
  match c with Comp fk i bound children =>
    fk :: Z.of_nat i :: elist (fun k => [k]) bound ++ (Z.of_nat (length children) :: flat_map ecomp children) end.
Definition edescr (d : descr) : list Z :=
  elist (fun k => [k]) (d_state_types d) ++ elist (fun k => [k]) (d_state_colors d) ++ elist (fun k => [k]) (d_actions d) ++
  elist (fun k => [k]) (d_obs_types d) ++ elist (fun k => [k]) (d_obs_colors d) ++
  ecomp (d_reset d) ++ ecomp (d_transition d) ++ ecomp (d_reward d) ++ ecomp (d_observation d) ++ ecomp (d_terminating d).
Definition op_build (l : list Z) : list Z :=
  run (do sel <- pZ; do c <- pcfg; pret (sel, c))
      (fun '(sel, c) => if sel =? 0 then eres edescr (build gen_tabs c)
                        else if sel =? 1 then ebool (valid gen_tabs (k_env gen_tabs) c)
                        else eres ecomp (fn gen_tabs (sel - 10) c)) l.

Definition dispatch (l : list Z) : list Z :=
  match l with
  | 1 :: r => op_geometry r
  | 2 :: r => op_transition r
  | 3 :: r => op_transition_leaves r
  | 4 :: r => op_reward r
  | 5 :: r => op_termination r
  | 6 :: r => op_observation r
  | 7 :: r => op_visibility r
  | 8 :: r => op_reset r
  | 9 :: r => op_reset_leaves r
  | 10 :: r => op_env r
  | 11 :: r => op_contains r
  | 12 :: r => op_fstep r
  | 13 :: r => op_fobs r
  | 14 :: r => op_repr r
  | 15 :: r => op_gym r
  | 16 :: r => op_advertised r
  | 17 :: r => op_fan r
  | 18 :: r => op_factory r
  | 19 :: r => op_build r
  | _ => undecodable
  end.
