(* GridWorld (envs/gridworld.py), InnerEnv (envs/inner_env.py) as state machines *)
From Coq Require Import ZArith List Bool.
From GV.Model Require Export Obs.
Import ListNotations.
Open Scope Z_scope.

Record obsfun := mkOF { of_vis : vname; of_area : area }.
Record gridworld := mkGW {
  gw_sspace : sspace; gw_actions : list Action; gw_ospace : ospace;
  gw_reset : bool -> Rand state;            (* reset function, given "an rng was passed" *)
  gw_trans : list tname; gw_obs : obsfun; gw_reward : rname; gw_term : tmname;
  gw_rays : list ray                        (* oracle: the ray fan of the view (used by the ray-traced functions only) *)
}.

Definition debug_check (debug ok : bool) : Rand unit := if debug && negb ok then Raise ValueError else Ret tt.

(* GridWorld.functional_reset / functional_step / functional_observation; the environment passes its own rng to
   the reset, transition and observation functions, and none to reward / termination *)
Definition functional_reset (e : gridworld) (debug : bool) : Rand state :=
  bind (gw_reset e true) (fun s => bind (debug_check debug (ss_contains (gw_sspace e) s)) (fun _ => Ret s)).
Definition functional_step (e : gridworld) (debug : bool) (s : state) (a : Action) : Rand (state * rv * bool) :=
  bind (debug_check debug (ss_contains (gw_sspace e) s)) (fun _ =>
  if negb (as_contains (gw_actions e) a) then Raise ValueError else
  bind (chain (map tfun_of (gw_trans e)) s a true) (fun s' =>
  bind (debug_check debug (ss_contains (gw_sspace e) s')) (fun _ =>
  bind (lift (reward (gw_reward e) s a s')) (fun r =>
  bind (lift (terminates (gw_term e) s a s')) (fun t => Ret (s', r, t)))))).
Definition functional_observation (e : gridworld) (debug : bool) (s : state) : Rand observation :=
  bind (from_visibility (of_vis (gw_obs e)) true (gw_rays e) (of_area (gw_obs e)) s) (fun o =>
  bind (debug_check debug (os_contains (gw_ospace e) o)) (fun _ => Ret o)).

(* InnerEnv: _state and the memoised _observation *)
Record ienv := mkIE { ie_state : option state; ie_obs : option observation }.
Definition ie_init : ienv := mkIE None None.
Inductive iop := OpReset | OpStep (a : Action) | OpReadState | OpReadObs.
Inductive iout := OutUnit | OutStep (r : rv) (t : bool) | OutState (s : state) | OutObs (o : observation).
Definition the_state (m : ienv) : Rand state :=
  match ie_state m with Some s => Ret s | None => Raise RuntimeError end.
Definition istep (e : gridworld) (debug : bool) (m : ienv) (op : iop) : Rand (ienv * iout) :=
  match op with
  | OpReset => bind (functional_reset e debug) (fun s => Ret (mkIE (Some s) None, OutUnit))
  | OpStep a =>
      bind (the_state m) (fun s => bind (functional_step e debug s a) (fun '(s', r, t) =>
      Ret (mkIE (Some s') None, OutStep r t)))
  | OpReadState => bind (the_state m) (fun s => Ret (m, OutState s))
  | OpReadObs =>
      match ie_obs m with
      | Some o => Ret (m, OutObs o)
      | None => bind (the_state m) (fun s => bind (functional_observation e debug s) (fun o =>
                Ret (mkIE (ie_state m) (Some o), OutObs o)))
      end
  end.
(* a failing operation raises and leaves the machine as it was: run a sequence, collecting outputs (Ok) or the
   exception class (Err) of every operation *)
Fixpoint catch_all {A} (m : Rand A) : Rand (res A) :=
  match m with Ret a => Ret (Ok a) | Raise e => Ret (Err e) | Draw g r k => Draw g r (fun ans => catch_all (k ans)) end.
Fixpoint irun (e : gridworld) (debug : bool) (m : ienv) (ops : list iop) : Rand (list (res iout)) :=
  match ops with
  | [] => Ret []
  | op :: t =>
      bind (catch_all (istep e debug m op)) (fun r =>
      match r with
      | Ok (m', out) => bind (irun e debug m' t) (fun outs => Ret (Ok out :: outs))
      | Err x => bind (irun e debug m t) (fun outs => Ret (Err x :: outs))
      end)
  end.
