(* Component factories (envs/*_functions.py: factory; utils/functions.py: checkraise_kwargs, select_kwargs) and the assembly of an
   environment from a configuration (envs/yaml/factory.py).  Names and parameter keys are interned integers (Gen/Signatures.v);
   parameter VALUES are opaque (type V): a factory only looks at keys. *)
From Coq Require Import ZArith List Bool.
From GV.Model Require Export Rand.
Import ListNotations.
Open Scope Z_scope.

Definition sigrow : Type := Z * list Z * list Z.          (* component name, required keys, optional keys *)
Definition row_name (r : sigrow) : Z := fst (fst r).
Definition row_req (r : sigrow) : list Z := snd (fst r).
Definition row_opt (r : sigrow) : list Z := snd r.
Definition memz (x : Z) (l : list Z) : bool := existsb (Z.eqb x) l.

Fixpoint lookup_row (reg : list sigrow) (name : Z) (k : nat) : option (nat * sigrow) :=
  match reg with [] => None | r :: t => if row_name r =? name then Some (k, r) else lookup_row t name (S k) end.

Section Factory.
Context {V : Type}.
Definition kwargs : Type := list (Z * V).                 (* a python dict in insertion order; keys are unique *)
Definition keys (kw : kwargs) : list Z := map fst kw.
(* checkraise_kwargs: every required key must be present *)
Definition check_required (kw : kwargs) (req : list Z) : bool := forallb (fun k => memz k (keys kw)) req.
(* select_kwargs: keep exactly the entries whose key the function accepts, in the order given *)
Definition select (kw : kwargs) (accepted : list Z) : kwargs := filter (fun e => memz (fst e) accepted) kw.
(* factory(name, **kwargs) -> partial(function, **selected): the registry index of the function and the keywords bound *)
Definition factory (reg : list sigrow) (name : Z) (kw : kwargs) : res (nat * kwargs) :=
  match lookup_row reg name 0 with
  | None => Err ValueError
  | Some (i, r) => if check_required kw (row_req r) then Ok (i, select kw (row_req r ++ row_opt r)) else Err ValueError
  end.
End Factory.
