(* Grid (gym_gridverse/grid.py): list of rows.  Python list indexing (negative indices wrap,
   out-of-range raises IndexError) is modelled explicitly by py_index. *)
From Coq Require Import ZArith List Bool.
From GV.Model Require Export Obj.
Import ListNotations.
Open Scope Z_scope.

Definition grid := list (list obj).
Definition gheight (g : grid) : Z := Z.of_nat (length g).
Definition gwidth (g : grid) : Z := match g with [] => 0 | r :: _ => Z.of_nat (length r) end.
Definition wf_grid (g : grid) : Prop := g <> [] /\ Forall (fun r => Z.of_nat (length r) = gwidth g) g /\ 0 < gwidth g.
Definition wf_gridb (g : grid) : bool :=
  negb (gheight g =? 0) && forallb (fun r => Z.of_nat (length r) =? gwidth g) g && (0 <? gwidth g).
Definition garea (g : grid) : area := mkA 0 (gheight g - 1) 0 (gwidth g - 1).
Definition in_grid (g : grid) (p : pos) : bool := acontains (garea g) p.

(* l[i] for a python list of length n *)
Definition py_index (n i : Z) : option nat :=
  if (0 <=? i) && (i <? n) then Some (Z.to_nat i)
  else if (- n <=? i) && (i <? 0) then Some (Z.to_nat (i + n)) else None.
Definition py_nth {A} (l : list A) (i : Z) : res A :=
  match py_index (Z.of_nat (length l)) i with
  | Some k => match nth_error l k with Some a => Ok a | None => Err IndexError end
  | None => Err IndexError end.
Fixpoint upd {A} (l : list A) (k : nat) (a : A) : list A :=
  match l, k with [], _ => [] | _ :: t, O => a :: t | x :: t, S k' => x :: upd t k' a end.
Definition py_set {A} (l : list A) (i : Z) (a : A) : res (list A) :=
  match py_index (Z.of_nat (length l)) i with Some k => Ok (upd l k a) | None => Err IndexError end.

(* Grid.__getitem__ / __setitem__ : self.objects[y][x] *)
Definition grid_get (g : grid) (p : pos) : res obj := rbind (py_nth g (fst p)) (fun r => py_nth r (snd p)).
Definition grid_set (g : grid) (p : pos) (o : obj) : res grid :=
  rbind (py_nth g (fst p)) (fun r => rbind (py_set r (snd p) o) (fun r' => py_set g (fst p) r')).

(* in-range accessors (what the code reaches after an area.contains guard) *)
Definition getn (g : grid) (i j : nat) : option obj :=
  match nth_error g i with Some r => nth_error r j | None => None end.
Definition gget (g : grid) (p : pos) : option obj :=
  if in_grid g p then getn g (Z.to_nat (fst p)) (Z.to_nat (snd p)) else None.
Definition gset (g : grid) (p : pos) (o : obj) : grid :=
  if in_grid g p then
    match nth_error g (Z.to_nat (fst p)) with
    | Some r => upd g (Z.to_nat (fst p)) (upd r (Z.to_nat (snd p)) o)
    | None => g end
  else g.
(* the cell, or Hidden outside the grid *)
Definition lookupH (g : grid) (p : pos) : obj := match gget g p with Some o => o | None => Hidden end.

(* Grid.swap: self[p], self[q] = self[q], self[p]  (RHS evaluated first, then assigned left to right) *)
Definition grid_swap (g : grid) (p q : pos) : res grid :=
  rbind (grid_get g q) (fun oq => rbind (grid_get g p) (fun op =>
  rbind (grid_set g p oq) (fun g1 => grid_set g1 q op))).

(* positions in row-major order, cells with positions *)
Definition gpositions (g : grid) : list pos := apositions (garea g).

(* tabulated grids *)
Definition tab {A} (h w : nat) (f : nat -> nat -> A) : list (list A) :=
  map (fun i => map (fun j => f i j) (seq 0 w)) (seq 0 h).

(* Grid.subgrid(area): cells of the area, Hidden outside the grid *)
Definition subgrid (g : grid) (a : area) : grid :=
  tab (Z.to_nat (aheight a)) (Z.to_nat (awidth a))
      (fun i j => lookupH g (ymin a + Z.of_nat i, xmin a + Z.of_nat j)).

(* the four list rotations of grid.py, by index *)
Definition get0 (g : grid) (i j : nat) : obj := match getn g i j with Some o => o | None => Hidden end.
Definition hN (g : grid) : nat := length g.
Definition wN (g : grid) : nat := match g with [] => O | r :: _ => length r end.
Definition rot_kind (k : rotkind) (g : grid) : grid :=
  let h := hN g in let w := wN g in
  match k with
  | RotId => g
  | RotCW => tab w h (fun i j => get0 g (h - 1 - j) i)
  | RotCCW => tab w h (fun i j => get0 g j (w - 1 - i))
  | RotHalf => tab h w (fun i j => get0 g (h - 1 - i) (w - 1 - j))
  end.
(* Grid.__mul__(orientation) *)
Definition grid_rot_by (o : ori) (g : grid) : grid := rot_kind (grid_rot o) g.

(* Grid.__eq__ : same shape and cellwise GridObject.__eq__ *)
Definition grid_eqb (g g' : grid) : bool :=
  (gheight g =? gheight g') && (gwidth g =? gwidth g') &&
  forallb (fun p => obj_eqb (lookupH g p) (lookupH g' p)) (gpositions g).
Definition grid_types (g : grid) : list Z := map oty (concat g).
Definition grid_from_shape (h w : Z) (o : obj) : grid := tab (Z.to_nat h) (Z.to_nat w) (fun _ _ => o).
