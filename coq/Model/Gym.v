(* OuterEnv (outer_env.py), GymEnvironment and GymStateWrapper (gym.py) as a state machine over the InnerEnv machine of Env.v.
   Unlike `irun`, an operation here can fail AFTER the inner environment has already moved (gym step: the inner step succeeds, the
   observation read raises), so every operation returns the new machine together with `res output`. *)
From Coq Require Import ZArith List Bool.
From GV.Model Require Export Env Repr.
Import ListNotations.
Open Scope Z_scope.

(* sorted duplicate-free list of the elements of l  (sorted(set(l))) *)
Fixpoint insertu (x : Z) (l : list Z) : list Z :=
  match l with [] => [x] | y :: t => if x <? y then x :: l else if x =? y then l else y :: insertu x t end.
Definition sortu (l : list Z) : list Z := fold_right insertu [] l.

(* a representation = its kind and the (types, colours) it is built from *)
Definition rspec : Type := repr_kind * list Z * list Z.
(* make_state_representation(name, state_space) / make_observation_representation(name, observation_space);
   name = None stands for an unknown name (ValueError) *)
Definition srep_of (name : option repr_kind) (sp : sspace) : res rspec :=
  match name with
  | None => Err ValueError
  | Some k => if state_repr_allowed (ss_types sp) then Ok (k, sortu (ty_NoneGridObject :: ss_types sp), sortu (0 :: ss_colors sp))
              else Err ValueError
  end.
Definition orep_of (name : option repr_kind) (sp : ospace) : res rspec :=
  match name with
  | None => Err ValueError
  | Some k => Ok (k, sortu (ty_NoneGridObject :: ty_Hidden :: os_types sp), sortu (0 :: os_colors sp))
  end.

Record genv := mkGE { ge_inner : ienv; ge_srep : option rspec; ge_orep : option rspec }.
Definition set_inner (g : genv) (m : ienv) : genv := mkGE m (ge_srep g) (ge_orep g).

Inductive gop :=
| IOp (op : iop)                                                (* the InnerEnv API used directly on the wrapped environment *)
| OReset | OStep (a : Action) | OObs | OState                   (* OuterEnv.reset / step / .observation / .state *)
| GReset | GStep (i : Z) | GObs | GState                       (* GymEnvironment.reset / step / .observation / .state *)
| GSetSRep (name : option repr_kind) | GSetORep (name : option repr_kind)
| WReset | WStep (i : Z) | WObs.                                (* GymStateWrapper.reset / step / .observation *)
Inductive gout :=
| GOUnit
| GOInner (o : iout)
| GOObs (o : obs_repr)
| GOState (s : state_repr)
| GOStep (o : obs_repr) (r : rv) (t : bool)                     (* info = {} *)
| WOStep (s : state_repr) (r : rv) (t : bool) (info_obs : obs_repr).   (* info = {'observation': o} *)

Section Gym.
Variables (e : gridworld) (debug : bool).

(* OuterEnv.observation : RuntimeError without a representation; otherwise converts InnerEnv.observation (memoised) *)
Definition outer_obs (g : genv) : Rand (genv * res obs_repr) :=
  match ge_orep g with
  | None => Ret (g, Err RuntimeError)
  | Some (k, ts, cs) =>
      bind (catch_all (istep e debug (ge_inner g) OpReadObs)) (fun r =>
      match r with
      | Ok (m', OutObs o) => Ret (set_inner g m', Ok (convert_obs k ts cs o))
      | Ok (_, _) => Ret (g, Err RuntimeError)
      | Err x => Ret (g, Err x)
      end)
  end.
(* OuterEnv.state *)
Definition outer_state (g : genv) : res state_repr :=
  match ge_srep g with
  | None => Err RuntimeError
  | Some (k, ts, cs) => match ie_state (ge_inner g) with None => Err RuntimeError | Some s => convert_state k ts cs s end
  end.
Definition rmap {A B} (f : A -> B) (r : res A) : res B := match r with Ok a => Ok (f a) | Err x => Err x end.

(* GymEnvironment.reset: outer.reset(); return self.observation *)
Definition gym_reset (g : genv) : Rand (genv * res obs_repr) :=
  bind (catch_all (istep e debug (ge_inner g) OpReset)) (fun r =>
  match r with
  | Ok (m', _) => outer_obs (set_inner g m')
  | Err x => Ret (g, Err x)
  end).
(* GymEnvironment.step(i): action_space.int_to_action(i) = actions[i] (python indexing); outer.step; return self.observation, r, done, {} *)
Definition gym_step (g : genv) (i : Z) : Rand (genv * res (obs_repr * rv * bool)) :=
  match py_nth (gw_actions e) i with
  | Err x => Ret (g, Err x)
  | Ok a =>
      bind (catch_all (istep e debug (ge_inner g) (OpStep a))) (fun r =>
      match r with
      | Ok (m', OutStep rw t) => bind (outer_obs (set_inner g m')) (fun '(g', ro) => Ret (g', rmap (fun o => (o, rw, t)) ro))
      | Ok (_, _) => Ret (g, Err RuntimeError)
      | Err x => Ret (g, Err x)
      end)
  end.

Definition gstep (g : genv) (op : gop) : Rand (genv * res gout) :=
  match op with
  | IOp op =>
      bind (catch_all (istep e debug (ge_inner g) op)) (fun r =>
      match r with Ok (m', out) => Ret (set_inner g m', Ok (GOInner out)) | Err x => Ret (g, Err x) end)
  | OReset =>
      bind (catch_all (istep e debug (ge_inner g) OpReset)) (fun r =>
      match r with Ok (m', _) => Ret (set_inner g m', Ok GOUnit) | Err x => Ret (g, Err x) end)
  | OStep a =>
      bind (catch_all (istep e debug (ge_inner g) (OpStep a))) (fun r =>
      match r with Ok (m', out) => Ret (set_inner g m', Ok (GOInner out)) | Err x => Ret (g, Err x) end)
  | OObs => bind (outer_obs g) (fun '(g', r) => Ret (g', rmap GOObs r))
  | OState => Ret (g, rmap GOState (outer_state g))
  | GReset => bind (gym_reset g) (fun '(g', r) => Ret (g', rmap GOObs r))
  | GStep i => bind (gym_step g i) (fun '(g', r) => Ret (g', rmap (fun '(o, rw, t) => GOStep o rw t) r))
  | GObs => bind (outer_obs g) (fun '(g', r) => Ret (g', rmap GOObs r))
  | GState => Ret (g, rmap GOState (outer_state g))
  | GSetSRep name =>
      match srep_of name (gw_sspace e) with
      | Ok sp => Ret (mkGE (ge_inner g) (Some sp) (ge_orep g), Ok GOUnit)
      | Err x => Ret (g, Err x) end
  | GSetORep name =>
      match orep_of name (gw_ospace e) with
      | Ok sp => Ret (mkGE (ge_inner g) (ge_srep g) (Some sp), Ok GOUnit)
      | Err x => Ret (g, Err x) end
  (* GymStateWrapper.reset: self.env.reset(); return self.env.state *)
  | WReset => bind (gym_reset g) (fun '(g', r) =>
      match r with Ok _ => Ret (g', rmap GOState (outer_state g')) | Err x => Ret (g', Err x) end)
  (* GymStateWrapper.step: obs, r, done, info = env.step(a); info['observation'] = obs; return env.state, r, done, info *)
  | WStep i => bind (gym_step g i) (fun '(g', r) =>
      match r with
      | Ok (o, rw, t) => Ret (g', rmap (fun s => WOStep s rw t o) (outer_state g'))
      | Err x => Ret (g', Err x) end)
  | WObs => Ret (g, rmap GOState (outer_state g))
  end.

Fixpoint grun (g : genv) (ops : list gop) : Rand (list (res gout)) :=
  match ops with
  | [] => Ret []
  | op :: t => bind (gstep g op) (fun '(g', r) => bind (grun g' t) (fun outs => Ret (r :: outs)))
  end.
End Gym.

(* the spaces advertised at the gym layer: per key the upper-bound vector of one grid object (lower bounds are 0), the grid shape, and
   -- for states -- the agent box [-1,1]^2 x [0,1]^4 *)
Definition advertised (sp : rspec) : list Z := let '(k, ts, cs) := sp in obj_upper k ts cs.
