(* Grid objects (gym_gridverse/grid_object.py).  An object is its registry index, state index,
   colour value and (for boxes) content.  Flags are the generated tables of Gen/Tables.v. *)
From Coq Require Import ZArith List Bool.
From GV.Model Require Export Base.
Import ListNotations.
Open Scope Z_scope.

Inductive obj : Type := Obj (ty st col : Z) (content : option obj).
Definition oty (o : obj) : Z := match o with Obj t _ _ _ => t end.
Definition ost (o : obj) : Z := match o with Obj _ s _ _ => s end.
Definition ocol (o : obj) : Z := match o with Obj _ _ c _ => c end.
Definition ocontent (o : obj) : option obj := match o with Obj _ _ _ c => c end.

Definition mk0 (ty : Z) : obj := Obj ty 0 0 None.
Definition Floor := mk0 ty_Floor.
Definition Wall := mk0 ty_Wall.
Definition Hidden := mk0 ty_Hidden.
Definition NoneObj := mk0 ty_NoneGridObject.
Definition MovingObstacle := mk0 ty_MovingObstacle.
Definition Exit (c : Z) := Obj ty_Exit 0 c None.
Definition Key (c : Z) := Obj ty_Key 0 c None.
Definition Door (s c : Z) := Obj ty_Door s c None.
Definition Telepod (c : Z) := Obj ty_Telepod 0 c None.
Definition Beacon (c : Z) := Obj ty_Beacon 0 c None.
Definition Box (c : obj) := Obj ty_Box 0 0 (Some c).

Definition is_ty (t : Z) (o : obj) : bool := oty o =? t.     (* isinstance(o, T) for the flat built-in hierarchy *)
Definition o_blocks_movement (o : obj) := blocks_movement (oty o) (ost o).
Definition o_blocks_vision (o : obj) := blocks_vision (oty o) (ost o).
Definition o_holdable (o : obj) := holdable (oty o) (ost o).

(* GridObject.__eq__ : type, state, colour -- ignores the content of boxes *)
Definition obj_eqb (a b : obj) : bool := (oty a =? oty b) && (ost a =? ost b) && (ocol a =? ocol b).
(* structural equality (identity of the described object, content included) *)
Fixpoint obj_beq (a b : obj) : bool :=
  match a, b with
  | Obj t s c k, Obj t' s' c' k' =>
      (t =? t') && (s =? s') && (c =? c') &&
      match k, k' with None, None => true | Some x, Some y => obj_beq x y | _, _ => false end
  end.

(* objects the constructors can build: state below num_states, colour a Color value (NONE unless the
   constructor takes one), content exactly for boxes and never NoneGridObject/Hidden *)
Definition color_ok (c : Z) : bool := match Color_of_value c with Some _ => true | None => false end.
Fixpoint valid_obj (o : obj) : bool :=
  match o with
  | Obj t s c k =>
      (0 <=? t) && (t <? num_types) && (0 <=? s) && (s <? num_states t)
      && (if ctor_has_color t then color_ok c else c =? 0)
      && match k with
         | None => negb (ctor_has_content t)
         | Some x => ctor_has_content t && negb (oty x =? ty_NoneGridObject) && negb (oty x =? ty_Hidden) && valid_obj x
         end
  end.
