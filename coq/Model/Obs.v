(* Observation functions (envs/observation_functions.py): from_visibility and the four built-in ones *)
From Coq Require Import ZArith List Bool.
From GV.Model Require Export Vis.
Import ListNotations.
Open Scope Z_scope.

(* an observation is a grid + agent, like a state *)
Definition observation := state.

Definition hide (g : grid) (m : mask) : grid :=
  tab (hN g) (wN g) (fun i j => if visible m (Z.of_nat i, Z.of_nat j) then get0 g i j else Hidden).

Definition from_visibility (v : vname) (own : bool) (rays : list ray) (a : area) (s : state) : Rand observation :=
  bind (lift (tact_area (mkT (spos s) (sori s)) a)) (fun pov_area =>
  let pov_pos := (- ymin a, - xmin a) in
  let og := grid_rot_by (sori s) (subgrid (sgrid s) pov_area) in
  bind (visibility v own rays og pov_pos) (fun m =>
  Ret (mkS (hide og m) pov_pos FORWARD (sheld s)))).
