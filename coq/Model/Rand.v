(* Randomness as a choice tree.  Every call the code makes on a numpy Generator is one Draw node:
     rng.choice(n)                         -> RChoice n      answer [i], 0 <= i < n
     rng.integers(lo, hi, endpoint=True)   -> RInts lo hi    answer [i], lo <= i <= hi
     rng.choice(n, size=k, replace=False)  -> RSample n k    answer k distinct indices below n
     rng.shuffle(range(n))                 -> RPerm n        answer a permutation of 0..n-1
     rng.random(n cells)                   -> RUnif n        answer n integers z, u = z / 2^53
   The boolean of a Draw says whether the LIBRARY-LEVEL generator is the one consumed (rng=None). *)
From Coq Require Import ZArith List Bool.
From GV.Model Require Export Base.
Import ListNotations.
Open Scope Z_scope.

Inductive req : Set := RChoice (n : Z) | RInts (lo hi : Z) | RSample (n k : Z) | RPerm (n : Z) | RUnif (n : Z).
Inductive Rand (A : Type) : Type :=
| Ret (a : A) | Raise (e : exn) | Draw (global : bool) (r : req) (k : list Z -> Rand A).
Arguments Ret {A} a.
Arguments Raise {A} e.
Arguments Draw {A} global r k.

Fixpoint bind {A B} (m : Rand A) (f : A -> Rand B) : Rand B :=
  match m with Ret a => f a | Raise e => Raise e | Draw g r k => Draw g r (fun ans => bind (k ans) f) end.
Definition lift {A} (r : res A) : Rand A := match r with Ok a => Ret a | Err e => Raise e end.
(* try: m  except e: h *)
Fixpoint catch {A} (m : Rand A) (e0 : exn) (h : Rand A) : Rand A :=
  match m with
  | Ret a => Ret a
  | Raise e => if match e, e0 with ValueError, ValueError => true | IndexError, IndexError => true | _, _ => false end then h else Raise e
  | Draw g r k => Draw g r (fun ans => catch (k ans) e0 h)
  end.

Definition two53 : Z := 9007199254740992.
Fixpoint nodupb (l : list Z) : bool := match l with [] => true | x :: t => negb (existsb (Z.eqb x) t) && nodupb t end.
Definition inrange (lo hi : Z) (l : list Z) : bool := forallb (fun i => (lo <=? i) && (i <? hi)) l.
Definition valid_ans (r : req) (ans : list Z) : bool :=
  match r with
  | RChoice n => (Z.of_nat (length ans) =? 1) && inrange 0 n ans
  | RInts lo hi => (Z.of_nat (length ans) =? 1) && inrange lo (hi + 1) ans
  | RSample n k => (Z.of_nat (length ans) =? k) && inrange 0 n ans && nodupb ans
  | RPerm n => (Z.of_nat (length ans) =? n) && inrange 0 n ans && nodupb ans
  | RUnif n => (Z.of_nat (length ans) =? n) && inrange 0 two53 ans
  end.

(* the numpy calls, with the ValueErrors numpy raises *)
Definition hd0 (l : list Z) : Z := match l with x :: _ => x | [] => 0 end.
Definition rchoice (g : bool) (n : Z) : Rand Z :=
  if n <=? 0 then Raise ValueError else Draw g (RChoice n) (fun ans => Ret (hd0 ans)).
Definition rints (g : bool) (lo hi : Z) : Rand Z :=        (* inclusive bounds *)
  if hi <? lo then Raise ValueError else Draw g (RInts lo hi) (fun ans => Ret (hd0 ans)).
Definition rsample (g : bool) (n k : Z) : Rand (list Z) :=
  if (k <? 0) || (n <? k) || ((n <=? 0) && negb (k =? 0)) then Raise ValueError else Draw g (RSample n k) (fun ans => Ret ans).
Definition rperm (g : bool) (n : Z) : Rand (list Z) := Draw g (RPerm n) (fun ans => Ret ans).
Definition runif (g : bool) (n : Z) : Rand (list Z) := Draw g (RUnif n) (fun ans => Ret ans).

(* replaying recorded answers *)
Inductive outcome (A : Type) : Type := OOk (a : A) | OErr (e : exn) | OBadTape | OShortTape | OLongTape.
Arguments OOk {A} a. Arguments OErr {A} e. Arguments OBadTape {A}. Arguments OShortTape {A}. Arguments OLongTape {A}.
Fixpoint interp {A} (m : Rand A) (tape : list (list Z)) : outcome A * list (bool * req) :=
  match m with
  | Ret a => (match tape with [] => OOk a | _ => OLongTape end, [])
  | Raise e => (match tape with [] => OErr e | _ => OLongTape end, [])
  | Draw g r k =>
      match tape with
      | [] => (OShortTape, [(g, r)])
      | ans :: tape' =>
          if valid_ans r ans then let '(o, log) := interp (k ans) tape' in (o, (g, r) :: log)
          else (OBadTape, [(g, r)])
      end
  end.

(* "for every random outcome" *)
Inductive Leaf {A} : Rand A -> res A -> Prop :=
| LRet a : Leaf (Ret a) (Ok a)
| LRaise e : Leaf (Raise e) (Err e)
| LDraw g r k ans x : valid_ans r ans = true -> Leaf (k ans) x -> Leaf (Draw g r k) x.
(* no draw on the library-level generator along any path *)
Inductive NoGlobal {A} : Rand A -> Prop :=
| NGRet a : NoGlobal (Ret a)
| NGRaise e : NoGlobal (Raise e)
| NGDraw r k : (forall ans, NoGlobal (k ans)) -> NoGlobal (Draw false r k).
Inductive NoDraw {A} : Rand A -> Prop :=
| NDRet a : NoDraw (Ret a)
| NDRaise e : NoDraw (Raise e).

(* enumeration of all outcomes of a finite tree (RUnif cannot be enumerated: None) *)
Fixpoint insert_all (x : Z) (l : list Z) : list (list Z) :=
  match l with [] => [[x]] | y :: t => (x :: l) :: map (cons y) (insert_all x t) end.
Fixpoint perms (l : list Z) : list (list Z) :=
  match l with [] => [[]] | x :: t => flat_map (insert_all x) (perms t) end.
Fixpoint samples (k : nat) (l : list Z) : list (list Z) :=   (* ordered k-samples without replacement *)
  match k with
  | O => [[]]
  | S k' => flat_map (fun x => map (cons x) (samples k' (filter (fun y => negb (y =? x)) l))) l
  end.
Definition answers (r : req) : option (list (list Z)) :=
  match r with
  | RChoice n => Some (map (fun i => [i]) (zrange 0 n))
  | RInts lo hi => Some (map (fun i => [i]) (zrange lo (hi + 1)))
  | RSample n k => Some (samples (Z.to_nat k) (zrange 0 n))
  | RPerm n => Some (perms (zrange 0 n))
  | RUnif n => if n =? 0 then Some [[]] else None
  end.
Fixpoint leaves {A} (m : Rand A) : option (list (res A)) :=
  match m with
  | Ret a => Some [Ok a]
  | Raise e => Some [Err e]
  | Draw _ r k =>
      match answers r with
      | None => None
      | Some l =>
          fold_right (fun ans acc => match leaves (k ans), acc with Some a, Some b => Some (a ++ b) | _, _ => None end)
                     (Some []) l
      end
  end.
