(* Rays (utils/raytracing.py).  compute_ray is float trigonometry (sin / cos, 0.01 steps, banker's rounding): the rays themselves
   are an INPUT of the model.  What the model owns are CHECKERS for the contract C19 states (start, inside, no repeat, adjacent
   steps, ends on the border, the fan covers the area), whose meaning is proved in Lemmas/C19L.v.  They are evaluated by the kernel
   on the fans of Gen/Rays.v and, extracted, on every fan of the sweep. *)
From Coq Require Import ZArith List Bool.
From GV.Model Require Export Vis.
Import ListNotations.
Open Scope Z_scope.

Definition cheb_adj (p q : pos) : bool :=
  (Z.abs (fst p - fst q) <=? 1) && (Z.abs (snd p - snd q) <=? 1) && negb (pos_eqb p q).
Fixpoint steps_ok (r : ray) : bool :=
  match r with a :: (b :: _) as t => cheb_adj a b && steps_ok t | _ => true end.
Fixpoint nodup_pos (r : ray) : bool :=
  match r with [] => true | p :: t => negb (memP p t) && nodup_pos t end.
Definition on_border (a : area) (p : pos) : bool :=
  acontains a p && ((fst p =? ymin a) || (fst p =? ymax a) || (snd p =? xmin a) || (snd p =? xmax a)).
Definition starts_at (o : pos) (r : ray) : bool := match r with [] => false | p :: _ => pos_eqb p o end.
Definition ray_ok (a : area) (o : pos) (r : ray) : bool :=
  starts_at o r && forallb (acontains a) r && nodup_pos r && steps_ok r && on_border a (last r o).
Definition covered (rays : list ray) (p : pos) : bool := existsb (memP p) rays.
Definition fan_ok (a : area) (o : pos) (rays : list ray) : bool :=
  negb (match rays with [] => true | _ => false end) && forallb (ray_ok a o) rays && forallb (covered rays) (apositions a).
(* which clause fails first (0 = all hold): for the harness' diagnostics only *)
Definition fan_diagnose (a : area) (o : pos) (rays : list ray) : Z :=
  if match rays with [] => true | _ => false end then 1
  else if negb (forallb (starts_at o) rays) then 2
  else if negb (forallb (fun r => forallb (acontains a) r) rays) then 3
  else if negb (forallb nodup_pos rays) then 4
  else if negb (forallb steps_ok rays) then 5
  else if negb (forallb (fun r => on_border a (last r o)) rays) then 6
  else if negb (forallb (covered rays) (apositions a)) then 7
  else 0.
