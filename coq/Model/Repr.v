(* Numeric representations (representations/*.py).  A space is given by ts = sorted (type indices of the declared object
   types plus NoneGridObject [states] / plus Hidden and NoneGridObject [observations]) and cs = sorted (declared colour
   values plus NONE).  Arrays are nested lists of integers; the two normalised agent coordinates are exact fractions
   (numerator, denominator) -- the harness divides them with python's float division. *)
From Coq Require Import ZArith List Bool.
From GV.Model Require Export State.
Import ListNotations.
Open Scope Z_scope.

Inductive repr_kind := RDefault | RNoOverlap | RCompact.
Definition maxl (l : list Z) : Z := fold_right Z.max 0 l.
Definition max_type (ts : list Z) : Z := maxl ts.
Definition max_state (ts : list Z) : Z := maxl (map num_states ts).     (* NOTE num_states, not num_states - 1 (as in the code) *)
Definition max_color (cs : list Z) : Z := maxl cs.

(* compact maps: consecutive indices handed out to types, then (type, state) pairs, then colours *)
Definition type_keys (ts : list Z) : list Z := ts.
Definition state_keys (ts : list Z) : list (Z * Z) := flat_map (fun t => map (fun j => (t, j)) (zrange 0 (num_states t))) ts.
Fixpoint index_of {A} (eqb : A -> A -> bool) (x : A) (l : list A) (k : Z) : Z :=
  match l with [] => -1 | y :: t => if eqb x y then k else index_of eqb x t (k + 1) end.
Definition pair_eqb (a b : Z * Z) : bool := (fst a =? fst b) && (snd a =? snd b).
Definition n_types (ts : list Z) : Z := Z.of_nat (length ts).
Definition n_states (ts : list Z) : Z := Z.of_nat (length (state_keys ts)).
Definition n_colors (cs : list Z) : Z := Z.of_nat (length cs).
Definition type_map (ts : list Z) (t : Z) : Z := index_of Z.eqb t ts 0.
Definition status_map (ts : list Z) (t j : Z) : Z := index_of pair_eqb (t, j) (state_keys ts) (n_types ts).
Definition color_map (ts cs : list Z) (c : Z) : Z := index_of Z.eqb c cs (n_types ts + n_states ts).

(* the per-object encoding: one function of the object alone *)
Definition enc_obj (k : repr_kind) (ts cs : list Z) (o : obj) : list Z :=
  match k with
  | RDefault => [oty o; ost o; ocol o]
  | RNoOverlap => [oty o; max_type ts + ost o + 1; max_type ts + max_state ts + ocol o + 2]
  | RCompact => [type_map ts (oty o); status_map ts (oty o) (ost o); color_map ts cs (ocol o)]
  end.
(* upper bounds of the per-object space (lower bounds are 0) *)
Definition obj_upper (k : repr_kind) (ts cs : list Z) : list Z :=
  match k with
  | RDefault => [max_type ts; max_state ts; max_color cs]
  | RNoOverlap => [max_type ts; max_type ts + max_state ts + 1; max_type ts + max_state ts + max_color cs + 2]
  | RCompact => [maxl (map (type_map ts) (zrange 0 (max_type ts + 1)));
                 maxl (flat_map (fun t => map (status_map ts t) (zrange 0 (max_state ts + 1))) (zrange 0 (max_type ts + 1)));
                 maxl (map (color_map ts cs) (zrange 0 (max_color cs + 1)))]
  end.

Definition grid_repr (k : repr_kind) (ts cs : list Z) (g : grid) : list (list (list Z)) := map (map (enc_obj k ts cs)) g.
Definition agent_id_grid (g : grid) (p : pos) : list (list Z) :=
  tab (hN g) (wN g) (fun i j => if pos_eqb (Z.of_nat i, Z.of_nat j) p then 1 else 0).
(* AgentStateRepresentation: ((2y - h + 1, h - 1), (2x - w + 1, w - 1), one-hot heading); ZeroDivisionError when a side is 1 *)
Definition agent_repr (g : grid) (p : pos) (o : ori) : res ((Z * Z) * (Z * Z) * list Z) :=
  if (gheight g - 1 =? 0) || (gwidth g - 1 =? 0) then Err ZeroDivisionError else
  Ok ((2 * fst p - gheight g + 1, gheight g - 1), (2 * snd p - gwidth g + 1, gwidth g - 1),
      map (fun v => if v =? Orientation_value o then 1 else 0) [0; 1; 2; 3]).
Record state_repr := mkSR { sr_grid : list (list (list Z)); sr_agent_id : list (list Z);
                            sr_agent : (Z * Z) * (Z * Z) * list Z; sr_item : list Z }.
Definition convert_state (k : repr_kind) (ts cs : list Z) (s : state) : res state_repr :=
  rbind (agent_repr (sgrid s) (spos s) (sori s)) (fun a =>
  Ok (mkSR (grid_repr k ts cs (sgrid s)) (agent_id_grid (sgrid s) (spos s)) a (enc_obj k ts cs (sheld s)))).
Record obs_repr := mkOR { or_grid : list (list (list Z)); or_agent_id : list (list Z); or_item : list Z }.
Definition convert_obs (k : repr_kind) (ts cs : list Z) (o : state) : obs_repr :=
  mkOR (grid_repr k ts cs (sgrid o)) (agent_id_grid (sgrid o) (spos o)) (enc_obj k ts cs (sheld o)).
(* a state space that declares a type whose state cannot be represented has no state representation *)
Definition state_repr_allowed (declared : list Z) : bool := forallb representable declared.
