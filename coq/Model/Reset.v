(* The eight built-in reset functions (envs/reset_functions.py) and design.py, in the Rand monad: same order of
   draws, same ValueErrors.  np.linspace results (`splits`) are INPUTS (oracle); colour sets arrive sorted by value
   (the code sorts them).  `own` = an rng was passed. *)
From Coq Require Import ZArith List Bool.
From GV.Model Require Export Env.
Import ListNotations.
Open Scope Z_scope.

Fixpoint draw (g : grid) (ps : list pos) (o : obj) : res grid :=
  match ps with [] => Ok g | p :: t => rbind (grid_set g p o) (fun g' => draw g' t o) end.
Definition cartesian (ys xs : list Z) : list pos := flat_map (fun y => map (fun x => (y, x)) xs) ys.
Definition floor_positions (g : grid) : res (list pos) := positions_where g (is_ty ty_Floor) (gpositions g).
Definition rchoice_of {A} (gl : bool) (l : list A) (d : A) : Rand A :=        (* rng.choice(data) of rng.py *)
  bind (rchoice gl (Z.of_nat (length l))) (fun i => Ret (nthZ l i d)).
Definition rchoices_of {A} (gl : bool) (l : list A) (k : Z) (d : A) : Rand (list A) :=
  bind (rsample gl (Z.of_nat (length l)) k) (fun idx => Ret (map (fun i => nthZ l i d) idx)).
Definition all_oris : list ori := Orientation_all.
Definition COL_RED := Color_value RED.
Definition COL_YELLOW := Color_value YELLOW.

Definition reset_empty (h w : Z) (random_agent random_exit : bool) (own : bool) : Rand state :=
  if (h <? 4) || (w <? 4) then Raise ValueError else
  let gl := negb own in
  let g0 := grid_from_shape h w Floor in
  bind (lift (draw g0 (apositions_border (garea g0)) Wall)) (fun g1 =>
  bind (if random_exit
        then rchoice_of gl (filter (fun p => random_agent || negb (pos_eqb p (1, 1))) (apositions_inside (garea g1))) (0, 0)
        else Ret (h - 2, w - 2)) (fun pe =>
  bind (lift (grid_set g1 pe (Exit 0))) (fun g2 =>
  if random_agent then
    bind (lift (floor_positions g2)) (fun ps =>
    bind (rchoice_of gl ps (0, 0)) (fun pa =>
    bind (rchoice_of gl all_oris FORWARD) (fun oa => Ret (mkS g2 pa oa NoneObj))))
  else Ret (mkS g2 (1, 1) RIGHT NoneObj)))).

(* design.draw_room_grid *)
Definition zmin (l : list Z) : Z := fold_right Z.min (hd 0 l) l.
Definition zmax (l : list Z) : Z := fold_right Z.max (hd 0 l) l.
Definition draw_room_grid (g : grid) (ys xs : list Z) (o : obj) : res grid :=
  let y_range := zrange (zmin ys) (zmax ys + 1) in
  let x_range := zrange (zmin xs) (zmax xs + 1) in
  rbind (draw g (cartesian ys x_range) o) (fun g1 =>
  draw g1 (cartesian (filter (fun y => negb (memZ y ys)) y_range) xs) o).
Fixpoint pairwise (l : list Z) : list (Z * Z) :=
  match l with a :: ((b :: _) as t) => (a, b) :: pairwise t | _ => [] end.
Definition inner (l : list Z) : list Z := removelast (tl l).        (* l[1:-1] *)
(* for each (fixed coordinate, (from, to)) draw one opening; row = true: the fixed coordinate is y *)
Fixpoint openings (gl : bool) (row : bool) (jobs : list (Z * (Z * Z))) (g : grid) : Rand grid :=
  match jobs with
  | [] => Ret g
  | (c, (lo, hi)) :: t =>
      bind (rints gl (lo + 1) (hi - 1)) (fun v =>
      bind (lift (grid_set g (if row then (c, v) else (v, c)) Floor)) (fun g' => openings gl row t g'))
  end.
(* np.any(np.diff(splits) < 2): two consecutive walls with no cell between them *)
Fixpoint gapsb (l : list Z) : bool := match l with a :: ((b :: _) as t) => (a + 2 <=? b) && gapsb t | _ => true end.
Definition rooms_grid (h w : Z) (ysp xsp : list Z) (gl : bool) : Rand grid :=
  if negb (gapsb ysp) then Raise ValueError else
  if negb (gapsb xsp) then Raise ValueError else
  bind (lift (draw_room_grid (grid_from_shape h w Floor) ysp xsp Wall)) (fun g1 =>
  bind (openings gl true (flat_map (fun y => map (fun pr => (y, pr)) (pairwise xsp)) (inner ysp)) g1) (fun g2 =>
  openings gl false (flat_map (fun pr => map (fun x => (x, pr)) (inner xsp)) (pairwise ysp)) g2)).

Definition reset_rooms (h w : Z) (ysp xsp : list Z) (own : bool) : Rand state :=
  let gl := negb own in
  bind (rooms_grid h w ysp xsp gl) (fun g =>
  bind (lift (floor_positions g)) (fun ps =>
  bind (rchoices_of gl ps 2 (0, 0)) (fun two =>
  bind (rchoice_of gl all_oris FORWARD) (fun oa =>
  match two with
  | [pa; pe] => bind (lift (grid_set g pe (Exit 0))) (fun g' => Ret (mkS g' pa oa NoneObj))
  | _ => Raise AssertionError
  end)))).

Definition reset_dynamic_obstacles (h w num : Z) (random_agent : bool) (own : bool) : Rand state :=
  let gl := negb own in
  bind (reset_empty h w random_agent false own) (fun s =>
  bind (lift (floor_positions (sgrid s))) (fun fl =>
  let vacant := filter (fun p => negb (pos_eqb p (spos s))) fl in
  bind (rchoices_of gl vacant num (0, 0)) (fun ps =>
  bind (lift (draw (sgrid s) ps MovingObstacle)) (fun g' => Ret (set_grid s g'))))).

Definition reset_keydoor (h w : Z) (own : bool) : Rand state :=
  if (h <? 3) || (w <? 5) || ((h =? 3) && (w =? 5)) then Raise ValueError else
  let gl := negb own in
  bind (reset_empty h w false false false) (fun s =>      (* empty(shape): no rng forwarded, nothing drawn *)
  bind (rints gl 2 (w - 3)) (fun x_wall =>
  let line := cartesian (zrange 1 (h - 1)) [x_wall] in
  bind (lift (draw (sgrid s) line Wall)) (fun g1 =>
  bind (rchoice_of gl line (0, 0)) (fun pd =>
  bind (lift (grid_set g1 pd (Door st_LOCKED COL_YELLOW))) (fun g2 =>
  bind (rints gl 1 (h - 2)) (fun yk => bind (rints gl 1 (x_wall - 1)) (fun xk =>
  bind (lift (grid_set g2 (yk, xk) (Key COL_YELLOW))) (fun g3 =>
  bind (rints gl 1 (h - 2)) (fun ya => bind (rints gl 1 (x_wall - 1)) (fun xa =>
  bind (rchoice_of gl all_oris FORWARD) (fun oa => Ret (mkS g3 (ya, xa) oa NoneObj)))))))))))).

(* range(lo, hi, 2) *)
Definition zrange2 (lo hi : Z) : list Z := map (fun k => lo + 2 * k) (zrange 0 ((hi - lo + 1) / 2)).
Fixpoint insertZ (x : Z) (l : list Z) : list Z :=
  match l with [] => [x] | y :: r => if x <=? y then x :: l else y :: insertZ x r end.
Fixpoint isort (l : list Z) : list Z := match l with [] => [] | x :: t => insertZ x (isort t) end.
(* the staircase of openings: path entries true = step "h" (cross a vertical river), false = "v" *)
Fixpoint crossing_path (gl : bool) (path : list bool) (lim_h lim_v : list Z) (ri rj : nat) (g : grid) : Rand grid :=
  match path with
  | [] => Ret g
  | true :: t =>
      bind (rints gl (nth ri lim_h 0 + 1) (nth (S ri) lim_h 0 - 1)) (fun i =>
      bind (lift (grid_set g (i, nth (S rj) lim_v 0) Floor)) (fun g' => crossing_path gl t lim_h lim_v ri (S rj) g'))
  | false :: t =>
      bind (rints gl (nth rj lim_v 0 + 1) (nth (S rj) lim_v 0 - 1)) (fun j =>
      bind (lift (grid_set g (nth (S ri) lim_h 0, j) Floor)) (fun g' => crossing_path gl t lim_h lim_v (S ri) rj g'))
  end.
Definition reset_crossing (h w num_rivers ty : Z) (own : bool) : Rand state :=
  if (h <? 5) || (h mod 2 =? 0) then Raise ValueError else
  if (w <? 5) || (w mod 2 =? 0) then Raise ValueError else
  if num_rivers <=? 0 then Raise ValueError else
  let gl := negb own in
  bind (reset_empty h w false false false) (fun s =>
  let rivers := map (fun i => (true, i)) (zrange2 2 (h - 2)) ++ map (fun j => (false, j)) (zrange2 2 (w - 2)) in
  bind (rperm gl (Z.of_nat (length rivers))) (fun perm =>
  let chosen := firstn (Z.to_nat num_rivers) (map (fun i => nthZ rivers i (true, 0)) perm) in
  let rivers_h := isort (map snd (filter (fun r => fst r) chosen)) in
  let rivers_v := isort (map snd (filter (fun r => negb (fst r)) chosen)) in
  bind (lift (draw (sgrid s) (cartesian rivers_h (zrange 1 (w - 1))) (mk0 ty))) (fun g1 =>
  bind (lift (draw g1 (cartesian (zrange 1 (h - 1)) rivers_v) (mk0 ty))) (fun g2 =>
  let path0 := map (fun _ => true) rivers_v ++ map (fun _ => false) rivers_h in
  bind (rperm gl (Z.of_nat (length path0))) (fun perm2 =>
  let path := map (fun i => nthZ path0 i true) perm2 in
  bind (crossing_path gl path (0 :: rivers_h ++ [h - 1]) (0 :: rivers_v ++ [w - 1]) 0 0 g2) (fun g3 =>
  Ret (mkS g3 (1, 1) RIGHT NoneObj))))))).

Definition reset_teleport (h w : Z) (own : bool) : Rand state :=
  let gl := negb own in
  bind (reset_empty h w false false false) (fun s =>
  bind (rchoice_of gl [RIGHT; BACKWARD] FORWARD) (fun _ =>
  bind (lift (floor_positions (sgrid s))) (fun fl =>
  let cand := filter (fun p => negb (pos_eqb p (1, 1))) fl in
  bind (rchoices_of gl cand 2 (0, 0)) (fun ps =>
  bind (lift (draw (sgrid s) ps (Telepod COL_RED))) (fun g' =>
  bind (rchoice_of gl [RIGHT; BACKWARD] FORWARD) (fun oa => Ret (mkS g' (1, 1) oa NoneObj))))))).

Definition reset_memory (h w : Z) (colors : list Z) (own : bool) : Rand state :=
  if h <? 5 then Raise ValueError else
  if (w <? 5) || (w mod 2 =? 0) then Raise ValueError else
  if memZ 0 colors then Raise ValueError else
  if Z.of_nat (length colors) <? 2 then Raise ValueError else
  let gl := negb own in
  let g0 := grid_from_shape h w Floor in
  bind (lift (draw g0 (apositions (garea g0)) Wall)) (fun g1 =>
  bind (lift (draw g1 (cartesian [1] (zrange 2 (w - 2))) Floor)) (fun g2 =>
  bind (lift (draw g2 (cartesian [h - 2] (zrange 2 (w - 2))) Floor)) (fun g3 =>
  bind (lift (draw g3 (cartesian (zrange 2 (h - 2)) [w / 2]) Floor)) (fun g4 =>
  bind (rchoices_of gl (isort colors) 2 0) (fun cs =>            (* _sorted_colors(colors): a set has no order of its own *)
  bind (rchoices_of gl [1; w - 2] 2 0) (fun xs =>
  match cs, xs with
  | [cg; cb], [xg; xb] =>
      bind (lift (grid_set g4 (1, xg) (Exit cg))) (fun g5 =>
      bind (lift (grid_set g5 (1, xb) (Exit cb))) (fun g6 =>
      bind (lift (grid_set g6 (h - 2, 1) (Beacon cg))) (fun g7 =>
      bind (lift (grid_set g7 (h - 2, w - 2) (Beacon cg))) (fun g8 =>
      Ret (mkS g8 (h / 2, w / 2) FORWARD NoneObj)))))
  | _, _ => Raise AssertionError
  end)))))).

Fixpoint draw_zip (g : grid) (ps : list pos) (os : list obj) : res grid :=
  match ps, os with p :: pt, o :: ot => rbind (grid_set g p o) (fun g' => draw_zip g' pt ot) | _, _ => Ok g end.
Definition reset_memory_rooms (h w : Z) (ysp xsp : list Z) (colors : list Z) (num_beacons num_exits : Z) (own : bool) : Rand state :=
  if memZ 0 colors then Raise ValueError else
  if Z.of_nat (length colors) <? 2 then Raise ValueError else
  if num_beacons <? 1 then Raise ValueError else
  if num_exits <? 2 then Raise ValueError else
  let gl := negb own in
  bind (rooms_grid h w ysp xsp gl) (fun g =>
  bind (lift (floor_positions g)) (fun fl =>
  bind (rchoices_of gl fl (1 + num_beacons + num_exits) (0, 0)) (fun ps =>
  bind (rchoice_of gl all_oris FORWARD) (fun oa =>
  bind (rchoices_of gl (isort colors) num_exits 0) (fun cols =>
  let pa := hd (0, 0) ps in
  let good := hd 0 cols in
  let bps := firstn (Z.to_nat num_beacons) (tl ps) in
  let eps := skipn (Z.to_nat num_beacons) (tl ps) in
  bind (lift (draw g bps (Beacon good))) (fun g1 =>
  bind (lift (draw_zip g1 eps (map Exit cols))) (fun g2 =>
  Ret (mkS g2 pa oa NoneObj)))))))).

(* parameters of a reset function, as they appear in configurations *)
Inductive rparams :=
| PEmpty (h w : Z) (random_agent random_exit : bool)
| PRooms (h w : Z) (ysp xsp : list Z)
| PDynamicObstacles (h w num : Z) (random_agent : bool)
| PKeydoor (h w : Z)
| PCrossing (h w num_rivers ty : Z)
| PTeleport (h w : Z)
| PMemory (h w : Z) (colors : list Z)
| PMemoryRooms (h w : Z) (ysp xsp : list Z) (colors : list Z) (num_beacons num_exits : Z).
Definition reset_of (p : rparams) (own : bool) : Rand state :=
  match p with
  | PEmpty h w ra re => reset_empty h w ra re own
  | PRooms h w ys xs => reset_rooms h w ys xs own
  | PDynamicObstacles h w n ra => reset_dynamic_obstacles h w n ra own
  | PKeydoor h w => reset_keydoor h w own
  | PCrossing h w n ty => reset_crossing h w n ty own
  | PTeleport h w => reset_teleport h w own
  | PMemory h w cs => reset_memory h w cs own
  | PMemoryRooms h w ys xs cs nb ne => reset_memory_rooms h w ys xs cs nb ne own
  end.
