(* Reward and termination components (envs/reward_functions.py, envs/terminating_functions.py).
   Reward VALUES are symbolic: which float parameter of the component is returned (RParam i), the literal 0.0
   (RZero), a parameter times a distance (RScaled), or the python sum of parts (RSumOf).  The harness maps them to
   floats with python's own arithmetic, so no float is ever modelled. *)
From Coq Require Import ZArith List Bool.
From GV.Model Require Export Trans.
Import ListNotations.
Open Scope Z_scope.

Inductive dval := DInt (z : Z) | DSqrt (z : Z).            (* manhattan distance | sqrt of this squared distance *)
Inductive rv := RZero | RParam (i : nat) | RScaled (i : nat) (d : dval) | RSumOf (l : list rv).
Inductive dfun := DManhattan | DEuclidean.

(* mitt.one(position for position in grid.area.positions() if isinstance(grid[position], T)): ValueError unless exactly one *)
Definition one_position (g : grid) (ty : Z) : res pos :=
  rbind (positions_where g (is_ty ty) (gpositions g)) (fun ps => match ps with [p] => Ok p | _ => Err ValueError end).

Definition distance (d : dfun) (p q : pos) : dval :=
  match d with DManhattan => DInt (manhattan p q) | DEuclidean => DSqrt (sqdist p q) end.
(* comparison of two distances of the same kind (sqrt is strictly monotone on the integers in play) *)
Definition dlt (a b : dval) : bool :=
  match a, b with DInt x, DInt y => x <? y | DSqrt x, DSqrt y => x <? y | _, _ => false end.

(* dijkstra(layout, source)[agent]: breadth-first distance over cells that do not block movement; None = inf *)
Definition passable (g : grid) (q : pos) : bool := in_grid g q && negb (o_blocks_movement (lookupH g q)).
Definition memP (p : pos) (l : list pos) : bool := existsb (pos_eqb p) l.
Fixpoint dedupP (l : list pos) : list pos :=
  match l with [] => [] | p :: t => if memP p t then dedupP t else p :: dedupP t end.
Definition nbrs_bfs (p : pos) : list pos := [(fst p - 1, snd p); (fst p + 1, snd p); (fst p, snd p - 1); (fst p, snd p + 1)].
Fixpoint bfs (fuel : nat) (g : grid) (visited frontier : list pos) (dst : pos) (level : Z) : option Z :=
  match fuel with
  | O => None
  | S f =>
      if memP dst frontier then Some level else
      let next := dedupP (filter (fun q => passable g q && negb (memP q visited)) (flat_map nbrs_bfs frontier)) in
      match next with [] => None | _ => bfs f g (next ++ visited) next dst (level + 1) end
  end.
Definition shortest (g : grid) (src dst : pos) : option Z :=
  bfs (S (Z.to_nat (gheight g * gwidth g))) g [src] [src] dst 0.
Definition olt (a b : option Z) : bool :=      (* float('inf') semantics *)
  match a, b with Some x, Some y => x <? y | Some _, None => true | _, _ => false end.

Inductive rname :=
| ROverlap (ty : Z) | RLiving | RReachExit | RBumpObstacle
| RProportional (d : dfun) (ty : Z) | RGettingCloser (d : dfun) (ty : Z) | RGettingCloserSP (ty : Z)
| RBumpWall | RActuateDoor | RPickndrop (ty : Z) | RReachExitMemory
| RSum (l : list rname).

Definition overlap_b (ty : Z) (s' : state) : res bool :=
  rbind (grid_get (sgrid s') (spos s')) (fun o => Ok (is_ty ty o)).
Definition agent_in (s : state) : res unit := if in_grid (sgrid s) (spos s) then Ok tt else Err IndexError.

Definition getting_closer_by (dist : state -> res (option Z * dval)) (lt : (option Z * dval) -> (option Z * dval) -> bool)
                            (s s' : state) : res rv :=
  rbind (dist s) (fun dp => rbind (dist s') (fun dn =>
  Ok (if lt dn dp then RParam 0 else if lt dp dn then RParam 1 else RZero))).

Fixpoint first_some {A} (f : obj -> option A) (l : list obj) : option A :=
  match l with [] => None | o :: t => match f o with Some a => Some a | None => first_some f t end end.

(* PEP 479: a StopIteration escaping from inside a generator expression becomes RuntimeError *)
Definition in_generator {A} (r : res A) : res A := match r with Err StopIteration => Err RuntimeError | x => x end.

Fixpoint reward (r : rname) (s : state) (a : Action) (s' : state) {struct r} : res rv :=
  match r with
  | ROverlap ty => rbind (overlap_b ty s') (fun b => Ok (if b then RParam 0 else RParam 1))
  | RLiving => Ok (RParam 0)
  | RReachExit => rbind (overlap_b ty_Exit s') (fun b => Ok (if b then RParam 0 else RParam 1))
  | RBumpObstacle => rbind (overlap_b ty_MovingObstacle s') (fun b => Ok (if b then RParam 0 else RZero))
  | RProportional d ty =>
      rbind (one_position (sgrid s') ty) (fun p => Ok (RScaled 0 (distance d (spos s') p)))
  | RGettingCloser d ty =>
      getting_closer_by (fun st => rbind (one_position (sgrid st) ty) (fun p => Ok (None, distance d (spos st) p)))
                        (fun x y => dlt (snd x) (snd y)) s s'
  | RGettingCloserSP ty =>
      getting_closer_by (fun st => rbind (one_position (sgrid st) ty) (fun p => rbind (agent_in st) (fun _ =>
                                     Ok (shortest (sgrid st) p (spos st), DInt 0))))
                        (fun x y => olt (fst x) (fst y)) s s'
  | RBumpWall =>
      let np := next_position (spos s) (sori s) a in
      if in_grid (sgrid s) np then rbind (grid_get (sgrid s) np) (fun o => Ok (if is_ty ty_Wall o then RParam 0 else RZero))
      else Ok RZero
  | RActuateDoor =>
      if negb (is_actuate a) then Ok RZero else
      let p := sfront s in
      if negb (in_grid (sgrid s) p) then Ok RZero else
      rbind (grid_get (sgrid s) p) (fun door =>
      if negb (is_ty ty_Door door) then Ok RZero else
      rbind (grid_get (sgrid s') p) (fun door' =>
      if negb (is_ty ty_Door door') then Ok RZero else
      let o := ost door =? st_OPEN in let o' := ost door' =? st_OPEN in
      Ok (if negb o && o' then RParam 0 else if o && negb o' then RParam 1 else RZero)))
  | RPickndrop ty =>
      let has := is_ty ty (sheld s) in let has' := is_ty ty (sheld s') in
      Ok (if negb has && has' then RParam 0 else if has && negb has' then RParam 1 else RZero)
  | RReachExitMemory =>
      rbind (grid_get (sgrid s') (spos s')) (fun here =>
      (match first_some (fun o => if is_ty ty_Beacon o then Some (ocol o) else None) (concat (sgrid s')) with
      | None => Err StopIteration
      | Some bc => Ok (if is_ty ty_Exit here then (if ocol here =? bc then RParam 0 else RParam 1) else RZero)
      end))
  | RSum l =>
      rbind ((fix go (l : list rname) : res (list rv) :=
         match l with [] => Ok [] | r1 :: t => rbind (in_generator (reward r1 s a s')) (fun v => rbind (go t) (fun vs => Ok (v :: vs))) end) l)
            (fun vs => Ok (RSumOf vs))
  end.

(* termination *)
Inductive tmname := TOverlap (ty : Z) | TReachExit | TBumpObstacle | TBumpWall | TAny (l : list tmname) | TAll (l : list tmname).
Fixpoint terminates (t : tmname) (s : state) (a : Action) (s' : state) {struct t} : res bool :=
  match t with
  | TOverlap ty => overlap_b ty s'
  | TReachExit => overlap_b ty_Exit s'
  | TBumpObstacle => overlap_b ty_MovingObstacle s'
  | TBumpWall =>
      let np := next_position (spos s) (sori s) a in
      if in_grid (sgrid s) np then rbind (grid_get (sgrid s) np) (fun o => Ok (is_ty ty_Wall o)) else Ok false
  | TAny l =>   (* any(generator): stops at the first True *)
      (fix go (l : list tmname) : res bool :=
         match l with [] => Ok false | t1 :: r => rbind (terminates t1 s a s') (fun b => if b then Ok true else go r) end) l
  | TAll l =>   (* all(generator): stops at the first False *)
      (fix go (l : list tmname) : res bool :=
         match l with [] => Ok true | t1 :: r => rbind (terminates t1 s a s') (fun b => if b then go r else Ok false) end) l
  end.
