(* Configuration trees (what yaml.safe_load returns), the validation performed by gym_gridverse/envs/yaml/schemas.py through the
   `schema` package, and the construction order of gym_gridverse/envs/yaml/factory.py (factory_env_from_data and the functions it calls).

   Strings are interned by the harness (vt/signatures.py: one integer per distinct string; the table is regenerated from /repo on every
   run and contains every key, component name, parameter name, action, colour and registered object name of the running code; strings the
   table does not know get fresh codes >= 10000, and strings containing ':' -- "custom" names, which make the code import a module --
   codes >= 20000).  The model only ever compares strings for equality and membership.

   The tables (which key has which schema, which registry has which signatures) are NOT written here: they are a parameter [T : tabs],
   instantiated by the generated file Gen/Schema.v from the live schema objects and registries of /repo. *)
From Coq Require Import ZArith List Bool.
From GV.Model Require Export Base Factory.
Import ListNotations.
Open Scope Z_scope.

Inductive cfg : Type :=
| CNull | CBool (b : bool) | CInt (z : Z) | CFloat | CStr (s : Z) | CList (l : list cfg) | CDict (kv : list (cfg * cfg)).

(* kinds of schema *)
Definition KAny : Z := 0.        (* object *)
Definition KStr : Z := 1.        (* str *)
Definition KPair : Z := 2.       (* a list of exactly two ints (not bools), both positive: shape, layout *)
Definition KColors : Z := 3.     (* non-empty list of unique colour names *)
Definition KActions : Z := 4.    (* non-empty list of unique action names *)
Definition KObjects : Z := 5.    (* non-empty list of unique strings *)
Definition KDist : Z := 6.       (* 'manhattan' or 'euclidean' *)
(* dictionary and list kinds are described by the tables *)

Record tabs : Type := mkTabs {
  (* dictionary schemas: kind -> (required keys with the kind of their value, optional keys with ..., other keys accepted?) *)
  t_dict : Z -> option (list (Z * Z) * list (Z * Z) * bool);
  (* list schemas: kind -> kind of the elements (the list must be non-empty) *)
  t_list : Z -> option Z;
  t_colors : list Z; t_actions : list Z; t_dists : list Z;
  t_objects : list Z;                       (* names of the registered grid-object types, in registry order *)
  t_registry : Z -> list sigrow;            (* function kind (0 reset .. 5 terminating) -> signatures *)
  k_env : Z; k_fn : Z;                      (* the kinds of the whole configuration and of a component entry *)
  (* strings the construction code refers to literally *)
  s_name : Z; s_state_space : Z; s_action_space : Z; s_observation_space : Z; s_objects : Z; s_colors : Z;
  s_reset_function : Z; s_transition_functions : Z; s_reward_functions : Z; s_terminating_functions : Z;
  s_observation_function : Z; s_terminating_function : Z; s_reward_function : Z; s_distance_function : Z;
  s_visibility_function : Z; s_shape : Z; s_layout : Z; s_area : Z; s_object_type : Z; s_chain : Z; s_reduce_sum : Z
}.

Definition FReset : Z := 0.  Definition FTransition : Z := 1.  Definition FReward : Z := 2.
Definition FObservation : Z := 3.  Definition FVisibility : Z := 4.  Definition FTerminating : Z := 5.

Definition is_custom (s : Z) : bool := 20000 <=? s.

Fixpoint nodupz (l : list Z) : bool := match l with [] => true | x :: r => negb (memz x r) && nodupz r end.

Definition key_is (s : Z) (k : cfg) : bool := match k with CStr s' => s' =? s | _ => false end.
Definition has_key (s : Z) (kv : list (cfg * cfg)) : bool := existsb (fun e => key_is s (fst e)) kv.
Fixpoint assoc (s : Z) (kv : list (cfg * cfg)) : option cfg :=
  match kv with [] => None | (k, v) :: r => if key_is s k then Some v else assoc s r end.
Fixpoint zassoc {A} (s : Z) (l : list (Z * A)) : option A :=
  match l with [] => None | (k, v) :: r => if k =? s then Some v else zassoc s r end.

(* the strings of a list of strings (None: not a list of strings) *)
Fixpoint strs (l : list cfg) : option (list Z) :=
  match l with [] => Some [] | CStr s :: r => match strs r with Some t => Some (s :: t) | None => None end | _ => None end.

Definition str_list_ok (allowed : option (list Z)) (c : cfg) : bool :=
  match c with
  | CList l => match strs l with
               | Some ss => negb (match ss with [] => true | _ => false end) && nodupz ss &&
                            match allowed with Some a => forallb (fun s => memz s a) ss | None => true end
               | None => false end
  | _ => false end.

Definition leaf_valid (T : tabs) (k : Z) (c : cfg) : bool :=
  if k =? KAny then true
  else if k =? KStr then match c with CStr _ => true | _ => false end
  else if k =? KPair then match c with CList [CInt a; CInt b] => (0 <? a) && (0 <? b) | _ => false end
  else if k =? KColors then str_list_ok (Some (t_colors T)) c
  else if k =? KActions then str_list_ok (Some (t_actions T)) c
  else if k =? KObjects then str_list_ok None c
  else if k =? KDist then match c with CStr s => memz s (t_dists T) | _ => false end
  else false.

(* which schema a key of a dictionary is validated against: required literal keys first, then optional literal keys *)
Definition key_kind (req opt : list (Z * Z)) (key : cfg) : option Z :=
  match key with
  | CStr s => match zassoc s req with Some k => Some k | None => zassoc s opt end
  | _ => None end.

Section Validate.
Variable T : tabs.

(* Schema(...).validate(data) succeeds *)
Fixpoint valid (k : Z) (c : cfg) {struct c} : bool :=
  match t_dict T k with
  | Some (req, opt, wild) =>
      match c with
      | CDict kv =>
          forallb (fun rk => has_key (fst rk) kv) req &&
          (fix go (kv : list (cfg * cfg)) : bool :=
             match kv with
             | [] => true
             | (key, v) :: r => (match key_kind req opt key with Some k' => valid k' v | None => wild end) && go r
             end) kv
      | _ => false end
  | None =>
      match t_list T k with
      | Some ke =>
          match c with
          | CList l => negb (match l with [] => true | _ => false end) &&
                       (fix all (l : list cfg) : bool := match l with [] => true | x :: r => valid ke x && all r end) l
          | _ => false end
      | None => leaf_valid T k c
      end
  end.

(* ---- construction ---- *)
(* a constructed component: registry, index of the function in it, the parameter keys bound, the components built for its parameters *)
Inductive comp : Type := Comp (fk : Z) (index : nat) (bound : list Z) (children : list comp).

Definition area_ok (c : cfg) : res unit :=
  match c with
  | CList [CList [CInt a; CInt b]; CList [CInt c'; CInt d]] => if (b <? a) || (d <? c') then Err ValueError else Ok tt
  | _ => Err TypeError      (* Area applied to anything else: outside the modelled domain *)
  end.

Fixpoint keys_of (kv : list (cfg * cfg)) : res (list Z) :=
  match kv with
  | [] => Ok []
  | (CStr s, _) :: r => match keys_of r with Ok t => Ok (s :: t) | Err e => Err e end
  | _ => Err TypeError       (* keyword arguments with a key that is not a string *)
  end.

(* process_reserved_keys: the keys it looks at, in the order it looks at them *)
Definition process_order : list Z :=
  [s_transition_functions T; s_reward_functions T; s_terminating_functions T; s_reward_function T; s_distance_function T;
   s_visibility_function T; s_shape T; s_layout T; s_area T; s_object_type T; s_colors T].

Fixpoint collect (order : list Z) (results : list (Z * res (list comp))) : res (list comp) :=
  match order with
  | [] => Ok []
  | s :: r => match zassoc s results with
              | Some (Err e) => Err e
              | Some (Ok cs) => match collect r results with Ok t => Ok (cs ++ t) | Err e => Err e end
              | None => collect r results
              end
  end.

(* the part of process_reserved_keys that concerns ONE entry (key s, value v); [rec] builds a nested component entry *)
Definition each {A} (f : cfg -> res A) : list cfg -> res (list A) :=
  fix go (l : list cfg) : res (list A) :=
    match l with
    | [] => Ok []
    | x :: r => match f x with
                | Ok a => match go r with Ok b => Ok (a :: b) | Err e => Err e end
                | Err e => Err e end
    end.
Definition entry (rec : Z -> cfg -> res comp) (s : Z) (v : cfg) : res (list comp) :=
  if s =? s_name T then Ok []
  else if (s =? s_transition_functions T) || (s =? s_reward_functions T) || (s =? s_terminating_functions T) then
    let fk' := if s =? s_transition_functions T then FTransition else if s =? s_reward_functions T then FReward else FTerminating in
    match v with CList l => each (rec fk') l | _ => Err TypeError end
  else if s =? s_reward_function T then match rec FReward v with Ok a => Ok [a] | Err e => Err e end
  else if s =? s_visibility_function T then match rec FVisibility v with Ok a => Ok [a] | Err e => Err e end
  else if s =? s_distance_function T then (if leaf_valid T KDist v then Ok [] else Err SchemaError)
  else if s =? s_area T then match area_ok v with Ok _ => Ok [] | Err e => Err e end
  else if s =? s_object_type T then
    match v with CStr o => if memz o (t_objects T) then Ok [] else Err ValueError | _ => Err TypeError end
  else Ok [].
Definition results_of (f : Z -> cfg -> res (list comp)) : list (cfg * cfg) -> list (Z * res (list comp)) :=
  fix go (kv : list (cfg * cfg)) : list (Z * res (list comp)) :=
    match kv with
    | [] => []
    | (CStr s, v) :: r => (s, f s v) :: go r
    | _ :: r => go r
    end.
(* <registry>.factory(name, ...remaining entries as keyword arguments...) after the nested components were built *)
Definition finish (fk : Z) (kv : list (cfg * cfg)) (built : res (list comp)) : res comp :=
  match built with
  | Err e => Err e
  | Ok children =>
      match assoc (s_name T) kv with
      | Some (CStr name) =>
          match keys_of kv with
          | Err e => Err e
          | Ok ks =>
              if is_custom name then Err TypeError else
              match factory (t_registry T fk) name (map (fun k => (k, tt)) (filter (fun k => negb (k =? s_name T)) ks)) with
              | Ok (i, sel) => Ok (Comp fk i (map fst sel) children)
              | Err e => Err e end
          end
      | _ => Err SchemaError
      end
  end.

(* factory_<kind>_function(data) *)
Fixpoint fn (fk : Z) (c : cfg) {struct c} : res comp :=
  if negb (valid (k_fn T) c) then Err SchemaError else
  match c with
  | CDict kv => finish fk kv (collect process_order (results_of (entry fn) kv))
  | _ => Err SchemaError
  end.

Record descr : Type := mkDescr {
  d_state_types : list Z; d_state_colors : list Z; d_actions : list Z; d_obs_types : list Z; d_obs_colors : list Z;
  d_reset : comp; d_transition : comp; d_reward : comp; d_observation : comp; d_terminating : comp }.

Fixpoint index_of (s : Z) (l : list Z) (i : Z) : option Z :=
  match l with [] => None | x :: r => if x =? s then Some i else index_of s r (i + 1) end.

(* factory_object_types: each name goes through import_if_custom and the registry *)
Fixpoint object_types (names : list Z) : res (list Z) :=
  match names with
  | [] => Ok []
  | s :: r => if is_custom s then Err TypeError else
              match index_of s (t_objects T) 0 with
              | None => Err ValueError
              | Some i => match object_types r with Ok t => Ok (i :: t) | Err e => Err e end
              end
  end.
Definition indices (names table : list Z) : list Z := flat_map (fun s => match index_of s table 0 with Some i => [i] | None => [] end) names.

Definition space_of (c : cfg) : res (list Z * list Z) :=
  match c with
  | CDict kv =>
      match assoc (s_objects T) kv, assoc (s_colors T) kv with
      | Some (CList os), Some (CList cs) =>
          match strs os, strs cs with
          | Some on, Some cn => match object_types on with Ok ts => Ok (ts, indices cn (t_colors T)) | Err e => Err e end
          | _, _ => Err SchemaError end
      | _, _ => Err SchemaError end
  | _ => Err SchemaError end.

Definition all_actions : list Z := map Z.of_nat (seq 0 (length (t_actions T))).

(* factory_env_from_data, up to (not including) the first call of the reset function *)
Definition build (c : cfg) : res descr :=
  if negb (valid (k_env T) c) then Err SchemaError else
  match c with
  | CDict kv =>
      match assoc (s_state_space T) kv, assoc (s_observation_space T) kv, assoc (s_reset_function T) kv, assoc (s_transition_functions T) kv,
            assoc (s_reward_functions T) kv, assoc (s_observation_function T) kv, assoc (s_terminating_function T) kv with
      | Some ss, Some os, Some rf, Some tfs, Some rfs, Some obf, Some tf =>
          match space_of ss with Err e => Err e | Ok (st, sc) =>
          let acts := match assoc (s_action_space T) kv with
                      | Some (CList l) => match strs l with Some names => indices names (t_actions T) | None => [] end
                      | _ => all_actions end in
          match space_of os with Err e => Err e | Ok (ot, oc) =>
          match fn FReset rf with Err e => Err e | Ok c1 =>
          match fn FTransition (CDict [(CStr (s_name T), CStr (s_chain T)); (CStr (s_transition_functions T), tfs)]) with Err e => Err e | Ok c2 =>
          match fn FReward (CDict [(CStr (s_name T), CStr (s_reduce_sum T)); (CStr (s_reward_functions T), rfs)]) with Err e => Err e | Ok c3 =>
          match fn FObservation obf with Err e => Err e | Ok c4 =>
          match fn FTerminating tf with Err e => Err e | Ok c5 =>
          Ok (mkDescr st sc acts ot oc c1 c2 c3 c4 c5)
          end end end end end end end
      | _, _, _, _, _, _, _ => Err SchemaError
      end
  | _ => Err SchemaError
  end.
End Validate.
