(* State / Observation (both are a grid plus an agent) and the space-membership predicates of spaces.py *)
From Coq Require Import ZArith List Bool.
From GV.Model Require Export Grid Rand.
Import ListNotations.
Open Scope Z_scope.

Record state := mkS { sgrid : grid; spos : pos; sori : ori; sheld : obj }.
Definition set_pos (s : state) (p : pos) := mkS (sgrid s) p (sori s) (sheld s).
Definition set_ori (s : state) (o : ori) := mkS (sgrid s) (spos s) o (sheld s).
Definition set_grid (s : state) (g : grid) := mkS g (spos s) (sori s) (sheld s).
Definition set_held (s : state) (o : obj) := mkS (sgrid s) (spos s) (sori s) o.
Definition sfront (s : state) : pos := front (spos s) (sori s).
(* State.__eq__ (dataclass): Grid.__eq__ and Agent.__eq__ *)
Definition state_eqb (s t : state) : bool :=
  grid_eqb (sgrid s) (sgrid t) && pos_eqb (spos s) (spos t) && ori_eqb (sori s) (sori t) && obj_eqb (sheld s) (sheld t).

Definition memZ (x : Z) (l : list Z) : bool := existsb (Z.eqb x) l.

(* StateSpace(grid_shape, object_types, colors) *)
Record sspace := mkSS { ss_h : Z; ss_w : Z; ss_types : list Z; ss_colors : list Z }.
Definition ss_contains (sp : sspace) (s : state) : bool :=
  (gheight (sgrid s) =? ss_h sp) && (gwidth (sgrid s) =? ss_w sp)
  && forallb (fun t => memZ t (ss_types sp)) (grid_types (sgrid s))
  && in_grid (sgrid s) (spos s)
  && (memZ (oty (sheld s)) (ss_types sp) || (oty (sheld s) =? ty_NoneGridObject)).

(* ObservationSpace(grid_shape, object_types, colors): width must be odd (ValueError otherwise) *)
Record ospace := mkOS { os_h : Z; os_w : Z; os_types : list Z; os_colors : list Z }.
Definition os_colors_all (sp : ospace) : list Z := 0 :: os_colors sp.     (* set(colors) | {NONE} *)
Definition os_contains (sp : ospace) (s : state) : bool :=
  (gheight (sgrid s) =? os_h sp) && (gwidth (sgrid s) =? os_w sp)
  && forallb (fun t => memZ t (os_types sp) || (t =? ty_Hidden)) (grid_types (sgrid s))
  && forallb (fun o => memZ (ocol o) (os_colors_all sp)) (concat (sgrid s))
  && (0 <=? fst (spos s)) && (fst (spos s) <? os_h sp) && (0 <=? snd (spos s)) && (snd (spos s) <? os_w sp)
  && (memZ (oty (sheld s)) (os_types sp) || (oty (sheld s) =? ty_NoneGridObject))
  && memZ (ocol (sheld s)) (os_colors_all sp).
Definition mk_ospace (h w : Z) (types colors : list Z) : res ospace :=
  if w mod 2 =? 0 then Err ValueError else Ok (mkOS h w types colors).

(* ActionSpace(actions) *)
Definition action_eqb (a b : Action) : bool := Action_value a =? Action_value b.
Definition as_contains (acts : list Action) (a : Action) : bool := existsb (action_eqb a) acts.
