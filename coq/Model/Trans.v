(* The built-in transition functions (envs/transition_functions.py), same branch structure, same order
   of draws, same exceptions.  `own` = an rng was passed (GridWorld passes its own); draws made with
   own = false consume the library-level generator. *)
From Coq Require Import ZArith List Bool.
From GV.Model Require Export State.
Import ListNotations.
Open Scope Z_scope.

Definition tfun := state -> Action -> bool -> Rand state.

Definition move_agent : tfun := fun s a _ =>
  if negb (is_move a) then Ret s else
  let np := next_position (spos s) (sori s) a in
  if negb (in_grid (sgrid s) np) then Ret s else
  bind (lift (grid_get (sgrid s) np)) (fun o =>
  if negb (o_blocks_movement o) then Ret (set_pos s np) else Ret s).

Definition turn_agent : tfun := fun s a _ =>
  match turn_dir a with Some d => Ret (set_ori s (omul (sori s) d)) | None => Ret s end.

Definition is_pickndrop (a : Action) := match a with PICK_N_DROP => true | _ => false end.
Definition is_actuate (a : Action) := match a with ACTUATE => true | _ => false end.

Definition pickndrop : tfun := fun s a _ =>
  if negb (is_pickndrop a) then Ret s else
  let pf := sfront s in
  if negb (in_grid (sgrid s) pf) then Ret s else
  bind (lift (grid_get (sgrid s) pf)) (fun obj_front =>
  let can_be_dropped := is_ty ty_Floor obj_front || o_holdable obj_front in
  if negb can_be_dropped then Ret s else
  let placed := if negb (is_ty ty_NoneGridObject (sheld s)) && can_be_dropped then sheld s else Floor in
  bind (lift (grid_set (sgrid s) pf placed)) (fun g' =>
  Ret (mkS g' (spos s) (sori s) (if o_holdable obj_front then obj_front else NoneObj)))).

(* positions holding an object of a type, in row-major order; raises what grid[...] raises *)
Fixpoint positions_where (g : grid) (f : obj -> bool) (ps : list pos) : res (list pos) :=
  match ps with
  | [] => Ok []
  | p :: t => rbind (grid_get g p) (fun o => rbind (positions_where g f t) (fun r => Ok (if f o then p :: r else r)))
  end.
Fixpoint floor_neighbours (g : grid) (ps : list pos) : res (list pos) :=
  match ps with
  | [] => Ok []
  | p :: t =>
      if in_grid g p then
        rbind (grid_get g p) (fun o => rbind (floor_neighbours g t) (fun r => Ok (if is_ty ty_Floor o then p :: r else r)))
      else floor_neighbours g t
  end.
Definition nthZ {A} (l : list A) (i : Z) (d : A) : A := nth (Z.to_nat i) l d.

Fixpoint move_obstacles_loop (g0 : bool) (ps : list pos) (g : grid) : Rand grid :=
  match ps with
  | [] => Ret g
  | p :: t =>
      bind (lift (floor_neighbours g (neighbours4 p))) (fun nps =>
      bind (catch (bind (rchoice g0 (Z.of_nat (length nps))) (fun i => lift (grid_swap g p (nthZ nps i p))))
                  ValueError (Ret g))
           (move_obstacles_loop g0 t))
  end.
Definition move_obstacles : tfun := fun s a own =>
  bind (lift (positions_where (sgrid s) (is_ty ty_MovingObstacle) (gpositions (sgrid s)))) (fun ps =>
  bind (move_obstacles_loop (negb own) ps (sgrid s)) (fun g' => Ret (set_grid s g'))).

Definition key_opens (held door : obj) : bool := is_ty ty_Key held && (ocol held =? ocol door).
Definition st_OPEN := DoorStatus_value OPEN.
Definition st_CLOSED := DoorStatus_value CLOSED.
Definition st_LOCKED := DoorStatus_value LOCKED.
Definition open_door (d : obj) : obj := Obj (oty d) st_OPEN (ocol d) (ocontent d).

Definition actuate_door : tfun := fun s a _ =>
  if negb (is_actuate a) then Ret s else
  let p := sfront s in
  if negb (in_grid (sgrid s) p) then Ret s else
  bind (lift (grid_get (sgrid s) p)) (fun door =>
  if negb (is_ty ty_Door door) then Ret s else
  if ost door =? st_OPEN then Ret s
  else if negb (ost door =? st_LOCKED) then bind (lift (grid_set (sgrid s) p (open_door door))) (fun g' => Ret (set_grid s g'))
  else if key_opens (sheld s) door then bind (lift (grid_set (sgrid s) p (open_door door))) (fun g' => Ret (set_grid s g'))
  else Ret s).

Definition actuate_box : tfun := fun s a _ =>
  if negb (is_actuate a) then Ret s else
  let p := sfront s in
  if negb (in_grid (sgrid s) p) then Ret s else
  bind (lift (grid_get (sgrid s) p)) (fun box =>
  if is_ty ty_Box box then
    match ocontent box with
    | Some c => bind (lift (grid_set (sgrid s) p c)) (fun g' => Ret (set_grid s g'))
    | None => Raise AssertionError      (* a Box always has a content (valid_obj) *)
    end
  else Ret s).

Definition teleport : tfun := fun s a own =>
  bind (lift (grid_get (sgrid s) (spos s))) (fun telepod =>
  if is_ty ty_Telepod telepod then
    bind (lift (positions_where (sgrid s) (fun o => is_ty ty_Telepod o && (ocol o =? ocol telepod))
                                (filter (fun p => negb (pos_eqb p (spos s))) (gpositions (sgrid s))))) (fun ps =>
    match ps with
    | [] => Ret s
    | _ => bind (rchoice (negb own) (Z.of_nat (length ps))) (fun i => Ret (set_pos s (nthZ ps i (spos s))))
    end)
  else Ret s).

Fixpoint chain (fs : list tfun) : tfun := fun s a own =>
  match fs with [] => Ret s | f :: t => bind (f s a own) (fun s' => chain t s' a own) end.

(* the registry, by index (order of registration, chain excluded) *)
Inductive tname := TMoveAgent | TTurnAgent | TPickndrop | TMoveObstacles | TActuateDoor | TActuateBox | TTeleport.
Definition tfun_of (n : tname) : tfun :=
  match n with
  | TMoveAgent => move_agent | TTurnAgent => turn_agent | TPickndrop => pickndrop
  | TMoveObstacles => move_obstacles | TActuateDoor => actuate_door | TActuateBox => actuate_box
  | TTeleport => teleport end.
