(* Visibility functions (envs/visibility_functions.py).  A mask is the list of visible positions of the view
   (view coordinates: row 0 is the far end, the agent sits at `position`).  Rays are an INPUT (oracle:
   utils/raytracing.py is float trigonometry); their well-formedness is property C19. *)
From Coq Require Import ZArith List Bool.
From GV.Model Require Export Reward.
Import ListNotations.
Open Scope Z_scope.

Definition mask := list pos.
Definition visible (m : mask) (p : pos) : bool := memP p m.

Definition fully_transparent (g : grid) (p : pos) : mask := gpositions g.

(* _partially_occluded_make_visible: recursive marking; fuel = an upper bound of the recursion depth *)
Definition next_front_left (p : pos) : list pos := [(fst p - 1, snd p); (fst p, snd p - 1); (fst p - 1, snd p - 1)].
Definition next_front_right (p : pos) : list pos := [(fst p - 1, snd p); (fst p, snd p + 1); (fst p - 1, snd p + 1)].
Fixpoint make_visible (fuel : nat) (g : grid) (nexts : pos -> list pos) (vis : mask) (p : pos) : mask :=
  match fuel with
  | O => vis
  | S f =>
      if in_grid g p && negb (memP p vis) then
        let vis1 := p :: vis in
        if o_blocks_vision (lookupH g p) then vis1 else fold_left (make_visible f g nexts) (nexts p) vis1
      else vis
  end.
Definition po_fuel (g : grid) : nat := S (Z.to_nat (gheight g + gwidth g)).
Definition partially_occluded (g : grid) (p : pos) : res mask :=
  if negb (fst p =? gheight g - 1) then Err NotImplementedError else
  Ok (make_visible (po_fuel g) g next_front_left [] p ++ make_visible (po_fuel g) g next_front_right [] p).

(* rays: light travels along a ray until (and including) the first cell that blocks vision *)
Definition ray := list pos.
Fixpoint lit_cells (g : grid) (light : bool) (r : ray) : list (pos * bool) :=
  match r with [] => [] | p :: t => (p, light) :: lit_cells g (light && negb (o_blocks_vision (lookupH g p))) t end.
Definition count_num (g : grid) (rays : list ray) (p : pos) : Z :=
  Z.of_nat (length (filter (fun e => pos_eqb (fst e) p && snd e) (flat_map (lit_cells g true) rays))).
Definition count_den (g : grid) (rays : list ray) (p : pos) : Z :=
  Z.of_nat (length (filter (fun e => pos_eqb (fst e) p) (flat_map (lit_cells g true) rays))).
(* raytracing with the defaults absolute_counts=True, threshold=1 *)
Definition raytracing (g : grid) (rays : list ray) : mask :=
  filter (fun p => 1 <=? count_num g rays p) (gpositions g).
(* stochastic_raytracing: one uniform number per cell (row-major); shown iff u < num/den (0 when den = 0);
   u = z / 2^53, so the test is the exact integer comparison z * den < num * 2^53 *)
Definition stochastic_raytracing (own : bool) (g : grid) (rays : list ray) : Rand mask :=
  bind (runif (negb own) (gheight g * gwidth g)) (fun zs =>
  Ret (map fst (filter (fun pz => let p := fst pz in let z := snd pz in
                         let den := count_den g rays p in (0 <? den) && (z * den <? count_num g rays p * two53))
                      (combine (gpositions g) zs)))).

Inductive vname := VFullyTransparent | VPartiallyOccluded | VRaytracing | VStochasticRaytracing.
Definition visibility (v : vname) (own : bool) (rays : list ray) (g : grid) (p : pos) : Rand mask :=
  match v with
  | VFullyTransparent => Ret (fully_transparent g p)
  | VPartiallyOccluded => lift (partially_occluded g p)
  | VRaytracing => if in_grid g p then Ret (raytracing g rays) else Raise ValueError
  | VStochasticRaytracing => if in_grid g p then stochastic_raytracing own g rays else Raise ValueError
  end.
