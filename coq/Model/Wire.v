(* Wire format between the Python harness and the extracted model: flat lists of integers.
   Decoders fail (None) on malformed input: that is always a harness bug and fails the run. *)
From Coq Require Import ZArith List Bool.
From GV.Model Require Export Trans.
Import ListNotations.
Open Scope Z_scope.

Definition parser (A : Type) := list Z -> option (A * list Z).
Definition pret {A} (a : A) : parser A := fun l => Some (a, l).
Definition pbind {A B} (p : parser A) (f : A -> parser B) : parser B :=
  fun l => match p l with Some (a, l') => f a l' | None => None end.
Definition pfail {A} : parser A := fun _ => None.
Definition pZ : parser Z := fun l => match l with x :: t => Some (x, t) | [] => None end.
Notation "'do' x <- p ; q" := (pbind p (fun x => q)) (at level 200, x pattern, p at level 100, q at level 200).
Fixpoint prep {A} (n : nat) (p : parser A) : parser (list A) :=
  match n with O => pret [] | S k => do x <- p; do r <- prep k p; pret (x :: r) end.
Definition plist {A} (p : parser A) : parser (list A) := do n <- pZ; if n <? 0 then pfail else prep (Z.to_nat n) p.
Definition pbool : parser bool := do x <- pZ; if x =? 0 then pret false else if x =? 1 then pret true else pfail.
Definition pof {A} (f : Z -> option A) : parser A := do x <- pZ; match f x with Some a => pret a | None => pfail end.
Definition pori := pof Orientation_of_value.
Definition paction := pof Action_of_value.
Definition ppos : parser pos := do y <- pZ; do x <- pZ; pret (y, x).

Fixpoint pobj_fuel (fuel : nat) : parser obj :=
  match fuel with
  | O => pfail
  | S f => do t <- pZ; do s <- pZ; do c <- pZ; do n <- pZ;
           if n =? 0 then pret (Obj t s c None)
           else if n =? 1 then do k <- pobj_fuel f; pret (Obj t s c (Some k)) else pfail
  end.
Definition pobj : parser obj := fun l => pobj_fuel (S (length l)) l.
Definition pgrid : parser grid :=
  do h <- pZ; do w <- pZ;
  if (h <? 0) || (w <? 0) then pfail else prep (Z.to_nat h) (prep (Z.to_nat w) pobj).
Definition pstate : parser state :=
  do g <- pgrid; do p <- ppos; do o <- pori; do hld <- pobj; pret (mkS g p o hld).
Definition ptape : parser (list (list Z)) := plist (plist pZ).
Definition parea : parser area := do a <- pZ; do b <- pZ; do c <- pZ; do d <- pZ; pret (mkA a b c d).

(* encoders *)
Fixpoint eobj (o : obj) : list Z :=
  match o with Obj t s c k => t :: s :: c :: match k with None => [0] | Some x => 1 :: eobj x end end.
Definition egrid (g : grid) : list Z :=
  gheight g :: gwidth g :: flat_map (fun r => flat_map eobj r) g.
Definition estate (s : state) : list Z :=
  egrid (sgrid s) ++ [fst (spos s); snd (spos s); Orientation_value (sori s)] ++ eobj (sheld s).
Definition epos (p : pos) : list Z := [fst p; snd p].
Definition earea (a : area) : list Z := [ymin a; ymax a; xmin a; xmax a].
Definition elist {A} (e : A -> list Z) (l : list A) : list Z := Z.of_nat (length l) :: flat_map e l.
Definition ebool (b : bool) : list Z := [if b then 1 else 0].
Definition exn_code (e : exn) : Z :=
  match e with
  | IndexError => 1 | ValueError => 2 | TypeError => 3 | StopIteration => 4 | NotImplementedError => 5
  | RuntimeError => 6 | ZeroDivisionError => 7 | SchemaError => 8 | KeyError => 9 | AssertionError => 10 end.
Definition ereq (gr : bool * req) : list Z :=
  (if fst gr then 1 else 0) ::
  match snd gr with
  | RChoice n => [1; n; 0] | RInts lo hi => [2; lo; hi] | RSample n k => [3; n; k] | RPerm n => [4; n; 0] | RUnif n => [5; n; 0]
  end.
Definition eres {A} (e : A -> list Z) (r : res A) : list Z :=
  match r with Ok a => 0 :: e a | Err x => [1; exn_code x] end.
Definition eoutcome {A} (e : A -> list Z) (r : outcome A * list (bool * req)) : list Z :=
  match fst r with
  | OOk a => 0 :: elist ereq (snd r) ++ e a
  | OErr x => 1 :: exn_code x :: elist ereq (snd r)
  | OBadTape => 2 :: elist ereq (snd r)
  | OShortTape => 4 :: elist ereq (snd r)
  | OLongTape => 5 :: elist ereq (snd r)
  end.
Definition undecodable : list Z := [-777; -777; -777].
Definition run {A} (p : parser A) (k : A -> list Z) (l : list Z) : list Z :=
  match p l with Some (a, []) => k a | _ => undecodable end.

Definition tname_of (z : Z) : option tname :=
  match z with 0 => Some TMoveAgent | 1 => Some TTurnAgent | 2 => Some TPickndrop | 3 => Some TMoveObstacles
             | 4 => Some TActuateDoor | 5 => Some TActuateBox | 6 => Some TTeleport | _ => None end.
