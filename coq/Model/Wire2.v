(* wire format, continued: rewards, termination, observation functions, reset parameters, environments *)
From Coq Require Import ZArith List Bool.
From GV.Model Require Export Wire Reset.
Import ListNotations.
Open Scope Z_scope.

Definition pdfun : parser dfun := do x <- pZ; if x =? 0 then pret DManhattan else if x =? 1 then pret DEuclidean else pfail.
Fixpoint prname_fuel (fuel : nat) : parser rname :=
  match fuel with
  | O => pfail
  | S f =>
      do tag <- pZ;
      match tag with
      | 0 => do ty <- pZ; pret (ROverlap ty)
      | 1 => pret RLiving | 2 => pret RReachExit | 3 => pret RBumpObstacle
      | 4 => do d <- pdfun; do ty <- pZ; pret (RProportional d ty)
      | 5 => do d <- pdfun; do ty <- pZ; pret (RGettingCloser d ty)
      | 6 => do ty <- pZ; pret (RGettingCloserSP ty)
      | 7 => pret RBumpWall | 8 => pret RActuateDoor
      | 9 => do ty <- pZ; pret (RPickndrop ty)
      | 10 => pret RReachExitMemory
      | 11 => do l <- plist (prname_fuel f); pret (RSum l)
      | _ => pfail
      end
  end.
Definition prname : parser rname := fun l => prname_fuel (S (length l)) l.
Fixpoint ptmname_fuel (fuel : nat) : parser tmname :=
  match fuel with
  | O => pfail
  | S f =>
      do tag <- pZ;
      match tag with
      | 0 => do ty <- pZ; pret (TOverlap ty)
      | 1 => pret TReachExit | 2 => pret TBumpObstacle | 3 => pret TBumpWall
      | 4 => do l <- plist (ptmname_fuel f); pret (TAny l)
      | 5 => do l <- plist (ptmname_fuel f); pret (TAll l)
      | _ => pfail
      end
  end.
Definition ptmname : parser tmname := fun l => ptmname_fuel (S (length l)) l.
Definition pvname : parser vname :=
  do x <- pZ; match x with 0 => pret VFullyTransparent | 1 => pret VPartiallyOccluded | 2 => pret VRaytracing
                         | 3 => pret VStochasticRaytracing | _ => pfail end.
Definition prays : parser (list ray) := plist (plist ppos).
Definition prparams : parser rparams :=
  do tag <- pZ;
  match tag with
  | 0 => do h <- pZ; do w <- pZ; do ra <- pbool; do re <- pbool; pret (PEmpty h w ra re)
  | 1 => do h <- pZ; do w <- pZ; do ys <- plist pZ; do xs <- plist pZ; pret (PRooms h w ys xs)
  | 2 => do h <- pZ; do w <- pZ; do n <- pZ; do ra <- pbool; pret (PDynamicObstacles h w n ra)
  | 3 => do h <- pZ; do w <- pZ; pret (PKeydoor h w)
  | 4 => do h <- pZ; do w <- pZ; do n <- pZ; do ty <- pZ; pret (PCrossing h w n ty)
  | 5 => do h <- pZ; do w <- pZ; pret (PTeleport h w)
  | 6 => do h <- pZ; do w <- pZ; do cs <- plist pZ; pret (PMemory h w cs)
  | 7 => do h <- pZ; do w <- pZ; do ys <- plist pZ; do xs <- plist pZ; do cs <- plist pZ; do nb <- pZ; do ne <- pZ;
         pret (PMemoryRooms h w ys xs cs nb ne)
  | _ => pfail
  end.
Definition psspace : parser sspace := do h <- pZ; do w <- pZ; do ts <- plist pZ; do cs <- plist pZ; pret (mkSS h w ts cs).
Definition pospace : parser ospace := do h <- pZ; do w <- pZ; do ts <- plist pZ; do cs <- plist pZ; pret (mkOS h w ts cs).
Definition pgridworld : parser gridworld :=
  do ss <- psspace; do acts <- plist paction; do os <- pospace; do rp <- prparams; do tr <- plist (pof tname_of);
  do v <- pvname; do ar <- parea; do rw <- prname; do tm <- ptmname; do rays <- prays;
  pret (mkGW ss acts os (reset_of rp) tr (mkOF v ar) rw tm rays).
Definition piop : parser iop :=
  do tag <- pZ; match tag with 0 => pret OpReset | 1 => do a <- paction; pret (OpStep a) | 2 => pret OpReadState | 3 => pret OpReadObs | _ => pfail end.

Fixpoint erv (r : rv) : list Z :=
  match r with
  | RZero => [0] | RParam i => [1; Z.of_nat i]
  | RScaled i (DInt z) => [2; Z.of_nat i; 0; z] | RScaled i (DSqrt z) => [2; Z.of_nat i; 1; z]
  | RSumOf l => 3 :: Z.of_nat (length l) :: flat_map erv l
  end.
Definition eiout (o : iout) : list Z :=
  match o with
  | OutUnit => [0] | OutStep r t => 1 :: erv r ++ ebool t | OutState s => 2 :: estate s | OutObs s => 3 :: estate s end.
Definition emask (m : mask) : list Z := elist epos m.
