(* C01 -- Every step from a valid state is a valid transition (closure and totality).
   conforms = the declarative counterpart of StateSpace.contains (shape, declared types, agent in grid, held type);
   valid = conforms + well-formed grid + box contents hereditarily of declared types (documented precondition of actuate_box);
   the hypothesis `In ty_Floor types` is the documented precondition of pickndrop (it puts Floor).
   Only statements; every proof is `exact <lemma>`. *)
From Coq Require Import ZArith List Bool.
From GV.Model Require Import Env.
From GV.Lemmas Require Import GridL RandL TransL C05L C12L C08L C01L.
Import ListNotations.
Open Scope Z_scope.

(* the space-membership predicates accept exactly the states / observations / actions that conform *)
Theorem C01_state_contains_iff : forall sp s, ss_contains sp s = true <-> conforms sp s.
Proof. exact contains_iff. Qed.
Theorem C01_observation_contains_iff : forall sp o, os_contains sp o = true <-> oconforms sp o.
Proof. exact ocontains_iff. Qed.
Theorem C01_action_contains_iff : forall acts a, as_contains acts a = true <-> In a acts.
Proof. exact as_contains_iff. Qed.
Theorem C01_valid_conforms : forall sp s, valid sp s -> conforms sp s.
Proof. exact valid_conforms. Qed.
(* every built-in transition function, every action, EVERY random outcome: no exception, valid again *)
Theorem C01_transition_closed : forall sp, In ty_Floor (ss_types sp) -> forall n s a own,
  valid sp s -> all_ok (valid sp) (tfun_of n s a own).
Proof. exact transition_closed. Qed.
(* all compositions, any length, any order, repetitions included; and all histories *)
Theorem C01_chain_closed : forall sp, In ty_Floor (ss_types sp) -> forall ns s a own,
  valid sp s -> all_ok (valid sp) (chain (map tfun_of ns) s a own).
Proof. exact chain_closed. Qed.
Theorem C01_history_closed : forall sp ns own acts, In ty_Floor (ss_types sp) -> forall s, valid sp s ->
  all_ok (valid sp) (run_actions ns own acts s).
Proof. exact history_closed. Qed.
(* reward and termination never raise under the documented preconditions (unique object / a beacon exists) *)
Theorem C01_reward_total : forall r s a s', st_ok s -> st_ok s' ->
  gheight (sgrid s') = gheight (sgrid s) -> gwidth (sgrid s') = gwidth (sgrid s) ->
  reward_pre r s s' -> exists v, reward r s a s' = Ok v.
Proof. exact reward_total. Qed.
Theorem C01_termination_total : forall t s a s', st_ok s -> st_ok s' -> exists b, terminates t s a s' = Ok b.
Proof. exact termination_total. Qed.
(* the environment step, debug flag on or off: every action of the action space gives (next state, reward, flag), next state valid *)
Theorem C01_step_closed : forall e debug s a, In ty_Floor (ss_types (gw_sspace e)) -> valid (gw_sspace e) s -> In a (gw_actions e) ->
  (forall s', valid (gw_sspace e) s' -> reward_pre (gw_reward e) s s') ->
  all_ok (fun out => valid (gw_sspace e) (fst (fst out))) (functional_step e debug s a).
Proof. exact step_closed. Qed.
(* actions outside the action space are rejected with ValueError, for any state, debug on or off *)
Theorem C01_step_rejects : forall e debug s a x, ~ In a (gw_actions e) -> Leaf (functional_step e debug s a) x -> x = Err ValueError.
Proof. exact step_rejects. Qed.
(* the observation of any valid state lies in the observation space (which declares the state's types and colours and has the view shape) *)
Theorem C01_observation_in_space : forall v own rays a s obs sp osp, area_ok a = true -> valid sp s ->
  os_h osp = aheight a -> os_w osp = awidth a ->
  (forall t, In t (ss_types sp) -> In t (os_types osp)) -> colours_ok (os_colors osp) s ->
  0 <= - ymin a < aheight a -> 0 <= - xmin a < awidth a ->
  Leaf (from_visibility v own rays a s) (Ok obs) -> os_contains osp obs = true.
Proof. exact observation_in_space. Qed.

(* non-vacuity: the agent on the top edge facing outward holding a box, next to an unpaired telepod, is a valid state *)
Example C01_example :
  let sp := mkSS 2 3 [ty_Floor; ty_Wall; ty_Telepod; ty_Box; ty_Key] [1] in
  let s := mkS [[Telepod 1; Floor; Box (Key 1)]; [Wall; Floor; Floor]] (0, 0) FORWARD (Box (Box Floor)) in
  ss_contains sp s = true /\ wf_gridb (sgrid s) = true /\ forallb (contents_ok (ss_types sp)) (sheld s :: concat (sgrid s)) = true
  /\ leaves (chain (map tfun_of [TTeleport; TMoveAgent; TPickndrop; TActuateBox]) s MOVE_FORWARD true) = Some [Ok s].
Proof. cbv zeta. repeat split; vm_compute; reflexivity. Qed.
