(* C02 -- Seeded environments are reproducible and isolated from every global RNG.
   Every draw of the model says which generator it consumes (Draw global ...).  `run2 m own glob` runs a computation feeding the
   environment's draws from `own` and library-level draws from `glob`.  Only statements; every proof is `exact <lemma>`.
   What the model cannot carry (separate interpreter processes, hash randomisation, the python `random` / `numpy.random` modules)
   is observed by the suite's monitors; the model proves there is nothing for them to influence. *)
From Coq Require Import ZArith List Bool Permutation.
From GV.Model Require Import Gym Reset.
From GV.Lemmas Require Import RandL C02L.
Import ListNotations.
Open Scope Z_scope.

(* ROUTING: given the environment's generator, no built-in component ever draws from the library-level one, for any input *)
Theorem C02_transition_functions_no_global_draw : forall ns s a, NoGlobal (chain (map tfun_of ns) s a true).
Proof. exact ng_chain. Qed.
Theorem C02_reset_functions_no_global_draw : forall rp, NoGlobal (reset_of rp true).
Proof. exact ng_reset. Qed.
Theorem C02_observation_functions_no_global_draw : forall v rays a s, NoGlobal (from_visibility v true rays a s).
Proof. exact ng_from_visibility. Qed.
(* hence no environment assembled from built-in parts does, through any sequence of operations, at the inner, outer, gym or wrapper layer *)
Theorem C02_environment_no_global_draw : forall e debug, builtin e -> forall ops m, NoGlobal (irun e debug m ops).
Proof. exact ng_irun. Qed.
Theorem C02_gym_layers_no_global_draw : forall e debug, builtin e -> forall ops g, NoGlobal (grun e debug g ops).
Proof. exact ng_grun. Qed.
(* a computation that never draws globally leaves the library-level stream untouched and does not depend on it *)
Theorem C02_global_stream_untouched : forall A (m : Rand A) own glob r o g, NoGlobal m -> run2 m own glob = Some (r, o, g) -> g = glob.
Proof. exact (@global_stream_untouched). Qed.
Theorem C02_same_seed_same_outputs : forall e debug m ops own glob glob', builtin e ->
  option_map (fun x => (fst (fst x), snd (fst x))) (run2 (irun e debug m ops) own glob) =
  option_map (fun x => (fst (fst x), snd (fst x))) (run2 (irun e debug m ops) own glob').
Proof. exact same_seed_same_outputs. Qed.
(* INTERLEAVING: however the operations of several environments are scheduled, each one ends exactly where it would have ended
   running alone on its own operations with its own stream (same machine state, same outputs, same stream consumption), and the
   library-level stream is untouched *)
Theorem C02_interleaving_independent : forall sch w w' i s, all_builtin (fst w) -> wrun w sch = Some w' -> nth_error (fst w) i = Some s ->
  snd w' = snd w /\ exists s', solo s (ops_of i sch) = Some s' /\ nth_error (fst w') i = Some s'.
Proof. exact interleaving_independent. Qed.
(* HIDDEN INPUTS: the reset functions that receive a SET of colours do not depend on the order in which it is iterated
   (which in python depends on hash randomisation) *)
Theorem C02_memory_order_independent : forall h w cs cs' own, Permutation cs cs' -> reset_memory h w cs own = reset_memory h w cs' own.
Proof. exact memory_order_independent. Qed.
Theorem C02_memory_rooms_order_independent : forall h w ys xs cs cs' nb ne own, Permutation cs cs' ->
  reset_memory_rooms h w ys xs cs nb ne own = reset_memory_rooms h w ys xs cs' nb ne own.
Proof. exact memory_rooms_order_independent. Qed.
(* DEBUG FLAG: whenever an operation succeeds with the flag on, it gives the same result and consumes the same randomness with it off *)
Theorem C02_debug_irrelevant_step : forall e s a own glob r o g,
  run2 (functional_step e true s a) own glob = Some (Ok r, o, g) -> run2 (functional_step e false s a) own glob = Some (Ok r, o, g).
Proof. exact debug_irrelevant_step. Qed.
Theorem C02_debug_irrelevant_reset : forall e own glob r o g,
  run2 (functional_reset e true) own glob = Some (Ok r, o, g) -> run2 (functional_reset e false) own glob = Some (Ok r, o, g).
Proof. exact debug_irrelevant_reset. Qed.
Theorem C02_debug_irrelevant_observation : forall e s own glob r o g,
  run2 (functional_observation e true s) own glob = Some (Ok r, o, g) -> run2 (functional_observation e false s) own glob = Some (Ok r, o, g).
Proof. exact debug_irrelevant_observation. Qed.

(* non-vacuity: an environment satisfying `builtin`; and the predicate is not trivial -- teleport WITHOUT its generator draws globally *)
Example C02_example_builtin_env : builtin C02_example_env.
Proof. exact C02_example_builtin. Qed.
Example C02_example_global_draw_is_detected :
  ~ NoGlobal (tfun_of TTeleport (mkS [[Telepod 1; Floor; Telepod 1]] (0, 0) FORWARD NoneObj) MOVE_FORWARD false).
Proof. exact C02_example_caught. Qed.
