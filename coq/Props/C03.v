(* C03 -- The functional interface is pure, alias-free and history-independent.
   LIMITS, stated first: mutation, aliasing and caches are facts about the CPython object graph; the Gallina model has no heap, so
   the unbounded claim about python objects is NOT reachable by proof and is not claimed as proved.  Proved here: the architecture
   argument (copy, then mutate the copy) over an abstract heap; that the model itself is history-free is definitional (its
   functions have no state), so the correspondence suites, which replay the code after arbitrary histories against the model,
   are what ties history-independence to the code.  The hypotheses of the frame theorem are monitored on the real objects by the
   suite (level: other).  Only statements. *)
From Coq Require Import List Arith.
From GV.Lemmas Require Import C03L C16L.
From GV.Model Require Import Repr.
Import ListNotations.

Theorem C03_copy_then_mutate_frame : forall (cell : Type) (children : cell -> list nat) (h h1 h2 : heap cell) (root root' : nat),
  (forall l, dom cell h l -> h1 l = h l) ->
  (forall l, reach cell children h1 root' l -> ~ dom cell h l) ->
  (forall l, dom cell h1 l -> ~ reach cell children h1 root' l -> h2 l = h1 l) ->
  (forall l c, h2 l = Some c -> (reach cell children h1 root' l \/ ~ dom cell h1 l) ->
               forall k, In k (children c) -> reach cell children h1 root' k \/ ~ dom cell h1 k) ->
  (forall l, dom cell h l -> h2 l = h l) /\
  (forall l, reach cell children h root l -> dom cell h l -> reach cell children h2 root l) /\
  (forall l, reach cell children h2 root' l -> ~ dom cell h l).
Proof. exact copy_then_mutate_frame. Qed.
(* a copied state equals its original and hashes alike: in the model a copy is the same value; == iff equal hash keys (C16) *)
Theorem C03_equal_states_hash_alike : forall s1 s2, wf_grid (sgrid s1) -> wf_grid (sgrid s2) ->
  (state_eqb s1 s2 = true <-> state_hashkey s1 = state_hashkey s2).
Proof. exact hash_consistent. Qed.
