(* C04 -- The stateful interface mirrors the functional one; observations are never stale.
   ienv = (_state, memoised _observation); istep = one operation (reset / step / read state / read observation) in the
   Rand monad; a failing operation raises and leaves the machine as it was (irun).  Only statements; proofs are `exact`. *)
From Coq Require Import ZArith List Bool.
From GV.Model Require Import Env.
From GV.Lemmas Require Import RandL C04L NonVac.
Import ListNotations.
Open Scope Z_scope.

(* every successful stateful trajectory (any action sequence) is exactly a functional threading of the states, and conversely *)
Theorem C04_stateful_refines_functional : forall e debug acts s mo outs m',
  Leaf (drive e debug (mkIE (Some s) mo) acts) (Ok (outs, m')) <->
  exists s', Leaf (thread e debug s acts) (Ok (outs, s')) /\ m' = mkIE (Some s') (match acts with [] => mo | _ => None end).
Proof. exact drive_refines_thread. Qed.
(* one-step equations: reset / step / fresh read are the functional operations on the current state *)
Theorem C04_step_is_functional : forall e debug s mo a,
  istep e debug (mkIE (Some s) mo) (OpStep a) =
  bind (functional_step e debug s a) (fun out => let '(s', r, t) := out in Ret (mkIE (Some s') None, OutStep r t)).
Proof. exact istep_step. Qed.
Theorem C04_reset_is_functional : forall e debug m,
  istep e debug m OpReset = bind (functional_reset e debug) (fun s => Ret (mkIE (Some s) None, OutUnit)).
Proof. exact istep_reset. Qed.
Theorem C04_fresh_read_is_functional : forall e debug s,
  istep e debug (mkIE (Some s) None) OpReadObs =
  bind (functional_observation e debug s) (fun o => Ret (mkIE (Some s) (Some o), OutObs o)).
Proof. exact istep_obs_fresh. Qed.
(* for every operation sequence and random outcome: an observation handed out belongs to the current state *)
Theorem C04_observation_never_stale : forall e debug m m' o, reachable e debug m ->
  Leaf (istep e debug m OpReadObs) (Ok (m', OutObs o)) ->
  exists s, ie_state m = Some s /\ ie_state m' = Some s /\ Leaf (functional_observation e debug s) (Ok o).
Proof. exact observation_never_stale. Qed.
Theorem C04_memo_invariant : forall e debug m, reachable e debug m -> fresh e debug m.
Proof. exact reachable_fresh. Qed.
(* recomputed after every reset and step *)
Theorem C04_reset_and_step_clear_memo : forall e debug m op m' out, (op = OpReset \/ exists a, op = OpStep a) ->
  Leaf (istep e debug m op) (Ok (m', out)) -> ie_obs m' = None.
Proof. exact reset_and_step_clear_memo. Qed.
(* computed at most once per state: repeated reads return the same observation and draw nothing *)
Theorem C04_read_idempotent : forall e debug m m1 o, Leaf (istep e debug m OpReadObs) (Ok (m1, OutObs o)) ->
  istep e debug m1 OpReadObs = Ret (m1, OutObs o) /\
  istep e debug m1 OpReadState = bind (the_state m1) (fun s => Ret (m1, OutState s)).
Proof. exact read_idempotent. Qed.
(* asking for the state (or observing, or stepping) before the first reset raises *)
Theorem C04_state_before_reset : forall e debug op, op <> OpReset -> istep e debug ie_init op = Raise RuntimeError.
Proof. exact state_before_reset. Qed.

(* non-vacuity: on a concrete environment (4x4 empty room, move/turn, 3x3 transparent view) the machine reaches -- by reset, a move, a read -- a
   state with a memoised observation, which is an observation of the current state (agent at (1,2)): the hypotheses `reachable` above are met
   by non-trivial machine states *)
Example C04_nonvacuous : exists m s o, reachable e0 true m /\ ie_state m = Some s /\ ie_obs m = Some o /\ spos s = (1, 2) /\
  Leaf (functional_observation e0 true s) (Ok o).
Proof. exact nonvac_C04. Qed.
