From Coq Require Import ZArith List Bool.
From GV.Model Require Import Env.
Theorem C04_placeholder : True.
Proof. exact I. Qed.
