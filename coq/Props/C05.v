From Coq Require Import ZArith List Bool.
From GV.Model Require Import Obs.
Theorem C05_placeholder : True.
Proof. exact I. Qed.
