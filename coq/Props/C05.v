(* C05 -- Observations are sound: they never show anything that is not there.
   world_pos s a i j = the world cell under view cell (i, j) when the view area is placed at the agent's pose;
   lookupH = the world cell, Hidden outside the grid.  Equality of cells is STRUCTURAL (box contents included).
   Only statements; every proof is `exact <lemma>`. *)
From Coq Require Import ZArith List Bool.
From GV.Model Require Import Obs.
From GV.Lemmas Require Import GridL RandL GeomL RotL C05L.
Import ListNotations.
Open Scope Z_scope.

(* key lemma: rot o (subgrid g (pose . area)) has the area's shape and its cell (i, j) is the world cell under it --
   for every well-formed area, every pose (edges, corners, outside the grid), all four headings, square or not *)
Theorem C05_raw_view_spec : forall s a pov, area_ok a = true -> tact_area (mkT (spos s) (sori s)) a = Ok pov ->
  let og := raw_view s pov in
  hN og = HN a /\ wN og = WN a /\ wf_grid og /\
  forall i j, (i < HN a)%nat -> (j < WN a)%nat -> get0 og i j = lookupH (sgrid s) (world_pos s a i j).
Proof. exact raw_view_spec. Qed.
(* every built-in observation function (vname), every random outcome: shape, anchor, heading, held item, and every cell is
   Hidden or IS the world cell *)
Theorem C05_observation_sound : forall v own rays a s obs, area_ok a = true -> Leaf (from_visibility v own rays a s) (Ok obs) ->
  hN (sgrid obs) = HN a /\ wN (sgrid obs) = WN a /\ wf_grid (sgrid obs) /\
  spos obs = (- ymin a, - xmin a) /\ sori obs = FORWARD /\ sheld obs = sheld s /\
  forall i j, (i < HN a)%nat -> (j < WN a)%nat ->
    get0 (sgrid obs) i j = Hidden \/ get0 (sgrid obs) i j = lookupH (sgrid s) (world_pos s a i j).
Proof. exact observation_sound. Qed.
Theorem C05_outside_is_hidden : forall v own rays a s obs i j, area_ok a = true -> Leaf (from_visibility v own rays a s) (Ok obs) ->
  (i < HN a)%nat -> (j < WN a)%nat -> in_grid (sgrid s) (world_pos s a i j) = false -> get0 (sgrid obs) i j = Hidden.
Proof. exact observation_outside_hidden. Qed.
(* with the fully transparent function every cell of the view is shown; it never raises *)
Theorem C05_fully_transparent_complete : forall own rays a s, area_ok a = true ->
  exists obs, from_visibility VFullyTransparent own rays a s = Ret obs /\
    forall i j, (i < HN a)%nat -> (j < WN a)%nat -> get0 (sgrid obs) i j = lookupH (sgrid s) (world_pos s a i j).
Proof. exact fully_transparent_complete. Qed.

(* non-vacuity: a non-square asymmetric view from the right edge, heading RIGHT, partly outside a 2x3 grid *)
Example C05_example :
  let s := mkS [[Floor; Wall; Key 1]; [Exit 2; Floor; Door 1 4]] (0, 2) RIGHT (Key 3) in
  from_visibility VFullyTransparent true [] (mkA (-1) 0 (-1) 2) s
  = Ret (mkS [[Hidden; Hidden; Hidden; Hidden]; [Hidden; Key 1; Door 1 4; Hidden]] (1, 1) FORWARD (Key 3)).
Proof. vm_compute. reflexivity. Qed.
