(* C06 -- Hidden cells carry no information (occlusion is non-interfering and monotone).
   Views are the rotated sub-grids (raw_view) of C05; a mask is the list of visible view cells.
   Rays are an input of the model; `rays_inside` (every ray cell lies in the view) is part of property C19's contract.
   Only statements; every proof is `exact <lemma>`. *)
From Coq Require Import ZArith List Bool.
From GV.Model Require Import Obs.
From GV.Lemmas Require Import GridL RandL GeomL RotL C05L C06L.
Import ListNotations.
Open Scope Z_scope.

(* partially_occluded: the recursive flood fill computes exactly the reachability relation (soundness and completeness) *)
Theorem C06_flood_eq_reach : forall g p msk q, wf_grid g -> partially_occluded g p = Ok msk ->
  (visible msk q = true <-> po_visible g p q).
Proof. exact flood_eq_reach. Qed.
Theorem C06_po_agent_visible : forall g p, in_grid g p = true -> po_visible g p p.
Proof. exact po_agent_visible. Qed.
(* a visible cell is the agent's or is adjacent to a visible TRANSPARENT cell: the unbroken chain *)
Theorem C06_po_chain : forall g p q, po_visible g p q -> q = p \/
  exists c, po_visible g p c /\ o_blocks_vision (lookupH g c) = false /\ adjacent8 c q /\ in_grid g q = true.
Proof. exact po_chain. Qed.
(* non-interference: replacing any cell that is not visible leaves the set of visible cells, hence the observation, unchanged *)
Theorem C06_po_view_noninterference : forall og og' p, hN og' = hN og -> wN og' = wN og ->
  (forall q, po_visible og p q -> lookupH og' q = lookupH og q) ->
  forall q, po_visible og' p q <-> po_visible og p q.
Proof. exact po_view_noninterference. Qed.
Theorem C06_po_noninterference : forall own rays a s s' pov, area_ok a = true ->
  spos s' = spos s -> sori s' = sori s -> sheld s' = sheld s ->
  tact_area (mkT (spos s) (sori s)) a = Ok pov ->
  (forall m q, partially_occluded (raw_view s pov) (- ymin a, - xmin a) = Ok m -> visible m q = true ->
     lookupH (raw_view s' pov) q = lookupH (raw_view s pov) q) ->
  from_visibility VPartiallyOccluded own rays a s' = from_visibility VPartiallyOccluded own rays a s.
Proof. exact po_obs_noninterference. Qed.
(* making a visible opaque cell transparent never hides a cell that was visible *)
Theorem C06_po_monotone : forall og og' p q, hN og' = hN og -> wN og' = wN og ->
  (forall x, o_blocks_vision (lookupH og x) = false -> o_blocks_vision (lookupH og' x) = false) ->
  po_visible og p q -> po_visible og' p q.
Proof. exact po_monotone. Qed.
(* ray tracing (defaults absolute_counts, threshold 1): visible iff inside the view and lit along some ray *)
Theorem C06_rt_eq_lit : forall g rays p, visible (raytracing g rays) p = true <-> in_grid g p = true /\ lit g rays p.
Proof. exact rt_eq_lit. Qed.
Theorem C06_rt_noninterference : forall own rays a s s' pov, area_ok a = true ->
  spos s' = spos s -> sori s' = sori s -> sheld s' = sheld s ->
  tact_area (mkT (spos s) (sori s)) a = Ok pov -> rays_inside (raw_view s pov) rays ->
  (forall q, visible (raytracing (raw_view s pov) rays) q = true -> lookupH (raw_view s' pov) q = lookupH (raw_view s pov) q) ->
  from_visibility VRaytracing own rays a s' = from_visibility VRaytracing own rays a s.
Proof. exact rt_obs_noninterference. Qed.
Theorem C06_rt_chain : forall g rays p, rays_inside g rays -> lit g rays p ->
  exists r k, In r rays /\ nth_error r k = Some p /\
    forall i c, (i < k)%nat -> nth_error r i = Some c -> in_grid g c = true /\ lit g rays c /\ transparent g c = true.
Proof. exact rt_chain. Qed.
Theorem C06_rt_monotone : forall g g' rays p,
  (forall x, o_blocks_vision (lookupH g x) = false -> o_blocks_vision (lookupH g' x) = false) -> lit g rays p -> lit g' rays p.
Proof. exact rt_monotone. Qed.
Theorem C06_rt_agent_visible : forall g rays p r, In r rays -> nth_error r 0 = Some p -> lit g rays p.
Proof. exact rt_agent_visible. Qed.
(* the stochastic variant, every random outcome: shown => the deterministic ray-traced view can show it;
   every ray through the cell lit (num = den > 0) => always shown *)
Theorem C06_stoch_subset : forall own g rays m p, Leaf (stochastic_raytracing own g rays) (Ok m) -> visible m p = true ->
  visible (raytracing g rays) p = true.
Proof. exact stoch_subset. Qed.
Theorem C06_stoch_superset : forall g rays p z, 0 <= z < two53 -> 0 < count_den g rays p -> count_num g rays p = count_den g rays p ->
  stoch_shown g rays p z = true.
Proof. exact stoch_superset_cell. Qed.
Theorem C06_stoch_outcomes : forall own g rays m, Leaf (stochastic_raytracing own g rays) (Ok m) ->
  exists zs, Z.of_nat (length zs) = gheight g * gwidth g /\ Forall (fun z => 0 <= z < two53) zs /\
    m = map fst (filter (fun pz => stoch_shown g rays (fst pz) (snd pz)) (combine (gpositions g) zs)).
Proof. exact stoch_leaf. Qed.

(* non-vacuity: a wall in front of the agent hides what is behind it; u = 0 shows nothing that no lit ray reaches *)
Example C06_example :
  partially_occluded [[Key 1; Key 2; Key 3]; [Wall; Wall; Wall]; [Floor; Floor; Floor]] (2, 1)
    = Ok [(1, 0); (2, 0); (1, 1); (2, 1); (1, 2); (2, 2); (1, 1); (2, 1)]
  /\ stoch_shown [[Wall]; [Floor]] [[(1, 0)]] (0, 0) 0 = false.
Proof. split; vm_compute; reflexivity. Qed.
