(* C07 -- Observations are egocentric: invariant under rotating the whole world.
   Only statements; every proof is `exact <lemma>`. *)
From Coq Require Import ZArith List Bool.
From GV.Model Require Import Obs.
From GV.Lemmas Require Import GridL RandL GeomL RotL C05L C07L.
Import ListNotations.
Open Scope Z_scope.

(* for ANY rigid motion t of Z^2 (quarter turn + translation): if world g' is world g carried along t, the observation from
   the carried pose equals the observation from the original pose -- every built-in observation function (the stochastic one:
   equal as choice trees), every view area *)
Theorem C07_observation_rigid_invariant : forall v own rays t s g' a, area_ok a = true -> carried t (sgrid s) g' ->
  from_visibility v own rays a (move_pose t s g') = from_visibility v own rays a s.
Proof. exact observation_rigid_invariant. Qed.
(* Grid.__mul__ r with the induced cell map is such a motion, for all shapes; the induced heading is (-r) * o *)
Theorem C07_grid_mul_is_rigid : forall r g, wf_grid g -> carried (rot_motion r g) g (grid_rot_by r g).
Proof. exact grid_mul_is_rigid. Qed.
Theorem C07_world_rotation_invariant : forall v own rays r s a, area_ok a = true -> wf_grid (sgrid s) ->
  from_visibility v own rays a (rotate_world r s) = from_visibility v own rays a s.
Proof. exact world_rotation_invariant. Qed.
Theorem C07_rotated_pose : forall r s, sori (rotate_world r s) = omul (oneg r) (sori s) /\
  spos (rotate_world r s) = tact (rot_motion r (sgrid s)) (spos s) /\ sheld (rotate_world r s) = sheld s.
Proof. exact rotate_world_pose. Qed.

Example C07_example :
  let s := mkS [[Floor; Wall; Key 1]; [Exit 2; Floor; Door 1 4]] (1, 1) FORWARD NoneObj in
  rotate_world RIGHT s = mkS [[Key 1; Door 1 4]; [Wall; Floor]; [Floor; Exit 2]] (1, 1) LEFT NoneObj
  /\ from_visibility VPartiallyOccluded true [] (mkA (-1) 0 (-1) 1) (rotate_world RIGHT s)
     = from_visibility VPartiallyOccluded true [] (mkA (-1) 0 (-1) 1) s.
Proof. split; vm_compute; reflexivity. Qed.
