(* C08 -- Agent kinematics: moves and turns do exactly what the action says.
   Only statements; every proof is `exact <lemma>`. *)
From Coq Require Import ZArith List Bool.
From GV.Model Require Import Trans.
From GV.Lemmas Require Import GridL RandL GeomL TransL C08L.
Import ListNotations.
Open Scope Z_scope.

(* a move action displaces the agent by exactly one cell in the commanded direction relative to its heading
   iff the target cell is inside the grid and does not block movement; otherwise it stays; nothing else changes *)
Theorem C08_move_spec : forall (s : state) (a : Action) (own : bool) (d : ori),
  wf_grid (sgrid s) -> move_dir a = Some d ->
  let t := displaced s d in
  exists s', move_agent s a own = Ret s' /\ sgrid s' = sgrid s /\ sori s' = sori s /\ sheld s' = sheld s /\
    (spos s' = t <-> in_grid (sgrid s) t = true /\ o_blocks_movement (lookupH (sgrid s) t) = false) /\
    (spos s' = t \/ spos s' = spos s).
Proof. exact move_spec. Qed.
Theorem C08_move_directions :
  move_dir MOVE_FORWARD = Some FORWARD /\ move_dir MOVE_BACKWARD = Some BACKWARD /\
  move_dir MOVE_LEFT = Some LEFT /\ move_dir MOVE_RIGHT = Some RIGHT /\
  (forall a, is_move a = false <-> move_dir a = None) /\
  ovec FORWARD = (-1, 0) /\ ovec BACKWARD = (1, 0) /\ ovec LEFT = (0, -1) /\ ovec RIGHT = (0, 1).
Proof. exact move_dir_table. Qed.
Theorem C08_displaced_is_adjacent : forall s d, manhattan (displaced s d) (spos s) = 1.
Proof. exact displaced_adjacent. Qed.
Theorem C08_nonmove_inert : forall s a own, is_move a = false -> move_agent s a own = Ret s.
Proof. exact move_nonmove. Qed.
(* turns: a quarter turn of the heading, never a displacement; left-right and four equal turns restore *)
Theorem C08_turn_spec : forall s a own,
  exists s', turn_agent s a own = Ret s' /\ spos s' = spos s /\ sgrid s' = sgrid s /\ sheld s' = sheld s /\
    sori s' = match a with TURN_LEFT => omul (sori s) LEFT | TURN_RIGHT => omul (sori s) RIGHT | _ => sori s end.
Proof. exact turn_spec. Qed.
Theorem C08_turn_is_quarter : forall o : ori,
  ovec (omul o LEFT) = orot LEFT (ovec o) /\ ovec (omul o RIGHT) = orot RIGHT (ovec o)
  /\ omul o LEFT <> o /\ omul o RIGHT <> o /\ omul o LEFT <> omul o RIGHT.
Proof. exact turn_quarter. Qed.
Theorem C08_turn_left_right_id : forall s own,
  bind (turn_agent s TURN_LEFT own) (fun s1 => turn_agent s1 TURN_RIGHT own) = Ret s
  /\ bind (turn_agent s TURN_RIGHT own) (fun s1 => turn_agent s1 TURN_LEFT own) = Ret s.
Proof. exact turn_left_right_id. Qed.
Theorem C08_four_turns_id : forall s a own, is_turn a = true ->
  bind (turn_agent s a own) (fun s1 => bind (turn_agent s1 a own) (fun s2 => bind (turn_agent s2 a own) (fun s3 => turn_agent s3 a own))) = Ret s.
Proof. exact four_turns_id. Qed.
(* no other built-in function changes the pose, under any action, for any random outcome *)
Theorem C08_pose_frame : forall n s a own s', wf_grid (sgrid s) ->
  match n with TMoveAgent | TTurnAgent | TTeleport => False | _ => True end ->
  Leaf (tfun_of n s a own) (Ok s') -> spos s' = spos s /\ sori s' = sori s.
Proof. exact pose_frame. Qed.
Theorem C08_move_keeps_heading : forall s a own s', wf_grid (sgrid s) -> Leaf (move_agent s a own) (Ok s') -> sori s' = sori s.
Proof. exact move_agent_keeps_heading. Qed.
Theorem C08_turn_keeps_position : forall s a own s', Leaf (turn_agent s a own) (Ok s') -> spos s' = spos s.
Proof. exact turn_agent_keeps_position. Qed.
(* consequently: in every history of every composition, for every random outcome, the agent is inside the grid
   and not on a movement-blocking cell *)
Theorem C08_kinematic_invariant_step : forall n s a own s', kin_ok s -> Leaf (tfun_of n s a own) (Ok s') -> kin_ok s'.
Proof. exact kinematic_step. Qed.
Theorem C08_kinematic_invariant_history : forall (ns : list tname) (own : bool) (acts : list Action) (s s' : state),
  kin_ok s -> Leaf (run_actions ns own acts s) (Ok s') -> kin_ok s'.
Proof. exact kinematic_history. Qed.

(* non-vacuity: the agent on the top edge facing outward satisfies the hypotheses, and stays *)
Example C08_example_edge :
  let s := mkS [[Floor; Floor; Floor]; [Floor; Wall; Floor]; [Floor; Floor; Floor]] (0, 1) FORWARD NoneObj in
  kin_ok s /\ move_agent s MOVE_FORWARD true = Ret s /\ move_agent s MOVE_BACKWARD true = Ret s
  /\ move_agent s MOVE_LEFT true = Ret (set_pos s (0, 0)).
Proof. cbv zeta. split; [split; [apply wf_gridb_spec; vm_compute; reflexivity | split; vm_compute; reflexivity] | repeat split; vm_compute; reflexivity]. Qed.
