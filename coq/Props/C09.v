(* C09 -- Objects are conserved: nothing is created, destroyed, duplicated or recoloured.
   inventory s = multiset (list up to Permutation) of (type, colour, content) of the held item and of every cell,
   status erased, Floor and the empty hand left out.  Only statements; every proof is `exact <lemma>`. *)
From Coq Require Import ZArith List Bool Permutation.
From GV.Model Require Import Trans.
From GV.Lemmas Require Import GridL RandL TransL InvL C08L C09L.
Import ListNotations.
Open Scope Z_scope.

Theorem C09_conserved_step : forall n s a own s', wf_grid (sgrid s) -> in_grid (sgrid s) (spos s) = true -> n <> TActuateBox ->
  Leaf (tfun_of n s a own) (Ok s') -> Permutation (inventory s') (inventory s).
Proof. exact conserved_step. Qed.
(* opening a box replaces the box by its content -- and nothing else changes the inventory *)
Theorem C09_box_step : forall s a own s', wf_grid (sgrid s) -> Leaf (actuate_box s a own) (Ok s') ->
  let b := lookupH (sgrid s) (sfront s) in
  (is_actuate a && in_grid (sgrid s) (sfront s) && is_ty ty_Box b = true /\
     exists c, ocontent b = Some c /\ Permutation (invl [b] ++ inventory s') (invl [c] ++ inventory s))
  \/ s' = s.
Proof. exact actuate_box_step. Qed.
Theorem C09_conserved_history : forall ns own acts, ~ In TActuateBox ns -> forall s s', kin_ok s ->
  Leaf (run_actions ns own acts s) (Ok s') -> Permutation (inventory s') (inventory s).
Proof. exact conserved_history. Qed.
(* with boxes in play: the multiset of unwrapped objects is conserved by every composition and history *)
Theorem C09_deep_conserved_history : forall ns own acts s s', kin_ok s ->
  Leaf (run_actions ns own acts s) (Ok s') -> Permutation (deep_inventory s') (deep_inventory s).
Proof. exact deep_conserved_history. Qed.
(* pick-and-drop: pick / swap / drop, only the front cell and the hand change, the front cell must be inside the grid and
   hold Floor or a holdable object; in every other case nothing changes at all *)
Theorem C09_pickndrop_cases : forall s a own, wf_grid (sgrid s) ->
  let pf := sfront s in let o := lookupH (sgrid s) pf in
  exists s', pickndrop s a own = Ret s' /\ spos s' = spos s /\ sori s' = sori s /\
    (forall q, q <> pf -> lookupH (sgrid s') q = lookupH (sgrid s) q) /\
    gheight (sgrid s') = gheight (sgrid s) /\ gwidth (sgrid s') = gwidth (sgrid s) /\
    ((a = PICK_N_DROP /\ in_grid (sgrid s) pf = true /\ o_holdable o = true /\
        sheld s' = o /\ lookupH (sgrid s') pf = (if is_ty ty_NoneGridObject (sheld s) then Floor else sheld s))
     \/ (a = PICK_N_DROP /\ in_grid (sgrid s) pf = true /\ o_holdable o = false /\ is_ty ty_Floor o = true /\
        sheld s' = NoneObj /\ lookupH (sgrid s') pf = (if is_ty ty_NoneGridObject (sheld s) then Floor else sheld s))
     \/ ((a <> PICK_N_DROP \/ in_grid (sgrid s) pf = false \/ (o_holdable o = false /\ is_ty ty_Floor o = false)) /\ s' = s)).
Proof. exact pickndrop_cases. Qed.
(* scenery (anything that is not holdable, floor or a moving obstacle) never moves, except the box being opened *)
Theorem C09_scenery_static : forall n s a own s' q, wf_grid (sgrid s) -> in_grid (sgrid s) (spos s) = true ->
  Leaf (tfun_of n s a own) (Ok s') -> scenery (lookupH (sgrid s) q) = true ->
  erase (lookupH (sgrid s') q) = erase (lookupH (sgrid s) q)
  \/ (n = TActuateBox /\ a = ACTUATE /\ q = sfront s /\ is_ty ty_Box (lookupH (sgrid s) q) = true /\
      Some (lookupH (sgrid s') q) = ocontent (lookupH (sgrid s) q)).
Proof. exact scenery_static. Qed.

(* non-vacuity: holding a key on the top edge facing outward (the old wrap-around defect), nothing is dropped anywhere *)
Example C09_example_edge :
  let s := mkS [[Floor; Floor; Floor]; [Floor; Wall; Floor]; [Floor; Floor; Floor]] (0, 1) FORWARD (Key 4) in
  kin_ok s /\ pickndrop s PICK_N_DROP true = Ret s /\ inventory s = [Key 4; Wall].
Proof. cbv zeta. split; [split; [apply wf_gridb_spec; vm_compute; reflexivity | split; vm_compute; reflexivity] | split; vm_compute; reflexivity]. Qed.
