(* C10 -- Doors, keys and boxes respond only to a faced ACTUATE, and only as documented.
   Only statements; every proof is `exact <lemma>`. *)
From Coq Require Import ZArith List Bool.
From GV.Model Require Import Trans.
From GV.Lemmas Require Import GridL RandL TransL C08L C10L.
Import ListNotations.
Open Scope Z_scope.

(* the complete case table of actuate_door: OPEN stays, CLOSED opens, LOCKED opens iff a key of the door's colour is held *)
Theorem C10_door_table : forall s a own, wf_grid (sgrid s) ->
  let p := sfront s in let d := lookupH (sgrid s) p in
  exists s', actuate_door s a own = Ret s' /\ spos s' = spos s /\ sori s' = sori s /\ sheld s' = sheld s /\
    (forall q, q <> p -> lookupH (sgrid s') q = lookupH (sgrid s) q) /\
    ( (a = ACTUATE /\ in_grid (sgrid s) p = true /\ is_ty ty_Door d = true /\
        lookupH (sgrid s') p = Obj (oty d) (if (ost d =? st_OPEN) then ost d
                                              else if negb (ost d =? st_LOCKED) then st_OPEN
                                              else if key_opens (sheld s) d then st_OPEN else ost d) (ocol d) (ocontent d))
      \/ ((a <> ACTUATE \/ in_grid (sgrid s) p = false \/ is_ty ty_Door d = false) /\ s' = s) ).
Proof. exact door_table. Qed.
Theorem C10_status_values : st_OPEN = 0 /\ st_CLOSED = 1 /\ st_LOCKED = 2.
Proof. exact status_values. Qed.
(* no other function, action, position or held item affects a door: for every built-in function and random outcome *)
Theorem C10_door_frame : forall n s a own s' q, wf_grid (sgrid s) -> in_grid (sgrid s) (spos s) = true ->
  Leaf (tfun_of n s a own) (Ok s') -> is_door (lookupH (sgrid s) q) = true ->
  let d := lookupH (sgrid s) q in let d' := lookupH (sgrid s') q in
  d' = d \/
  (n = TActuateDoor /\ a = ACTUATE /\ q = sfront s /\ d' = open_door d /\ ost d <> st_OPEN /\
   (ost d = st_LOCKED -> key_opens (sheld s) d = true)).
Proof. exact door_frame. Qed.
Theorem C10_box_frame : forall n s a own s' q, wf_grid (sgrid s) -> in_grid (sgrid s) (spos s) = true ->
  Leaf (tfun_of n s a own) (Ok s') -> is_ty ty_Box (lookupH (sgrid s) q) = true ->
  let b := lookupH (sgrid s) q in let b' := lookupH (sgrid s') q in
  b' = b \/ (n = TActuateBox /\ a = ACTUATE /\ q = sfront s /\ ocontent b = Some b').
Proof. exact box_frame. Qed.
(* keys are not consumed; the hand changes only through pickndrop under PICK_N_DROP *)
Theorem C10_keys_kept : forall n s a own s', wf_grid (sgrid s) -> (n = TActuateDoor \/ n = TActuateBox) ->
  Leaf (tfun_of n s a own) (Ok s') -> sheld s' = sheld s.
Proof. exact keys_kept. Qed.
Theorem C10_held_frame : forall n s a own s', wf_grid (sgrid s) -> in_grid (sgrid s) (spos s) = true -> a <> PICK_N_DROP ->
  Leaf (tfun_of n s a own) (Ok s') -> sheld s' = sheld s.
Proof. exact held_frame. Qed.
(* one environment step of ANY composition: a door changes only under ACTUATE, only to OPEN, locked only with the key *)
Theorem C10_door_step : forall ns s a own s' q, kin_ok s -> Leaf (chain (map tfun_of ns) s a own) (Ok s') ->
  is_door (lookupH (sgrid s) q) = true ->
  let d := lookupH (sgrid s) q in let d' := lookupH (sgrid s') q in
  d' = d \/ (a = ACTUATE /\ d' = open_door d /\ ost d <> st_OPEN /\ (ost d = st_LOCKED -> key_opens (sheld s) d = true)).
Proof. exact door_chain. Qed.
(* all histories: a locked door is never found open unless, at some step, ACTUATE was taken holding a key of its colour *)
Theorem C10_locked_needs_key : forall ns own acts s s' q, kin_ok s -> Leaf (run_actions ns own acts s) (Ok s') ->
  is_door (lookupH (sgrid s) q) = true -> ost (lookupH (sgrid s) q) = st_LOCKED -> ost (lookupH (sgrid s') q) <> st_LOCKED ->
  exists acts1 acts2 s_i, acts = acts1 ++ ACTUATE :: acts2 /\ Leaf (run_actions ns own acts1 s) (Ok s_i) /\
     lookupH (sgrid s_i) q = lookupH (sgrid s) q /\ key_opens (sheld s_i) (lookupH (sgrid s) q) = true.
Proof. exact locked_needs_key. Qed.

(* non-vacuity: a locked yellow door faced with the yellow key opens; with the red key it does not *)
Example C10_example :
  let g := [[Floor; Door 2 4; Floor]] in
  kin_ok (mkS g (0, 0) RIGHT (Key 4))
  /\ actuate_door (mkS g (0, 0) RIGHT (Key 4)) ACTUATE true = Ret (mkS [[Floor; Door 0 4; Floor]] (0, 0) RIGHT (Key 4))
  /\ actuate_door (mkS g (0, 0) RIGHT (Key 1)) ACTUATE true = Ret (mkS g (0, 0) RIGHT (Key 1)).
Proof. cbv zeta. split; [split; [apply wf_gridb_spec; vm_compute; reflexivity | split; vm_compute; reflexivity] | split; vm_compute; reflexivity]. Qed.
