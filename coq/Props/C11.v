(* C11 -- Stochastic dynamics obey their rules for every random outcome.
   Leaf m x = "x is the result of m for some resolution of every random choice" (all values numpy can return).
   Only statements; every proof is `exact <lemma>`. *)
From Coq Require Import ZArith List Bool.
From GV.Model Require Import Trans.
From GV.Lemmas Require Import GridL RandL TransL C11L.
Import ListNotations.
Open Scope Z_scope.

(* every outcome of move_obstacles: never raises; each obstacle (row-major order) gets exactly one turn; at its turn it moves
   to a 4-neighbour inside the grid that is Floor at that moment, or stays -- only if it has none; the final obstacle positions
   are exactly the destinations, pairwise distinct (nothing lost, duplicated, stacked or moved twice); every cell that is
   neither obstacle nor floor is untouched; the agent is untouched *)
Theorem C11_obstacles_all_leaves : forall s a own x, wf_grid (sgrid s) -> Leaf (move_obstacles s a own) x ->
  exists s' ms, x = Ok s' /\ spos s' = spos s /\ sori s' = sori s /\ sheld s' = sheld s /\
    map mfrom ms = obstacle_positions (sgrid s) /\
    wf_grid (sgrid s') /\ gheight (sgrid s') = gheight (sgrid s) /\ gwidth (sgrid s') = gwidth (sgrid s) /\
    ob_positions (sgrid s') (map mto ms) /\ Forall move_legal ms /\ Turns (sgrid s) ms (sgrid s') /\
    (forall r, is_ob (lookupH (sgrid s) r) = false -> is_ty ty_Floor (lookupH (sgrid s) r) = false -> lookupH (sgrid s') r = lookupH (sgrid s) r) /\
    (forall r, is_ob (lookupH (sgrid s') r) = false -> is_ty ty_Floor (lookupH (sgrid s') r) = false -> lookupH (sgrid s') r = lookupH (sgrid s) r).
Proof. exact obstacles_all_leaves. Qed.
Theorem C11_free_neighbour_spec : forall g p q, In q (free_nbrs g p) <->
  In q (neighbours4 p) /\ in_grid g q = true /\ is_ty ty_Floor (lookupH g q) = true.
Proof. exact free_nbrs_spec. Qed.
Theorem C11_neighbours_are_adjacent : forall p q, In q (neighbours4 p) <-> manhattan q p = 1.
Proof. exact neighbours4_adjacent. Qed.
(* exact unfolding of one turn, both directions: the outcomes are EXACTLY "stay if no free neighbour" / "any free neighbour" *)
Theorem C11_turn_exact : forall g0 p t g x, wf_grid g -> in_grid g p = true ->
  Leaf (move_obstacles_loop g0 (p :: t) g) x <->
   (free_nbrs g p = [] /\ Leaf (move_obstacles_loop g0 t g) x) \/
   (exists q, In q (free_nbrs g p) /\ Leaf (move_obstacles_loop g0 t (swapped g p q)) x).
Proof. exact mo_loop_step. Qed.
(* every free neighbour is a possible destination *)
Theorem C11_obstacle_each_possible : forall g0 p t g q, wf_grid g -> (forall r, In r (p :: t) -> in_grid g r = true) ->
  In q (free_nbrs g p) ->
  exists g' ms, Leaf (move_obstacles_loop g0 (p :: t) g) (Ok g') /\ Turns g ((p, q, g) :: ms) g'.
Proof. exact obstacle_each_possible. Qed.
(* teleport: on a telepod with a same-coloured partner the agent is sent to one of the OTHER telepods of that colour;
   otherwise nothing happens (and nothing is drawn); each partner is possible *)
Theorem C11_teleport_all_leaves : forall s a own x, wf_grid (sgrid s) -> in_grid (sgrid s) (spos s) = true ->
  Leaf (teleport s a own) x ->
  (is_ty ty_Telepod (lookupH (sgrid s) (spos s)) = true /\ partners s <> [] /\
     exists q, In q (partners s) /\ x = Ok (set_pos s q))
  \/ ((is_ty ty_Telepod (lookupH (sgrid s) (spos s)) = false \/ partners s = []) /\ x = Ok s).
Proof. exact teleport_all_leaves. Qed.
Theorem C11_partners_spec : forall s q, In q (partners s) <->
  in_grid (sgrid s) q = true /\ q <> spos s /\ is_ty ty_Telepod (lookupH (sgrid s) q) = true /\
  ocol (lookupH (sgrid s) q) = ocol (lookupH (sgrid s) (spos s)).
Proof. exact partners_spec. Qed.
Theorem C11_teleport_each_possible : forall s a own q, wf_grid (sgrid s) -> in_grid (sgrid s) (spos s) = true ->
  is_ty ty_Telepod (lookupH (sgrid s) (spos s)) = true -> In q (partners s) ->
  Leaf (teleport s a own) (Ok (set_pos s q)).
Proof. exact teleport_each_possible. Qed.
Theorem C11_teleport_otherwise_inert : forall s a own, wf_grid (sgrid s) -> in_grid (sgrid s) (spos s) = true ->
  (is_ty ty_Telepod (lookupH (sgrid s) (spos s)) = false \/ partners s = []) -> teleport s a own = Ret s.
Proof. exact teleport_no_draw. Qed.

(* non-vacuity: an unpaired telepod (the old ValueError defect) and a boxed-in obstacle *)
Example C11_example :
  teleport (mkS [[Telepod 1; Floor; Telepod 2]] (0, 0) RIGHT NoneObj) MOVE_FORWARD true
    = Ret (mkS [[Telepod 1; Floor; Telepod 2]] (0, 0) RIGHT NoneObj)
  /\ leaves (move_obstacles (mkS [[Wall; MovingObstacle; Floor]] (0, 2) LEFT NoneObj) MOVE_FORWARD true)
    = Some [Ok (mkS [[Wall; Floor; MovingObstacle]] (0, 2) LEFT NoneObj)].
Proof. split; vm_compute; reflexivity. Qed.
