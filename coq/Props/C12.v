(* C12 -- Rewards and termination mean what they say, and agree with each other.
   Reward values are symbolic (RParam i = the i-th float parameter of the component, RZero = 0.0, RScaled = parameter x
   distance, RSumOf = python sum of the parts).  Components are functions (type res, no Rand): deterministic by construction.
   Only statements; every proof is `exact <lemma>`. *)
From Coq Require Import ZArith List Bool.
From GV.Model Require Import Reward.
From GV.Lemmas Require Import GridL C12L BfsL.
Import ListNotations.
Open Scope Z_scope.

(* reaching an exit terminates and pays the on-reward iff the agent's next cell is an exit *)
Theorem C12_exit_reward_iff_exit_termination : forall s a s', st_ok s' ->
  (reward RReachExit s a s' = Ok (RParam 0) <-> terminates TReachExit s a s' = Ok true) /\
  (reward RReachExit s a s' = Ok (RParam 1) <-> terminates TReachExit s a s' = Ok false) /\
  (terminates TReachExit s a s' = Ok true <-> is_ty ty_Exit (here s') = true).
Proof. exact exit_reward_iff_exit_termination. Qed.
Theorem C12_overlap : forall ty s a s', st_ok s' ->
  reward (ROverlap ty) s a s' = Ok (if is_ty ty (here s') then RParam 0 else RParam 1)
  /\ terminates (TOverlap ty) s a s' = Ok (is_ty ty (here s')).
Proof. intros ty s a s' H. exact (conj (reward_overlap_spec ty s a s' H) (term_overlap_spec ty s a s' H)). Qed.
(* bumping fires iff the attempted move targets a wall (inside the grid), or the agent ends on a moving obstacle *)
Theorem C12_bump_wall : forall s a s', wf_grid (sgrid s) ->
  reward RBumpWall s a s' = Ok (if targets_wall s a then RParam 0 else RZero)
  /\ terminates TBumpWall s a s' = Ok (targets_wall s a).
Proof. intros s a s' H. exact (conj (reward_bump_wall_spec s a s' H) (term_bump_wall_spec s a s' H)). Qed.
Theorem C12_bump_obstacle : forall s a s', st_ok s' ->
  reward RBumpObstacle s a s' = Ok (if is_ty ty_MovingObstacle (here s') then RParam 0 else RZero)
  /\ terminates TBumpObstacle s a s' = Ok (is_ty ty_MovingObstacle (here s')).
Proof. intros s a s' H. exact (conj (reward_bump_obstacle_spec s a s' H) (term_bump_obstacle_spec s a s' H)). Qed.
(* distance shaping has the sign of the change in (Manhattan | squared Euclidean | shortest-path) distance to the unique object *)
Theorem C12_getting_closer : forall d ty s a s' p p', wf_grid (sgrid s) -> wf_grid (sgrid s') ->
  unique_at (sgrid s) ty p -> unique_at (sgrid s') ty p' ->
  reward (RGettingCloser d ty) s a s' =
    Ok (if dist_of d (spos s') p' <? dist_of d (spos s) p then RParam 0
        else if dist_of d (spos s) p <? dist_of d (spos s') p' then RParam 1 else RZero).
Proof. exact reward_getting_closer_spec. Qed.
Theorem C12_getting_closer_shortest_path : forall ty s a s' p p', st_ok s -> st_ok s' ->
  unique_at (sgrid s) ty p -> unique_at (sgrid s') ty p' ->
  let d0 := shortest (sgrid s) p (spos s) in let d1 := shortest (sgrid s') p' (spos s') in
  reward (RGettingCloserSP ty) s a s' = Ok (if olt d1 d0 then RParam 0 else if olt d0 d1 then RParam 1 else RZero).
Proof. exact reward_getting_closer_sp_spec. Qed.
Theorem C12_proportional : forall d ty s a s' p', wf_grid (sgrid s') -> unique_at (sgrid s') ty p' ->
  reward (RProportional d ty) s a s' = Ok (RScaled 0 (distance d (spos s') p')).
Proof. exact reward_proportional_spec. Qed.
Theorem C12_not_unique_raises : forall g ty, wf_grid g -> (forall p, ~ unique_at g ty p) -> one_position g ty = Err ValueError.
Proof. exact one_position_not_unique. Qed.
(* pick / drop and door rewards fire exactly on the corresponding change *)
Theorem C12_pickndrop : forall ty s a s',
  reward (RPickndrop ty) s a s' =
    Ok (if negb (is_ty ty (sheld s)) && is_ty ty (sheld s') then RParam 0
        else if is_ty ty (sheld s) && negb (is_ty ty (sheld s')) then RParam 1 else RZero).
Proof. exact reward_pickndrop_spec. Qed.
Theorem C12_actuate_door : forall s a s', wf_grid (sgrid s) -> wf_grid (sgrid s') ->
  gheight (sgrid s') = gheight (sgrid s) -> gwidth (sgrid s') = gwidth (sgrid s) ->
  let p := sfront s in let d := lookupH (sgrid s) p in let d' := lookupH (sgrid s') p in
  reward RActuateDoor s a s' =
    Ok (if is_actuate a && in_grid (sgrid s) p && is_ty ty_Door d && is_ty ty_Door d' then
          (if negb (door_is_open d) && door_is_open d' then RParam 0
           else if door_is_open d && negb (door_is_open d') then RParam 1 else RZero)
        else RZero).
Proof. exact reward_actuate_door_spec. Qed.
(* the memory reward is good iff the exit's colour matches the beacon *)
Theorem C12_memory : forall s a s' bc, st_ok s' -> beacon_color (sgrid s') = Some bc ->
  reward RReachExitMemory s a s' =
    Ok (if is_ty ty_Exit (here s') then (if ocol (here s') =? bc then RParam 0 else RParam 1) else RZero).
Proof. exact reward_memory_spec. Qed.
Theorem C12_beacon_color : forall g bc, beacon_color g = Some bc -> exists o, In o (concat g) /\ is_ty ty_Beacon o = true /\ ocol o = bc.
Proof. exact beacon_color_spec. Qed.
(* composites: the sum of the parts in order; any / all of the parts *)
Theorem C12_reduce_sum : forall l s a s' vs, Forall2 (fun r v => reward r s a s' = Ok v) l vs ->
  reward (RSum l) s a s' = Ok (RSumOf vs).
Proof. exact reduce_sum_is_sum. Qed.
Theorem C12_reduce_any_all : forall l s a s' bs, Forall2 (fun t b => terminates t s a s' = Ok b) l bs ->
  terminates (TAny l) s a s' = Ok (existsb (fun b => b) bs) /\ terminates (TAll l) s a s' = Ok (forallb (fun b => b) bs).
Proof. intros l s a s' bs H. exact (conj (term_any_spec l s a s' bs H) (term_all_spec l s a s' bs H)). Qed.
(* so an environment pays its exit reward on exactly the steps on which exit-termination fires *)
Theorem C12_env_exit_agreement : forall pre post tpre tpost s a s' vs bs, st_ok s' ->
  Forall2 (fun r v => reward r s a s' = Ok v) (pre ++ RReachExit :: post) vs ->
  Forall2 (fun t b => terminates t s a s' = Ok b) (tpre ++ TReachExit :: tpost) bs ->
  nth (length pre) vs RZero = (if nth (length tpre) bs false then RParam 0 else RParam 1) /\
  (nth (length tpre) bs false = true -> terminates (TAny (tpre ++ TReachExit :: tpost)) s a s' = Ok true).
Proof. exact env_exit_agreement. Qed.
(* totality under the documented preconditions (unique object / a beacon exists): no component raises *)
Theorem C12_reward_total : forall r s a s', st_ok s -> st_ok s' ->
  gheight (sgrid s') = gheight (sgrid s) -> gwidth (sgrid s') = gwidth (sgrid s) ->
  reward_pre r s s' -> exists v, reward r s a s' = Ok v.
Proof. exact reward_total. Qed.
Theorem C12_termination_total : forall t s a s', st_ok s -> st_ok s' -> exists b, terminates t s a s' = Ok b.
Proof. exact termination_total. Qed.

Example C12_example :
  let s := mkS [[Floor; Exit 1]; [Beacon 1; Wall]] (0, 0) RIGHT NoneObj in
  let s' := mkS [[Floor; Exit 1]; [Beacon 1; Wall]] (0, 1) RIGHT NoneObj in
  st_ok s' /\ reward (RSum [RReachExit; RReachExitMemory; RGettingCloser DManhattan ty_Exit; RBumpWall]) s MOVE_FORWARD s'
              = Ok (RSumOf [RParam 0; RParam 0; RParam 0; RZero])
  /\ terminates (TAny [TBumpWall; TReachExit]) s MOVE_FORWARD s' = Ok true.
Proof. cbv zeta. split; [split; [apply wf_gridb_spec; vm_compute; reflexivity | vm_compute; reflexivity] | split; vm_compute; reflexivity]. Qed.

(* distance shaping by shortest path: the breadth-first search behind getting_closer_shortest_path (the model of `dijkstra`) returns
   exactly the minimal number of moves between 4-neighbours over cells that are inside the grid and do not block movement (the source
   cell itself excepted, as in the code), and None (infinity) exactly when the destination cannot be reached; the fuel is always enough *)
Theorem C12_shortest_path_sound : forall g src dst d, shortest g src dst = Some d -> 0 <= d /\ exactly g src (Z.to_nat d) dst.
Proof. exact shortest_sound. Qed.
Theorem C12_shortest_path_none : forall g src dst, wf_grid g -> shortest g src dst = None -> forall n, ~ walk g src dst n.
Proof. exact shortest_none. Qed.
Theorem C12_shortest_path_complete : forall g src dst n, wf_grid g -> walk g src dst n ->
  exists d, shortest g src dst = Some d /\ (Z.to_nat d <= n)%nat /\ exactly g src (Z.to_nat d) dst.
Proof. exact shortest_complete. Qed.
Example C12_example_shortest :
  let g := [[Floor; Wall; Floor]; [Floor; Wall; Floor]; [Floor; Floor; Floor]] in
  shortest g (0, 0) (0, 2) = Some 6 /\ shortest [[Floor; Wall; Floor]] (0, 0) (0, 2) = None.
Proof. vm_compute. split; reflexivity. Qed.
