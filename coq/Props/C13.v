From Coq Require Import ZArith List Bool.
From GV.Model Require Import Reset.
Theorem C13_placeholder : True.
Proof. exact I. Qed.
