(* C13 -- Reset functions always produce well-formed initial states.
   wf_check p s (Model/Check.v) is the statement of the property for an outcome s of the reset function with parameters p:
   requested shape, unbroken wall boundary, agent inside, empty-handed, on a non-blocking cell that is not an exit, moving
   obstacle or telepod, and the advertised inventory.  tree_ok p = Some true  means: EVERY leaf of the choice tree (every
   resolution of every random choice numpy can make) is such a state or ValueError.
   Shipped parameter sets come from Gen/Configs.v, regenerated from the YAML files (with numpy's linspace splits) on every run. *)
From Coq Require Import ZArith List Bool.
From GV.Gen Require Import Configs.
From GV.Model Require Import Check.
From GV.Lemmas Require Import RandL C13L C13W C13M C13X C13R.
Import ListNotations.
Open Scope Z_scope.

(* ---- parameter combinations that cannot be honoured raise ValueError, whatever the randomness (all shapes) ---- *)
Theorem C13_empty_rejects : forall h w ra re own, h < 4 \/ w < 4 -> reset_empty h w ra re own = Raise ValueError.
Proof. exact empty_rejects. Qed.
Theorem C13_keydoor_rejects : forall h w own, h < 3 \/ w < 5 \/ (h = 3 /\ w = 5) \/ h < 4 -> reset_keydoor h w own = Raise ValueError.
Proof. exact keydoor_rejects. Qed.
Theorem C13_crossing_rejects : forall h w n ty own, h < 5 \/ h mod 2 = 0 \/ w < 5 \/ w mod 2 = 0 \/ n <= 0 -> reset_crossing h w n ty own = Raise ValueError.
Proof. exact crossing_rejects. Qed.
Theorem C13_teleport_rejects : forall h w own, h < 4 \/ w < 4 -> reset_teleport h w own = Raise ValueError.
Proof. exact teleport_rejects. Qed.
Theorem C13_dynamic_obstacles_rejects : forall h w n ra own, h < 4 \/ w < 4 -> reset_dynamic_obstacles h w n ra own = Raise ValueError.
Proof. exact dynamic_obstacles_rejects. Qed.
Theorem C13_memory_rejects : forall h w cs own, h < 5 \/ w < 5 \/ w mod 2 = 0 \/ In 0 cs \/ Z.of_nat (length cs) < 2 -> reset_memory h w cs own = Raise ValueError.
Proof. exact memory_rejects. Qed.
Theorem C13_memory_rooms_rejects : forall h w ys xs cs nb ne own, In 0 cs \/ Z.of_nat (length cs) < 2 \/ nb < 1 \/ ne < 2 ->
  reset_memory_rooms h w ys xs cs nb ne own = Raise ValueError.
Proof. exact memory_rooms_rejects. Qed.
Theorem C13_rooms_rejects : forall h w ys xs own, gapsb ys = false \/ gapsb xs = false -> reset_rooms h w ys xs own = Raise ValueError.
Proof. exact rooms_rejects. Qed.
(* no reset function ever raises anything but ValueError through its random draws: a draw with an empty range is a ValueError *)
Theorem C13_draws_raise_only_ValueError : forall g n lo hi k x,
  (Leaf (rchoice g n) (Err x) -> x = ValueError) /\ (Leaf (rints g lo hi) (Err x) -> x = ValueError) /\ (Leaf (rsample g n k) (Err x) -> x = ValueError).
Proof. exact draws_only_value_error. Qed.

(* ---- `empty`, for EVERY shape of at least 4x4, every flag combination and every random outcome (no bound): the result is a state with the
        requested shape, an unbroken wall boundary, the agent inside, empty-handed, on a floor cell, and exactly one exit ---- *)
Theorem C13_empty_wf : forall h w ra re own r, 4 <= h -> 4 <= w -> Leaf (reset_empty h w ra re own) r ->
  exists s, r = Ok s /\ wf_check (PEmpty h w ra re) s = true.
Proof. exact empty_wf. Qed.
(* its exact shape: a walled room -- wall on the boundary, the exit on an inner cell, floor everywhere else -- with the agent on another inner
   cell; without random placement the agent is at (1,1) facing RIGHT and the exit at (h-2, w-2) *)
Theorem C13_empty_outcome : forall h w ra re own r, 4 <= h -> 4 <= w -> Leaf (reset_empty h w ra re own) r ->
  exists g pe pa oa, r = Ok (mkS g pa oa NoneObj) /\ room h w g pe /\ inner h w pe /\ inner h w pa /\ pa <> pe /\
                     (ra = false -> pa = (1, 1) /\ oa = RIGHT) /\ (re = false -> pe = (h - 2, w - 2)).
Proof. exact empty_outcome. Qed.
(* ---- `dynamic_obstacles`, every shape >= 4x4, ANY requested number, both flags, every outcome: ValueError (they do not fit) or a well-formed
        state with one exit and exactly the requested number of obstacles ---- *)
Theorem C13_dynamic_obstacles_wf : forall h w n ra own r, 4 <= h -> 4 <= w -> Leaf (reset_dynamic_obstacles h w n ra own) r ->
  r = Err ValueError \/ exists s, r = Ok s /\ wf_check (PDynamicObstacles h w n ra) s = true.
Proof. exact dynamic_obstacles_wf. Qed.
(* ---- `keydoor`, every shape with height >= 4 and width >= 5, every outcome: never an error; one LOCKED door in a full wall column that
        divides the room, exactly one key of the door's colour strictly left of it, the agent left of it, the exit right of it ---- *)
Theorem C13_keydoor_wf : forall h w own r, 4 <= h -> 5 <= w -> Leaf (reset_keydoor h w own) r ->
  exists s, r = Ok s /\ wf_check (PKeydoor h w) s = true.
Proof. exact keydoor_wf. Qed.
(* ---- `memory`, EVERY shape (height >= 5, odd width >= 5), every set of at least two colours (none of them NONE) and every outcome: never an
        error; the exact grid: a T-maze (rows 1 and h-2 joined by the middle column), an exit in each top corner with two different colours of
        the set, a beacon in each bottom corner carrying the colour of exactly one exit, the agent in the middle facing FORWARD ---- *)
Theorem C13_memory_outcome : forall h w cs own r, 5 <= h -> 5 <= w -> w mod 2 = 1 -> NoDup cs -> ~ In 0 cs -> (2 <= length cs)%nat ->
  Leaf (reset_memory h w cs own) r ->
  exists g cg cb xg xb, r = Ok (mkS g (h / 2, w / 2) FORWARD NoneObj) /\ wf_grid g /\ gheight g = h /\ gwidth g = w /\
    In cg cs /\ In cb cs /\ cg <> cb /\ ((xg = 1 /\ xb = w - 2) \/ (xg = w - 2 /\ xb = 1)) /\
    forall q, in_grid g q = true -> lookupH g q = mem_cell h w xg xb cg cb q.
Proof. exact memory_outcome. Qed.
Theorem C13_memory_wf : forall h w cs own r, 5 <= h -> 5 <= w -> w mod 2 = 1 -> NoDup cs -> ~ In 0 cs -> (2 <= length cs)%nat ->
  Leaf (reset_memory h w cs own) r -> exists s, r = Ok s /\ wf_check (PMemory h w cs) s = true.
Proof. exact memory_wf. Qed.
(* ---- `crossing`, EVERY odd shape >= 5x5, every number of rivers, every river object other than an exit, every outcome (which rivers, in
        which order they are crossed, where each opening lands): never an error (the limits between which an opening is drawn are always at
        least two apart), and the state is well-formed -- the wall boundary is unbroken, there is exactly one exit, the agent stands
        empty-handed on the floor cell (1,1) ---- *)
Theorem C13_crossing_wf : forall h w n ty own r, 5 <= h -> 5 <= w -> h mod 2 = 1 -> w mod 2 = 1 -> 0 < n -> ty <> ty_Exit ->
  Leaf (reset_crossing h w n ty own) r -> exists s, r = Ok s /\ wf_check (PCrossing h w n ty) s = true.
Proof. exact crossing_wf. Qed.
(* ---- `rooms`, EVERY shape and EVERY pair of split lists that start at 0 and end at the last row / column with the inner walls strictly
        inside (what the layout's linspace gives, e.g. [0; 3; 6] for the shipped 7x7 four-rooms), every outcome (where each passage is
        opened, where agent and exit land): no ill-formed state and no exception other than ValueError -- unbroken wall boundary, exactly
        one exit, the agent empty-handed on a floor cell ---- *)
Theorem C13_rooms_wf : forall h w ym xm, 2 <= h -> 2 <= w -> (forall y, In y ym -> 1 <= y <= h - 2) -> (forall x, In x xm -> 1 <= x <= w - 2) ->
  forall own r, Leaf (reset_rooms h w (0 :: ym ++ [h - 1]) (0 :: xm ++ [w - 1]) own) r ->
  r = Err ValueError \/ exists s, r = Ok s /\ wf_check (PRooms h w (0 :: ym ++ [h - 1]) (0 :: xm ++ [w - 1])) s = true.
Proof. exact rooms_wf. Qed.
(* ---- `memory_rooms`, same generality (every shape, every such pair of split lists, every duplicate-free colour set, any numbers of beacons
        and exits, every outcome): ValueError, or a well-formed state whose exits are exactly the requested number, carry pairwise
        different colours of the set, and whose beacons (exactly the requested number) all carry the colour of exactly one exit ---- *)
Theorem C13_memory_rooms_wf : forall h w ym xm, 2 <= h -> 2 <= w -> (forall y, In y ym -> 1 <= y <= h - 2) -> (forall x, In x xm -> 1 <= x <= w - 2) ->
  forall cs nb ne own r, NoDup cs -> Leaf (reset_memory_rooms h w (0 :: ym ++ [h - 1]) (0 :: xm ++ [w - 1]) cs nb ne own) r ->
  r = Err ValueError \/ exists s, r = Ok s /\ wf_check (PMemoryRooms h w (0 :: ym ++ [h - 1]) (0 :: xm ++ [w - 1]) cs nb ne) s = true.
Proof. exact memory_rooms_wf. Qed.
(* ---- `teleport`, every shape >= 4x4, every outcome: never an error; one exit, exactly two telepods of one colour, agent on floor ---- *)
Theorem C13_teleport_wf : forall h w own r, 4 <= h -> 4 <= w -> Leaf (reset_teleport h w own) r ->
  exists s, r = Ok s /\ wf_check (PTeleport h w) s = true.
Proof. exact teleport_wf. Qed.

(* ---- complete outcome trees: every shipped parameter set whose tree is small enough for the kernel, and small shapes of
        every function (bound = the listed parameter sets) ---- *)
Definition shipped_enumerable : list rparams :=
  [cfg_gv_crossing_5x5_reset; cfg_gv_crossing_7x7_reset; cfg_gv_dynamic_obstacles_5x5_reset; cfg_gv_dynamic_obstacles_7x7_reset;
   cfg_gv_empty_4x4_reset; cfg_gv_empty_8x8_reset; cfg_gv_keydoor_5x5_reset; cfg_gv_keydoor_7x7_reset;
   cfg_gv_memory_5x5_reset; cfg_gv_memory_9x9_reset; cfg_gv_teleport_5x5_reset; cfg_gv_teleport_7x7_reset; cfg_gv_four_rooms_7x7_reset].
Theorem C13_shipped_trees_wf : forallb (fun p => match tree_ok p with Some true => true | _ => false end) shipped_enumerable = true.
Proof. vm_compute. reflexivity. Qed.
Definition small_params : list rparams :=
  [PEmpty 4 4 false true; PEmpty 4 4 true true; PEmpty 4 5 true true; PEmpty 5 4 true false; PEmpty 6 6 true true; PEmpty 3 9 true true; PEmpty 1 1 false false;
   PDynamicObstacles 4 4 0 false; PDynamicObstacles 4 4 2 false; PDynamicObstacles 4 4 3 false; PDynamicObstacles 4 5 3 true; PDynamicObstacles 5 5 2 true;
   PKeydoor 3 5; PKeydoor 3 6; PKeydoor 4 5; PKeydoor 4 6; PKeydoor 5 6; PKeydoor 6 5;
   PCrossing 5 5 1 3; PCrossing 5 5 2 3; PCrossing 5 5 3 3; PCrossing 5 7 2 7; PCrossing 7 5 3 3; PCrossing 5 5 0 3; PCrossing 6 5 1 3;
   PTeleport 4 4; PTeleport 4 5; PTeleport 5 5; PTeleport 3 4;
   PMemory 5 5 [1; 2]; PMemory 5 5 [1; 2; 3; 4]; PMemory 6 7 [2; 4]; PMemory 5 5 [1]; PMemory 5 5 [0; 1; 2]; PMemory 5 6 [1; 2]; PMemory 4 5 [1; 2];
   PRooms 5 5 [0; 2; 4] [0; 2; 4]; PRooms 4 5 [0; 3] [0; 2; 4]; PRooms 5 5 [0; 4] [0; 4]; PRooms 5 5 [0; 1; 4] [0; 2; 4]; PRooms 3 3 [0; 0; 2] [0; 1; 2];
   PMemoryRooms 5 5 [0; 4] [0; 4] [1; 2] 1 2; PMemoryRooms 4 5 [0; 3] [0; 4] [1; 2; 3] 1 2; PMemoryRooms 5 5 [0; 4] [0; 4] [1; 2] 1 3;
   PMemoryRooms 5 5 [0; 4] [0; 4] [1; 2] 0 2; PMemoryRooms 4 4 [0; 3] [0; 3] [1; 2] 2 2].
Theorem C13_small_trees_wf : forallb (fun p => match tree_ok p with Some true => true | _ => false end) small_params = true.
Proof. vm_compute. reflexivity. Qed.
(* the defect repaired in 44cdde1 stays repaired: with a fixed agent the exit is never drawn on the agent's cell *)
Example C13_example_exit_not_under_agent :
  tree_ok (PEmpty 4 4 false true) = Some true /\ tree_size (PEmpty 4 4 false true) = Some 3.
Proof. split; vm_compute; reflexivity. Qed.
