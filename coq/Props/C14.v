(* C14 -- Every initial state is winnable.
   Proved here: (1) the general plan lemma -- a walk over enterable, non-terminating cells IS an action sequence of the real
   move/turn dynamics visiting exactly those cells; (2) soundness of the breadth-first check; (3) by kernel evaluation of the
   complete outcome tree: for the listed walk-only parameter sets (shipped sets from Gen/Configs.v and small ones) EVERY
   initial state has such a plan to the goal exit (for the memory tasks: the exit matching the beacon, never stepping on the
   other exit).  Key-door, teleport, obstacle and room-memory dynamics are decided by the search over the real step function
   (vt/suites/C14.py).  (4) The two known findings have kernel-checked witnesses. *)
From Coq Require Import ZArith List Bool.
From GV.Gen Require Import Configs.
From GV.Model Require Import Check.
From GV.Lemmas Require Import GridL RandL TransL C08L C14L C13W C14W C13M C14M C13X C14X C13K C14K C13R C14R C13T C14T.
Import ListNotations.
Open Scope Z_scope.

Theorem C14_move_to_neighbour : forall s q own, wf_grid (sgrid s) -> In q (neighbours4 (spos s)) -> can_enter (sgrid s) q = true ->
  exists a, is_move a = true /\ chain (map tfun_of [TMoveAgent; TTurnAgent]) s a own = Ret (set_pos s q).
Proof. exact move_to_neighbour. Qed.
Theorem C14_walk_plan : forall ok own path s, wf_grid (sgrid s) -> (forall q, ok q = true -> can_enter (sgrid s) q = true) ->
  walk ok (spos s) path ->
  exists acts, length acts = length path /\ Forall (fun a => is_move a = true) acts /\
    trace [TMoveAgent; TTurnAgent] own s acts = Ret (map (set_pos s) path).
Proof. exact walk_plan. Qed.
Theorem C14_check_sound : forall s terminal goal own, wf_grid (sgrid s) -> can_walk_to s terminal goal = true ->
  exists acts path, walk (walkable (sgrid s) terminal goal) (spos s) path /\ last path (spos s) = goal /\
    length acts = length path /\ Forall (fun a => is_move a = true) acts /\
    trace [TMoveAgent; TTurnAgent] own s acts = Ret (map (set_pos s) path).
Proof. exact can_walk_sound. Qed.
Theorem C14_walkable_meaning : forall g terminal goal q, walkable g terminal goal q = true ->
  in_grid g q = true /\ o_blocks_movement (lookupH g q) = false /\ (terminal (lookupH g q) = false \/ q = goal).
Proof. exact walkable_spec. Qed.

(* GENERAL (no bound): every initial state of `empty` -- every shape >= 4x4, every flag combination, every random outcome -- is winnable:
   some sequence of move actions of the real move/turn dynamics walks the agent to THE exit, visiting floor cells only on the way *)
Theorem C14_empty_winnable : forall h w ra re own own' r, 4 <= h -> 4 <= w -> Leaf (reset_empty h w ra re own) r ->
  exists s pe acts path, r = Ok s /\ (forall q, In q (cells_at (sgrid s) (is_ty ty_Exit)) <-> q = pe) /\
    walk (walkable (sgrid s) (is_ty ty_Exit) pe) (spos s) path /\ last path (spos s) = pe /\
    length acts = length path /\ Forall (fun a => is_move a = true) acts /\
    trace [TMoveAgent; TTurnAgent] own' s acts = Ret (map (set_pos s) path).
Proof. exact empty_winnable. Qed.

(* GENERAL (no bound): every initial state of `memory` -- every shape (height >= 5, odd width >= 5), every colour set, every random outcome --
   is winnable: move actions of the real dynamics walk the agent, over floor cells only and never through the other exit, to the exit that
   carries the colour of the two beacons *)
Theorem C14_memory_winnable : forall h w cs own own' r, 5 <= h -> 5 <= w -> w mod 2 = 1 -> NoDup cs -> ~ In 0 cs -> (2 <= length cs)%nat ->
  Leaf (reset_memory h w cs own) r ->
  exists s pe cg cb pw acts path, r = Ok s /\
    lookupH (sgrid s) pe = Exit cg /\ lookupH (sgrid s) pw = Exit cb /\ cg <> cb /\
    lookupH (sgrid s) (h - 2, 1) = Beacon cg /\ lookupH (sgrid s) (h - 2, w - 2) = Beacon cg /\
    walk (walkable (sgrid s) (is_ty ty_Exit) pe) (spos s) path /\ last path (spos s) = pe /\
    length acts = length path /\ Forall (fun a => is_move a = true) acts /\
    trace [TMoveAgent; TTurnAgent] own' s acts = Ret (map (set_pos s) path).
Proof. exact memory_winnable. Qed.

(* GENERAL (no bound): every initial state of `crossing` -- every odd shape >= 5x5, every number of rivers, every river object other than an
   exit, every random outcome (which rivers, the order of the crossings, where each opening lands) -- is winnable by walking: the staircase of
   openings links the agent's room to the exit's room, rooms are floor, later openings only add floor *)
Theorem C14_crossing_winnable : forall h w n ty own own' r, 5 <= h -> 5 <= w -> h mod 2 = 1 -> w mod 2 = 1 -> 0 < n -> ty <> ty_Exit ->
  Leaf (reset_crossing h w n ty own) r ->
  exists s acts path, r = Ok s /\ spos s = (1, 1) /\ is_ty ty_Exit (lookupH (sgrid s) (h - 2, w - 2)) = true /\
    walk (walkable (sgrid s) (is_ty ty_Exit) (h - 2, w - 2)) (spos s) path /\ last path (spos s) = (h - 2, w - 2) /\
    length acts = length path /\ Forall (fun a => is_move a = true) acts /\
    trace [TMoveAgent; TTurnAgent] own' s acts = Ret (map (set_pos s) path).
Proof. exact crossing_winnable. Qed.

(* GENERAL (no bound): every initial state of `rooms` -- every shape, EVERY pair of split lists 0 :: inner ++ [last] with the inner walls strictly
   inside, every random outcome -- is winnable by walking, or the reset raised ValueError (rooms without cells, which the fixed code rejects:
   finding D8; or fewer than two floor cells): every pair of neighbouring rooms shares exactly one passage, the rooms form a connected grid,
   agent and exit stand on floor cells; the walk reaches the exit for the first time at its end *)
Theorem C14_rooms_winnable : forall h w ym xm own own' r, 2 <= h -> 2 <= w -> (forall y, In y ym -> 1 <= y <= h - 2) -> (forall x, In x xm -> 1 <= x <= w - 2) ->
  Leaf (reset_rooms h w (0 :: ym ++ [h - 1]) (0 :: xm ++ [w - 1]) own) r ->
  r = Err ValueError \/
  exists s pe acts path, r = Ok s /\ (forall q, In q (cells_at (sgrid s) (is_ty ty_Exit)) <-> q = pe) /\
    walk (walkable (sgrid s) (is_ty ty_Exit) pe) (spos s) path /\ last path (spos s) = pe /\ ~ In pe (removelast path) /\
    length acts = length path /\ Forall (fun a => is_move a = true) acts /\
    trace [TMoveAgent; TTurnAgent] own' s acts = Ret (map (set_pos s) path).
Proof. exact rooms_winnable_all. Qed.

(* GENERAL (no bound): every initial state of `keydoor` -- every shape with height >= 4 and width >= 5, every random outcome (wall column, door,
   key, agent pose) -- is winnable under the shipped dynamics [move_agent; turn_agent; actuate_door; pickndrop]: an explicit action sequence
   (walk next to the key, turn, pick it up, walk to the door, turn, unlock, walk through) ends with the agent on the exit, key in hand *)
Theorem C14_keydoor_winnable : forall h w own own' r, 4 <= h -> 5 <= w -> Leaf (reset_keydoor h w own) r ->
  exists s acts s', r = Ok s /\ run_actions chainK own' acts s = Ret s' /\
    spos s' = (h - 2, w - 2) /\ is_ty ty_Exit (lookupH (sgrid s') (h - 2, w - 2)) = true /\ sheld s' = Key COL_YELLOW.
Proof. exact keydoor_winnable. Qed.

(* GENERAL (no bound): every initial state of `teleport` -- every shape >= 4x4, every random outcome (where the two telepods land, the heading)
   -- is winnable under the shipped dynamics [move_agent; turn_agent; teleport]: two L-shaped routes lead from the agent's corner to the exit's
   corner and share only the exit; either one of them is free of telepods and is walked, or each carries exactly one telepod: the agent walks
   the first route up to its telepod, steps on it, arrives on the other telepod -- which lies on the second route -- and walks the rest of it.
   Every resolution of the (single-option) partner choice ends on the exit. *)
Theorem C14_teleport_winnable : forall h w own own' r, 4 <= h -> 4 <= w -> Leaf (reset_teleport h w own) r ->
  exists s acts, r = Ok s /\ Forall (fun a => is_move a = true) acts /\
    forall x, Leaf (run_actions chainT own' acts s) x -> exists s', x = Ok s' /\ spos s' = (h - 2, w - 2) /\ sgrid s' = sgrid s /\
                                                              is_ty ty_Exit (lookupH (sgrid s') (h - 2, w - 2)) = true.
Proof. exact teleport_winnable. Qed.

(* complete outcome trees: every initial state of these parameter sets is winnable by walking *)
Definition walk_only_enumerable : list rparams :=
  [cfg_gv_crossing_5x5_reset; cfg_gv_crossing_7x7_reset; cfg_gv_empty_4x4_reset; cfg_gv_empty_8x8_reset;
   cfg_gv_memory_5x5_reset; cfg_gv_memory_9x9_reset; cfg_gv_four_rooms_7x7_reset;
   PEmpty 4 4 true true; PEmpty 5 6 true true; PEmpty 6 6 true true;
   PCrossing 5 5 2 3; PCrossing 7 5 3 3; PCrossing 5 7 2 3; PCrossing 7 7 1 3;
   PMemory 5 5 [1; 2]; PMemory 7 7 [1; 2; 3]; PMemory 6 9 [2; 4];
   PRooms 5 5 [0; 2; 4] [0; 2; 4]; PRooms 5 7 [0; 4] [0; 3; 6]; PRooms 4 5 [0; 3] [0; 2; 4]].
Theorem C14_walk_only_trees_winnable :
  forallb (fun p => match tree_winnable p with Some true => true | _ => false end) walk_only_enumerable = true.
Proof. vm_compute. reflexivity. Qed.

(* known finding K1 (memory_rooms): an initial state of the shipped 7x7 layout in which the matching exit is walled in behind the
   wrong-colour exit -- the verified check fails, while the state is a legitimate outcome (well-formed by C13's statement) *)
Example C14_K1_refuted :
  let ys := [0; 3; 6] in
  let s := mkS [[Wall; Wall; Wall; Wall; Wall; Wall; Wall];
                [Wall; Beacon 3; Exit 3; Wall; Floor; Floor; Wall];
                [Wall; Floor; Exit 2; Floor; Floor; Floor; Wall];
                [Wall; Wall; Floor; Wall; Wall; Floor; Wall];
                [Wall; Floor; Floor; Floor; Floor; Floor; Wall];
                [Wall; Floor; Floor; Wall; Floor; Floor; Wall];
                [Wall; Wall; Wall; Wall; Wall; Wall; Wall]] (5, 5) FORWARD NoneObj in
  wf_check (PMemoryRooms 7 7 ys ys [1; 2; 3; 4] 1 2) s = true /\ winnable_walk (PMemoryRooms 7 7 ys ys [1; 2; 3; 4] 1 2) s = false.
Proof. cbv zeta. split; vm_compute; reflexivity. Qed.
