From Coq Require Import ZArith List Bool.
From GV.Model Require Import Repr.
Theorem C15_placeholder : True.
Proof. exact I. Qed.
