(* C15 -- Numeric representations always lie inside their declared spaces.
   Only statements; every proof is `exact <lemma>`.
   A space is (ts, cs): the sorted type indices / colour values the representation is built from
   (declared types plus NoneGridObject [and Hidden for observations]; declared colours plus NONE).
   `obj_upper k ts cs` is the upper-bound vector of the per-object categorical space (lower bounds 0),
   `enc_obj k ts cs` the per-object conversion, for k = default | no-overlap | compact. *)
From Coq Require Import ZArith List Bool.
From GV.Model Require Import Repr.
From GV.Lemmas Require Import GridL C15L.
Import ListNotations.
Open Scope Z_scope.

(* every member object is encoded inside the per-object space, for each of the three representations *)
Theorem C15_object_in_space : forall k ts cs o, space_ok ts cs -> member ts cs o ->
  within (enc_obj k ts cs o) (obj_upper k ts cs).
Proof. exact enc_obj_in_space. Qed.
Theorem C15_object_shape : forall k ts cs, length (obj_upper k ts cs) = 3%nat /\ forall o, length (enc_obj k ts cs o) = 3%nat.
Proof. exact obj_upper_shape. Qed.
(* the grid array: same height and row lengths as the grid, every entry within bounds *)
Theorem C15_grid_in_space : forall k ts cs g, space_ok ts cs -> Forall (member ts cs) (concat g) ->
  Forall (Forall (fun v => within v (obj_upper k ts cs))) (grid_repr k ts cs g) /\
  length (grid_repr k ts cs g) = length g /\ Forall2 (fun r r' => length r' = length r) g (grid_repr k ts cs g).
Proof. exact grid_repr_in_space. Qed.
(* the agent marker array: the grid's shape, entries in {0, 1} *)
Theorem C15_agent_id_in_space : forall g p,
  Forall (Forall (fun v => 0 <= v <= 1)) (agent_id_grid g p) /\
  length (agent_id_grid g p) = hN g /\ Forall (fun r => length r = wN g) (agent_id_grid g p).
Proof. exact agent_id_in_space. Qed.
(* the agent array of a state: for shapes of at least 2x2 never raises; normalised coordinates in [-1, 1] (exact fractions,
   positive denominators); one-hot heading *)
Theorem C15_agent_in_space : forall g p o, wf_grid g -> in_grid g p = true -> 2 <= gheight g -> 2 <= gwidth g ->
  exists yn yd xn xd oh, agent_repr g p o = Ok ((yn, yd), (xn, xd), oh) /\ 0 < yd /\ 0 < xd /\
    - yd <= yn <= yd /\ - xd <= xn <= xd /\ length oh = 4%nat /\ Forall (fun v => 0 <= v <= 1) oh /\
    nth (Z.to_nat (Orientation_value o)) oh 0 = 1.
Proof. exact agent_repr_in_space. Qed.
(* ... and a degenerate (one row or one column) state shape has no agent representation: ZeroDivisionError *)
Theorem C15_degenerate_shape_raises : forall g p o, gheight g = 1 \/ gwidth g = 1 -> agent_repr g p o = Err ZeroDivisionError.
Proof. exact agent_repr_raises. Qed.
(* whole states and observations, key by key *)
Theorem C15_state_in_space : forall k ts cs s, space_ok ts cs -> member_state ts cs s -> 2 <= gheight (sgrid s) -> 2 <= gwidth (sgrid s) ->
  exists r, convert_state k ts cs s = Ok r /\
    Forall (Forall (fun v => within v (obj_upper k ts cs))) (sr_grid r) /\
    Forall (Forall (fun v => 0 <= v <= 1)) (sr_agent_id r) /\
    within (sr_item r) (obj_upper k ts cs) /\
    (let '(yy, xx, oh) := sr_agent r in 0 < snd yy /\ 0 < snd xx /\ - snd yy <= fst yy <= snd yy /\ - snd xx <= fst xx <= snd xx /\
                                         Forall (fun v => 0 <= v <= 1) oh).
Proof. exact convert_state_in_space. Qed.
Theorem C15_observation_in_space : forall k ts cs o, space_ok ts cs -> member_state ts cs o ->
  let r := convert_obs k ts cs o in
  Forall (Forall (fun v => within v (obj_upper k ts cs))) (or_grid r) /\
  Forall (Forall (fun v => 0 <= v <= 1)) (or_agent_id r) /\ within (or_item r) (obj_upper k ts cs).
Proof. exact convert_obs_in_space. Qed.
(* state spaces declaring a type that cannot be represented in state are refused *)
Theorem C15_requires_representable : forall declared,
  state_repr_allowed declared = true <-> forall t, In t declared -> representable t = true.
Proof. exact repr_requires_representable. Qed.

(* non-vacuity: a key-door space and one of its members *)
Example C15_example :
  let ts := [ty_NoneGridObject; ty_Floor; ty_Wall; ty_Door; ty_Key] in let cs := [0; 1; 3] in
  space_ok ts cs /\ member ts cs (Door 2 3) /\ member ts cs (Key 1) /\
  enc_obj RNoOverlap ts cs (Door 2 3) = [ty_Door; max_type ts + 3; max_type ts + max_state ts + 5].
Proof. exact C15_example_holds. Qed.
