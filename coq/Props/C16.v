(* C16 -- Numeric representations are faithful: lossless, positional and well-separated.
   Only statements; every proof is `exact <lemma>`.  (ts, cs), enc_obj, member, space_ok as in C15. *)
From Coq Require Import ZArith List Bool.
From GV.Model Require Import Repr.
From GV.Lemmas Require Import GridL C15L C16L.
Import ListNotations.
Open Scope Z_scope.

(* two states of a space have equal representations iff they are equal (python ==), for each of the three representations *)
Theorem C16_state_repr_faithful : forall k ts cs s1 s2 r1 r2, space_ok ts cs -> member_state ts cs s1 -> member_state ts cs s2 ->
  convert_state k ts cs s1 = Ok r1 -> convert_state k ts cs s2 = Ok r2 ->
  (r1 = r2 <-> state_eqb s1 s2 = true).
Proof. exact state_repr_faithful. Qed.
(* observations: the encodings carry grid, agent cell and held item (no heading channel) ... *)
Theorem C16_observation_repr_faithful : forall k ts cs o1 o2, space_ok ts cs -> member_state ts cs o1 -> member_state ts cs o2 ->
  (convert_obs k ts cs o1 = convert_obs k ts cs o2 <->
   grid_eqb (sgrid o1) (sgrid o2) = true /\ spos o1 = spos o2 /\ obj_eqb (sheld o1) (sheld o2) = true).
Proof. exact obs_repr_faithful. Qed.
(* ... hence faithful on observations as the observation functions produce them (facing FORWARD, C05) *)
Theorem C16_observation_repr_faithful_forward : forall k ts cs o1 o2, space_ok ts cs -> member_state ts cs o1 -> member_state ts cs o2 ->
  sori o1 = FORWARD -> sori o2 = FORWARD ->
  (convert_obs k ts cs o1 = convert_obs k ts cs o2 <-> state_eqb o1 o2 = true).
Proof. exact obs_repr_faithful_forward. Qed.
(* equal ones hash alike: == iff equal hash keys (the tuples python hashes) *)
Theorem C16_hash_consistent : forall s1 s2, wf_grid (sgrid s1) -> wf_grid (sgrid s2) ->
  (state_eqb s1 s2 = true <-> state_hashkey s1 = state_hashkey s2).
Proof. exact hash_consistent. Qed.
(* per object: injective up to ==, and == objects are encoded alike *)
Theorem C16_object_injective : forall k ts cs o1 o2, space_ok ts cs -> member ts cs o1 -> member ts cs o2 ->
  enc_obj k ts cs o1 = enc_obj k ts cs o2 -> obj_eqb o1 o2 = true.
Proof. exact enc_obj_injective. Qed.
Theorem C16_object_respects_eq : forall k ts cs o1 o2, obj_eqb o1 o2 = true -> enc_obj k ts cs o1 = enc_obj k ts cs o2.
Proof. exact enc_obj_respects_eq. Qed.
(* positional: the entry for cell (i, j) is enc_obj of the object in that cell -- one function of the object alone, the same at every cell *)
Theorem C16_cellwise : forall k ts cs g i j,
  match nth_error (grid_repr k ts cs g) i with Some r => nth_error r j | None => None end = option_map (enc_obj k ts cs) (getn g i j).
Proof. exact grid_repr_cellwise. Qed.
(* the agent marker is set exactly at the agent's cell *)
Theorem C16_agent_marker : forall g p i j, (i < hN g)%nat -> (j < wN g)%nat ->
  match nth_error (agent_id_grid g p) i with Some r => nth_error r j | None => None end
  = Some (if pos_eqb (Z.of_nat i, Z.of_nat j) p then 1 else 0).
Proof. exact agent_marker. Qed.
(* default = the (type, status, colour) index triple *)
Theorem C16_default_is_triple : forall ts cs o, enc_obj RDefault ts cs o = [oty o; ost o; ocol o].
Proof. exact default_is_triple. Qed.
(* no-overlap: three pairwise disjoint index ranges *)
Theorem C16_no_overlap_disjoint : forall ts cs o, space_ok ts cs -> member ts cs o ->
  let T := max_type ts in let S := max_state ts in
  match enc_obj RNoOverlap ts cs o with
  | [a; b; c] => 0 <= a <= T /\ T + 1 <= b <= T + S + 1 /\ T + S + 2 <= c <= T + S + max_color cs + 2
  | _ => False end.
Proof. exact no_overlap_disjoint. Qed.
(* compact: three disjoint blocks ... *)
Theorem C16_compact_blocks : forall ts cs o, space_ok ts cs -> member ts cs o ->
  match enc_obj RCompact ts cs o with
  | [a; b; c] => 0 <= a < n_types ts /\ n_types ts <= b < n_types ts + n_states ts /\ n_types ts + n_states ts <= c < N_compact ts cs
  | _ => False end.
Proof. exact compact_blocks. Qed.
(* ... with no gaps: every index below N is the code of some type, (type, status) or colour of the space *)
Theorem C16_compact_dense : forall ts cs v, space_ok ts cs -> 0 <= v < N_compact ts cs ->
  (exists t, In t ts /\ type_map ts t = v) \/
  (exists t j, In (t, j) (state_keys ts) /\ status_map ts t j = v) \/
  (exists c, In c cs /\ color_map ts cs c = v).
Proof. exact compact_dense. Qed.

(* non-vacuity: two members of a key-door space differing only in one door's status are != and have different representations *)
Example C16_example :
  let ts := [ty_NoneGridObject; ty_Floor; ty_Wall; ty_Door; ty_Key] in let cs := [0; 1; 3] in
  let s1 := mkS [[Wall; Door 2 3]; [Floor; Key 3]] (1, 0) RIGHT NoneObj in
  let s2 := mkS [[Wall; Door 0 3]; [Floor; Key 3]] (1, 0) RIGHT NoneObj in
  member_state ts cs s1 /\ member_state ts cs s2 /\ state_eqb s1 s2 = false /\
  forall k, convert_state k ts cs s1 <> convert_state k ts cs s2.
Proof. exact C16_example_holds. Qed.
