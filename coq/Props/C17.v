(* C17 -- Configurations build exactly the environment they describe, or are rejected.
   What is a theorem here: the component-factory layer (name lookup, required / accepted parameters, selection, rejection class) for
   arbitrary registries, names and keyword sets; the composition laws of the assembled environment are C12 (reduce_sum = the listed
   rewards in order) and the definition of `chain` (C01/C09); by kernel evaluation on the regenerated tables: every component entry
   of every shipped configuration passes its factory, packaged copies are identical, every gym id points to a packaged file.
   The configuration layer (second half of the file): validation of arbitrary configuration trees by the schemas of envs/yaml/schemas.py
   and the construction order of envs/yaml/factory.py are modelled in Model/Schema.v over tables regenerated from the LIVE schema objects
   (Gen/Schema.v); proved for arbitrary tables: what is accepted, what is rejected with a schema error at every depth, what a built
   environment consists of, that an unregistered name or a missing parameter never yields a component, that unaccepted parameters are
   ignored; by kernel evaluation: every shipped configuration tree validates and constructs.  Only statements. *)
From Coq Require Import ZArith List Bool Permutation.
From GV.Gen Require Import Signatures Configs Schema.
From GV.Model Require Import Factory Schema.
From GV.Lemmas Require Import C17L C17G C17S C17T.
Import ListNotations.
Open Scope Z_scope.

(* factory(name, **kw) returns the i-th registered function with exactly the accepted entries of kw bound (order and values kept)
   iff i is the first row named `name` and every required key is given *)
Theorem C17_factory_spec : forall (V : Type) reg name (kw : @kwargs V) i sel, factory reg name kw = Ok (i, sel) <->
  exists r, nth_error reg i = Some r /\ row_name r = name /\ (forall j r', (j < i)%nat -> nth_error reg j = Some r' -> row_name r' <> name) /\
            (forall k, In k (row_req r) -> In k (keys kw)) /\
            sel = filter (fun e => memz (fst e) (row_req r ++ row_opt r)) kw.
Proof. exact (@factory_spec). Qed.
(* rejected exactly for an unknown name or a missing required parameter, always with ValueError, never a component *)
Theorem C17_factory_rejects : forall (V : Type) reg name (kw : @kwargs V), (exists x, factory reg name kw = Err x) <->
  ~ In name (map row_name reg) \/ exists i r k, lookup_row reg name 0 = Some (i, r) /\ In k (row_req r) /\ ~ In k (keys kw).
Proof. exact (@factory_rejects). Qed.
Theorem C17_rejection_is_ValueError : forall (V : Type) reg name (kw : @kwargs V) x, factory reg name kw = Err x -> x = ValueError.
Proof. exact (@factory_error_is_ValueError). Qed.
(* parameters a component does not accept are ignored, wherever they stand *)
Theorem C17_ignored_parameters_irrelevant : forall (V : Type) reg name (kw1 extra kw2 : @kwargs V) r i, lookup_row reg name 0 = Some (i, r) ->
  (forall e, In e extra -> ~ In (fst e) (row_req r ++ row_opt r)) ->
  factory reg name (kw1 ++ extra ++ kw2) = factory reg name (kw1 ++ kw2).
Proof. exact (@ignored_irrelevant). Qed.
(* what is bound: only accepted keys, with the values given, including every required one *)
Theorem C17_selected_sound : forall (V : Type) reg name (kw : @kwargs V) i sel, factory reg name kw = Ok (i, sel) ->
  exists r, nth_error reg i = Some r /\ (forall e, In e sel <-> In e kw /\ In (fst e) (row_req r ++ row_opt r)) /\
            (forall k, In k (row_req r) -> In k (keys sel)).
Proof. exact (@selected_sound). Qed.
(* the shipped configurations (regenerated from /repo): every component entry builds; packaged copies identical; gym ids resolve *)
Theorem C17_shipped_components_build : (100 <= length shipped_components)%nat /\ forallb entry_builds shipped_components = true.
Proof. exact shipped_components_build. Qed.
Theorem C17_shipped_copies_identical : forallb (fun b : bool => b) shipped_packaged_identical = true /\ gym_ids_point_to_packaged_files = true
  /\ length shipped_packaged_identical = Z.to_nat number_of_gym_ids.
Proof. exact shipped_copies_identical. Qed.
Theorem C17_registry_names_unique : forallb (fun reg => nodupz (map row_name reg)) all_registries = true.
Proof. exact registry_names_unique. Qed.

(* ======== the configuration layer: schema validation and construction order (Model/Schema.v), for arbitrary tables [T] ======== *)
(* a dictionary is accepted iff every required key is there and every entry fits the schema its key selects (required literal keys first,
   then optional literal keys, then -- where the schema allows other keys -- anything) *)
Theorem C17_schema_dict_spec : forall T k req opt wild kv, t_dict T k = Some (req, opt, wild) ->
  (valid T k (CDict kv) = true <->
   (forall s k', In (s, k') req -> has_key s kv = true) /\
   (forall key v, In (key, v) kv -> match key_kind req opt key with Some k' => valid T k' v = true | None => wild = true end)).
Proof. exact valid_dict_spec. Qed.
(* rejected with a schema error, never built: an unknown top-level key, a missing required key, a value that does not fit, not a dictionary *)
Theorem C17_unknown_key_rejected : forall T kv s v req opt, t_dict T (k_env T) = Some (req, opt, false) -> In (CStr s, v) kv ->
  zassoc s req = None -> zassoc s opt = None -> build T (CDict kv) = Err SchemaError.
Proof. exact build_unknown_key. Qed.
Theorem C17_missing_key_rejected : forall T kv s k' req opt wild, t_dict T (k_env T) = Some (req, opt, wild) -> In (s, k') req -> has_key s kv = false ->
  build T (CDict kv) = Err SchemaError.
Proof. exact build_missing_key. Qed.
Theorem C17_bad_value_rejected : forall T kv s v k' req opt wild, t_dict T (k_env T) = Some (req, opt, wild) -> In (CStr s, v) kv ->
  key_kind req opt (CStr s) = Some k' -> valid T k' v = false -> build T (CDict kv) = Err SchemaError.
Proof. exact build_bad_value. Qed.
Theorem C17_not_a_dict_rejected : forall T c req opt wild, t_dict T (k_env T) = Some (req, opt, wild) -> (forall kv, c <> CDict kv) -> build T c = Err SchemaError.
Proof. exact build_not_a_dict. Qed.
(* ... at any depth: a component entry with a malformed reserved parameter or without a name, a list with a bad element, a shape / layout that
   is not a pair of positive integers, colour / action / object lists that are empty, repeat an element or name something that does not exist *)
Theorem C17_entry_bad_value : forall T kv s v k' req opt wild, t_dict T (k_fn T) = Some (req, opt, wild) -> In (CStr s, v) kv ->
  key_kind req opt (CStr s) = Some k' -> valid T k' v = false -> valid T (k_fn T) (CDict kv) = false.
Proof. exact entry_bad_value. Qed.
Theorem C17_entry_without_name : forall T kv req opt wild k', t_dict T (k_fn T) = Some (req, opt, wild) -> In (s_name T, k') req ->
  has_key (s_name T) kv = false -> valid T (k_fn T) (CDict kv) = false.
Proof. exact entry_without_name. Qed.
Theorem C17_list_bad_element : forall T k ke l x, t_dict T k = None -> t_list T k = Some ke -> In x l -> valid T ke x = false -> valid T k (CList l) = false.
Proof. exact list_bad_element. Qed.
Theorem C17_malformed_pair_rejected : forall T c, t_dict T KPair = None -> t_list T KPair = None ->
  (forall a b, c = CList [CInt a; CInt b] -> ~ (0 < a /\ 0 < b)) -> valid T KPair c = false.
Proof. exact malformed_pair_rejected. Qed.
Theorem C17_malformed_names_rejected : forall T k allowed c, t_dict T k = None -> t_list T k = None ->
  (k = KColors /\ allowed = Some (t_colors T) \/ k = KActions /\ allowed = Some (t_actions T) \/ k = KObjects /\ allowed = None) ->
  (forall ss, c = CList (map CStr ss) -> ss = [] \/ ~ NoDup ss \/ match allowed with Some a => exists s, In s ss /\ ~ In s a | None => False end) ->
  valid T k c = false.
Proof. exact malformed_names_rejected. Qed.
(* what gets built is what is described: an inversion of the construction, clause by clause (spaces from their own sections, the listed actions
   in the listed order or all of them, each component from its own entry, the transition / reward lists under `chain` / `reduce_sum`) *)
Theorem C17_build_describes : forall T c d, build T c = Ok d ->
  exists kv ss os rf tfs rfs obf tf,
    c = CDict kv /\
    assoc (s_state_space T) kv = Some ss /\ assoc (s_observation_space T) kv = Some os /\ assoc (s_reset_function T) kv = Some rf /\
    assoc (s_transition_functions T) kv = Some tfs /\ assoc (s_reward_functions T) kv = Some rfs /\
    assoc (s_observation_function T) kv = Some obf /\ assoc (s_terminating_function T) kv = Some tf /\
    space_of T ss = Ok (d_state_types d, d_state_colors d) /\ space_of T os = Ok (d_obs_types d, d_obs_colors d) /\
    d_actions d = match assoc (s_action_space T) kv with
                  | Some (CList l) => match strs l with Some names => indices names (t_actions T) | None => [] end
                  | _ => all_actions T end /\
    fn T FReset rf = Ok (d_reset d) /\
    fn T FTransition (CDict [(CStr (s_name T), CStr (s_chain T)); (CStr (s_transition_functions T), tfs)]) = Ok (d_transition d) /\
    fn T FReward (CDict [(CStr (s_name T), CStr (s_reduce_sum T)); (CStr (s_reward_functions T), rfs)]) = Ok (d_reward d) /\
    fn T FObservation obf = Ok (d_observation d) /\ fn T FTerminating tf = Ok (d_terminating d).
Proof. exact build_ok_spec. Qed.
Theorem C17_built_only_if_valid : forall T c d, build T c = Ok d -> valid T (k_env T) c = true.
Proof. exact build_ok_valid. Qed.
(* a built component IS the registered function of that name, bound to accepted keys only, all required ones among them *)
Theorem C17_component_is_the_named_one : forall T fk c i bound ch, fn T fk c = Ok (Comp fk i bound ch) ->
  exists r name, nth_error (t_registry T fk) i = Some r /\ row_name r = name /\
                 (forall k, In k (row_req r) -> In k bound) /\ (forall k, In k bound -> In k (row_req r ++ row_opt r)).
Proof. exact fn_ok_registered. Qed.
Theorem C17_unknown_component_never_built : forall T fk kv name, assoc (s_name T) kv = Some (CStr name) -> ~ In name (map row_name (t_registry T fk)) ->
  forall x, fn T fk (CDict kv) <> Ok x.
Proof. exact fn_unknown_name. Qed.
Theorem C17_missing_parameter_never_built : forall T fk kv name i r k, assoc (s_name T) kv = Some (CStr name) ->
  lookup_row (t_registry T fk) name 0 = Some (i, r) -> In k (row_req r) -> has_key k kv = false -> forall x, fn T fk (CDict kv) <> Ok x.
Proof. exact fn_missing_required. Qed.
Theorem C17_listed_object_types : forall T names ts, object_types T names = Ok ts ->
  length ts = length names /\ forall n s, nth_error names n = Some s -> exists i, nth_error ts n = Some i /\ nth_error (t_objects T) (Z.to_nat i) = Some s.
Proof. exact object_types_spec. Qed.
(* a parameter nobody accepts -- not the schema, not the construction code, not the component -- changes nothing, wherever the entry stands in
   the configuration *)
Theorem C17_unaccepted_parameter_ignored : forall T fk kv s v req opt,
  t_dict T (k_fn T) = Some (req, opt, true) -> zassoc s req = None -> zassoc s opt = None -> ~ In s (process_order T) -> s <> s_name T ->
  (forall name i r, assoc (s_name T) kv = Some (CStr name) -> lookup_row (t_registry T fk) name 0 = Some (i, r) -> ~ In s (row_req r ++ row_opt r)) ->
  fn T fk (CDict (kv ++ [(CStr s, v)])) = fn T fk (CDict kv).
Proof. exact fn_ignored_parameter. Qed.
(* the tables regenerated from the live schema objects have the assumed shape; every shipped configuration TREE validates and constructs *)
Theorem C17_shipped_trees_build : (20 <= length shipped_cfgs)%nat /\ forallb builds shipped_cfgs = true.
Proof. exact shipped_trees_build. Qed.
Example C17_ignored_parameter_nonvacuous :
  first_reset <> [] /\
  fn gen_tabs FReset (CDict (first_reset ++ [(CStr 12345, CInt 3)])) = fn gen_tabs FReset (CDict first_reset) /\
  exists x, fn gen_tabs FReset (CDict first_reset) = Ok x.
Proof. exact ignored_parameter_example. Qed.
Example C17_rejections_nonvacuous :
  build gen_tabs (CDict (first_tree ++ [(CStr 12345, CInt 1)])) = Err SchemaError /\
  build gen_tabs (CDict (tl first_tree)) = Err SchemaError /\
  build gen_tabs (CList []) = Err SchemaError /\
  valid gen_tabs KPair (CList [CInt 3; CInt 0]) = false /\ valid gen_tabs KPair (CList [CInt 3]) = false /\ valid gen_tabs KPair (CList [CBool true; CInt 2]) = false.
Proof. exact rejection_examples. Qed.
(* what the harness reads out of the shipped files when it assembles the environments by hand is what the model's construction yields *)
Theorem C17_shipped_descriptors_agree : (20 <= length shipped_described)%nat /\ forallb described_ok shipped_described = true.
Proof. exact shipped_described_ok. Qed.
(* the order in which a dictionary lists its entries is irrelevant to validation *)
Theorem C17_entry_order_irrelevant : forall T k req opt wild kv kv', t_dict T k = Some (req, opt, wild) -> Permutation kv kv' ->
  valid T k (CDict kv) = valid T k (CDict kv').
Proof. exact valid_dict_perm. Qed.
(* whatever is wrong with a configuration, construction fails with a schema error or a value error; TypeError is the class by which the model
   marks the inputs outside its domain (custom `module:name` strings, keys that are not strings, `area` values that are not pairs of integer
   pairs) -- on those the check does not compare *)
Theorem C17_rejection_classes : forall T c e, build T c = Err e -> e = SchemaError \/ e = ValueError \/ e = TypeError.
Proof. exact build_errors. Qed.
Theorem C17_entry_rejection_classes : forall T c fk e, fn T fk c = Err e -> e = SchemaError \/ e = ValueError \/ e = TypeError.
Proof. intros T c. exact (proj1 (fn_errors T c)). Qed.
(* an object type the registry does not know never yields a space *)
Theorem C17_unknown_object_type_never_built : forall T names ts, object_types T names = Ok ts -> forall s, In s names -> In s (t_objects T) /\ is_custom s = false.
Proof. exact object_types_known. Qed.
(* the order in which a configuration lists its sections is irrelevant (python dictionaries have one entry per key) *)
Theorem C17_section_order_irrelevant : forall T kv kv' req opt wild, t_dict T (k_env T) = Some (req, opt, wild) -> unique_keys kv -> Permutation kv kv' ->
  build T (CDict kv) = build T (CDict kv').
Proof. exact build_section_order. Qed.
Example C17_section_order_nonvacuous : build gen_tabs (CDict (rev first_tree)) = build gen_tabs (CDict first_tree) /\ builds (CDict first_tree) = true /\ (2 <= length first_tree)%nat.
Proof. exact section_order_example. Qed.
