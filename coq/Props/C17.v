(* C17 -- Configurations build exactly the environment they describe, or are rejected.
   What is a theorem here: the component-factory layer (name lookup, required / accepted parameters, selection, rejection class) for
   arbitrary registries, names and keyword sets; the composition laws of the assembled environment are C12 (reduce_sum = the listed
   rewards in order) and the definition of `chain` (C01/C09); by kernel evaluation on the regenerated tables: every component entry
   of every shipped configuration passes its factory, packaged copies are identical, every gym id points to a packaged file.
   Validation of malformed trees by the `schema` library is NOT modelled (oracle-only, see the suite).  Only statements. *)
From Coq Require Import ZArith List Bool.
From GV.Gen Require Import Signatures Configs.
From GV.Model Require Import Factory.
From GV.Lemmas Require Import C17L C17G.
Import ListNotations.
Open Scope Z_scope.

(* factory(name, **kw) returns the i-th registered function with exactly the accepted entries of kw bound (order and values kept)
   iff i is the first row named `name` and every required key is given *)
Theorem C17_factory_spec : forall (V : Type) reg name (kw : @kwargs V) i sel, factory reg name kw = Ok (i, sel) <->
  exists r, nth_error reg i = Some r /\ row_name r = name /\ (forall j r', (j < i)%nat -> nth_error reg j = Some r' -> row_name r' <> name) /\
            (forall k, In k (row_req r) -> In k (keys kw)) /\
            sel = filter (fun e => memz (fst e) (row_req r ++ row_opt r)) kw.
Proof. exact (@factory_spec). Qed.
(* rejected exactly for an unknown name or a missing required parameter, always with ValueError, never a component *)
Theorem C17_factory_rejects : forall (V : Type) reg name (kw : @kwargs V), (exists x, factory reg name kw = Err x) <->
  ~ In name (map row_name reg) \/ exists i r k, lookup_row reg name 0 = Some (i, r) /\ In k (row_req r) /\ ~ In k (keys kw).
Proof. exact (@factory_rejects). Qed.
Theorem C17_rejection_is_ValueError : forall (V : Type) reg name (kw : @kwargs V) x, factory reg name kw = Err x -> x = ValueError.
Proof. exact (@factory_error_is_ValueError). Qed.
(* parameters a component does not accept are ignored, wherever they stand *)
Theorem C17_ignored_parameters_irrelevant : forall (V : Type) reg name (kw1 extra kw2 : @kwargs V) r i, lookup_row reg name 0 = Some (i, r) ->
  (forall e, In e extra -> ~ In (fst e) (row_req r ++ row_opt r)) ->
  factory reg name (kw1 ++ extra ++ kw2) = factory reg name (kw1 ++ kw2).
Proof. exact (@ignored_irrelevant). Qed.
(* what is bound: only accepted keys, with the values given, including every required one *)
Theorem C17_selected_sound : forall (V : Type) reg name (kw : @kwargs V) i sel, factory reg name kw = Ok (i, sel) ->
  exists r, nth_error reg i = Some r /\ (forall e, In e sel <-> In e kw /\ In (fst e) (row_req r ++ row_opt r)) /\
            (forall k, In k (row_req r) -> In k (keys sel)).
Proof. exact (@selected_sound). Qed.
(* the shipped configurations (regenerated from /repo): every component entry builds; packaged copies identical; gym ids resolve *)
Theorem C17_shipped_components_build : (100 <= length shipped_components)%nat /\ forallb entry_builds shipped_components = true.
Proof. exact shipped_components_build. Qed.
Theorem C17_shipped_copies_identical : forallb (fun b : bool => b) shipped_packaged_identical = true /\ gym_ids_point_to_packaged_files = true
  /\ length shipped_packaged_identical = Z.to_nat number_of_gym_ids.
Proof. exact shipped_copies_identical. Qed.
Theorem C17_registry_names_unique : forallb (fun reg => nodupz (map row_name reg)) all_registries = true.
Proof. exact registry_names_unique. Qed.
