(* C18 -- Geometry is a consistent algebra of quarter turns and rigid motions.
   Only statements; every proof is `exact <lemma>`.  All coordinates are unbounded integers (Z). *)
From Coq Require Import ZArith List Bool.
From GV.Model Require Import Grid.
From GV.Lemmas Require Import GeomL RotL.
Import ListNotations.
Open Scope Z_scope.

(* orientations: the cyclic group of quarter turns, FORWARD neutral *)
Theorem C18_orientation_group : forall a b c : ori,
  omul a (omul b c) = omul (omul a b) c /\ omul FORWARD a = a /\ omul a FORWARD = a /\
  omul a (oneg a) = FORWARD /\ omul (oneg a) a = FORWARD /\ omul a b = omul b a.
Proof. intros a b c. exact (conj (omul_assoc a b c) (conj (omul_F_l a) (conj (omul_F_r a) (conj (omul_oneg_r a) (conj (omul_oneg_l a) (omul_comm a b)))))). Qed.
Theorem C18_orientation_cyclic : forall a : ori,
  (exists n, (n < 4)%nat /\ a = opow RIGHT n) /\ opow a 4 = FORWARD /\
  opow RIGHT 1 <> FORWARD /\ opow RIGHT 2 <> FORWARD /\ opow RIGHT 3 <> FORWARD.
Proof. intros a. exact (conj (generated_by_R a) (conj (order_four a) R_has_order_4)). Qed.
(* linear, isometric group action on positions *)
Theorem C18_action_linear : forall (o : ori) (p q : pos) (k : Z),
  orot o (padd p q) = padd (orot o p) (orot o q) /\ orot o (pneg p) = pneg (orot o p) /\
  orot o (k * fst p, k * snd p) = (k * fst (orot o p), k * snd (orot o p)).
Proof. intros o p q k. exact (conj (orot_add o p q) (conj (orot_neg o p) (orot_scale o k p))). Qed.
Theorem C18_action_isometric : forall (o : ori) (p q : pos),
  manhattan (orot o p) (orot o q) = manhattan p q /\ sqdist (orot o p) (orot o q) = sqdist p q.
Proof. intros o p q. exact (conj (orot_manhattan o p q) (orot_sqdist o p q)). Qed.
Theorem C18_action_group : forall (a b : ori) (p : pos),
  orot FORWARD p = p /\ orot (omul a b) p = orot a (orot b p) /\ orot (oneg a) (orot a p) = p.
Proof. intros a b p. exact (conj (orot_F p) (conj (orot_mul a b p) (orot_inv a p))). Qed.
(* transforms: associativity, identity, inverses, action of a product *)
Theorem C18_transform_group : forall r s t : transform,
  tmul r (tmul s t) = tmul (tmul r s) t /\ tmul tid t = t /\ tmul t tid = t /\
  tmul t (tneg t) = tid /\ tmul (tneg t) t = tid.
Proof. intros r s t. exact (conj (tmul_assoc r s t) (conj (tmul_id_l t) (conj (tmul_id_r t) (conj (tmul_tneg_r t) (tmul_tneg_l t))))). Qed.
Theorem C18_transform_action : forall (s t : transform) (p q : pos) (o : ori),
  tact (tmul s t) p = tact s (tact t p) /\ tact tid p = p /\ tact (tneg t) (tact t p) = p /\
  tact_ori (tmul s t) o = tact_ori s (tact_ori t o) /\
  manhattan (tact t p) (tact t q) = manhattan p q /\ sqdist (tact t p) (tact t q) = sqdist p q.
Proof. intros s t p q o. exact (conj (tact_mul s t p) (conj (tact_id p) (conj (tact_inv t p) (conj (tact_ori_mul s t o) (tact_isometry t p q))))). Qed.
(* transforming an area transforms exactly its set of positions; never raises on a well-formed area *)
Theorem C18_area_image : forall (t : transform) (a : area), area_ok a = true ->
  exists a', tact_area t a = Ok a' /\ area_ok a' = true /\
    (forall p, acontains a' (tact t p) = acontains a p) /\
    (forall q, acontains a' q = true -> exists p, acontains a p = true /\ tact t p = q).
Proof.
  intros t a H. destruct (tact_area_total t a H) as (a' & E & H').
  exists a'. exact (conj E (conj H' (conj (fun p => tact_area_contains t a a' p H E) (fun q => tact_area_onto t a a' q H E)))).
Qed.
Theorem C18_area_rotation_shape : forall (o : ori) (a a' : area), area_ok a = true -> orot_area o a = Ok a' ->
  match o with FORWARD | BACKWARD => aheight a' = aheight a /\ awidth a' = awidth a
             | LEFT | RIGHT => aheight a' = awidth a /\ awidth a' = aheight a end.
Proof. exact orot_area_shape. Qed.
(* grid rotation: well-formed result, swapped shape for LEFT/RIGHT, every cell comes from exactly one source
   cell (index bijection src), undone by the inverse orientation *)
Theorem C18_grid_rotation_shape : forall (o : ori) (g : grid), wf_grid g ->
  let g' := grid_rot_by o g in
  wf_grid g' /\ match o with FORWARD | BACKWARD => gheight g' = gheight g /\ gwidth g' = gwidth g
                           | LEFT | RIGHT => gheight g' = gwidth g /\ gwidth g' = gheight g end.
Proof. exact grid_rot_by_shape. Qed.
Theorem C18_grid_rotation_cells : forall (k : rotkind) (g : grid) (i j : nat), wf_grid g ->
  (i < hN (rot_kind k g))%nat -> (j < wN (rot_kind k g))%nat ->
  get0 (rot_kind k g) i j = get0 g (fst (src k (hN g) (wN g) i j)) (snd (src k (hN g) (wN g) i j)).
Proof. intros k g i j Hw Hi Hj. exact (rot_kind_get k g i j Hw Hi Hj). Qed.
Theorem C18_grid_rotation_inverse : forall (o : ori) (g : grid), wf_grid g -> grid_rot_by (oneg o) (grid_rot_by o g) = g.
Proof. exact grid_rot_by_inv. Qed.
(* the tentative-next-position helper agrees with the pose algebra *)
Theorem C18_next_position : forall (p : pos) (o : ori) (a : Action),
  next_position p o a = match move_dir a with Some d => tact (mkT p o) (ovec d) | None => p end.
Proof. exact next_position_spec. Qed.

(* non-vacuity: a concrete non-square grid and a concrete transform *)
Example C18_example_grid : wf_grid [[Floor; Wall; Key 1]; [Exit 2; Floor; Floor]]
  /\ grid_rot_by RIGHT [[Floor; Wall; Key 1]; [Exit 2; Floor; Floor]] = [[Key 1; Floor]; [Wall; Floor]; [Floor; Exit 2]].
Proof. split; [apply GridL.wf_gridb_spec|]; vm_compute; reflexivity. Qed.
Example C18_example_area : area_ok (mkA (-6) 0 (-3) 3) = true /\ tact_area (mkT (2, 5) RIGHT) (mkA (-6) 0 (-3) 3) = Ok (mkA (-1) 5 5 11).
Proof. split; vm_compute; reflexivity. Qed.
