(* C19 -- Rays are connected paths that sweep the whole area.
   compute_ray is float trigonometry: no theorem over ALL areas is possible in Coq (no model of libm sin/cos).  What is proved:
   (1) the MEANING of the checkers ray_ok / fan_ok (iff the contract the property states);
   (2) by kernel evaluation, that the fans THE RUNNING CODE computes satisfy the contract, for every view used by a shipped
       configuration and for every origin of every area up to 7x7 (Gen/Rays.v, regenerated from /repo on every run);
   (3) the consequence for ray-traced views.  Larger areas are swept with the extracted checker (translation validation).
   Only statements; every proof is `exact <lemma>`. *)
From Coq Require Import ZArith List Bool.
From GV.Gen Require Import Rays.
From GV.Model Require Import Rays.
From GV.Lemmas Require Import C06L C19L C19G.
Import ListNotations.
Open Scope Z_scope.

(* a ray passes the checker iff it starts at its origin cell, stays inside the area, visits each cell at most once, advances between
   adjacent (edge- or corner-sharing) cells and ends on the area's border *)
Theorem C19_ray_checker_meaning : forall a o r, ray_ok a o r = true <-> ray_good a o r.
Proof. exact ray_ok_spec. Qed.
(* a fan passes iff it is non-empty, every ray is such a path, and the rays together reach every cell of the area *)
Theorem C19_fan_checker_meaning : forall a o rays, fan_ok a o rays = true <->
  rays <> [] /\ (forall r, In r rays -> ray_good a o r) /\ (forall p, acontains a p = true -> exists r, In r rays /\ In p r).
Proof. exact fan_ok_spec. Qed.
(* the fans computed by the code for the views in use, and for all origins of all areas up to 7x7, satisfy the contract *)
Theorem C19_rays_in_use_ok : fans_in_use <> [] /\ forallb fan_entry_ok fans_in_use = true.
Proof. exact rays_in_use_ok. Qed.
Theorem C19_rays_small_areas_ok : (100 <= length fans_small)%nat /\ forallb fan_entry_ok fans_small = true.
Proof. exact rays_small_ok. Qed.
Theorem C19_listed_fans_good : forall l, forallb fan_entry_ok l = true -> forall a o rs, In (a, o, rs) l ->
  acontains a o = true /\ (forall r, In r rs -> ray_good a o r) /\ (forall p, acontains a p = true -> exists r, In r rs /\ In p r).
Proof. exact fans_good. Qed.
(* so an unobstructed ray-traced view shows everything, the agent's own cell is always shown, and the rays stay in the view
   (the contract C06 assumes of rays) *)
Theorem C19_unobstructed_view_shows_everything : forall g rays o, fan_ok (garea g) o rays = true ->
  (forall c, in_grid g c = true -> o_blocks_vision (lookupH g c) = false) ->
  forall p, in_grid g p = true -> visible (raytracing g rays) p = true.
Proof. exact unobstructed_shows_everything. Qed.
Theorem C19_agent_cell_always_lit : forall g o rays, fan_ok (garea g) o rays = true -> in_grid g o = true -> visible (raytracing g rays) o = true.
Proof. exact fan_ok_agent_visible. Qed.
Theorem C19_rays_stay_in_view : forall g o rays, fan_ok (garea g) o rays = true -> rays_inside g rays.
Proof. exact fan_ok_rays_inside. Qed.

(* non-vacuity of the checkers: they accept a correct fan and reject an uncovering fan, a repeated cell and a jump *)
Example C19_example :
  let a := mkA 0 1 0 1 in
  fan_ok a (1, 0) [[(1, 0); (1, 1)]; [(1, 0); (0, 1)]; [(1, 0); (0, 0)]] = true /\
  fan_ok a (1, 0) [[(1, 0); (1, 1)]; [(1, 0); (0, 0)]] = false /\
  ray_ok a (1, 0) [(1, 0)] = true /\ ray_ok a (1, 0) [(1, 0); (1, 0)] = false /\ ray_ok (mkA 0 2 0 2) (0, 0) [(0, 0); (0, 2)] = false.
Proof. exact C19_example_holds. Qed.
