(* C20 -- The gym adapter is a faithful view of the wrapped environment.
   genv = (InnerEnv machine, state representation, observation representation); gstep = one operation at any layer (inner, outer,
   gym, state wrapper) returning the new machine and `res output`.  Only statements; every proof is `exact <lemma>`. *)
From Coq Require Import ZArith List Bool.
From GV.Model Require Import Gym.
From GV.Lemmas Require Import RandL C04L C15L C20L NonVac.
Import ListNotations.
Open Scope Z_scope.

(* action index i executes the i-th action of the action space (python list indexing; outside [-n, n) -> IndexError, nothing changes) *)
Theorem C20_index_is_ith_action : forall (acts : list Action) i a, 0 <= i < Z.of_nat (length acts) ->
  (py_nth acts i = Ok a <-> nth_error acts (Z.to_nat i) = Some a).
Proof. exact (@py_nth_valid Action). Qed.
Theorem C20_bad_index_rejected : forall e debug g i x,
  i < - Z.of_nat (length (gw_actions e)) \/ Z.of_nat (length (gw_actions e)) <= i ->
  Leaf (gym_step e debug g i) x <-> x = Ok (g, Err IndexError).
Proof. exact gym_step_bad_index. Qed.
(* step returns the representation of the observation of the POST-step state together with the inner reward and termination flag:
   every successful gym step is exactly a functional step on the current state followed by a functional observation of the new one *)
Theorem C20_gym_step_spec : forall e debug g i g' orp rw t,
  Leaf (gym_step e debug g i) (Ok (g', Ok (orp, rw, t))) <->
  exists a s s' o k ts cs, py_nth (gw_actions e) i = Ok a /\ ie_state (ge_inner g) = Some s /\
    Leaf (functional_step e debug s a) (Ok (s', rw, t)) /\ Leaf (functional_observation e debug s') (Ok o) /\
    ge_orep g = Some (k, ts, cs) /\ orp = convert_obs k ts cs o /\ g' = set_inner g (mkIE (Some s') (Some o)).
Proof. exact gym_step_spec. Qed.
(* reset returns the representation of the observation of the fresh state *)
Theorem C20_gym_reset_spec : forall e debug g g' orp,
  Leaf (gym_reset e debug g) (Ok (g', Ok orp)) <->
  exists s o k ts cs, Leaf (functional_reset e debug) (Ok s) /\ Leaf (functional_observation e debug s) (Ok o) /\
    ge_orep g = Some (k, ts, cs) /\ orp = convert_obs k ts cs o /\ g' = set_inner g (mkIE (Some s) (Some o)).
Proof. exact gym_reset_spec. Qed.
(* the state wrapper returns the state representation instead and passes the observation through info *)
Theorem C20_wrapper_step_spec : forall e debug g i g' srp rw t orp,
  Leaf (gstep e debug g (WStep i)) (Ok (g', Ok (WOStep srp rw t orp))) <->
  Leaf (gym_step e debug g i) (Ok (g', Ok (orp, rw, t))) /\ outer_state g' = Ok srp.
Proof. exact wrapper_step_spec. Qed.
Theorem C20_wrapper_reset_spec : forall e debug g g' srp,
  Leaf (gstep e debug g WReset) (Ok (g', Ok (GOState srp))) <->
  (exists orp, Leaf (gym_reset e debug g) (Ok (g', Ok orp))) /\ outer_state g' = Ok srp.
Proof. exact wrapper_reset_spec. Qed.
Theorem C20_wrapper_observation_is_state : forall e debug g, gstep e debug g WObs = gstep e debug g GState.
Proof. exact wrapper_obs_is_state. Qed.
(* the outer environment exposes exactly the representations of the inner state and observation (C04, last clause) *)
Theorem C20_outer_state_spec : forall g r, outer_state g = Ok r <->
  exists k ts cs s, ge_srep g = Some (k, ts, cs) /\ ie_state (ge_inner g) = Some s /\ convert_state k ts cs s = Ok r.
Proof. exact outer_state_spec. Qed.
Theorem C20_outer_observation_spec : forall e debug g g' r, Leaf (outer_obs e debug g) (Ok (g', Ok r)) <->
  exists k ts cs m' o, ge_orep g = Some (k, ts, cs) /\ Leaf (istep e debug (ge_inner g) OpReadObs) (Ok (m', OutObs o)) /\
    g' = set_inner g m' /\ r = convert_obs k ts cs o.
Proof. exact outer_obs_spec. Qed.
(* whatever the history -- any mix of inner, outer, gym and wrapper operations, any random outcome -- an observation representation
   handed out represents an observation of the CURRENT inner state *)
Theorem C20_outer_observation_never_stale : forall e debug g g' r, greachable e debug g -> Leaf (outer_obs e debug g) (Ok (g', Ok r)) ->
  exists k ts cs s o, ge_orep g = Some (k, ts, cs) /\ ie_state (ge_inner g) = Some s /\ ie_state (ge_inner g') = Some s /\
    Leaf (functional_observation e debug s) (Ok o) /\ r = convert_obs k ts cs o.
Proof. exact outer_obs_never_stale. Qed.
Theorem C20_layers_share_one_inner_machine : forall e debug g, greachable e debug g -> reachable e debug (ge_inner g).
Proof. exact greachable_inner. Qed.
(* switching representation changes the conversion and the advertised space consistently *)
Theorem C20_set_observation_representation : forall e debug g name g',
  Leaf (gstep e debug g (GSetORep name)) (Ok (g', Ok GOUnit)) <->
  exists sp, orep_of name (gw_ospace e) = Ok sp /\ g' = mkGE (ge_inner g) (ge_srep g) (Some sp).
Proof. exact set_orep_spec. Qed.
Theorem C20_set_state_representation : forall e debug g name g',
  Leaf (gstep e debug g (GSetSRep name)) (Ok (g', Ok GOUnit)) <->
  exists sp, srep_of name (gw_sspace e) = Ok sp /\ g' = mkGE (ge_inner g) (Some sp) (ge_orep g).
Proof. exact set_srep_spec. Qed.
(* ... and what is returned lies inside the advertised space (C15 at the gym layer) *)
Theorem C20_representation_space_valid : forall name sp k ts cs, orep_of name sp = Ok (k, ts, cs) ->
  Forall (fun t => 0 <= t) (os_types sp) -> Forall (fun c => 0 <= c) (os_colors sp) -> space_ok ts cs.
Proof. exact orep_space_ok. Qed.
Theorem C20_state_representation_space_valid : forall name sp k ts cs, srep_of name sp = Ok (k, ts, cs) ->
  Forall (fun t => 0 <= t) (ss_types sp) -> Forall (fun c => 0 <= c) (ss_colors sp) -> space_ok ts cs.
Proof. exact srep_space_ok. Qed.
Theorem C20_observation_in_advertised_space : forall k ts cs o, space_ok ts cs -> member_state ts cs o ->
  let r := convert_obs k ts cs o in
  Forall (Forall (fun v => within v (advertised (k, ts, cs)))) (or_grid r) /\
  Forall (Forall (fun v => 0 <= v <= 1)) (or_agent_id r) /\ within (or_item r) (advertised (k, ts, cs)).
Proof. exact gym_obs_in_advertised. Qed.

(* non-vacuity: on the same concrete environment, with a compact state representation and a no-overlap observation representation, the
   gym machine reaches a state from which a gym step succeeds (the hypotheses of the step / reset specifications are met) *)
Example C20_nonvacuous : exists g g' out, greachable e0 true g /\ ge_srep g <> None /\ ge_orep g <> None /\
  Leaf (gstep e0 true g (GStep 0)) (Ok (g', out)) /\ greachable e0 true g' /\ ie_state (ge_inner g') <> None.
Proof. exact nonvac_C20. Qed.
