#!/bin/sh
# Runs the repository's pinned test suite (guard OFF) and compares with BASELINE.json's stable_pass.
# exit 0 iff every stable_pass test passes.
out=$(mktemp -d /var/tmp/gvbase.XXXXXX)
unset GYM_GRIDVERSE_VERIF
cd /repo && /venv/bin/python -m pytest -ra -q -p no:cacheprovider --timeout=900 \
   --continue-on-collection-errors --junitxml="$out/junit.xml" >"$out/log.txt" 2>&1
/venv/bin/python - "$out/junit.xml" <<'PY'
import json, sys, xml.etree.ElementTree as ET
base = json.load(open('/root/.vp/BASELINE.json'))
want = set(base['stable_pass'])
root = ET.parse(sys.argv[1]).getroot()
passed = set()
for tc in root.iter('testcase'):
    bad = any(ch.tag in ('failure', 'error', 'skipped') for ch in tc)
    name = f"{tc.get('classname')}::{tc.get('name')}"
    if not bad:
        passed.add(name)
missing = sorted(want - passed)
print(f"baseline: {len(want & passed)}/{len(want)} stable tests pass; {len(passed)} passed in total")
for m in missing[:20]:
    print("  MISSING", m)
sys.exit(1 if missing else 0)
PY
rc=$?
rm -rf "$out"
exit $rc
