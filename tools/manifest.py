#!/venv/bin/python
"""Writes /verif/MANIFEST.json from the table below (run after changing what is claimed)."""
import json
import os

VERIF = os.path.dirname(os.path.dirname(os.path.abspath(__file__)))
ALL = [f'C{i:02d}' for i in range(1, 21)]

TB = ('Trusted base: Coq 8.16.1 kernel + vm_compute (no native_compute, no axioms: every theorem is "Closed under the global '
      'context", Print Assumptions recorded in the evidence on every run); the translator vt/tabulate.py (finite tables of the '
      'running code -> coq/Gen); extraction (ExtrOcamlBasic only) + ocaml/driver.ml; the Python harness vt/ (wire encoding, rng '
      'proxies, generators, miniyaml shim); the hand-written model coq/Model is tied to /repo by the differential run recorded '
      'in the evidence, not by a proof about the Python source.')

CLAIMS = {
    'C08': dict(
        level='proof',
        technique='Coq proof (closed form of move/turn + kinematic invariant by induction over histories) + extracted-model differential check',
        text='Coq theorems over the executable model (Props/C08.v): move_spec (iff, all grids/poses/actions, Z coordinates), turn laws, '
             'pose frame for every other built-in function and every random outcome, kinematic invariant lifted by induction to every '
             'history of every composition.  The model is tied to the code on every run: move/turn tables are regenerated from the code '
             '(T1) and the extracted model is run against the real registry functions on exhaustive-small and random edge-biased states, '
             'results and draw logs compared (T2); the property statement itself is evaluated on the code\'s outputs (oracle).',
        design='8/C08',
        note=TB),
    'C18': dict(
        level='proof',
        technique='Coq proof over unbounded Z (group laws, linear isometric action, transform group, area image, grid rotation) + regenerated tables + differential check',
        text='Coq theorems over Z (Props/C18.v): C4 group with FORWARD neutral, linear isometric action, transform group and action, '
             'area image = image of the positions (both inclusions), grid rotation shape / cell bijection / inverse, next-position helper. '
             'Orientation tables, matrices and the rotation used per orientation are regenerated from the running code on every run (T1), '
             'the arithmetic is compared with the code on random and extreme integers and all grid shapes up to the tier bound (T2).',
        design='8/C18',
        note=TB),
}


def main():
    checks = []
    for pid in ALL:
        c = CLAIMS.get(pid)
        if not c:
            continue
        checks.append({
            'property_id': pid,
            'quick_cmd': f'./check {pid} --tier quick',
            'thorough_cmd': f'./check {pid} --tier thorough',
            'evidence_file': f'/verif/evidence/{pid}.json',
            'replay_cmd_template': f'./check {pid} --replay {{path}}',
            'engine': 'coq+extracted-model',
            'level_claimed': {'category': c['level'], 'text': c['text'], 'design_ref': f"DESIGN.md section {c['design']}"},
            'level_note': c['note'],
            'technique': c['technique'],
        })
    na = [{'property_id': pid, 'reason': 'check under construction in this session (theorems and suite not yet registered); not claimed yet'}
          for pid in ALL if pid not in CLAIMS]
    man = {
        'version': 1,
        'setup_cmd': './check --setup',
        'hooks': {
            'guard': 'GYM_GRIDVERSE_VERIF',
            'enable': 'no source hooks are needed: the harness injects recording generators through the public rng= parameters and module attributes',
            'baseline_off_cmd': '/verif/tools/baseline.sh',
            'source_commits': [],
            'add_only': True,
        },
        'engines': [
            {'name': 'coq+extracted-model', 'path': '/verif/check', 'serves_properties': sorted(CLAIMS),
             'kind_free_text': 'Coq 8.16 theorems over an executable Gallina model; Gen tables regenerated from /repo on every run; '
                               'model extracted to OCaml and run against the implementation (differential correspondence) with oracles'}
        ],
        'checks': checks,
        'not_applicable': na,
        'notes': 'See DESIGN.md.  ./check <id> regenerates coq/Gen from /repo, rebuilds the obligations (make), re-extracts the model, runs '
                 'corpus + exhaustive-small + random correspondence and the oracles, and writes evidence/<id>.json.',
    }
    with open(os.path.join(VERIF, 'MANIFEST.json'), 'w') as f:
        json.dump(man, f, indent=1)
    print(f'{len(checks)} checks, {len(na)} not claimed')


if __name__ == '__main__':
    main()
