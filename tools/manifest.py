#!/venv/bin/python
"""Writes /verif/MANIFEST.json from the table below (run after changing what is claimed)."""
import json
import os

VERIF = os.path.dirname(os.path.dirname(os.path.abspath(__file__)))
ALL = [f'C{i:02d}' for i in range(1, 21)]

TB = ('Trusted base: Coq 8.16.1 kernel + vm_compute (no native_compute, no axioms: every theorem is "Closed under the global '
      'context", Print Assumptions recorded in the evidence on every run); the translator vt/tabulate.py (finite tables of the '
      'running code -> coq/Gen); extraction (ExtrOcamlBasic only) + ocaml/driver.ml; the Python harness vt/ (wire encoding, rng '
      'proxies, generators, miniyaml shim); the hand-written model coq/Model is tied to /repo by the differential run recorded '
      'in the evidence, not by a proof about the Python source.')

CLAIMS = {
    'C01': dict(
        level='proof',
        technique='Coq proof (closure of validity under every transition function for all random outcomes, lifted by induction to compositions, histories and the environment step; membership predicates iff conformity) + extracted-model differential check',
        text='Coq theorems (Props/C01.v): ss_contains / os_contains / as_contains accept exactly the conforming inputs; transition_closed: for every '
             'built-in transition function, action and random outcome a valid state (conforming + well-formed + box contents declared, Floor declared) '
             'gives Ok of a valid state -- no exception; chain_closed / history_closed by induction (all compositions, lengths, orders); reward_total, '
             'termination_total under the documented preconditions; step_closed for functional_step with the debug flag on or off; step_rejects '
             '(ValueError for every action outside the space); observation_in_space.  Reachability from the shipped resets is covered by C13 + this. '
             'Tie: T2 on transitions (corpus, random spaces, exhaustive small grids), trajectories of all 21 shipped configurations and random '
             'compositions, functional_step from arbitrary states of the space with every reward component, membership predicates on near misses.',
        design='8/C01', note=TB + ' Rewards are generated as floats (the documented type); reward finiteness assumes |parameter| x (height+width) does not overflow.'),
    'C02': dict(
        level='proof',
        technique='Coq proof of RNG routing (no draw on the library-level generator for any built-in component, composition, operation sequence or layer, by structural induction), interleaving independence over a two-stream interpreter, set-order independence, debug irrelevance + runtime monitors (global generator states, recording proxies, processes under several PYTHONHASHSEED)',
        text='In a functional model reproducibility is immediate; the content of C02 is ROUTING and HIDDEN INPUTS, and that is what is proved (Props/C02.v): every draw '
             'of the model names the generator it consumes; given the environment\'s generator no built-in transition / reset / observation function, no chain, no '
             'environment assembled from built-in parts, through any operation sequence at the inner, outer, gym or wrapper layer, ever draws from the library-level '
             'generator (NoGlobal, by structural induction over all components and compositions); hence (two-stream interpreter run2) the library stream is untouched '
             'and outputs do not depend on it; INTERLEAVING: for any schedule of operations over any number of environments, each environment ends exactly where it '
             'would have ended alone on its own operations and stream; the reset functions taking a SET of colours are invariant under permuting it (what hash '
             'randomisation changes); any operation that succeeds with the debug flag on gives the same result and consumes the same randomness with it off.  '
             'What a Gallina model cannot carry -- other interpreter processes, python\'s `random` / numpy\'s legacy global generator -- is observed: (a) every registered '
             'function called with a generator on inputs that make it draw: nothing on the library-level proxy, global states unchanged, draw log (incl. WHICH generator) '
             'vs the model; (b) equally seeded GridWorld pairs, one interleaved with a third environment and disturbed global generators, opposite debug flags; '
             '(c) scripted episodes in worker processes under several PYTHONHASHSEED x debug on/off: byte-identical transcripts.',
        design='8/C02', note=TB + ' Construction (factory_env_from_data samples one state and observation with the library generator to size the spaces) precedes seeding and is outside the claim. The cross-process clause is runtime correspondence, partial by nature (sampled hash seeds).'),
    'C03': dict(
        level='other',
        technique='Coq frame theorem for copy-then-mutate over an abstract heap (+ == iff equal hash keys) ; runtime object-graph monitors on the real code (structural snapshots, id-graph disjointness, after-the-fact mutation, fresh-equal-state and stateless-model comparison after arbitrary histories)',
        text='Mutation, aliasing and caches are facts about the CPython object graph; a Gallina value has neither, so the unbounded claim about python objects is NOT provable '
             'with this technique and is not claimed as proved (level: other).  Proved (Props/C03.v): the architecture argument the code relies on -- if the copy lives in fresh '
             'locations and the mutator writes only into what it was given or freshly allocates, and stores only pointers into that region, then every pre-existing location is '
             'unchanged, everything reachable from the input is still reachable unchanged, and the result shares no location with anything that existed before; and == iff '
             'equal hash keys.  The model is stateless, so history-independence of the MODEL is definitional; what ties it to the code are the monitors: on histories over the 21 '
             'shipped environments and dense door/key/box worlds (hashing, calls on other environments, in-place scrambling of copies interleaved with functional_observation / '
             'functional_step / reward / termination on one evolving state): arguments structurally unchanged (deep snapshot incl. box contents), no mutable object id shared '
             'between state and next state, no container shared between state and observation, mutating input / result / observation afterwards leaves the others unchanged, '
             'reward and termination answer alike on equal arguments, a state with a history == and hashes like a freshly built equal state, copies equal and hash like '
             'their original, and every step / observation agrees with the stateless model on the state\'s value.',
        design='8/C03', note=TB + ' An observation is allowed to show the state\'s own grid objects (C05 states it does); only containers must not be shared.'),
    'C04': dict(
        level='proof',
        technique='Coq proof (machine invariant "the memoised observation belongs to the current state" over all operation sequences and outcomes; refinement of the stateful trajectory to functional threading) + operation-sequence differential check',
        text='Coq theorems (Props/C04.v) about the InnerEnv machine (state, memoised observation): every successful stateful trajectory is a functional '
             'threading with the same outputs and conversely; reset/step/fresh read are the functional operations on the current state; invariant over '
             'all reachable machine states: a handed-out observation is an observation of the current state (never stale); memo cleared by reset and '
             'step; repeated reads return the same observation and draw nothing; state/observation/step before the first reset raise RuntimeError. '
             'The one-step equations hold by definition of the model; what ties them to the code is T2: operation sequences with arbitrary read '
             'patterns, mid-episode resets and rejected actions on all shipped configurations (YAML factory) and random compositions, every output, '
             'exception class and the draw log compared (a spurious recomputation of a stochastic observation changes the log); oracle threads states '
             'by hand through the functional interface; OuterEnv representation equality checked on the code.',
        design='8/C04', note=TB),
    'C05': dict(
        level='proof',
        technique='Coq proof (raw_view_spec by case analysis on the generated rotation table + index arithmetic, soundness for every observation function and random outcome) + extracted-model differential check',
        text='Coq theorems (Props/C05.v): raw_view_spec -- for every grid, pose, well-formed area and heading, cell (i,j) of rot o (subgrid g (pose.area)) '
             'is the world cell under the view placed at the pose (Hidden outside the grid) and the result has the area shape; observation_sound for '
             'every built-in observation function and every random outcome (cell Hidden or structurally the world cell, anchor, FORWARD, held item); '
             'outside the grid => Hidden; fully_transparent shows every cell.  Tie: T1 (rotation performed per orientation, orientation matrices and '
             'area table regenerated from the code) + T2 on tagged grids, all poses/headings, areas of any extent, exhaustive small areas; oracle uses object identity.',
        design='8/C05', note=TB),
    'C06': dict(
        level='proof',
        technique='Coq proof (flood fill = inductive reachability, non-interference/monotonicity by induction on reachability and on ray prefixes, stochastic bounds over all outcomes) + exhaustive opacity patterns against the code',
        text='Coq theorems (Props/C06.v): the recursive marking flood fill of partially_occluded equals inductive reachability (both directions, fuel '
             'shown sufficient); agent visible; chain; non-interference (mask level and observation level: from_visibility gives equal results when the '
             'worlds agree on the visible cells); monotone; ray tracing (defaults): visible iff lit, non-interference, chain, monotone, agent visible for '
             'an arbitrary ray list whose cells lie in the view (C19 contract); stochastic variant: every outcome shows only lit cells and always shows cells '
             'every ray reaches lit.  Non-interference is not claimed for thresholds other than the default.  Tie: T2 on masks for ALL opacity patterns of '
             'small views, pair oracle replacing hidden/out-of-view world cells by a 12-object alphabet, scripted random() values 0.0 and 1-2^-53.',
        design='8/C06', note=TB + ' Rays (utils/raytracing.py, float trigonometry) are an input of the model.'),
    'C07': dict(
        level='proof',
        technique='Coq proof (invariance of from_visibility under any rigid motion of Z^2; Grid.__mul__ with the induced cell map is such a motion for all shapes) + world-rotation oracle on the code',
        text='Coq theorems (Props/C07.v): for any rigid motion t and worlds with lookupH g\' (t p) = lookupH g p, every built-in observation function '
             '(the stochastic one as equal choice trees) gives the same result from the carried pose, for every view area; grid_rot_by r with the cell map '
             'rot_motion and heading (-r)*o is such a motion for all grid shapes; hence world_rotation_invariant for all four quarter turns.  Tie: T1/T2 '
             'as C05; oracle rotates the world through the real Grid.__mul__ and compares real observations with ==.',
        design='8/C07', note=TB),
    'C08': dict(
        level='proof',
        technique='Coq proof (closed form of move/turn + kinematic invariant by induction over histories) + extracted-model differential check',
        text='Coq theorems over the executable model (Props/C08.v): move_spec (iff, all grids/poses/actions, Z coordinates), turn laws, '
             'pose frame for every other built-in function and every random outcome, kinematic invariant lifted by induction to every '
             'history of every composition.  The model is tied to the code on every run: move/turn tables are regenerated from the code '
             '(T1) and the extracted model is run against the real registry functions on exhaustive-small and random edge-biased states, '
             'results and draw logs compared (T2); the property statement itself is evaluated on the code\'s outputs (oracle).',
        design='8/C08',
        note=TB),
    'C09': dict(
        level='proof',
        technique='Coq proof (Permutation of inventories for every function and random outcome, induction over compositions and histories) + extracted-model differential check',
        text='Coq theorems (Props/C09.v): every built-in transition function, action and random outcome preserves the inventory multiset '
             '(held item + cells, status erased, Floor/empty hand left out) up to Permutation, except actuate_box on a faced Box which replaces '
             'the box by its content; lifted by induction to every composition and history (shallow inventory without actuate_box, unwrapped '
             'inventory with it); the complete pick-and-drop case analysis (only the front cell and the hand change, front cell inside the grid '
             'and Floor/holdable, otherwise the state is unchanged); scenery never moves.  Tie: T1 flag tables + T2 on the pick-and-drop table, '
             'corpus (edge wrap-around) and random states/compositions; the oracle counts the inventory on the real step.',
        design='8/C09', note=TB),
    'C10': dict(
        level='proof',
        technique='Coq proof (complete door case table, door/box frame for every function and outcome, key-use invariant by induction over histories) + extracted-model differential check',
        text='Coq theorems (Props/C10.v): complete case table of actuate_door; door frame and box frame for every built-in function, action and '
             'random outcome; keys kept / hand frame; one environment step of any composition changes a door only under ACTUATE, only to OPEN, '
             'locked only with the key; all histories: a LOCKED door is found not locked only if some earlier step was ACTUATE holding a key of '
             'its colour.  Tie: T2 on the full table (3 statuses x 5 colours x 9 held items x 4 headings x 8 actions), box table, random states.',
        design='8/C10', note=TB),
    'C11': dict(
        level='proof',
        technique='Coq proof over the choice tree of all random outcomes (Leaf: all-leaves and exists-leaf theorems) + complete outcome-tree comparison with the code on small layouts',
        text='Coq theorems over the Rand choice tree (Props/C11.v): every outcome of move_obstacles is Ok, gives each obstacle exactly one turn '
             '(Turns relation: move to an in-grid Floor 4-neighbour at its turn, stay only if none), final obstacle positions = the destinations, '
             'pairwise distinct, everything else untouched; exact two-way unfolding of one turn, hence every free neighbour is possible; teleport: '
             'every outcome is one of the other same-coloured telepods, each is possible, otherwise inert and drawing nothing.  Tie: recorded draws on '
             'random layouts (result + draw log) and the COMPLETE outcome tree of the real code (ScriptedRng DFS) vs the model leaves on small layouts.',
        design='8/C11', note=TB),
    'C12': dict(
        level='proof',
        technique='Coq proof (one specification lemma per reward/termination component, composites by induction over nested lists, totality) + extracted-model differential check with symbolic reward values',
        text='Coq theorems (Props/C12.v): for every built-in reward and termination component a closed-form specification stated independently of '
             'the definition (exit reward/termination iff the next cell is an Exit, bump iff the attempted target is an in-grid Wall, distance '
             'shaping by the sign of the distance change to the unique object, pick/drop and door rewards on the corresponding change, memory '
             'reward by the beacon colour), reduce_sum = the parts in order, reduce_any/all, exit reward <-> exit termination in any composition, '
             'totality under the documented preconditions.  Components are pure functions in the model (no Rand), i.e. deterministic. Reward '
             'values are symbolic (which float parameter / 0.0 / parameter x distance / sum), evaluated by python itself, so comparison with the '
             'code is exact.  The breadth-first search behind getting_closer_shortest_path is PROVED correct (Lemmas/BfsL.v): its answer is the minimal number of moves over cells that do not block movement, None iff unreachable, the fuel always suffices (counting argument over duplicate-free visited cells).',
        design='8/C12', note=TB),
    'C13': dict(
        level='proof',
        technique='Coq: GENERAL well-formedness theorems for all eight reset functions (all admissible shapes / parameters, all random outcomes), general rejection theorems + kernel evaluation of the COMPLETE outcome tree of the reset model for shipped and small parameter sets + full-tree comparison with the code',
        text='Coq theorems (Props/C13.v): GENERAL (no bound on the shape): every outcome of `empty` (all flags), of `dynamic_obstacles` (any requested number: ValueError or exactly that many), of `teleport` (exactly two telepods of one colour, never an error) of `keydoor` (locked door in a full wall column, key and agent left of it, exit right of it) and of `memory` (memory_outcome: EVERY cell of the grid for every height >= 5, odd width >= 5, colour set and draw -- T-maze, two exits of different colours of the set in the top corners, two beacons of the colour of exactly one of them, agent in the middle) is a well-formed state -- wall boundary, the advertised inventory, agent on an inner floor cell -- for every admissible shape and every resolution of the random draws (Lemmas/C13W.v, C13M.v: exact characterisation of the walled room, sampling without replacement, placement on distinct floor cells); for each reset function the parameter conditions under which it raises ValueError whatever the randomness '
             '(all shapes); draws raise only ValueError; and, by kernel evaluation (vm_compute) of `leaves`, for 13 of the 21 shipped parameter sets '
             '(regenerated from the YAML files with numpy\'s linspace splits on every run) and 46 small parameter sets of all eight functions: EVERY '
             'resolution of every random choice yields a state satisfying the property\'s statement (wf_check) or ValueError.  In addition GENERAL theorems for `crossing` (never an error; Lemmas/C13X.v), `rooms` and `memory_rooms` (every shape and split lists 0 :: inner ++ [last]; ValueError or well-formed; Lemmas/C13R.v) -- so every reset function has an unbounded theorem; the kernel-evaluated instances remain as cross-checks and the tie to the code is T2 -- recorded draws on shapes 1x1..16x16 with parameter '
             'sweeps and the complete outcome tree of the REAL code (ScriptedRng DFS, ~25k leaves quick) compared with the model\'s leaves -- and the '
             'well-formedness oracle on every real outcome.  Shipped nine-room / memory-room / 9x9 sets are too large for the kernel in the quick tier.',
        design='8/C13', note=TB + ' np.linspace results are inputs of the model (oracle), recomputed by the harness exactly as the code does.'),
    'C14': dict(
        level='proof',
        technique='Coq: plan lemma (walk => action sequence of the real move/turn dynamics) + verified breadth-first check + kernel evaluation over COMPLETE outcome trees for walk-only parameter sets; exhaustive search over histories of the real step function for the rest; known findings K1/K2',
        text='Coq theorems (Props/C14.v): GENERAL: every initial state of `empty` (every shape >= 4x4, all flags, all random outcomes) is winnable by a sequence of move actions over floor cells (rectangle walk + the exact room shape of C13 + the plan lemma), and so is every initial state of `memory` (every shape, colour set and outcome: up the middle column and along row 1 to the exit carrying the colour of the beacons, never through the other exit), of `crossing` (every odd shape, river count and outcome: the staircase of openings connects the rooms between the rivers), of `rooms` (every shape and split lists with consecutive entries at least two apart: the grid of rooms is connected through the passages; or ValueError when there are fewer than two floor cells) and of `keydoor` (every shape >= 4x5 and outcome: an explicit action sequence under the shipped chain [move_agent; turn_agent; actuate_door; pickndrop] -- fetch the key, unlock the door, walk to the exit); walk_plan -- a 4-connected walk over enterable cells is realised by one move action per step under '
             'chain [move_agent; turn_agent] for any heading, visiting exactly the walk; bfsP soundness; hence can_walk_to = true yields a plan to the goal '
             'that never enters a blocking or terminating cell; by kernel evaluation of `leaves`: EVERY initial state of 20 walk-only parameter sets '
             '(shipped crossing/empty/memory/four-rooms-7x7 from the regenerated Gen/Configs.v, and small ones) is winnable; K1 has a kernel-checked '
             'witness; `teleport` (every shape >= 4x4: two L-shaped routes, jump through the telepods when both are blocked, under the shipped chain with the teleport step, for every resolution of the partner choice).  Not proved in general because false in general: dynamic_obstacles (K2), memory_rooms (K1).  Everything (key-door, teleport, moving obstacles with all '
             'random outcomes; larger rooms) is decided by best-first search over ALL histories of the REAL step function (all actions x all random '
             'outcomes via ScriptedRng) from the complete reset outcome tree when small, seeds otherwise; an exhausted search is an unwinnable state. '
             'Two genuine findings are recorded in known_findings.json (K1 memory_rooms, K2 dense dynamic_obstacles) with class predicates; any other '
             'unwinnable state fails the check.',
        design='8/C14', note=TB + ' "The environment\'s own dynamics" of a reset function = the dynamics the shipped configurations pair it with (table computed at run time).'),
    'C15': dict(
        level='proof',
        technique='Coq proof (bounds of the three per-object encodings over arbitrary type/colour sets by lia over the generated num_states table; arrays lifted cell by cell; agent coordinates as exact fractions) + differential check of convert/space against the model + gym.spaces membership along shipped trajectories',
        text='Coq theorems (Props/C15.v): for every space (any duplicate-free sets of type indices and colour values), every member object, and each of '
             'default / no-overlap / compact: the encoding has three entries within [0, upper bound of the per-object space]; the grid array has the grid\'s '
             'shape with every entry within bounds; the agent-marker array has the grid\'s shape with entries in {0,1}; for state shapes >= 2x2 the agent '
             'array never raises, its two normalised coordinates are fractions in [-1,1] and the heading is one-hot (a 1-row or 1-column state shape raises '
             'ZeroDivisionError); whole states and observations key by key; state spaces with non-representable types are refused.  Tie: T1 (type indices, '
             'num_states, representable regenerated from the registry) + T2: convert and the space upper bounds of the REAL representations vs the model for '
             'all single types, all pairs and random subsets x colour subsets x shapes x members; oracle Space.contains key by key (shape, dtype, bounds); '
             'gym layer: gym.spaces.Dict membership of observation and state at every step of trajectories of all 21 shipped environments x 3 representations.',
        design='8/C15', note=TB + ' Floats: the model gives the agent coordinates as exact fractions; that the correctly rounded float quotient stays in [-1,1] is assumed (monotone rounding) and checked on every case by the oracle. dtype is observed, not modelled.'),
    'C16': dict(
        level='proof',
        technique='Coq proof (injectivity of the three encodings from index_of injectivity over duplicate-free lists; lifted to grids, states and observations through cellwise characterisations; == iff equal hash keys; compact density) + exhaustive per-object and one-feature-pair differential check',
        text='Coq theorems (Props/C16.v): two member states have equal representations iff they are == (both directions, all three representations); the same '
             'for observations (grid, agent cell, held item; with FORWARD heading this is ==); == iff equal hash keys; per-object injectivity up to == and '
             'compatibility with ==; entry (i,j) is enc_obj of the object in cell (i,j) -- one function of the object alone; the agent marker is 1 exactly at '
             'the agent cell; default = (type, status, colour) triple; no-overlap = three successive disjoint ranges; compact = three disjoint blocks whose union '
             'is exactly 0..N-1 (every index is the code of a type, (type,status) or colour of the space).  Tie: T2 on EVERY object of each generated space (in '
             'the hand and in two cells) and on members; oracles on the code: pairs differing in exactly one feature (type/status/colour of a cell, pose, '
             'heading, held item, box content) -- representation equal iff ==, == implies equal hash() --, marker, positional entries, channel disjointness, density.',
        design='8/C16', note=TB + ' Observations of a space are those facing FORWARD (the only heading an observation function produces); the observation encodings have no heading channel.'),
    'C17': dict(
        level='proof',
        technique='Coq proof of the component-factory layer and of the configuration layer (schema validation, construction order) over arbitrary registries / schema tables + kernel evaluation on the tables regenerated from the live registries, schema objects and YAML files + differential check of the configuration layer on corrupted and randomly edited trees + three-way trajectory comparison (factory-built / assembled by hand / model)',
        text='Coq theorems (Props/C17.v): factory(name, **kw) returns the first registered function named `name` with EXACTLY the accepted entries of kw bound '
             '(order and values kept) iff every required key is given (an iff for arbitrary registries, names, keyword sets); it is rejected exactly for an unknown name '
             'or a missing required parameter, always with ValueError; parameters a component does not accept are ignored wherever they stand; by kernel '
             'evaluation on Gen/Signatures.v + Gen/Configs.v (regenerated from the registries and YAML files of /repo on every run): every component entry of every '
             'shipped configuration passes its factory, names are unique per registry, packaged copies are byte-identical, every gym id points to a packaged file.  '
             'The composition laws (reward list = sum in order, transition list = chain in order) are C12 / C01 theorems.  '
             'The configuration layer is modelled too (Model/Schema.v): configuration trees, the validation performed by the schemas of envs/yaml/schemas.py and the '
             'construction order of envs/yaml/factory.py, over TABLES regenerated on every run from the live schema objects (vt/schematab.py -> Gen/Schema.v: which key '
             'has which schema, required / optional / other keys, the component registries, the enumerations; fail-closed on anything unrecognised).  Proved for arbitrary '
             'tables: a dictionary is accepted iff required keys are present and each entry fits the schema its key selects; an unknown or missing top-level key, a value '
             'that does not fit, a malformed shape / layout / colour / action / object list or a nameless entry at ANY depth gives SchemaError and never an environment; a '
             'built environment consists of exactly the described parts (inversion clause by clause); a built component IS the registered function of the given name with '
             'accepted keys only and all required ones; an unregistered name or a missing required parameter never yields a component; a parameter nobody accepts changes '
             'nothing; the order of dictionary entries is irrelevant to validation; construction can only fail with SchemaError or ValueError (or the class marking inputs outside the modelled domain); by kernel evaluation every shipped tree validates and constructs and yields the descriptors the harness reads out of the same files.  On the code: ~45 systematic corruptions of each of the 21 shipped trees must be '
             'rejected with a schema or value error and never yield an environment; unaccepted parameters must be ignored without changing behaviour.  '
             'Tie: T2 of the configuration layer (every shipped tree, every systematic corruption, random edits of the trees: verdict schema error / value error / built, and '
             'when built the spaces, actions and component tree of the real environment); '
             'T2 on the real factory functions of all six registries (which function and which keywords are bound, values passed unchanged, falsy values included); '
             'for every shipped file the factory-built environment, an environment assembled by hand with functools.partial from the registered functions, and the '
             'model environment must produce identical trajectories (mid-episode resets, state and observation reads); input tree unchanged; building twice repeatable.',
        design='8/C17', note=TB + ' PyYAML is absent in this sandbox: YAML text is parsed by vt/miniyaml.py (token-audited); byte-identity of packaged copies and the gym-id table are computed by the translator.'),
    'C18': dict(
        level='proof',
        technique='Coq proof over unbounded Z (group laws, linear isometric action, transform group, area image, grid rotation) + regenerated tables + differential check',
        text='Coq theorems over Z (Props/C18.v): C4 group with FORWARD neutral, linear isometric action, transform group and action, '
             'area image = image of the positions (both inclusions), grid rotation shape / cell bijection / inverse, next-position helper. '
             'Orientation tables, matrices and the rotation used per orientation are regenerated from the running code on every run (T1), '
             'the arithmetic is compared with the code on random and extreme integers and all grid shapes up to the tier bound (T2).',
        design='8/C18',
        note=TB),
    'C19': dict(
        level='proof',
        technique='Coq: proved meaning of the ray/fan checkers + kernel evaluation of the checker on the fans the running code computes (views in use; every origin of every area up to 7x7; regenerated each run) ; larger and shifted areas by the extracted checker (translation validation) ; cache/determinism monitor',
        text='compute_ray is float trigonometry (libm sin/cos, 0.01 steps, banker\'s rounding): Coq has no model of it, so no theorem over ALL areas is possible and none is claimed. '
             'Proved (Props/C19.v): ray_ok / fan_ok accept exactly the rays / fans the property describes (start at the origin cell, inside the area, no cell twice, '
             'adjacent steps, last cell on the border; non-empty fan reaching every cell) -- iff, by induction on the ray; by KERNEL evaluation (vm_compute) that the fans '
             'computed by the running code satisfy this for every view used by a shipped configuration and for every origin of every area up to 7x7 plus shifted areas '
             '(Gen/Rays.v: 28 000+ rays, regenerated from /repo on every run, so the proof is re-done when the code changes); consequences: an unobstructed ray-traced '
             'view shows everything, the agent cell is always lit, rays stay in the view (the contract C06 assumes).  Beyond 7x7 (quick: sampled origins of areas up to 12x12, '
             '15x15, 7x31; thorough: ALL origins of all areas up to 11x11 and larger samples), shifted areas with ymin != xmin and compute_rays (360 degrees): the extracted '
             'checker plus an independent python statement of the contract on every fan -- translation validation, not proof.  Determinism / caching: every fan cold, '
             'cached, and again after a shuffled sequence of other queries and ray-traced visibility calls.',
        design='8/C19', note=TB + ' The unbounded claim (all areas) is NOT proved: it rests on the sweep.'),
    'C20': dict(
        level='proof',
        technique='Coq proof (specification of gym reset/step/wrapper/representation switches as exact compositions of the functional operations, for every random outcome; reachability invariant across all layers) + operation-sequence differential check on one stack of real objects',
        text='Coq theorems (Props/C20.v) about the machine genv = (InnerEnv machine, state repr, observation repr) with operations at the inner, outer, gym and state-wrapper '
             'layers: gym step(i) succeeds iff actions[i] exists (python indexing; outside [-n,n) IndexError and nothing changes), the current state s steps functionally to '
             '(s\', r, t), the observation o of s\' is computed, and the result is (repr(o), r, t) with the machine at (s\', memo o) -- an iff over all random outcomes; '
             'likewise reset (observation of the fresh state); the wrapper returns the state representation of the post-step state and passes the observation '
             'representation through info; outer state / observation are exactly the representations of the inner ones; for every machine reachable by ANY mix of '
             'operations an observation representation handed out represents an observation of the CURRENT inner state; representation switches install the named '
             'representation and its space; outputs lie inside the advertised space (C15).  Tie: T2 on operation sequences over GymEnvironment / GymStateWrapper / OuterEnv / '
             'GridWorld sharing one inner environment (all 21 shipped configurations, random compositions; reads in all patterns, repeated and mid-episode resets, '
             'indices outside the space, switches incl. unknown names, missing representations), every output, exception class and the draw log compared; oracle per '
             'operation: output = fresh conversion of the inner environment\'s current observation / state and inside the real gym space; registered gym ids vs hand-built twins.',
        design='8/C20', note=TB + ' GymEnvironment.seed needs gym<=0.21 (seeding.create_seed); environments are seeded through inner_env.set_seed. render() is not modelled.'),
}


def main():
    checks = []
    for pid in ALL:
        c = CLAIMS.get(pid)
        if not c:
            continue
        checks.append({
            'property_id': pid,
            'quick_cmd': f'./check {pid} --tier quick',
            'thorough_cmd': f'./check {pid} --tier thorough',
            'evidence_file': f'/verif/evidence/{pid}.json',
            'replay_cmd_template': f'./check {pid} --replay {{path}}',
            'engine': 'coq+extracted-model',
            'level_claimed': {'category': c['level'], 'text': c['text'], 'design_ref': f"DESIGN.md section {c['design']}"},
            'level_note': c['note'],
            'technique': c['technique'],
        })
    na = [{'property_id': pid, 'reason': 'not claimed'} for pid in ALL if pid not in CLAIMS]
    man = {
        'version': 1,
        'setup_cmd': './check --setup',
        'hooks': {
            'guard': 'GYM_GRIDVERSE_VERIF',
            'enable': 'no source hooks are needed: the harness injects recording generators through the public rng= parameters and module attributes',
            'baseline_off_cmd': '/verif/tools/baseline.sh',
            'source_commits': [],
            'add_only': True,
        },
        'engines': [
            {'name': 'coq+extracted-model', 'path': '/verif/check', 'serves_properties': sorted(CLAIMS),
             'kind_free_text': 'Coq 8.16 theorems over an executable Gallina model; Gen tables regenerated from /repo on every run; '
                               'model extracted to OCaml and run against the implementation (differential correspondence) with oracles'}
        ],
        'checks': checks,
        'not_applicable': na,
        'notes': 'See DESIGN.md.  ./check <id> regenerates coq/Gen from /repo, rebuilds the obligations (make), re-extracts the model, runs '
                 'corpus + exhaustive-small + random correspondence and the oracles, and writes evidence/<id>.json.',
    }
    with open(os.path.join(VERIF, 'MANIFEST.json'), 'w') as f:
        json.dump(man, f, indent=1)
    print(f'{len(checks)} checks, {len(na)} not claimed')


if __name__ == '__main__':
    main()
