#!/venv/bin/python
"""Run every check against a behaviour-preserving refactor (expected outcome: every check passes).

  tools/reftest.py <name> <diff> [<check> ...]
        applies the diff to a scratch worktree of /repo (outside /repo and /verif), points the checks at it (VERIF_REPO), records
        refactors/<name>/{patch.diff, result.json}; /repo itself is not touched
"""
import json
import os
import shutil
import subprocess
import sys
import tempfile

VERIF = os.path.dirname(os.path.dirname(os.path.abspath(__file__)))
ALL = [f'C{i:02d}' for i in range(1, 21)]


def sh(cmd, cwd=None, env=None, timeout=7200):
    p = subprocess.run(cmd, cwd=cwd, env=env, capture_output=True, text=True, timeout=timeout)
    return p.returncode, p.stdout + p.stderr


def main():
    name, diff, checks = sys.argv[1], sys.argv[2], sys.argv[3:] or ALL
    d = os.path.join(VERIF, 'refactors', name)
    os.makedirs(d, exist_ok=True)
    shutil.copy(diff, os.path.join(d, 'patch.diff'))
    wt = tempfile.mkdtemp(prefix='gvref', dir='/var/tmp')
    os.rmdir(wt)
    rc, txt = sh(['git', '-C', '/repo', 'worktree', 'add', '--detach', wt, 'HEAD'])
    assert rc == 0, txt
    res = {}
    try:
        rc, txt = sh(['git', 'apply', os.path.abspath(diff)], cwd=wt)
        assert rc == 0, txt
        for c in checks:
            rc, out = sh(['./check', c, '--tier', 'quick'], cwd=VERIF, env=dict(os.environ, VERIF_REPO=wt))
            lines = [ln for ln in out.splitlines() if ln.startswith(('VIOLATION', 'PASS'))]
            detail = [ln for ln in out.splitlines() if ln.startswith('  ')][:2]
            res[c] = {'exit': rc, 'lines': lines[:2], 'detail': detail}
            if rc != 0:
                print(name, c, rc, lines[:1], detail[:1])
    finally:
        sh(['git', '-C', '/repo', 'worktree', 'remove', '--force', wt])
        shutil.rmtree(wt, ignore_errors=True)
    json.dump({'name': name, 'expected': 'every check passes (behaviour-preserving refactor)', 'checks': res}, open(os.path.join(d, 'result.json'), 'w'), indent=1)
    bad = [c for c, v in res.items() if v['exit'] != 0]
    print(name, 'ALARMS:' if bad else 'silent', ' '.join(bad))


if __name__ == '__main__':
    main()
