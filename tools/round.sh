#!/bin/sh
# usage: tools/round.sh <outdir> <prop> <letter>...   -- confirm the delivered seeded changes of one property and run its check against them (scratch worktrees)
out="$1"; p="$2"; shift 2
cd "$(dirname "$0")/.."
for l in "$@"; do
  if [ -f "$out/$p/$l.diff" ]; then
    tools/seedtest.py confirm "$p-$l" "$p" "$out/$p/$l.diff" "$out/$p/demo_$l.py" 2>&1 | grep -v WARN | tail -1
    [ -d "seeded/$p-$l" ] && tools/seedtest.py run-scratch "$p-$l" 2>&1 | grep -v WARN | tail -1 | cut -c1-300
  else echo "$p-$l: no diff delivered"; fi
done
