#!/venv/bin/python
"""Confirm a seeded change and run checks against it.

  tools/seedtest.py confirm <name> <property> <diff> <demo> [--needs TEXT]
        in a scratch worktree (outside /repo and /verif): baseline suite passes with the change, the demo fails with it and passes
        without it; then stores seeded/<name>/{patch.diff, demo.py, meta.json}
  tools/seedtest.py run <name> [<check> ...] [--tier quick]
        applies seeded/<name>/patch.diff to /repo, runs the given checks (default: the property it breaks), restores /repo
        (git checkout -- .), records the outcome in meta.json
"""
import json
import os
import shutil
import subprocess
import sys
import tempfile

VERIF = os.path.dirname(os.path.dirname(os.path.abspath(__file__)))
SEEDED = os.path.join(VERIF, 'seeded')
BASELINE = r'''
import json, sys, xml.etree.ElementTree as ET
base = json.load(open('/root/.vp/BASELINE.json'))
want = set(base['stable_pass'])
root = ET.parse(sys.argv[1]).getroot()
passed = set()
for tc in root.iter('testcase'):
    bad = any(ch.tag in ('failure', 'error', 'skipped') for ch in tc)
    if not bad:
        passed.add(f"{tc.get('classname')}::{tc.get('name')}")
missing = sorted(want - passed)
print(f"baseline: {len(want & passed)}/{len(want)} stable tests pass")
sys.exit(1 if missing else 0)
'''


def sh(cmd, cwd=None, env=None, timeout=3600):
    p = subprocess.run(cmd, cwd=cwd, env=env, capture_output=True, text=True, timeout=timeout)
    return p.returncode, p.stdout + p.stderr


def baseline(wt):
    out = tempfile.mkdtemp(prefix='gvbase', dir='/var/tmp')
    env = dict(os.environ, PYTHONPATH=wt, PYTHONHASHSEED='0')
    env.pop('GYM_GRIDVERSE_VERIF', None)
    sh(['/venv/bin/python', '-m', 'pytest', '-q', '-p', 'no:cacheprovider', '--timeout=900', '--continue-on-collection-errors',
        f'--junitxml={out}/junit.xml'], cwd=wt, env=env)
    rc, txt = sh(['/venv/bin/python', '-c', BASELINE, f'{out}/junit.xml'])
    shutil.rmtree(out, ignore_errors=True)
    return rc == 0, txt.strip()


def demo(wt, path):
    env = dict(os.environ, GV_ROOT=wt, PYTHONPATH=wt, PYTHONHASHSEED='0')
    rc, txt = sh(['/venv/bin/python', path], cwd=wt, env=env, timeout=1800)
    return rc, txt[-1500:]


def confirm(name, prop, diff, demo_path, needs):
    wt = tempfile.mkdtemp(prefix='gvseed', dir='/var/tmp')
    os.rmdir(wt)
    rc, txt = sh(['git', '-C', '/repo', 'worktree', 'add', '--detach', wt, 'HEAD'])
    assert rc == 0, txt
    meta = {'name': name, 'property': prop, 'needs': needs, 'confirmed': {}}
    try:
        rc0, out0 = demo(wt, demo_path)
        meta['confirmed']['demo_without_change'] = {'exit': rc0, 'tail': out0[-300:]}
        rc, txt = sh(['git', 'apply', os.path.abspath(diff)], cwd=wt)
        assert rc == 0, f'patch does not apply: {txt}'
        ok, line = baseline(wt)
        meta['confirmed']['baseline_with_change'] = line
        rc1, out1 = demo(wt, demo_path)
        meta['confirmed']['demo_with_change'] = {'exit': rc1, 'tail': out1[-600:]}
        good = ok and rc0 == 0 and rc1 != 0
        meta['confirmed']['ok'] = good
    finally:
        sh(['git', '-C', '/repo', 'worktree', 'remove', '--force', wt])
        shutil.rmtree(wt, ignore_errors=True)
    print(json.dumps(meta['confirmed'], indent=1)[:1500])
    if not good:
        print(f'NOT CONFIRMED: {name}')
        return 1
    d = os.path.join(SEEDED, name)
    os.makedirs(d, exist_ok=True)
    shutil.copy(diff, os.path.join(d, 'patch.diff'))
    shutil.copy(demo_path, os.path.join(d, 'demo.py'))
    meta['ran'] = ['git worktree add (scratch, under /var/tmp)', 'demo.py on the unchanged tree (exit 0)', 'git apply patch.diff',
                   'pinned test suite vs BASELINE.json stable_pass (all pass)', 'demo.py with the change (non-zero exit)', 'worktree removed']
    json.dump(meta, open(os.path.join(d, 'meta.json'), 'w'), indent=1)
    print(f'CONFIRMED: {name}')
    return 0


def run_scratch(name, checks, tier):
    """like run, but the change is applied to a scratch worktree of /repo (outside /repo and /verif) and the checks are pointed at it
    with VERIF_REPO; /repo itself is not touched (useful while something else is using /repo)"""
    d = os.path.join(SEEDED, name)
    meta = json.load(open(os.path.join(d, 'meta.json')))
    checks = checks or [meta['property']]
    wt = tempfile.mkdtemp(prefix='gvseedrun', dir='/var/tmp')
    os.rmdir(wt)
    rc, txt = sh(['git', '-C', '/repo', 'worktree', 'add', '--detach', wt, 'HEAD'])
    assert rc == 0, txt
    results = meta.setdefault('checks', {})
    try:
        rc, txt = sh(['git', 'apply', os.path.join(d, 'patch.diff')], cwd=wt)
        assert rc == 0, txt
        for c in checks:
            rc, out = sh(['./check', c, '--tier', tier], cwd=VERIF, env=dict(os.environ, VERIF_REPO=wt), timeout=7200)
            lines = [ln for ln in out.splitlines() if ln.startswith(('VIOLATION', 'PASS', 'KNOWN-FINDING'))]
            detail = [ln for ln in out.splitlines() if ln.startswith('  ')][:2]
            results[c] = {'tier': tier, 'exit': rc, 'lines': lines[:4], 'detail': detail, 'how': 'scratch worktree via VERIF_REPO'}
            print(name, c, rc, lines[:2], detail[:1])
    finally:
        sh(['git', '-C', '/repo', 'worktree', 'remove', '--force', wt])
        shutil.rmtree(wt, ignore_errors=True)
    json.dump(meta, open(os.path.join(d, 'meta.json'), 'w'), indent=1)


def run(name, checks, tier):
    d = os.path.join(SEEDED, name)
    meta = json.load(open(os.path.join(d, 'meta.json')))
    checks = checks or [meta['property']]
    rc, txt = sh(['git', '-C', '/repo', 'status', '--porcelain'])
    assert txt.strip() == '', f'/repo is not clean: {txt}'
    rc, txt = sh(['git', '-C', '/repo', 'apply', os.path.join(d, 'patch.diff')])
    assert rc == 0, txt
    results = meta.setdefault('checks', {})
    try:
        for c in checks:
            rc, out = sh(['./check', c, '--tier', tier], cwd=VERIF, timeout=7200)
            lines = [ln for ln in out.splitlines() if ln.startswith(('VIOLATION', 'PASS', 'KNOWN-FINDING'))]
            detail = [ln for ln in out.splitlines() if ln.startswith('  ')][:2]
            results[c] = {'tier': tier, 'exit': rc, 'lines': lines[:4], 'detail': detail}
            print(name, c, rc, lines[:2], detail[:1])
    finally:
        sh(['git', '-C', '/repo', 'checkout', '--', '.'])
        rc, txt = sh(['git', '-C', '/repo', 'status', '--porcelain'])
        if txt.strip():
            sh(['git', '-C', '/repo', 'clean', '-fd'])   # files a patch added
    json.dump(meta, open(os.path.join(d, 'meta.json'), 'w'), indent=1)


if __name__ == '__main__':
    a = sys.argv[1:]
    tier = 'quick'
    if '--tier' in a:
        i = a.index('--tier')
        tier = a[i + 1]
        del a[i:i + 2]
    needs = ''
    if '--needs' in a:
        i = a.index('--needs')
        needs = a[i + 1]
        del a[i:i + 2]
    if a[0] == 'confirm':
        sys.exit(confirm(a[1], a[2], a[3], a[4], needs))
    elif a[0] == 'run':
        run(a[1], a[2:], tier)
    elif a[0] == 'run-scratch':
        run_scratch(a[1], a[2:], tier)
