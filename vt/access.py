"""The few places where the harness has to reach INSIDE an environment object (to hand it a journaling generator, to make it forget an
episode, to evaluate its own reward / termination component) go through this module.  Nothing here relies on the NAME of a private
attribute: the slots are discovered from what they hold (a numpy Generator, a State, an Observation, the callables given to the
constructor), so a rename inside the library does not disturb a check.  If a slot cannot be found the caller gets AccessError and skips that
probe (counted in the evidence) instead of raising an alarm about code whose behaviour did not change."""
import numpy as np

import vt.boot  # noqa: F401
from gym_gridverse import rng as gvrng
from gym_gridverse.observation import Observation
from gym_gridverse.state import State

from vt.rngproxy import _Base


class AccessError(Exception):
    pass


def _is_rng(v):
    return isinstance(v, (np.random.Generator, _Base))


_RNG_SLOT = {}


def rng_slot(env):
    """name of the instance attribute that holds the environment's own generator"""
    k = type(env)
    if k not in _RNG_SLOT:
        names = [n for n, v in vars(env).items() if _is_rng(v)]
        if not names:
            before = dict(vars(env))
            env.set_seed(0)
            names = [n for n, v in vars(env).items() if _is_rng(v)]
            # (an environment that was never seeded stays unseeded for the caller: restore what set_seed changed)
            if len(names) == 1:
                for n, v in before.items():
                    if n in names:
                        setattr(env, n, v)
        if len(names) != 1:
            raise AccessError(f'{k.__name__}: the generator of the environment is held by {names or "no attribute"}')
        _RNG_SLOT[k] = names[0]
    return _RNG_SLOT[k]


def set_rng(env, rng):
    setattr(env, rng_slot(env), rng)


def get_rng(env):
    return getattr(env, rng_slot(env))


def forget(env):
    """back to 'never reset': every slot that holds the current state / the memoised observation is emptied"""
    for n, v in list(vars(env).items()):
        if isinstance(v, (State, Observation)):
            setattr(env, n, None)


def has_state(env):
    try:
        return env.state is not None
    except RuntimeError:
        return False


def component(env, *words):
    """the callable stored on the environment whose attribute name contains one of `words` (reward / termin...)"""
    hits = [v for n, v in vars(env).items() if callable(v) and any(w in n.lower() for w in words)]
    if len(hits) != 1:
        raise AccessError(f'{type(env).__name__}: {len(hits)} stored components match {words}')
    return hits[0]


def reward_function(env):
    return component(env, 'reward')


def termination_function(env):
    return component(env, 'termin')


def global_slot():
    """name of the module attribute of gym_gridverse.rng that holds the library-level generator"""
    g = gvrng.get_gv_rng()
    names = [n for n, v in vars(gvrng).items() if v is g]
    if len(names) != 1:
        raise AccessError(f'gym_gridverse.rng: the library-level generator is held by {names or "no attribute"}')
    return names[0]


_GLOBAL = []


def get_global():
    if not _GLOBAL:
        _GLOBAL.append(global_slot())
    return getattr(gvrng, _GLOBAL[0])


def set_global(rng):
    if not _GLOBAL:
        _GLOBAL.append(global_slot())
    setattr(gvrng, _GLOBAL[0], rng)
