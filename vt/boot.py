"""Process bootstrap for every harness module.

* forces /repo first on sys.path (checks must see /repo's current working tree),
* imports gym_gridverse first (this is what makes the vendored more_itertools importable here),
* installs the yaml shim (PyYAML is absent in this sandbox) before yaml.factory is imported.
"""
import os
import sys
import warnings

warnings.filterwarnings('ignore')
os.environ.setdefault('PYTHONHASHSEED', '0')
REPO = os.environ.get('VERIF_REPO', '/repo')
VERIF = os.path.dirname(os.path.dirname(os.path.abspath(__file__)))
if REPO in sys.path:
    sys.path.remove(REPO)
sys.path.insert(0, REPO)
if os.path.join(REPO, 'examples') not in sys.path:
    sys.path.append(os.path.join(REPO, 'examples'))

_stderr = sys.stderr
try:
    sys.stderr = open(os.devnull, 'w')
    import gym_gridverse  # noqa: F401  (must be first)
    import gym_gridverse.gym  # noqa: F401  (pkg_resources -> vendored more_itertools)
except Exception:  # pragma: no cover - reported by the caller
    sys.stderr = _stderr
    raise
finally:
    sys.stderr = _stderr

from vt import miniyaml  # noqa: E402

miniyaml.install()
