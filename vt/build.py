"""Build pipeline: regenerate Gen from /repo, make the Coq obligations, extract + compile the model.

All output stays under /verif/build and /verif/coq (never /tmp).  A file lock serialises builds so
that concurrent checks are safe.
"""
import fcntl
import glob
import hashlib
import os
import re
import subprocess
import sys
import time

VERIF = os.path.dirname(os.path.dirname(os.path.abspath(__file__)))
COQ = os.path.join(VERIF, 'coq')
BUILD = os.path.join(VERIF, 'build')
PY = '/venv/bin/python'
ALLOWED_AXIOMS = ()  # the development is meant to be closed under the global context

FORBIDDEN = re.compile(
    r'\b(Admitted|admit|Axiom|Axioms|Parameter|Parameters|Conjecture|Hypothesis|Hypotheses|Variable|Variables'
    r'|Admit Obligations|Unset Guard Checking|Unset Positivity Checking|Unset Universe Checking'
    r'|bypass_check|type-in-type|impredicative-set|native_compute)\b'
)


class BuildResult:
    def __init__(self):
        self.ok = True
        self.stage = None          # which stage failed
        self.failed_item = None    # theorem / file name that no longer checks
        self.log = ''
        self.gen_hashes = {}
        self.assumptions = {}      # theorem -> text
        self.theorems = []
        self.make_cmd = ''
        self.wall = 0.0

    def fail(self, stage, item, log):
        self.ok = False
        self.stage = stage
        self.failed_item = item
        self.log = log
        return self


def _write_if_changed(path, text):
    try:
        if open(path).read() == text:
            return False
    except FileNotFoundError:
        pass
    with open(path, 'w') as f:
        f.write(text)
    return True


def strip_comments(src):
    out, depth, i = [], 0, 0
    while i < len(src):
        if src.startswith('(*', i):
            depth += 1
            i += 2
        elif src.startswith('*)', i) and depth:
            depth -= 1
            i += 2
        else:
            if depth == 0:
                out.append(src[i])
            i += 1
    return ''.join(out)


def audit_sources():
    """no Admitted/Axiom/... anywhere in the development (Section-local Variables are allowed only inside Sections)"""
    bad = []
    for path in sorted(glob.glob(os.path.join(COQ, '*', '*.v'))):
        src = strip_comments(open(path).read())
        # strings may contain anything
        src_ns = re.sub(r'"[^"]*"', '""', src)
        depth = 0
        for ln, line in enumerate(src_ns.splitlines(), 1):
            if re.match(r'\s*Section\b', line):
                depth += 1
            if re.match(r'\s*End\b', line) and depth:
                depth -= 1
            for m in FORBIDDEN.finditer(line):
                w = m.group(1)
                if w in ('Variable', 'Variables', 'Hypothesis', 'Hypotheses') and depth > 0:
                    continue
                bad.append(f'{os.path.relpath(path, VERIF)}:{ln}: {w}')
    return bad


def regenerate(res, prop=None):
    env = dict(os.environ, PYTHONPATH=VERIF, PYTHONHASHSEED='0')
    os.makedirs(os.path.join(COQ, 'Gen'), exist_ok=True)
    for mod, target in (('vt.tabulate', 'Tables.v'), ('vt.signatures', 'Signatures.v'), ('vt.configs', 'Configs.v'), ('vt.schematab', 'Schema.v'), ('vt.rays', 'Rays.v')):
        if not os.path.exists(os.path.join(VERIF, *mod.split('.')) + '.py'):
            continue
        if target == 'Rays.v' and prop not in (None, 'C19') and os.path.exists(os.path.join(COQ, 'Gen', target)):
            continue        # 28 000 rays take ~16 s to compute: only the property about rays (and the full build) regenerates them
        p = subprocess.run([PY, '-m', mod], cwd=VERIF, env=env, capture_output=True, text=True, timeout=600)
        if p.returncode != 0:
            return res.fail('translate', f'translator {mod}', p.stdout[-3000:] + p.stderr[-3000:])
        _write_if_changed(os.path.join(COQ, 'Gen', target), p.stdout)
        res.gen_hashes[target] = hashlib.sha256(p.stdout.encode()).hexdigest()[:16]
    return res


def coqproject():
    lines = ['-Q Gen GV.Gen', '-Q Model GV.Model', '-Q Lemmas GV.Lemmas', '-Q Props GV.Props']
    for d in ('Gen', 'Model', 'Lemmas', 'Props'):
        for f in sorted(glob.glob(os.path.join(COQ, d, '*.v'))):
            lines.append(os.path.relpath(f, COQ))
    txt = '\n'.join(lines) + '\n'
    if _write_if_changed(os.path.join(COQ, '_CoqProject'), txt) or not os.path.exists(os.path.join(COQ, 'Makefile')):
        subprocess.run(['coq_makefile', '-f', '_CoqProject', '-o', 'Makefile'], cwd=COQ, check=True,
                       capture_output=True)


def theorems_of(prop_file):
    src = strip_comments(open(prop_file).read())
    return re.findall(r'^\s*(?:Theorem|Example)\s+([A-Za-z0-9_\']+)', src, flags=re.M)


def parse_make_failure(log):
    """best effort: file and enclosing statement of the first error"""
    m = re.search(r'File "\./([^"]+)", line (\d+)', log)
    if not m:
        return 'coq build'
    path, line = m.group(1), int(m.group(2))
    name = None
    try:
        src = open(os.path.join(COQ, path)).read().splitlines()
        for ln in range(min(line, len(src)) - 1, -1, -1):
            mm = re.match(r'\s*(Theorem|Lemma|Corollary|Example|Definition|Fixpoint|Instance|Fact|Remark)\s+([A-Za-z0-9_\']+)', src[ln])
            if mm:
                name = mm.group(2)
                break
    except OSError:
        pass
    return f'{path}:{line}' + (f' ({name})' if name else '')


def model_hash():
    h = hashlib.sha256()
    for f in sorted(glob.glob(os.path.join(COQ, 'Gen', '*.v')) + glob.glob(os.path.join(COQ, 'Model', '*.v'))
                    + [os.path.join(COQ, 'Extract', 'Extract.v'), os.path.join(VERIF, 'ocaml', 'driver.ml')]):
        h.update(f.encode())
        h.update(open(f, 'rb').read())
    return h.hexdigest()


def build_extracted(res):
    ex = os.path.join(BUILD, 'extract')
    os.makedirs(ex, exist_ok=True)
    stamp = os.path.join(ex, 'stamp')
    hh = model_hash()
    if os.path.exists(stamp) and open(stamp).read() == hh and os.path.exists(os.path.join(ex, 'gvmodel')):
        return res
    for f in ('Extract.v',):
        with open(os.path.join(ex, f), 'w') as out:
            out.write(open(os.path.join(COQ, 'Extract', f)).read())
    p = subprocess.run(['coqc', '-Q', os.path.join(COQ, 'Gen'), 'GV.Gen', '-Q', os.path.join(COQ, 'Model'), 'GV.Model',
                        'Extract.v'], cwd=ex, capture_output=True, text=True, timeout=900)
    if p.returncode != 0:
        return res.fail('extract', 'Extract.v', p.stdout[-3000:] + p.stderr[-3000:])
    with open(os.path.join(ex, 'driver.ml'), 'w') as out:
        out.write(open(os.path.join(VERIF, 'ocaml', 'driver.ml')).read())
    p = subprocess.run(['ocamlfind', 'ocamlopt', '-O3', '-w', '-a', 'model.mli', 'model.ml', 'driver.ml', '-o', 'gvmodel'],
                       cwd=ex, capture_output=True, text=True, timeout=900)
    if p.returncode != 0:
        return res.fail('ocaml', 'driver build', p.stdout[-3000:] + p.stderr[-3000:])
    with open(stamp, 'w') as f:
        f.write(hh)
    return res


def print_assumptions(res, prop):
    """fresh Print Assumptions of every Theorem of Props/<prop>.v"""
    names = theorems_of(os.path.join(COQ, 'Props', f'{prop}.v'))
    res.theorems = names
    d = os.path.join(BUILD, 'assume')
    os.makedirs(d, exist_ok=True)
    src = f'From GV.Props Require Import {prop}.\n' + ''.join(
        f'Goal True. idtac "@@@ {n}". exact I. Qed.\nPrint Assumptions {n}.\n' for n in names)
    path = os.path.join(d, f'A_{prop}.v')
    with open(path, 'w') as f:
        f.write(src)
    p = subprocess.run(['coqc', '-Q', os.path.join(COQ, 'Gen'), 'GV.Gen', '-Q', os.path.join(COQ, 'Model'), 'GV.Model',
                        '-Q', os.path.join(COQ, 'Lemmas'), 'GV.Lemmas', '-Q', os.path.join(COQ, 'Props'), 'GV.Props',
                        path], cwd=d, capture_output=True, text=True, timeout=900)
    if p.returncode != 0:
        return res.fail('assumptions', f'Print Assumptions {prop}', p.stdout[-2000:] + p.stderr[-2000:])
    chunks = p.stdout.split('@@@ ')[1:]
    for ch in chunks:
        name, _, text = ch.partition('\n')
        res.assumptions[name.strip()] = text.strip()
    for n in names:
        t = res.assumptions.get(n)
        if t is None:
            return res.fail('assumptions', n, 'no Print Assumptions output')
        if 'Closed under the global context' in t:
            continue
        axioms = re.findall(r'^([A-Za-z0-9_.\']+)\s*:', t, flags=re.M)
        extra = [a for a in axioms if a not in ALLOWED_AXIOMS]
        if extra or not axioms:
            return res.fail('assumptions', n, f'theorem {n} depends on axioms: {t}')
    return res


def ensure_built(prop=None, jobs=16, want_model=True):
    """prop = 'C08' builds Props/C08.vo (and what it needs); None builds everything."""
    t0 = time.time()
    res = BuildResult()
    os.makedirs(BUILD, exist_ok=True)
    with open(os.path.join(BUILD, 'lock'), 'w') as lock:
        fcntl.flock(lock, fcntl.LOCK_EX)
        regenerate(res, prop)
        if not res.ok:
            return res
        bad = audit_sources()
        if bad:
            return res.fail('audit', bad[0], '\n'.join(bad))
        coqproject()
        targets = [f'Props/{prop}.vo'] if prop else []
        if prop and not os.path.exists(os.path.join(COQ, 'Props', f'{prop}.v')):
            return res.fail('make', f'Props/{prop}.v', 'missing obligations file')
        if want_model:
            targets.append('Model/Dispatch.vo')
        cmd = ['make', f'-j{jobs}'] + targets
        res.make_cmd = f'cd {COQ} && timeout 3000 ' + ' '.join(cmd)
        p = subprocess.run(['timeout', '3000'] + cmd, cwd=COQ, capture_output=True, text=True)
        log = p.stdout + p.stderr
        os.makedirs(os.path.join(BUILD, 'logs'), exist_ok=True)
        with open(os.path.join(BUILD, 'logs', f'make_{prop or "all"}.log'), 'w') as f:
            f.write(log)
        if p.returncode != 0:
            return res.fail('make', parse_make_failure(log), log[-4000:])
        if want_model:
            build_extracted(res)
            if not res.ok:
                return res
        if prop:
            print_assumptions(res, prop)
    res.wall = time.time() - t0
    return res


if __name__ == '__main__':
    r = ensure_built(sys.argv[1] if len(sys.argv) > 1 and sys.argv[1] != 'all' else None)
    print('ok' if r.ok else f'FAILED at {r.stage}: {r.failed_item}\n{r.log}')
    print(r.gen_hashes, f'{r.wall:.1f}s')
    sys.exit(0 if r.ok else 1)
