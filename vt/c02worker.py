"""Sub-process worker for C02: prints one line `name digest` per scripted episode; the transcript of an episode is every state,
observation, reward and flag of a seeded trajectory.  Run under different PYTHONHASHSEED values and with the debug flag on / off;
all digests must coincide."""
import copy
import hashlib
import random
import sys

import vt.boot  # noqa: F401
import gym_gridverse.debugging as gvdebug
from gym_gridverse.envs.yaml.factory import factory_env_from_data

from vt import comp, envs, wire


def transcript(env, actions, seed, nsteps):
    env.set_seed(seed)
    r = random.Random(seed)
    h = hashlib.sha256()
    env.reset()
    h.update(repr((wire.cstate(env.state), wire.cstate(env.observation))).encode())
    for _ in range(nsteps):
        rwd, done = env.step(envs.ACTS[r.choice(actions)])
        h.update(repr((wire.cstate(env.state), wire.cstate(env.observation), float(rwd).hex(), bool(done))).encode())
        if done:
            env.reset()
            h.update(repr(wire.cstate(env.state)).encode())
    return h.hexdigest()[:24]


def main():
    debug = sys.argv[1] == '1'
    nsteps = int(sys.argv[2])
    gvdebug.reset_gv_debug(debug)
    for name, data, desc in envs.shipped_envs():
        env = factory_env_from_data(copy.deepcopy(data))
        for seed in (0, 7):
            print(name, seed, transcript(env, desc['actions'], seed, nsteps))
    # the same configurations with the STOCHASTIC observation function (no shipped file uses it): observations consume the environment's
    # generator, so they are part of what must be reproduced across processes, hash seeds and debug settings
    for name, data, desc in envs.shipped_envs():
        if not any(k in name for k in ('keydoor.5x5', 'dynamic_obstacles.5x5', 'four_rooms.7x7', 'teleport.5x5', 'memory.5x5')):
            continue
        d2 = copy.deepcopy(data)
        d2['observation_function'] = dict(d2['observation_function'], name='stochastic_raytracing')
        env = factory_env_from_data(d2)
        for seed in (0, 11):
            print(name, 'stochastic-observation', seed, transcript(env, desc['actions'], seed, nsteps))
    # colour SETS built in this process (iteration order depends on the hash seed)
    for k, colors in enumerate(([1, 2, 3, 4], [4, 2], [3, 1, 4])):
        for rname, extra in (('memory', {}), ('memory_rooms', {'layout': (2, 2), 'num_beacons': 2, 'num_exits': 2})):
            d = {'name': rname, 'shape': (7, 7), 'colors': colors}
            d.update(extra)
            from gym_gridverse.rng import make_rng
            for seed in (0, 3):
                s = comp.build_reset(d)(rng=make_rng(seed))
                print(rname, k, seed, hashlib.sha256(repr(wire.cstate(s)).encode()).hexdigest()[:24])


if __name__ == '__main__':
    main()
