"""Component descriptors: build the real component (through the registries / factories), encode it for the model,
evaluate the model's symbolic reward values with python's own float arithmetic."""
import math

import numpy as np

import vt.boot  # noqa: F401
from gym_gridverse.action import Action
from gym_gridverse.envs import observation_functions as obsf
from gym_gridverse.envs import reset_functions as resf
from gym_gridverse.envs import reward_functions as rewf
from gym_gridverse.envs import terminating_functions as termf
from gym_gridverse.envs import transition_functions as trf
from gym_gridverse.envs.gridworld import GridWorld
from gym_gridverse.geometry import Area, Position, Shape, distance_function_factory
from gym_gridverse.grid_object import Color, grid_object_registry
from gym_gridverse.spaces import ActionSpace, ObservationSpace, StateSpace
from gym_gridverse.utils.raytracing import cached_compute_rays_fancy

from vt import impl, wire

ACTS = list(Action)
DIRECT = False      # True: bind the registered functions by hand (functools.partial), bypassing the component `factory` functions


class _F:
    def __init__(self, mod, reg):
        self.mod, self.reg = mod, reg

    def factory(self, name, **kw):
        if DIRECT:
            import inspect
            from functools import partial
            f = getattr(self.mod, self.reg)[name]
            return partial(f, **{k: v for k, v in kw.items() if k in inspect.signature(f).parameters})   # unaccepted parameters are ignored
        return self.mod.factory(name, **kw)


_rewf, _termf, _obsf, _resf, _trf = (_F(rewf, 'reward_function_registry'), _F(termf, 'terminating_function_registry'),
                                     _F(obsf, 'observation_function_registry'), _F(resf, 'reset_function_registry'), _F(trf, 'transition_function_registry'))

# ---------------------------------------------------------------- rewards
R_TAGS = {'overlap': 0, 'living_reward': 1, 'reach_exit': 2, 'bump_moving_obstacle': 3, 'proportional_to_distance': 4,
          'getting_closer': 5, 'getting_closer_shortest_path': 6, 'bump_into_wall': 7, 'actuate_door': 8, 'pickndrop': 9,
          'reach_exit_memory': 10, 'reduce_sum': 11}
R_PARAMS = {'overlap': ['reward_on', 'reward_off'], 'living_reward': ['reward'], 'reach_exit': ['reward_on', 'reward_off'],
            'bump_moving_obstacle': ['reward'], 'proportional_to_distance': ['reward_per_unit_distance'],
            'getting_closer': ['reward_closer', 'reward_further'], 'getting_closer_shortest_path': ['reward_closer', 'reward_further'],
            'bump_into_wall': ['reward'], 'actuate_door': ['reward_open', 'reward_close'], 'pickndrop': ['reward_pick', 'reward_drop'],
            'reach_exit_memory': ['reward_good', 'reward_bad']}
R_HAS_TY = {'overlap', 'proportional_to_distance', 'getting_closer', 'getting_closer_shortest_path', 'pickndrop'}
R_HAS_D = {'proportional_to_distance', 'getting_closer'}
DFUN = {'manhattan': 0, 'euclidean': 1}


def build_reward(d):
    if d['name'] == 'reduce_sum':
        return _rewf.factory('reduce_sum', reward_functions=[build_reward(p) for p in d['parts']])
    kw = dict(zip(R_PARAMS[d['name']], d['params']))
    if d['name'] in R_HAS_TY:
        kw['object_type'] = grid_object_registry[d['ty']]
    if d['name'] in R_HAS_D:
        kw['distance_function'] = distance_function_factory(d['d'])
    return _rewf.factory(d['name'], **kw)


def enc_reward(d):
    out = [R_TAGS[d['name']]]
    if d['name'] == 'reduce_sum':
        out.append(len(d['parts']))
        for p in d['parts']:
            out.extend(enc_reward(p))
        return out
    if d['name'] in R_HAS_D:
        out.append(DFUN[d['d']])
    if d['name'] in R_HAS_TY:
        out.append(d['ty'])
    return out


def read_rv(R):
    tag = R.z()
    if tag == 0:
        return ('zero',)
    if tag == 1:
        return ('param', R.z())
    if tag == 2:
        return ('scaled', R.z(), R.z(), R.z())
    if tag == 3:
        return ('sum', [read_rv(R) for _ in range(R.z())])
    raise ValueError(f'bad rv tag {tag}')


def eval_rv(d, v):
    """the float python computes from the model's symbolic value"""
    if v[0] == 'zero':
        return 0.0
    if v[0] == 'param':
        return d['params'][v[1]]
    if v[0] == 'scaled':
        dist = v[3] if v[2] == 0 else math.sqrt(v[3])
        return d['params'][v[1]] * dist
    if v[0] == 'sum':
        return sum(eval_rv(p, x) for p, x in zip(d['parts'], v[1]))
    raise ValueError(v)


def rand_param(r):
    k = r.random()
    if k < 0.12:
        return 0.0          # a reward that is exactly zero is a reward ("x and y or z" idioms confuse it with no reward)
    if k < 0.3:
        return float(r.choice([-5.0, -1.0, -0.5, 0.0, 0.25, 1.0, 2.0, 5.0]))
    if k < 0.6:
        return r.choice([-0.05, 0.2, -0.2, 0.1, -0.1, 0.3, 1.1])
    return round(r.uniform(-10, 10), r.randint(0, 6))


def rand_reward(r, types, depth=1):
    names = [n for n in R_TAGS if n != 'reduce_sum']
    if depth > 0 and r.random() < 0.25:
        return {'name': 'reduce_sum', 'parts': [rand_reward(r, types, depth - 1) for _ in range(r.randint(1, 4))]}
    n = r.choice(names)
    d = {'name': n, 'params': [rand_param(r) for _ in R_PARAMS[n]]}
    if n in R_HAS_TY:
        d['ty'] = r.choice(types)
    if n in R_HAS_D:
        d['d'] = r.choice(['manhattan', 'euclidean'])
    return d


# ---------------------------------------------------------------- termination
T_TAGS = {'overlap': 0, 'reach_exit': 1, 'bump_moving_obstacle': 2, 'bump_into_wall': 3, 'reduce_any': 4, 'reduce_all': 5}


def build_term(d):
    if d['name'] in ('reduce_any', 'reduce_all'):
        return _termf.factory(d['name'], terminating_functions=[build_term(p) for p in d['parts']])
    kw = {}
    if d['name'] == 'overlap':
        kw['object_type'] = grid_object_registry[d['ty']]
    return _termf.factory(d['name'], **kw)


def enc_term(d):
    out = [T_TAGS[d['name']]]
    if d['name'] in ('reduce_any', 'reduce_all'):
        out.append(len(d['parts']))
        for p in d['parts']:
            out.extend(enc_term(p))
    elif d['name'] == 'overlap':
        out.append(d['ty'])
    return out


def rand_term(r, types, depth=2):
    if depth > 0 and r.random() < 0.35:
        return {'name': r.choice(['reduce_any', 'reduce_all']), 'parts': [rand_term(r, types, depth - 1) for _ in range(r.randint(1, 3))]}
    n = r.choice(['overlap', 'reach_exit', 'bump_moving_obstacle', 'bump_into_wall'])
    d = {'name': n}
    if n == 'overlap':
        d['ty'] = r.choice(types)
    return d


# ---------------------------------------------------------------- observation functions
V_TAGS = {'fully_transparent': 0, 'partially_occluded': 1, 'raytracing': 2, 'stochastic_raytracing': 3}


def area_of(a):
    return Area((a[0], a[1]), (a[2], a[3]))


def build_obs(d):
    return _obsf.factory(d['name'], area=area_of(d['area']))


def rays_for(d):
    """the ray fan the code uses for this view (oracle input of the model); [] when not ray-traced or agent outside the view"""
    if d['name'] not in ('raytracing', 'stochastic_raytracing'):
        return []
    a = area_of(d['area'])
    pos = Position(-a.ymin, -a.xmin)
    view = Area((0, a.height - 1), (0, a.width - 1))
    if not view.contains(pos):
        return []
    return [[(p.y, p.x) for p in ray] for ray in cached_compute_rays_fancy(pos, view)]


def enc_rays(rays):
    out = [len(rays)]
    for ray in rays:
        out.append(len(ray))
        for (y, x) in ray:
            out.extend((y, x))
    return out


# ---------------------------------------------------------------- reset functions
def splits(n, L):
    return [int(v) for v in np.linspace(0, n - 1, num=L + 1, dtype=int)]


def build_reset(d):
    n = d['name']
    kw = {}
    if 'shape' in d:
        kw['shape'] = Shape(*d['shape'])
    for k in ('random_agent', 'random_exit', 'num_obstacles', 'num_rivers', 'num_beacons', 'num_exits'):
        if k in d:
            kw[k] = d[k]
            if d.get('numpy_ints') and isinstance(d[k], int) and not isinstance(d[k], bool):
                kw[k] = np.int64(d[k])          # counts computed with numpy arithmetic are integers like any other
    if 'layout' in d:
        kw['layout'] = tuple(d['layout'])
    if 'colors' in d:
        kw['colors'] = set(Color(c) for c in d['colors'])
    if 'object_type' in d:
        kw['object_type'] = grid_object_registry[d['object_type']]
    return _resf.factory(n, **kw)


def enc_reset(d):
    n = d['name']
    h, w = d['shape']
    b = lambda x: 1 if x else 0
    lst = lambda l: [len(l), *l]
    if n == 'empty':
        return [0, h, w, b(d.get('random_agent', False)), b(d.get('random_exit', False))]
    if n == 'rooms':
        return [1, h, w, *lst(splits(h, d['layout'][0])), *lst(splits(w, d['layout'][1]))]
    if n == 'dynamic_obstacles':
        return [2, h, w, d['num_obstacles'], b(d.get('random_agent', False))]
    if n == 'keydoor':
        return [3, h, w]
    if n == 'crossing':
        return [4, h, w, d['num_rivers'], d['object_type']]
    if n == 'teleport':
        return [5, h, w]
    if n == 'memory':
        return [6, h, w, *lst(sorted(d['colors']))]
    if n == 'memory_rooms':
        return [7, h, w, *lst(splits(h, d['layout'][0])), *lst(splits(w, d['layout'][1])), *lst(sorted(d['colors'])),
                d['num_beacons'], d['num_exits']]
    raise ValueError(n)


def run_reset(d, own=True, seed=0, script=None):
    f = build_reset(d)
    with impl.Journal(seed, script) as j:
        try:
            s = f(rng=j.own if own else None)
            out = ('ok', wire.cstate(s))
        except Exception as e:  # noqa: BLE001
            from vt.rngproxy import NeedMore
            if isinstance(e, NeedMore):
                raise
            out = ('err', wire.EXN_NAMES.get(wire.exn_code(e), type(e).__name__))
    return out[0], out[1], list(j.log), list(j.tape)


# ---------------------------------------------------------------- environments
def build_env(d, reset_override=None):
    """GridWorld assembled by hand from the registries, exactly as yaml/factory.py does (reset_override: a user-written reset function)"""
    types = [grid_object_registry[t] for t in d['state_types']]
    otypes = [grid_object_registry[t] for t in d['obs_types']]
    reset = build_reset(d['reset']) if reset_override is None else reset_override
    # d['trans_nesting'] (optional): the same list of functions grouped into nested chains, e.g. [2, 3] = chain[chain[f0, f1], chain[f2, f3, f4]];
    # a chain of chains is the chain of the flattened list (what the model receives)
    fs = [_trf.factory(impl.TNAMES[n]) for n in d['trans']]
    nest = d.get('trans_nesting')
    if nest and sum(nest) == len(fs):
        groups, i = [], 0
        for k in nest:
            groups.append(fs[i] if k == 1 else _trf.factory('chain', transition_functions=fs[i:i + k]))
            i += k
        fs = groups
    trans = _trf.factory('chain', transition_functions=fs)
    obs = build_obs(d['obs'])
    a = area_of(d['obs']['area'])
    return GridWorld(
        StateSpace(Shape(*d['reset']['shape']), types, [Color(c) for c in d['state_colors']]),
        ActionSpace([ACTS[a_] for a_ in d['actions']]),
        ObservationSpace(Shape(a.height, a.width), otypes, [Color(c) for c in d['obs_colors']]),
        reset, trans, obs, build_reward(d['reward']), build_term(d['term']))


def enc_env(d):
    lst = lambda l: [len(l), *l]
    a = area_of(d['obs']['area'])
    h, w = d['reset']['shape']
    return [h, w, *lst(d['state_types']), *lst(d['state_colors']), *lst(d['actions']),
            a.height, a.width, *lst(d['obs_types']), *lst(d['obs_colors']),
            *enc_reset(d['reset']), *lst(d['trans']), V_TAGS[d['obs']['name']], *d['obs']['area'],
            *enc_reward(d['reward']), *enc_term(d['term']), *enc_rays(rays_for(d['obs']))]
