"""T1 translator: shipped configurations -> coq/Gen/Configs.v (reset parameters with the numpy linspace splits, component
lists, view areas), regenerated from /repo on every run.  Fails closed on anything it does not understand."""
import hashlib
import os

import vt.boot  # noqa: F401

from vt import comp, envs

REPO = vt.boot.REPO


def zl(l):
    return '[' + '; '.join(f'({v})' if v < 0 else str(v) for v in l) + ']'


def b(x):
    return 'true' if x else 'false'


def rparams(d):
    n = d['name']
    h, w = d['shape']
    if n == 'empty':
        return f'PEmpty {h} {w} {b(d.get("random_agent", False))} {b(d.get("random_exit", False))}'
    if n == 'rooms':
        return f'PRooms {h} {w} {zl(comp.splits(h, d["layout"][0]))} {zl(comp.splits(w, d["layout"][1]))}'
    if n == 'dynamic_obstacles':
        return f'PDynamicObstacles {h} {w} {d["num_obstacles"]} {b(d.get("random_agent", False))}'
    if n == 'keydoor':
        return f'PKeydoor {h} {w}'
    if n == 'crossing':
        return f'PCrossing {h} {w} {d["num_rivers"]} {d["object_type"]}'
    if n == 'teleport':
        return f'PTeleport {h} {w}'
    if n == 'memory':
        return f'PMemory {h} {w} {zl(sorted(d["colors"]))}'
    if n == 'memory_rooms':
        return (f'PMemoryRooms {h} {w} {zl(comp.splits(h, d["layout"][0]))} {zl(comp.splits(w, d["layout"][1]))} '
                f'{zl(sorted(d["colors"]))} {d["num_beacons"]} {d["num_exits"]}')
    raise ValueError(n)


TN = ['TMoveAgent', 'TTurnAgent', 'TPickndrop', 'TMoveObstacles', 'TActuateDoor', 'TActuateBox', 'TTeleport']


def generate():
    out = ['(* GENERATED on every run by vt/configs.py from the YAML files shipped in /repo -- never edit, never commit. *)',
           'From Coq Require Import ZArith List Bool String.', 'From GV.Model Require Import Reset.', 'Import ListNotations.', 'Open Scope Z_scope.', '']
    names = []
    for fname, data, desc in envs.shipped_envs():
        ident = 'cfg_' + fname.replace('.yaml', '').replace('.', '_')
        names.append(ident)
        packaged = os.path.join(REPO, 'gym_gridverse', 'registered_envs', fname)
        same = os.path.exists(packaged) and open(packaged, 'rb').read() == open(os.path.join(REPO, 'yaml', fname), 'rb').read()
        a = desc['obs']['area']
        out.append(f'Definition {ident}_reset : rparams := {rparams(desc["reset"])}.')
        out.append(f'Definition {ident}_trans : list tname := [{"; ".join(TN[t] for t in desc["trans"])}].')
        out.append(f'Definition {ident}_area : area := mkA ({a[0]}) ({a[1]}) ({a[2]}) ({a[3]}).')
        out.append(f'Definition {ident}_types : list Z := {zl(desc["state_types"])}.')
        out.append(f'Definition {ident}_packaged_copy_identical : bool := {b(same)}.')
    out.append('Definition shipped_resets : list (string * rparams) := [' +
               '; '.join(f'("{n}"%string, {n}_reset)' for n in names) + '].')
    out.append('Definition shipped_packaged_identical : list bool := [' + '; '.join(f'{n}_packaged_copy_identical' for n in names) + '].')
    return '\n'.join(out) + '\n'


if __name__ == '__main__':
    print(generate())
