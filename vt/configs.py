"""T1 translator: shipped configurations -> coq/Gen/Configs.v (reset parameters with the numpy linspace splits, component
lists, view areas), regenerated from /repo on every run.  Fails closed on anything it does not understand."""
import hashlib
import os

import vt.boot  # noqa: F401

from vt import comp, envs, signatures

REPO = vt.boot.REPO


def zl(l):
    return '[' + '; '.join(f'({v})' if v < 0 else str(v) for v in l) + ']'


def b(x):
    return 'true' if x else 'false'


def rparams(d):
    n = d['name']
    h, w = d['shape']
    if n == 'empty':
        return f'PEmpty {h} {w} {b(d.get("random_agent", False))} {b(d.get("random_exit", False))}'
    if n == 'rooms':
        return f'PRooms {h} {w} {zl(comp.splits(h, d["layout"][0]))} {zl(comp.splits(w, d["layout"][1]))}'
    if n == 'dynamic_obstacles':
        return f'PDynamicObstacles {h} {w} {d["num_obstacles"]} {b(d.get("random_agent", False))}'
    if n == 'keydoor':
        return f'PKeydoor {h} {w}'
    if n == 'crossing':
        return f'PCrossing {h} {w} {d["num_rivers"]} {d["object_type"]}'
    if n == 'teleport':
        return f'PTeleport {h} {w}'
    if n == 'memory':
        return f'PMemory {h} {w} {zl(sorted(d["colors"]))}'
    if n == 'memory_rooms':
        return (f'PMemoryRooms {h} {w} {zl(comp.splits(h, d["layout"][0]))} {zl(comp.splits(w, d["layout"][1]))} '
                f'{zl(sorted(d["colors"]))} {d["num_beacons"]} {d["num_exits"]}')
    raise ValueError(n)


TN = ['TMoveAgent', 'TTurnAgent', 'TPickndrop', 'TMoveObstacles', 'TActuateDoor', 'TActuateBox', 'TTeleport']


REG_INDEX = {'reset_function': 0, 'transition_functions': 1, 'transition_function': 1, 'reward_functions': 2, 'reward_function': 2,
             'observation_function': 3, 'visibility_function': 4, 'terminating_function': 5, 'terminating_functions': 5}


def components_of(data, tab, unknown):
    """every component entry of a configuration tree (nested ones included): (registry index, interned name, interned keys)"""
    out = []

    def intern(s):
        if s not in tab:
            unknown.append(s)
            return 10000 + len(unknown)
        return tab[s]

    def entry(ri, d):
        out.append((ri, intern(d['name']), [intern(k) for k in d if k != 'name']))
        for k, v in d.items():
            if k in REG_INDEX:
                if isinstance(v, list):
                    for x in v:
                        entry(REG_INDEX[k], x)
                elif isinstance(v, dict):
                    entry(REG_INDEX[k], v)

    entry(0, data['reset_function'])
    out.append((1, intern('chain'), [intern('transition_functions')]))           # factory_env_from_data wraps the lists itself
    for d in data['transition_functions']:
        entry(1, d)
    out.append((2, intern('reduce_sum'), [intern('reward_functions')]))
    for d in data['reward_functions']:
        entry(2, d)
    entry(3, data['observation_function'])
    entry(5, data['terminating_function'])
    return out


def generate():
    out = ['(* GENERATED on every run by vt/configs.py from the YAML files shipped in /repo -- never edit, never commit. *)',
           'From Coq Require Import ZArith List Bool String.', 'From GV.Model Require Import Reset.', 'Import ListNotations.', 'Open Scope Z_scope.', '']
    names = []
    tab = signatures.intern_table()
    unknown = []
    comps = []
    for fname, data, desc in envs.shipped_envs():
        comps.extend(components_of(data, tab, unknown))
        ident = 'cfg_' + fname.replace('.yaml', '').replace('.', '_')
        names.append(ident)
        packaged = os.path.join(REPO, 'gym_gridverse', 'registered_envs', fname)
        same = os.path.exists(packaged) and open(packaged, 'rb').read() == open(os.path.join(REPO, 'yaml', fname), 'rb').read()
        a = desc['obs']['area']
        out.append(f'Definition {ident}_reset : rparams := {rparams(desc["reset"])}.')
        out.append(f'Definition {ident}_trans : list tname := [{"; ".join(TN[t] for t in desc["trans"])}].')
        out.append(f'Definition {ident}_area : area := mkA ({a[0]}) ({a[1]}) ({a[2]}) ({a[3]}).')
        out.append(f'Definition {ident}_types : list Z := {zl(desc["state_types"])}.')
        out.append(f'Definition {ident}_packaged_copy_identical : bool := {b(same)}.')
    out.append('Definition shipped_resets : list (string * rparams) := [' +
               '; '.join(f'("{n}"%string, {n}_reset)' for n in names) + '].')
    out.append('(* every component entry of every shipped configuration: (registry index, interned name, interned parameter keys given) *)')
    out.append('Definition shipped_components : list (Z * Z * list Z) := [' + '; '.join(f'({ri}, {n}, {zl(ks)})' for ri, n, ks in comps) + '].')
    from gym_gridverse import gym as gvgym
    ids_ok = all(os.path.exists(os.path.join(REPO, 'gym_gridverse', 'registered_envs', f)) and os.path.exists(os.path.join(REPO, 'yaml', f))
                 for f in gvgym.STRING_TO_YAML_FILE.values())
    out.append(f'Definition gym_ids_point_to_packaged_files : bool := {b(ids_ok)}.')
    out.append(f'Definition number_of_gym_ids : Z := {len(gvgym.STRING_TO_YAML_FILE)}.')
    out.append('Definition shipped_packaged_identical : list bool := [' + '; '.join(f'{n}_packaged_copy_identical' for n in names) + '].')
    return '\n'.join(out) + '\n'


if __name__ == '__main__':
    print(generate())
