"""Check context: case bookkeeping, verdict protocol (DESIGN.md section 6), evidence, replay files."""
import hashlib
import json
import os
import random
import sys
import time
import traceback

from vt import build as B
from vt import model as M

VERIF = B.VERIF


def jdefault(o):
    try:
        import numpy as np
        if isinstance(o, np.integer):
            return int(o)
        if isinstance(o, np.floating):
            return float(o)
    except Exception:
        pass
    if isinstance(o, (set, frozenset)):
        return sorted(o)
    if isinstance(o, tuple):
        return list(o)
    return repr(o)


def same(a, b):
    """structural equality of outputs, floats compared up to the last bits.  WHY: a composite reward is `sum(parts)`; python's sum is
    compensated for float but not for numpy.float64, and whether a part is one or the other depends on whether an agent coordinate
    is a python int or a numpy integer (reset draws are numpy integers) -- an artefact of the value's history, not of the property.
    Reward parameters are generated with at most 6 decimals and |value| <= 10, so a wrong / missing / misplaced part differs by
    >= 1e-6: the tolerance (1e-9 relative) cannot hide one."""
    if isinstance(a, bool) or isinstance(b, bool):
        return type(a) is type(b) and a == b if isinstance(a, bool) and isinstance(b, bool) else a == b
    fa = isinstance(a, float) or type(a).__name__.startswith('float')
    fb = isinstance(b, float) or type(b).__name__.startswith('float')
    if fa and fb:
        a, b = float(a), float(b)
        return a == b or abs(a - b) <= 1e-9 * max(1.0, abs(a), abs(b))
    if isinstance(a, (list, tuple)) and isinstance(b, (list, tuple)):
        return len(a) == len(b) and all(same(x, y) for x, y in zip(a, b))
    return a == b


class Ctx:
    def __init__(self, prop, tier, seed, level='proof'):
        self.prop = prop
        self.tier = tier
        self.seed = seed
        self.level = level
        self.rng = random.Random(seed)
        self.t0 = time.time()
        self.build = None
        self.model_available = False
        self.evaluations = 0
        self.nontrivial = set()
        self.samples = []
        self.dist = {}                 # histogram name -> {bucket: count}
        self.violations = []           # (what, case dict)
        self.disagreements = []        # (what, case dict)
        self.known = []                # known-finding lines printed
        self.notes = {}
        self.rule = ''
        self.exhaustive = False
        self.trees = 0
        self.tree_leaves = 0
        self.replay_mode = False

    # ---- bookkeeping ----
    def count(self, hist, bucket, n=1):
        h = self.dist.setdefault(hist, {})
        h[str(bucket)] = h.get(str(bucket), 0) + n

    def case(self, key=None, nontrivial=False, sample=None):
        """one evaluated case; key identifies a distinct non-trivial case"""
        self.evaluations += 1
        if nontrivial and key is not None:
            self.nontrivial.add(hashlib.sha1(repr(key).encode()).digest()[:8])
        if sample is not None and len(self.samples) < 6 and (nontrivial or len(self.samples) < 2):
            self.samples.append(sample)

    def violation(self, what, case):
        if len(self.violations) < 50:
            self.violations.append((what, case))

    def disagreement(self, what, case):
        if len(self.disagreements) < 50:
            self.disagreements.append((what, case))

    # ---- model ----
    def model(self, requests):
        if not self.model_available:
            return None
        return M.run_batch(requests)

    # ---- verdict ----
    def write_replay(self, kind, what, case):
        d = os.path.join(VERIF, 'replays')
        os.makedirs(d, exist_ok=True)
        body = {'property': self.prop, 'kind': kind, 'what': what, 'case': case, 'seed': self.seed, 'tier': self.tier}
        txt = json.dumps(body, indent=1, default=jdefault, sort_keys=True)
        h = hashlib.sha1(txt.encode()).hexdigest()[:10]
        path = os.path.join(d, f'{self.prop}-{h}.json')
        with open(path, 'w') as f:
            f.write(txt)
        return os.path.relpath(path, VERIF)

    def finish(self, known_matcher=None):
        out = []
        unknown = []
        for what, case in self.violations:
            k = known_matcher(what, case) if known_matcher else None
            if k:
                line = f'KNOWN-FINDING: property={self.prop} {k}'
                if line not in self.known:
                    self.known.append(line)
            else:
                unknown.append((what, case))
        for line in self.known:
            print(line)
        code = 0
        nviol = 0
        if unknown:
            what, case = unknown[0]
            path = self.write_replay('failing-input', what, case)
            print(f'VIOLATION property={self.prop} replay={path}')
            print(f'  {what}', file=sys.stderr)
            code = 1
            nviol = len(unknown)
        elif self.build is not None and not self.build.ok:
            path = self.write_replay('broken-obligation', f'{self.build.stage}: {self.build.failed_item}',
                                     {'stage': self.build.stage, 'item': self.build.failed_item, 'log': self.build.log[-3000:]})
            print(f'VIOLATION property={self.prop} replay={path} no-failing-input-found')
            print(f'  obligation no longer checks: {self.build.stage}: {self.build.failed_item}', file=sys.stderr)
            code = 1
            nviol = 1
        elif self.disagreements:
            what, case = self.disagreements[0]
            path = self.write_replay('correspondence', what, case)
            print(f'VIOLATION property={self.prop} replay={path} no-failing-input-found')
            print(f'  model and implementation disagree: {what}', file=sys.stderr)
            code = 1
            nviol = len(self.disagreements)
        self.write_evidence(nviol)
        if code == 0:
            print(f'PASS property={self.prop} tier={self.tier} evaluations={self.evaluations} '
                  f'distinct_nontrivial={len(self.nontrivial)} theorems={len(self.build.theorems) if self.build else 0} '
                  f'wall={time.time() - self.t0:.1f}s')
        return code

    def write_evidence(self, nviol):
        b = self.build
        cov = {
            'evaluations': self.evaluations,
            'distinct_nontrivial': len(self.nontrivial),
            'rule': self.rule,
            'samples': self.samples[:6] if self.samples else [{'note': 'no case was generated'}],
            'exhaustive': bool(self.exhaustive),
            'input_distribution': self.dist,
            'disagreements': len(self.disagreements),
            'known_findings': self.known,
            'exhaustive_outcome_trees': self.trees,
            'outcome_tree_leaves': self.tree_leaves,
        }
        cov.update(self.notes)
        if b is not None:
            cov['obligations'] = len(b.theorems)
            cov['discharged'] = sum(1 for n in b.theorems if n in b.assumptions) if b.ok else 0
            cov['checker_cmd'] = b.make_cmd + f'  &&  coqc build/assume/A_{self.prop}.v  (Print Assumptions of every theorem)'
            cov['theorems'] = b.theorems
            cov['print_assumptions'] = b.assumptions
            cov['regenerated_tables'] = b.gen_hashes
            cov['trusted_base'] = TRUSTED_BASE
        if self.level == 'other':
            cov['explanation'] = self.notes.get('explanation', '')
        ev = {
            'property_id': self.prop,
            'tier': self.tier,
            'seed': self.seed,
            'level': self.level,
            'coverage': cov,
            'assumptions': ASSUMPTIONS,
            'wall_s': round(time.time() - self.t0, 2),
            'violations': nviol,
        }
        os.makedirs(os.path.join(VERIF, 'evidence'), exist_ok=True)
        with open(os.path.join(VERIF, 'evidence', f'{self.prop}.json'), 'w') as f:
            json.dump(ev, f, indent=1, default=jdefault, sort_keys=True)


TRUSTED_BASE = [
    'Coq 8.16.1 kernel and vm_compute (no native_compute); every property theorem is "Closed under the global context" (Print Assumptions output is recorded above)',
    'vt/tabulate.py (+ configs.py, rays.py): translator of finite-domain tables of the running code into coq/Gen/*.v',
    'Coq extraction with ExtrOcamlBasic only (no Extract Constant / Extract Inductive of ours), ocamlfind ocamlopt, ocaml/driver.ml (decimal <-> extracted Z)',
    'the Python harness under vt/ (wire encoding, rng proxies, generators, canonicalisation, miniyaml shim), CPython 3.12, numpy',
    'hand-written model coq/Model/*.v: tied to /repo by the correspondence run recorded in this file, not verified against the Python source',
]
ASSUMPTIONS = [
    'numpy Generator calls return any value of their documented range (the Rand choice tree quantifies over all of them)',
    'objects are instances of the registered built-in grid-object types (flags are the generated tables)',
    'the correspondence between model and code is established by differential testing on the generated and exhaustive-small inputs counted above',
]


def main(prop, suite_run, suite_replay=None, known_matcher=None, level='proof', argv=None):
    import argparse
    ap = argparse.ArgumentParser()
    ap.add_argument('--tier', default=os.environ.get('VERIF_TIER', 'quick'))
    ap.add_argument('--replay', default=None)
    args = ap.parse_args(argv)
    tier = args.tier if args.tier in ('quick', 'thorough') else 'quick'
    seed = int(os.environ.get('VERIF_SEED', '0') or 0)
    ctx = Ctx(prop, tier, seed, level)
    try:
        ctx.build = B.ensure_built(prop)
    except Exception:
        r = B.BuildResult()
        ctx.build = r.fail('build', 'build pipeline', traceback.format_exc()[-3000:])
    ctx.model_available = os.path.exists(os.path.join(B.BUILD, 'extract', 'gvmodel')) and (
        ctx.build.ok or ctx.build.stage in ('assumptions',) or _model_fresh())
    try:
        if args.replay:
            ctx.replay_mode = True
            body = json.load(open(args.replay if os.path.isabs(args.replay) else os.path.join(VERIF, args.replay)))
            if suite_replay is None or body.get('kind') == 'broken-obligation':
                print(f'replay: {body.get("kind")}: {body.get("what")}')
                if ctx.build.ok:
                    print('the obligation checks on the current tree')
            else:
                suite_replay(ctx, body['case'])
        else:
            suite_run(ctx)
    except Exception:
        tb = traceback.format_exc()
        print(tb, file=sys.stderr)
        ctx.disagreement('harness exception', {'traceback': tb[-3000:]})
    return ctx.finish(known_matcher)


def _model_fresh():
    """the extracted binary corresponds to the current Gen + Model sources"""
    try:
        return open(os.path.join(B.BUILD, 'extract', 'stamp')).read() == B.model_hash()
    except OSError:
        return False
