"""Environment descriptors: from shipped YAML files and random compositions; running operation sequences on the real
GridWorld with recording generators."""
import copy
import glob
import os

import vt.boot  # noqa: F401
import gym_gridverse.debugging as gvdebug
from gym_gridverse.action import Action
from gym_gridverse.envs.yaml.factory import factory_env_from_data
from gym_gridverse.grid_object import Color, grid_object_registry

from vt import access, comp, gen, impl, miniyaml, wire

REPO = vt.boot.REPO
ACTS = list(Action)
ANAMES = [a.name for a in ACTS]
TYN = {t.__name__: t.type_index() for t in grid_object_registry}


def shipped_files():
    return sorted(glob.glob(os.path.join(REPO, 'yaml', '*.yaml')))


def load_yaml(path):
    return miniyaml.loads(open(path).read())


def reward_desc(d):
    n = d['name']
    if n == 'reduce_sum':
        return {'name': n, 'parts': [reward_desc(x) for x in d['reward_functions']]}
    import inspect
    from gym_gridverse.envs import reward_functions as rewf
    sig = inspect.signature(rewf.reward_function_registry[n])
    params = [float(d[k]) if k in d else sig.parameters[k].default for k in comp.R_PARAMS[n]]
    out = {'name': n, 'params': params}
    if n in comp.R_HAS_TY:
        out['ty'] = TYN[d['object_type']]
    if n in comp.R_HAS_D:
        out['d'] = d.get('distance_function', 'manhattan')
    return out


def term_desc(d):
    n = d['name']
    if n in ('reduce_any', 'reduce_all'):
        return {'name': n, 'parts': [term_desc(x) for x in d['terminating_functions']]}
    out = {'name': n}
    if n == 'overlap':
        out['ty'] = TYN[d['object_type']]
    return out


def reset_desc(d):
    out = {'name': d['name'], 'shape': tuple(d['shape'])}
    for k in ('random_agent', 'random_exit', 'num_obstacles', 'num_rivers', 'num_beacons', 'num_exits'):
        if k in d:
            out[k] = d[k]
    if 'layout' in d:
        out['layout'] = tuple(d['layout'])
    if 'colors' in d:
        out['colors'] = sorted(Color[c].value for c in d['colors'])
    if 'object_type' in d:
        out['object_type'] = TYN[d['object_type']]
    return out


def desc_of_data(data):
    """environment descriptor of a (validated) configuration tree; raises KeyError/ValueError on anything custom"""
    a = data['observation_function']['area']
    return {
        'state_types': [TYN[n] for n in data['state_space']['objects']],
        'state_colors': [Color[c].value for c in data['state_space']['colors']],
        'actions': [ANAMES.index(n) for n in data['action_space']] if 'action_space' in data else list(range(len(ACTS))),
        'obs_types': [TYN[n] for n in data['observation_space']['objects']],
        'obs_colors': [Color[c].value for c in data['observation_space']['colors']],
        'reset': reset_desc(data['reset_function']),
        'trans': [impl.TNAMES.index(t['name']) for t in data['transition_functions']],
        'obs': {'name': data['observation_function']['name'], 'area': (a[0][0], a[0][1], a[1][0], a[1][1])},
        'reward': {'name': 'reduce_sum', 'parts': [reward_desc(r) for r in data['reward_functions']]},
        'term': term_desc(data['terminating_function']),
    }


def shipped_envs():
    """[(file name, yaml data, descriptor)]"""
    out = []
    for f in shipped_files():
        data = load_yaml(f)
        out.append((os.path.basename(f), data, desc_of_data(data)))
    return out


def rand_env(r):
    """a random composition of built-in components over a small `empty` / `dynamic_obstacles` / `keydoor` / `teleport` layout"""
    reset = r.choice([
        {'name': 'empty', 'shape': (r.randint(4, 6), r.randint(4, 6)), 'random_agent': r.random() < 0.5, 'random_exit': r.random() < 0.5},
        {'name': 'dynamic_obstacles', 'shape': (r.randint(4, 6), r.randint(5, 6)), 'num_obstacles': r.randint(0, 3), 'random_agent': r.random() < 0.5},
        {'name': 'keydoor', 'shape': (r.randint(4, 6), r.randint(5, 7))},
        {'name': 'teleport', 'shape': (r.randint(4, 6), r.randint(4, 6))},
        {'name': 'crossing', 'shape': (5, r.choice([5, 7])), 'num_rivers': r.randint(1, 2), 'object_type': TYN['Wall']},
        {'name': 'memory', 'shape': (r.randint(5, 6), r.choice([5, 7])), 'colors': [1, 2, 3]},
    ])
    types = [TYN[n] for n in ('Floor', 'Wall', 'Exit', 'Door', 'Key', 'MovingObstacle', 'Telepod', 'Beacon')]
    colors = [0, 1, 2, 3, 4]
    h = r.randint(1, 5)
    half = r.randint(0, 3)
    oname = r.choice(['fully_transparent', 'partially_occluded', 'raytracing', 'stochastic_raytracing'])
    rtypes = [TYN['Exit']]
    parts = []
    for _ in range(r.randint(1, 4)):
        p = comp.rand_reward(r, rtypes, depth=1)
        if reset['name'] != 'memory' and 'reach_exit_memory' in repr(p):
            continue
        if reset['name'] == 'memory' and any(k in repr(p) for k in ('getting_closer', 'proportional')):
            continue   # two exits: the "unique object" precondition does not hold
        parts.append(p)
    if not parts:
        parts = [{'name': 'living_reward', 'params': [-0.05]}]
    return {
        'state_types': types, 'state_colors': colors,
        'actions': r.choice([list(range(8)), list(range(6)), [0, 4, 5, 6, 7], r.sample(range(8), r.randint(1, 8))]),
        'obs_types': types, 'obs_colors': colors,
        'reset': reset,
        'trans': (tr := [r.randrange(7) for _ in range(r.randint(1, 5))]),
        # one composition in four is written as a chain of chains (same functions, same order)
        'trans_nesting': (lambda n: [k for k in ([n - n // 2, n // 2] if n >= 2 else [n]) if k] if r.random() < 0.25 else None)(len(tr)),
        # one view in four is off-centre (odd width, the agent still inside it): nothing requires the agent in the middle column
        'obs': {'name': oname, 'area': (lambda k: (-(h - 1), 0, -(half + k), half - k))(r.randint(-half, half) if r.random() < (0.5 if oname == 'partially_occluded' else 0.25) else 0)},
        'reward': {'name': 'reduce_sum', 'parts': parts},
        'term': comp.rand_term(r, rtypes + [TYN['MovingObstacle']]),
    }


def run_ops(env, desc, ops, debug, seed):
    """ops: list of (kind, arg); returns (outputs, log, tape).  Outputs are ('ok', canonical) or ('err', name)."""
    gvdebug.reset_gv_debug(debug)
    outs = []
    with impl.Journal(seed) as j:
        access.set_rng(env, j.own)
        access.forget(env)
        for kind, arg in ops:
            try:
                if kind == 'reset':
                    env.reset()
                    outs.append(('ok', ('unit',)))
                elif kind == 'step':
                    rwd, done = env.step(ACTS[arg] if isinstance(arg, int) and 0 <= arg < 8 else arg)
                    outs.append(('ok', ('step', rwd, done)))
                elif kind == 'state':
                    outs.append(('ok', ('state', wire.cstate(env.state))))
                elif kind == 'obs':
                    outs.append(('ok', ('obs', wire.cstate(env.observation))))
            except Exception as e:  # noqa: BLE001
                outs.append(('err', wire.EXN_NAMES.get(wire.exn_code(e), type(e).__name__)))
    gvdebug.reset_gv_debug(None)
    return outs, list(j.log), list(j.tape)


def enc_ops(ops):
    out = [len(ops)]
    for kind, arg in ops:
        out.extend({'reset': [0], 'step': [1, arg], 'state': [2], 'obs': [3]}[kind])
    return out


def env_request(desc, debug, ops, tape):
    return [10, *comp.enc_env(desc), 1 if debug else 0, *enc_ops(ops), *wire.etape(tape)]


def decode_env(desc, ans):
    R = wire.Reader(ans)

    def out():
        tag = R.z()
        if tag == 0:
            return ('unit',)
        if tag == 1:
            v = comp.read_rv(R)
            t = bool(R.z())
            return ('step', comp.eval_rv(desc['reward'], v), t)
        if tag == 2:
            return ('state', R.state())
        if tag == 3:
            return ('obs', R.state())
        raise ValueError(tag)

    kind, val, log = R.outcome(lambda: R.lst(lambda: R.res(out)))
    return kind, val, log


def rand_ops(r, desc, n):
    """operation sequences with arbitrary read patterns, mid-episode resets, occasional steps before reset"""
    ops = []
    if r.random() < 0.15:
        ops.append(r.choice([('step', r.choice(desc['actions'])), ('state', None), ('obs', None)]))
    ops.append(('reset', None))
    pattern = r.choice(['none', 'every', 'repeated', 'mixed'])
    for _ in range(n):
        k = r.random()
        if k < 0.06:
            ops.append(('reset', None))
        else:
            a = r.choice(desc['actions']) if r.random() < 0.95 else r.randrange(8)
            ops.append(('step', a))
        if pattern == 'every':
            ops.append(('obs', None))
        elif pattern == 'repeated':
            ops.extend([('obs', None)] * r.randint(0, 3))
        elif pattern == 'mixed':
            for _ in range(r.randint(0, 2)):
                ops.append(r.choice([('obs', None), ('state', None)]))
    return ops
