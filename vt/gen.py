"""Structured input generators.  Every choice comes from the random.Random passed in (seeded by VERIF_SEED).
Values are canonical forms (see vt/wire.py): objects (ty, st, col, content), grids tuples of rows, states."""
import vt.boot  # noqa: F401
from gym_gridverse.grid_object import Color, grid_object_registry

from vt.tabulate import make_object

COLORS = [c.value for c in Color]
TY = {t.__name__: t.type_index() for t in grid_object_registry}
_SHAPES = {t.type_index(): make_object(t)[1] for t in grid_object_registry}
_NSTATES = {t.type_index(): t.num_states() for t in grid_object_registry}
PLACEABLE = [t.type_index() for t in grid_object_registry if t.__name__ not in ('NoneGridObject', 'Hidden')]
FLOOR = (TY['Floor'], 0, 0, None)
WALL = (TY['Wall'], 0, 0, None)
NONE = (TY['NoneGridObject'], 0, 0, None)
HIDDEN = (TY['Hidden'], 0, 0, None)


def all_objects(types=None, colors=None, depth=1):
    """every constructible object of the given types (boxes nested to `depth`)"""
    types = PLACEABLE if types is None else types
    colors = COLORS if colors is None else colors
    out = []
    for ty in types:
        sh = _SHAPES[ty]
        for st in range(_NSTATES[ty]):
            for col in (colors if 'color' in sh else [0]):
                if 'content' in sh:
                    if depth > 0:
                        inner = [o for o in all_objects([t for t in types if t in PLACEABLE] or PLACEABLE, colors[:2], depth - 1)]
                        for c in inner[:12]:
                            out.append((ty, st, col, c))
                else:
                    out.append((ty, st, col, None))
    return out


def rand_obj(r, types=None, colors=None, depth=2, floor_bias=0.0):
    types = PLACEABLE if types is None else types
    colors = COLORS if colors is None else colors
    if floor_bias and r.random() < floor_bias and TY['Floor'] in types:
        return FLOOR
    ty = r.choice(types)
    sh = _SHAPES[ty]
    st = r.randrange(_NSTATES[ty])
    col = r.choice(colors) if 'color' in sh else 0
    content = None
    if 'content' in sh:
        inner_types = [t for t in types if t in PLACEABLE and (depth > 0 or 'content' not in _SHAPES[t])]
        if not inner_types:
            inner_types = [TY['Floor']]
        content = rand_obj(r, inner_types, colors, depth - 1) if depth > 0 else FLOOR
    return (ty, st, col, content)


def rand_grid(r, h, w, types=None, colors=None, floor_bias=0.5):
    return tuple(tuple(rand_obj(r, types, colors, floor_bias=floor_bias) for _ in range(w)) for _ in range(h))


def rand_shape(r, lo=1, hi=8):
    if r.random() < 0.3:
        n = r.randint(lo, hi)
        return n, n
    return r.randint(lo, hi), r.randint(lo, hi)


def rand_pose(r, h, w, edge_bias=0.6):
    """agent pose inside the grid, biased to edges and corners"""
    if r.random() < edge_bias:
        y = r.choice([0, h - 1])
        x = r.choice([0, w - 1]) if r.random() < 0.4 else r.randrange(w)
        if r.random() < 0.5:
            y, x = (r.randrange(h), r.choice([0, w - 1]))
    else:
        y, x = r.randrange(h), r.randrange(w)
    return (y, x), r.randrange(4)


def rand_held(r, types=None, colors=None):
    k = r.random()
    if k < 0.35:
        return NONE
    if k < 0.75:
        return (TY['Key'], 0, r.choice(colors or COLORS), None)
    return rand_obj(r, types, colors, depth=1)


def rand_state(r, types=None, colors=None, lo=1, hi=8, floor_bias=0.5):
    h, w = rand_shape(r, lo, hi)
    g = rand_grid(r, h, w, types, colors, floor_bias)
    p, o = rand_pose(r, h, w)
    return (g, p, o, rand_held(r, types, colors))


def set_cell(cg, p, c):
    y, x = p
    return tuple(tuple(c if (i, j) == (y, x) else cell for j, cell in enumerate(row)) for i, row in enumerate(cg))


def shape_of(cg):
    return len(cg), len(cg[0])


def show_obj(c):
    names = {t.type_index(): t.__name__ for t in grid_object_registry}
    ty, st, col, content = c
    s = names[ty]
    extra = []
    if _NSTATES[ty] > 1:
        extra.append(f'st{st}')
    if col:
        extra.append(Color(col).name)
    if content is not None:
        extra.append(show_obj(content))
    return s + ('(' + ','.join(extra) + ')' if extra else '')


def show_state(cs):
    g, p, o, held = cs
    return {'grid': [[show_obj(c) for c in row] for row in g], 'agent': list(p), 'heading': 'FBLR'[o], 'held': show_obj(held)}
